import PebblesVerif.Proofs.Merge
import PebblesVerif.Proofs.MergeWitness
import PebblesVerif.Proofs.TypeURLMap
/-!
What the property files C03, C04, C05 share: the predicates their statements use (`NodeAgree`,
`Routable`, `Loaded`, `Rejected2`, `Visible`, `Accepted`, …) and the theorems about the repaired
tree `E` that the `Cxx_*` theorems instantiate at the regenerated `facts`. Core Lean only.
-/
namespace PebblesVerif.Merge
open PebblesVerif PebblesVerif.SchemaUnion PebblesVerif.TUM
open PebblesVerif.Gen.Merge

/-- all definitions named `Node` across the inputs have the same items -/
def NodeAgree (ins : List MergeInput) : Prop :=
  ∀ i ∈ ins, ∀ j ∈ ins, ∀ x ∈ i.schema.types, ∀ y ∈ j.schema.types,
    x.name = nodeInterfaceName → y.name = nodeInterfaceName → Covers x y

instance (d r : TypeDef) : Decidable (Covers d r) := by unfold Covers; infer_instance
instance (ins : List MergeInput) : Decidable (NodeAgree ins) := by unfold NodeAgree; infer_instance
instance (S : Schema) : Decidable (RootsAreObjects S) := by unfold RootsAreObjects; infer_instance
instance (S : Schema) : Decidable (TypesNodup S) := by unfold TypesNodup; infer_instance
instance (l : List Schema) : Decidable (DirectivesAgree l) := by unfold DirectivesAgree; infer_instance
instance (l : List Schema) (R : Schema) : Decidable (SchemaUnion.Superset l R) := by unfold SchemaUnion.Superset; infer_instance
instance {ε α : Type} (x : Except ε α) (P : α → Prop) [∀ a, Decidable (P a)] : Decidable (∃ a, x = .ok a ∧ P a) :=
  match x with
  | .ok a => if h : P a then isTrue ⟨a, rfl, h⟩ else isFalse (fun ⟨b, hb, hp⟩ => by cases hb; exact h hp)
  | .error _ => isFalse (fun ⟨_, hb, _⟩ => by cases hb)

theorem nodeAgree_inInputs {i0 : MergeInput} {rest : List MergeInput} (h : NodeAgree (i0 :: rest))
    {d x : TypeDef} (hd : InInputs (i0 :: rest) d) (hx : x ∈ i0.schema.types ∨ InInputs rest x)
    (hdn : d.name = nodeInterfaceName) (hxn : x.name = nodeInterfaceName) : Covers d x := by
  obtain ⟨i, hi, hdi⟩ := hd
  rcases hx with hx | ⟨j, hj, hxj⟩
  · exact h i hi i0 List.mem_cons_self d hdi x hx hdn hxn
  · exact h i hi j (List.mem_cons_of_mem _ hj) d hdi x hxj hdn hxn

/-- what `mergeSchema` is made of, once it succeeded -/
theorem mergeSchema_ok {i0 : MergeInput} {rest : List MergeInput} {R : Schema}
    (h : mergeSchema E (i0 :: rest) = .ok R) :
    ∃ types, foldInputs E i0.schema.types i0.schema i0.schema rest = .ok types ∧
      R.types = refillUnions (mergePossibleTypes ((i0 :: rest).map (·.schema)) types) types ∧
      R.directives = mergeDirectives ((i0 :: rest).map (·.schema)) := by
  simp only [mergeSchema, bind, Except.bind, pure, Except.pure] at h
  split at h
  · cases h
  · rename_i types ht
    cases h
    exact ⟨types, ht, rfl, rfl⟩

/-- every non-`__` definition of every input is covered by a definition of the result (for a
    definition named `Node`: if the inputs agree on `Node`) -/
theorem covered {ins : List MergeInput} {R : Schema} (h : mergeSchema E ins = .ok R)
    (hroot : ∀ i ∈ ins, RootsAreObjects i.schema) {i : MergeInput} (hi : i ∈ ins) {d : TypeDef}
    (hd : d ∈ i.schema.types) (hb : isBuiltinName d.name = false)
    (hnode : d.name = nodeInterfaceName → NodeAgree ins) : ∃ r ∈ R.types, Covers d r := by
  cases ins with
  | nil => cases h
  | cons i0 rest =>
    obtain ⟨types, ht, hR, _⟩ := mergeSchema_ok h
    have IF := foldInputs_spec rest _ _ _ _ ht (fun i hi => hroot i (List.mem_cons_of_mem _ hi))
    have : ∃ r ∈ types, Covers d r := by
      rcases List.mem_cons.mp hi with rfl | hi'
      · exact IF.keeps d hd
      · apply IF.adds i hi' d hd hb
        intro hN x hx hxN
        exact nodeAgree_inInputs (hnode hN) ⟨i, hi, hd⟩ hx hN hxN
    obtain ⟨r, hr, hc⟩ := this
    refine ⟨_, ?_, Covers.trans hc (refill_covers (mergePossibleTypes ((i0 :: rest).map (·.schema)) types) r)⟩
    rw [hR]
    exact List.mem_map_of_mem (f := fun d => if d.kind == .union && d.members.isEmpty then
      { d with members := assocGet (mergePossibleTypes ((i0 :: rest).map (·.schema)) types) d.name } else d) hr

/-- keys of the result are distinct when those of the first input are -/
theorem result_nodup {i0 : MergeInput} {rest : List MergeInput} {R : Schema} (h : mergeSchema E (i0 :: rest) = .ok R)
    (hroot : ∀ i ∈ i0 :: rest, RootsAreObjects i.schema) (hnd : TypesNodup i0.schema) : (R.types.map (·.name)).Nodup := by
  obtain ⟨types, ht, hR, _⟩ := mergeSchema_ok h
  have IF := foldInputs_spec rest _ _ _ _ ht (fun i hi => hroot i (List.mem_cons_of_mem _ hi))
  rw [hR, refillUnions_names]
  exact IF.nodup hnd

/-- C03, superset: every type, field (result type, default), argument (type, default), enum value,
    union member, implemented interface and directive definition of every input is in the merged
    schema — provided the services agree on `Node` itself and on same-named directive
    definitions (the two open findings). `RootsAreObjects` is a fact of every loaded schema. -/
theorem superset_E (ins : List MergeInput) (R : Schema) (h : mergeSchema E ins = .ok R)
    (hroot : ∀ i ∈ ins, RootsAreObjects i.schema) (hnode : NodeAgree ins)
    (hdir : DirectivesAgree (ins.map (·.schema))) : SchemaUnion.Superset (ins.map (·.schema)) R := by
  cases ins with
  | nil => cases h
  | cons i0 rest =>
    obtain ⟨types, ht, hR, hD⟩ := mergeSchema_ok h
    constructor
    · intro S hS d hd hb it hit
      obtain ⟨i, hi, rfl⟩ := List.mem_map.mp hS
      obtain ⟨r, hr, hc⟩ := covered h hroot hi hd hb (fun _ => hnode)
      simp only [typesItems, List.mem_flatMap]
      exact ⟨r, hr, hc it hit⟩
    · intro S hS dd hdd
      rw [hD]
      unfold mergeDirectives
      apply mergeDirectives_keeps
      · intro S' hS' d' hd' hn
        exact hdir S' hS' S hS d' hd' dd hdd hn
      · exact Or.inr ⟨S, hS, hdd⟩

/-- C03, nothing invented: every item of the merged schema is an item of some input (a member of
    a refilled "broken" union comes from some input's `PossibleTypes` of that union), every
    directive definition is some input's. Full. -/
theorem noInvention_E (ins : List MergeInput) (R : Schema) (h : mergeSchema E ins = .ok R)
    (hroot : ∀ i ∈ ins, RootsAreObjects i.schema) : NoInvention (ins.map (·.schema)) R := by
  cases ins with
  | nil => cases h
  | cons i0 rest =>
    obtain ⟨types, ht, hR, hD⟩ := mergeSchema_ok h
    have IF := foldInputs_spec rest _ _ _ _ ht (fun i hi => hroot i (List.mem_cons_of_mem _ hi))
    constructor
    · intro it hit
      rw [hR] at hit
      simp only [typesItems, List.mem_flatMap] at hit
      obtain ⟨r', hr', hit'⟩ := hit
      obtain ⟨d, hd, rfl⟩ := mem_refillUnions hr'
      rcases refill_items _ d it hit' with hi | ⟨m, rfl, hm⟩
      · left
        rcases IF.noInv d hd it hi with ⟨d0, hd0, hi0⟩ | ⟨d0, ⟨j, hj, hdj⟩, hi0⟩
        · exact ⟨i0.schema, by simp, by simp only [typesItems, List.mem_flatMap]; exact ⟨d0, hd0, hi0⟩⟩
        · exact ⟨j.schema, List.mem_map_of_mem (List.mem_cons_of_mem _ hj),
            by simp only [typesItems, List.mem_flatMap]; exact ⟨d0, hdj, hi0⟩⟩
      · right
        exact ⟨d.name, m, rfl, mem_mergePossibleTypes hm⟩
    · intro dd hdd
      rw [hD] at hdd
      unfold mergeDirectives at hdd
      rcases mergeDirectives_noInv _ _ _ hdd with h' | h'
      · cases h'
      · exact h'

/-- C03, Node types: a type that some service declares as an object implementing `Node` appears
    exactly once in the merged schema, as an object implementing `Node`, and its fields (name,
    result type, default) are exactly the fields the services declare on it. Full (the name is
    not `Node` itself and not a `__…` name; `TypesNodup` is a fact of every loaded schema). -/
theorem nodeUnion_E (ins : List MergeInput) (R : Schema) (h : mergeSchema E ins = .ok R)
    (hroot : ∀ i ∈ ins, RootsAreObjects i.schema) (hnd : ∀ i ∈ ins, TypesNodup i.schema)
    (T : String) (hb : isBuiltinName T = false) (hT : T ≠ nodeInterfaceName)
    (i : MergeInput) (hi : i ∈ ins) (d : TypeDef) (hd : d ∈ i.schema.types) (hdn : d.name = T)
    (hdk : d.kind = .object) (hdN : implementsNode d = true) :
    ∃ r ∈ R.types, r.name = T ∧ r.kind = .object ∧ implementsNode r = true ∧
      (R.types.map (·.name)).count T = 1 ∧
      (∀ j ∈ ins, ∀ d' ∈ j.schema.types, d'.name = T → ∀ f ∈ d'.fields, isBuiltinName f.name = false →
        ∃ g ∈ r.fields, g.name = f.name ∧ g.type = f.type ∧ g.default = f.default) ∧
      (∀ g ∈ r.fields, isBuiltinName g.name = false →
        ∃ j ∈ ins, ∃ d' ∈ j.schema.types, d'.name = T ∧ ∃ f ∈ d'.fields, f.name = g.name ∧ f.type = g.type ∧ f.default = g.default) := by
  have hNI := noInvention_E ins R h hroot
  obtain ⟨r, hr, hc⟩ := covered h hroot hi hd (hdn ▸ hb) (fun hN => absurd (hdn ▸ hN) hT)
  have hty := type_item_mem.mp (hc _ (type_item_mem.mpr ⟨rfl, rfl⟩))
  have hrn : r.name = T := hty.1.trans hdn
  have hrk : r.kind = .object := hty.2.trans hdk
  have hnodup : (R.types.map (·.name)).Nodup := by
    cases ins with
    | nil => cases h
    | cons i0 rest => exact result_nodup h hroot (hnd i0 List.mem_cons_self)
  have hiface : implementsNode r = true := by
    have : Item.iface d.name nodeInterfaceName ∈ defItems d :=
      iface_item_mem.mpr ⟨rfl, by rw [hdk]; rfl, by simpa [implementsNode] using hdN⟩
    have := iface_item_mem.mp (hc _ this)
    simpa [implementsNode] using this.2.2
  refine ⟨r, hr, hrn, hrk, hiface, ?_, ?_, ?_⟩
  · rw [hnodup.count, if_pos (hrn ▸ List.mem_map_of_mem hr)]
  · intro j hj d' hd' hd'n f hf hfb
    obtain ⟨r', hr', hc'⟩ := covered h hroot hj hd' (hd'n ▸ hb) (fun hN => absurd (hd'n ▸ hN) hT)
    have hty' := type_item_mem.mp (hc' _ (type_item_mem.mpr ⟨rfl, rfl⟩))
    have : r' = r := eq_of_nodup_name hnodup hr' hr (by rw [hty'.1, hd'n, hrn])
    subst this
    have hk' : d'.kind = .object := hty'.2.symm.trans hrk
    have := field_item_mem.mp (hc' _ (field_item_mem.mpr ⟨rfl, by rw [hk']; rfl, f, hf, hfb, rfl, rfl, rfl⟩))
    obtain ⟨_, _, g, hg, _, h1, h2, h3⟩ := this
    exact ⟨g, hg, h1, h2, h3⟩
  · intro g hg hgb
    have hit : Item.field T g.name g.type g.default ∈ typesItems R.types := by
      simp only [typesItems, List.mem_flatMap]
      exact ⟨r, hr, field_item_mem.mpr ⟨hrn, by rw [hrk]; rfl, g, hg, hgb, rfl, rfl, rfl⟩⟩
    rcases hNI.1 _ hit with ⟨S, hS, hSi⟩ | ⟨_, _, hcontra, _⟩
    · obtain ⟨j, hj, rfl⟩ := List.mem_map.mp hS
      simp only [typesItems, List.mem_flatMap] at hSi
      obtain ⟨d', hd', hd'i⟩ := hSi
      obtain ⟨h1, _, f, hf, _, h2, h3, h4⟩ := field_item_mem.mp hd'i
      exact ⟨j, hj, d', hd', h1, f, hf, h2, h3, h4⟩
    · cases hcontra

/-- the conclusion of the full superset statement, with the facts of every loaded schema as the
    only hypotheses -/
def SupersetFailsAt (F : Facts) (ins : List MergeInput) : Prop :=
  (∀ i ∈ ins, RootsAreObjects i.schema) ∧ (∀ i ∈ ins, TypesNodup i.schema) ∧
    ∃ R, mergeSchema F ins = .ok R ∧ ¬ SchemaUnion.Superset (ins.map (·.schema)) R

instance (F : Facts) (ins : List MergeInput) : Decidable (SupersetFailsAt F ins) := by
  unfold SupersetFailsAt; infer_instance

/-- routable field of a definition -/
def Routable (F : Facts) (d : TypeDef) (g : FieldDef) : Prop :=
  d.kind = .object ∧ isBuiltinName d.name = false ∧ isBuiltinName g.name = false ∧ g.name ≠ idFieldName ∧
    ¬ (isRootName d.name = true ∧ isNodeField F g = true)

theorem stores_of_routable {F : Facts} (hF : F.tumNodeFieldRootOnly = true) {i : MergeInput} {d : TypeDef} {g : FieldDef}
    (hd : d ∈ i.schema.types) (hg : g ∈ d.fields) (hr : Routable F d g) : Stores F i.schema.types d.name g.name := by
  obtain ⟨hk, hb, hgb, hid, hnode⟩ := hr
  refine ⟨d, hd, rfl, hk, hb, g, hg, rfl, ?_, hid⟩
  unfold skipsField
  simp only [hF, ↓reduceIte, hgb, Bool.false_or, Bool.and_eq_false_iff]
  by_cases h1 : isRootName d.name = true
  · right
    cases h2 : isNodeField F g
    · rfl
    · exact absurd ⟨h1, h2⟩ hnode
  · left; simpa using h1

/-- merge succeeded ⇒ no two services declare the same root field (the field named `node` aside) -/
theorem root_fields_disjoint {ins : List MergeInput} {R : Schema} (h : mergeSchema E ins = .ok R)
    (hroot : ∀ i ∈ ins, RootsAreObjects i.schema) (hnd : ∀ i ∈ ins, TypesNodup i.schema) : ins.Pairwise NoRootClash := by
  cases ins with
  | nil => exact List.Pairwise.nil
  | cons i0 rest =>
    obtain ⟨types, ht, _, _⟩ := mergeSchema_ok h
    obtain ⟨hA, hB⟩ := foldInputs_clash rest _ _ _ _ ht (hnd i0 List.mem_cons_self)
      (fun i hi => hroot i (List.mem_cons_of_mem _ hi))
    rw [List.pairwise_cons]
    refine ⟨?_, hB⟩
    intro j hj T f hT hb hdi hdj
    apply hA j hj T f hT hb _ hdj
    obtain ⟨d, hd, hdn, g, hg, hgn⟩ := hdi
    exact ⟨d, hd, hdn, hroot i0 List.mem_cons_self d hd (hdn ▸ hT), g, hg, hgn⟩

theorem noRootClash_symm {i j : MergeInput} (h : NoRootClash i j) : NoRootClash j i :=
  fun T f hT hb hj hi => h T f hT hb hi hj

theorem pairwise_mem {l : List MergeInput} (h : l.Pairwise NoRootClash) {i j : MergeInput} (hi : i ∈ l) (hj : j ∈ l)
    (hne : i ≠ j) : NoRootClash i j := by
  induction l with
  | nil => cases hi
  | cons x xs ih =>
    rw [List.pairwise_cons] at h
    rcases List.mem_cons.mp hi with hix | hi'
    · rcases List.mem_cons.mp hj with hjx | hj'
      · exact absurd (hix.trans hjx.symm) hne
      · exact hix ▸ h.1 j hj'
    · rcases List.mem_cons.mp hj with hjx | hj'
      · exact hjx ▸ noRootClash_symm (h.1 i hi')
      · exact ih h.2 hi' hj'

/-- facts of every schema gqlparser loads -/
structure Loaded (S : Schema) : Prop where
  types : TypesNodup S
  fields : FieldsNodup S
  roots : RootsAreObjects S

def Rejected2 (F : Facts) (A B : MergeInput) : Prop :=
  (∃ e, mergeSchema F [A, B] = .error e) ∧ (∃ e, mergeSchema F [B, A] = .error e)

theorem rejected2_of {A B : MergeInput} (hA : Loaded A.schema) (hB : Loaded B.schema) {a b : TypeDef}
    (hs : Shared A.schema B.schema a b)
    (h1 : ∃ e, mergeDef E A.schema B.schema a b = .error e) (h2 : ∃ e, mergeDef E B.schema A.schema b a = .error e) :
    Rejected2 E A B := by
  obtain ⟨ha, hb, hn, hbn, _⟩ := hs
  unfold Rejected2
  exact ⟨reject_pair hA.types hB.types ha hb hn (hn ▸ hbn) h1, reject_pair hB.types hA.types hb ha hn.symm hbn h2⟩

theorem composite_not {k : Kind} (h : composite k = true) : k ≠ .scalar ∧ k ≠ .union := by
  cases k <;> simp [composite] at h ⊢

/-- shared composite non-root type on which `mergeCustomObjectFields(a, b)` fails -/
theorem rejected2_custom {A B : MergeInput} (hA : Loaded A.schema) (hB : Loaded B.schema) {a b : TypeDef}
    (hs : Shared A.schema B.schema a b) (hk : a.kind = b.kind) (hc : composite a.kind = true)
    (hr : isRootName a.name = false)
    (herr : implementsNode a = implementsNode b → ∃ e, mergeCustomObjectFields E a b = .error e) : Rejected2 E A B := by
  obtain ⟨hcs, hcu⟩ := composite_not hc
  have hn := hs.2.2.1
  have hN := hs.2.2.2.2
  apply rejected2_of hA hB hs
  · apply mergeDef_err_of hn (hn ▸ hN) hk.symm (hk ▸ hcs) (hk ▸ hcu)
    · intro h; rw [← hn, hr] at h; cases h
    · intro _ hi; exact mergeCustomObjects_err_right (herr hi.symm)
  · apply mergeDef_err_of hn.symm hN hk hcs hcu
    · intro h; rw [hr] at h; cases h
    · intro _ hi; exact mergeCustomObjects_err_left (herr hi)

theorem perm_two_dir {A B : MergeInput} (hA : Loaded A.schema) (hB : Loaded B.schema)
    (h : ∃ R, mergeSchema E [A, B] = .ok R) : ∃ R, mergeSchema E [B, A] = .ok R := by
  rw [mergeSchema_two_ok_iff, mergeTypes_ok_iff _ _ hB.types] at h
  rw [mergeSchema_two_ok_iff, mergeTypes_ok_iff _ _ hA.types]
  intro va hva hb vb hl
  obtain ⟨hvb, hvbn⟩ := lookup_some hl
  have hl' : lookup A.schema.types vb.name = some va := hvbn ▸ lookup_of_nodup hA.types hva
  exact mergeDef_ok_symm hvbn.symm (hA.fields va hva) (hB.fields vb hvb) (h vb hvb (hvbn ▸ hb) va hl')

/-- the type an item belongs to -/
def _root_.PebblesVerif.SchemaUnion.Item.owner : Item → String
  | .type n _ => n
  | .field T _ _ _ => T
  | .arg T _ _ _ _ => T
  | .enumValue T _ => T
  | .member U _ => U
  | .iface T _ => T

theorem defItems_owner {d : TypeDef} {it : Item} (h : it ∈ defItems d) : it.owner = d.name := by
  simp only [defItems, List.mem_cons, List.mem_append] at h
  rcases h with rfl | ((((h | h) | h)) | h)
  · rfl
  · split at h
    · simp only [List.mem_flatMap, List.mem_filter, fieldItems, List.mem_cons, List.mem_map] at h
      obtain ⟨f, _, rfl | ⟨a, _, rfl⟩⟩ := h <;> rfl
    · cases h
  · split at h
    · simp only [List.mem_map] at h; obtain ⟨e, _, rfl⟩ := h; rfl
    · cases h
  · split at h
    · simp only [List.mem_map] at h; obtain ⟨e, _, rfl⟩ := h; rfl
    · cases h
  · split at h
    · simp only [List.mem_map] at h; obtain ⟨e, _, rfl⟩ := h; rfl
    · cases h

/-- an item of a definition whose name is not `__…` -/
def Visible (ts : List TypeDef) (it : Item) : Prop := ∃ r ∈ ts, isBuiltinName r.name = false ∧ it ∈ defItems r

/-- after a successful merge the visible items of the result (union members aside: a refilled
    "broken" union takes them from `PossibleTypes`) are exactly the visible items of the inputs -/
theorem visible_iff {l : List MergeInput} {R : Schema} (h : mergeSchema E l = .ok R)
    (hroot : ∀ i ∈ l, RootsAreObjects i.schema) (hnode : NodeAgree l) (hdir : DirectivesAgree (l.map (·.schema)))
    (it : Item) (hm : ∀ U m, it ≠ .member U m) :
    Visible R.types it ↔ ∃ i ∈ l, Visible i.schema.types it := by
  have hsup := superset_E l R h hroot hnode hdir
  have hni := noInvention_E l R h hroot
  constructor
  · rintro ⟨r, hr, hb, hit⟩
    have : it ∈ typesItems R.types := by simp only [typesItems, List.mem_flatMap]; exact ⟨r, hr, hit⟩
    rcases hni.1 it this with ⟨S, hS, hSi⟩ | ⟨U, m, he, _⟩
    · obtain ⟨i, hi, rfl⟩ := List.mem_map.mp hS
      simp only [typesItems, List.mem_flatMap] at hSi
      obtain ⟨d, hd, hdi⟩ := hSi
      refine ⟨i, hi, d, hd, ?_, hdi⟩
      rw [← defItems_owner hdi, defItems_owner hit]; exact hb
    · exact absurd he (hm U m)
  · rintro ⟨i, hi, d, hd, hb, hdi⟩
    have := hsup.1 i.schema (List.mem_map_of_mem hi) d hd hb it hdi
    simp only [typesItems, List.mem_flatMap] at this
    obtain ⟨r, hr, hri⟩ := this
    refine ⟨r, hr, ?_, hri⟩
    rw [← defItems_owner hri, defItems_owner hdi]; exact hb

def Accepted (F : Facts) (l : List MergeInput) : Prop := ∃ R, mergeSchema F l = .ok R
instance (F : Facts) (l : List MergeInput) : Decidable (Accepted F l) :=
  match h : mergeSchema F l with
  | .ok R => isTrue ⟨R, h⟩
  | .error _ => isFalse (fun ⟨R, hR⟩ => by rw [h] at hR; cases hR)

instance (S : Schema) : Decidable (FieldsNodup S) := by unfold FieldsNodup; infer_instance


/-! ## where the entries of a merged map come from -/

/-- the new root field list has distinct names when the base has -/
theorem rootFold_nodup {n : String} : ∀ (l fs0 fs : List FieldDef), l.foldlM (rootStep E n) fs0 = .ok fs →
    (fs0.map (·.name)).Nodup → (fs.map (·.name)).Nodup
  | [], _, _, h, hn => by simp only [List.foldlM_nil] at h; cases h; exact hn
  | x :: l, fs0, fs, h, hn => by
    obtain ⟨s1, h1, h2⟩ := foldlM_cons_ok h
    apply rootFold_nodup l s1 fs h2
    rcases rootStep_cases h1 with ⟨rfl, _⟩ | ⟨rfl, _⟩ | ⟨rfl, _, hnone⟩
    · exact hn
    · exact hn
    · rw [List.map_append, List.nodup_append]
      refine ⟨hn, by simp, ?_⟩
      intro a ha b hb
      simp only [List.map_cons, List.map_nil, List.mem_singleton] at hb
      subst hb
      obtain ⟨y, hy, hya⟩ := List.mem_map.mp ha
      exact hya ▸ fieldNamed_none hnone y hy

/-- every entry of the result is an entry of `a`, an entry of `b`, or `mergeDef` of the entry of
    `a` and the entry of `b` of one name (keys of `b` distinct) -/
theorem mergeTypes_provenance {as bs : Schema} : ∀ (b a r : List TypeDef), mergeTypes E a b as bs = .ok r →
    (b.map (·.name)).Nodup →
    ∀ d ∈ r, d ∈ a ∨ d ∈ b ∨ ∃ vb ∈ b, ∃ va, lookup a vb.name = some va ∧ mergeDef E as bs va vb = .ok (some d)
  | [], a, r, h, _ => by
    simp only [mergeTypes, List.foldlM_nil] at h; cases h
    intro d hd; exact Or.inl hd
  | v :: b, a, r, h, hn => by
    simp only [List.map_cons, List.nodup_cons] at hn
    obtain ⟨res1, h1, h2⟩ := foldlM_cons_ok (f := mergeOne E as bs) h
    intro d hd
    rcases mergeTypes_provenance b res1 r h2 hn.2 d hd with hd1 | hdb | ⟨vb, hvb, va, hl, hm⟩
    · rcases mergeOne_cases h1 with ⟨_, rfl⟩ | ⟨_, _, rfl⟩ | ⟨_, va, hl, hcase⟩
      · exact Or.inl hd1
      · rcases List.mem_append.mp hd1 with h' | h'
        · exact Or.inl h'
        · simp only [List.mem_singleton] at h'; exact Or.inr (Or.inl (h' ▸ List.mem_cons_self))
      · rcases hcase with ⟨_, rfl⟩ | ⟨d', hm, rfl⟩
        · exact Or.inl hd1
        · rcases mem_setType hd1 with rfl | h'
          · exact Or.inr (Or.inr ⟨v, List.mem_cons_self, va, hl, hm⟩)
          · exact Or.inl h'
    · exact Or.inr (Or.inl (List.mem_cons_of_mem _ hdb))
    · have hne : v.name ≠ vb.name := fun he => hn.1 (he ▸ List.mem_map_of_mem hvb)
      rw [mergeOne_lookup_ne h1 hne] at hl
      exact Or.inr (Or.inr ⟨vb, List.mem_cons_of_mem _ hvb, va, hl, hm⟩)

/-- `mergeDef` does not look at `as`, `bs` (the interface check compares a list with itself) -/
theorem mergeDef_schemas_irrelevant {as bs as' bs' : Schema} {va vb : TypeDef} (hn : va.name = vb.name)
    (h : ∃ od, mergeDef E as bs va vb = .ok od) : ∃ od, mergeDef E as' bs' va vb = .ok od := by
  rw [mergeDef_ok_iff hn] at h ⊢; exact h

end PebblesVerif.Merge
