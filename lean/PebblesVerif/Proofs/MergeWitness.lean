import PebblesVerif.Spec.SchemaUnion
/-! Small concrete service schemas used by the negative witnesses and the non-vacuity examples of
C03, C04, C05 (evaluated by the kernel with `decide`). Core Lean only. -/
namespace PebblesVerif.Merge.W
open PebblesVerif PebblesVerif.Merge

def tInt : TypeRef := .named "Int"
def tStr : TypeRef := .named "String"
def tIDnn : TypeRef := .nonNull (.named "ID")
def fld (n : String) (t : TypeRef) : FieldDef := { name := n, args := [], type := t }
def idF : FieldDef := fld "id" tIDnn
/-- `name(id: ID!): Node` -/
def nodeShaped (n : String) : FieldDef := { name := n, args := [{ name := "id", type := tIDnn, default := none }], type := .named "Node" }
def obj (n : String) (fs : List FieldDef) (ifaces : List String := []) : TypeDef :=
  { name := n, kind := .object, fields := fs, interfaces := ifaces }
def nodeI (fs : List FieldDef := [idF]) : TypeDef := { name := "Node", kind := .interface, fields := fs }
def svc (url : String) (ts : List TypeDef) (ds : List DirDef := []) : MergeInput := { schema := { types := ts, directives := ds }, url := url }

/-- `Query.node` when the later service lacks it -/
def nodeLost : List MergeInput :=
  [svc "a" [obj "A" [idF, fld "a" tInt] ["Node"], nodeI, obj "Query" [nodeShaped "node", fld "a" (.named "A")]],
   svc "b" [obj "Query" [fld "b" tInt]]]

/-- two services, two different `Node` interfaces -/
def nodeDefs : List MergeInput :=
  [svc "a" [nodeI, obj "Query" [fld "x" (.named "X")], obj "X" [idF, fld "p" tInt] ["Node"]],
   svc "b" [nodeI [idF, fld "rev" tInt], obj "Query" [fld "y" (.named "Y")], obj "Y" [idF, fld "rev" tInt] ["Node"]]]

/-- one directive name, two definitions -/
def dirConflict : List MergeInput :=
  [svc "a" [obj "Query" [fld "a" tInt]] [{ name := "dx", args := [{ name := "x", type := tInt, default := none }], locations := ["FIELD_DEFINITION"] }],
   svc "b" [obj "Query" [fld "b" tInt]] [{ name := "dx", args := [{ name := "y", type := tStr, default := none }], locations := ["FIELD_DEFINITION", "OBJECT"] }]]

def sXY (u q : String) : MergeInput := svc u [obj "Query" [fld q (.named "T")], obj "T" [fld "x" tInt, fld "y" tInt]]
def sZ (u q : String) : MergeInput := svc u [obj "Query" [fld q (.named "T")], obj "T" [fld "z" tInt]]
/-- `T{x,y}`, `T{x,y}`, `T{z}`: accepted in this order -/
def order3 : List MergeInput := [sXY "a" "a", sXY "b" "b", sZ "c" "c"]
/-- … rejected in this one -/
def order3' : List MergeInput := [sXY "a" "a", sZ "c" "c", sXY "b" "b"]

/-- the same field with two types -/
def diffType : List MergeInput :=
  [svc "a" [obj "Query" [fld "a" (.named "T")], obj "T" [fld "x" tInt]],
   svc "b" [obj "Query" [fld "b" (.named "T")], obj "T" [fld "x" tStr]]]
def diffType' : List MergeInput := diffType.reverse

/-- `T{id,x}` and `T{x}`: neither identical nor disjoint -/
def idLost : List MergeInput :=
  [svc "a" [obj "Query" [fld "a" (.named "T")], obj "T" [idF, fld "x" tInt]],
   svc "b" [obj "Query" [fld "b" (.named "T")], obj "T" [fld "x" tInt]]]

/-- a field with the signature of `node` under another name -/
def nodeShapedField : List MergeInput :=
  [svc "a" [obj "A" [idF, fld "a" tInt] ["Node"], nodeI, obj "Query" [nodeShaped "getNode", nodeShaped "node"]]]

/-- no service declares `Query` -/
def noQuery : List MergeInput := [svc "a" [obj "Mutation" [fld "m" tInt]]]

/-- a plain mergeable pair: a Node type split field-wise, a shared value type, disjoint roots -/
def plain : List MergeInput :=
  [svc "a" [obj "A" [idF, fld "a" tInt] ["Node"], nodeI, obj "Query" [nodeShaped "node", fld "qa" (.named "A")], obj "V" [fld "v" tInt]],
   svc "b" [obj "A" [idF, fld "b" tStr] ["Node"], nodeI, obj "Query" [nodeShaped "node", fld "qb" (.named "V")], obj "V" [fld "v" tInt]]]

end PebblesVerif.Merge.W
