import PebblesVerif.Model.Exec
import PebblesVerif.Proofs.Flat3
/-!
End-to-end proof for the "flat mutation" family (C06_flat_mutation_calls), stage by stage.

Family: the client operation `mutation { m₁ … mₙ }` — n ≥ 1 distinct root fields of `Mutation`,
no arguments, alias = name, each a leaf field, field `mᵢ` owned by the service the type-URL map
names. Unbounded in n, in the number of services and in the interleaving of owners.

This file: definitions (family, expected plan, expected calls, the reference walk `run`).
-/
namespace PebblesVerif.Mut
open PebblesVerif PebblesVerif.Exec PebblesVerif.ResultOps

/-- a mutation root field: (name, declared type, owning service URL) -/
abbrev MSpec := String × TypeRef × String

/-- the client's selection set: leaf fields as the parser hands them over (alias = name, no
    arguments, no directives, no sub-selection) -/
def mleaves (ms : List MSpec) : List Sel := ms.map (fun f => Flat.leaf f.1 f.2.1)
def mnames (ms : List MSpec) : List String := ms.map (·.1)

/-- the fields of `ms` owned by `u`, in document order -/
def owned (ms : List MSpec) (u : String) : List MSpec := ms.filter (fun f => f.2.2 == u)

/-- the hypotheses describing the family (what the merged schema and the routing table say) -/
structure Fam (c : PCtx) (ms : List MSpec) : Prop where
  hne : ms ≠ []
  hnd : (mnames ms).Nodup
  hfb : ∀ n ∈ mnames ms, isBuiltinName n = false
  hnode : ∀ n ∈ mnames ms, n ≠ "node"
  hschemaM : ∃ td, c.schema.type? "Mutation" = some td ∧ td.kind = .object
  tumMf : ∀ f ∈ ms, c.tum.get? "Mutation" f.1 = some f.2.2
  hint : ∀ f ∈ ms, f.2.2 ≠ internalService
  hkind : c.opKind = .mutation

/-- the client operation -/
def op (c : PCtx) (ms : List MSpec) : Op := ⟨.mutation, c.opName, [], mleaves ms⟩

/-- the services that own at least one selected field, in `GetURLs()` order -/
def activeUrls (c : PCtx) (ms : List MSpec) : List String :=
  c.tum.urls.filter (fun u => ms.any (fun f => f.2.2 == u))

/-- the plan step for service `u`: ALL the selected root fields `u` owns, in document order, in
    one step at the root (empty insertion point, no child steps) -/
def stepOf (ms : List MSpec) (u : String) : Step := .mk u "Mutation" (mleaves (owned ms u)) [] []

/-- the expected plan: one step per owning service -/
def planOf (c : PCtx) (ms : List MSpec) : List Step := (activeUrls c ms).map (stepOf ms)

/-- the one request service `u` receives -/
def reqOf (c : PCtx) (ms : List MSpec) (u : String) : Request := Flat.rqOf c (stepOf ms u) []

/-- the expected downstream calls: one call per owning service, one request per call -/
def callsOf (c : PCtx) (ms : List MSpec) : List Call := (activeUrls c ms).map (fun u => ⟨u, [reqOf c ms u]⟩)

/-- the reference walk: hand each expected call to `down` exactly once, in order; stop at the
    first call that faults or is answered with the wrong number of objects; merge the answers -/
def run (down : Downstream) : List Call → ExecState → G ExecState
  | [], st => .ok st
  | cl :: rest, st =>
    match down cl.url cl.batch with
    | .error f => .error f
    | .ok resps =>
      if resps.length != cl.batch.length then .error (.err "not all requests were fetched")
      else run down rest ⟨mergeInto st.result (resps[0]?.getD []), st.calls ++ [cl]⟩

/-- `gateway`'s envelope around an execution outcome when nothing is scrubbed -/
def envelope : G ExecState → G GwResult
  | .ok st => .ok ⟨some st.result, [], st.calls⟩
  | .error (.err m) => .ok ⟨none, [m], []⟩
  | .error f => .error f

/-- does the request mention a (top-level) field named `n`? -/
def mentions (rq : Request) (n : String) : Bool := hasFieldNamed rq.sels n

/-- every (service URL, request) pair among `calls` whose request mentions a field named `n`,
    with multiplicity -/
def sentWith (calls : List Call) (n : String) : List (String × Request) :=
  calls.flatMap (fun cl => (cl.batch.filter (mentions · n)).map (fun rq => (cl.url, rq)))

end PebblesVerif.Mut

namespace PebblesVerif.Mut.Example
open PebblesVerif PebblesVerif.Exec

def tInt : TypeRef := .named "Int"
def mutationT : TypeDef := { name := "Mutation", kind := Kind.object, fields := [⟨"m1", [], tInt, none, "", []⟩, ⟨"m2", [], tInt, none, "", []⟩, ⟨"m3", [], tInt, none, "", []⟩] }
def queryT : TypeDef := { name := "Query", kind := Kind.object, fields := [⟨"q", [], tInt, none, "", []⟩] }
def merged : Schema := ⟨[queryT, mutationT], [], [], [], some "Query", some "Mutation", none⟩
def tum : Tum := [("Query", ⟨[("q", "B")], false⟩), ("Mutation", ⟨[("m1", "A"), ("m2", "B"), ("m3", "A")], false⟩)]
def ctx : PCtx := ⟨merged, tum, .mutation, ""⟩
def ms : List MSpec := [("m1", tInt, "A"), ("m2", tInt, "B"), ("m3", tInt, "A")]

/-- a downstream that answers every request with an empty object -/
def downEmpty : Downstream := fun _ batch => .ok (batch.map (fun _ => []))

end PebblesVerif.Mut.Example
