import PebblesVerif.Proofs.Mut1
/-! Flat mutation family, stages 1–2: sanitising, routing, extraction, the plan. -/
namespace PebblesVerif.Mut
open PebblesVerif PebblesVerif.Exec

variable {c : PCtx} {ms : List MSpec}

/-! ## generic list lemmas -/

/-- a monadic fold whose step always succeeds on the elements of the list is a pure fold -/
theorem foldlM_ok {α β : Type} (f : β → α → G β) (g : β → α → β) (P : α → Prop) :
    ∀ (l : List α) (s : β), (∀ x ∈ l, P x) → (∀ s x, P x → f s x = .ok (g s x)) →
      l.foldlM f s = .ok (l.foldl g s)
  | [], s, _, _ => rfl
  | x :: l, s, hl, hf => by
    simp only [List.foldlM_cons, List.foldl_cons, bind, Except.bind, hf s x (hl x (by simp))]
    exact foldlM_ok f g P l (g s x) (fun y hy => hl y (by simp [hy])) hf

theorem foldl_snoc_map {α β : Type} (k : α → β) : ∀ (l : List α) (acc : List β),
    l.foldl (fun acc x => acc ++ [k x]) acc = acc ++ l.map k
  | [], acc => by simp
  | x :: l, acc => by simp [foldl_snoc_map k l, List.append_assoc]

/-! ## the selection set -/

def toFS (m : MSpec) : Flat.FieldSpec := (m.1, m.2.1, false)

theorem mleaves_eq (ms : List MSpec) : mleaves ms = Flat.leaves (ms.map toFS) := by
  simp [mleaves, Flat.leaves, toFS]

theorem mnames_eq (ms : List MSpec) : mnames ms = Flat.namesOf (ms.map toFS) := by
  simp [mnames, Flat.namesOf, toFS]

theorem mleaves_nil : mleaves [] = [] := rfl
theorem mleaves_cons (f : MSpec) (ms : List MSpec) : mleaves (f :: ms) = Flat.leaf f.1 f.2.1 :: mleaves ms := rfl
theorem mleaves_append (a b : List MSpec) : mleaves (a ++ b) = mleaves a ++ mleaves b := by simp [mleaves]

theorem mem_mnames {f : MSpec} {ms : List MSpec} (hf : f ∈ ms) : f.1 ∈ mnames ms :=
  List.mem_map.mpr ⟨f, hf, rfl⟩

/-- **Stage 1 — sanitise**: distinct leaf root fields are kept as they are; nothing to scrub -/
theorem stage_sanitize (h : Fam c ms) : sanitizeSels c [] (mleaves ms) = .ok (mleaves ms, []) := by
  have hnd : (Flat.namesOf ([] ++ ms.map toFS)).Nodup := by
    rw [List.nil_append, ← mnames_eq]; exact h.hnd
  have := Flat.sanitize_leaves c [] (ms.map toFS) [] [] hnd
  rw [mleaves_eq]
  exact this

theorem toFields_mleaves : ∀ (ms : List MSpec), Sel.toFields (mleaves ms) = mleaves ms
  | [] => by simp [mleaves, Sel.toFields]
  | f :: ms => by
    rw [mleaves_cons]
    simp only [Flat.leaf, Sel.toFields]
    rw [toFields_mleaves ms]

/-! ## routing -/

theorem isNode_some (h : Fam c ms) : ∃ b, c.tum.isNode? "Mutation" = some b := by
  cases hms : ms with
  | nil => exact absurd hms h.hne
  | cons f rest =>
    have hg := h.tumMf f (by rw [hms]; simp)
    unfold Tum.get? at hg
    unfold Tum.isNode?
    cases hp : c.tum.props? "Mutation" with
    | none => simp [hp] at hg
    | some p => exact ⟨p.isNode, rfl⟩

/-- `GetURL` on a selected root field names its owner, whatever the fallback location -/
theorem getURL_m (h : Fam c ms) (f : MSpec) (hf : f ∈ ms) (fb : String) :
    getURL c "Mutation" f.1 fb = .ok f.2.2 := by
  obtain ⟨b, hb⟩ := isNode_some h
  have hbn := h.hfb f.1 (mem_mnames hf)
  simp [getURL, hbn, hb, h.tumMf f hf, isRootName]

theorem filter_fold (h : Fam c ms) (u : String) : ∀ (rest : List MSpec) (acc : List Sel),
    (∀ f ∈ rest, f ∈ ms) →
    (mleaves rest).foldl (filterStep c u "Mutation") (some acc) = some (acc ++ mleaves (owned rest u))
  | [], acc, _ => by simp [mleaves_nil, owned]
  | f :: rest, acc, hsub => by
    have hf : f ∈ ms := hsub f (by simp)
    have hrest : ∀ g ∈ rest, g ∈ ms := fun g hg => hsub g (by simp [hg])
    rw [mleaves_cons, List.foldl_cons]
    have hname : fieldName (Flat.leaf f.1 f.2.1) = f.1 := rfl
    simp only [filterStep, hname, getURL_m h f hf]
    cases hb : (f.2.2 == u)
    · simp only [Bool.false_eq_true, ↓reduceIte]
      rw [filter_fold h u rest acc hrest]
      simp [owned, hb]
    · simp only [↓reduceIte]
      rw [filter_fold h u rest _ hrest]
      simp [owned, hb, mleaves_cons, List.append_assoc]

/-- `filterSelectionSetByLoc`: service `u` gets exactly the root fields it owns, in document order -/
theorem filterByLoc_m (h : Fam c ms) (u : String) :
    filterByLoc c (mleaves ms) u "Mutation" = some (mleaves (owned ms u)) := by
  unfold filterByLoc
  rw [filter_fold h u ms [] (fun f hf => hf)]
  simp

/-- does service `u` own a selected field? -/
def active (ms : List MSpec) (u : String) : Bool := !(owned ms u).isEmpty

theorem activeUrls_eq (c : PCtx) (ms : List MSpec) : activeUrls c ms = c.tum.urls.filter (active ms) := by
  unfold activeUrls
  congr 1
  funext u
  unfold active owned
  induction ms with
  | nil => rfl
  | cons f ms ih =>
    simp only [List.any_cons, List.filter_cons]
    cases hb : (f.2.2 == u)
    · simpa using ih
    · simp

/-- the router's entry for service `u` -/
def entryOf (ms : List MSpec) (u : String) : String × List Sel := (u, mleaves (owned ms u))

theorem route_fold (h : Fam c ms) : ∀ (urls : List String) (acc : List (String × List Sel)),
    urls.foldlM (routeStep c (mleaves ms) "Mutation") acc
      = .ok (acc ++ (urls.filter (active ms)).map (entryOf ms))
  | [], acc => by simp [List.foldlM, pure, Except.pure]
  | u :: us, acc => by
    simp only [List.foldlM_cons, bind, Except.bind, routeStep, filterByLoc_m h u]
    cases ho : owned ms u with
    | nil =>
      have ha : active ms u = false := by simp [active, ho]
      simp only [mleaves_nil]
      rw [route_fold h us acc]
      simp [ha]
    | cons f fs =>
      have ha : active ms u = true := by simp [active, ho]
      simp only [mleaves_cons]
      rw [route_fold h us _]
      simp [ha, entryOf, ho, mleaves_cons, List.append_assoc]

theorem owned_internal (h : Fam c ms) : owned ms internalService = [] := by
  unfold owned
  rw [List.filter_eq_nil_iff]
  intro f hf
  have := h.hint f hf
  simpa using this

theorem mleaves_isEmpty (h : Fam c ms) : (mleaves ms).isEmpty = false := by
  cases hms : ms with
  | nil => exact absurd hms h.hne
  | cons a b => simp [mleaves]

/-- **Stage 2a — routing**: one entry per service that owns a selected field (in `GetURLs()`
    order), holding ALL the fields that service owns, in document order -/
theorem routeRoot_m (h : Fam c ms) :
    routeRoot c (mleaves ms) "Mutation" = .ok ((activeUrls c ms).map (entryOf ms)) := by
  unfold routeRoot
  simp only [mleaves_isEmpty h, Bool.false_eq_true, ↓reduceIte, bind, Except.bind]
  rw [route_fold h c.tum.urls []]
  simp only [List.nil_append, routeInternal, filterByLoc_m h internalService, owned_internal h, mleaves_nil,
    activeUrls_eq]

/-! ## extraction -/

theorem preExtract_M (h : Fam c ms) : preExtract c "Mutation" = .ok () := by
  obtain ⟨td, h1, h2⟩ := h.hschemaM
  simp [preExtract, h1, h2]

theorem extract_fold (h : Fam c ms) (u : String) : ∀ (rest : List MSpec) (acc : List Sel),
    (∀ f ∈ rest, f ∈ ms ∧ f.2.2 = u) →
    extractLoop c [] "Mutation" u (mleaves rest) (acc, []) = .ok (acc ++ mleaves rest, [])
  | [], acc, _ => by simp [mleaves_nil, extractLoop]
  | f :: rest, acc, hsub => by
    have hf := hsub f (by simp)
    have hrest : ∀ g ∈ rest, g ∈ ms ∧ g.2.2 = u := fun g hg => hsub g (by simp [hg])
    rw [mleaves_cons, extractLoop]
    simp only [Flat.leaf, extractSel, getURL_m h f hf.1, hf.2, beq_self_eq_true, ↓reduceIte, List.isEmpty_nil,
      bind, Except.bind]
    have := extract_fold h u rest (acc ++ [Flat.leaf f.1 f.2.1]) hrest
    simp only [Flat.leaf] at this
    rw [this]
    simp [List.append_assoc]

theorem owned_sub (ms : List MSpec) (u : String) : ∀ f ∈ owned ms u, f ∈ ms ∧ f.2.2 = u := by
  intro f hf
  simp only [owned, List.mem_filter, beq_iff_eq] at hf
  exact hf

/-- **Stage 2b — extraction at the root**: the owner keeps every field handed to it; no child steps -/
theorem extract_m (h : Fam c ms) (u : String) :
    extractSels c [] "Mutation" (mleaves (owned ms u)) u = .ok (mleaves (owned ms u), []) := by
  unfold extractSels
  simp only [preExtract_M h, bind, Except.bind]
  rw [extract_fold h u (owned ms u) [] (owned_sub ms u)]
  simp [finishExtract, isRootName]

theorem filter_node (h : Fam c ms) : ∀ (rest : List MSpec), (∀ f ∈ rest, f ∈ ms) →
    (mleaves rest).filter (fun f => fieldName f == "node") = [] ∧
    (mleaves rest).filter (fun f => fieldName f != "node") = mleaves rest
  | [], _ => ⟨rfl, rfl⟩
  | f :: rest, hsub => by
    have hf : f ∈ ms := hsub f (by simp)
    have hn : (f.1 == "node") = false := by simpa using h.hnode f.1 (mem_mnames hf)
    obtain ⟨h1, h2⟩ := filter_node h rest (fun g hg => hsub g (by simp [hg]))
    have hname : fieldName (Flat.leaf f.1 f.2.1) = f.1 := rfl
    rw [mleaves_cons]
    refine ⟨?_, ?_⟩
    · simp only [List.filter_cons, hname, hn, Bool.false_eq_true, ↓reduceIte, h1]
    · simp only [List.filter_cons, hname, hn, bne, Bool.not_false, ↓reduceIte]
      simp only [bne] at h2
      rw [h2]

/-- **Stage 2 — the planner's shape for mutations**: ONE step per owning service — not one per
    field and not one per run of consecutive same-owner fields — in `GetURLs()` order; the step of
    service `u` holds all the selected fields `u` owns, in document order; every step sits at the
    root (empty insertion point, parent type `Mutation`) and has no child steps. -/
theorem stage_plan (h : Fam c ms) : planRoot c (mleaves ms) = .ok (planOf c ms) := by
  obtain ⟨hf1, hf2⟩ := filter_node h ms (fun f hf => hf)
  unfold planRoot
  simp only [h.hkind, OpKind.rootName, toFields_mleaves, hf1, hf2, routeRoot_m h, bind, Except.bind,
    groupNodeFields, List.foldlM_nil, pure, Except.pure, List.foldl_nil]
  rw [foldlM_ok _ (fun steps x => steps ++ [Step.mk x.1 "Mutation" x.2 [] []])
    (fun x => ∃ u, x = entryOf ms u)]
  · rw [foldl_snoc_map (fun x : String × List Sel => Step.mk x.1 "Mutation" x.2 [] [])]
    simp [planOf, stepOf, entryOf, Function.comp_def]
  · intro x hx
    obtain ⟨u, _, rfl⟩ := List.mem_map.mp hx
    exact ⟨u, rfl⟩
  · rintro s x ⟨u, rfl⟩
    simp only [entryOf, extract_m h u]

theorem stage_plan' (h : Fam c ms) : plan c (op c ms) = .ok (planOf c ms, []) := by
  unfold plan
  simp only [op, stage_sanitize h, bind, Except.bind, stage_plan h]

end PebblesVerif.Mut
