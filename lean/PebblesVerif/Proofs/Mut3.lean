import PebblesVerif.Proofs.Mut2
/-! Flat mutation family, stage 3: execution (one depth) with an ARBITRARY downstream, and the
whole per-request pipeline. -/
namespace PebblesVerif.Mut
open PebblesVerif PebblesVerif.Exec PebblesVerif.ResultOps

variable {c : PCtx} {ms : List MSpec}

/-! ## `GetURLs()` -/

theorem dedup_fold_nodup : ∀ (l acc : List String), acc.Nodup →
    (l.foldl (fun acc x => if acc.contains x then acc else acc ++ [x]) acc).Nodup
  | [], acc, h => h
  | x :: l, acc, h => by
    simp only [List.foldl_cons]
    by_cases hx : acc.contains x = true
    · simp only [hx, ↓reduceIte]; exact dedup_fold_nodup l acc h
    · simp only [hx, Bool.false_eq_true, ↓reduceIte]
      apply dedup_fold_nodup l
      rw [List.nodup_append]
      refine ⟨h, by simp, ?_⟩
      intro a ha b hb
      simp only [List.mem_singleton] at hb
      subst hb
      intro hab; subst hab
      exact hx (by simpa using ha)

theorem dedup_fold_mem (x : String) : ∀ (l acc : List String),
    x ∈ l.foldl (fun acc x => if acc.contains x then acc else acc ++ [x]) acc ↔ x ∈ acc ∨ x ∈ l
  | [], acc => by simp
  | y :: l, acc => by
    simp only [List.foldl_cons]
    by_cases hy : acc.contains y = true
    · simp only [hy, ↓reduceIte]
      rw [dedup_fold_mem x l acc]
      have hy' : y ∈ acc := by simpa using hy
      constructor
      · rintro (h | h)
        · exact Or.inl h
        · exact Or.inr (by simp [h])
      · rintro (h | h)
        · exact Or.inl h
        · simp only [List.mem_cons] at h
          rcases h with rfl | h
          · exact Or.inl hy'
          · exact Or.inr h
    · simp only [hy, Bool.false_eq_true, ↓reduceIte]
      rw [dedup_fold_mem x l _]
      simp only [List.mem_append, List.mem_cons, List.not_mem_nil, or_false]
      constructor
      · rintro ((h | h) | h)
        · exact Or.inl h
        · exact Or.inr (Or.inl h)
        · exact Or.inr (Or.inr h)
      · rintro (h | h | h)
        · exact Or.inl (Or.inl h)
        · exact Or.inl (Or.inr h)
        · exact Or.inr h

/-- `GetURLs()` lists every service once -/
theorem urls_nodup (t : Tum) : t.urls.Nodup := by
  unfold Tum.urls Tum.dedup
  exact dedup_fold_nodup _ [] List.nodup_nil

theorem find?_fst_mem {β : Type} (k : String) : ∀ (l : List (String × β)) (e : String × β),
    l.find? (·.1 == k) = some e → e ∈ l ∧ e.1 = k
  | [], e, h => by simp at h
  | x :: l, e, h => by
    simp only [List.find?_cons] at h
    cases hx : (x.1 == k)
    · simp only [hx] at h
      obtain ⟨h1, h2⟩ := find?_fst_mem k l e h
      exact ⟨by simp [h1], h2⟩
    · simp only [hx, Option.some.injEq] at h
      subst h
      exact ⟨by simp, by simpa using hx⟩

/-- a URL the table stores for some field is listed by `GetURLs()` -/
theorem get_mem_urls {t : Tum} {T f u : String} (h : t.get? T f = some u) : u ∈ t.urls := by
  unfold Tum.urls Tum.dedup
  rw [dedup_fold_mem]
  right
  unfold Tum.get? Tum.props? at h
  cases hr : t.find? (·.1 == T) with
  | none => simp [hr] at h
  | some r =>
    obtain ⟨T', p⟩ := r
    simp only [hr] at h
    cases hfd : p.fields.find? (·.1 == f) with
    | none => simp [hfd] at h
    | some e =>
      obtain ⟨f', u'⟩ := e
      simp only [hfd, Option.some.injEq] at h
      subst h
      rw [List.mem_flatMap]
      refine ⟨(T', p), (find?_fst_mem T t _ hr).1, ?_⟩
      rw [List.mem_map]
      exact ⟨(f', u'), (find?_fst_mem f p.fields _ hfd).1, rfl⟩

theorem activeUrls_nodup (c : PCtx) (ms : List MSpec) : (activeUrls c ms).Nodup :=
  (urls_nodup c.tum).sublist List.filter_sublist

theorem mem_activeUrls (h : Fam c ms) (f : MSpec) (hf : f ∈ ms) : f.2.2 ∈ activeUrls c ms := by
  unfold activeUrls
  rw [List.mem_filter]
  refine ⟨get_mem_urls (h.tumMf f hf), ?_⟩
  rw [List.any_eq_true]
  exact ⟨f, hf, by simp⟩

theorem activeUrls_ne_nil (h : Fam c ms) : activeUrls c ms ≠ [] := by
  obtain ⟨f, hf⟩ := List.exists_mem_of_ne_nil ms h.hne
  have := mem_activeUrls h f hf
  intro hnil
  rw [hnil] at this
  cases this

/-! ## one depth -/

/-- the execution request of the root step of service `u` -/
def erOf (ms : List MSpec) (u : String) : ExecReq := ⟨stepOf ms u, []⟩

def groupOf (ms : List MSpec) (u : String) : String × List ExecReq := (u, [erOf ms u])

/-- the body of `partitionByURL`'s fold, named -/
def pstep (acc : List (String × List ExecReq)) (er : ExecReq) : List (String × List ExecReq) :=
  match acc.find? (·.1 == er.step.url) with
  | some _ => acc.map (fun (u, l) => if u == er.step.url then (u, l ++ [er]) else (u, l))
  | none => acc ++ [(er.step.url, [er])]

theorem partitionByURL_eq (ers : List ExecReq) : partitionByURL ers = ers.foldl pstep [] := rfl

theorem partition_fold (ms : List MSpec) : ∀ (us done : List String), (done ++ us).Nodup →
    (us.map (erOf ms)).foldl pstep (done.map (groupOf ms)) = (done ++ us).map (groupOf ms)
  | [], done, _ => by simp
  | u :: us, done, hnd => by
    have hu : u ∉ done := by
      rw [List.nodup_append] at hnd
      intro hmem
      exact hnd.2.2 u hmem u (by simp) rfl
    have hfind : (done.map (groupOf ms)).find? (·.1 == (erOf ms u).step.url) = none := by
      rw [List.find?_eq_none]
      intro x hx
      obtain ⟨v, hv, rfl⟩ := List.mem_map.mp hx
      simp only [groupOf, erOf, stepOf, Step.url, beq_iff_eq]
      intro hvu; subst hvu; exact hu hv
    simp only [List.map_cons, List.foldl_cons]
    have hstep : pstep (done.map (groupOf ms)) (erOf ms u) = (done ++ [u]).map (groupOf ms) := by
      unfold pstep
      rw [hfind]
      simp [groupOf, erOf, stepOf, Step.url]
    rw [hstep, partition_fold ms us (done ++ [u]) (by simpa [List.append_assoc] using hnd)]
    simp [List.append_assoc]

/-- **one group per step**: the root steps have pairwise different URLs, so `lo.PartitionBy`
    leaves each alone in its group — no two root requests ever share a batch -/
theorem partition_m (c : PCtx) (ms : List MSpec) :
    partitionByURL ((activeUrls c ms).map (erOf ms)) = (activeUrls c ms).map (groupOf ms) := by
  rw [partitionByURL_eq]
  have := partition_fold ms (activeUrls c ms) [] (by simpa using activeUrls_nodup c ms)
  simpa using this

/-- the inner loop of `execDepth` (one answered request), named -/
def rstep (acc : ExecState × List ExecReq) (resps : List (List (String × J))) (p : ExecReq × Option Nat) :
    G (ExecState × List ExecReq) :=
  match p with
  | (er, s) => do
    let resp : List (String × J) := match s with
      | none => [("node", .null)]
      | some i => resps[i]?.getD []
    let (qr, next) ← parseOne er resp
    let result' ← mergeResult acc.1.result er.ip qr
    .ok (⟨result', acc.1.calls⟩, acc.2 ++ next)

/-- the body of `execDepth`'s fold over the groups (one `Queryer.Query` call), named -/
def gstep (c : PCtx) (cfg : ExecCfg) (reqVars : Option (List (String × J))) (down : Downstream)
    (acc : ExecState × List ExecReq) (g : String × List ExecReq) : G (ExecState × List ExecReq) :=
  match g with
  | (url, group) => do
    let (batch, src) ← buildBatch c cfg reqVars group
    let resps ← down url batch
    if resps.length != batch.length then .error (.err "not all requests were fetched") else
    let calls := acc.1.calls ++ [⟨url, batch⟩]
    let pairs := group.zip src
    pairs.foldlM (fun acc p => rstep acc resps p) (⟨acc.1.result, calls⟩, acc.2)

theorem execDepth_eq (c : PCtx) (cfg : ExecCfg) (reqVars : Option (List (String × J))) (down : Downstream)
    (ers : List ExecReq) (st : ExecState) :
    execDepth c cfg reqVars down ers st = (partitionByURL ers).foldlM (gstep c cfg reqVars down) (st, []) := rfl

theorem parseOne_m (ms : List MSpec) (u : String) (resp : List (String × J)) :
    parseOne (erOf ms u) resp = .ok (resp, []) := by
  unfold parseOne
  simp [erOf, stepOf, Step.parentType, Step.thn, isRootName, bind, Except.bind, pure, Except.pure]

theorem mergeResult_nil (result res : List (String × J)) :
    mergeResult result [] res = .ok (mergeInto result res) := by
  unfold mergeResult
  rw [updateAt]

/-- the call service `u` receives -/
def callOf (c : PCtx) (ms : List MSpec) (u : String) : Call := ⟨u, [reqOf c ms u]⟩

theorem callsOf_eq (c : PCtx) (ms : List MSpec) : callsOf c ms = (activeUrls c ms).map (callOf c ms) := rfl

/-- what one group does with the accumulated state: exactly one evaluation of `down`, on the
    expected call -/
def after (down : Downstream) (cl : Call) (st : ExecState) : G ExecState :=
  match down cl.url cl.batch with
  | .error f => .error f
  | .ok resps =>
    if resps.length != cl.batch.length then .error (.err "not all requests were fetched")
    else .ok ⟨mergeInto st.result (resps[0]?.getD []), st.calls ++ [cl]⟩

theorem run_cons (down : Downstream) (cl : Call) (rest : List Call) (st : ExecState) :
    run down (cl :: rest) st = (match after down cl st with
      | .ok st' => run down rest st'
      | .error f => .error f) := by
  rw [run]
  unfold after
  cases down cl.url cl.batch with
  | error f => rfl
  | ok resps =>
    simp only
    split <;> rfl

theorem gstep_m (c : PCtx) (ms : List MSpec) (down : Downstream) (u : String) (st : ExecState) :
    gstep c {} none down (st, []) (groupOf ms u)
      = (match after down (callOf c ms u) st with
         | .ok st' => .ok (st', [])
         | .error f => .error f) := by
  have hroot : isRootName (stepOf ms u).parentType = true := by simp [stepOf, Step.parentType, isRootName]
  unfold gstep groupOf after
  simp only [erOf, Flat.buildBatch_root c _ hroot, bind, Except.bind, callOf, reqOf]
  cases down u [Flat.rqOf c (stepOf ms u) []] with
  | error f => rfl
  | ok resps =>
    simp only [List.length_cons, List.length_nil]
    by_cases hl : (resps.length != 0 + 1) = true
    · simp only [hl, ↓reduceIte]
    · simp only [hl, Bool.false_eq_true, ↓reduceIte, List.zip_cons_cons, List.zip_nil_right, List.foldlM_cons,
        List.foldlM_nil, bind, Except.bind, rstep]
      have hp := parseOne_m ms u (resps[0]?.getD [])
      simp only [erOf] at hp
      simp only [hp, mergeResult_nil, pure, Except.pure, List.append_nil]

theorem groups_fold (c : PCtx) (ms : List MSpec) (down : Downstream) : ∀ (us : List String) (st : ExecState),
    (us.map (groupOf ms)).foldlM (gstep c {} none down) (st, [])
      = (match run down (us.map (callOf c ms)) st with
         | .ok st' => .ok (st', [])
         | .error f => .error f)
  | [], st => by simp [run, pure, Except.pure]
  | u :: us, st => by
    simp only [List.map_cons, List.foldlM_cons, bind, Except.bind, gstep_m, run_cons]
    cases after down (callOf c ms u) st with
    | error f => rfl
    | ok st' => exact groups_fold c ms down us st'

/-- **Depth 0 (the only depth)**: the executor hands each expected call to the downstream once, in
    order, and stops at the first failure; there are no follow-up requests -/
theorem depth0 (c : PCtx) (ms : List MSpec) (down : Downstream) (st : ExecState) :
    execDepth c {} none down ((activeUrls c ms).map (erOf ms)) st
      = (match run down (callsOf c ms) st with
         | .ok st' => .ok (st', [])
         | .error f => .error f) := by
  rw [execDepth_eq, partition_m, groups_fold, callsOf_eq]

theorem stepsDepth_m (ms : List MSpec) : ∀ (us : List String), us ≠ [] → stepsDepth (us.map (stepOf ms)) = 1
  | [], h => absurd rfl h
  | [u], _ => by simp [stepsDepth, stepDepth, stepOf]
  | u :: v :: us, _ => by
    have ih := stepsDepth_m ms (v :: us) (by simp)
    rw [List.map_cons, stepsDepth, ih]
    simp [stepDepth, stepOf, stepsDepth]

/-- **Stage 3 — execute** -/
theorem stage_execute (h : Fam c ms) (down : Downstream) :
    execute c {} none down (planOf c ms) [] = run down (callsOf c ms) ⟨[], []⟩ := by
  have hne := activeUrls_ne_nil h
  have hers : (planOf c ms).map (fun s => (⟨s, s.ip⟩ : ExecReq)) = (activeUrls c ms).map (erOf ms) := by
    simp [planOf, erOf, stepOf, Step.ip, Function.comp_def]
  have hemp : ((activeUrls c ms).map (erOf ms)).isEmpty = false := by
    cases hu : activeUrls c ms with
    | nil => exact absurd hu hne
    | cons _ _ => rfl
  unfold execute
  rw [hers]
  unfold planOf
  rw [stepsDepth_m ms _ hne, execLoop]
  simp only [hemp, Bool.false_eq_true, ↓reduceIte, bind, Except.bind, depth0]
  cases run down (callsOf c ms) ⟨[], []⟩ with
  | error f => rfl
  | ok st' => simp only [execLoop]

/-- **Stage 4 — the pipeline**: for every member of the family and EVERY downstream (faulting or
    not) the gateway model's outcome is the envelope around the reference walk over the expected
    calls -/
theorem stage_gateway (h : Fam c ms) (down : Downstream) :
    gateway c {} (op c ms) none down = envelope (run down (callsOf c ms) ⟨[], []⟩) := by
  rw [gateway_noVarDefs _ _ _ _ _ _ rfl]
  unfold gatewayCore gatewayCoreWith
  simp only [stage_plan' h, stage_execute h down]
  cases run down (callsOf c ms) ⟨[], []⟩ with
  | ok st => simp [envelope, ScrubClean.cleanAll]
  | error f =>
    cases f with
    | err m => simp [envelope]
    | panic w => simp [envelope]

end PebblesVerif.Mut
