import PebblesVerif.Proofs.Mut3
/-! Flat mutation family, final step: what the expected calls look like (exactly-once, owner,
keyword, nothing foreign), the walk under a well-behaved / faulting downstream, a concrete
instance. -/
namespace PebblesVerif.Mut
open PebblesVerif PebblesVerif.Exec PebblesVerif.ResultOps

variable {c : PCtx} {ms : List MSpec}

/-! ## the expected calls -/

theorem hasFieldNamed_mleaves (ms : List MSpec) (n : String) :
    hasFieldNamed (mleaves ms) n = (mnames ms).contains n := by
  induction ms with
  | nil => rfl
  | cons f ms ih =>
    simp only [mleaves, List.map_cons, hasFieldNamed, List.any_cons, Flat.leaf, mnames, List.contains_cons] at ih ⊢
    rw [ih, Bool.beq_comm]

theorem fst_inj_of_nodup : ∀ (ms : List MSpec), (mnames ms).Nodup → ∀ f1 ∈ ms, ∀ f2 ∈ ms, f1.1 = f2.1 → f1 = f2
  | [], _, f1, h1, _, _, _ => by cases h1
  | f :: ms, hnd, f1, h1, f2, h2, heq => by
    simp only [mnames, List.map_cons, List.nodup_cons] at hnd
    simp only [List.mem_cons] at h1 h2
    rcases h1 with rfl | h1 <;> rcases h2 with rfl | h2
    · rfl
    · exact absurd (List.mem_map.mpr ⟨f2, h2, heq.symm⟩) hnd.1
    · exact absurd (List.mem_map.mpr ⟨f1, h1, heq⟩) hnd.1
    · exact fst_inj_of_nodup ms hnd.2 f1 h1 f2 h2 heq

/-- the request to service `u` mentions the selected field `f` iff `u` owns `f` -/
theorem mentions_reqOf (h : Fam c ms) (f : MSpec) (hf : f ∈ ms) (u : String) :
    mentions (reqOf c ms u) f.1 = (f.2.2 == u) := by
  have hsels : (reqOf c ms u).sels = mleaves (owned ms u) := rfl
  unfold mentions
  rw [hsels, hasFieldNamed_mleaves]
  by_cases hu : f.2.2 = u
  · have : f.1 ∈ mnames (owned ms u) := mem_mnames (by simp [owned, hf, hu])
    simp [hu, this]
  · have : f.1 ∉ mnames (owned ms u) := by
      intro hmem
      obtain ⟨g, hg, hgn⟩ := List.mem_map.mp hmem
      obtain ⟨hgms, hgu⟩ := owned_sub ms u g hg
      have := fst_inj_of_nodup ms h.hnd g hgms f hf hgn
      subst this
      exact hu hgu
    simp [hu, this]

theorem flatMap_single {α β : Type} [DecidableEq α] (g : α → List β) (k : α → β) (a : α) :
    ∀ (l : List α), l.Nodup → a ∈ l → (∀ x ∈ l, g x = if x = a then [k x] else []) → l.flatMap g = [k a]
  | [], _, ha, _ => by cases ha
  | x :: l, hnd, ha, hg => by
    simp only [List.nodup_cons] at hnd
    rw [List.flatMap_cons, hg x (by simp)]
    by_cases hx : x = a
    · subst hx
      have hrest : l.flatMap g = [] := by
        rw [List.flatMap_eq_nil_iff]
        intro y hy
        rw [hg y (by simp [hy])]
        have : y ≠ x := fun e => hnd.1 (e ▸ hy)
        simp [this]
      simp [hrest]
    · have ha' : a ∈ l := by
        simp only [List.mem_cons] at ha
        rcases ha with rfl | ha
        · exact absurd rfl hx
        · exact ha
      simp only [hx, ↓reduceIte, List.nil_append]
      exact flatMap_single g k a l hnd.2 ha' (fun y hy => hg y (by simp [hy]))

/-- **(1)+(2) exactly once, at the owner**: among the expected calls there is exactly one
    (URL, request) pair whose request mentions `f`, and its URL is `f`'s owner -/
theorem sentWith_callsOf (h : Fam c ms) (f : MSpec) (hf : f ∈ ms) :
    sentWith (callsOf c ms) f.1 = [(f.2.2, reqOf c ms f.2.2)] := by
  unfold sentWith callsOf
  rw [List.flatMap_map]
  apply flatMap_single _ (fun u => (u, reqOf c ms u)) f.2.2 _ (activeUrls_nodup c ms) (mem_activeUrls h f hf)
  intro u _
  simp only [List.filter_cons, List.filter_nil, mentions_reqOf h f hf u]
  by_cases hu : f.2.2 = u
  · simp [hu]
  · have : ¬ u = f.2.2 := fun e => hu e.symm
    simp [hu, this]

/-- **(3) the keyword**: every expected request is a `mutation` -/
theorem reqOf_kind (h : Fam c ms) (u : String) : (reqOf c ms u).header.kind = .mutation := by
  simp [reqOf, Flat.rqOf, header, stepOf, Step.ip, h.hkind]

/-- **(4) nothing foreign**: every selection of every expected request is a selected root field
    owned by the service called -/
theorem callsOf_own (c : PCtx) (ms : List MSpec) : ∀ cl ∈ callsOf c ms, ∀ rq ∈ cl.batch, ∀ s ∈ rq.sels,
    ∃ f ∈ ms, s = Flat.leaf f.1 f.2.1 ∧ f.2.2 = cl.url := by
  intro cl hcl rq hrq s hs
  obtain ⟨u, _, rfl⟩ := List.mem_map.mp hcl
  simp only [List.mem_singleton] at hrq
  subst hrq
  have hsels : (reqOf c ms u).sels = mleaves (owned ms u) := rfl
  rw [hsels] at hs
  obtain ⟨f, hfo, rfl⟩ := List.mem_map.mp hs
  obtain ⟨hfm, hfu⟩ := owned_sub ms u f hfo
  exact ⟨f, hfm, rfl, hfu⟩

/-- one request per call, one call per service -/
theorem callsOf_shape (c : PCtx) (ms : List MSpec) :
    (∀ cl ∈ callsOf c ms, cl.batch.length = 1) ∧ ((callsOf c ms).map (·.url)).Nodup := by
  refine ⟨?_, ?_⟩
  · intro cl hcl
    obtain ⟨u, _, rfl⟩ := List.mem_map.mp hcl
    rfl
  · have : (callsOf c ms).map (·.url) = activeUrls c ms := by
      simp [callsOf, Function.comp_def]
    rw [this]
    exact activeUrls_nodup c ms

/-! ## the walk -/

/-- `down` answers the call with one object per request -/
def Answered (down : Downstream) (cl : Call) : Prop :=
  ∃ resps, down cl.url cl.batch = .ok resps ∧ resps.length = cl.batch.length

/-- a downstream that answers every expected call: the walk goes through; the calls recorded are
    the expected calls, each once, in order -/
theorem run_ok (down : Downstream) : ∀ (calls : List Call) (st : ExecState),
    (∀ cl ∈ calls, Answered down cl) → ∃ d, run down calls st = .ok ⟨d, st.calls ++ calls⟩
  | [], st, _ => ⟨st.result, by simp [run]⟩
  | cl :: rest, st, hd => by
    obtain ⟨resps, h1, h2⟩ := hd cl (by simp)
    have hl : (resps.length != cl.batch.length) = false := by simp [h2]
    obtain ⟨d, hr⟩ := run_ok down rest ⟨mergeInto st.result (resps[0]?.getD []), st.calls ++ [cl]⟩
      (fun x hx => hd x (by simp [hx]))
    refine ⟨d, ?_⟩
    rw [run]
    simp only [h1, hl, Bool.false_eq_true, ↓reduceIte]
    rw [hr]
    simp [List.append_assoc]

/-- the walk stops at the first call that faults: the calls before it were made once each, the
    calls after it are never made (the outcome is the fault, whatever `down` would answer there) -/
theorem run_fault (down : Downstream) (f : Fault) (cl : Call) (post : List Call) : ∀ (pre : List Call) (st : ExecState),
    (∀ x ∈ pre, Answered down x) → down cl.url cl.batch = .error f →
    run down (pre ++ cl :: post) st = .error f
  | [], st, _, hf => by
    rw [List.nil_append, run]
    simp only [hf]
  | x :: pre, st, hd, hf => by
    obtain ⟨resps, h1, h2⟩ := hd x (by simp)
    have hl : (resps.length != x.batch.length) = false := by simp [h2]
    rw [List.cons_append, run]
    simp only [h1, hl, Bool.false_eq_true, ↓reduceIte]
    exact run_fault down f cl post pre _ (fun y hy => hd y (by simp [hy])) hf

/-- the walk consults `down` on the listed calls only -/
theorem run_congr (down down' : Downstream) : ∀ (calls : List Call) (st : ExecState),
    (∀ cl ∈ calls, down cl.url cl.batch = down' cl.url cl.batch) → run down calls st = run down' calls st
  | [], _, _ => rfl
  | cl :: rest, st, hd => by
    rw [run, run, hd cl (by simp)]
    cases down' cl.url cl.batch with
    | error f => rfl
    | ok resps =>
      simp only
      split
      · rfl
      · exact run_congr down down' rest _ (fun x hx => hd x (by simp [hx]))

end PebblesVerif.Mut

namespace PebblesVerif.Mut.Example
open PebblesVerif PebblesVerif.Exec

theorem fam : Fam ctx ms where
  hne := by decide
  hnd := by decide
  hfb := by simp [mnames, ms, isBuiltinName]
  hnode := by decide
  hschemaM := ⟨mutationT, by rfl, rfl⟩
  tumMf := by decide
  hint := by decide
  hkind := rfl

theorem downEmpty_answers : ∀ url batch, ∃ resps, downEmpty url batch = .ok resps ∧ resps.length = batch.length :=
  fun _ batch => ⟨batch.map (fun _ => []), rfl, by simp⟩

/-- the services called, in order, and the root fields each single request carries -/
def summary (calls : List Call) : List (String × List (List String)) :=
  calls.map (fun cl => (cl.url, cl.batch.map (fun rq => rq.sels.map fieldName)))

theorem summary_callsOf : summary (callsOf ctx ms) = [("B", [["m2"]]), ("A", [["m1", "m3"]])] := by decide

end PebblesVerif.Mut.Example
