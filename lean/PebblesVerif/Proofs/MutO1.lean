import PebblesVerif.Proofs.Mut4
/-!
The flat mutation family extended with ONE object-valued root field:
`mutation { m₁ … mₙ o { f₁ … fₖ } }` — n ≥ 0 leaf root fields as in `Mut.Fam`, then a root field
`o` of a Node type `T`, owned by service `A`, selecting k ≥ 1 distinct leaf fields of `T` each
owned by `A` or by `B` (the shape of `Flat.Fam`, at the `Mutation` root).

This file: routing of an arbitrary list of root fields with known owners; the family; sanitising;
the plan.
-/
namespace PebblesVerif.MutO
open PebblesVerif PebblesVerif.Exec

/-! ## routing root fields with known owners (any sub-selections) -/

/-- a root selection together with the service owning it -/
abbrev Item := Sel × String

def selsOf (items : List Item) : List Sel := items.map (·.1)
/-- the selections owned by `u`, in document order -/
def ownedBy (items : List Item) (u : String) : List Sel := selsOf (items.filter (fun it => it.2 == u))

structure Routed (c : PCtx) (items : List Item) : Prop where
  hne : items ≠ []
  hfield : ∀ it ∈ items, it.1.isField = true
  hurl : ∀ it ∈ items, ∀ fb, getURL c "Mutation" (fieldName it.1) fb = .ok it.2
  hnode : ∀ it ∈ items, fieldName it.1 ≠ "node"
  hint : ∀ it ∈ items, it.2 ≠ internalService

variable {c : PCtx} {items : List Item}

theorem toFields_items : ∀ (items : List Item), (∀ it ∈ items, it.1.isField = true) →
    Sel.toFields (selsOf items) = selsOf items
  | [], _ => by simp [selsOf, Sel.toFields]
  | it :: rest, h => by
    have h1 := h it (by simp)
    have ih := toFields_items rest (fun x hx => h x (by simp [hx]))
    obtain ⟨s, u⟩ := it
    cases s with
    | field a n args dirs t ad sub =>
      simp only [selsOf, List.map_cons, Sel.toFields] at ih ⊢
      rw [ih]
    | inline _ _ _ _ _ => simp [Sel.isField] at h1
    | spread _ _ _ _ _ _ => simp [Sel.isField] at h1

theorem filter_fold (h : Routed c items) (u : String) : ∀ (rest : List Item) (acc : List Sel),
    (∀ it ∈ rest, it ∈ items) →
    (selsOf rest).foldl (filterStep c u "Mutation") (some acc) = some (acc ++ ownedBy rest u)
  | [], acc, _ => by simp [selsOf, ownedBy]
  | it :: rest, acc, hsub => by
    have hit : it ∈ items := hsub it (by simp)
    have hrest : ∀ g ∈ rest, g ∈ items := fun g hg => hsub g (by simp [hg])
    simp only [selsOf, List.map_cons, List.foldl_cons]
    simp only [filterStep, h.hurl it hit]
    cases hb : (it.2 == u)
    · simp only [Bool.false_eq_true, ↓reduceIte]
      have := filter_fold h u rest acc hrest
      simp only [selsOf] at this
      rw [this]
      simp [ownedBy, hb]
    · simp only [↓reduceIte]
      have := filter_fold h u rest (acc ++ [it.1]) hrest
      simp only [selsOf] at this
      rw [this]
      simp [ownedBy, selsOf, hb, List.append_assoc]

theorem filterByLoc_items (h : Routed c items) (u : String) :
    filterByLoc c (selsOf items) u "Mutation" = some (ownedBy items u) := by
  unfold filterByLoc
  rw [filter_fold h u items [] (fun f hf => hf)]
  simp

/-- does service `u` own one of the root selections? -/
def active (items : List Item) (u : String) : Bool := !(ownedBy items u).isEmpty

def activeUrls (c : PCtx) (items : List Item) : List String := c.tum.urls.filter (active items)

def entryOf (items : List Item) (u : String) : String × List Sel := (u, ownedBy items u)

theorem route_fold (h : Routed c items) : ∀ (urls : List String) (acc : List (String × List Sel)),
    urls.foldlM (routeStep c (selsOf items) "Mutation") acc
      = .ok (acc ++ (urls.filter (active items)).map (entryOf items))
  | [], acc => by simp [List.foldlM, pure, Except.pure]
  | u :: us, acc => by
    simp only [List.foldlM_cons, bind, Except.bind, routeStep, filterByLoc_items h u]
    cases ho : ownedBy items u with
    | nil =>
      have ha : active items u = false := by simp [active, ho]
      simp only
      rw [route_fold h us acc]
      simp [ha]
    | cons f fs =>
      have ha : active items u = true := by simp [active, ho]
      simp only
      rw [route_fold h us _]
      simp [ha, entryOf, ho, List.append_assoc]

theorem ownedBy_internal (h : Routed c items) : ownedBy items internalService = [] := by
  unfold ownedBy selsOf
  rw [List.map_eq_nil_iff, List.filter_eq_nil_iff]
  intro it hit
  have := h.hint it hit
  simpa using this

theorem routeRoot_items (h : Routed c items) :
    routeRoot c (selsOf items) "Mutation" = .ok ((activeUrls c items).map (entryOf items)) := by
  have hemp : (selsOf items).isEmpty = false := by
    cases hi : items with
    | nil => exact absurd hi h.hne
    | cons a b => simp [selsOf]
  unfold routeRoot
  simp only [hemp, Bool.false_eq_true, ↓reduceIte, bind, Except.bind]
  rw [route_fold h c.tum.urls []]
  simp only [List.nil_append, routeInternal, filterByLoc_items h internalService, ownedBy_internal h, activeUrls]

theorem filter_node (h : Routed c items) : ∀ (rest : List Item), (∀ it ∈ rest, it ∈ items) →
    (selsOf rest).filter (fun f => fieldName f == "node") = [] ∧
    (selsOf rest).filter (fun f => fieldName f != "node") = selsOf rest
  | [], _ => ⟨rfl, rfl⟩
  | it :: rest, hsub => by
    have hit : it ∈ items := hsub it (by simp)
    have hn : (fieldName it.1 == "node") = false := by simpa using h.hnode it hit
    obtain ⟨h1, h2⟩ := filter_node h rest (fun g hg => hsub g (by simp [hg]))
    simp only [selsOf, List.map_cons] at h1 h2 ⊢
    refine ⟨?_, ?_⟩
    · simp only [List.filter_cons, hn, Bool.false_eq_true, ↓reduceIte, h1]
    · simp only [List.filter_cons, hn, bne, Bool.not_false, ↓reduceIte]
      simp only [bne] at h2
      rw [h2]

/-- **The planner's shape at the `Mutation` root**, for any root selections with known owners:
    one step per owning service (in `GetURLs()` order), built by `extractSelectionSet` from ALL the
    selections that service owns. -/
theorem planRoot_items (h : Routed c items) (hkind : c.opKind = .mutation)
    (S : String → List Sel) (C : String → List Step)
    (hext : ∀ u, extractSels c [] "Mutation" (ownedBy items u) u = .ok (S u, C u)) :
    planRoot c (selsOf items) = .ok ((activeUrls c items).map (fun u => Step.mk u "Mutation" (S u) [] (C u))) := by
  obtain ⟨hf1, hf2⟩ := filter_node h items (fun f hf => hf)
  unfold planRoot
  simp only [hkind, OpKind.rootName, toFields_items items h.hfield, hf1, hf2, routeRoot_items h, bind, Except.bind,
    groupNodeFields, List.foldlM_nil, pure, Except.pure, List.foldl_nil]
  rw [Mut.foldlM_ok _ (fun steps x => steps ++ [Step.mk x.1 "Mutation" (S x.1) [] (C x.1)])
    (fun x => ∃ u, x = entryOf items u)]
  · rw [Mut.foldl_snoc_map (fun x : String × List Sel => Step.mk x.1 "Mutation" (S x.1) [] (C x.1))]
    simp [entryOf, Function.comp_def]
  · intro x hx
    obtain ⟨u, _, rfl⟩ := List.mem_map.mp hx
    exact ⟨u, rfl⟩
  · rintro s x ⟨u, rfl⟩
    simp only [entryOf, hext u]

theorem activeUrls_nodup (c : PCtx) (items : List Item) : (activeUrls c items).Nodup :=
  (Mut.urls_nodup c.tum).sublist List.filter_sublist

end PebblesVerif.MutO
