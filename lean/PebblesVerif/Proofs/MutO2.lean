import PebblesVerif.Proofs.MutO1
/-! Mutation family with one object-valued root field: the family, sanitising, extraction, the plan. -/
namespace PebblesVerif.MutO
open PebblesVerif PebblesVerif.Exec PebblesVerif.Mut

/-- the hypotheses describing the family: leaf root fields `ms` (possibly none) with their owners,
    then the root field `o : T` owned by `A`, `T` a Node type whose selected leaf fields `fs` are
    owned by `A` or `B` (`Flat.FamT`) -/
structure Fam (c : PCtx) (ms : List MSpec) (A B T o : String) (fs : List Flat.FieldSpec) : Prop
    extends Flat.FamT c A B T o fs where
  hrnd : (mnames ms ++ [o]).Nodup
  hrfb : ∀ n ∈ mnames ms ++ [o], isBuiltinName n = false
  hrnode : ∀ n ∈ mnames ms ++ [o], n ≠ "node"
  hschemaM : ∃ td, c.schema.type? "Mutation" = some td ∧ td.kind = .object
  tumMf : ∀ f ∈ ms, c.tum.get? "Mutation" f.1 = some f.2.2
  tumMo : c.tum.get? "Mutation" o = some A
  hint : ∀ f ∈ ms, f.2.2 ≠ internalService
  hAint : A ≠ internalService
  hkind : c.opKind = .mutation

variable {c : PCtx} {ms : List MSpec} {A B T o : String} {fs : List Flat.FieldSpec}

/-- the client operation `mutation { m₁ … mₙ o { f₁ … fₖ } }` -/
def op (c : PCtx) (ms : List MSpec) (T o : String) (fs : List Flat.FieldSpec) : Op :=
  ⟨.mutation, c.opName, [], mleaves ms ++ [Flat.Q T o fs]⟩

/-- all root fields with their owners, as `MSpec`s -/
def roots (ms : List MSpec) (A T o : String) : List MSpec := ms ++ [(o, .named T, A)]

/-- the sanitised root selections with their owners -/
def itemsOf (ms : List MSpec) (A T o : String) (fs : List Flat.FieldSpec) : List Item :=
  ms.map (fun f => (Flat.leaf f.1 f.2.1, f.2.2)) ++ [(Flat.Q' T o fs, A)]

theorem selsOf_itemsOf : selsOf (itemsOf ms A T o fs) = mleaves ms ++ [Flat.Q' T o fs] := by
  simp [selsOf, itemsOf, mleaves, Function.comp_def]

/-! ## sanitise -/

theorem sanitizeSelsAcc_append (c : PCtx) (ip : List String) : ∀ (l1 l2 acc : List Sel) (sf : Scrub),
    sanitizeSelsAcc c ip (l1 ++ l2) acc sf
      = (match sanitizeSelsAcc c ip l1 acc sf with
         | .ok p => sanitizeSelsAcc c ip l2 p.1 p.2
         | .error e => .error e)
  | [], l2, acc, sf => by simp [sanitizeSelsAcc]
  | s :: l1, l2, acc, sf => by
    rw [List.cons_append, sanitizeSelsAcc, sanitizeSelsAcc]
    cases hs : sanitizeSel c ip s with
    | error e => simp [bind, Except.bind]
    | ok p =>
      simp only [bind, Except.bind]
      exact sanitizeSelsAcc_append c ip l1 l2 _ _

/-- sanitising the object-valued root field: the helper `id` is added, and registered for scrubbing -/
theorem sanitizeSel_O (h : Flat.FamT c A B T o fs) :
    sanitizeSel c [] (Flat.Q T o fs) = .ok ([Flat.Q' T o fs], [([o], [(T, ["id"])])]) := by
  have hleaves : sanitizeSelsAcc c ([] ++ [o]) (Flat.leaves fs) [] [] = .ok (Flat.leaves fs, []) :=
    Flat.sanitize_leaves c ([] ++ [o]) fs [] [] (by simpa using h.hnd)
  have hempty : (Flat.leaves fs).isEmpty = false := by
    cases hfs : fs with
    | nil => exact absurd hfs h.hne
    | cons a b => simp [Flat.leaves]
  have hnoid : containsField "id" (Flat.leaves fs) = false := by
    rw [Flat.containsField_leaves]
    simp only [List.contains_eq_mem, decide_eq_false_iff_not]
    intro hm; exact h.hfid "id" hm rfl
  simp only [Flat.Q, sanitizeSel, hempty, Bool.false_eq_true, ↓reduceIte, bind, Except.bind]
  rw [hleaves]
  simp only [addScrubFields, TypeRef.name, Flat.abstractDef_none h.hschemaT, h.tumTn, Option.getD_some, ↓reduceIte,
    withId, hnoid, Bool.false_eq_true]
  obtain ⟨td, h1, h2⟩ := h.hschemaT
  simp [setMissing, h1, h2, isAbstractKind, Scrub.set, Flat.Q']

theorem mem_root_names (f : MSpec) (hf : f ∈ ms) : f.1 ∈ mnames ms ++ [o] :=
  List.mem_append_left _ (mem_mnames hf)

theorem o_not_in_ms (h : Fam c ms A B T o fs) : o ∉ mnames ms := by
  have := h.hrnd
  rw [List.nodup_append] at this
  intro hmem
  exact this.2.2 o hmem o (by simp) rfl

/-- **Stage 1 — sanitise** -/
theorem stage_sanitize (h : Fam c ms A B T o fs) :
    sanitizeSels c [] (mleaves ms ++ [Flat.Q T o fs])
      = .ok (mleaves ms ++ [Flat.Q' T o fs], [([o], [(T, ["id"])])]) := by
  have hnd : (Flat.namesOf ([] ++ ms.map toFS)).Nodup := by
    rw [List.nil_append, ← mnames_eq]
    exact (List.nodup_append.mp h.hrnd).1
  have hl := Flat.sanitize_leaves c [] (ms.map toFS) [] [] hnd
  have hl' : sanitizeSelsAcc c [] (mleaves ms) [] [] = .ok (mleaves ms, []) := by
    rw [mleaves_eq]; exact hl
  have hal : hasFieldAliased (mleaves ms) o = false := by
    rw [mleaves_eq, Flat.hasFieldAliased_leaves, ← mnames_eq]
    simpa using o_not_in_ms h
  unfold sanitizeSels
  rw [sanitizeSelsAcc_append, hl']
  simp only
  rw [sanitizeSelsAcc]
  simp only [sanitizeSel_O h.toFamT, bind, Except.bind]
  have hadd : addToResult (mleaves ms) [Flat.Q' T o fs] = mleaves ms ++ [Flat.Q' T o fs] := by
    unfold addToResult
    simp [Flat.Q', hal]
  rw [hadd]
  simp [sanitizeSelsAcc, Scrub.merge, Scrub.set]

/-! ## routing -/

theorem isNode_some (h : Fam c ms A B T o fs) : ∃ b, c.tum.isNode? "Mutation" = some b := by
  have hg := h.tumMo
  unfold Tum.get? at hg
  unfold Tum.isNode?
  cases hp : c.tum.props? "Mutation" with
  | none => simp [hp] at hg
  | some p => exact ⟨p.isNode, rfl⟩

theorem getURL_m (h : Fam c ms A B T o fs) (f : MSpec) (hf : f ∈ ms) (fb : String) :
    getURL c "Mutation" f.1 fb = .ok f.2.2 := by
  obtain ⟨b, hb⟩ := isNode_some h
  have hbn := h.hrfb f.1 (mem_root_names f hf)
  simp [getURL, hbn, hb, h.tumMf f hf, isRootName]

theorem getURL_o (h : Fam c ms A B T o fs) (fb : String) : getURL c "Mutation" o fb = .ok A := by
  obtain ⟨b, hb⟩ := isNode_some h
  have hbn := h.hrfb o (by simp)
  simp [getURL, hbn, hb, h.tumMo, isRootName]

theorem routed (h : Fam c ms A B T o fs) : Routed c (itemsOf ms A T o fs) where
  hne := by simp [itemsOf]
  hfield := by
    intro it hit
    simp only [itemsOf, List.mem_append, List.mem_map, List.mem_singleton] at hit
    rcases hit with ⟨f, _, rfl⟩ | rfl <;> rfl
  hurl := by
    intro it hit fb
    simp only [itemsOf, List.mem_append, List.mem_map, List.mem_singleton] at hit
    rcases hit with ⟨f, hf, rfl⟩ | rfl
    · exact getURL_m h f hf fb
    · exact getURL_o h fb
  hnode := by
    intro it hit
    simp only [itemsOf, List.mem_append, List.mem_map, List.mem_singleton] at hit
    rcases hit with ⟨f, hf, rfl⟩ | rfl
    · exact h.hrnode f.1 (mem_root_names f hf)
    · exact h.hrnode o (by simp)
  hint := by
    intro it hit
    simp only [itemsOf, List.mem_append, List.mem_map, List.mem_singleton] at hit
    rcases hit with ⟨f, hf, rfl⟩ | rfl
    · exact h.hint f hf
    · exact h.hAint

/-- the root selections service `u` owns, as the router hands them over -/
theorem ownedBy_itemsOf (u : String) :
    ownedBy (itemsOf ms A T o fs) u = mleaves (owned ms u) ++ (if A == u then [Flat.Q' T o fs] else []) := by
  unfold ownedBy selsOf itemsOf owned mleaves
  rw [List.filter_append, List.map_append, List.filter_map, List.map_map]
  congr 1
  cases hb : (A == u) <;> simp [hb]

/-! ## extraction -/

theorem preExtract_M (h : Fam c ms A B T o fs) : preExtract c "Mutation" = .ok () := by
  obtain ⟨td, h1, h2⟩ := h.hschemaM
  simp [preExtract, h1, h2]

/-- the owner keeps its leaf root fields (no child steps so far) -/
theorem extract_fold (h : Fam c ms A B T o fs) (u : String) (tail : List Sel) : ∀ (rest : List MSpec) (acc : List Sel),
    (∀ f ∈ rest, f ∈ ms ∧ f.2.2 = u) →
    extractLoop c [] "Mutation" u (mleaves rest ++ tail) (acc, [])
      = extractLoop c [] "Mutation" u tail (acc ++ mleaves rest, [])
  | [], acc, _ => by simp [mleaves_nil]
  | f :: rest, acc, hsub => by
    have hf := hsub f (by simp)
    have hrest : ∀ g ∈ rest, g ∈ ms ∧ g.2.2 = u := fun g hg => hsub g (by simp [hg])
    rw [mleaves_cons, List.cons_append, extractLoop]
    simp only [Flat.leaf, extractSel, getURL_m h f hf.1, hf.2, beq_self_eq_true, ↓reduceIte, List.isEmpty_nil,
      bind, Except.bind]
    have := extract_fold h u tail rest (acc ++ [Flat.leaf f.1 f.2.1]) hrest
    simp only [Flat.leaf] at this
    rw [this]
    simp [List.append_assoc]

/-- extraction of the object-valued root field at its owner `A`: `A`'s leaf fields of `T` stay
    (after the helper `id`), `B`'s go into ONE child step at insertion point `[o]` -/
theorem extractSel_O (h : Fam c ms A B T o fs) (acc : List Sel) :
    extractSel c [] "Mutation" A (Flat.Q' T o fs) (acc, [])
      = .ok (acc ++ [Flat.Qown T o fs], Flat.stepsB B T o (Flat.fsB fs)) := by
  have hextract := Flat.extract_leaves h.toFamT fs [] [] (fun f hf => hf)
  have hidstep : extractSel c [o] T A idField ([], []) = .ok ([idField], []) := by
    simp [idField, extractSel, getURL, isBuiltinName, h.tumTn, h.tumTid]
  have hinner : extractLoop c [o] T A (idField :: Flat.leaves fs) ([], [])
      = .ok (idField :: Flat.leaves (Flat.fsA fs), Flat.stepsB B T o (Flat.fsB fs)) := by
    rw [extractLoop]
    simp only [hidstep, bind, Except.bind]
    have := hextract
    simp only [Flat.leaves_nil, Flat.stepsB, List.nil_append] at this
    exact this
  have hfinT : finishExtract c T (idField :: Flat.leaves (Flat.fsA fs)) = idField :: Flat.leaves (Flat.fsA fs) := by
    simp [finishExtract, hasFieldNamed, idField]
  unfold Flat.Q'
  rw [extractSel]
  simp only [getURL_o h, beq_self_eq_true, ↓reduceIte, List.isEmpty_cons, Bool.false_eq_true, TypeRef.name,
    Flat.preExtract_T h.toFamT, bind, Except.bind, List.nil_append]
  rw [hinner]
  simp only [hfinT, Flat.Qown]

/-- the selection set service `u` receives at the root -/
def rootSels (ms : List MSpec) (A T o : String) (fs : List Flat.FieldSpec) (u : String) : List Sel :=
  mleaves (owned ms u) ++ (if A == u then [Flat.Qown T o fs] else [])

/-- the child steps of the root step of service `u` -/
def children (A B T o : String) (fs : List Flat.FieldSpec) (u : String) : List Step :=
  if A == u then Flat.stepsB B T o (Flat.fsB fs) else []

/-- **Stage 2b — extraction at the root** -/
theorem extract_u (h : Fam c ms A B T o fs) (u : String) :
    extractSels c [] "Mutation" (ownedBy (itemsOf ms A T o fs) u) u
      = .ok (rootSels ms A T o fs u, children A B T o fs u) := by
  rw [ownedBy_itemsOf]
  unfold extractSels
  simp only [preExtract_M h, bind, Except.bind]
  rw [extract_fold h u _ (owned ms u) [] (owned_sub ms u)]
  cases hb : (A == u)
  · simp [extractLoop, rootSels, children, hb, finishExtract, isRootName]
  · have hu : A = u := by simpa using hb
    subst hu
    simp only [↓reduceIte, List.nil_append]
    rw [extractLoop]
    simp only [extractSel_O h, bind, Except.bind, extractLoop]
    simp [rootSels, children, finishExtract, isRootName]

/-- the root step of service `u` -/
def stepOf (ms : List MSpec) (A B T o : String) (fs : List Flat.FieldSpec) (u : String) : Step :=
  .mk u "Mutation" (rootSels ms A T o fs u) [] (children A B T o fs u)

def urlsOf (c : PCtx) (ms : List MSpec) (A T o : String) (fs : List Flat.FieldSpec) : List String :=
  activeUrls c (itemsOf ms A T o fs)

def planOf (c : PCtx) (ms : List MSpec) (A B T o : String) (fs : List Flat.FieldSpec) : List Step :=
  (urlsOf c ms A T o fs).map (stepOf ms A B T o fs)

/-- **Stage 2 — plan**: one root step per owning service; the step of `A` also carries
    `o { id <A's fields> }` and, if `B` owns a selected field of `T`, one child step
    `node(id: $id) { ... on T { <B's fields> } }` at insertion point `[o]` -/
theorem stage_plan (h : Fam c ms A B T o fs) :
    plan c (op c ms T o fs) = .ok (planOf c ms A B T o fs, [([o], [(T, ["id"])])]) := by
  unfold plan
  simp only [op, stage_sanitize h, bind, Except.bind]
  rw [← selsOf_itemsOf (A := A), planRoot_items (routed h) h.hkind _ _ (extract_u h)]
  rfl

end PebblesVerif.MutO
