import PebblesVerif.Proofs.MutO2
/-! Mutation family with one object-valued root field: execution (two depths) against a downstream
whose answers are well-formed. -/
namespace PebblesVerif.MutO
open PebblesVerif PebblesVerif.Exec PebblesVerif.ResultOps PebblesVerif.Mut

variable {c : PCtx} {ms : List MSpec} {A B T o : String} {fs : List Flat.FieldSpec}

/-! ## JSON objects -/

theorem lookup_setKey_same (k : String) (v : J) : ∀ (m : List (String × J)), J.lookup k (J.setKey k v m) = some v
  | [] => by simp [J.setKey, J.lookup]
  | (k', v') :: rest => by
    by_cases hk : k = k'
    · simp [J.setKey, J.lookup, hk]
    · simp [J.setKey, J.lookup, hk, lookup_setKey_same k v rest]

theorem lookup_setKey_ne (k k' : String) (v : J) (hne : k ≠ k') : ∀ (m : List (String × J)),
    J.lookup k (J.setKey k' v m) = J.lookup k m
  | [] => by simp [J.setKey, J.lookup, hne]
  | (k'', v'') :: rest => by
    by_cases hk : k' = k''
    · subst hk; simp [J.setKey, J.lookup, hne]
    · by_cases hk2 : k = k''
      · simp [J.setKey, J.lookup, hk, hk2]
      · simp [J.setKey, J.lookup, hk, hk2, lookup_setKey_ne k k' v hne rest]

/-- the body of `mergeInto`'s fold, named -/
def mstep (t : List (String × J)) (kv : String × J) : List (String × J) :=
  match kv.2, J.lookup kv.1 t with
  | .obj v1, some (.obj v2) => J.setKey kv.1 (.obj (mergeMaps v2 v1)) t
  | _, _ => J.setKey kv.1 kv.2 t

theorem mergeInto_eq (t res : List (String × J)) : mergeInto t res = res.foldl mstep t := by
  unfold mergeInto
  congr 1

theorem lookup_mstep_ne (k : String) (t : List (String × J)) (kv : String × J) (hne : k ≠ kv.1) :
    J.lookup k (mstep t kv) = J.lookup k t := by
  unfold mstep
  split <;> exact lookup_setKey_ne k kv.1 _ hne t

/-- merging an answer that does not carry key `k` leaves the value under `k` alone -/
theorem lookup_mergeInto_not_mem (k : String) : ∀ (res t : List (String × J)), k ∉ J.keys res →
    J.lookup k (mergeInto t res) = J.lookup k t := by
  intro res t h
  rw [mergeInto_eq]
  induction res generalizing t with
  | nil => rfl
  | cons kv rest ih =>
    simp only [J.keys, List.map_cons, List.mem_cons, not_or] at h
    simp only [List.foldl_cons]
    rw [ih (mstep t kv) (by simpa [J.keys] using h.2), lookup_mstep_ne k t kv h.1]

/-- there is an object under key `k` -/
def HasObj (k : String) (t : List (String × J)) : Prop := ∃ X, J.lookup k t = some (.obj X)

/-- merging an answer that ends with an object under `k` leaves an object under `k` -/
theorem hasObj_mergeInto (k : String) (ra : List (String × J)) (X : List (String × J)) (t : List (String × J)) :
    HasObj k (mergeInto t (ra ++ [(k, .obj X)])) := by
  rw [mergeInto_eq, List.foldl_append, List.foldl_cons, List.foldl_nil]
  unfold mstep
  split
  · exact ⟨_, lookup_setKey_same _ _ _⟩
  · exact ⟨X, lookup_setKey_same _ _ _⟩

theorem lookup_append_not_mem (k : String) (v : J) : ∀ (ra : List (String × J)), k ∉ J.keys ra →
    J.lookup k (ra ++ [(k, v)]) = some v
  | [], _ => by simp [J.lookup]
  | (k', v') :: rest, h => by
    simp only [J.keys, List.map_cons, List.mem_cons, not_or] at h
    have : ¬ k = k' := h.1
    simp only [List.cons_append, J.lookup, this, ↓reduceIte]
    exact lookup_append_not_mem k v rest (by simpa [J.keys] using h.2)

/-! ## the requests -/

def erOf (ms : List MSpec) (A B T o : String) (fs : List Flat.FieldSpec) (u : String) : ExecReq :=
  ⟨stepOf ms A B T o fs u, []⟩

def groupOf (ms : List MSpec) (A B T o : String) (fs : List Flat.FieldSpec) (u : String) : String × List ExecReq :=
  (u, [erOf ms A B T o fs u])

/-- the single (root) request service `u` receives at depth 0 -/
def rootReq (c : PCtx) (ms : List MSpec) (A B T o : String) (fs : List Flat.FieldSpec) (u : String) : Request :=
  Flat.rqOf c (stepOf ms A B T o fs u) []

def rootCall (c : PCtx) (ms : List MSpec) (A B T o : String) (fs : List Flat.FieldSpec) (u : String) : Call :=
  ⟨u, [rootReq c ms A B T o fs u]⟩

/-- the follow-up lookup for `B`'s fields of the object with id `i` -/
def lookupReq (c : PCtx) (B T o : String) (fs : List Flat.FieldSpec) (i : String) : Request :=
  Flat.rqOf c (Flat.stepB B T o (Flat.fsB fs)) [("id", .str i)]

/-- the follow-up requests found in `u`'s answer -/
def nextOf (A B T o : String) (fs : List Flat.FieldSpec) (i : String) (u : String) : List ExecReq :=
  if A == u then (Flat.stepsB B T o (Flat.fsB fs)).map (fun d => ⟨d, [Flat.pointQ o i]⟩) else []

/-- a well-formed answer of service `u` to its root request: the owner of `o` answers with an
    object under `o` (last key, as requested) that carries the string id `i`; nobody else answers
    with a key `o` -/
def GoodResp (A o i u : String) (r : List (String × J)) : Prop :=
  if A = u then ∃ ra X, r = ra ++ [(o, .obj X)] ∧ o ∉ J.keys ra ∧ J.lookup "id" X = some (.str i)
  else o ∉ J.keys r

/-- the downstream answers the expected calls, with well-formed answers -/
structure Good (c : PCtx) (ms : List MSpec) (A B T o : String) (fs : List Flat.FieldSpec) (down : Downstream)
    (i : String) : Prop where
  hroot : ∀ u ∈ urlsOf c ms A T o fs, ∃ r, down u [rootReq c ms A B T o fs u] = .ok [r] ∧ GoodResp A o i u r
  hlook : Flat.fsB fs ≠ [] → ∃ nb, down B [lookupReq c B T o fs i] = .ok [[("node", nb)]] ∧
            (nb = .null ∨ ∃ b, nb = .obj b)

/-! ## depth 0 -/

theorem findSelection_leaves (o : String) (tail : List Sel) : ∀ (rest : List MSpec), o ∉ mnames rest →
    findSelection o (mleaves rest ++ tail) = findSelection o tail
  | [], _ => by simp [mleaves_nil]
  | f :: rest, h => by
    simp only [mnames, List.map_cons, List.mem_cons, not_or] at h
    have hne : (f.1 == o) = false := by simpa using fun e => h.1 e.symm
    rw [mleaves_cons, List.cons_append, Flat.leaf,
      findSelection_skip_leaf f.1 f.1 [] [] f.2.1 [] _ o (by simpa using hne)]
    exact findSelection_leaves o tail rest (by simpa [mnames] using h.2)

theorem owned_names_sub (ms : List MSpec) (u n : String) (hn : n ∈ mnames (owned ms u)) : n ∈ mnames ms := by
  obtain ⟨f, hf, rfl⟩ := List.mem_map.mp hn
  exact mem_mnames (owned_sub ms u f hf).1

theorem findIP_o (h : Fam c ms A B T o fs) (i : String) (ra X : List (String × J))
    (hra : o ∉ J.keys ra) (hid : J.lookup "id" X = some (.str i)) :
    findIP [o] (rootSels ms A T o fs A) (ra ++ [(o, .obj X)]) [] = .ok [[Flat.pointQ o i]] := by
  have hfs : findSelection o (rootSels ms A T o fs A) = some (Flat.Qown T o fs) := by
    unfold rootSels
    rw [findSelection_leaves o _ _ (fun hm => o_not_in_ms h (owned_names_sub ms A o hm))]
    simp only [beq_self_eq_true, ↓reduceIte, Flat.Qown]
    exact findSelection_head o o [] [] _ [] _ [] o (by simp)
  unfold findIP findIPW
  rw [hfs, lookup_append_not_mem o _ ra hra]
  simp [selType, Flat.Qown, TypeRef.isList, extractID, hid, bind, Except.bind, fmtID, Flat.pointQ]

theorem parseOne_u (h : Fam c ms A B T o fs) (i u : String) (r : List (String × J)) (hr : GoodResp A o i u r) :
    parseOne (erOf ms A B T o fs u) r = .ok (r, nextOf A B T o fs i u) := by
  unfold parseOne
  simp only [erOf, stepOf, Step.parentType, isRootName, beq_self_eq_true, Bool.or_true, Bool.true_or, ↓reduceIte,
    bind, Except.bind, Step.thn, Step.sels, List.length_nil]
  by_cases hu : A = u
  · subst hu
    simp only [GoodResp, ↓reduceIte] at hr
    obtain ⟨ra, X, rfl, hra, hid⟩ := hr
    simp only [children, nextOf, beq_self_eq_true, ↓reduceIte]
    cases hB : Flat.fsB fs with
    | nil => simp [Flat.stepsB, pure, Except.pure]
    | cons b bs =>
      simp only [Flat.stepsB, List.foldlM_cons, List.foldlM_nil, Step.ip, List.drop_zero, findIP_o h i ra X hra hid,
        bind, Except.bind, pure, Except.pure, List.nil_append, List.map_cons, List.map_nil]
  · have hb : (A == u) = false := by simpa using hu
    simp [children, nextOf, hb, pure, Except.pure]

/-- one group of depth 0: one call with the single root request; the answer is merged at the root;
    the follow-up requests found in the answer are queued -/
theorem gstep_u (h : Fam c ms A B T o fs) (down : Downstream) (i u : String) (r : List (String × J))
    (hd : down u [rootReq c ms A B T o fs u] = .ok [r]) (hr : GoodResp A o i u r)
    (st : ExecState) (nx : List ExecReq) :
    gstep c {} none down (st, nx) (groupOf ms A B T o fs u)
      = .ok (⟨mergeInto st.result r, st.calls ++ [rootCall c ms A B T o fs u]⟩, nx ++ nextOf A B T o fs i u) := by
  have hroot : isRootName (stepOf ms A B T o fs u).parentType = true := by simp [stepOf, Step.parentType, isRootName]
  have hd' : down u [Flat.rqOf c (stepOf ms A B T o fs u) []] = .ok [r] := hd
  have hp := parseOne_u h i u r hr
  simp only [erOf] at hp
  unfold gstep groupOf
  simp only [erOf, Flat.buildBatch_root c _ hroot, bind, Except.bind, hd', List.length_cons, List.length_nil,
    bne_self_eq_false, Bool.false_eq_true, ↓reduceIte, List.zip_cons_cons, List.zip_nil_right, List.foldlM_cons,
    List.foldlM_nil, rstep, List.getElem?_cons_zero, Option.getD_some, hp, mergeResult_nil, pure, Except.pure,
    rootCall, rootReq]

theorem groups_fold (h : Fam c ms A B T o fs) (down : Downstream) (i : String) :
    ∀ (us : List String) (st : ExecState) (nx : List ExecReq),
    (∀ u ∈ us, ∃ r, down u [rootReq c ms A B T o fs u] = .ok [r] ∧ GoodResp A o i u r) →
    ∃ res, (us.map (groupOf ms A B T o fs)).foldlM (gstep c {} none down) (st, nx)
        = .ok (⟨res, st.calls ++ us.map (rootCall c ms A B T o fs)⟩, nx ++ us.flatMap (nextOf A B T o fs i)) ∧
      ((A ∈ us ∨ HasObj o st.result) → HasObj o res)
  | [], st, nx, _ => ⟨st.result, by simp [pure, Except.pure], by simp⟩
  | u :: us, st, nx, hd => by
    obtain ⟨r, hdu, hr⟩ := hd u (by simp)
    obtain ⟨res, heq, hobj⟩ := groups_fold h down i us
      ⟨mergeInto st.result r, st.calls ++ [rootCall c ms A B T o fs u]⟩ (nx ++ nextOf A B T o fs i u)
      (fun v hv => hd v (by simp [hv]))
    refine ⟨res, ?_, ?_⟩
    · simp only [List.map_cons, List.foldlM_cons, bind, Except.bind, gstep_u h down i u r hdu hr, heq,
        List.flatMap_cons, List.append_assoc, List.cons_append, List.nil_append]
    · intro hpre
      apply hobj
      by_cases hu : A = u
      · right
        subst hu
        simp only [GoodResp, ↓reduceIte] at hr
        obtain ⟨ra, X, rfl, _, _⟩ := hr
        exact hasObj_mergeInto o ra X st.result
      · simp only [GoodResp, hu, ↓reduceIte] at hr
        rcases hpre with hmem | hob
        · simp only [List.mem_cons] at hmem
          rcases hmem with hAu | hmem
          · exact absurd hAu hu
          · exact Or.inl hmem
        · right
          obtain ⟨X, hX⟩ := hob
          exact ⟨X, by simp only; rw [lookup_mergeInto_not_mem o r st.result hr, hX]⟩

theorem partition_fold (ms : List MSpec) (A B T o : String) (fs : List Flat.FieldSpec) :
    ∀ (us done : List String), (done ++ us).Nodup →
    (us.map (erOf ms A B T o fs)).foldl pstep (done.map (groupOf ms A B T o fs))
      = (done ++ us).map (groupOf ms A B T o fs)
  | [], done, _ => by simp
  | u :: us, done, hnd => by
    have hu : u ∉ done := by
      rw [List.nodup_append] at hnd
      intro hmem
      exact hnd.2.2 u hmem u (by simp) rfl
    have hfind : (done.map (groupOf ms A B T o fs)).find? (·.1 == (erOf ms A B T o fs u).step.url) = none := by
      rw [List.find?_eq_none]
      intro x hx
      obtain ⟨v, hv, rfl⟩ := List.mem_map.mp hx
      simp only [groupOf, erOf, stepOf, Step.url, beq_iff_eq]
      intro hvu; subst hvu; exact hu hv
    simp only [List.map_cons, List.foldl_cons]
    have hstep : pstep (done.map (groupOf ms A B T o fs)) (erOf ms A B T o fs u)
        = (done ++ [u]).map (groupOf ms A B T o fs) := by
      unfold pstep
      rw [hfind]
      simp [groupOf, erOf, stepOf, Step.url]
    rw [hstep, partition_fold ms A B T o fs us (done ++ [u]) (by simpa [List.append_assoc] using hnd)]
    simp [List.append_assoc]

theorem urlsOf_nodup (c : PCtx) (ms : List MSpec) (A T o : String) (fs : List Flat.FieldSpec) :
    (urlsOf c ms A T o fs).Nodup := activeUrls_nodup c _

theorem A_mem_urls (h : Fam c ms A B T o fs) : A ∈ urlsOf c ms A T o fs := by
  unfold urlsOf activeUrls
  rw [List.mem_filter]
  refine ⟨get_mem_urls h.tumMo, ?_⟩
  simp [active, ownedBy_itemsOf]

theorem flatMap_nextOf (A B T o : String) (fs : List Flat.FieldSpec) (i : String) : ∀ (us : List String),
    us.Nodup → A ∈ us →
    us.flatMap (nextOf A B T o fs i) = (Flat.stepsB B T o (Flat.fsB fs)).map (fun d => ⟨d, [Flat.pointQ o i]⟩) := by
  intro us hnd hA
  induction us with
  | nil => cases hA
  | cons u us ih =>
    simp only [List.nodup_cons] at hnd
    rw [List.flatMap_cons]
    by_cases hu : A = u
    · subst hu
      have hrest : us.flatMap (nextOf A B T o fs i) = [] := by
        rw [List.flatMap_eq_nil_iff]
        intro v hv
        have : (A == v) = false := by simpa using fun e : A = v => hnd.1 (e ▸ hv)
        simp [nextOf, this]
      simp [hrest, nextOf]
    · have hA' : A ∈ us := by
        simp only [List.mem_cons] at hA
        rcases hA with hA | hA
        · exact absurd hA hu
        · exact hA
      have hb : (A == u) = false := by simpa using hu
      rw [ih hnd.2 hA']
      simp [nextOf, hb]

/-- **Depth 0**: one call per owning service, each with its single root request; afterwards there
    is an object under `o`; the only follow-up request is `B`'s lookup (if `B` owns a selected field) -/
theorem depth0 (h : Fam c ms A B T o fs) (down : Downstream) (i : String) (hg : Good c ms A B T o fs down i) :
    ∃ res, execDepth c {} none down ((urlsOf c ms A T o fs).map (erOf ms A B T o fs)) ⟨[], []⟩
        = .ok (⟨res, (urlsOf c ms A T o fs).map (rootCall c ms A B T o fs)⟩,
               (Flat.stepsB B T o (Flat.fsB fs)).map (fun d => ⟨d, [Flat.pointQ o i]⟩)) ∧
      HasObj o res := by
  have hpart : partitionByURL ((urlsOf c ms A T o fs).map (erOf ms A B T o fs))
      = (urlsOf c ms A T o fs).map (groupOf ms A B T o fs) := by
    rw [partitionByURL_eq]
    have := partition_fold ms A B T o fs (urlsOf c ms A T o fs) [] (by simpa using urlsOf_nodup c ms A T o fs)
    simpa using this
  obtain ⟨res, heq, hobj⟩ := groups_fold h down i (urlsOf c ms A T o fs) ⟨[], []⟩ [] hg.hroot
  refine ⟨res, ?_, hobj (Or.inl (A_mem_urls h))⟩
  rw [execDepth_eq, hpart, heq, flatMap_nextOf A B T o fs i _ (urlsOf_nodup c ms A T o fs) (A_mem_urls h)]
  simp

/-! ## depth 1 -/

/-- the object found under `node` (`null` = the entity does not exist at `B`) -/
def nodeObj : J → List (String × J)
  | .obj b => b
  | _ => []

theorem parseOne_lookup (h : Fam c ms A B T o fs) (bs : List Flat.FieldSpec) (p : String) (nb : J)
    (hnb : nb = .null ∨ ∃ b, nb = .obj b) :
    parseOne ⟨Flat.stepB B T o bs, [p]⟩ [("node", nb)] = .ok (nodeObj nb, []) := by
  rcases hnb with rfl | ⟨b, rfl⟩
  · have hT : isRootName (Flat.stepB B T o bs).parentType = false := by
      simpa [Flat.stepB, Step.parentType] using h.hTroot
    unfold parseOne
    simp only [hT, Bool.false_eq_true, ↓reduceIte, J.lookup, bind, Except.bind]
    simp [Flat.stepB, Step.thn, pure, Except.pure, nodeObj]
  · exact Flat.parseOne_child h.toFamT bs p b

theorem mergeResult_lookup (o i : String) (res X b : List (String × J))
    (ho1 : '#' ∉ o.toList) (ho2 : ':' ∉ o.toList) (hone : o.toList ≠ [])
    (hX : J.lookup o res = some (.obj X)) :
    mergeResult res [Flat.pointQ o i] b = .ok (J.setKey o (.obj (mergeInto X b)) res) := by
  unfold mergeResult
  rw [updateAt]
  simp only [Flat.extract_pointQ o i ho1 ho2, bind, Except.bind, Flat.isListElement_pointQ o i ho2 hone ho1,
    Bool.false_eq_true, ↓reduceIte, hX, updateAt]

/-- **Depth 1**: one call to `B` with the single lookup request, `$id` bound to the id found under `o` -/
theorem depth1 (h : Fam c ms A B T o fs) (down : Downstream) (i : String) (res : List (String × J)) (calls : List Call)
    (ho1 : '#' ∉ o.toList) (ho2 : ':' ∉ o.toList) (hone : o.toList ≠ []) (hine : i ≠ "")
    (nb : J) (hdown : down B [lookupReq c B T o fs i] = .ok [[("node", nb)]]) (hnb : nb = .null ∨ ∃ b, nb = .obj b)
    (hobj : HasObj o res) :
    ∃ res', execDepth c {} none down [⟨Flat.stepB B T o (Flat.fsB fs), [Flat.pointQ o i]⟩] ⟨res, calls⟩
      = .ok (⟨res', calls ++ [⟨B, [lookupReq c B T o fs i]⟩]⟩, []) := by
  obtain ⟨X, hX⟩ := hobj
  have hurl : (Flat.stepB B T o (Flat.fsB fs)).url = B := rfl
  have hdown' : down B [Flat.rqOf c (Flat.stepB B T o (Flat.fsB fs)) [("id", .str i)]] = .ok [[("node", nb)]] := hdown
  refine ⟨J.setKey o (.obj (mergeInto X (nodeObj nb))) res, ?_⟩
  unfold execDepth
  simp only [partitionByURL, List.foldl_cons, List.foldl_nil, List.find?_nil, List.nil_append, hurl,
    List.foldlM_cons, List.foldlM_nil, bind, Except.bind, Flat.buildBatch_child h.toFamT _ i ho1 ho2 hine, hdown',
    List.length_cons, List.length_nil, bne_self_eq_false, Bool.false_eq_true, ↓reduceIte, List.zip_cons_cons,
    List.zip_nil_right, List.getElem?_cons_zero, Option.getD_some,
    parseOne_lookup h _ (Flat.pointQ o i) nb hnb,
    mergeResult_lookup o i res X _ ho1 ho2 hone hX, pure, Except.pure, List.append_nil, lookupReq]

/-! ## the loop -/

theorem execLoop_nil (c : PCtx) (down : Downstream) : ∀ (n : Nat) (st : ExecState),
    execLoop c {} none down n [] st = .ok st
  | 0, st => by rw [execLoop]
  | n + 1, st => by rw [execLoop]; simp

theorem stepDepth_le : ∀ (l : List Step) (s : Step), s ∈ l → stepDepth s ≤ stepsDepth l
  | [], s, h => by cases h
  | x :: l, s, h => by
    rw [stepsDepth]
    simp only [List.mem_cons] at h
    rcases h with rfl | h
    · exact Nat.le_max_left _ _
    · exact Nat.le_trans (stepDepth_le l s h) (Nat.le_max_right _ _)

theorem depth_ge (h : Fam c ms A B T o fs) :
    1 ≤ stepsDepth (planOf c ms A B T o fs) ∧ (Flat.fsB fs ≠ [] → 2 ≤ stepsDepth (planOf c ms A B T o fs)) := by
  have hmem : stepOf ms A B T o fs A ∈ planOf c ms A B T o fs := List.mem_map.mpr ⟨A, A_mem_urls h, rfl⟩
  have hle := stepDepth_le _ _ hmem
  have hd : stepDepth (stepOf ms A B T o fs A) = stepsDepth (Flat.stepsB B T o (Flat.fsB fs)) + 1 := by
    simp [stepOf, stepDepth, children]
  refine ⟨by omega, ?_⟩
  intro hB
  cases hfb : Flat.fsB fs with
  | nil => exact absurd hfb hB
  | cons b bs =>
    have : stepsDepth (Flat.stepsB B T o (b :: bs)) = 1 := by simp [Flat.stepsB, stepsDepth, stepDepth]
    rw [hfb] at hd
    omega

/-- the follow-up calls: `B`'s lookup, if `B` owns a selected field of `T` -/
def followUps (c : PCtx) (B T o : String) (fs : List Flat.FieldSpec) (i : String) : List Call :=
  if Flat.fsB fs = [] then [] else [⟨B, [lookupReq c B T o fs i]⟩]

def rootCalls (c : PCtx) (ms : List MSpec) (A B T o : String) (fs : List Flat.FieldSpec) : List Call :=
  (urlsOf c ms A T o fs).map (rootCall c ms A B T o fs)

/-- **Stage 3 — execute** -/
theorem stage_execute (h : Fam c ms A B T o fs) (down : Downstream) (i : String)
    (ho1 : '#' ∉ o.toList) (ho2 : ':' ∉ o.toList) (hone : o.toList ≠ []) (hine : i ≠ "")
    (hg : Good c ms A B T o fs down i) :
    ∃ res, execute c {} none down (planOf c ms A B T o fs) []
      = .ok ⟨res, rootCalls c ms A B T o fs ++ followUps c B T o fs i⟩ := by
  obtain ⟨res0, hd0, hobj⟩ := depth0 h down i hg
  obtain ⟨hge1, hge2⟩ := depth_ge h
  have hers : (planOf c ms A B T o fs).map (fun s => (⟨s, s.ip⟩ : ExecReq))
      = (urlsOf c ms A T o fs).map (erOf ms A B T o fs) := by
    simp [planOf, erOf, stepOf, Step.ip, Function.comp_def]
  have hemp : ((urlsOf c ms A T o fs).map (erOf ms A B T o fs)).isEmpty = false := by
    cases hu : urlsOf c ms A T o fs with
    | nil => have := A_mem_urls h; rw [hu] at this; cases this
    | cons _ _ => rfl
  unfold execute
  rw [hers]
  cases hfb : Flat.fsB fs with
  | nil =>
    obtain ⟨n, hn⟩ : ∃ n, stepsDepth (planOf c ms A B T o fs) = n + 1 := ⟨_, (Nat.sub_add_cancel hge1).symm⟩
    rw [hn, execLoop]
    simp only [hemp, Bool.false_eq_true, ↓reduceIte, bind, Except.bind, hd0, hfb, Flat.stepsB, List.map_nil,
      execLoop_nil]
    exact ⟨res0, by simp [followUps, hfb, rootCalls]⟩
  | cons b0 bs =>
    have hB : Flat.fsB fs ≠ [] := by rw [hfb]; simp
    obtain ⟨n, hn⟩ : ∃ n, stepsDepth (planOf c ms A B T o fs) = n + 2 := ⟨_, (Nat.sub_add_cancel (hge2 hB)).symm⟩
    obtain ⟨nb, hdown, hnb⟩ := hg.hlook hB
    obtain ⟨res1, hd1⟩ := depth1 h down i res0 ((urlsOf c ms A T o fs).map (rootCall c ms A B T o fs))
      ho1 ho2 hone hine nb hdown hnb hobj
    rw [hfb] at hd0 hd1
    rw [hn, execLoop]
    simp only [hemp, Bool.false_eq_true, ↓reduceIte, bind, Except.bind, hd0, Flat.stepsB_eq, List.map_cons,
      List.map_nil]
    rw [execLoop]
    simp only [List.isEmpty_cons, Bool.false_eq_true, ↓reduceIte, bind, Except.bind, hd1, execLoop_nil]
    exact ⟨res1, by simp [followUps, hfb, rootCalls]⟩

/-- **Stage 4 — the pipeline** -/
theorem stage_gateway (h : Fam c ms A B T o fs) (down : Downstream) (i : String)
    (ho1 : '#' ∉ o.toList) (ho2 : ':' ∉ o.toList) (hone : o ≠ "") (hine : i ≠ "")
    (hg : Good c ms A B T o fs down i) :
    ∃ d, gateway c {} (op c ms T o fs) none down
      = .ok ⟨some d, [], rootCalls c ms A B T o fs ++ followUps c B T o fs i⟩ := by
  have hone' : o.toList ≠ [] := by
    intro hnil; apply hone; rw [← String.ofList_toList (s := o), hnil]
  obtain ⟨res, hex⟩ := stage_execute h down i ho1 ho2 hone' hine hg
  refine ⟨ScrubClean.cleanAll [([o], [(T, ["id"])])] res, ?_⟩
  rw [gateway_noVarDefs _ _ _ _ _ _ rfl]
  unfold gatewayCore gatewayCoreWith
  simp only [stage_plan h, hex]
  rfl

end PebblesVerif.MutO
