import PebblesVerif.Proofs.MutO3
/-! Mutation family with one object-valued root field: what the calls look like; a concrete instance. -/
namespace PebblesVerif.MutO
open PebblesVerif PebblesVerif.Exec PebblesVerif.ResultOps PebblesVerif.Mut

variable {c : PCtx} {ms : List MSpec} {A B T o : String} {fs : List Flat.FieldSpec}

/-! ## keywords -/

/-- every root request is sent as a `mutation` -/
theorem rootReq_kind (h : Fam c ms A B T o fs) (u : String) : (rootReq c ms A B T o fs u).header.kind = .mutation := by
  simp [rootReq, Flat.rqOf, header, stepOf, Step.ip, h.hkind]

/-- **the follow-up lookup is a `query`**, whatever the client's operation keyword -/
theorem lookupReq_kind (c : PCtx) (B T o : String) (fs : List Flat.FieldSpec) (i : String) :
    (lookupReq c B T o fs i).header.kind = .query := by
  simp [lookupReq, Flat.rqOf, header, Flat.stepB, Step.ip]

theorem lookupReq_sels (c : PCtx) (B T o : String) (fs : List Flat.FieldSpec) (i : String) :
    (lookupReq c B T o fs i).sels = convertToNodeQuery T (Flat.leaves (Flat.fsB fs)) := rfl

theorem lookupReq_vars (c : PCtx) (B T o : String) (fs : List Flat.FieldSpec) (i : String) :
    (lookupReq c B T o fs i).vars = [("id", .str i)] := rfl

/-! ## exactly once -/

theorem roots_names (ms : List MSpec) (A T o : String) : mnames (roots ms A T o) = mnames ms ++ [o] := by
  simp [roots, mnames]

theorem owned_roots (ms : List MSpec) (A T o u : String) :
    owned (roots ms A T o) u = owned ms u ++ (if A == u then [(o, .named T, A)] else []) := by
  unfold owned roots
  rw [List.filter_append]
  congr 1
  cases hb : (A == u) <;> simp [hb]

/-- with distinct names, the fields `u` owns include `f` iff `u` is `f`'s owner -/
theorem contains_owned (rs : List MSpec) (hnd : (mnames rs).Nodup) (f : MSpec) (hf : f ∈ rs) (u : String) :
    (mnames (owned rs u)).contains f.1 = (f.2.2 == u) := by
  by_cases hu : f.2.2 = u
  · have : f.1 ∈ mnames (owned rs u) := mem_mnames (by simp [owned, hf, hu])
    simp [hu, this]
  · have : f.1 ∉ mnames (owned rs u) := by
      intro hmem
      obtain ⟨g, hg, hgn⟩ := List.mem_map.mp hmem
      obtain ⟨hgms, hgu⟩ := owned_sub rs u g hg
      have := fst_inj_of_nodup rs hnd g hgms f hf hgn
      subst this
      exact hu hgu
    simp [hu, this]

theorem hasFieldNamed_append (a b : List Sel) (n : String) :
    hasFieldNamed (a ++ b) n = (hasFieldNamed a n || hasFieldNamed b n) := by
  simp [hasFieldNamed, List.any_append]

theorem hasFieldNamed_rootSels (ms : List MSpec) (A T o : String) (fs : List Flat.FieldSpec) (u n : String) :
    hasFieldNamed (rootSels ms A T o fs u) n = (mnames (owned (roots ms A T o) u)).contains n := by
  rw [owned_roots]
  unfold rootSels
  rw [hasFieldNamed_append, hasFieldNamed_mleaves]
  cases hb : (A == u)
  · simp [hasFieldNamed, mnames]
  · have hon : (o == n) = (n == o) := Bool.beq_comm
    simp [hasFieldNamed, mnames, Flat.Qown, hon]
    by_cases hno : n = o
    · simp [hno]
    · have : (n == o) = false := by simpa using hno
      simp [hno, this]

theorem mentions_rootReq (h : Fam c ms A B T o fs) (f : MSpec) (hf : f ∈ roots ms A T o) (u : String) :
    mentions (rootReq c ms A B T o fs u) f.1 = (f.2.2 == u) := by
  have hsels : (rootReq c ms A B T o fs u).sels = rootSels ms A T o fs u := rfl
  unfold mentions
  rw [hsels, hasFieldNamed_rootSels]
  exact contains_owned _ (by rw [roots_names]; exact h.hrnd) f hf u

theorem mentions_lookupReq (h : Fam c ms A B T o fs) (i : String) (f : MSpec) (hf : f ∈ roots ms A T o) :
    mentions (lookupReq c B T o fs i) f.1 = false := by
  have hn : f.1 ≠ "node" := h.hrnode f.1 (by rw [← roots_names ms A T o]; exact mem_mnames hf)
  have : ("node" == f.1) = false := by simpa using fun e : "node" = f.1 => hn e.symm
  simp [mentions, lookupReq_sels, convertToNodeQuery, hasFieldNamed, this]

theorem owner_mem_urls (h : Fam c ms A B T o fs) (f : MSpec) (hf : f ∈ roots ms A T o) :
    f.2.2 ∈ urlsOf c ms A T o fs := by
  simp only [roots, List.mem_append, List.mem_singleton] at hf
  rcases hf with hf | rfl
  · unfold urlsOf activeUrls
    rw [List.mem_filter]
    refine ⟨get_mem_urls (h.tumMf f hf), ?_⟩
    have : owned ms f.2.2 ≠ [] := by
      intro hnil
      have : f ∈ owned ms f.2.2 := by simp [owned, hf]
      rw [hnil] at this; cases this
    cases ho : owned ms f.2.2 with
    | nil => exact absurd ho this
    | cons a b => simp [active, ownedBy_itemsOf, ho, mleaves]
  · exact A_mem_urls h

/-- **exactly once, at the owner**: among ALL the calls (root calls and follow-ups) there is
    exactly one (URL, request) pair whose request mentions the root field `f`: the root request of
    `f`'s owner -/
theorem sentWith_calls (h : Fam c ms A B T o fs) (i : String) (f : MSpec) (hf : f ∈ roots ms A T o) :
    sentWith (rootCalls c ms A B T o fs ++ followUps c B T o fs i) f.1
      = [(f.2.2, rootReq c ms A B T o fs f.2.2)] := by
  have hfollow : sentWith (followUps c B T o fs i) f.1 = [] := by
    unfold followUps sentWith
    split
    · rfl
    · simp [mentions_lookupReq h i f hf]
  have hroot : sentWith (rootCalls c ms A B T o fs) f.1 = [(f.2.2, rootReq c ms A B T o fs f.2.2)] := by
    unfold sentWith rootCalls
    rw [List.flatMap_map]
    apply flatMap_single _ (fun u => (u, rootReq c ms A B T o fs u)) f.2.2 _ (urlsOf_nodup c ms A T o fs)
      (owner_mem_urls h f hf)
    intro u _
    simp only [rootCall, List.filter_cons, List.filter_nil, mentions_rootReq h f hf u]
    by_cases hu : f.2.2 = u
    · simp [hu]
    · have : ¬ u = f.2.2 := fun e => hu e.symm
      simp [hu, this]
  have happ : sentWith (rootCalls c ms A B T o fs ++ followUps c B T o fs i) f.1
      = sentWith (rootCalls c ms A B T o fs) f.1 ++ sentWith (followUps c B T o fs i) f.1 := by
    simp [sentWith, List.flatMap_append]
  rw [happ, hroot, hfollow, List.append_nil]

/-- **nothing foreign**: every selection of every root request is a root field owned (per the
    type-URL map) by the service called -/
theorem rootCalls_own (h : Fam c ms A B T o fs) : ∀ cl ∈ rootCalls c ms A B T o fs, ∀ rq ∈ cl.batch,
    rq.header.kind = .mutation ∧ ∀ s ∈ rq.sels, c.tum.get? "Mutation" (fieldName s) = some cl.url := by
  intro cl hcl rq hrq
  obtain ⟨u, _, rfl⟩ := List.mem_map.mp hcl
  simp only [rootCall, List.mem_singleton] at hrq
  subst hrq
  refine ⟨rootReq_kind h u, ?_⟩
  intro s hs
  have hsels : (rootReq c ms A B T o fs u).sels = rootSels ms A T o fs u := rfl
  rw [hsels] at hs
  simp only [rootSels, List.mem_append] at hs
  rcases hs with hs | hs
  · obtain ⟨f, hfo, rfl⟩ := List.mem_map.mp hs
    obtain ⟨hfm, hfu⟩ := owned_sub ms u f hfo
    have hname : fieldName (Flat.leaf f.1 f.2.1) = f.1 := rfl
    simp only [rootCall, hname]
    rw [← hfu]
    exact h.tumMf f hfm
  · by_cases hu : A = u
    · subst hu
      simp only [beq_self_eq_true, ↓reduceIte, List.mem_singleton] at hs
      subst hs
      exact h.tumMo
    · have hb : (A == u) = false := by simpa using hu
      simp [hb] at hs

theorem rootCalls_shape (c : PCtx) (ms : List MSpec) (A B T o : String) (fs : List Flat.FieldSpec) :
    (∀ cl ∈ rootCalls c ms A B T o fs, cl.batch.length = 1) ∧ ((rootCalls c ms A B T o fs).map (·.url)).Nodup := by
  refine ⟨?_, ?_⟩
  · intro cl hcl
    obtain ⟨u, _, rfl⟩ := List.mem_map.mp hcl
    rfl
  · have : (rootCalls c ms A B T o fs).map (·.url) = urlsOf c ms A T o fs := by
      simp [rootCalls, rootCall, Function.comp_def]
    rw [this]
    exact urlsOf_nodup c ms A T o fs

end PebblesVerif.MutO

namespace PebblesVerif.MutO.Example
open PebblesVerif PebblesVerif.Exec PebblesVerif.Mut

def tStr : TypeRef := .named "String"
def tInt : TypeRef := .named "Int"
def animalT : TypeDef := { name := "Animal", kind := Kind.object, fields := [⟨"id", [], .nonNull (.named "ID"), none, "", []⟩, ⟨"name", [], tStr, none, "", []⟩, ⟨"age", [], tStr, none, "", []⟩, ⟨"sound", [], tStr, none, "", []⟩] }
def mutationT : TypeDef := { name := "Mutation", kind := Kind.object, fields := [⟨"m1", [], tInt, none, "", []⟩, ⟨"m2", [], tInt, none, "", []⟩, ⟨"createAnimal", [], .named "Animal", none, "", []⟩] }
def queryT : TypeDef := { name := "Query", kind := Kind.object, fields := [⟨"q", [], tInt, none, "", []⟩] }
def merged : Schema := ⟨[animalT, mutationT, queryT], [], [], [], some "Query", some "Mutation", none⟩
def tum : Tum := [("Query", ⟨[("q", "B")], false⟩),
  ("Mutation", ⟨[("m1", "A"), ("m2", "B"), ("createAnimal", "A")], false⟩),
  ("Animal", ⟨[("name", "A"), ("age", "B"), ("sound", "A")], true⟩)]
def ctx : PCtx := ⟨merged, tum, .mutation, ""⟩
def ms : List MSpec := [("m1", tInt, "A"), ("m2", tInt, "B")]
def fs : List Flat.FieldSpec := [("age", tStr, true), ("name", tStr, false), ("sound", tStr, false)]

/-- `mutation { m1 m2 createAnimal { age name sound } }` -/
def opEx : Op := op ctx ms "Animal" "createAnimal" fs

/-- a downstream with well-formed answers (the created id `a#1` contains `#`, the path separator,
    on purpose: ids are arbitrary non-empty strings): lookups (`query`) get the `node`, `A` and `B` answer
    their root requests with the requested keys -/
def down : Downstream := fun u batch => .ok (batch.map (fun rq =>
  if rq.header.kind == .query then [("node", .obj [("age", .str "7")])]
  else if u == "A" then [("m1", .num "1"), ("createAnimal", .obj [("id", .str "a#1"), ("name", .str "rex"), ("sound", .null)])]
  else [("m2", .num "2")]))

theorem fam : Fam ctx ms "A" "B" "Animal" "createAnimal" fs where
  hAB := by decide
  hTroot := by decide
  hne := by decide
  hnd := by decide
  hfb := by simp [Flat.namesOf, fs, isBuiltinName]
  hfid := by decide
  hschemaT := ⟨animalT, by rfl, rfl⟩
  tumTn := by rfl
  tumTid := by rfl
  tumTf := by decide
  hrnd := by decide
  hrfb := by simp [mnames, ms, isBuiltinName]
  hrnode := by decide
  hschemaM := ⟨mutationT, by rfl, rfl⟩
  tumMf := by decide
  tumMo := by rfl
  hint := by decide
  hAint := by decide
  hkind := rfl

theorem urls_eq : urlsOf ctx ms "A" "Animal" "createAnimal" fs = ["B", "A"] := by decide

theorem good : Good ctx ms "A" "B" "Animal" "createAnimal" fs down "a#1" where
  hroot := by
    intro u hu
    rw [urls_eq] at hu
    simp only [List.mem_cons, List.not_mem_nil, or_false] at hu
    have hk : ∀ v, ((rootReq ctx ms "A" "B" "Animal" "createAnimal" fs v).header.kind == OpKind.query) = false := by
      intro v; rw [rootReq_kind fam v]; rfl
    rcases hu with rfl | rfl
    · refine ⟨[("m2", .num "2")], ?_, ?_⟩
      · simp only [down, List.map_cons, List.map_nil, hk]
        rfl
      · simp [GoodResp, J.keys]
    · refine ⟨[("m1", .num "1"), ("createAnimal", .obj [("id", .str "a#1"), ("name", .str "rex"), ("sound", .null)])], ?_, ?_⟩
      · simp only [down, List.map_cons, List.map_nil, hk]
        rfl
      · simp only [GoodResp, ↓reduceIte]
        exact ⟨[("m1", .num "1")], _, rfl, by simp [J.keys], by simp [J.lookup]⟩
  hlook := by
    intro _
    refine ⟨.obj [("age", .str "7")], ?_, Or.inr ⟨_, rfl⟩⟩
    simp only [down, List.map_cons, List.map_nil, lookupReq_kind]
    rfl

/-- the services called, in order, with the keyword and the top-level field names of each request -/
def summary (calls : List Call) : List (String × List (OpKind × List String)) :=
  calls.map (fun cl => (cl.url, cl.batch.map (fun rq => (rq.header.kind, rq.sels.map fieldName))))

end PebblesVerif.MutO.Example
