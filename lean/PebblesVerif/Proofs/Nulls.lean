import PebblesVerif.Model.ResultOps
import PebblesVerif.Model.ScrubClean
/-!
`null` elements inside lists of objects: what `FindInsertionPoints` (`ResultOps.findIP`) and the
scrubber (`ScrubClean.clean`) do with them. Helper definitions and lemmas for `Props/C01Nulls.lean`.
-/
namespace PebblesVerif.Nulls
open PebblesVerif PebblesVerif.ResultOps PebblesVerif.ScrubClean

/-- the regenerated facts the theorems of this family stand on (a revert of the repair breaks here) -/
theorem skips_current : Gen.Nulls.findIPSkipsNullElements = true := by decide
theorem keeps_current : Gen.Nulls.cleanKeepsListWithNonMapElement = true := by decide

/-! ## `findIP` over a list with `null` entries -/

/-- every entry of the list is `null` or an object -/
def ObjectsOrNull (es : List J) : Prop := ∀ e ∈ es, e = .null ∨ ∃ o, e = .obj o

/-- the OBJECT entries of a list answer, each paired with its ORIGINAL index (counting from `i`);
    `null` entries contribute nothing -/
def indexedObjectsFrom (i : Nat) (es : List J) : List (List (String × J) × Nat) :=
  (es.zipIdx i).filterMap (fun p => match p.1 with | .obj o => some (o, p.2) | _ => none)

/-- the reference loop: over (object, index) pairs — the index used in the point is the PAIR's, not
    a running counter. One pair contributes what the list branch of `FindInsertionPoints`
    contributes for one object entry: on the last point the entry point carries the id (an entry
    with only `__typename` aborts with no points at all), then the rest of the path is walked below
    the entry. -/
def pointsOf (sk : Bool) (rest branch : List String) (found : Sel) :
    List (List (String × J) × Nat) → List (List String) → G (Option (List (List String)))
  | [], acc => .ok (some acc)
  | (entry, i) :: ps, acc => do
    let idPart ← (if rest.isEmpty then extractID entry else .ok (some ""))
    match idPart with
    | none => .ok none
    | some id =>
      let ep := Point.encodeList (displayName found) i (if rest.isEmpty then some id else none)
      let sub ← findIPW sk rest (selSub found) entry (branch ++ [ep])
      pointsOf sk rest branch found ps (acc ++ sub)

theorem indexedObjectsFrom_null (i : Nat) (es : List J) :
    indexedObjectsFrom i (.null :: es) = indexedObjectsFrom (i + 1) es := by
  simp [indexedObjectsFrom, List.zipIdx_cons]

theorem indexedObjectsFrom_obj (i : Nat) (o : List (String × J)) (es : List J) :
    indexedObjectsFrom i (.obj o :: es) = (o, i) :: indexedObjectsFrom (i + 1) es := by
  simp [indexedObjectsFrom, List.zipIdx_cons]

/-- the element loop of `findIP` with the guard = the reference loop over the object entries with
    their original indices -/
theorem go_eq_pointsOf (rest branch : List String) (found : Sel) :
    ∀ (es : List J) (i : Nat) (acc : List (List String)), ObjectsOrNull es →
      findIPW.go true rest branch found rest.isEmpty es i acc
        = pointsOf true rest branch found (indexedObjectsFrom i es) acc
  | [], i, acc, _ => by
    rw [findIPW.go]
    simp [indexedObjectsFrom, pointsOf]
  | e :: es, i, acc, h => by
    have hes : ObjectsOrNull es := fun x hx => h x (List.mem_cons_of_mem _ hx)
    rcases h e (List.mem_cons_self ..) with rfl | ⟨o, rfl⟩
    · rw [findIPW.go, indexedObjectsFrom_null]
      simp only [↓reduceIte]
      exact go_eq_pointsOf rest branch found es (i + 1) acc hes
    · rw [findIPW.go, indexedObjectsFrom_obj, pointsOf]
      simp only [bind, Except.bind]
      cases (if rest.isEmpty = true then extractID o else Except.ok (some "")) with
      | error f => rfl
      | ok idPart =>
        cases idPart with
        | none => rfl
        | some id =>
          simp only
          cases findIPW true rest (selSub found) o
              (branch ++ [Point.encodeList (displayName found) i (if rest.isEmpty = true then some id else none)]) with
          | error f => rfl
          | ok sub => exact go_eq_pointsOf rest branch found es (i + 1) (acc ++ sub) hes

/-- `findIP` at a list-typed point whose value is a list of objects and `null`s -/
theorem findIP_list (p : String) (rest : List String) (sels : List Sel) (found : Sel)
    (chunk : List (String × J)) (es : List J) (branch : List String)
    (hsel : findSelection p sels = some found) (hlist : (selType found).isList = true)
    (hchunk : J.lookup p chunk = some (.arr es)) (hes : ObjectsOrNull es) :
    findIP (p :: rest) sels chunk branch
      = (pointsOf true rest branch found (indexedObjectsFrom 0 es) []).bind (fun r => .ok (r.getD [])) := by
  rw [findIP, skips_current, findIPW, hsel]
  simp only [hchunk, hlist, ↓reduceIte]
  rw [go_eq_pointsOf rest branch found es 0 [] hes]
  rfl

/-- every entry is `null` or an object that carries an `id` -/
def EntitiesOrNull (es : List J) : Prop := ∀ e ∈ es, e = .null ∨ ∃ o id, e = .obj o ∧ J.lookup "id" o = some id

/-- the insertion point of the entry at (original) position `p.2`, if it is an object with an id -/
def entryPoint (name : String) (branch : List String) (p : J × Nat) : Option (List String) :=
  match p.1 with
  | .obj o => (J.lookup "id" o).map (fun id => branch ++ [Point.encodeList name p.2 (some (fmtID id))])
  | _ => none

/-- the element loop on the LAST point of a path, in closed form: one point per object entry,
    `name:<original index>#<id>`, in order; the `null` entries are passed over -/
theorem go_last (branch : List String) (found : Sel) :
    ∀ (es : List J) (i : Nat) (acc : List (List String)), EntitiesOrNull es →
      findIPW.go true [] branch found true es i acc
        = .ok (some (acc ++ (es.zipIdx i).filterMap (entryPoint (displayName found) branch)))
  | [], i, acc, _ => by
    rw [findIPW.go]
    simp
  | e :: es, i, acc, h => by
    have hes : EntitiesOrNull es := fun x hx => h x (List.mem_cons_of_mem _ hx)
    rcases h e (List.mem_cons_self ..) with rfl | ⟨o, id, rfl, hid⟩
    · rw [findIPW.go]
      simp only [↓reduceIte]
      rw [go_last branch found es (i + 1) acc hes]
      have hnone : entryPoint (displayName found) branch (J.null, i) = none := rfl
      simp [List.zipIdx_cons, List.filterMap_cons, hnone]
    · rw [findIPW.go]
      simp only [↓reduceIte, extractID, hid, bind, Except.bind, findIPW]
      rw [go_last branch found es (i + 1) _ hes]
      simp [List.zipIdx_cons, entryPoint, hid]

theorem findIP_list_last (p : String) (sels : List Sel) (found : Sel)
    (chunk : List (String × J)) (es : List J) (branch : List String)
    (hsel : findSelection p sels = some found) (hlist : (selType found).isList = true)
    (hchunk : J.lookup p chunk = some (.arr es)) (hes : EntitiesOrNull es) :
    findIP [p] sels chunk branch = .ok (es.zipIdx.filterMap (entryPoint (displayName found) branch)) := by
  rw [findIP, skips_current, findIPW, hsel]
  simp only [hchunk, hlist, ↓reduceIte, List.isEmpty_nil, bind, Except.bind]
  rw [go_last branch found es 0 [] hes]
  simp

/-! ## the scrubber on a list with non-object elements -/

/-- what `cleanList` leaves of one element: an object is cleaned, anything else is untouched -/
def cleanElem (fields : List (String × List String)) (rest : List String) : J → J
  | .obj v => .obj (clean fields rest v).1
  | x => x

/-- the elements after `cleanList`: same length, same positions -/
theorem cleanList_fst (fields : List (String × List String)) (rest : List String) :
    ∀ xs : List J, (cleanList fields rest xs).1 = xs.map (cleanElem fields rest)
  | [] => by rw [cleanList_nil]; rfl
  | x :: xs => by
    cases x with
    | obj v => rw [cleanList_obj]; simp [cleanElem, cleanList_fst fields rest xs]
    | null => rw [cleanList_nonMap _ _ _ _ (fun _ => J.noConfusion)]; simp [cleanElem, cleanList_fst fields rest xs]
    | bool _ => rw [cleanList_nonMap _ _ _ _ (fun _ => J.noConfusion)]; simp [cleanElem, cleanList_fst fields rest xs]
    | num _ => rw [cleanList_nonMap _ _ _ _ (fun _ => J.noConfusion)]; simp [cleanElem, cleanList_fst fields rest xs]
    | str _ => rw [cleanList_nonMap _ _ _ _ (fun _ => J.noConfusion)]; simp [cleanElem, cleanList_fst fields rest xs]
    | arr _ => rw [cleanList_nonMap _ _ _ _ (fun _ => J.noConfusion)]; simp [cleanElem, cleanList_fst fields rest xs]

/-- a non-object element anywhere in the list: the "all elements are now empty" flag is false -/
theorem cleanList_flag_false (fields : List (String × List String)) (rest : List String) :
    ∀ xs : List J, (∃ x ∈ xs, ∀ v, x ≠ .obj v) → (cleanList fields rest xs).2 = false
  | [], h => by obtain ⟨x, hx, _⟩ := h; cases hx
  | x :: xs, h => by
    by_cases hx : ∀ v, x ≠ .obj v
    · rw [cleanList_nonMap _ _ _ _ hx]
      simp [keeps_current]
    · have hobj : ∃ v, x = .obj v := by
        cases x with
        | obj v => exact ⟨v, rfl⟩
        | null => exact absurd (fun _ => J.noConfusion) hx
        | bool _ => exact absurd (fun _ => J.noConfusion) hx
        | num _ => exact absurd (fun _ => J.noConfusion) hx
        | str _ => exact absurd (fun _ => J.noConfusion) hx
        | arr _ => exact absurd (fun _ => J.noConfusion) hx
      obtain ⟨v, rfl⟩ := hobj
      have htail : ∃ y ∈ xs, ∀ v, y ≠ .obj v := by
        obtain ⟨y, hy, hyn⟩ := h
        rcases List.mem_cons.mp hy with rfl | hy
        · exact absurd hyn hx
        · exact ⟨y, hy, hyn⟩
      rw [cleanList_obj]
      simp [cleanList_flag_false fields rest xs htail]

theorem lookup_setKey_self (k : String) (v : J) : ∀ l : List (String × J), J.lookup k (J.setKey k v l) = some v
  | [] => by simp [J.setKey, J.lookup]
  | (k', v') :: xs => by
    simp only [J.setKey]
    by_cases hk : k = k'
    · simp only [hk, ↓reduceIte, J.lookup]
    · simp only [hk, ↓reduceIte, J.lookup, lookup_setKey_self k v xs]

/-- `clean` at a key that holds a list with a non-object element: the key stays, holding the list
    with its object elements cleaned and every other element untouched -/
theorem clean_keeps_list (fields : List (String × List String)) (p : String) (rest : List String)
    (payload : List (String × J)) (xs : List J)
    (hl : J.lookup p payload = some (.arr xs)) (hx : ∃ x ∈ xs, ∀ v, x ≠ .obj v) :
    (clean fields (p :: rest) payload).1 = J.setKey p (.arr (xs.map (cleanElem fields rest))) payload := by
  rw [clean_cons, hl]
  simp only [cleanList_flag_false fields rest xs hx, cleanList_fst]
  simp

end PebblesVerif.Nulls
