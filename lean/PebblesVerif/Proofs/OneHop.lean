import PebblesVerif.Proofs.Eval
import PebblesVerif.Model.ResultOps
/-!
One stitching hop at the level of results (DESIGN Appendix H.3): merging the answer for the
foreign fields into the answer for the owner's fields — with the executor's own merge function —
is the answer for all fields, when response keys are distinct.
-/
namespace PebblesVerif.Spec
open PebblesVerif PebblesVerif.ResultOps

/-- response key of a field selection -/
def respKey : Sel → String
  | .field a n _ _ _ _ _ => if a == "" then n else a
  | _ => ""

/-- plain fields only (no fragments), no directives -/
def plainFields : List Sel → Bool
  | [] => true
  | .field _ _ _ dirs _ _ _ :: rest => dirs.isEmpty && plainFields rest
  | _ :: _ => false

theorem lookup_none_of_not_mem {k : String} {a : List (String × J)} (h : k ∉ J.keys a) : J.lookup k a = none := by
  induction a with
  | nil => rfl
  | cons x xs ih =>
    obtain ⟨k', v'⟩ := x
    simp only [J.keys, List.map_cons, List.mem_cons, not_or] at h
    simp only [J.lookup]
    have : ¬ k = k' := h.1
    simp only [this, ↓reduceIte]
    exact ih (by simpa [J.keys] using h.2)

theorem addKey_new {acc : List (String × J)} {k : String} {v : J} (h : k ∉ J.keys acc) :
    addKey acc k v = acc ++ [(k, v)] := by
  simp [addKey, lookup_none_of_not_mem h]

theorem keys_append (a b : List (String × J)) : J.keys (a ++ b) = J.keys a ++ J.keys b := by
  simp [J.keys]

/-- response keys of a list of plain fields, in order -/
def respKeys (ss : List Sel) : List String := ss.map respKey

/-- **Accumulator lemma**: evaluating plain fields with distinct response keys that are new to
    the accumulator appends to it exactly what evaluating them from scratch yields. -/
theorem evalSels_acc (e : Env) (o : Obj) : ∀ (ss : List Sel) (acc : List (String × J)),
    plainFields ss = true → (respKeys ss).Nodup → (∀ k ∈ respKeys ss, k ∉ J.keys acc) →
    evalSels e o ss acc = (evalSels e o ss []).map (acc ++ ·)
  | [], acc, _, _, _ => by simp [evalSels]
  | s :: rest, acc, hp, hnd, hdisj => by
    cases s with
    | inline _ _ _ _ _ => simp [plainFields] at hp
    | spread _ _ _ _ _ _ => simp [plainFields] at hp
    | field alias name args dirs type argDefs sub =>
      simp only [plainFields, Bool.and_eq_true, List.isEmpty_iff] at hp
      obtain ⟨hdirs, hprest⟩ := hp
      subst hdirs
      simp only [respKeys, List.map_cons, List.nodup_cons] at hnd
      have hk : respKey (.field alias name args [] type argDefs sub) ∉ J.keys acc :=
        hdisj _ (by simp [respKeys])
      have hkey : (if alias == "" then name else alias) = respKey (.field alias name args [] type argDefs sub) := rfl
      rw [evalSels, evalSel, evalSels, evalSel]
      simp only [skipped, List.any_nil, Bool.false_eq_true, ↓reduceIte]
      cases hfv : fieldValue e o name args type (fun o' => evalSels e o' sub []) with
      | none => rfl
      | some v =>
        simp only [hkey]
        rw [addKey_new hk, addKey_new (by simp [J.keys])]
        have hnew : ∀ k ∈ respKeys rest, k ∉ J.keys [(respKey (.field alias name args [] type argDefs sub), v)] := by
          intro k hkm
          simp only [J.keys, List.map_cons, List.map_nil, List.mem_singleton]
          intro heq; subst heq
          exact hnd.1 (by simpa [respKeys] using hkm)
        rw [evalSels_acc e o rest _ hprest hnd.2 (by
          intro k hkm
          rw [keys_append]
          simp only [List.mem_append, not_or]
          exact ⟨hdisj k (by simp [respKeys] at hkm ⊢; exact Or.inr hkm), hnew k hkm⟩)]
        simp only [List.nil_append]
        rw [evalSels_acc e o rest [(respKey (.field alias name args [] type argDefs sub), v)] hprest hnd.2
          (by simpa using hnew)]
        cases evalSels e o rest [] with
        | none => rfl
        | some r => simp [List.append_assoc]

/-- the response object of plain fields has exactly their response keys, in order -/
theorem evalSels_keys (e : Env) (o : Obj) : ∀ (ss : List Sel) (r : List (String × J)),
    plainFields ss = true → (respKeys ss).Nodup → evalSels e o ss [] = some r → J.keys r = respKeys ss
  | [], r, _, _, h => by
    rw [evalSels] at h; simp only [Option.some.injEq] at h; subst h; rfl
  | s :: rest, r, hp, hnd, h => by
    cases s with
    | inline _ _ _ _ _ => simp [plainFields] at hp
    | spread _ _ _ _ _ _ => simp [plainFields] at hp
    | field alias name args dirs type argDefs sub =>
      simp only [plainFields, Bool.and_eq_true, List.isEmpty_iff] at hp
      obtain ⟨hdirs, hprest⟩ := hp
      subst hdirs
      simp only [respKeys, List.map_cons, List.nodup_cons] at hnd
      rw [evalSels, evalSel] at h
      simp only [skipped, List.any_nil, Bool.false_eq_true, ↓reduceIte] at h
      cases hfv : fieldValue e o name args type (fun o' => evalSels e o' sub []) with
      | none => simp [hfv] at h
      | some v =>
        simp only [hfv] at h
        have hkey : (if alias == "" then name else alias) = respKey (.field alias name args [] type argDefs sub) := rfl
        rw [hkey, addKey_new (by simp [J.keys])] at h
        rw [evalSels_acc e o rest _ hprest hnd.2 (by
          intro k hkm
          simp only [J.keys, List.nil_append, List.map_cons, List.map_nil, List.mem_singleton]
          intro heq; subst heq
          exact hnd.1 (by simpa [respKeys] using hkm))] at h
        cases hr : evalSels e o rest [] with
        | none => simp [hr] at h
        | some r' =>
          simp only [hr, Option.map_some, Option.some.injEq] at h
          subst h
          have := evalSels_keys e o rest r' hprest hnd.2 hr
          simp [J.keys, respKeys] at this ⊢
          exact this

theorem mergeInto_disjoint : ∀ (res target : List (String × J)),
    (J.keys res).Nodup → (∀ k ∈ J.keys res, k ∉ J.keys target) → mergeInto target res = target ++ res
  | [], target, _, _ => by simp [mergeInto]
  | (k, v) :: rest, target, hnd, hdisj => by
    simp only [J.keys, List.map_cons, List.nodup_cons] at hnd
    have hk : k ∉ J.keys target := hdisj k (by simp [J.keys])
    have hset : J.setKey k v target = target ++ [(k, v)] := by
      clear hdisj hnd
      induction target with
      | nil => rfl
      | cons x xs ih =>
        obtain ⟨k', v'⟩ := x
        simp only [J.keys, List.map_cons, List.mem_cons, not_or] at hk
        have : ¬ k = k' := hk.1
        simp only [J.setKey, this, ↓reduceIte, List.cons_append]
        rw [ih (by simpa [J.keys] using hk.2)]
    have hstep : mergeInto target ((k, v) :: rest) = mergeInto (target ++ [(k, v)]) rest := by
      simp only [mergeInto, List.foldl_cons]
      rw [lookup_none_of_not_mem hk]
      cases v <;> simp [hset]
    rw [hstep, mergeInto_disjoint rest (target ++ [(k, v)]) (by simpa [J.keys] using hnd.2) (by
      intro k2 hk2
      rw [keys_append]
      simp only [List.mem_append, not_or]
      refine ⟨hdisj k2 (by simp [J.keys] at hk2 ⊢; exact Or.inr hk2), ?_⟩
      simp only [J.keys, List.map_cons, List.map_nil, List.mem_singleton]
      intro heq; subst heq
      exact hnd.1 (by simpa [J.keys] using hk2))]
    simp [List.append_assoc]

/-- **One stitching hop**: for an object `o`, plain fields `own` (answered by the owner) and
    `foreign` (answered elsewhere) with pairwise distinct response keys: merging the answer for
    `foreign` into the answer for `own` with the executor's merge function is the answer for
    `own ++ foreign`. -/
theorem one_hop (e : Env) (o : Obj) (own foreign : List Sel) (a b : List (String × J))
    (hp1 : plainFields own = true) (hp2 : plainFields foreign = true)
    (hnd : (respKeys (own ++ foreign)).Nodup)
    (ha : evalSels e o own [] = some a) (hb : evalSels e o foreign [] = some b) :
    evalSels e o (own ++ foreign) [] = some (mergeInto a b) := by
  have hnd' : (respKeys own ++ respKeys foreign).Nodup := by simpa [respKeys] using hnd
  rw [List.nodup_append] at hnd'
  obtain ⟨hn1, hn2, hcross⟩ := hnd'
  have hka := evalSels_keys e o own a hp1 hn1 ha
  have hkb := evalSels_keys e o foreign b hp2 hn2 hb
  rw [evalSels_append, ha]
  simp only [Option.bind_some]
  rw [evalSels_acc e o foreign a hp2 hn2 (by
    intro k hk; rw [hka]; intro hk'; exact hcross k hk' k hk rfl), hb]
  simp only [Option.map_some]
  rw [mergeInto_disjoint b a (by rw [hkb]; exact hn2) (by
    intro k hk; rw [hkb] at hk; rw [hka]; intro hk'; exact hcross k hk' k hk rfl)]

end PebblesVerif.Spec
