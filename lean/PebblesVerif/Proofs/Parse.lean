import PebblesVerif.Model.Parse
import PebblesVerif.Model.Envelope
/-! Helper lemmas for C07 (and the no-panic half of C19): totality of the decode layer under the
guard facts, and the shape invariants `parse` establishes for the envelope. -/
namespace PebblesVerif.Parse
open PebblesVerif PebblesVerif.Upload
open PebblesVerif.Gen.Requests (Facts)

/-- the four guards the repaired `requests/request.go` has -/
def Guards (F : Facts) : Prop :=
  F.nilRequestGuard = true ∧ F.partsEmptyGuard = true ∧ F.requestIndexGuard = true ∧ F.negIndexGuard = true

instance (F : Facts) : Decidable (Guards F) := by unfold Guards; infer_instance

theorem splitChars_ne_nil (sep : Char) (cs : List Char) : splitChars sep cs ≠ [] := by
  induction cs with
  | nil => simp [splitChars]
  | cons c cs ih =>
    unfold splitChars
    split
    · simp
    · split <;> simp

theorem splitDot_ne_nil (s : String) : splitDot s ≠ [] := by
  unfold splitDot
  intro h
  exact splitChars_ne_nil '.' s.toList (List.map_eq_nil_iff.mp h)

theorem walk_no_panic (F : Facts) (hg : F.negIndexGuard = true) (u : Nat) :
    ∀ (parts : List String) (m : List (String × V)), (walk F u parts m).isPanic = false := by
  intro parts m
  fun_induction walk F u parts m <;> simp_all [Res.isPanic]

theorem reqAt_no_panic (F : Facts) (hg : F.requestIndexGuard = true) (reqs : List Req) (idx : Int) :
    (reqAt F reqs idx).isPanic = false := by
  unfold reqAt
  split
  · simp [hg, Res.isPanic]
  · split <;> simp [hg, Res.isPanic]

theorem injectAt_no_panic (F : Facts) (hg : Guards F) (u : Nat) (idx : Int)
    (parts : List String) (reqs : List Req) : (injectAt F u idx parts reqs).isPanic = false := by
  obtain ⟨_, hp, hr, hn⟩ := hg
  unfold injectAt
  cases parts with
  | nil => simp [hp, Res.isPanic]
  | cons p0 rest =>
    simp only
    split
    · rfl
    · split
      · rfl
      · have h1 := reqAt_no_panic F hr reqs idx
        split
        · rfl
        · rename_i heq; rw [heq] at h1; simp [Res.isPanic] at h1
        · split
          · rfl
          · rename_i m _
            have h2 := walk_no_panic F hn u rest m
            split
            · rfl
            · rfl
            · rename_i heq; rw [heq] at h2; simp [Res.isPanic] at h2

theorem injectParts_no_panic (F : Facts) (hg : Guards F) (batch : Bool) (u : Nat)
    (parts0 : List String) (h0 : parts0 ≠ []) (reqs : List Req) :
    (injectParts F batch u parts0 reqs).isPanic = false := by
  unfold injectParts
  split
  · cases parts0 with
    | nil => exact absurd rfl h0
    | cons p0 ps =>
      simp only
      split
      · rfl
      · exact injectAt_no_panic F hg u _ _ reqs
  · exact injectAt_no_panic F hg u _ _ reqs

theorem injectPath_no_panic (F : Facts) (hg : Guards F) (batch : Bool) (u : Nat) (path : String) (reqs : List Req) :
    (injectPath F batch u path reqs).isPanic = false :=
  injectParts_no_panic F hg batch u _ (splitDot_ne_nil path) reqs

theorem injectFile_no_panic (F : Facts) (hg : Guards F) (batch : Bool) (u : Nat) :
    ∀ (paths : List String) (reqs : List Req), (injectFile F batch u paths reqs).isPanic = false := by
  intro paths
  induction paths with
  | nil => intro reqs; rfl
  | cons path more ih =>
    intro reqs
    unfold injectFile
    have h := injectPath_no_panic F hg batch u path reqs
    split
    · exact ih _
    · rfl
    · rename_i heq; rw [heq] at h; simp [Res.isPanic] at h

theorem injectEntries_no_panic (F : Facts) (hg : Guards F) (batch : Bool) (files : List String) :
    ∀ (es : List (Nat × String × List String)) (reqs : List Req),
      (injectEntries F batch files es reqs).isPanic = false := by
  intro es
  induction es with
  | nil => intro reqs; rfl
  | cons e more ih =>
    intro reqs
    obtain ⟨u, key, paths⟩ := e
    unfold injectEntries
    split
    · rfl
    · have h := injectFile_no_panic F hg batch u paths reqs
      split
      · exact ih _
      · rfl
      · rename_i heq; rw [heq] at h; simp [Res.isPanic] at h

theorem checkQueries_no_panic (F : Facts) (hg : F.nilRequestGuard = true) :
    ∀ rs : List (Option Req), (checkQueries F rs).isPanic = false := by
  intro rs
  induction rs with
  | nil => rfl
  | cons r rest ih =>
    cases r with
    | none => simp [checkQueries, hg, Res.isPanic]
    | some r =>
      unfold checkQueries
      split
      · rfl
      · split
        · rfl
        · rfl
        · rename_i heq; rw [heq] at ih; simp [Res.isPanic] at ih

theorem parseRequest_no_panic (F : Facts) (hg : F.nilRequestGuard = true) (fits : String → Bool)
    (fb : Option Bool) (body : Option J) : (parseRequest F fits fb body).isPanic = false := by
  unfold parseRequest
  split
  · split
    · rfl
    · split
      · rfl
      · rename_i rs _
        have h := checkQueries_no_panic F hg rs
        split
        · rfl
        · rfl
        · rename_i heq; rw [heq] at h; simp [Res.isPanic] at h
  · split
    · rfl
    · split
      · rfl
      · split <;> rfl

/-- non-batch success carries exactly one request (`rs[0]` in `Emit` is safe) -/
theorem parseRequest_single (F : Facts) (fits : String → Bool) (fb : Option Bool) (body : Option J)
    (reqs : List Req) (h : parseRequest F fits fb body = .ok (reqs, false)) : reqs.length = 1 := by
  unfold parseRequest at h
  split at h
  · split at h
    · cases h
    · split at h
      · cases h
      · split at h <;> simp at h
  · split at h
    · cases h
    · split at h
      · cases h
      · split at h
        · cases h
        · simp at h; rw [← h]; rfl

theorem parseRequest_batch_flag (F : Facts) (fits : String → Bool) (fb : Option Bool) (body : Option J)
    (reqs : List Req) (b : Bool) (h : parseRequest F fits fb body = .ok (reqs, b)) : b = isBatch fb := by
  unfold parseRequest at h
  split at h
  · rename_i hb
    split at h
    · cases h
    · split at h
      · cases h
      · split at h <;> simp at h
        rw [h.2, hb]
  · rename_i hb
    split at h
    · cases h
    · split at h
      · cases h
      · split at h
        · cases h
        · simp at h; rw [h.2]; simpa using hb

/-! length preservation of injection (needed for `rs[0]`) -/

theorem injectAt_length (F : Facts) (u : Nat) (idx : Int) (parts : List String) (reqs reqs' : List Req)
    (h : injectAt F u idx parts reqs = .ok reqs') : reqs'.length = reqs.length := by
  unfold injectAt at h
  split at h
  · split at h <;> cases h
  · split at h
    · cases h
    · split at h
      · cases h
      · split at h
        · cases h
        · cases h
        · split at h
          · cases h
          · split at h
            · simp at h; rw [← h]; simp
            · cases h
            · cases h

theorem injectParts_length (F : Facts) (batch : Bool) (u : Nat) (parts0 : List String) (reqs reqs' : List Req)
    (h : injectParts F batch u parts0 reqs = .ok reqs') : reqs'.length = reqs.length := by
  unfold injectParts at h
  split at h
  · split at h
    · cases h
    · split at h
      · cases h
      · exact injectAt_length F u _ _ _ _ h
  · exact injectAt_length F u _ _ _ _ h

theorem injectFile_length (F : Facts) (batch : Bool) (u : Nat) :
    ∀ (paths : List String) (reqs reqs' : List Req),
      injectFile F batch u paths reqs = .ok reqs' → reqs'.length = reqs.length := by
  intro paths
  induction paths with
  | nil => intro reqs reqs' h; simp [injectFile] at h; rw [h]
  | cons path more ih =>
    intro reqs reqs' h
    unfold injectFile at h
    split at h
    · rename_i r1 heq
      rw [ih _ _ h]
      exact injectParts_length F batch u _ _ _ heq
    · cases h
    · cases h

theorem injectEntries_length (F : Facts) (batch : Bool) (files : List String) :
    ∀ (es : List (Nat × String × List String)) (reqs reqs' : List Req),
      injectEntries F batch files es reqs = .ok reqs' → reqs'.length = reqs.length := by
  intro es
  induction es with
  | nil => intro reqs reqs' h; simp [injectEntries] at h; rw [h]
  | cons e more ih =>
    intro reqs reqs' h
    obtain ⟨u, key, paths⟩ := e
    unfold injectEntries at h
    split at h
    · cases h
    · split at h
      · rename_i r1 heq
        rw [ih _ _ h]
        exact injectFile_length F batch u _ _ _ heq
      · cases h
      · cases h

end PebblesVerif.Parse
