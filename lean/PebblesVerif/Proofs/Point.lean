import PebblesVerif.Model.Point
/-! Lemmas about the insertion-point codec (lists of characters). -/
namespace PebblesVerif.Point

theorem splitOn_not_mem (c : Char) (l : List Char) (h : c ∉ l) : splitOn c l = [l] := by
  induction l with
  | nil => rfl
  | cons x xs ih =>
    have hx : ¬ x = c := fun e => h (by simp [e])
    have hxs : c ∉ xs := fun e => h (by simp [e])
    simp [splitOn, hx, ih hxs]

theorem splitOn_append_sep (c : Char) (a b : List Char) (ha : c ∉ a) :
    splitOn c (a ++ c :: b) = a :: splitOn c b := by
  induction a with
  | nil => simp [splitOn]
  | cons x xs ih =>
    have hx : ¬ x = c := fun e => ha (by simp [e])
    have hxs : c ∉ xs := fun e => ha (by simp [e])
    simp [splitOn, hx, ih hxs]

theorem digitChar_isDigit {d : Nat} (h : d < 10) : (digitChar d).isDigit = true := by
  have : d = 0 ∨ d = 1 ∨ d = 2 ∨ d = 3 ∨ d = 4 ∨ d = 5 ∨ d = 6 ∨ d = 7 ∨ d = 8 ∨ d = 9 := by omega
  rcases this with h | h | h | h | h | h | h | h | h | h <;> subst h <;> decide

theorem digitChar_val {d : Nat} (h : d < 10) : (digitChar d).toNat - '0'.toNat = d := by
  have : d = 0 ∨ d = 1 ∨ d = 2 ∨ d = 3 ∨ d = 4 ∨ d = 5 ∨ d = 6 ∨ d = 7 ∨ d = 8 ∨ d = 9 := by omega
  rcases this with h | h | h | h | h | h | h | h | h | h <;> subst h <;> decide

theorem showNat_all_digits (n : Nat) : ∀ ch ∈ showNat n, ch.isDigit = true := by
  induction n using Nat.strongRecOn with
  | _ n ih =>
    rw [showNat]
    split
    · rename_i h; intro ch hch; simp at hch; subst hch; exact digitChar_isDigit h
    · rename_i h
      intro ch hch
      simp only [List.mem_append, List.mem_singleton] at hch
      rcases hch with hch | hch
      · exact ih (n / 10) (by omega) ch hch
      · subst hch; exact digitChar_isDigit (Nat.mod_lt _ (by omega))

theorem showNat_ne_nil (n : Nat) : showNat n ≠ [] := by
  rw [showNat]; split <;> simp

theorem digitsToNat_append (l : List Char) (ch : Char) :
    digitsToNat (l ++ [ch]) = digitsToNat l * 10 + (ch.toNat - '0'.toNat) := by
  simp [digitsToNat, List.foldl_append]

theorem digitsToNat_showNat (n : Nat) : digitsToNat (showNat n) = n := by
  induction n using Nat.strongRecOn with
  | _ n ih =>
    rw [showNat]
    split
    · rename_i h
      have hv := digitChar_val h
      simp only [digitsToNat, List.foldl_cons, List.foldl_nil, Nat.zero_mul, Nat.zero_add]
      exact hv
    · rename_i h
      rw [digitsToNat_append, ih (n / 10) (by omega), digitChar_val (Nat.mod_lt _ (by omega))]
      omega

theorem allDigits_showNat (n : Nat) : allDigits (showNat n) = true := by
  simp only [allDigits, Bool.and_eq_true, Bool.not_eq_true', List.all_eq_true]
  refine ⟨?_, showNat_all_digits n⟩
  cases h : showNat n with
  | nil => exact absurd h (showNat_ne_nil n)
  | cons _ _ => rfl

theorem isDigit_ne {ch c : Char} (h : ch.isDigit = true) (hc : c.isDigit = false) : ch ≠ c := by
  intro e; subst e; rw [h] at hc; cases hc

theorem not_mem_showNat (n : Nat) (c : Char) (hc : c.isDigit = false) : c ∉ showNat n := by
  intro hmem
  exact isDigit_ne (showNat_all_digits n c hmem) hc rfl

theorem splitFirst_append_sep (c : Char) (a b : List Char) (ha : c ∉ a) :
    splitFirst c (a ++ c :: b) = (a, b) := by
  induction a with
  | nil => simp [splitFirst]
  | cons x xs ih =>
    have hx : x ≠ c := fun h => ha (by simp [h])
    have hxs : c ∉ xs := fun h => ha (by simp [h])
    simp only [List.cons_append, splitFirst, hx, ↓reduceIte, ih hxs]

/-- the regenerated fact the round-trip theorems stand on: executor/point_data.go cuts the id off
    at the FIRST `#` (`strings.SplitN(point, "#", 2)`) -/
theorem idSplitFirst_current : Gen.Point.idSplitFirst = true := by decide

end PebblesVerif.Point
