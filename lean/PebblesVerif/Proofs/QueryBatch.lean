import PebblesVerif.Model.QueryBatch
import PebblesVerif.Proofs.Errors
/-! Helper lemmas about `Model/QueryBatch.lean`. -/
set_option linter.unusedSimpArgs false
namespace PebblesVerif.QB
open PebblesVerif PebblesVerif.Errors
open PebblesVerif.Gen.QueryBatchFacts (Facts)

/-- a response the loop of `queryBatch` reports (given the guards present) -/
def Bad (f : Facts) (r : Resp) : Prop :=
  (f.errorsAbort = true ∧ r.errors.length ≠ 0) ∨ (f.dataCheck = true ∧ r.data.isNone = true)

/-- an outcome that is an `error` value whose formatted list is non-empty -/
def IsErr (r : G α) : Prop := ∃ cls e, r = .error (.err cls e) ∧ formatError e ≠ []

theorem formatError_other_ne (m : String) : formatError (.other m) ≠ [] := by simp [formatError]

theorem formatError_asErr_ne {l : List (Option Err)} (h : l.length ≠ 0) : formatError (asErr l) ≠ [] := by
  rw [formatError_asErr]; intro h'; simp [h'] at h

theorem loop_reports (f : Facts) (url : String) (n : Nat) :
    ∀ (rs : List Resp) (i : Nat) (errs : List (Option Err)) (res : List (Option Obj)),
      i + rs.length ≤ n → (errs ≠ [] ∨ ∃ r ∈ rs, Bad f r) → IsErr (loop f url n i rs errs res) := by
  intro rs
  induction rs with
  | nil =>
    intro i errs res _ h
    rcases h with h | ⟨r, hr, _⟩
    · have hl : errs.length ≠ 0 := by intro h'; exact h (List.length_eq_zero_iff.mp h')
      exact ⟨"errors", asErr errs, by simp [loop, hl], formatError_asErr_ne hl⟩
    · cases hr
  | cons r rs ih =>
    intro i errs res hi h
    simp only [List.length_cons] at hi
    unfold loop
    by_cases h1 : f.errorsAbort = true ∧ r.errors.length ≠ 0
    · rw [if_pos h1]
      by_cases hc : f.collectAllErrors = true
      · rw [if_pos hc]
        apply ih _ _ _ (by omega)
        left; intro h'
        have : r.errors = [] := (List.append_eq_nil_iff.mp h').2
        simp [this] at h1
      · rw [if_neg hc]
        exact ⟨"errors", asErr r.errors, rfl, formatError_asErr_ne h1.2⟩
    · rw [if_neg h1]
      by_cases h2 : f.dataCheck = true ∧ r.data.isNone = true
      · rw [if_pos h2]
        by_cases hc : f.collectAllErrors = true
        · rw [if_pos hc]
          apply ih _ _ _ (by omega)
          left; simp
        · rw [if_neg hc]
          exact ⟨"nodata", .other _, rfl, formatError_other_ne _⟩
      · rw [if_neg h2, if_pos (by omega : i < n)]
        apply ih _ _ _ (by omega)
        rcases h with h | ⟨r', hr', hb⟩
        · exact Or.inl h
        · rcases List.mem_cons.mp hr' with rfl | hr'
          · rcases hb with hb | hb
            · exact absurd hb h1
            · exact absurd hb h2
          · exact Or.inr ⟨r', hr', hb⟩

theorem loop_no_panic (f : Facts) (url : String) (n : Nat) :
    ∀ (rs : List Resp) (i : Nat) (errs : List (Option Err)) (res : List (Option Obj)),
      i + rs.length ≤ n → ∀ w, loop f url n i rs errs res ≠ .error (.panic w) := by
  intro rs
  induction rs with
  | nil => intro i errs res _ w; unfold loop; split <;> simp
  | cons r rs ih =>
    intro i errs res hi w
    simp only [List.length_cons] at hi
    unfold loop
    split
    · split
      · exact ih _ _ _ (by omega) w
      · simp
    · split
      · split
        · exact ih _ _ _ (by omega) w
        · simp
      · rw [if_pos (by omega : i < n)]
        exact ih _ _ _ (by omega) w

theorem loop_ok_length (f : Facts) (url : String) (n : Nat) :
    ∀ (rs : List Resp) (i : Nat) (errs : List (Option Err)) (res out : List (Option Obj)),
      loop f url n i rs errs res = .ok out → out.length = res.length := by
  intro rs
  induction rs with
  | nil =>
    intro i errs res out h
    unfold loop at h
    split at h
    · cases h
    · cases h; rfl
  | cons r rs ih =>
    intro i errs res out h
    unfold loop at h
    split at h
    · split at h
      · exact ih _ _ _ _ h
      · cases h
    · split at h
      · split at h
        · exact ih _ _ _ _ h
        · cases h
      · split at h
        · rw [ih _ _ _ _ h, List.length_set]
        · cases h

/-- in collecting mode every error of every response (and everything collected so far) is returned -/
theorem loop_collects (f : Facts) (url : String) (n : Nat) (hc : f.collectAllErrors = true)
    (ha : f.errorsAbort = true) :
    ∀ (rs : List Resp) (i : Nat) (errs : List (Option Err)) (res : List (Option Obj)) (cls : String) (e : GoErr),
      loop f url n i rs errs res = .error (.err cls e) →
      ∀ x, (x ∈ errs ∨ ∃ r ∈ rs, x ∈ r.errors) → x ∈ formatError e := by
  intro rs
  induction rs with
  | nil =>
    intro i errs res cls e h x hx
    unfold loop at h
    split at h
    · cases h
      rw [formatError_asErr]
      rcases hx with hx | ⟨r, hr, _⟩
      · exact hx
      · cases hr
    · cases h
  | cons r rs ih =>
    intro i errs res cls e h x hx
    unfold loop at h
    split at h
    · try rw [if_pos hc] at h
      apply ih _ _ _ _ _ h
      rcases hx with hx | ⟨r', hr', hx⟩
      · exact Or.inl (List.mem_append_left _ hx)
      · rcases List.mem_cons.mp hr' with rfl | hr'
        · exact Or.inl (List.mem_append_right _ hx)
        · exact Or.inr ⟨r', hr', hx⟩
    · rename_i h1
      have hre : r.errors = [] := by
        cases hl : r.errors with
        | nil => rfl
        | cons _ _ => exact absurd ⟨ha, by simp [hl]⟩ h1
      have hx' : x ∈ errs ∨ ∃ r' ∈ rs, x ∈ r'.errors := by
        rcases hx with hx | ⟨r', hr', hx⟩
        · exact Or.inl hx
        · rcases List.mem_cons.mp hr' with rfl | hr'
          · simp [hre] at hx
          · exact Or.inr ⟨r', hr', hx⟩
      split at h
      · try rw [if_pos hc] at h
        apply ih _ _ _ _ _ h
        rcases hx' with hx' | hx'
        · exact Or.inl (List.mem_append_left _ hx')
        · exact Or.inr hx'
      · split at h
        · exact ih _ _ _ _ _ h x hx'
        · cases h

/-- nothing but downstream errors and the gateway's own "no data" errors is ever returned by the loop -/
theorem loop_only (f : Facts) (url : String) (n : Nat) :
    ∀ (rs : List Resp) (i : Nat) (errs : List (Option Err)) (res : List (Option Obj)) (cls : String) (e : GoErr),
      loop f url n i rs errs res = .error (.err cls e) →
      ∀ x ∈ formatError e, x ∈ errs ∨ (∃ r ∈ rs, x ∈ r.errors) ∨ x = some (newError undefinedCode (noDataMsg url)) := by
  intro rs
  induction rs with
  | nil =>
    intro i errs res cls e h x hx
    unfold loop at h
    split at h
    · cases h; rw [formatError_asErr] at hx; exact Or.inl hx
    · cases h
  | cons r rs ih =>
    intro i errs res cls e h x hx
    have lift : (x ∈ errs ++ r.errors ∨ (∃ r' ∈ rs, x ∈ r'.errors) ∨ x = some (newError undefinedCode (noDataMsg url))) →
        x ∈ errs ∨ (∃ r' ∈ r :: rs, x ∈ r'.errors) ∨ x = some (newError undefinedCode (noDataMsg url)) := by
      rintro (h | ⟨r', hr', h⟩ | h)
      · rcases List.mem_append.mp h with h | h
        · exact Or.inl h
        · exact Or.inr (Or.inl ⟨r, List.mem_cons_self, h⟩)
      · exact Or.inr (Or.inl ⟨r', List.mem_cons_of_mem _ hr', h⟩)
      · exact Or.inr (Or.inr h)
    have lift2 : (x ∈ errs ∨ (∃ r' ∈ rs, x ∈ r'.errors) ∨ x = some (newError undefinedCode (noDataMsg url))) →
        x ∈ errs ∨ (∃ r' ∈ r :: rs, x ∈ r'.errors) ∨ x = some (newError undefinedCode (noDataMsg url)) := by
      rintro (h | ⟨r', hr', h⟩ | h)
      · exact Or.inl h
      · exact Or.inr (Or.inl ⟨r', List.mem_cons_of_mem _ hr', h⟩)
      · exact Or.inr (Or.inr h)
    unfold loop at h
    split at h
    · split at h
      · exact lift (ih _ _ _ _ _ h x hx)
      · cases h
        rw [formatError_asErr] at hx
        exact Or.inr (Or.inl ⟨r, List.mem_cons_self, hx⟩)
    · split at h
      · split at h
        · have := ih _ _ _ _ _ h x hx
          rcases this with h' | h' | h'
          · rcases List.mem_append.mp h' with h' | h'
            · exact Or.inl h'
            · simp at h'; exact Or.inr (Or.inr h')
          · exact lift2 (Or.inr (Or.inl h'))
          · exact Or.inr (Or.inr h')
        · cases h
          simp [formatError] at hx
          exact Or.inr (Or.inr hx)
      · split at h
        · exact lift2 (ih _ _ _ _ _ h x hx)
        · cases h

theorem mapM_length {α β : Type} (g : α → Except String β) :
    ∀ (xs : List α) (ys : List β), xs.mapM g = .ok ys → ys.length = xs.length := by
  intro xs
  induction xs with
  | nil => intro ys h; simp [List.mapM_nil, pure, Except.pure] at h; simp [← h]
  | cons x xs ih =>
    intro ys h
    simp only [List.mapM_cons, bind, Except.bind] at h
    split at h
    · cases h
    · rename_i y hy
      split at h
      · cases h
      · rename_i ys' hys
        simp only [pure, Except.pure] at h
        cases h
        simp [ih _ hys]

theorem mapM_mem {α β : Type} (g : α → Except String β) :
    ∀ (xs : List α) (ys : List β), xs.mapM g = .ok ys → ∀ x ∈ xs, ∃ y ∈ ys, g x = .ok y := by
  intro xs
  induction xs with
  | nil => intro ys _ x hx; cases hx
  | cons a xs ih =>
    intro ys h x hx
    simp only [List.mapM_cons, bind, Except.bind] at h
    split at h
    · cases h
    · rename_i y hy
      split at h
      · cases h
      · rename_i ys' hys
        simp only [pure, Except.pure] at h
        cases h
        rcases List.mem_cons.mp hx with rfl | hx
        · exact ⟨y, List.mem_cons_self, hy⟩
        · obtain ⟨y', hy', hg⟩ := ih _ hys x hx
          exact ⟨y', List.mem_cons_of_mem _ hy', hg⟩

theorem mapM_getElem? {α β : Type} (g : α → Except String β) :
    ∀ (xs : List α) (ys : List β), xs.mapM g = .ok ys → ∀ (i : Nat) (x : α), xs[i]? = some x → ∃ y, ys[i]? = some y ∧ g x = .ok y := by
  intro xs
  induction xs with
  | nil => intro ys _ i x hx; simp at hx
  | cons a xs ih =>
    intro ys h i x hx
    simp only [List.mapM_cons, bind, Except.bind] at h
    split at h
    · cases h
    · rename_i y hy
      split at h
      · cases h
      · rename_i ys' hys
        simp only [pure, Except.pure] at h
        cases h
        cases i with
        | zero => simp at hx; subst hx; exact ⟨y, by simp, hy⟩
        | succ i => simp at hx; simpa using ih _ hys i x hx

end PebblesVerif.QB
