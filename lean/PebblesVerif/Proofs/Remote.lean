import PebblesVerif.Proofs.RemoteTypeRef
import PebblesVerif.Proofs.IntrospectSort
/-!
Helper lemmas for C15 (2): the reconstruction on the decoded standard answer of a supported schema.
-/
namespace PebblesVerif
open PebblesVerif.Model.Remote PebblesVerif.Spec

/-! ### the decoded standard answer (`Introspection*` structs) of a schema -/

def kindOfS (S : Schema) (n : String) : String :=
  match S.type? n with
  | some td => td.kind.toString
  | none => ""

/-- a reference to a named type, decoded -/
def refTR (S : Schema) (n : String) : TRef := .mk (kindOfS S n) n .nil

/-- a type reference as the standard query shows it: cut after `typeRefLevels` levels -/
def trA (S : Schema) (t : TypeRef) : TRef := truncTR typeRefLevels (encTR (kindOfS S) t)

def inValA (S : Schema) (name desc : String) (t : TypeRef) (dflt : Option String) : InVal :=
  { name := name, desc := desc, dflt := Spec.optStr dflt, type := trA S t }

def argA (S : Schema) (a : ArgDef) : InVal := inValA S a.name a.desc a.type a.default

def fieldA (S : Schema) (f : FieldDef) : FieldA :=
  { name := f.name, desc := f.desc, args := f.args.map (argA S), type := trA S f.type }

def enumA (e : EnumVal) : EnumA := { name := e.name, desc := e.desc }

def onK {α : Type} (k : Kind) (ks : List Kind) (l : List α) : List α := if ks.contains k then l else []

def typeA (S : Schema) (td : TypeDef) : TypeA :=
  { kind := td.kind.toString, name := td.name, desc := td.desc,
    inputFields := onK td.kind [.inputObject] (td.fields.map (fun f => inValA S f.name f.desc f.type f.default)),
    interfaces := onK td.kind [.object, .interface] (td.interfaces.map (refTR S)),
    possibleTypes := onK td.kind [.interface, .union] ((possibleObjects S td).map (refTR S)),
    fields := onK td.kind [.object, .interface] ((td.fields.filter (fun f => !isBuiltinNameI f.name)).map (fieldA S)),
    enumValues := onK td.kind [.enum] (td.enumValues.map enumA) }

def dirA (S : Schema) (d : DirDef) : DirA :=
  { name := d.name, desc := d.desc, locations := d.locations, args := d.args.map (argA S) }

def answerA (S : Schema) : SchemaA :=
  { queryType := S.query.getD "", mutationType := S.mutation, subscriptionType := S.subscription,
    types := S.types.map (typeA S), directives := S.directives.map (dirA S) }

/-! ### what the reconstruction keeps of a definition -/

def stripArg (a : ArgDef) : ArgDef := { name := a.name, type := a.type, default := none, desc := a.desc }
def stripField (f : FieldDef) : FieldDef := { name := f.name, args := f.args.map stripArg, type := f.type, default := none, desc := f.desc }
def stripIn (f : FieldDef) : FieldDef := { name := f.name, args := [], type := f.type, default := none, desc := f.desc }

/-- after `parseType` (first pass): no interfaces, no union members yet -/
def td0 (td : TypeDef) : TypeDef :=
  { name := td.name, kind := td.kind, desc := td.desc,
    fields := onK td.kind [.object, .interface] ((td.fields.filter (fun f => !isBuiltinNameI f.name)).map stripField)
              ++ onK td.kind [.inputObject] (td.fields.map stripIn),
    enumValues := if td.kind == .enum then td.enumValues.map (fun e => { name := e.name, desc := e.desc }) else [] }

/-- after the second pass -/
def fin (td : TypeDef) : TypeDef := { td0 td with interfaces := td.interfaces, members := td.members }

/-! ### `Except` and `List.mapM` -/

@[simp] theorem ok_bind {α β : Type} (x : α) (f : α → Except Err β) : (Except.ok x >>= f) = f x := rfl

theorem mapM_map_ok {α β γ : Type} (f : β → Except Err γ) (g : α → β) (h : α → γ) :
    (xs : List α) → (∀ x ∈ xs, f (g x) = .ok (h x)) → (xs.map g).mapM f = .ok (xs.map h)
  | [], _ => rfl
  | x :: xs, hx => by
    simp only [List.map_cons, List.mapM_cons, hx x (List.mem_cons_self),
      mapM_map_ok f g h xs (fun y hy => hx y (List.mem_cons_of_mem _ hy))]
    rfl

/-! ### type references, arguments, input fields -/

theorem kindsOK (S : Schema) : KindsOK (kindOfS S) := by
  intro n
  unfold kindOfS
  cases S.type? n with
  | none => exact ⟨by decide, by decide⟩
  | some td =>
    show td.kind.toString ≠ "LIST" ∧ td.kind.toString ≠ "NON_NULL"
    cases td.kind <;> exact ⟨by decide, by decide⟩

theorem parse_trA {S : Schema} {t : TypeRef} (h : typeRefOK S t = true) : parseTypeRef (trA S t) = .ok t := by
  simp only [typeRefOK, Bool.and_eq_true, decide_eq_true_eq] at h
  exact parseTypeRef_trunc_ok _ (kindsOK S) t h.1.1 _ h.1.2

theorem parseArg_argA {S : Schema} {a : ArgDef} (h : argOK S a = true) : parseArg (argA S a) = .ok (stripArg a) := by
  simp only [argOK, Bool.and_eq_true] at h
  simp only [parseArg, argA, inValA, parse_trA h.1.1]
  rfl

theorem parseInputField_inValA {S : Schema} {f : FieldDef} (ht : typeRefOK S f.type = true) (hd : f.default = none) :
    parseInputField (inValA S f.name f.desc f.type f.default) = .ok (stripIn f) := by
  simp only [parseInputField, inValA, parse_trA ht, hd, Spec.optStr]
  rfl

/-! ### `parseType` -/

theorem kindOf?_toString (k : Kind) : kindOf? k.toString = some k := by cases k <;> rfl

theorem mapM_onK {α β γ : Type} (f : β → Except Err γ) (g : α → β) (h : α → γ) (k : Kind) (ks : List Kind) (xs : List α)
    (hx : ∀ x ∈ xs, f (g x) = .ok (h x)) : (onK k ks (xs.map g)).mapM f = .ok (onK k ks (xs.map h)) := by
  unfold onK
  split
  · exact mapM_map_ok f g h xs hx
  · rfl

structure UserOK (S : Schema) (td : TypeDef) : Prop where
  notSkipped : Gen.Remote.skipTypeNames.contains td.name = false
  nameNE : td.name ≠ ""
  shape : shaped td = true
  noDirs : noDeprecation td.directives = true
  fields : ∀ f ∈ td.fields, typeRefOK S f.type = true ∧ f.default = none ∧ noDeprecation f.directives = true ∧ ∀ a ∈ f.args, argOK S a = true
  enums : ∀ e ∈ td.enumValues, noDeprecation e.directives = true
  ifaces : ∀ i ∈ td.interfaces, isUserKind S .interface i = true
  members : td.kind = .union → td.members = possibleObjects S td
  possible : (td.kind = .union ∨ td.kind = .interface) → ∀ p ∈ possibleObjects S td, isUserType S p = true

theorem userOK_of {S : Schema} {td : TypeDef} (hs : Gen.Remote.skipTypeNames.contains td.name = false)
    (h : userTypeOK S td = true) : UserOK S td := by
  simp only [userTypeOK, Bool.and_eq_true, List.all_eq_true, bne_iff_ne, ne_eq, Bool.or_eq_true, beq_iff_eq,
    Option.isNone_iff_eq_none] at h
  obtain ⟨⟨⟨⟨⟨⟨⟨h1, h2⟩, h2'⟩, h3⟩, h4⟩, h5⟩, h6⟩, h7⟩ := h
  refine ⟨hs, h1, h2, h2', ?_, h4, h5, ?_, ?_⟩
  · intro f hf
    have := h3 f hf
    exact ⟨this.1.1.1, this.1.1.2, this.1.2, this.2⟩
  · intro hk
    rcases h6 with h6 | h6
    · exact absurd hk (by simpa using h6)
    · exact h6
  · intro hk p hp
    rcases h7 with h7 | h7
    · rcases hk with hk | hk <;> simp [hk] at h7
    · exact h7 p hp

theorem parseField_fieldA {S : Schema} {f : FieldDef} (ht : typeRefOK S f.type = true) (ha : ∀ a ∈ f.args, argOK S a = true) :
    (do pure ({ name := (fieldA S f).name, type := ← parseTypeRef (fieldA S f).type, desc := (fieldA S f).desc,
                args := ← (fieldA S f).args.mapM parseArg } : FieldDef) : Except Err FieldDef) = .ok (stripField f) := by
  simp only [fieldA, parse_trA ht, mapM_map_ok parseArg (argA S) stripArg f.args (fun a h => parseArg_argA (ha a h))]
  rfl

theorem parseType_user {S : Schema} {td : TypeDef} (h : UserOK S td) :
    parseType (typeA S td) = .ok (some (td0 td, false)) := by
  unfold parseType
  have hn : builtinTypeNames.contains (typeA S td).name = false := h.notSkipped
  simp only [hn, Bool.false_eq_true, if_false]
  have hf : (typeA S td).fields.mapM (fun f => (do
      pure ({ name := f.name, type := ← parseTypeRef f.type, desc := f.desc, args := ← f.args.mapM parseArg } : FieldDef) : Except Err FieldDef))
      = .ok (onK td.kind [.object, .interface] ((td.fields.filter (fun f => !isBuiltinNameI f.name)).map stripField)) := by
    apply mapM_onK
    intro f hf
    have hm := (h.fields f (List.mem_filter.mp hf).1)
    exact parseField_fieldA hm.1 hm.2.2.2
  have hi : (typeA S td).inputFields.mapM parseInputField = .ok (onK td.kind [.inputObject] (td.fields.map stripIn)) := by
    apply mapM_onK
    intro f hf
    exact parseInputField_inValA (h.fields f hf).1 (h.fields f hf).2.1
  rw [hf, hi]
  simp only [typeA, kindOf?_toString, td0, onK]
  cases td.kind <;> simp [enumA, List.map_map, Function.comp, bind, Except.bind, pure, Except.pure]

theorem parseType_skipped {S : Schema} {td : TypeDef} (h : Gen.Remote.skipTypeNames.contains td.name = true) :
    parseType (typeA S td) = .ok none := by
  unfold parseType
  have hn : builtinTypeNames.contains (typeA S td).name = true := h
  simp only [hn, if_true]
  rfl

/-! ### first pass -/

def tmKeys (tm : TypeMap) : List String := tm.map (·.1)

theorem tmSet_fresh (n : String) (d : TypeDef) : (tm : TypeMap) → n ∉ tmKeys tm → tmSet n d tm = tm ++ [(n, d)]
  | [], _ => rfl
  | (k, v) :: rest, h => by
    simp only [tmKeys, List.map_cons, List.mem_cons, not_or] at h
    have hk : (k == n) = false := by simp; exact fun e => h.1 e.symm
    simp only [tmSet, hk, Bool.false_eq_true, if_false, List.cons_append]
    rw [tmSet_fresh n d rest h.2]

def isSkipped (td : TypeDef) : Bool := Gen.Remote.skipTypeNames.contains td.name

def users (l : List TypeDef) : List TypeDef := l.filter (fun td => !isSkipped td)

def stepRoots (a : SchemaA) (r : Roots) (name : String) : Roots :=
  if name = a.queryType then { r with query := some name }
  else if a.mutationType = some name then { r with mutation := some name }
  else if a.subscriptionType = some name then { r with subscription := some name }
  else r

theorem pass1_answer (S : Schema) (a : SchemaA) :
    (l : List TypeDef) → (tm : TypeMap) → (r : Roots) →
    (∀ td ∈ l, isSkipped td = false → UserOK S td) →
    ((tmKeys tm ++ (users l).map (·.name)).Nodup) →
    pass1 a (l.map (typeA S)) tm r
      = .ok (tm ++ (users l).map (fun td => (td.name, td0 td)), ((users l).map (·.name)).foldl (stepRoots a) r)
  | [], tm, r, _, _ => by simp [pass1, users]; rfl
  | td :: rest, tm, r, hok, hnd => by
    cases hsk : isSkipped td with
    | true =>
      have hu : users (td :: rest) = users rest := by simp [users, hsk]
      rw [hu] at hnd ⊢
      simp only [List.map_cons, pass1, parseType_skipped (S := S) hsk]
      exact pass1_answer S a rest tm r (fun x hx => hok x (List.mem_cons_of_mem _ hx)) hnd
    | false =>
      have hu : users (td :: rest) = td :: users rest := by simp [users, hsk]
      rw [hu] at hnd ⊢
      have huser := hok td (List.mem_cons_self) hsk
      simp only [List.map_cons, pass1, parseType_user huser]
      have hfresh : td.name ∉ tmKeys tm := by
        intro hm
        have := List.nodup_append.mp hnd
        exact this.2.2 td.name hm td.name (by simp) rfl
      have hname : (td0 td).name = td.name := rfl
      simp only [ok_bind, hname, tmSet_fresh td.name (td0 td) tm hfresh]
      have hnd' : (tmKeys (tm ++ [(td.name, td0 td)]) ++ (users rest).map (·.name)).Nodup := by
        simpa [tmKeys, List.append_assoc] using hnd
      have ih := pass1_answer S a rest (tm ++ [(td.name, td0 td)]) (stepRoots a r td.name)
        (fun x hx => hok x (List.mem_cons_of_mem _ hx)) hnd'
      simp only [Bool.false_eq_true, if_false]
      have hr : (if (typeA S td).name = a.queryType then
              ({ query := some td.name, mutation := r.mutation, subscription := r.subscription, badKind := r.badKind } : Roots)
            else if a.mutationType = some td.name then
              { query := r.query, mutation := some td.name, subscription := r.subscription, badKind := r.badKind }
            else if a.subscriptionType = some td.name then
              { query := r.query, mutation := r.mutation, subscription := some td.name, badKind := r.badKind }
            else { query := r.query, mutation := r.mutation, subscription := r.subscription, badKind := r.badKind })
          = stepRoots a r td.name := by
        cases r; rfl
      rw [hr, ih]
      simp [List.append_assoc]

/-! ### second pass: the type map as a function over the user definitions -/

def tmOf (U : List TypeDef) (g : TypeDef → TypeDef) : TypeMap := U.map (fun td => (td.name, g td))

def upd (g : TypeDef → TypeDef) (n : String) (d : TypeDef) : TypeDef → TypeDef := fun x => if x.name = n then d else g x

theorem tmGet_tmOf_none (g : TypeDef → TypeDef) (n : String) : (U : List TypeDef) → n ∉ U.map (·.name) → tmGet (tmOf U g) n = none
  | [], _ => rfl
  | x :: xs, h => by
    simp only [List.map_cons, List.mem_cons, not_or] at h
    have hx : (x.name == n) = false := by simp; exact fun e => h.1 e.symm
    have ih := tmGet_tmOf_none g n xs h.2
    simp only [tmGet, tmOf, List.map_cons, List.find?_cons, hx] at ih ⊢
    exact ih

theorem tmGet_tmOf (g : TypeDef → TypeDef) : (U : List TypeDef) → (U.map (·.name)).Nodup → ∀ td ∈ U, tmGet (tmOf U g) td.name = some (g td)
  | [], _, _, h => by cases h
  | x :: xs, hn, td, h => by
    simp only [List.map_cons, List.nodup_cons] at hn
    rcases List.mem_cons.mp h with rfl | h'
    · simp [tmGet, tmOf]
    · have hx : (x.name == td.name) = false := by
        simp; intro e; exact hn.1 (e ▸ List.mem_map.mpr ⟨td, h', rfl⟩)
      have ih := tmGet_tmOf g xs hn.2 td h'
      simp only [tmGet, tmOf, List.map_cons, List.find?_cons, hx] at ih ⊢
      exact ih

theorem tmSet_tmOf (g : TypeDef → TypeDef) (d : TypeDef) : (U : List TypeDef) → (U.map (·.name)).Nodup → ∀ td ∈ U,
    tmSet td.name d (tmOf U g) = tmOf U (upd g td.name d)
  | [], _, _, h => by cases h
  | x :: xs, hn, td, h => by
    simp only [List.map_cons, List.nodup_cons] at hn
    rcases List.mem_cons.mp h with rfl | h'
    · simp only [tmOf, List.map_cons, tmSet, beq_self_eq_true, if_true, upd]
      congr 1
      apply List.map_congr_left
      intro y hy
      have : y.name ≠ td.name := fun e => hn.1 (e ▸ List.mem_map.mpr ⟨y, hy, rfl⟩)
      simp [this]
    · have hne : x.name ≠ td.name := fun e => hn.1 (e ▸ List.mem_map.mpr ⟨td, h', rfl⟩)
      have hx : (x.name == td.name) = false := by simp [hne]
      have ih := tmSet_tmOf g d xs hn.2 td h'
      simp only [tmOf, List.map_cons, tmSet, hx, Bool.false_eq_true, if_false, upd, hne] at ih ⊢
      rw [ih]

theorem upd_upd (g : TypeDef → TypeDef) (n : String) (d d' : TypeDef) : upd (upd g n d) n d' = upd g n d' := by
  funext x; simp only [upd]; split <;> rfl

theorem pmGet_cons (k : String) (v : List String) (rest : PossMap) (n' : String) :
    pmGet ((k, v) :: rest) n' = if k = n' then v else pmGet rest n' := by
  by_cases h : k = n'
  · subst h; simp [pmGet]
  · have : (k == n') = false := by simp [h]
    simp [pmGet, this, h]

theorem pmGet_nil (n' : String) : pmGet [] n' = [] := rfl

theorem pmGet_pmAdd (n d n' : String) : (pm : PossMap) →
    pmGet (pmAdd n d pm) n' = if n' = n then pmGet pm n ++ [d] else pmGet pm n'
  | [] => by
    simp only [pmAdd, pmGet_cons, pmGet_nil, List.nil_append]
    by_cases h : n = n'
    · subst h; simp
    · have : ¬ n' = n := fun e => h e.symm
      simp [h, this]
  | (k, v) :: rest => by
    have ih := pmGet_pmAdd n d n' rest
    by_cases hk : k = n
    · subst hk
      simp only [pmAdd, beq_self_eq_true, if_true, pmGet_cons]
      by_cases h : k = n'
      · subst h; simp
      · have : ¬ n' = k := fun e => h e.symm
        simp [h, this]
    · have hkn : (k == n) = false := by simp [hk]
      simp only [pmAdd, hkn, Bool.false_eq_true, if_false, pmGet_cons, ih, hk]
      by_cases hk' : k = n'
      · subst hk'; simp [hk]
      · simp [hk']

theorem pmGet_foldl_poss (owner n' : String) : (names : List String) → (pm : PossMap) →
    pmGet (names.foldl (fun pm p => pmAdd owner p pm) pm) n' = if n' = owner then pmGet pm owner ++ names else pmGet pm n'
  | [], pm => by by_cases h : n' = owner <;> simp [h]
  | p :: rest, pm => by
    simp only [List.foldl_cons, pmGet_foldl_poss owner n' rest, pmGet_pmAdd]
    by_cases h : n' = owner <;> simp [h]

theorem pmGet_foldl_iface (owner n' : String) : (names : List String) → (pm : PossMap) → n' ∉ names →
    pmGet (names.foldl (fun pm i => pmAdd i owner pm) pm) n' = pmGet pm n'
  | [], _, _ => rfl
  | i :: rest, pm, h => by
    simp only [List.mem_cons, not_or] at h
    simp only [List.foldl_cons, pmGet_foldl_iface owner n' rest _ h.2, pmGet_pmAdd, h.1, if_false]

theorem eq_of_name_eq {U : List TypeDef} (hU : (U.map (·.name)).Nodup) {x y : TypeDef} (hx : x ∈ U) (hy : y ∈ U)
    (h : x.name = y.name) : x = y := by
  induction U with
  | nil => cases hx
  | cons z zs ih =>
    simp only [List.map_cons, List.nodup_cons] at hU
    rcases List.mem_cons.mp hx with rfl | hx' <;> rcases List.mem_cons.mp hy with rfl | hy'
    · rfl
    · exact absurd (List.mem_map.mpr ⟨y, hy', h.symm⟩) hU.1
    · exact absurd (List.mem_map.mpr ⟨x, hx', h⟩) hU.1
    · exact ih hU.2 hx' hy'

theorem tmOf_congr {U : List TypeDef} {g g' : TypeDef → TypeDef} (h : ∀ x ∈ U, g x = g' x) : tmOf U g = tmOf U g' := by
  unfold tmOf
  apply List.map_congr_left
  intro x hx
  rw [h x hx]

theorem possLoop_ok (S : Schema) (owner : String) (tm : TypeMap) :
    (names : List String) → (pm : PossMap) → (∀ p ∈ names, p ≠ "" ∧ (tmGet tm p).isSome = true) →
    possLoop owner (names.map (refTR S)) tm pm = .ok (names.foldl (fun pm p => pmAdd owner p pm) pm)
  | [], pm, _ => rfl
  | p :: rest, pm, h => by
    have hp := h p (List.mem_cons_self)
    have hname : (refTR S p).name = p := rfl
    simp only [List.map_cons, possLoop, hname, hp.1, if_false]
    cases hg : tmGet tm p with
    | none => simp [hg] at hp
    | some d =>
      simp only [List.foldl_cons]
      exact possLoop_ok S owner tm rest _ (fun q hq => h q (List.mem_cons_of_mem _ hq))

theorem ifaceLoop_ok (S : Schema) (U : List TypeDef) (hU : (U.map (·.name)).Nodup) (td : TypeDef) (htd : td ∈ U) :
    (names : List String) → (g : TypeDef → TypeDef) → (pm : PossMap) →
    (∀ i ∈ names, i ≠ "" ∧ i ∈ U.map (·.name)) →
    ifaceLoop td.name (names.map (refTR S)) (tmOf U g) pm
      = .ok (tmOf U (upd g td.name { g td with interfaces := (g td).interfaces ++ names }),
             names.foldl (fun pm i => pmAdd i td.name pm) pm)
  | [], g, pm, _ => by
    simp only [List.map_nil, ifaceLoop, List.append_nil, List.foldl_nil]
    have : tmOf U g = tmOf U (upd g td.name { g td with interfaces := (g td).interfaces }) := by
      apply tmOf_congr
      intro x hx
      simp only [upd]
      split
      · rename_i hxn
        rw [eq_of_name_eq hU hx htd hxn]
      · rfl
    rw [← this]; rfl
  | i :: rest, g, pm, h => by
    have hi := h i (List.mem_cons_self)
    have hname : (refTR S i).name = i := rfl
    simp only [List.map_cons, ifaceLoop, hname, hi.1, if_false, tmGet_tmOf g U hU td htd]
    rw [tmSet_tmOf g _ U hU td htd]
    obtain ⟨ti, hti, hti'⟩ := List.mem_map.mp hi.2
    subst hti'
    rw [tmGet_tmOf _ U hU ti hti]
    simp only
    have ih := ifaceLoop_ok S U hU td htd rest (upd g td.name { g td with interfaces := (g td).interfaces ++ [ti.name] }) (pmAdd ti.name td.name pm)
      (fun j hj => h j (List.mem_cons_of_mem _ hj))
    rw [ih]
    simp only [upd, if_true, upd_upd, List.append_assoc, List.singleton_append, List.foldl_cons]

/-! ### second pass: the loop over the definitions -/

def procAll (rest : List TypeDef) (g : TypeDef → TypeDef) : TypeDef → TypeDef :=
  rest.foldl (fun g td => if isSkipped td then g else upd g td.name (fin td)) g

theorem onK_map {α β : Type} (k : Kind) (ks : List Kind) (l : List α) (f : α → β) : onK k ks (l.map f) = (onK k ks l).map f := by
  unfold onK; split <;> rfl

theorem nodup_of_sorted {l : List String} (h : l.Pairwise (· < ·)) : l.Nodup :=
  h.imp (fun hab => String.ne_of_lt hab)

structure Ctx15 (S : Schema) : Prop where
  sorted : (S.types.map (·.name)).Pairwise (· < ·)
  user : ∀ td ∈ S.types, isSkipped td = false → UserOK S td

theorem users_nodup {S : Schema} (h : Ctx15 S) : ((users S.types).map (·.name)).Nodup := by
  have hn := nodup_of_sorted h.sorted
  unfold users
  exact (List.Nodup.sublist (List.Sublist.map _ List.filter_sublist) hn)

theorem mem_users {S : Schema} {td : TypeDef} (hm : td ∈ S.types) (hs : isSkipped td = false) : td ∈ users S.types := by
  simp [users, hm, hs]

theorem user_of_isUserType {S : Schema} {p : String} (h : isUserType S p = true) :
    ∃ tp ∈ users S.types, tp.name = p := by
  unfold isUserType at h
  cases hty : S.type? p with
  | none => simp [hty] at h
  | some tp =>
    simp only [hty, Bool.not_eq_true'] at h
    exact ⟨tp, mem_users (List.mem_of_find?_eq_some hty) h, type?_name hty⟩

theorem user_of_isUserKind {S : Schema} {k : Kind} {p : String} (h : isUserKind S k p = true) :
    ∃ tp ∈ users S.types, tp.name = p ∧ tp.kind = k := by
  unfold isUserKind at h
  cases hty : S.type? p with
  | none => simp [hty] at h
  | some tp =>
    simp only [hty, Bool.and_eq_true, beq_iff_eq, Bool.not_eq_true'] at h
    exact ⟨tp, mem_users (List.mem_of_find?_eq_some hty) h.2, type?_name hty, h.1⟩

theorem ifaces_eq {td : TypeDef} (h : shaped td = true) : onK td.kind [.object, .interface] td.interfaces = td.interfaces := by
  unfold shaped at h
  unfold onK
  cases hk : td.kind <;> simp_all

theorem members_nil {td : TypeDef} (h : shaped td = true) (hk : td.kind ≠ .union) : td.members = [] := by
  unfold shaped at h
  cases hk' : td.kind <;> simp_all

theorem pass2_step_user (S : Schema) (hC : Ctx15 S) (td : TypeDef) (hm : td ∈ S.types) (hs : isSkipped td = false)
    (rest : List TypeA) (g : TypeDef → TypeDef) (pm : PossMap) (hg : g td = td0 td)
    (hpm : td.kind = .union → pmGet pm td.name = []) :
    ∃ pm2, pass2 (typeA S td :: rest) (tmOf (users S.types) g) pm
        = pass2 rest (tmOf (users S.types) (upd g td.name (fin td))) pm2
      ∧ ∀ n', n' ≠ td.name → n' ∉ td.interfaces → pmGet pm2 n' = pmGet pm n' := by
  have hU := users_nodup hC
  have htd := mem_users hm hs
  have huser := hC.user td hm hs
  let names := onK td.kind [.interface, .union] (possibleObjects S td)
  have hposs : (typeA S td).possibleTypes = names.map (refTR S) := by simp only [typeA, onK_map, names]
  have hifs : (typeA S td).interfaces = td.interfaces.map (refTR S) := by
    simp only [typeA, onK_map, ifaces_eq huser.shape]
  have hnameA : (typeA S td).name = td.name := rfl
  -- possible types are found
  have hpfound : ∀ p ∈ names, p ≠ "" ∧ (tmGet (tmOf (users S.types) g) p).isSome = true := by
    intro p hp
    have hk : td.kind = .union ∨ td.kind = .interface := by
      simp only [names, onK] at hp
      split at hp
      · rename_i hc; cases hk' : td.kind <;> simp_all
      · cases hp
    have hp' : p ∈ possibleObjects S td := by
      simp only [names, onK] at hp
      split at hp
      · exact hp
      · cases hp
    obtain ⟨tp, htp, rfl⟩ := user_of_isUserType (huser.possible hk p hp')
    have htpS : tp ∈ S.types := (List.mem_filter.mp htp).1
    have hsk : isSkipped tp = false := by simpa [users] using (List.mem_filter.mp htp).2
    exact ⟨(hC.user tp htpS hsk).nameNE, by rw [tmGet_tmOf g _ hU tp htp]; rfl⟩
  have hifound : ∀ i ∈ td.interfaces, i ≠ "" ∧ i ∈ (users S.types).map (·.name) := by
    intro i hi
    obtain ⟨ti, hti, rfl, _⟩ := user_of_isUserKind (huser.ifaces i hi)
    have htiS : ti ∈ S.types := (List.mem_filter.mp hti).1
    have hsk : isSkipped ti = false := by simpa [users] using (List.mem_filter.mp hti).2
    exact ⟨(hC.user ti htiS hsk).nameNE, List.mem_map.mpr ⟨ti, hti, rfl⟩⟩
  refine ⟨td.interfaces.foldl (fun pm i => pmAdd i td.name pm) (names.foldl (fun pm p => pmAdd td.name p pm) pm), ?_, ?_⟩
  · rw [pass2]
    simp only [hnameA, tmGet_tmOf g _ hU td htd, hposs, hifs, possLoop_ok S td.name _ names pm hpfound, ok_bind]
    rw [ifaceLoop_ok S _ hU td htd td.interfaces g _ hifound]
    simp only [ok_bind]
    rw [tmGet_tmOf _ _ hU td htd]
    have hd1 : ({ g td with interfaces := (g td).interfaces ++ td.interfaces } : TypeDef) = { td0 td with interfaces := td.interfaces } := by
      rw [hg]; simp only [td0, List.nil_append]
    simp only [upd, if_true, hd1]
    by_cases hk : td.kind = .union
    · have hcond : ((td0 td).kind == Kind.union && ([] : List String).isEmpty) = true := by simp [td0, hk]
      have hmem0 : (td0 td).members = [] := rfl
      simp only [hmem0, hcond, if_true]
      have hmem : pmGet (td.interfaces.foldl (fun pm i => pmAdd i td.name pm) (names.foldl (fun pm p => pmAdd td.name p pm) pm)) td.name
          = td.members := by
        have hi0 : td.interfaces = [] := by
          have := huser.shape; unfold shaped at this; simp [hk] at this; exact this.1.2
        simp only [hi0, List.foldl_nil, pmGet_foldl_poss, if_true, hpm hk, List.nil_append, names, onK, hk]
        simp [huser.members hk]
      rw [tmSet_tmOf _ _ _ hU td htd, upd_upd, hmem]
      rfl
    · have hcond : ((td0 td).kind == Kind.union) = false := by simp [td0, hk]
      simp only [hcond, Bool.false_and, Bool.false_eq_true, if_false]
      have hfin : fin td = { td0 td with interfaces := td.interfaces } := by
        simp only [fin, members_nil huser.shape hk]; rfl
      rw [hfin]
  · intro n' hne hni
    simp only [pmGet_foldl_iface td.name n' td.interfaces _ hni, pmGet_foldl_poss, hne, if_false]

theorem pass2_step_skipped (S : Schema) (hC : Ctx15 S) (td : TypeDef) (hm : td ∈ S.types) (hs : isSkipped td = true)
    (rest : List TypeA) (g : TypeDef → TypeDef) (pm : PossMap) :
    pass2 (typeA S td :: rest) (tmOf (users S.types) g) pm = pass2 rest (tmOf (users S.types) g) pm := by
  have hnot : td.name ∉ (users S.types).map (·.name) := by
    intro hmem
    obtain ⟨u, hu, hun⟩ := List.mem_map.mp hmem
    have huS : u ∈ S.types := (List.mem_filter.mp hu).1
    have : u = td := eq_of_key_eq (·.name) S.types hC.sorted u huS td hm hun
    subst this
    have : isSkipped u = false := by simpa [users] using (List.mem_filter.mp hu).2
    rw [this] at hs; cases hs
  rw [pass2]
  have hnameA : (typeA S td).name = td.name := rfl
  simp only [hnameA, tmGet_tmOf_none g td.name _ hnot]

theorem pass2_answer (S : Schema) (hC : Ctx15 S) :
    (rest : List TypeDef) → (g : TypeDef → TypeDef) → (pm : PossMap) →
    (∀ td ∈ rest, td ∈ S.types) → (rest.map (·.name)).Nodup →
    (∀ td ∈ rest, isSkipped td = false → g td = td0 td) →
    (∀ u ∈ rest, isSkipped u = false → u.kind = .union → pmGet pm u.name = []) →
    ∃ pm', pass2 (rest.map (typeA S)) (tmOf (users S.types) g) pm = .ok (tmOf (users S.types) (procAll rest g), pm')
  | [], g, pm, _, _, _, _ => ⟨pm, rfl⟩
  | td :: rest, g, pm, hsub, hnd, hg, hpm => by
    have hm := hsub td (List.mem_cons_self)
    simp only [List.map_cons, List.nodup_cons] at hnd
    cases hs : isSkipped td with
    | true =>
      simp only [List.map_cons, pass2_step_skipped S hC td hm hs, procAll, List.foldl_cons, hs, if_true]
      exact pass2_answer S hC rest g pm (fun x hx => hsub x (List.mem_cons_of_mem _ hx)) hnd.2
        (fun x hx => hg x (List.mem_cons_of_mem _ hx)) (fun u hu => hpm u (List.mem_cons_of_mem _ hu))
    | false =>
      obtain ⟨pm2, hstep, hpm2⟩ := pass2_step_user S hC td hm hs (rest.map (typeA S)) g pm (hg td (List.mem_cons_self) hs)
        (hpm td (List.mem_cons_self) hs)
      simp only [List.map_cons, hstep, procAll, List.foldl_cons, hs, Bool.false_eq_true, if_false]
      have huser := hC.user td hm hs
      apply pass2_answer S hC rest (upd g td.name (fin td)) pm2 (fun x hx => hsub x (List.mem_cons_of_mem _ hx)) hnd.2
      · intro x hx hxs
        have hne : x.name ≠ td.name := fun e => hnd.1 (e ▸ List.mem_map.mpr ⟨x, hx, rfl⟩)
        simp only [upd, hne, if_false]
        exact hg x (List.mem_cons_of_mem _ hx) hxs
      · intro u hu hus huk
        have hne : u.name ≠ td.name := fun e => hnd.1 (e ▸ List.mem_map.mpr ⟨u, hu, rfl⟩)
        have hni : u.name ∉ td.interfaces := by
          intro hmem
          obtain ⟨ti, hti, htn, htk⟩ := user_of_isUserKind (huser.ifaces u.name hmem)
          have htiS : ti ∈ S.types := (List.mem_filter.mp hti).1
          have huS : u ∈ S.types := hsub u (List.mem_cons_of_mem _ hu)
          have : ti = u := eq_of_key_eq (·.name) S.types hC.sorted ti htiS u huS htn
          subst this
          rw [huk] at htk; cases htk
        rw [hpm2 u.name hne hni]
        exact hpm u (List.mem_cons_of_mem _ hu) hus huk

theorem procAll_other (x : TypeDef) : (rest : List TypeDef) → (g : TypeDef → TypeDef) →
    (∀ td ∈ rest, td.name ≠ x.name) → procAll rest g x = g x
  | [], _, _ => rfl
  | td :: rest, g, h => by
    have hne := h td (List.mem_cons_self)
    simp only [procAll, List.foldl_cons]
    have ih := procAll_other x rest (if isSkipped td then g else upd g td.name (fin td)) (fun y hy => h y (List.mem_cons_of_mem _ hy))
    simp only [procAll] at ih
    rw [ih]
    split
    · rfl
    · simp only [upd]; simp [hne.symm]

theorem procAll_user (x : TypeDef) (hx : isSkipped x = false) : (rest : List TypeDef) → (g : TypeDef → TypeDef) →
    (rest.map (·.name)).Nodup → x ∈ rest → procAll rest g x = fin x
  | [], _, _, h => by cases h
  | td :: rest, g, hnd, h => by
    simp only [List.map_cons, List.nodup_cons] at hnd
    simp only [procAll, List.foldl_cons]
    rcases List.mem_cons.mp h with rfl | h'
    · have := procAll_other x rest (if isSkipped x then g else upd g x.name (fin x))
        (fun y hy e => hnd.1 (e ▸ List.mem_map.mpr ⟨y, hy, rfl⟩))
      simp only [procAll] at this
      rw [this]
      simp [hx, upd]
    · have := procAll_user x hx rest (if isSkipped td then g else upd g td.name (fin td)) hnd.2 h'
      simpa only [procAll] using this

/-! ### directives -/

def isSkippedDir (d : DirDef) : Bool := Gen.Remote.skipDirectiveNames.contains d.name

def stripDir (d : DirDef) : DirDef := { name := d.name, desc := d.desc, args := d.args.map stripArg, locations := d.locations }

def dmKeys (dm : DirMap) : List String := dm.map (·.1)

theorem dmSet_fresh (n : String) (d : DirDef) : (dm : DirMap) → n ∉ dmKeys dm → dmSet n d dm = dm ++ [(n, d)]
  | [], _ => rfl
  | (k, v) :: rest, h => by
    simp only [dmKeys, List.map_cons, List.mem_cons, not_or] at h
    have hk : (k == n) = false := by simp; exact fun e => h.1 e.symm
    simp only [dmSet, hk, Bool.false_eq_true, if_false, List.cons_append]
    rw [dmSet_fresh n d rest h.2]

theorem dirLoop_answer (S : Schema) :
    (l : List DirDef) → (dm : DirMap) →
    (∀ d ∈ l, isSkippedDir d = false → d.name ≠ "" ∧ ∀ a ∈ d.args, argOK S a = true) →
    (dmKeys dm ++ (l.filter (fun d => !isSkippedDir d)).map (·.name)).Nodup →
    dirLoop (l.map (dirA S)) dm = .ok (dm ++ (l.filter (fun d => !isSkippedDir d)).map (fun d => (d.name, stripDir d)))
  | [], dm, _, _ => by simp [dirLoop]; rfl
  | d :: rest, dm, hok, hnd => by
    have hnameA : (dirA S d).name = d.name := rfl
    cases hs : isSkippedDir d with
    | true =>
      have hf : (d :: rest).filter (fun d => !isSkippedDir d) = rest.filter (fun d => !isSkippedDir d) := by simp [hs]
      rw [hf] at hnd ⊢
      have hne : d.name ≠ "" := by
        intro e
        have : isSkippedDir d = false := by simp [isSkippedDir, e]; decide
        rw [this] at hs; cases hs
      have hc : Gen.Remote.skipDirectiveNames.contains d.name = true := hs
      simp only [List.map_cons, dirLoop, hnameA, hne, if_false, hc, if_true]
      exact dirLoop_answer S rest dm (fun x hx => hok x (List.mem_cons_of_mem _ hx)) hnd
    | false =>
      have hf : (d :: rest).filter (fun d => !isSkippedDir d) = d :: rest.filter (fun d => !isSkippedDir d) := by simp [hs]
      rw [hf] at hnd ⊢
      have hd := hok d (List.mem_cons_self) hs
      have hc : Gen.Remote.skipDirectiveNames.contains d.name = false := hs
      have hargs : (dirA S d).args.mapM parseArg = .ok (d.args.map stripArg) :=
        mapM_map_ok parseArg (argA S) stripArg d.args (fun a h => parseArg_argA (hd.2 a h))
      simp only [List.map_cons, dirLoop, hnameA, hd.1, if_false, hc, Bool.false_eq_true, hargs, ok_bind]
      have hfresh : d.name ∉ dmKeys dm := by
        intro hm
        have := List.nodup_append.mp hnd
        exact this.2.2 d.name hm d.name (by simp) rfl
      have hset : dmSet d.name { name := d.name, desc := (dirA S d).desc, args := d.args.map stripArg, locations := (dirA S d).locations } dm
          = dm ++ [(d.name, stripDir d)] := by
        rw [dmSet_fresh _ _ dm hfresh]; rfl
      rw [hset]
      have := dirLoop_answer S rest (dm ++ [(d.name, stripDir d)]) (fun x hx => hok x (List.mem_cons_of_mem _ hx))
        (by simpa [dmKeys, List.append_assoc] using hnd)
      rw [this]
      simp [List.append_assoc]

/-! ### the root types -/

theorem stepRoots_query (a : SchemaA) (r : Roots) (n : String) :
    (stepRoots a r n).query = if n = a.queryType then some n else r.query := by
  by_cases h1 : n = a.queryType <;> by_cases h2 : a.mutationType = some n <;> by_cases h3 : a.subscriptionType = some n <;>
    simp [stepRoots, h1, h2, h3]

theorem stepRoots_mutation (a : SchemaA) (r : Roots) (n : String) :
    (stepRoots a r n).mutation = if n ≠ a.queryType ∧ a.mutationType = some n then some n else r.mutation := by
  by_cases h1 : n = a.queryType <;> by_cases h2 : a.mutationType = some n <;> by_cases h3 : a.subscriptionType = some n <;>
    simp [stepRoots, h1, h2, h3]

theorem stepRoots_subscription (a : SchemaA) (r : Roots) (n : String) :
    (stepRoots a r n).subscription
      = if n ≠ a.queryType ∧ a.mutationType ≠ some n ∧ a.subscriptionType = some n then some n else r.subscription := by
  by_cases h1 : n = a.queryType <;> by_cases h2 : a.mutationType = some n <;> by_cases h3 : a.subscriptionType = some n <;>
    simp [stepRoots, h1, h2, h3]

theorem stepRoots_badKind (a : SchemaA) (r : Roots) (n : String) : (stepRoots a r n).badKind = r.badKind := by
  by_cases h1 : n = a.queryType <;> by_cases h2 : a.mutationType = some n <;> by_cases h3 : a.subscriptionType = some n <;>
    simp [stepRoots, h1, h2, h3]

theorem foldl_roots_query (a : SchemaA) : (names : List String) → (r : Roots) →
    (names.foldl (stepRoots a) r).query = if a.queryType ∈ names then some a.queryType else r.query
  | [], r => by simp
  | n :: rest, r => by
    rw [List.foldl_cons, foldl_roots_query a rest, stepRoots_query]
    by_cases h : n = a.queryType
    · subst h; simp
    · have h' : ¬ a.queryType = n := fun e => h e.symm
      simp [List.mem_cons, h', h]

theorem foldl_roots_badKind (a : SchemaA) : (names : List String) → (r : Roots) →
    (names.foldl (stepRoots a) r).badKind = r.badKind
  | [], r => rfl
  | n :: rest, r => by rw [List.foldl_cons, foldl_roots_badKind a rest, stepRoots_badKind]

theorem foldl_roots_mutation (a : SchemaA) (m : String) (hm : a.mutationType = some m) : (names : List String) → (r : Roots) →
    (names.foldl (stepRoots a) r).mutation = if m ∈ names ∧ m ≠ a.queryType then some m else r.mutation
  | [], r => by simp
  | n :: rest, r => by
    rw [List.foldl_cons, foldl_roots_mutation a m hm rest, stepRoots_mutation, hm]
    by_cases hmn : m = n
    · subst hmn
      by_cases hq : m = a.queryType <;> simp [hq]
    · have h' : ¬ n = m := fun e => hmn e.symm
      have h'' : ¬ some m = some n := by simpa using hmn
      simp [List.mem_cons, hmn, h'']

theorem foldl_roots_mutation_none (a : SchemaA) (hm : a.mutationType = none) : (names : List String) → (r : Roots) →
    (names.foldl (stepRoots a) r).mutation = r.mutation
  | [], r => rfl
  | n :: rest, r => by
    rw [List.foldl_cons, foldl_roots_mutation_none a hm rest, stepRoots_mutation, hm]; simp

theorem foldl_roots_subscription (a : SchemaA) (s : String) (hs : a.subscriptionType = some s) : (names : List String) → (r : Roots) →
    (names.foldl (stepRoots a) r).subscription
      = if s ∈ names ∧ s ≠ a.queryType ∧ a.mutationType ≠ some s then some s else r.subscription
  | [], r => by simp
  | n :: rest, r => by
    rw [List.foldl_cons, foldl_roots_subscription a s hs rest, stepRoots_subscription, hs]
    by_cases hsn : s = n
    · subst hsn
      by_cases hq : s = a.queryType <;> by_cases hmu : a.mutationType = some s <;> simp [hq, hmu]
    · have h'' : ¬ some s = some n := by simpa using hsn
      simp [List.mem_cons, hsn, h'']

theorem foldl_roots_subscription_none (a : SchemaA) (hs : a.subscriptionType = none) : (names : List String) → (r : Roots) →
    (names.foldl (stepRoots a) r).subscription = r.subscription
  | [], r => rfl
  | n :: rest, r => by
    rw [List.foldl_cons, foldl_roots_subscription_none a hs rest, stepRoots_subscription, hs]; simp

/-! ### the reconstruction keeps what an introspection answer carries -/

theorem keepDeprecated_nil {ds : List DirUse} (h : noDeprecation ds = true) : keepDeprecated ds = [] := by
  simpa [noDeprecation, keepDeprecated, List.isEmpty_iff] using h

theorem normArg_strip {S : Schema} {a : ArgDef} (h : argOK S a = true) : normArg (stripArg a) = normArg a := by
  simp only [argOK, Bool.and_eq_true, Option.isNone_iff_eq_none] at h
  obtain ⟨⟨_, hd⟩, hn⟩ := h
  cases a with
  | mk name type dflt desc directives =>
    simp only at hd hn
    subst hd
    simp only [normArg, stripArg, keepDeprecated_nil hn]
    rfl

theorem normField_stripField {S : Schema} {f : FieldDef}
    (h : typeRefOK S f.type = true ∧ f.default = none ∧ noDeprecation f.directives = true ∧ ∀ a ∈ f.args, argOK S a = true) :
    normField (stripField f) = normField f := by
  obtain ⟨_, hd, hn, ha⟩ := h
  cases f with
  | mk name args type dflt desc directives =>
    simp only at hd hn ha
    subst hd
    have hargs : (args.map stripArg).map normArg = args.map normArg := by
      rw [List.map_map]
      apply List.map_congr_left
      intro a hm
      exact normArg_strip (ha a hm)
    simp only [normField, stripField, keepDeprecated_nil hn, hargs]
    rfl

theorem normField_stripIn {S : Schema} {f : FieldDef} (hargs : f.args = [])
    (h : typeRefOK S f.type = true ∧ f.default = none ∧ noDeprecation f.directives = true ∧ ∀ a ∈ f.args, argOK S a = true) :
    normField (stripIn f) = normField f := by
  obtain ⟨_, hd, hn, _⟩ := h
  cases f with
  | mk name args type dflt desc directives =>
    simp only at hd hn hargs
    subst hd hargs
    simp only [normField, stripIn, keepDeprecated_nil hn, List.map_nil]
    rfl

theorem normEnum_strip {e : EnumVal} (h : noDeprecation e.directives = true) :
    normEnum { name := e.name, desc := e.desc } = normEnum e := by
  cases e with
  | mk name desc directives =>
    simp only at h
    simp only [normEnum, keepDeprecated_nil h]
    rfl

theorem filter_nb_map (f : FieldDef → FieldDef) (hname : ∀ x, (f x).name = x.name) (l : List FieldDef) :
    (l.map f).filter (fun x => !isBuiltinNameI x.name) = (l.filter (fun x => !isBuiltinNameI x.name)).map f := by
  rw [List.filter_map]
  congr 1
  apply List.filter_congr
  intro x _
  simp [Function.comp, hname]

theorem td0_fields_obj {td : TypeDef} (hk : td.kind = .object ∨ td.kind = .interface) :
    (td0 td).fields = (td.fields.filter (fun f => !isBuiltinNameI f.name)).map stripField := by
  rcases hk with hk | hk <;> simp [td0, onK, hk]

theorem td0_fields_input {td : TypeDef} (hk : td.kind = .inputObject) : (td0 td).fields = td.fields.map stripIn := by
  simp [td0, onK, hk]

theorem td0_fields_other {td : TypeDef} (h1 : td.kind ≠ .object) (h2 : td.kind ≠ .interface) (h3 : td.kind ≠ .inputObject) :
    (td0 td).fields = [] := by
  cases hk : td.kind <;> simp_all [td0, onK]

def mkType (name : String) (kind : Kind) (fields : List FieldDef) (interfaces members : List String)
    (enumValues : List EnumVal) (desc : String) (directives : List DirUse) : TypeDef :=
  { name := name, kind := kind, fields := fields, interfaces := interfaces, members := members,
    enumValues := enumValues, desc := desc, directives := directives, builtIn := false }

theorem normType_fin {S : Schema} {td : TypeDef} (h : UserOK S td) : normType (fin td) = normType td := by
  have hsh := h.shape
  have hfields : ((td0 td).fields.filter (fun f => !isBuiltinNameI f.name)).map normField
      = (td.fields.filter (fun f => !isBuiltinNameI f.name)).map normField := by
    by_cases hk : td.kind = .object ∨ td.kind = .interface
    · rw [td0_fields_obj hk, filter_nb_map stripField (fun _ => rfl), List.map_map, List.filter_filter]
      simp only [Bool.and_self]
      apply List.map_congr_left
      intro f hf
      exact normField_stripField (h.fields f (List.mem_filter.mp hf).1)
    · by_cases hk' : td.kind = .inputObject
      · rw [td0_fields_input hk', filter_nb_map stripIn (fun _ => rfl), List.map_map]
        apply List.map_congr_left
        intro f hf
        have hfm := (List.mem_filter.mp hf).1
        have hargs : f.args = [] := by
          unfold shaped at hsh
          simp only [hk', Bool.and_eq_true, List.all_eq_true, List.isEmpty_iff] at hsh
          exact hsh.2 f hfm
        exact normField_stripIn hargs (h.fields f hfm)
      · have h1 : td.kind ≠ .object := fun e => hk (Or.inl e)
        have h2 : td.kind ≠ .interface := fun e => hk (Or.inr e)
        rw [td0_fields_other h1 h2 hk']
        have : td.fields = [] := by
          unfold shaped at hsh
          cases hk'' : td.kind <;> simp_all
        simp [this]
  have henums : (td0 td).enumValues.map normEnum = td.enumValues.map normEnum := by
    simp only [td0]
    by_cases hk : td.kind = .enum
    · simp only [hk, beq_self_eq_true, if_true, List.map_map]
      apply List.map_congr_left
      intro e he
      exact normEnum_strip (h.enums e he)
    · have : td.enumValues = [] := by
        unfold shaped at hsh
        cases hk' : td.kind <;> simp_all
      simp [this]
  have hdirs : keepDeprecated td.directives = [] := keepDeprecated_nil h.noDirs
  have e1 : normType (fin td) = mkType td.name td.kind
      (((td0 td).fields.filter (fun f => !isBuiltinNameI f.name)).map normField)
      td.interfaces td.members ((td0 td).enumValues.map normEnum) td.desc [] := rfl
  have e2 : normType td = mkType td.name td.kind
      ((td.fields.filter (fun f => !isBuiltinNameI f.name)).map normField)
      td.interfaces td.members (td.enumValues.map normEnum) td.desc (keepDeprecated td.directives) := rfl
  rw [e1, e2, hfields, henums, hdirs]

/-! ### assembling `rebuildA` -/

structure Full15 (S : Schema) : Prop where
  ctx : Ctx15 S
  dirsSorted : (S.directives.map (·.name)).Pairwise (· < ·)
  dirs : ∀ d ∈ S.directives, isSkippedDir d = false → d.name ≠ "" ∧ d.repeatable = false ∧ ∀ a ∈ d.args, argOK S a = true
  query : ∃ q, S.query = some q ∧ isUserType S q = true
  mutation : ∀ m, S.mutation = some m → isUserType S m = true ∧ S.query ≠ some m
  subscription : ∀ s, S.subscription = some s → isUserType S s = true ∧ S.query ≠ some s ∧ S.mutation ≠ some s

theorem full15_of {S : Schema} (h : supportedC15 S = true) : Full15 S := by
  simp only [supportedC15, Bool.and_eq_true, decide_eq_true_eq, List.all_eq_true, bne_iff_ne, ne_eq, Bool.or_eq_true,
    Option.isSome_iff_exists, Option.isNone_iff_eq_none] at h
  obtain ⟨⟨⟨⟨⟨⟨⟨⟨⟨⟨hts, hds⟩, htok⟩, hdok⟩, hq⟩, hqok⟩, hmok⟩, hsok⟩, hqm⟩, hqs⟩, hms⟩ := h
  refine ⟨⟨hts, ?_⟩, hds, ?_, ?_, ?_, ?_⟩
  · intro td hm hs
    have := htok td hm
    unfold typeOK at this
    have hc : Gen.Remote.skipTypeNames.contains td.name = false := hs
    simp only [hc, Bool.false_eq_true, if_false, Bool.and_eq_true] at this
    exact userOK_of hc this.2.2
  · intro d hm hs
    have := hdok d hm
    unfold directiveOK at this
    have hc : Gen.Remote.skipDirectiveNames.contains d.name = false := hs
    simp only [hc, Bool.false_or, Bool.and_eq_true, bne_iff_ne, ne_eq, Bool.not_eq_true', List.all_eq_true] at this
    exact ⟨this.2.1.1, this.2.1.2, this.2.2⟩
  · obtain ⟨q, hq⟩ := hq
    exact ⟨q, hq, by simpa [hq, rootOK] using hqok⟩
  · intro m hm
    refine ⟨by simpa [hm, rootOK] using hmok, ?_⟩
    intro e; exact hqm (e.trans hm.symm)
  · intro s hs
    refine ⟨by simpa [hs, rootOK] using hsok, ?_, ?_⟩
    · intro e; exact hqs (e.trans hs.symm)
    · intro e
      rcases hms with hms | hms
      · rw [hms] at e; cases e
      · exact hms (e.trans hs.symm)

theorem normDir_strip {S : Schema} {d : DirDef} (hr : d.repeatable = false) (ha : ∀ a ∈ d.args, argOK S a = true) :
    normDir (stripDir d) = normDir d := by
  cases d with
  | mk name desc args locations repeatable =>
    simp only at hr ha
    subst hr
    have hargs : (args.map stripArg).map normArg = args.map normArg := by
      rw [List.map_map]
      apply List.map_congr_left
      intro a hm
      exact normArg_strip (ha a hm)
    simp only [normDir, stripDir, hargs]

/-- the reconstruction on the decoded standard answer -/
theorem rebuildA_answer (S : Schema) (h : Full15 S) :
    ∃ R, rebuildA (answerA S) = .ok R ∧ R.unknownKind = [] ∧ normSchema R.schema = normSchema S := by
  have hC := h.ctx
  have hU := users_nodup hC
  obtain ⟨q, hq, hqu⟩ := h.query
  -- first pass
  have hp1 := pass1_answer S (answerA S) S.types [] {} (fun td hm hs => hC.user td hm hs) (by simpa [tmKeys] using hU)
  -- second pass
  obtain ⟨pm', hp2⟩ := pass2_answer S hC S.types td0 [] (fun _ h => h) (nodup_of_sorted hC.sorted) (fun _ _ _ => rfl)
    (fun _ _ _ _ => rfl)
  -- directives
  have hd := dirLoop_answer S S.directives [] (fun d hm hs => ⟨(h.dirs d hm hs).1, (h.dirs d hm hs).2.2⟩)
    (by
      have := nodup_of_sorted h.dirsSorted
      simpa [dmKeys] using (List.Nodup.sublist (List.Sublist.map _ List.filter_sublist) this))
  let roots := ((users S.types).map (·.name)).foldl (stepRoots (answerA S)) {}
  refine ⟨{ schema := { types := (users S.types).map (procAll S.types td0),
                        directives := (S.directives.filter (fun d => !isSkippedDir d)).map stripDir,
                        query := roots.query, mutation := roots.mutation, subscription := roots.subscription },
            unknownKind := roots.badKind }, ?_, ?_, ?_⟩
  · unfold rebuildA
    have ht : (answerA S).types = S.types.map (typeA S) := rfl
    have hdd : (answerA S).directives = S.directives.map (dirA S) := rfl
    simp only [ht, hdd, hp1, ok_bind, List.nil_append]
    have : (users S.types).map (fun td => (td.name, td0 td)) = tmOf (users S.types) td0 := rfl
    rw [this, hp2]
    simp only [ok_bind, hd, List.nil_append]
    simp only [tmOf, List.map_map]
    rfl
  · exact foldl_roots_badKind _ _ _
  · -- equivalence
    have hq_mem : q ∈ (users S.types).map (·.name) := by
      obtain ⟨tq, htq, hn⟩ := user_of_isUserType hqu
      exact List.mem_map.mpr ⟨tq, htq, hn⟩
    have hqa : (answerA S).queryType = q := by simp [answerA, hq]
    have hquery : roots.query = S.query := by
      simp only [roots, foldl_roots_query, hqa, hq_mem, if_true, hq]
    have hmut : roots.mutation = S.mutation := by
      cases hm : S.mutation with
      | none => exact foldl_roots_mutation_none _ (show (answerA S).mutationType = none from hm) _ _
      | some m =>
        obtain ⟨hmu, hne⟩ := h.mutation m hm
        obtain ⟨tm', htm, hn⟩ := user_of_isUserType hmu
        have hmem : m ∈ (users S.types).map (·.name) := List.mem_map.mpr ⟨tm', htm, hn⟩
        have hmq : m ≠ (answerA S).queryType := by
          rw [hqa]; intro e; exact hne (by rw [hq, e])
        have hma : (answerA S).mutationType = some m := hm
        show (((users S.types).map (·.name)).foldl (stepRoots (answerA S)) {}).mutation = some m
        rw [foldl_roots_mutation _ m hma]
        simp [hmem, hmq]
    have hsub : roots.subscription = S.subscription := by
      cases hs : S.subscription with
      | none => exact foldl_roots_subscription_none _ (show (answerA S).subscriptionType = none from hs) _ _
      | some sn =>
        obtain ⟨hsu, hne1, hne2⟩ := h.subscription sn hs
        obtain ⟨ts, hts, hn⟩ := user_of_isUserType hsu
        have hmem : sn ∈ (users S.types).map (·.name) := List.mem_map.mpr ⟨ts, hts, hn⟩
        have hsq : sn ≠ (answerA S).queryType := by
          rw [hqa]; intro e; exact hne1 (by rw [hq, e])
        have hsm : (answerA S).mutationType ≠ some sn := hne2
        have hsa : (answerA S).subscriptionType = some sn := hs
        show (((users S.types).map (·.name)).foldl (stepRoots (answerA S)) {}).subscription = some sn
        rw [foldl_roots_subscription _ sn hsa]
        simp [hmem, hsq, hsm]
    have htypes : (((users S.types).map (procAll S.types td0)).filter (fun td => !Gen.Remote.skipTypeNames.contains td.name)).map normType
        = ((S.types.filter (fun td => !Gen.Remote.skipTypeNames.contains td.name)).map normType) := by
      have hfin : (users S.types).map (procAll S.types td0) = (users S.types).map fin := by
        apply List.map_congr_left
        intro td htd
        have htS : td ∈ S.types := (List.mem_filter.mp htd).1
        have hsk : isSkipped td = false := by simpa [users] using (List.mem_filter.mp htd).2
        exact procAll_user td hsk S.types td0 (nodup_of_sorted hC.sorted) htS
      rw [hfin, List.filter_map]
      have hfil : (users S.types).filter ((fun td => !Gen.Remote.skipTypeNames.contains td.name) ∘ fin) = users S.types := by
        apply List.filter_eq_self.mpr
        intro td htd
        have hsk : isSkipped td = false := by simpa [users] using (List.mem_filter.mp htd).2
        simpa [Function.comp, fin, td0, isSkipped] using hsk
      rw [hfil, List.map_map]
      show (users S.types).map (normType ∘ fin) = (users S.types).map normType
      apply List.map_congr_left
      intro td htd
      have htS : td ∈ S.types := (List.mem_filter.mp htd).1
      have hsk : isSkipped td = false := by simpa [users] using (List.mem_filter.mp htd).2
      exact normType_fin (hC.user td htS hsk)
    have hdirs : (((S.directives.filter (fun d => !isSkippedDir d)).map stripDir).filter
          (fun d => !Gen.Remote.skipDirectiveNames.contains d.name)).map normDir
        = (S.directives.filter (fun d => !Gen.Remote.skipDirectiveNames.contains d.name)).map normDir := by
      rw [List.filter_map]
      have hfil : (S.directives.filter (fun d => !isSkippedDir d)).filter
          ((fun d => !Gen.Remote.skipDirectiveNames.contains d.name) ∘ stripDir) = S.directives.filter (fun d => !isSkippedDir d) := by
        apply List.filter_eq_self.mpr
        intro d hd'
        simpa [Function.comp, stripDir, isSkippedDir] using (List.mem_filter.mp hd').2
      rw [hfil, List.map_map]
      show (S.directives.filter (fun d => !isSkippedDir d)).map (normDir ∘ stripDir) = _
      apply List.map_congr_left
      intro d hd'
      have hdS : d ∈ S.directives := (List.mem_filter.mp hd').1
      have hsk : isSkippedDir d = false := by simpa using (List.mem_filter.mp hd').2
      exact normDir_strip (h.dirs d hdS hsk).2.1 (h.dirs d hdS hsk).2.2
    simp only [normSchema, htypes, hdirs, hquery, hmut, hsub]

end PebblesVerif
