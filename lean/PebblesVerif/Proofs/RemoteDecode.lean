import PebblesVerif.Proofs.Remote
import PebblesVerif.Proofs.Introspect
/-!
Helper lemmas for C15 (3): decoding the specification's standard answer (a JSON value) yields
the typed answer `answerA S` the reconstruction lemmas speak about.
-/
namespace PebblesVerif
open PebblesVerif.Model.Remote PebblesVerif.Spec

theorem selL_inline (doc : J) (vars : List (String × J)) (v : J) (sub : List ISel) :
    selL doc vars v [.inline sub] = selL doc vars v sub := by
  simp [selL, sel1]

/-- a type reference seen through `fragment TypeRef` with `d` levels of `ofType` -/
def trVal (S : Schema) (d : Nat) (t : TypeRef) : J := projV (introspect S) [] (typeRef S t) (typeRefSel d)

theorem typeRef_found {S : Schema} {t : TypeRef} (h : (S.type? t.name).isSome = true) : ∃ kvs, typeRef S t = .obj kvs := by
  cases t with
  | named n =>
    simp only [TypeRef.name] at h
    obtain ⟨td, htd⟩ := Option.isSome_iff_exists.mp h
    exact ⟨[tn "__Type", ("kind", .str td.kind.toString), ("name", .str n), ("ofType", .null)], by simp [typeRef, namedRef, htd]⟩
  | list t' => exact ⟨_, rfl⟩
  | nonNull t' => exact ⟨_, rfl⟩

theorem trVal_obj {S : Schema} {t : TypeRef} (d : Nat) (h : (S.type? t.name).isSome = true) : ∃ kvs, trVal S d t = .obj kvs := by
  obtain ⟨kvs, hk⟩ := typeRef_found h
  exact ⟨_, by rw [trVal, hk, projV_obj]⟩

theorem decTRefVal_obj (kvs : List (String × J)) : decTRefVal (some (.obj kvs)) = decTRef (.obj kvs) := rfl

theorem typeRefSel_ne (d : Nat) : typeRefSel d ≠ [] := by cases d <;> simp [typeRefSel]

theorem selL_typeRefSel_zero (doc v : J) :
    selL doc [] v (typeRefSel 0) = [("kind", ifieldValue doc [] v "kind" []), ("name", ifieldValue doc [] v "name" [])] := by
  simp [typeRefSel, leaf, selL, sel1_leaf]

theorem selL_typeRefSel_succ (doc v : J) (d : Nat) :
    selL doc [] v (typeRefSel (d + 1)) = [("kind", ifieldValue doc [] v "kind" []), ("name", ifieldValue doc [] v "name" []),
      ("ofType", projV doc [] (ifieldValue doc [] v "ofType" []) (typeRefSel d))] := by
  simp [typeRefSel, leaf, comp, selL, sel1_leaf, sel1_comp _ _ _ _ _ _ (typeRefSel_ne d)]

theorem mergePairs3 (k1 k2 k3 : String) (v1 v2 v3 : J) (h1 : k1 ≠ k2) (h2 : k1 ≠ k3) (h3 : k2 ≠ k3) :
    mergePairs [] [(k1, v1), (k2, v2), (k3, v3)] = [(k1, v1), (k2, v2), (k3, v3)] := by
  apply mergePairs_of_nodup [] [(k1, v1), (k2, v2), (k3, v3)]
  simp [keysOf, h1, h2, h3]

theorem mergePairs2 (k1 k2 : String) (v1 v2 : J) (h1 : k1 ≠ k2) :
    mergePairs [] [(k1, v1), (k2, v2)] = [(k1, v1), (k2, v2)] := by
  apply mergePairs_of_nodup [] [(k1, v1), (k2, v2)]
  simp [keysOf, h1]

theorem decTRef_obj3 (k n o : J) :
    decTRef (.obj [("kind", k), ("name", n), ("ofType", o)]) = (do
      let o' ← decTRef o
      let n' ← decStr (some n)
      let k' ← decStr (some k)
      pure (.mk k' n' o')) := by
  simp only [decTRef, decTRefKvs, Gen.Remote.keyTypeRefKind, Gen.Remote.keyTypeRefName, Gen.Remote.keyTypeRefOfType]
  simp

theorem decTRef_obj2 (k n : J) :
    decTRef (.obj [("kind", k), ("name", n)]) = (do
      let n' ← decStr (some n)
      let k' ← decStr (some k)
      pure (.mk k' n' .nil)) := by
  simp only [decTRef, decTRefKvs, Gen.Remote.keyTypeRefKind, Gen.Remote.keyTypeRefName, Gen.Remote.keyTypeRefOfType]
  simp

theorem trVal_dec (S : Schema) : (d : Nat) → (t : TypeRef) → (S.type? t.name).isSome = true →
    decTRef (trVal S d t) = .ok (truncTR (d + 1) (encTR (kindOfS S) t))
  | d, .named n, h => by
    simp only [TypeRef.name] at h
    obtain ⟨td, htd⟩ := Option.isSome_iff_exists.mp h
    have hk : kindOfS S n = td.kind.toString := by simp [kindOfS, htd]
    have hr : typeRef S (.named n) = .obj [tn "__Type", ("kind", .str td.kind.toString), ("name", .str n), ("ofType", .null)] := by
      simp [typeRef, namedRef, htd]
    cases d with
    | zero =>
      rw [trVal, hr, projV_obj, selL_typeRefSel_zero, mergePairs2 _ _ _ _ (by decide), decTRef_obj2]
      simp [ifieldValue, getKey, J.get?, J.lookup, tn, decStr, encTR, truncTR, hk]
      rfl
    | succ d =>
      rw [trVal, hr, projV_obj, selL_typeRefSel_succ, mergePairs3 _ _ _ _ _ _ (by decide) (by decide) (by decide), decTRef_obj3]
      simp [ifieldValue, getKey, J.get?, J.lookup, tn, decStr, encTR, truncTR, hk, decTRef]
      rfl
  | 0, .list t', h => by
    rw [trVal]; simp only [typeRef]
    rw [projV_obj, selL_typeRefSel_zero, mergePairs2 _ _ _ _ (by decide), decTRef_obj2]
    simp [ifieldValue, getKey, J.get?, J.lookup, tn, decStr, encTR, truncTR]
    rfl
  | d + 1, .list t', h => by
    have hdec := trVal_dec S d t' (by simpa [TypeRef.name] using h)
    rw [trVal]; simp only [typeRef]
    rw [projV_obj, selL_typeRefSel_succ, mergePairs3 _ _ _ _ _ _ (by decide) (by decide) (by decide), decTRef_obj3]
    have hv : ifieldValue (introspect S) [] (.obj [tn "__Type", ("kind", .str "LIST"), ("name", .null), ("ofType", typeRef S t')]) "ofType" []
        = typeRef S t' := by simp [ifieldValue, getKey, J.get?, J.lookup, tn]
    rw [hv]
    have : projV (introspect S) [] (typeRef S t') (typeRefSel d) = trVal S d t' := rfl
    rw [this, hdec]
    simp [ifieldValue, getKey, J.get?, J.lookup, tn, decStr, encTR, truncTR]
    rfl
  | 0, .nonNull t', h => by
    rw [trVal]; simp only [typeRef]
    rw [projV_obj, selL_typeRefSel_zero, mergePairs2 _ _ _ _ (by decide), decTRef_obj2]
    simp [ifieldValue, getKey, J.get?, J.lookup, tn, decStr, encTR, truncTR]
    rfl
  | d + 1, .nonNull t', h => by
    have hdec := trVal_dec S d t' (by simpa [TypeRef.name] using h)
    rw [trVal]; simp only [typeRef]
    rw [projV_obj, selL_typeRefSel_succ, mergePairs3 _ _ _ _ _ _ (by decide) (by decide) (by decide), decTRef_obj3]
    have hv : ifieldValue (introspect S) [] (.obj [tn "__Type", ("kind", .str "NON_NULL"), ("name", .null), ("ofType", typeRef S t')]) "ofType" []
        = typeRef S t' := by simp [ifieldValue, getKey, J.get?, J.lookup, tn]
    rw [hv]
    have : projV (introspect S) [] (typeRef S t') (typeRefSel d) = trVal S d t' := rfl
    rw [this, hdec]
    simp [ifieldValue, getKey, J.get?, J.lookup, tn, decStr, encTR, truncTR]
    rfl

/-! ### generic: projections of lists, decoding of lists -/

theorem projV_inline (doc : J) (vars : List (String × J)) (x : J) (sub : List ISel) :
    projV doc vars x [.inline sub] = projV doc vars x sub := by
  unfold projV
  have : (fun y => selL doc vars y [ISel.inline sub]) = (fun y => selL doc vars y sub) := by
    funext y; exact selL_inline doc vars y sub
  rw [this]

theorem projV_arr_map' {α : Type} (doc : J) (vars : List (String × J)) (xs : List α) (g : α → J) (sub : List ISel)
    (hg : ∀ x ∈ xs, ∃ kvs, g x = .obj kvs) :
    projV doc vars (.arr (xs.map g)) sub = .arr (xs.map (fun x => projV doc vars (g x) sub)) := by
  have := arr_assign_eq doc vars xs g (fun x => projV doc vars (g x) sub) sub (fun _ _ => rfl)
    (fun x hx l => by obtain ⟨kvs, hk⟩ := hg x hx; rw [hk]; simp)
  exact this.symm

theorem decList_arr_map {α β : Type} (f : J → Except Err β) (xs : List α) (g : α → J) (h : α → β)
    (hx : ∀ x ∈ xs, f (g x) = .ok (h x)) : decList f (some (.arr (xs.map g))) = .ok (xs.map h) := by
  simp only [decList]
  exact mapM_map_ok f g h xs hx

theorem decList_null {β : Type} (f : J → Except Err β) : decList f (some .null) = .ok [] := rfl

/-- a kind-dependent list of the answer: `null` on the other kinds decodes to the empty slice -/
theorem decList_onKinds {α β : Type} (doc : J) (f : J → Except Err β) (k : Kind) (ks : List Kind) (xs : List α) (g : α → J)
    (h : α → β) (sub : List ISel) (hg : ∀ x ∈ xs, ∃ kvs, g x = .obj kvs)
    (hx : ∀ x ∈ xs, f (projV doc [] (g x) sub) = .ok (h x)) :
    decList f (some (projV doc [] (onKinds k ks (.arr (xs.map g))) sub)) = .ok (onK k ks (xs.map h)) := by
  unfold onKinds onK
  split
  · rw [projV_arr_map' doc [] xs g sub hg]
    exact decList_arr_map f xs (fun x => projV doc [] (g x) sub) h hx
  · rfl

/-! ### input values -/

theorem typeRefLevels_eq : typeRefLevels - 1 + 1 = typeRefLevels := rfl

theorem decTRefVal_trVal (S : Schema) (t : TypeRef) (h : (S.type? t.name).isSome = true) :
    decTRefVal (some (projV (introspect S) [] (typeRef S t) [.inline (typeRefSel (typeRefLevels - 1))])) = .ok (trA S t) := by
  rw [projV_inline]
  show decTRefVal (some (trVal S (typeRefLevels - 1) t)) = _
  obtain ⟨kvs, hk⟩ := trVal_obj (typeRefLevels - 1) h
  rw [hk, decTRefVal_obj, ← hk, trVal_dec S _ t h]
  rfl

theorem mergePairs_lit (ps : List (String × J)) (h : (keysOf ps).Nodup) : mergePairs [] ps = ps :=
  mergePairs_of_nodup [] ps (by simpa using h)

theorem inputValue_proj (S : Schema) (name desc : String) (t : TypeRef) (dflt : Option String) :
    projV (introspect S) [] (inputValue S name desc t dflt) inputValueSel
      = .obj [("name", .str name), ("description", .str desc),
              ("type", projV (introspect S) [] (typeRef S t) [.inline (typeRefSel (typeRefLevels - 1))]),
              ("defaultValue", Spec.optStr dflt)] := by
  rfl

theorem decInVal_proj (S : Schema) (name desc : String) (t : TypeRef) (dflt : Option String)
    (h : (S.type? t.name).isSome = true) :
    decInVal (projV (introspect S) [] (inputValue S name desc t dflt) [.inline inputValueSel]) = .ok (inValA S name desc t dflt) := by
  rw [projV_inline, inputValue_proj]
  simp [decInVal, asStruct, fld, J.get?, J.lookup, Gen.Remote.keyInputName, Gen.Remote.keyInputDescription,
    Gen.Remote.keyInputDefault, Gen.Remote.keyInputType, decStr, decTRefVal_trVal S t h, inValA]
  rfl

/-! ### fields, enum values -/

def fieldSel : List ISel :=
  [leaf "name", leaf "description", comp "args" [.inline inputValueSel],
   comp "type" [.inline (typeRefSel (typeRefLevels - 1))], leaf "isDeprecated", leaf "deprecationReason"]

def enumSel : List ISel := [leaf "name", leaf "description", leaf "isDeprecated", leaf "deprecationReason"]

theorem inputValue_obj (S : Schema) (name desc : String) (t : TypeRef) (dflt : Option String) :
    ∃ kvs, inputValue S name desc t dflt = .obj kvs := ⟨_, rfl⟩

theorem field_proj (S : Schema) (f : FieldDef) :
    projV (introspect S) [] (fieldJ S f) fieldSel
      = .obj [("name", .str f.name), ("description", .str f.desc),
              ("args", projV (introspect S) [] (.arr (f.args.map (argJ S))) [.inline inputValueSel]),
              ("type", projV (introspect S) [] (typeRef S f.type) [.inline (typeRefSel (typeRefLevels - 1))]),
              ("isDeprecated", .bool (deprecation f.directives).isSome),
              ("deprecationReason", Spec.optStr (deprecation f.directives))] := rfl

theorem decArgs_proj (S : Schema) (as : List ArgDef) (h : ∀ a ∈ as, (S.type? a.type.name).isSome = true) :
    decList decInVal (some (projV (introspect S) [] (.arr (as.map (argJ S))) [.inline inputValueSel])) = .ok (as.map (argA S)) := by
  rw [projV_arr_map' _ _ _ _ _ (fun a _ => inputValue_obj S a.name a.desc a.type a.default)]
  exact decList_arr_map decInVal as _ (argA S) (fun a ha => decInVal_proj S a.name a.desc a.type a.default (h a ha))

theorem optStr_decStr (o : Option String) : decStr (some (Spec.optStr o)) = .ok (o.getD "") := by
  cases o <;> rfl

theorem decField_proj (S : Schema) (f : FieldDef) (ht : (S.type? f.type.name).isSome = true)
    (ha : ∀ a ∈ f.args, (S.type? a.type.name).isSome = true) :
    decField (projV (introspect S) [] (fieldJ S f) fieldSel) = .ok (fieldA S f) := by
  rw [field_proj]
  simp [decField, asStruct, fld, J.get?, J.lookup, Gen.Remote.keyFieldName, Gen.Remote.keyFieldDescription,
    Gen.Remote.keyFieldArgs, Gen.Remote.keyFieldType, Gen.Remote.keyFieldIsDeprecated, Gen.Remote.keyFieldDeprecationReason,
    decStr, decBool, decArgs_proj S f.args ha, decTRefVal_trVal S f.type ht, fieldA]
  cases deprecation f.directives <;> rfl

theorem enum_proj (doc : J) (e : EnumVal) :
    projV doc [] (enumJ e) enumSel
      = .obj [("name", .str e.name), ("description", .str e.desc), ("isDeprecated", .bool (deprecation e.directives).isSome),
              ("deprecationReason", Spec.optStr (deprecation e.directives))] := rfl

theorem decEnum_proj (doc : J) (e : EnumVal) : decEnum (projV doc [] (enumJ e) enumSel) = .ok (enumA e) := by
  rw [enum_proj]
  simp [decEnum, asStruct, fld, J.get?, J.lookup, Gen.Remote.keyEnumName, Gen.Remote.keyEnumDescription,
    Gen.Remote.keyEnumIsDeprecated, Gen.Remote.keyEnumDeprecationReason, decStr, decBool, enumA]
  cases deprecation e.directives <;> rfl

/-! ### types -/

theorem type_proj (S : Schema) (td : TypeDef) :
    projV (introspect S) [] (fullType S td) fullTypeSel
      = .obj [("kind", .str td.kind.toString), ("name", .str td.name), ("description", .str td.desc),
              ("fields", projV (introspect S) [] (onKinds td.kind [.object, .interface]
                  (.arr ((td.fields.filter (fun f => !isBuiltinNameI f.name)).map (fieldJ S)))) fieldSel),
              ("inputFields", projV (introspect S) [] (onKinds td.kind [.inputObject] (.arr (td.fields.map (inputFieldJ S))))
                  [.inline inputValueSel]),
              ("interfaces", projV (introspect S) [] (onKinds td.kind [.object, .interface] (.arr (td.interfaces.map (namedRef S))))
                  [.inline (typeRefSel (typeRefLevels - 1))]),
              ("enumValues", projV (introspect S) [] (onKinds td.kind [.enum] (.arr (td.enumValues.map enumJ))) enumSel),
              ("possibleTypes", projV (introspect S) [] (onKinds td.kind [.interface, .union]
                  (.arr (((S.possibleOf td.name).filter (Spec.isObjectType S)).map (namedRef S))))
                  [.inline (typeRefSel (typeRefLevels - 1))])] := rfl

theorem namedRef_obj {S : Schema} {i : String} (h : (S.type? i).isSome = true) : ∃ kvs, namedRef S i = .obj kvs := by
  obtain ⟨td, htd⟩ := Option.isSome_iff_exists.mp h
  exact ⟨[tn "__Type", ("kind", .str td.kind.toString), ("name", .str i), ("ofType", .null)], by simp [namedRef, htd]⟩

theorem decTRefElem_named (S : Schema) (i : String) (h : (S.type? i).isSome = true) :
    decTRefElem (projV (introspect S) [] (namedRef S i) [.inline (typeRefSel (typeRefLevels - 1))]) = .ok (refTR S i) := by
  have := decTRefVal_trVal S (.named i) (by simpa [TypeRef.name] using h)
  simp only [typeRef] at this
  rw [decTRefElem, this]
  rfl

theorem isObjectType_found {S : Schema} {p : String} (h : Spec.isObjectType S p = true) : (S.type? p).isSome = true := by
  unfold Spec.isObjectType at h
  cases hty : S.type? p <;> simp_all

structure RefsOK (S : Schema) (td : TypeDef) : Prop where
  fields : ∀ f ∈ td.fields, (S.type? f.type.name).isSome = true ∧ ∀ a ∈ f.args, (S.type? a.type.name).isSome = true
  ifaces : ∀ i ∈ td.interfaces, (S.type? i).isSome = true

theorem refsOK_of {S : Schema} {td : TypeDef} (h : refsOK S td = true) : RefsOK S td := by
  simp only [refsOK, found, Bool.and_eq_true, List.all_eq_true] at h
  exact ⟨fun f hf => ⟨(h.1 f hf).1, (h.1 f hf).2⟩, h.2⟩

theorem decType_proj (S : Schema) (td : TypeDef) (h : RefsOK S td) :
    decType (projV (introspect S) [] (fullType S td) [.inline fullTypeSel]) = .ok (typeA S td) := by
  rw [projV_inline, type_proj]
  have h1 := decList_onKinds (introspect S) decField td.kind [.object, .interface]
    (td.fields.filter (fun f => !isBuiltinNameI f.name)) (fieldJ S) (fieldA S) fieldSel (fun _ _ => ⟨_, rfl⟩)
    (fun f hf => decField_proj S f (h.fields f (List.mem_filter.mp hf).1).1 (h.fields f (List.mem_filter.mp hf).1).2)
  have h2 := decList_onKinds (introspect S) decInVal td.kind [.inputObject] td.fields (inputFieldJ S)
    (fun f => inValA S f.name f.desc f.type f.default) [.inline inputValueSel] (fun _ _ => ⟨_, rfl⟩)
    (fun f hf => decInVal_proj S f.name f.desc f.type f.default (h.fields f hf).1)
  have h3 := decList_onKinds (introspect S) decTRefElem td.kind [.object, .interface] td.interfaces (namedRef S) (refTR S)
    [.inline (typeRefSel (typeRefLevels - 1))] (fun i hi => namedRef_obj (h.ifaces i hi))
    (fun i hi => decTRefElem_named S i (h.ifaces i hi))
  have h4 := decList_onKinds (introspect S) decEnum td.kind [.enum] td.enumValues enumJ enumA enumSel (fun _ _ => ⟨_, rfl⟩)
    (fun e _ => decEnum_proj (introspect S) e)
  have h5 := decList_onKinds (introspect S) decTRefElem td.kind [.interface, .union]
    ((S.possibleOf td.name).filter (Spec.isObjectType S)) (namedRef S) (refTR S)
    [.inline (typeRefSel (typeRefLevels - 1))] (fun p hp => namedRef_obj (isObjectType_found (List.mem_filter.mp hp).2))
    (fun p hp => decTRefElem_named S p (isObjectType_found (List.mem_filter.mp hp).2))
  simp [decType, asStruct, fld, J.get?, J.lookup, Gen.Remote.keyTypeKind, Gen.Remote.keyTypeName, Gen.Remote.keyTypeDescription,
    Gen.Remote.keyTypeInputFields, Gen.Remote.keyTypeInterfaces, Gen.Remote.keyTypePossibleTypes, Gen.Remote.keyTypeFields,
    Gen.Remote.keyTypeEnumValues, decStr, h1, h2, h3, h4, h5, typeA, possibleObjects]
  rfl

/-! ### directives -/

def dirSel : List ISel := [leaf "name", leaf "description", leaf "locations", comp "args" [.inline inputValueSel]]

theorem dir_proj (S : Schema) (d : DirDef) :
    projV (introspect S) [] (directiveJ S d) dirSel
      = .obj [("name", .str d.name), ("description", .str d.desc), ("locations", .arr (d.locations.map .str)),
              ("args", projV (introspect S) [] (.arr (d.args.map (argJ S))) [.inline inputValueSel])] := rfl

theorem decLocations (ls : List String) : decList decStrElem (some (.arr (ls.map J.str))) = .ok ls := by
  have := decList_arr_map decStrElem ls J.str id (fun _ _ => rfl)
  simpa using this

theorem decDir_proj (S : Schema) (d : DirDef) (ha : ∀ a ∈ d.args, (S.type? a.type.name).isSome = true) :
    decDir (projV (introspect S) [] (directiveJ S d) dirSel) = .ok (dirA S d) := by
  rw [dir_proj]
  simp [decDir, asStruct, fld, J.get?, J.lookup, Gen.Remote.keyDirName, Gen.Remote.keyDirDescription, Gen.Remote.keyDirLocations,
    Gen.Remote.keyDirArgs, decStr, decLocations, decArgs_proj S d.args ha, dirA]
  rfl

/-! ### the whole answer -/

def schemaSel : List ISel :=
  [comp "queryType" [leaf "name"], comp "mutationType" [leaf "name"], comp "subscriptionType" [leaf "name"],
   comp "types" [.inline fullTypeSel], comp "directives" dirSel]

theorem standardAnswer_eq (S : Schema) :
    standardAnswer S = .obj [("__schema", .obj [
      ("queryType", projV (introspect S) [] (rootRef S S.query) [leaf "name"]),
      ("mutationType", projV (introspect S) [] (rootRef S S.mutation) [leaf "name"]),
      ("subscriptionType", projV (introspect S) [] (rootRef S S.subscription) [leaf "name"]),
      ("types", projV (introspect S) [] (.arr (S.types.map (fullType S))) [.inline fullTypeSel]),
      ("directives", projV (introspect S) [] (.arr (S.directives.map (directiveJ S))) dirSel)])] := rfl

theorem root_dec (S : Schema) (r : Option String) (h : ∀ n, r = some n → (S.type? n).isSome = true) :
    decRootPtr (some (projV (introspect S) [] (rootRef S r) [leaf "name"])) = .ok r := by
  cases r with
  | none => rfl
  | some n =>
    obtain ⟨td, htd⟩ := Option.isSome_iff_exists.mp (h n rfl)
    have : rootRef S (some n) = .obj [tn "__Type", ("kind", .str td.kind.toString), ("name", .str n), ("ofType", .null)] := by
      simp [rootRef, namedRef, htd]
    rw [this]
    rfl

structure DecodeOK (S : Schema) : Prop where
  types : ∀ td ∈ S.types, RefsOK S td
  dirs : ∀ d ∈ S.directives, ∀ a ∈ d.args, (S.type? a.type.name).isSome = true
  query : ∀ n, S.query = some n → (S.type? n).isSome = true
  mutation : ∀ n, S.mutation = some n → (S.type? n).isSome = true
  subscription : ∀ n, S.subscription = some n → (S.type? n).isSome = true

theorem decode_standardAnswer (S : Schema) (h : DecodeOK S) : decode (standardAnswer S) = .ok (some (answerA S)) := by
  rw [standardAnswer_eq]
  have ht : decList decType (some (projV (introspect S) [] (.arr (S.types.map (fullType S))) [.inline fullTypeSel]))
      = .ok (S.types.map (typeA S)) := by
    rw [projV_arr_map' (introspect S) [] S.types (fullType S) [.inline fullTypeSel] (fun td _ => ⟨_, rfl⟩)]
    exact decList_arr_map decType S.types _ (typeA S) (fun td hm => decType_proj S td (h.types td hm))
  have hd : decList decDir (some (projV (introspect S) [] (.arr (S.directives.map (directiveJ S))) dirSel))
      = .ok (S.directives.map (dirA S)) := by
    rw [projV_arr_map' (introspect S) [] S.directives (directiveJ S) dirSel (fun d _ => ⟨_, rfl⟩)]
    exact decList_arr_map decDir S.directives _ (dirA S) (fun d hm => decDir_proj S d (h.dirs d hm))
  simp [decode, J.lookup, fld, J.get?, Gen.Remote.keySchema, Gen.Remote.keySchemaQueryType, Gen.Remote.keySchemaMutationType,
    Gen.Remote.keySchemaSubscriptionType, Gen.Remote.keySchemaTypes, Gen.Remote.keySchemaDirectives, decRootVal,
    root_dec S S.query h.query, root_dec S S.mutation h.mutation, root_dec S S.subscription h.subscription, ht, hd, answerA]
  rfl

/-! ### from the decidable feature predicate -/

theorem decodeOK_of {S : Schema} (h : supportedC15 S = true) : DecodeOK S := by
  have hF := full15_of h
  simp only [supportedC15, Bool.and_eq_true, decide_eq_true_eq, List.all_eq_true] at h
  obtain ⟨⟨⟨⟨⟨⟨⟨⟨⟨⟨_, _⟩, htok⟩, hdok⟩, _⟩, _⟩, _⟩, _⟩, _⟩, _⟩, _⟩ := h
  have found_of_user : ∀ n, isUserType S n = true → (S.type? n).isSome = true := by
    intro n hn
    unfold isUserType at hn
    cases hty : S.type? n <;> simp_all
  refine ⟨?_, ?_, ?_, ?_, ?_⟩
  · intro td hm
    have := htok td hm
    unfold typeOK at this
    simp only [Bool.and_eq_true] at this
    exact refsOK_of this.1
  · intro d hm a ha
    have := hdok d hm
    unfold directiveOK at this
    simp only [Bool.and_eq_true, List.all_eq_true, found] at this
    exact this.1 a ha
  · intro n hn
    obtain ⟨q, hq, hqu⟩ := hF.query
    rw [hq] at hn; cases hn
    exact found_of_user _ hqu
  · intro n hn
    exact found_of_user _ (hF.mutation n hn).1
  · intro n hn
    exact found_of_user _ (hF.subscription n hn).1


/-! ### ok-or-panic -/

theorem mapM_ok_or_panic {α β γ : Type} (f : β → Except Err γ) (g : α → β) (h : α → γ) :
    (xs : List α) → (∀ x ∈ xs, f (g x) = .ok (h x) ∨ f (g x) = .error noOfTypeErr) →
      (xs.map g).mapM f = .ok (xs.map h) ∨ (xs.map g).mapM f = .error noOfTypeErr
  | [], _ => Or.inl rfl
  | x :: xs, hx => by
    simp only [List.map_cons, List.mapM_cons]
    rcases hx x (List.mem_cons_self) with h1 | h1 <;> rw [h1]
    · rcases mapM_ok_or_panic f g h xs (fun y hy => hx y (List.mem_cons_of_mem _ hy)) with h2 | h2 <;> rw [h2]
      · exact Or.inl rfl
      · exact Or.inr rfl
    · exact Or.inr rfl

/-- a reference that `ast.Type` can express and that names a type of the schema, of any depth -/
def refAnyDepth (S : Schema) (t : TypeRef) : Prop := t.normal = true ∧ (S.type? t.name).isSome = true

theorem parse_trA_any {S : Schema} {t : TypeRef} (h : refAnyDepth S t) :
    parseTypeRef (trA S t) = .ok t ∨ parseTypeRef (trA S t) = .error noOfTypeErr := by
  by_cases hd : t.depth < typeRefLevels
  · exact Or.inl (parseTypeRef_trunc_ok _ (kindsOK S) t h.1 _ hd)
  · exact Or.inr (parseTypeRef_trunc_panic _ t h.1 _ (by omega))


/-! ### evaluation helpers for the witnesses -/

namespace C15Witness

/-- decidable form of "the reconstruction succeeds and is equivalent" -/
def faithful (S : Schema) : Bool :=
  match rebuild (standardAnswer S) with
  | .ok R =>
    decide ((normSchema R.schema).types = (normSchema S).types)
    && decide ((normSchema R.schema).directives = (normSchema S).directives)
    && decide (R.schema.query = S.query) && decide (R.schema.mutation = S.mutation)
    && decide (R.schema.subscription = S.subscription)
  | .error _ => false

theorem not_faithful {S : Schema} (h : faithful S = false) :
    ¬ ∃ R, rebuild (standardAnswer S) = .ok R ∧ normSchema R.schema = normSchema S := by
  rintro ⟨R, hR, hn⟩
  unfold faithful at h
  rw [hR] at h
  have h1 : (normSchema R.schema).types = (normSchema S).types := by rw [hn]
  have h2 : (normSchema R.schema).directives = (normSchema S).directives := by rw [hn]
  have h3 : R.schema.query = S.query := by have := congrArg Schema.query hn; exact this
  have h4 : R.schema.mutation = S.mutation := by have := congrArg Schema.mutation hn; exact this
  have h5 : R.schema.subscription = S.subscription := by have := congrArg Schema.subscription hn; exact this
  simp [h1, h2, h3, h4, h5] at h


def isPanic (r : Except Err Rebuilt) : Bool :=
  match r with
  | .error e => e == noOfTypeErr
  | _ => false
theorem eq_panic {r : Except Err Rebuilt} (h : isPanic r = true) : r = .error noOfTypeErr := by
  unfold isPanic at h
  split at h
  · rw [eq_of_beq h]
  · cases h

end C15Witness

end PebblesVerif
