import PebblesVerif.Model.Remote
import PebblesVerif.Spec.StandardAnswer
import PebblesVerif.Spec.RemoteSupported
/-!
Helper lemmas for C15 (1): `parseTypeRef` against the specification's encoding of a type
reference, with and without the cut the standard query makes after `typeRefLevels` levels.
-/
namespace PebblesVerif
open PebblesVerif.Model.Remote

/-- the specification's `{kind, name, ofType}` chain of a type reference, as the Go struct
    `IntrospectionTypeRef` holds it after decoding (`kindOf`: the kind of a named type) -/
def encTR (kindOf : String → String) : TypeRef → TRef
  | .named n => .mk (kindOf n) n .nil
  | .list t => .mk "LIST" "" (encTR kindOf t)
  | .nonNull t => .mk "NON_NULL" "" (encTR kindOf t)

/-- what is left of a chain when only the first `d` levels are asked for -/
def truncTR : Nat → TRef → TRef
  | 0, _ => .nil
  | _ + 1, .nil => .nil
  | d + 1, .mk k n o => .mk k n (truncTR d o)

/-- named kinds are not the wrapper kinds -/
def KindsOK (kindOf : String → String) : Prop := ∀ n, kindOf n ≠ "LIST" ∧ kindOf n ≠ "NON_NULL"

@[simp] theorem truncTR_nil (d : Nat) : truncTR d .nil = .nil := by cases d <;> rfl

theorem parseTypeRef_nil : parseTypeRef .nil = .error noOfTypeErr := rfl

theorem parseTypeRef_list (o : TRef) : parseTypeRef (.mk "LIST" "" o) = (parseTypeRef o).map .list := by
  cases o with
  | nil => rfl
  | mk k n o' =>
    rw [parseTypeRef.eq_3]
    simp only [show ("LIST" : String) ≠ "NON_NULL" by decide, if_false, if_true]
    cases parseTypeRef (.mk k n o') <;> rfl

theorem parseTypeRef_nonNull_list (o : TRef) :
    parseTypeRef (.mk "NON_NULL" "" (.mk "LIST" "" o)) = (parseTypeRef o).map (fun t => .nonNull (.list t)) := by
  rw [parseTypeRef.eq_3]
  simp only [if_true]
  cases parseTypeRef o <;> rfl

theorem parseTypeRef_nonNull_nil : parseTypeRef (.mk "NON_NULL" "" .nil) = .error noOfTypeErr := rfl

theorem parseTypeRef_nonNull_named {k n : String} (h : k ≠ "LIST") :
    parseTypeRef (.mk "NON_NULL" "" (.mk k n .nil)) = .ok (.nonNull (.named n)) := by
  rw [parseTypeRef.eq_3]; simp only [if_true, h, if_false]; rfl

theorem parseTypeRef_named {k n : String} (h1 : k ≠ "LIST") (h2 : k ≠ "NON_NULL") :
    parseTypeRef (.mk k n .nil) = .ok (.named n) := by
  rw [parseTypeRef.eq_2]; simp only [h1, h2, if_false]; rfl

/-- at most `d - 1` wrappers: the cut chain still parses back to the type -/
theorem parseTypeRef_trunc_ok (kindOf : String → String) (hk : KindsOK kindOf) :
    (t : TypeRef) → t.normal = true → (d : Nat) → t.depth < d → parseTypeRef (truncTR d (encTR kindOf t)) = .ok t
  | .named n, _, d + 1, _ => by
    simp only [truncTR, encTR, truncTR_nil]; exact parseTypeRef_named (hk n).1 (hk n).2
  | .list t, hn, d + 1, hd => by
    simp only [truncTR, encTR, parseTypeRef_list]
    rw [parseTypeRef_trunc_ok kindOf hk t (by simpa [TypeRef.normal] using hn) d (by simp [TypeRef.depth] at hd; omega)]; rfl
  | .nonNull (.named n), _, d + 2, _ => by
    simp only [truncTR, encTR, truncTR_nil]; exact parseTypeRef_nonNull_named (hk n).1
  | .nonNull (.list t), hn, d + 2, hd => by
    simp only [truncTR, encTR, parseTypeRef_nonNull_list]
    rw [parseTypeRef_trunc_ok kindOf hk t (by simpa [TypeRef.normal] using hn) d (by simp [TypeRef.depth] at hd; omega)]; rfl
  | .nonNull (.nonNull t), hn, _, _ => by simp [TypeRef.normal] at hn
  | .named _, _, 0, hd | .list _, _, 0, hd | .nonNull (.named _), _, 0, hd | .nonNull (.list _), _, 0, hd => by omega
  | .nonNull (.named _), _, 1, hd | .nonNull (.list _), _, 1, hd => by simp [TypeRef.depth] at hd

/-- `d` or more wrappers: the cut chain ends in a wrapper without `ofType`, which `parseTypeRef`
    dereferences -/
theorem parseTypeRef_trunc_panic (kindOf : String → String) :
    (t : TypeRef) → t.normal = true → (d : Nat) → d ≤ t.depth → parseTypeRef (truncTR d (encTR kindOf t)) = .error noOfTypeErr
  | _, _, 0, _ => by simp only [truncTR]; rfl
  | .named n, _, d + 1, hd => by simp [TypeRef.depth] at hd
  | .list t, hn, d + 1, hd => by
    simp only [truncTR, encTR, parseTypeRef_list]
    rw [parseTypeRef_trunc_panic kindOf t (by simpa [TypeRef.normal] using hn) d (by simp [TypeRef.depth] at hd; omega)]; rfl
  | .nonNull (.named n), _, 1, _ => by simp only [truncTR, encTR]; rfl
  | .nonNull (.named n), _, d + 2, hd => by simp [TypeRef.depth] at hd
  | .nonNull (.list t), hn, 1, _ => by simp only [truncTR, encTR]; rfl
  | .nonNull (.list t), hn, d + 2, hd => by
    simp only [truncTR, encTR, parseTypeRef_nonNull_list]
    rw [parseTypeRef_trunc_panic kindOf t (by simpa [TypeRef.normal] using hn) d (by simp [TypeRef.depth] at hd; omega)]; rfl
  | .nonNull (.nonNull t), hn, _ + 1, _ => by simp [TypeRef.normal] at hn

/-- the untruncated chain parses back to the type, at any depth -/
theorem parseTypeRef_enc (kindOf : String → String) (hk : KindsOK kindOf) :
    (t : TypeRef) → t.normal = true → parseTypeRef (encTR kindOf t) = .ok t
  | .named n, _ => by simp only [encTR]; exact parseTypeRef_named (hk n).1 (hk n).2
  | .list t, hn => by
    simp only [encTR, parseTypeRef_list]
    rw [parseTypeRef_enc kindOf hk t (by simpa [TypeRef.normal] using hn)]; rfl
  | .nonNull (.named n), _ => by simp only [encTR]; exact parseTypeRef_nonNull_named (hk n).1
  | .nonNull (.list t), hn => by
    simp only [encTR, parseTypeRef_nonNull_list]
    rw [parseTypeRef_enc kindOf hk t (by simpa [TypeRef.normal] using hn)]; rfl
  | .nonNull (.nonNull t), hn => by simp [TypeRef.normal] at hn

end PebblesVerif
