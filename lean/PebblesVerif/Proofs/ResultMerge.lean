import PebblesVerif.Model.ResultMerge
/-! `leaves (merge l r) ⊆ leaves l ∪ leaves r` for the executor's merge functions, by mutual
structural induction mirroring the mutual definitions. -/
set_option linter.unusedSimpArgs false
namespace PebblesVerif.ResultMerge
open PebblesVerif

theorem leavesL_append (a b : List J) : leavesL (a ++ b) = leavesL a ++ leavesL b := by
  induction a with
  | nil => simp [leavesL]
  | cons x xs ih => simp [leavesL, ih, List.append_assoc]

theorem leaves_of_lookup {k : String} {v : J} : ∀ {kvs : List (String × J)},
    J.lookup k kvs = some v → ∀ x ∈ leaves v, x ∈ leavesO kvs
  | [], h, _, _ => by simp [J.lookup] at h
  | (k', v') :: rest, h, x, hx => by
    simp only [J.lookup] at h
    simp only [leavesO, List.mem_append]
    split at h
    · cases h; exact Or.inl hx
    · exact Or.inr (leaves_of_lookup h x hx)

theorem leavesO_setKey (k : String) (v : J) : ∀ (kvs : List (String × J)),
    ∀ x ∈ leavesO (J.setKey k v kvs), x ∈ leavesO kvs ∨ x ∈ leaves v
  | [], x, hx => by simpa [J.setKey, leavesO] using hx
  | (k', v') :: rest, x, hx => by
    simp only [J.setKey] at hx
    split at hx
    · simp only [leavesO, List.mem_append] at hx ⊢
      rcases hx with hx | hx
      · exact Or.inr hx
      · exact Or.inl (Or.inr hx)
    · simp only [leavesO, List.mem_append] at hx ⊢
      rcases hx with hx | hx
      · exact Or.inl (Or.inl hx)
      · rcases leavesO_setKey k v rest x hx with h | h
        · exact Or.inl (Or.inr h)
        · exact Or.inr h

theorem leaves_of_getElem? {v : J} : ∀ {xs : List J} {i : Nat}, xs[i]? = some v → ∀ x ∈ leaves v, x ∈ leavesL xs
  | [], i, h, _, _ => by simp at h
  | a :: as, 0, h, x, hx => by
    simp at h; subst h
    simp only [leavesL, List.mem_append]; exact Or.inl hx
  | a :: as, i + 1, h, x, hx => by
    simp at h
    simp only [leavesL, List.mem_append]; exact Or.inr (leaves_of_getElem? h x hx)

theorem leavesL_set (v : J) : ∀ (xs : List J) (i : Nat), ∀ x ∈ leavesL (xs.set i v), x ∈ leavesL xs ∨ x ∈ leaves v
  | [], _, x, hx => by simp [leavesL] at hx
  | a :: as, 0, x, hx => by
    simp only [List.set_cons_zero, leavesL, List.mem_append] at hx ⊢
    rcases hx with hx | hx
    · exact Or.inr hx
    · exact Or.inl (Or.inr hx)
  | a :: as, i + 1, x, hx => by
    simp only [List.set_cons_succ, leavesL, List.mem_append] at hx ⊢
    rcases hx with hx | hx
    · exact Or.inl (Or.inl hx)
    · rcases leavesL_set v as i x hx with h | h
      · exact Or.inl (Or.inr h)
      · exact Or.inr h

theorem leavesOpt_getElem? {xs : List J} {i : Nat} : ∀ x ∈ leavesOpt xs[i]?, x ∈ leavesL xs := by
  intro x hx
  cases h : xs[i]? with
  | none => simp [h, leavesOpt] at hx
  | some v => rw [h] at hx; exact leaves_of_getElem? h x hx

theorem leavesOpt_lookup {k : String} {kvs : List (String × J)} : ∀ x ∈ leavesOpt (J.lookup k kvs), x ∈ leavesO kvs := by
  intro x hx
  cases h : J.lookup k kvs with
  | none => simp [h, leavesOpt] at hx
  | some v => rw [h] at hx; exact leaves_of_lookup h x hx

mutual
  theorem mergeVal_leaves (safe : Bool) : ∀ (r : J) (l : Option J) (m : J), mergeVal safe l r = .ok m →
      ∀ x ∈ leaves m, x ∈ leavesOpt l ∨ x ∈ leaves r
    | .obj rkvs, l, m, h, x, hx => by
      unfold mergeVal at h
      split at h
      · rename_i lkvs
        split at h
        · cases h
        · rename_i m' hm
          cases h
          simp only [leaves, leavesOpt] at hx ⊢
          exact mergeObj_leaves safe rkvs lkvs m' hm x hx
      · cases h; exact Or.inr hx
    | .arr rs, l, m, h, x, hx => by
      unfold mergeVal at h
      split at h
      · rename_i ls
        split at h
        · cases h
        · rename_i m' hm
          cases h
          simp only [leaves, leavesOpt] at hx ⊢
          exact mergeArr_leaves safe rs ls 0 m' hm x hx
      · cases h; exact Or.inr hx
    | .null, l, m, h, x, hx => by simp [mergeVal] at h; subst h; exact Or.inr hx
    | .bool b, l, m, h, x, hx => by simp [mergeVal] at h; subst h; exact Or.inr hx
    | .num n, l, m, h, x, hx => by simp [mergeVal] at h; subst h; exact Or.inr hx
    | .str s, l, m, h, x, hx => by simp [mergeVal] at h; subst h; exact Or.inr hx
  theorem mergeObj_leaves (safe : Bool) : ∀ (right left m : List (String × J)), mergeObj safe left right = .ok m →
      ∀ x ∈ leavesO m, x ∈ leavesO left ∨ x ∈ leavesO right
    | [], left, m, h, x, hx => by simp [mergeObj] at h; subst h; exact Or.inl hx
    | (k, rv) :: rest, left, m, h, x, hx => by
      unfold mergeObj at h
      split at h
      · cases h
      · rename_i v hv
        simp only [leavesO, List.mem_append]
        rcases mergeObj_leaves safe rest _ m h x hx with h1 | h1
        · rcases leavesO_setKey k v left x h1 with h2 | h2
          · exact Or.inl h2
          · rcases mergeVal_leaves safe rv _ v hv x h2 with h3 | h3
            · exact Or.inl (leavesOpt_lookup x h3)
            · exact Or.inr (Or.inl h3)
        · exact Or.inr (Or.inr h1)
  theorem mergeArr_leaves (safe : Bool) : ∀ (right left : List J) (i : Nat) (m : List J), mergeArr safe left i right = .ok m →
      ∀ x ∈ leavesL m, x ∈ leavesL left ∨ x ∈ leavesL right
    | [], left, i, m, h, x, hx => by simp [mergeArr] at h; subst h; exact Or.inl hx
    | rv :: rest, left, i, m, h, x, hx => by
      unfold mergeArr at h
      simp only [leavesL, List.mem_append]
      have app : ∀ m, mergeArr safe (left ++ [rv]) (i + 1) rest = .ok m → ∀ x ∈ leavesL m,
          x ∈ leavesL left ∨ x ∈ leaves rv ∨ x ∈ leavesL rest := by
        intro m h x hx
        rcases mergeArr_leaves safe rest _ _ m h x hx with h1 | h1
        · rw [leavesL_append] at h1
          rcases List.mem_append.mp h1 with h2 | h2
          · exact Or.inl h2
          · simp [leavesL] at h2; exact Or.inr (Or.inl h2)
        · exact Or.inr (Or.inr h1)
      split at h
      · split at h
        · cases h
        · rename_i pos _
          split at h
          · cases h
          · rename_i v hv
            rcases mergeArr_leaves safe rest _ _ m h x hx with h1 | h1
            · rcases leavesL_set v left pos x h1 with h2 | h2
              · exact Or.inl h2
              · rcases mergeVal_leaves safe rv _ v hv x h2 with h3 | h3
                · exact Or.inl (leavesOpt_getElem? x h3)
                · exact Or.inr (Or.inl h3)
            · exact Or.inr (Or.inr h1)
        · split at h
          · split at h
            · cases h
            · rename_i v hv
              rcases mergeArr_leaves safe rest _ _ m h x hx with h1 | h1
              · rcases leavesL_set v left i x h1 with h2 | h2
                · exact Or.inl h2
                · rcases mergeVal_leaves safe rv _ v hv x h2 with h3 | h3
                  · exact Or.inl (leavesOpt_getElem? x h3)
                  · exact Or.inr (Or.inl h3)
              · exact Or.inr (Or.inr h1)
          · exact app m h x hx
      · exact app m h x hx
end

theorem topVal_leaves (safe : Bool) (l : Option J) (v m : J) (h : topVal safe l v = .ok m) :
    ∀ x ∈ leaves m, x ∈ leavesOpt l ∨ x ∈ leaves v := by
  intro x hx
  unfold topVal at h
  split at h
  · rename_i rkvs lkvs
    split at h
    · cases h
    · rename_i m' hm
      cases h
      simp only [leaves, leavesOpt] at hx ⊢
      exact mergeObj_leaves safe rkvs lkvs m' hm x hx
  · cases h; exact Or.inr hx

theorem mergeTop_leaves (safe : Bool) : ∀ (r target m : List (String × J)), mergeTop safe target r = .ok m →
    ∀ x ∈ leavesO m, x ∈ leavesO target ∨ x ∈ leavesO r
  | [], target, m, h, x, hx => by simp [mergeTop] at h; subst h; exact Or.inl hx
  | (k, v) :: rest, target, m, h, x, hx => by
    unfold mergeTop at h
    split at h
    · cases h
    · rename_i v' hv
      simp only [leavesO, List.mem_append]
      rcases mergeTop_leaves safe rest _ m h x hx with h1 | h1
      · rcases leavesO_setKey k v' target x h1 with h2 | h2
        · exact Or.inl h2
        · rcases topVal_leaves safe _ v v' hv x h2 with h3 | h3
          · exact Or.inl (leavesOpt_lookup x h3)
          · exact Or.inr (Or.inl h3)
      · exact Or.inr (Or.inr h1)

theorem mergeAll_leaves (safe : Bool) : ∀ (rs : List (List (String × J))) (target m : List (String × J)),
    mergeAll safe target rs = .ok m → ∀ x ∈ leavesO m, x ∈ leavesO target ∨ ∃ r ∈ rs, x ∈ leavesO r
  | [], target, m, h, x, hx => by simp [mergeAll] at h; subst h; exact Or.inl hx
  | r :: rs, target, m, h, x, hx => by
    unfold mergeAll at h
    split at h
    · cases h
    · rename_i t ht
      rcases mergeAll_leaves safe rs t m h x hx with h1 | ⟨r', hr', h1⟩
      · rcases mergeTop_leaves safe r target t ht x h1 with h2 | h2
        · exact Or.inl h2
        · exact Or.inr ⟨r, List.mem_cons_self, h2⟩
      · exact Or.inr ⟨r', List.mem_cons_of_mem _ hr', h1⟩


/-! ### with `reflect.DeepEqual` the merge never panics -/

theorem goEq_safe (a b : J) : ∃ r, goEq true a b = .ok r := by
  cases a <;> cases b <;> simp [goEq]

theorem leftPos_safe (id : J) : ∀ (l : List J) (i : Nat), ∃ r, leftPos true id l i = .ok r
  | [], i => ⟨none, rfl⟩
  | x :: rest, i => by
    cases x with
    | obj kvs =>
      simp only [leftPos]
      split
      · rename_i lid _
        obtain ⟨r, hr⟩ := goEq_safe lid id
        rw [hr]
        cases r
        · exact leftPos_safe id rest (i + 1)
        · exact ⟨_, rfl⟩
      · exact leftPos_safe id rest (i + 1)
    | null => simpa [leftPos] using leftPos_safe id rest (i + 1)
    | bool b => simpa [leftPos] using leftPos_safe id rest (i + 1)
    | num n => simpa [leftPos] using leftPos_safe id rest (i + 1)
    | str s => simpa [leftPos] using leftPos_safe id rest (i + 1)
    | arr xs => simpa [leftPos] using leftPos_safe id rest (i + 1)

mutual
  theorem mergeVal_safe : ∀ (r : J) (l : Option J), ∃ m, mergeVal true l r = .ok m
    | .obj rkvs, l => by
      unfold mergeVal
      split
      · rename_i lkvs
        obtain ⟨m, hm⟩ := mergeObj_safe rkvs lkvs
        rw [hm]; exact ⟨_, rfl⟩
      · exact ⟨_, rfl⟩
    | .arr rs, l => by
      unfold mergeVal
      split
      · rename_i ls
        obtain ⟨m, hm⟩ := mergeArr_safe rs ls 0
        rw [hm]; exact ⟨_, rfl⟩
      · exact ⟨_, rfl⟩
    | .null, l => ⟨.null, by simp [mergeVal]⟩
    | .bool b, l => ⟨.bool b, by simp [mergeVal]⟩
    | .num n, l => ⟨.num n, by simp [mergeVal]⟩
    | .str s, l => ⟨.str s, by simp [mergeVal]⟩
  theorem mergeObj_safe : ∀ (right left : List (String × J)), ∃ m, mergeObj true left right = .ok m
    | [], left => ⟨left, by simp [mergeObj]⟩
    | (k, rv) :: rest, left => by
      unfold mergeObj
      obtain ⟨v, hv⟩ := mergeVal_safe rv (J.lookup k left)
      rw [hv]
      exact mergeObj_safe rest _
  theorem mergeArr_safe : ∀ (right left : List J) (i : Nat), ∃ m, mergeArr true left i right = .ok m
    | [], left, i => ⟨left, by simp [mergeArr]⟩
    | rv :: rest, left, i => by
      unfold mergeArr
      split
      · have hpos : ∃ r, posOf true rv left = .ok r := by
          unfold posOf
          split
          · exact leftPos_safe _ _ _
          · exact ⟨_, rfl⟩
        obtain ⟨r, hr⟩ := hpos
        rw [hr]
        cases r with
        | some pos =>
          simp only
          obtain ⟨v, hv⟩ := mergeVal_safe rv left[pos]?
          rw [hv]
          exact mergeArr_safe rest _ _
        | none =>
          simp only
          split
          · obtain ⟨v, hv⟩ := mergeVal_safe rv left[i]?
            rw [hv]
            exact mergeArr_safe rest _ _
          · exact mergeArr_safe rest _ _
      · exact mergeArr_safe rest _ _
end

theorem topVal_safe (l : Option J) (v : J) : ∃ m, topVal true l v = .ok m := by
  unfold topVal
  split
  · rename_i rkvs lkvs
    obtain ⟨m, hm⟩ := mergeObj_safe rkvs lkvs
    rw [hm]; exact ⟨_, rfl⟩
  · exact ⟨_, rfl⟩

theorem mergeTop_safe : ∀ (r target : List (String × J)), ∃ m, mergeTop true target r = .ok m
  | [], target => ⟨target, by simp [mergeTop]⟩
  | (k, v) :: rest, target => by
    unfold mergeTop
    obtain ⟨v', hv⟩ := topVal_safe (J.lookup k target) v
    rw [hv]
    exact mergeTop_safe rest _

theorem mergeAll_safe : ∀ (rs : List (List (String × J))) (target : List (String × J)), ∃ m, mergeAll true target rs = .ok m
  | [], target => ⟨target, by simp [mergeAll]⟩
  | r :: rs, target => by
    unfold mergeAll
    obtain ⟨t, ht⟩ := mergeTop_safe r target
    rw [ht]
    exact mergeAll_safe rs t

end PebblesVerif.ResultMerge
