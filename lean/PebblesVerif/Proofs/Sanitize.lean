import PebblesVerif.Model.Sanitize
/-! Structural lemmas about the sanitiser model. -/
namespace PebblesVerif

mutual
  /-- no fragment spread anywhere in the selection set -/
  def noSpread : List Sel → Bool
    | [] => true
    | s :: rest => noSpreadSel s && noSpread rest
  def noSpreadSel : Sel → Bool
    | .field _ _ _ _ _ _ sub => noSpread sub
    | .inline _ _ _ _ sub => noSpread sub
    | .spread .. => false
end

theorem noSpread_append {a b : List Sel} : noSpread (a ++ b) = (noSpread a && noSpread b) := by
  induction a with
  | nil => simp [noSpread]
  | cons x xs ih => simp [noSpread, ih, Bool.and_assoc]

theorem noSpread_filter {p : Sel → Bool} {l : List Sel} (h : noSpread l = true) : noSpread (l.filter p) = true := by
  induction l with
  | nil => simp [noSpread]
  | cons x xs ih =>
    simp only [noSpread, Bool.and_eq_true] at h
    simp only [List.filter_cons]
    split
    · simp [noSpread, h.1, ih h.2]
    · exact ih h.2

theorem noSpread_addToResult {s ss : List Sel} (h1 : noSpread s = true) (h2 : noSpread ss = true) :
    noSpread (addToResult s ss) = true := by
  unfold addToResult
  rw [noSpread_append, h1, noSpread_filter h2]; rfl

def isHelper (s : Sel) : Prop := s = idField ∨ s = typenameField

/-- the helper step only PREPENDS helper fields -/
theorem withTypename_shape (ss : List Sel) : ∃ pre, (withTypename ss).1 = pre ++ ss ∧ ∀ x ∈ pre, isHelper x := by
  unfold withTypename
  split
  · exact ⟨[], rfl, by simp⟩
  · exact ⟨[typenameField], rfl, by simp [isHelper]⟩

theorem withId_shape (p : List Sel × List String) : ∃ pre, (withId p).1 = pre ++ p.1 ∧ ∀ x ∈ pre, isHelper x := by
  unfold withId
  split
  · exact ⟨[], rfl, by simp⟩
  · exact ⟨[idField], rfl, by simp [isHelper]⟩

theorem addScrubFields_shape {c : PCtx} {ss : List Sel} {t : String} {res : List Sel} {added : List String}
    (h : addScrubFields c ss t = .ok (res, added)) : ∃ pre, res = pre ++ ss ∧ ∀ x ∈ pre, isHelper x := by
  unfold addScrubFields at h
  split at h
  · split at h
    · cases h
    · split at h
      · injection h with h
        have hr : res = (withId (withTypename ss)).1 := by rw [h]
        rw [hr]
        obtain ⟨p1, h1, hp1⟩ := withTypename_shape ss
        obtain ⟨p2, h2, hp2⟩ := withId_shape (withTypename ss)
        refine ⟨p2 ++ p1, by rw [h2, h1, List.append_assoc], ?_⟩
        intro x hx; simp only [List.mem_append] at hx
        rcases hx with hx | hx
        · exact hp2 x hx
        · exact hp1 x hx
      · injection h with h
        have hr : res = (withTypename ss).1 := by rw [h]
        rw [hr]; exact withTypename_shape ss
  · split at h
    · injection h with h
      have hr : res = (withId (ss, [])).1 := by rw [h]
      rw [hr]; exact withId_shape (ss, [])
    · injection h with h
      have hr : res = ss := by injection h with h1 _; exact h1.symm
      rw [hr]; exact ⟨[], rfl, by simp⟩

theorem noSpread_addScrubFields {c : PCtx} {ss : List Sel} {t : String} {res : List Sel} {added : List String}
    (h : addScrubFields c ss t = .ok (res, added)) (hs : noSpread ss = true) : noSpread res = true := by
  obtain ⟨pre, hres, hpre⟩ := addScrubFields_shape h
  subst hres
  rw [noSpread_append, hs, Bool.and_true]
  clear h
  induction pre with
  | nil => rfl
  | cons x xs ih =>
    simp only [noSpread, Bool.and_eq_true]
    refine ⟨?_, ih (fun y hy => hpre y (List.mem_cons_of_mem _ hy))⟩
    rcases hpre x (by simp) with h | h <;> subst h <;> rfl

theorem noSpread_interfaceFrag (c : PCtx) (child : List Sel) (cond pn : String) (dirs : List Dir)
    (h : noSpread child = true) : noSpread (sanitizeInterfaceFrag c child cond pn dirs) = true := by
  unfold sanitizeInterfaceFrag
  dsimp only
  split
  · simp [noSpread, noSpreadSel, h]
  · generalize c.schema.possibleOf pn = pts
    induction pts generalizing child with
    | nil => simpa using h
    | cons pt pts ih =>
      simp only [List.foldl_cons]
      apply ih
      apply noSpread_addToResult h
      simp [noSpread, noSpreadSel, h]

theorem noSpread_unionFrag (child : List Sel) (cond pn : String) (dirs : List Dir)
    (h : noSpread child = true) : noSpread (sanitizeUnionFrag child cond pn dirs) = true := by
  unfold sanitizeUnionFrag
  have hbody : ∀ (l acc : List Sel), noSpread l = true → noSpread acc = true →
      noSpread (l.foldl (fun acc sel =>
        match sel with
        | .inline c2 _ pn2 _ sub2 => if pn2 == pn && c2 == cond then addToResult acc sub2 else addToResult acc [sel]
        | _ => addToResult acc [sel]) acc) = true := by
    intro l
    induction l with
    | nil => intro acc _ ha; simpa using ha
    | cons x xs ih =>
      intro acc hl ha
      simp only [noSpread, Bool.and_eq_true] at hl
      simp only [List.foldl_cons]
      apply ih _ hl.2
      cases x with
      | field a n ar d t ad sub => exact noSpread_addToResult ha (by simp [noSpread, hl.1])
      | spread n c2 pk pn2 d sub => simp [noSpreadSel] at hl
      | inline c2 pk pn2 d sub2 =>
        simp only
        split
        · exact noSpread_addToResult ha (by simpa [noSpreadSel] using hl.1)
        · exact noSpread_addToResult ha (by simp [noSpread, hl.1])
  split
  · exact hbody child [] h rfl
  · simp only [noSpread, noSpreadSel, Bool.and_true]
    exact hbody child [] h rfl

theorem noSpread_finishFrag {c : PCtx} {ip : List String} {cond : String} {pk : Kind} {pn : String}
    {dirs : List Dir} {child : List Sel} {sf : Scrub} {res : List Sel} {sf' : Scrub}
    (h : finishFrag c ip cond pk pn dirs child sf = .ok (res, sf')) (hc : noSpread child = true) :
    noSpread res = true := by
  unfold finishFrag at h
  split at h
  · -- interface
    simp only [bind, Except.bind] at h
    split at h
    · cases h
    · rename_i v hv
      obtain ⟨child', added⟩ := v
      injection h with h
      have hr : res = sanitizeInterfaceFrag c child' cond pn dirs := by injection h with h1 _; exact h1.symm
      rw [hr]
      exact noSpread_interfaceFrag c child' cond pn dirs (noSpread_addScrubFields hv hc)
  · simp only [bind, Except.bind] at h
    split at h
    · cases h
    · rename_i v hv
      obtain ⟨child', added⟩ := v
      injection h with h
      have hr : res = sanitizeUnionFrag child' cond pn dirs := by injection h with h1 _; exact h1.symm
      rw [hr]
      exact noSpread_unionFrag child' cond pn dirs (noSpread_addScrubFields hv hc)
  · injection h with h
    have hr : res = child := by injection h with h1 _; exact h1.symm
    rw [hr]; exact hc

mutual
  theorem sanitizeSel_noSpread (c : PCtx) : ∀ (s : Sel) (ip : List String) (res : List Sel) (sf : Scrub),
      sanitizeSel c ip s = .ok (res, sf) → noSpread res = true
    | .field alias name args dirs type argDefs sub, ip, res, sf, h => by
      rw [sanitizeSel] at h
      split at h
      · injection h with h
        have hr : res = [.field alias name args dirs type argDefs []] := by injection h with h1 _; exact h1.symm
        rw [hr]; rfl
      · simp only [bind, Except.bind] at h
        split at h
        · cases h
        · rename_i v hv
          obtain ⟨child, sf0⟩ := v
          split at h
          · cases h
          · rename_i w hw
            obtain ⟨child', added⟩ := w
            injection h with h
            have hr : res = [.field alias name args dirs type argDefs child'] := by injection h with h1 _; exact h1.symm
            rw [hr]
            have hchild := sanitizeSelsAcc_noSpread c sub (ip ++ [alias]) [] [] child sf0 hv rfl
            simp [noSpread, noSpreadSel, noSpread_addScrubFields hw hchild]
    | .spread n cond pk pn dirs sub, ip, res, sf, h => by
      rw [sanitizeSel] at h
      simp only [bind, Except.bind] at h
      split at h
      · cases h
      · rename_i v hv
        obtain ⟨child, sf0⟩ := v
        exact noSpread_finishFrag h (sanitizeSelsAcc_noSpread c sub ip [] [] child sf0 hv rfl)
    | .inline cond pk pn dirs sub, ip, res, sf, h => by
      rw [sanitizeSel] at h
      simp only [bind, Except.bind] at h
      split at h
      · cases h
      · rename_i v hv
        obtain ⟨child, sf0⟩ := v
        exact noSpread_finishFrag h (sanitizeSelsAcc_noSpread c sub ip [] [] child sf0 hv rfl)
  theorem sanitizeSelsAcc_noSpread (c : PCtx) : ∀ (ss : List Sel) (ip : List String) (acc : List Sel) (sf : Scrub)
      (res : List Sel) (sf' : Scrub), sanitizeSelsAcc c ip ss acc sf = .ok (res, sf') → noSpread acc = true →
      noSpread res = true
    | [], ip, acc, sf, res, sf', h, ha => by
      rw [sanitizeSelsAcc] at h
      injection h with h
      have hr : res = acc := by injection h with h1 _; exact h1.symm
      rw [hr]; exact ha
    | s :: rest, ip, acc, sf, res, sf', h, ha => by
      rw [sanitizeSelsAcc] at h
      simp only [bind, Except.bind] at h
      split at h
      · cases h
      · rename_i v hv
        obtain ⟨ss1, sf1⟩ := v
        exact sanitizeSelsAcc_noSpread c rest ip _ _ res sf' h
          (noSpread_addToResult ha (sanitizeSel_noSpread c s ip ss1 sf1 hv))
end

/-- **The sanitiser expands every fragment spread**: its output contains no `FragmentSpread`
    (so the planner's "unexpected *ast.FragmentSpread" error is unreachable after sanitising). -/
theorem sanitize_noSpread (c : PCtx) (ip : List String) (ss res : List Sel) (sf : Scrub)
    (h : sanitizeSels c ip ss = .ok (res, sf)) : noSpread res = true :=
  sanitizeSelsAcc_noSpread c ss ip [] [] res sf h rfl

end PebblesVerif
