import PebblesVerif.Proofs.Flat6
import PebblesVerif.Model.SubEntry
/-!
The flat family at the `Subscription` root: `subscription { s { f₁ … fₙ } }`, `s : T` a root field
of the Node type `T` owned by service `A`, the distinct leaf fields owned by `A` or by `B` — the
shape of `Flat.Fam` with `opKind = .subscription` (C17 end to end, `Props/C17Flat.lean`).

This file: the family, sanitising, the plan (stages 1–2). Everything about the object type `T` and
its leaf fields is `Flat.FamT` and its lemmas (`Flat.sanitize_leaves`, `Flat.extract_leaves`,
`Flat.getURL_leaf`, `Flat.preExtract_T`), reused as they are; what mentions the root type is proved
again for `"Subscription"` (same proofs as `Proofs/Flat1.lean`, `Proofs/Flat2.lean`).
-/
namespace PebblesVerif.SubFlat
open PebblesVerif PebblesVerif.Exec PebblesVerif.Flat

/-- the hypotheses describing the family (what the merged schema and the routing table say) -/
structure Fam (c : PCtx) (A B T s : String) (fs : List FieldSpec) : Prop extends FamT c A B T s fs where
  hAint : A ≠ internalService
  hBint : B ≠ internalService
  hqb : isBuiltinName s = false
  hqn : s ≠ "node"
  hschemaS : ∃ td, c.schema.type? "Subscription" = some td ∧ td.kind = .object
  tumSn : c.tum.isNode? "Subscription" = some false
  tumSs : c.tum.get? "Subscription" s = some A
  hurlsA : A ∈ c.tum.urls
  hurlsNd : c.tum.urls.Nodup
  hkind : c.opKind = .subscription
  hname : c.opName = ""

variable {c : PCtx} {A B T s : String} {fs : List FieldSpec}

/-- the client's operation -/
def opOf (T s : String) (fs : List FieldSpec) : Op := ⟨.subscription, "", [], [Q T s fs]⟩

/-- **Stage 1 — sanitise**: `{ s { f… } }` becomes `{ s { id f… } }` and the helper `id` is
    registered for scrubbing at path `[s]` under type `T` (as `Flat.stage_sanitize`: nothing in it
    depends on the root type). -/
theorem stage_sanitize (h : FamT c A B T s fs) :
    sanitizeSels c [] [Q T s fs] = .ok ([Q' T s fs], [([s], [(T, ["id"])])]) := by
  have hleaves : sanitizeSelsAcc c ([] ++ [s]) (leaves fs) [] [] = .ok (leaves fs, []) :=
    sanitize_leaves c ([] ++ [s]) fs [] [] (by simpa using h.hnd)
  have hempty : (leaves fs).isEmpty = false := by
    cases hfs : fs with
    | nil => exact absurd hfs h.hne
    | cons a b => simp [leaves]
  have hnoid : containsField "id" (leaves fs) = false := by
    rw [containsField_leaves]
    simp only [List.contains_eq_mem, decide_eq_false_iff_not]
    intro hm; exact h.hfid "id" hm rfl
  unfold sanitizeSels
  rw [sanitizeSelsAcc]
  simp only [Q, sanitizeSel, hempty, Bool.false_eq_true, ↓reduceIte, bind, Except.bind]
  rw [hleaves]
  simp only [addScrubFields, TypeRef.name, abstractDef_none h.hschemaT, h.tumTn, Option.getD_some, ↓reduceIte,
    withId, hnoid, Bool.false_eq_true]
  simp [sanitizeSelsAcc, addToResult, hasFieldAliased, setMissing, h.hschemaT, Scrub.merge, Scrub.set, Q']
  obtain ⟨td, h1, h2⟩ := h.hschemaT
  simp [h1, h2, isAbstractKind, Scrub.set]

theorem getURL_root (h : Fam c A B T s fs) (fb : String) : getURL c "Subscription" s fb = .ok A := by
  simp [getURL, h.hqb, h.tumSn, h.tumSs, isRootName]

theorem preExtract_S (h : Fam c A B T s fs) : preExtract c "Subscription" = .ok () := by
  obtain ⟨td, h1, h2⟩ := h.hschemaS
  simp [preExtract, h1, h2]

theorem filterByLoc_S (h : Fam c A B T s fs) (u : String) :
    filterByLoc c [Q' T s fs] u "Subscription" = some (if u == A then [Q' T s fs] else []) := by
  simp only [filterByLoc, List.foldl_cons, List.foldl_nil, filterStep, Q', fieldName, getURL_root h]
  by_cases hu : u = A
  · subst hu; simp
  · have : (A == u) = false := by simp only [beq_eq_false_iff_ne, ne_eq]; exact fun e => hu e.symm
    have h2 : (u == A) = false := by simp only [beq_eq_false_iff_ne, ne_eq]; exact hu
    simp [this, h2]

theorem route_fold (h : Fam c A B T s fs) (urls : List String) : ∀ (acc : List (String × List Sel)), urls.Nodup →
    urls.foldlM (routeStep c [Q' T s fs] "Subscription") acc
      = .ok (acc ++ (if A ∈ urls then [(A, [Q' T s fs])] else [])) := by
  induction urls with
  | nil => intro acc _; simp [List.foldlM, pure, Except.pure]
  | cons u us ih =>
    intro acc hnd
    simp only [List.nodup_cons] at hnd
    simp only [List.foldlM_cons, bind, Except.bind, routeStep, filterByLoc_S h u]
    by_cases hu : u = A
    · subst hu
      simp only [beq_self_eq_true, ↓reduceIte]
      rw [ih _ hnd.2]
      simp [hnd.1]
    · have h2 : (u == A) = false := by simp only [beq_eq_false_iff_ne, ne_eq]; exact hu
      simp only [h2, Bool.false_eq_true, ↓reduceIte]
      rw [ih _ hnd.2]
      have : ¬ A = u := fun e => hu e.symm
      simp [this]

theorem routeRoot_S (h : Fam c A B T s fs) : routeRoot c [Q' T s fs] "Subscription" = .ok [(A, [Q' T s fs])] := by
  unfold routeRoot
  simp only [List.isEmpty_cons, Bool.false_eq_true, ↓reduceIte, bind, Except.bind]
  rw [route_fold h c.tum.urls [] h.hurlsNd]
  have : (internalService == A) = false := by
    simp only [beq_eq_false_iff_ne, ne_eq]; exact fun e => h.hAint e.symm
  simp [h.hurlsA, routeInternal, filterByLoc_S h internalService, this]

/-- extraction at the root for service `A` -/
theorem extract_root (h : Fam c A B T s fs) :
    extractSels c [] "Subscription" [Q' T s fs] A = .ok ([Qown T s fs], stepsB B T s (fsB fs)) := by
  have hextract := extract_leaves h.toFamT fs [] [] (fun f hf => hf)
  have hidstep : extractSel c [s] T A idField ([], []) = .ok ([idField], []) := by
    simp [idField, extractSel, getURL, isBuiltinName, h.tumTn, h.tumTid]
  have hinner : extractLoop c [s] T A (idField :: leaves fs) ([], [])
      = .ok (idField :: leaves (fsA fs), stepsB B T s (fsB fs)) := by
    rw [extractLoop]
    simp only [hidstep, bind, Except.bind]
    have := hextract
    simp only [leaves_nil, stepsB, List.nil_append] at this
    exact this
  have hfinT : finishExtract c T (idField :: leaves (fsA fs)) = idField :: leaves (fsA fs) := by
    simp [finishExtract, hasFieldNamed, idField]
  have hsel : extractSel c [] "Subscription" A (Q' T s fs) ([], []) = .ok ([Qown T s fs], stepsB B T s (fsB fs)) := by
    unfold Q'
    rw [extractSel]
    simp only [getURL_root h, beq_self_eq_true, ↓reduceIte, List.isEmpty_cons, Bool.false_eq_true, TypeRef.name,
      preExtract_T h.toFamT, bind, Except.bind, List.nil_append]
    rw [hinner]
    simp only [hfinT, Qown]
  unfold extractSels
  simp only [preExtract_S h, bind, Except.bind]
  rw [extractLoop, hsel]
  simp only [bind, Except.bind, extractLoop]
  simp [finishExtract, isRootName]

/-- the root step: the one the gateway SUBSCRIBES to upstream -/
def rootStep (A B T s : String) (fs : List FieldSpec) : Step :=
  .mk A "Subscription" [Qown T s fs] [] (stepsB B T s (fsB fs))

/-- **Stage 2 — plan**: one root step at `A` with `{ s { id <A's fields> } }` and (if `B` owns any
    selected field) one child step at `B`, insertion point `[s]`, `node(id: $id) { ... on T { <B's fields> } }`. -/
theorem stage_plan (h : Fam c A B T s fs) : planRoot c [Q' T s fs] = .ok [rootStep A B T s fs] := by
  have hnode : (s == "node") = false := by simp only [beq_eq_false_iff_ne, ne_eq]; exact h.hqn
  have htf : Sel.toFields [Q' T s fs] = [Q' T s fs] := by simp [Sel.toFields, Q']
  have hfn : fieldName (Q' T s fs) = s := rfl
  unfold planRoot
  simp only [h.hkind, OpKind.rootName, htf, List.filter_cons, List.filter_nil, hfn, hnode, bne, Bool.not_false,
    Bool.false_eq_true, ↓reduceIte, bind, Except.bind, routeRoot_S h]
  simp only [groupNodeFields, List.foldlM_nil, pure, Except.pure, List.foldl_nil, List.foldlM_cons, bind, Except.bind,
    extract_root h, List.nil_append, rootStep]

/-- the plan of the subscription operation: the root step, and the scrub table `[s] ↦ T.id` -/
theorem plan_eq (h : Fam c A B T s fs) :
    plan c (opOf T s fs) = .ok ([rootStep A B T s fs], [([s], [(T, ["id"])])]) := by
  unfold plan opOf
  simp only [stage_sanitize h.toFamT, bind, Except.bind, stage_plan h]

end PebblesVerif.SubFlat
