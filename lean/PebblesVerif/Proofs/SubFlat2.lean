import PebblesVerif.Proofs.SubFlat1
import PebblesVerif.Proofs.FlatList5
/-!
# The per-event pipeline of a subscription, instantiated with the executor model

`Model/SubEntry.lean` leaves the stitching pipeline of `prepareResponse` abstract
(`SubEntry.Pipeline`: `hasChildren`, `stitch`, `scrub`). This file writes the INSTANTIATION that
`newSubscriptionEntry` (subscription_entry.go) builds — it is an instantiation of exactly that
structure, field by field:

* `plan, err := g.planner.Plan(ctx)`                                  → `plan c op`
* `if len(rootSteps) != 1 { "too many root operations" }`             → `newEntry`
* `rootStepCopy.Then = nil`; the copy is what is SUBSCRIBED upstream  → `upstreamStep`
* `additionalRootSteps` = the `Then` of the root steps               → `rootStep.thn`
* `executorFn = nil` unless there are additional steps               → `hasChildren`
* `executorFn(initialResult)`:
    for each additional step, `FindInsertionPoints(step.InsertionPoint, rootStep.SelectionSet,
    initialResult, [][]string{rootStep.InsertionPoint})`, one copy of the step per realised
    insertion point with `InsertionPoint` replaced                    → `newRootSteps`
    `Execute(QueryPlan{RootSteps: newRootSteps}, InitialResult: initialResult)`
                                                                      → `Exec.execute … steps initial`
    `plan.ScrubFields.Clean(result)`                                  → `ScrubClean.cleanAll sf`
* `prepareResponse` without `executorFn`: `originalPlan.ScrubFields.Clean(resp.Data)` → `scrub`

The harness side: the driver op of C17 (`c17.frames`, `Driver/DSubEntry.lean`) runs
`SubEntry.framesOf` with the TRIVIAL pipeline (`⟨false, fun d => (some d, []), id⟩`): it compares
which frames are written, in which order, under which id; the CONTENT of a stitched frame is
compared by the harness (`cmd/vh/c17.go`) with the reference evaluation of the client operation on
the merged schema — the statement proved here of the model (`Props/C17Flat.lean`) for the flat
family. No driver op uses a concrete pipeline; `pipelineOf` below is built from the same
`Exec.execute`, `ResultOps.findIP`, `ScrubClean.cleanAll` that the driver ops of C01 (`core.gateway`)
run, so the parts are the ones the correspondence exercises.

Errors: `Exec` carries execution errors as messages (`Fault.err m`); `stitch` renders one as
`{"message": m}` (the full shape of a formatted error is C09/C10's subject). A Go panic inside
`executorFn` has no place in `SubEntry.Pipeline` (it would end the `Listen` goroutine); it is
rendered as an error whose message starts with `panic: ` so that no theorem can mistake it for an
answer. The theorems below are about events for which neither occurs.
-/
namespace PebblesVerif.SubStitch
open PebblesVerif PebblesVerif.Exec PebblesVerif.ResultOps PebblesVerif.ScrubClean

/-- `cpy := *step; cpy.InsertionPoint = insertionPoint` -/
def withIP (st : Step) (ip : List String) : Step := .mk st.url st.parentType st.sels ip st.thn

/-- the loop of `executorFn` over `additionalRootSteps` -/
def newRootSteps (rootStep : Step) (additional : List Step) (initial : List (String × J)) : G (List Step) :=
  additional.foldlM (fun (acc : List Step) step => do
    let ips ← findIP (step.ip.drop rootStep.ip.length) rootStep.sels initial rootStep.ip
    .ok (acc ++ ips.map (withIP step))) []

/-- `executorFn(initialResult)`: the stitched and scrubbed result, and the calls made for the event -/
def executorFn (c : PCtx) (cfg : ExecCfg) (reqVars : Option (List (String × J))) (down : Downstream)
    (rootStep : Step) (sf : Scrub) (initial : List (String × J)) : G ExecState := do
  let steps ← newRootSteps rootStep rootStep.thn initial
  let st ← execute c cfg reqVars down steps initial
  .ok ⟨cleanAll sf st.result, st.calls⟩

def errJ (m : String) : J := .obj [("message", .str m)]

/-- the `SubEntry.Pipeline` of one subscription entry -/
def pipelineOf (c : PCtx) (cfg : ExecCfg) (reqVars : Option (List (String × J))) (down : Downstream)
    (rootStep : Step) (sf : Scrub) : SubEntry.Pipeline where
  hasChildren := !rootStep.thn.isEmpty
  stitch := fun d =>
    match d with
    | .obj kvs =>
      match executorFn c cfg reqVars down rootStep sf kvs with
      | .ok st => (some (.obj st.result), [])
      | .error (.err m) => (none, [errJ m])
      | .error (.panic w) => (none, [errJ ("panic: " ++ w)])
    | _ => (none, [errJ "panic: event data is not an object"])   -- `resp.Data` is a map
  scrub := fun d =>
    match d with
    | .obj kvs => .obj (cleanAll sf kvs)
    | v => v

/-- the step subscribed upstream: the root step without its children -/
def upstreamStep (rs : Step) : Step := .mk rs.url rs.parentType rs.sels rs.ip []

/-- `newSubscriptionEntry` up to `queryer.Subscribe`: the step subscribed upstream and the pipeline
    of `prepareResponse` -/
def newEntry (c : PCtx) (cfg : ExecCfg) (op : Op) (reqVars : Option (List (String × J))) (down : Downstream) :
    G (Step × SubEntry.Pipeline) := do
  let rv := withDeclaredDefaults Gen.Vars.declaredDefaultsAppliedSubscription op reqVars
  let (steps, sf) ← plan c op
  match steps with
  | [rs] => .ok (upstreamStep rs, pipelineOf c cfg rv down rs sf)
  | _ => .error (.err "too many root operations")

end PebblesVerif.SubStitch

/-! ### a concrete federation with a subscription root; the statement of `C17_flat_event_stitched`
    checked by evaluation BEFORE it was proved (kept as tests) -/
namespace PebblesVerif.SubFlat.Example
open PebblesVerif PebblesVerif.Exec PebblesVerif.Spec PebblesVerif.Flat PebblesVerif.SubStitch

def tStr : TypeRef := .named "String"
def animalT : TypeDef := { name := "Animal", kind := Kind.object, fields := [⟨"id", [], .nonNull (.named "ID"), none, "", []⟩, ⟨"name", [], tStr, none, "", []⟩, ⟨"age", [], tStr, none, "", []⟩, ⟨"sound", [], tStr, none, "", []⟩] }
def queryT : TypeDef := { name := "Query", kind := Kind.object, fields := [] }
def subT (fs : List FieldDef) : TypeDef := { name := "Subscription", kind := Kind.object, fields := fs }
def merged : Schema :=
  { types := [animalT, queryT, subT [⟨"animalChanged", [], .named "Animal", none, "", []⟩]],
    query := some "Query", subscription := some "Subscription" }
def schemaA : Schema := merged
def schemaB : Schema := { types := [animalT, queryT], query := some "Query" }
def tum : Tum := [("Subscription", ⟨[("animalChanged", "A")], false⟩),
  ("Animal", ⟨[("name", "A"), ("age", "B"), ("sound", "A")], true⟩)]
def ctx : PCtx := ⟨merged, tum, .subscription, ""⟩
def fs : List FieldSpec := [("age", tStr, true), ("name", tStr, false), ("sound", tStr, false)]
/-- only `A`'s fields: an entry WITHOUT child steps -/
def fsOnlyA : List FieldSpec := [("name", tStr, false), ("sound", tStr, false)]
def ent (i n a : String) : Entity :=
  ⟨i, "Animal", [("id", .scalar (.str i)), ("name", .scalar (.str n)), ("age", .scalar (.str a)), ("sound", .null)]⟩
/-- this id contains `#` (the path separator) on purpose -/
def e1 : Entity := ent "QW5pbWFs#1" "rex" "7"
def e2 : Entity := ent "QW5pbWFsOjI=" "tom" "3"
/-- the data at the moment of an event about entity `e` -/
def dataOf (e : Entity) : Data := ⟨[e1, e2], [("Subscription", [("animalChanged", .ref e.id)])]⟩
def svcs : List Svc := [⟨"A", schemaA⟩, ⟨"B", schemaB⟩]
def op (fs : List FieldSpec) : Op := opOf "Animal" "animalChanged" fs

/-- the event as `A` emits it: the reference evaluation of the upstream step over `A`'s schema -/
def eventOf (up : Step) (D : Data) : Option J := Spec.eval schemaA D ⟨.subscription, "", [], up.sels⟩ []

/-- the frame the model writes for the event about `e`, and the single-server answer -/
def frameFor (fs : List FieldSpec) (e : Entity) : Option (SubEntry.Frame × Option J × Bool) :=
  match newEntry ctx {} (op fs) none (specDownstream svcs (dataOf e)) with
  | .ok (up, p) =>
    match eventOf up (dataOf e) with
    | some ev => some (SubEntry.frameOf "sub-1" p ⟨some ev, []⟩, Spec.eval merged (dataOf e) (op fs) [], p.hasChildren)
    | none => none
  | .error _ => none

def ans (kvs : List (String × J)) : J := .obj [("animalChanged", .obj kvs)]

-- the frame: `A`'s fields then `B`'s, helper `id` scrubbed; the single server: the client's order
#guard frameFor fs e1 == some (⟨"sub-1", ⟨some (ans [("name", .str "rex"), ("sound", .null), ("age", .str "7")]), []⟩⟩,
  some (ans [("age", .str "7"), ("name", .str "rex"), ("sound", .null)]), true)
#guard frameFor fs e2 == some (⟨"sub-1", ⟨some (ans [("name", .str "tom"), ("sound", .null), ("age", .str "3")]), []⟩⟩,
  some (ans [("age", .str "3"), ("name", .str "tom"), ("sound", .null)]), true)
-- an entry without child steps: the event is forwarded, scrubbed
#guard frameFor fsOnlyA e1 == some (⟨"sub-1", ⟨some (ans [("name", .str "rex"), ("sound", .null)]), []⟩⟩,
  some (ans [("name", .str "rex"), ("sound", .null)]), false)

/-- the upstream step, the event and the calls made for it -/
def eventAndCalls (fs : List FieldSpec) (e : Entity) : Option (String × Option J × List (String × List (List (String × J)))) :=
  match plan ctx (op fs) with
  | .ok ([rs], sf) =>
    let ev := eventOf (upstreamStep rs) (dataOf e)
    match ev with
    | some (.obj kvs) =>
      match executorFn ctx {} none (specDownstream svcs (dataOf e)) rs sf kvs with
      | .ok st => some ((upstreamStep rs).url, ev, st.calls.map (fun cl => (cl.url, cl.batch.map (·.vars))))
      | .error _ => none
    | _ => none
  | _ => none

-- the event carries the helper `id` and `A`'s fields; ONE call, to `B`, ONE lookup
#guard eventAndCalls fs e1 == some ("A", some (ans [("id", .str e1.id), ("name", .str "rex"), ("sound", .null)]),
  [("B", [[("id", .str e1.id)]])])

end PebblesVerif.SubFlat.Example
