import PebblesVerif.Proofs.SubFlat2
/-!
Flat subscription family, stage 3–4: the per-event pipeline (`SubStitch.executorFn`) on an event
`{ s: { id, <A's fields> } }`, with the downstream as a parameter — the depth-1 execution over an
INITIAL RESULT (`Exec.execute … [⟨stepB with the realised insertion point⟩] [(s, .obj (id :: a))]`),
the scrub, and what `SubEntry.prepare` makes of the event.
-/
namespace PebblesVerif.SubFlat
open PebblesVerif PebblesVerif.Exec PebblesVerif.Flat PebblesVerif.ResultOps PebblesVerif.ScrubClean
open PebblesVerif.SubStitch

variable {c : PCtx} {A B T s : String} {fs : List FieldSpec}

/-- the copy of a child step with a realised insertion point renders the same request (the operation
    kind, the name and the query string of a step depend on its insertion point only through
    "empty or not"; in the Go code they are computed at plan time and copied) -/
theorem rqOf_withIP (c : PCtx) (st : Step) (ip : List String) (vars : List (String × J))
    (h1 : st.ip ≠ []) (h2 : ip ≠ []) : rqOf c (withIP st ip) vars = rqOf c st vars := by
  obtain ⟨u, p, sels, ip0, thn⟩ := st
  have e1 : ip0.isEmpty = false := by cases ip0 with | nil => exact absurd rfl h1 | cons _ _ => rfl
  have e2 : ip.isEmpty = false := by cases ip with | nil => exact absurd rfl h2 | cons _ _ => rfl
  simp [rqOf, withIP, header, stepOpName, queryKey, Step.ip, Step.sels, e1, e2]

theorem findIP_s (T s : String) (fs : List FieldSpec) (i : String) (a : List (String × J)) :
    findIP [s] [Qown T s fs] (respA s i a) [] = .ok [[pointQ s i]] := by
  have hfs : findSelection s [Qown T s fs] = some (Qown T s fs) := by
    exact findSelection_head s s [] [] _ [] _ [] s (by simp)
  unfold findIP findIPW
  rw [hfs]
  simp [respA, J.lookup, selType, Qown, TypeRef.isNonNull, TypeRef.isList, extractID, bind, Except.bind, fmtID,
    pointQ, findIPW]

/-- **`executorFn`, the insertion points**: from the event `{ s: { id: i, … } }` the child step at
    `[s]` gets ONE copy, with the realised insertion point `[s#i]`. -/
theorem newRootSteps_event (A B T s : String) (fs : List FieldSpec) (i : String) (a : List (String × J)) :
    newRootSteps (rootStep A B T s fs) (rootStep A B T s fs).thn (respA s i a)
      = .ok ((stepsB B T s (fsB fs)).map (fun st => withIP st [pointQ s i])) := by
  unfold newRootSteps
  simp only [rootStep, Step.thn, Step.ip, Step.sels, List.length_nil, List.drop_zero]
  cases hB : fsB fs with
  | nil => simp [stepsB, pure, Except.pure]
  | cons b bs =>
    simp only [stepsB, List.foldlM_cons, List.foldlM_nil, Step.ip, findIP_s T s fs i a, bind, Except.bind,
      pure, Except.pure, List.nil_append, List.map_cons, List.map_nil]

theorem buildBatch_copy (h : FamT c A B T s fs) (bs : List FieldSpec) (i : String)
    (hs1 : '#' ∉ s.toList) (hs2 : ':' ∉ s.toList) (hine : i ≠ "") :
    buildBatch c {} none [⟨withIP (stepB B T s bs) [pointQ s i], [pointQ s i]⟩]
      = .ok ([rqOf c (stepB B T s bs) [("id", .str i)]], [some 0]) := by
  have hT : isRootName (withIP (stepB B T s bs) [pointQ s i]).parentType = false := by
    simpa [withIP, stepB, Step.parentType] using h.hTroot
  have hrq := rqOf_withIP c (stepB B T s bs) [pointQ s i] [("id", .str i)] (by simp [stepB, Step.ip]) (by simp)
  unfold buildBatch
  rw [buildBatch.go]
  have hine' : (i == "") = false := by simpa using hine
  simp only [getVariables, List.getLast?_singleton, extract_pointQ s i hs1 hs2, bind, Except.bind, hine',
    Bool.false_eq_true, ↓reduceIte, J.setKey, isNeedToQuery, hT, dedupKey, Bool.not_false, List.idxOf?_nil]
  rw [← hrq]
  simp [buildBatch.go, rqOf]

theorem parseOne_copy (h : FamT c A B T s fs) (bs : List FieldSpec) (p : String) (b : List (String × J)) :
    parseOne ⟨withIP (stepB B T s bs) [p], [p]⟩ [("node", .obj b)] = .ok (b, []) := by
  have hT : isRootName (withIP (stepB B T s bs) [p]).parentType = false := by
    simpa [withIP, stepB, Step.parentType] using h.hTroot
  unfold parseOne
  simp only [hT, Bool.false_eq_true, ↓reduceIte, J.lookup, bind, Except.bind]
  simp [withIP, stepB, Step.thn, pure, Except.pure]

/-- **Depth 1 over an initial result**: the execution request of the copied child step (insertion
    point `[s#i]`) on the event as initial result makes ONE call to `B` — the lookup
    `node(id: $id) { ... on T { <B's fields> } }` with `{id: i}`, the same request a query would send —
    and merges its `node` object into the object under `s`. -/
theorem depth1_event (h : FamT c A B T s fs) (down : Downstream) (bs : List FieldSpec) (i : String)
    (a b : List (String × J)) (calls : List Call)
    (hs1 : '#' ∉ s.toList) (hs2 : ':' ∉ s.toList) (hsne : s.toList ≠ []) (hine : i ≠ "")
    (hdown : down B [rqOf c (stepB B T s bs) [("id", .str i)]] = .ok [[("node", .obj b)]])
    (hbnd : (J.keys b).Nodup) (hdisj : ∀ k ∈ J.keys b, k ∉ J.keys (("id", J.str i) :: a)) :
    execDepth c {} none down [⟨withIP (stepB B T s bs) [pointQ s i], [pointQ s i]⟩] ⟨respA s i a, calls⟩
      = .ok (⟨[(s, .obj (("id", .str i) :: a ++ b))],
               calls ++ [⟨B, [rqOf c (stepB B T s bs) [("id", .str i)]]⟩]⟩, []) := by
  have hurl : (withIP (stepB B T s bs) [pointQ s i]).url = B := rfl
  unfold execDepth
  simp only [partitionByURL, List.foldl_cons, List.foldl_nil, List.find?_nil, List.nil_append, hurl,
    List.foldlM_cons, List.foldlM_nil, bind, Except.bind, buildBatch_copy h bs i hs1 hs2 hine, hdown,
    List.length_cons, List.length_nil, bne_self_eq_false, Bool.false_eq_true, ↓reduceIte, List.zip_cons_cons,
    List.zip_nil_right, List.getElem?_cons_zero, Option.getD_some, parseOne_copy h bs (pointQ s i) b,
    mergeResult_child s i a b hs1 hs2 hsne hbnd hdisj, pure, Except.pure, List.append_nil]

/-- **`Execute` with `InitialResult`** for the one copied child step -/
theorem execute_event (h : FamT c A B T s fs) (down : Downstream) (bs : List FieldSpec) (i : String)
    (a b : List (String × J))
    (hs1 : '#' ∉ s.toList) (hs2 : ':' ∉ s.toList) (hsne : s.toList ≠ []) (hine : i ≠ "")
    (hdown : down B [rqOf c (stepB B T s bs) [("id", .str i)]] = .ok [[("node", .obj b)]])
    (hbnd : (J.keys b).Nodup) (hdisj : ∀ k ∈ J.keys b, k ∉ J.keys (("id", J.str i) :: a)) :
    execute c {} none down [withIP (stepB B T s bs) [pointQ s i]] (respA s i a)
      = .ok ⟨[(s, .obj (("id", .str i) :: a ++ b))], [⟨B, [rqOf c (stepB B T s bs) [("id", .str i)]]⟩]⟩ := by
  have hdepth : stepsDepth [withIP (stepB B T s bs) [pointQ s i]] = 1 := by
    simp [stepsDepth, stepDepth, withIP, stepB, Step.thn]
  have hip : (withIP (stepB B T s bs) [pointQ s i]).ip = [pointQ s i] := rfl
  unfold execute
  simp only [List.map_cons, List.map_nil, hip]
  rw [hdepth, execLoop]
  simp only [List.isEmpty_cons, Bool.false_eq_true, ↓reduceIte, bind, Except.bind,
    depth1_event h down bs i a b [] hs1 hs2 hsne hine hdown hbnd hdisj, execLoop, List.nil_append]

theorem fsB_ne_nil {fs : List FieldSpec} (h : ∃ f ∈ fs, f.2.2 = true) : fsB fs ≠ [] := by
  obtain ⟨f, hf, hb⟩ := h
  intro hnil
  have : f ∈ fsB fs := by simp [fsB, hf, hb]
  rw [hnil] at this; cases this

/-- the scrub table of the plan -/
def scrubOf (T s : String) : Scrub := [([s], [(T, ["id"])])]

/-- the one call an event costs: the lookup at `B` (none when `B` owns nothing selected) -/
def callsOfEvent (c : PCtx) (B T s : String) (fs : List FieldSpec) (i : String) : List Call :=
  match fsB fs with
  | [] => []
  | _ :: _ => [⟨B, [rqOf c (stepB B T s (fsB fs)) [("id", .str i)]]⟩]

/-- **`executorFn` on an event** (`B` owns a selected field): insertion point found, one lookup at
    `B`, its answer merged under `s`, the helper `id` scrubbed. -/
theorem executorFn_event (h : FamT c A B T s fs) (down : Downstream) (i : String) (a b : List (String × J))
    (hs1 : '#' ∉ s.toList) (hs2 : ':' ∉ s.toList) (hsne : s.toList ≠ []) (hine : i ≠ "")
    (hBne : fsB fs ≠ [])
    (hdown : down B [rqOf c (stepB B T s (fsB fs)) [("id", .str i)]] = .ok [[("node", .obj b)]])
    (hbnd : (J.keys b).Nodup) (hdisj : ∀ k ∈ J.keys b, k ∉ J.keys (("id", J.str i) :: a))
    (hid : "id" ∉ J.keys (a ++ b)) (htn : "__typename" ∉ J.keys (a ++ b)) (hne : a ++ b ≠ []) :
    executorFn c {} none down (rootStep A B T s fs) (scrubOf T s) (respA s i a)
      = .ok ⟨[(s, .obj (a ++ b))], callsOfEvent c B T s fs i⟩ := by
  unfold executorFn
  rw [newRootSteps_event]
  obtain ⟨b0, bs, hB⟩ := List.exists_cons_of_ne_nil hBne
  simp only [bind, Except.bind, hB, stepsB_eq, List.map_cons, List.map_nil]
  rw [hB] at hdown
  rw [execute_event h down (b0 :: bs) i a b hs1 hs2 hsne hine hdown hbnd hdisj]
  simp only [scrubOf, List.cons_append]
  rw [stage_scrub T s i (a ++ b) hid htn hne]
  simp [callsOfEvent, hB]

/-- **What `prepareResponse` makes of an event**, for every member of the family and every
    downstream that answers the lookup with `B`'s share: the event `{ s: { id: i, …a } }` becomes
    `{ s: { …a, …b } }` — no errors — whether the entry has a child step (stitched: `executorFn`) or
    not (`B` owns nothing selected: forwarded, scrubbed). -/
theorem prepare_event (h : FamT c A B T s fs) (down : Downstream) (i : String) (a b : List (String × J))
    (hs1 : '#' ∉ s.toList) (hs2 : ':' ∉ s.toList) (hsne : s.toList ≠ []) (hine : i ≠ "")
    (hB : fsB fs ≠ [] → down B [rqOf c (stepB B T s (fsB fs)) [("id", .str i)]] = .ok [[("node", .obj b)]])
    (hb0 : fsB fs = [] → b = [])
    (hbnd : (J.keys b).Nodup) (hdisj : ∀ k ∈ J.keys b, k ∉ J.keys (("id", J.str i) :: a))
    (hid : "id" ∉ J.keys (a ++ b)) (htn : "__typename" ∉ J.keys (a ++ b)) (hne : a ++ b ≠ []) :
    SubEntry.prepare (pipelineOf c {} none down (rootStep A B T s fs) (scrubOf T s)) ⟨some (.obj (respA s i a)), []⟩
      = ⟨some (.obj [(s, .obj (a ++ b))]), []⟩ := by
  cases hfb : fsB fs with
  | nil =>
    have hb := hb0 hfb
    subst hb
    have hch : (pipelineOf c {} none down (rootStep A B T s fs) (scrubOf T s)).hasChildren = false := by
      simp [pipelineOf, rootStep, Step.thn, hfb, stepsB]
    simp only [SubEntry.prepare, hch, Bool.false_eq_true, ↓reduceIte]
    simp only [pipelineOf, scrubOf, respA]
    rw [stage_scrub T s i a (by simpa using hid) (by simpa using htn) (by simpa using hne)]
    simp
  | cons b0 bs =>
    have hBne : fsB fs ≠ [] := by rw [hfb]; simp
    have hch : (pipelineOf c {} none down (rootStep A B T s fs) (scrubOf T s)).hasChildren = true := by
      simp [pipelineOf, rootStep, Step.thn, hfb, stepsB]
    have hex := executorFn_event (A := A) h down i a b hs1 hs2 hsne hine hBne (hB hBne) hbnd hdisj hid htn hne
    simp only [SubEntry.prepare, hch, ↓reduceIte]
    simp only [pipelineOf, hex]

/-- **`newSubscriptionEntry`** for a member of the family: the step subscribed upstream is the root
    step without its child step; the pipeline is `pipelineOf` over the plan's root step and scrub table -/
theorem newEntry_eq (h : Fam c A B T s fs) (down : Downstream) :
    newEntry c {} (opOf T s fs) none down
      = .ok (upstreamStep (rootStep A B T s fs), pipelineOf c {} none down (rootStep A B T s fs) (scrubOf T s)) := by
  unfold newEntry
  rw [withDeclaredDefaults_noVarDefs _ _ _ rfl]
  simp only [plan_eq h, bind, Except.bind, scrubOf]

end PebblesVerif.SubFlat
