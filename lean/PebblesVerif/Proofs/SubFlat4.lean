import PebblesVerif.Proofs.SubFlat3
/-!
Flat subscription family, final step: the upstream event is what the owner `A` answers (the
reference evaluation of the subscribed step over `A`'s schema), the child step is answered by `B`
(the reference evaluator over `B`'s schema); the payload of the frame the model writes equals the
single-server answer of the subscription operation (up to the order of object keys), helper `id`
scrubbed.
-/
namespace PebblesVerif.SubFlat
open PebblesVerif PebblesVerif.Exec PebblesVerif.Flat PebblesVerif.ResultOps PebblesVerif.Spec
open PebblesVerif.SubStitch

variable {c : PCtx} {A B T s : String} {fs : List FieldSpec}

/-- evaluating `{ s { sub } }` at the Subscription root when `s` refers to entity `e` -/
theorem eval_root_s (env : Env) (T s : String) (e : Entity) (sub : List Sel)
    (hqb : isBuiltinName s = false) (hqne : s ≠ "")
    (hroot : dlookup s (env.data.root "Subscription") = some (.ref e.id)) (hent : env.data.entity? e.id = some e) :
    evalSels env (.root "Subscription") [.field s s [] [] (.named T) [] sub] []
      = some [(s, match evalSels env (.ent e.type e.id e.fields) sub [] with
                  | some kvs => .obj kvs
                  | none => .null)] := by
  have hq1 : (s == "__typename") = false := by
    simp only [beq_eq_false_iff_ne, ne_eq]; intro h; subst h; simp [isBuiltinName] at hqb
  have hq3 : (s == "") = false := by simpa using hqne
  have hSQ : ("Subscription" == "Query") = false := by decide
  rw [evalSels, evalSel]
  simp only [skipped, List.any_nil, Bool.false_eq_true, ↓reduceIte, fieldValue, hq1, hq3]
  have hst : storedValue env (.root "Subscription") s [] = .ref e.id := by
    simp [storedValue, hSQ, hroot]
  simp only [hst, completeWith, hent]
  cases evalSels env (.ent e.type e.id e.fields) sub [] <;> simp [addKey, J.lookup, evalSels]

/-- the event as the owner of the root field emits it: the reference evaluation of the step
    subscribed upstream, over the owner's schema -/
def eventOf (SA : Schema) (D : Data) (up : Step) : Option J := Spec.eval SA D ⟨.subscription, "", [], up.sels⟩ []

/-- **C17 on the flat subscription family**, with the event, the entry and the calls spelled out.
    See `Props/C17Flat.lean` (`C17_flat_event_stitched`) for the statement in words. -/
theorem flat_event_stitched (h : Fam c A B T s fs)
    (svcs : List Svc) (SA SB : Schema) (D : Data) (e : Entity) (r : List (String × J))
    (hs1 : '#' ∉ s.toList) (hs2 : ':' ∉ s.toList) (hsne : s ≠ "") (hine : e.id ≠ "")
    (hnne : ∀ n ∈ namesOf fs, n ≠ "")
    (hsB : svcs.find? (·.url == B) = some ⟨B, SB⟩)
    (hSB : ∃ td, SB.type? T = some td ∧ td.kind = .object)
    (hroot : dlookup s (D.root "Subscription") = some (.ref e.id)) (hent : D.entity? e.id = some e) (hty : e.type = T)
    (href : Spec.eval c.schema D (opOf T s fs) [] = some (.obj [(s, .obj r)])) :
    ∃ (a d : List (String × J)),
      eventOf SA D (upstreamStep (rootStep A B T s fs)) = some (.obj [(s, .obj (("id", .str e.id) :: a))])
      ∧ SubEntry.prepare (pipelineOf c {} none (specDownstream svcs D) (rootStep A B T s fs) (scrubOf T s))
          ⟨some (.obj [(s, .obj (("id", .str e.id) :: a))]), []⟩ = ⟨some (.obj [(s, .obj d)]), []⟩
      ∧ d.Perm r
      ∧ (fsB fs ≠ [] →
          executorFn c {} none (specDownstream svcs D) (rootStep A B T s fs) (scrubOf T s)
              [(s, .obj (("id", .str e.id) :: a))]
            = .ok ⟨[(s, .obj d)], callsOfEvent c B T s fs e.id⟩) := by
  have hsne' : s.toList ≠ [] := by
    intro hnil; apply hsne; rw [← String.ofList_toList (s := s), hnil]
  -- the reference answer, field by field
  have hrefM : evalSels (envOf c.schema D []) (.ent e.type e.id e.fields) (leaves fs) [] = some r := by
    unfold Spec.eval opOf at href
    simp only [OpKind.rootName, Q] at href
    have := eval_root_s (envOf c.schema D []) T s e (leaves fs) h.hqb hsne hroot hent
    simp only [envOf] at this
    rw [this] at href
    cases hr : evalSels ⟨c.schema, D, [], []⟩ (.ent e.type e.id e.fields) (leaves fs) [] with
    | none => simp [hr] at href
    | some kvs => simp [hr] at href; subst href; simpa only [envOf] using hr
  obtain ⟨ra, rb, -, hrb, hperm, hownA, hvalB, hkA, hkB, hne⟩ :=
    FlatList.entity_sharesT h.toFamT SA SB D e r hnne hine hrefM
  obtain ⟨⟨-, hbnd, hdisj⟩, hid, htn, -⟩ := FlatList.shares_goodT h.toFamT e.id ra rb hine hkA hkB hne
  -- the event: what `A` answers to the subscribed step
  have hev : eventOf SA D (upstreamStep (rootStep A B T s fs)) = some (.obj (respA s e.id ra)) := by
    have hev := eval_root_s (envOf SA D []) T s e (idField :: leaves (fsA fs)) h.hqb hsne hroot hent
    rw [hownA] at hev
    have hsels : (upstreamStep (rootStep A B T s fs)).sels
        = [.field s s [] [] (.named T) [] (idField :: leaves (fsA fs))] := rfl
    simp only [eventOf, Spec.eval, OpKind.rootName, hsels]
    simp only [envOf] at hev
    rw [hev]
    simp [respA]
  -- what service `B` answers to the lookup
  have hB : fsB fs ≠ [] → specDownstream svcs D B [rqOf c (stepB B T s (fsB fs)) [("id", .str e.id)]]
      = .ok [[("node", .obj rb)]] := by
    intro _
    have hhdr : (header c (stepB B T s (fsB fs))).kind = .query := by simp [header, stepB, Step.ip]
    have hnl := eval_node_lookup (envOf SB D [("id", .str e.id)]) e (leaves (fsB fs)) rb hent
      (by simp [envOf, J.lookup]) (by rw [hty]; exact hSB) hvalB
    have hsels : (stepB B T s (fsB fs)).sels = convertToNodeQuery T (leaves (fsB fs)) := rfl
    simp only [specDownstream, hsB, rqOf, List.map_cons, List.map_nil, hhdr, Spec.eval, OpKind.rootName, hsels]
    rw [hty] at hnl
    simp only [envOf] at hnl
    rw [hnl]
    simp
  have hb0 : fsB fs = [] → rb = [] := by
    intro hnil; rw [hnil] at hrb; simpa using hrb.symm
  have hprep := prepare_event (A := A) h.toFamT (specDownstream svcs D) e.id ra rb hs1 hs2 hsne' hine hB hb0 hbnd hdisj
    hid htn hne
  refine ⟨ra, ra ++ rb, hev, hprep, hperm, ?_⟩
  intro hBne
  exact executorFn_event h.toFamT (specDownstream svcs D) e.id ra rb hs1 hs2 hsne' hine hBne (hB hBne) hbnd hdisj
    hid htn hne

end PebblesVerif.SubFlat

/-! ### non-vacuity: the concrete federation of `Proofs/SubFlat2.lean` meets every hypothesis -/
namespace PebblesVerif.SubFlat.Example
open PebblesVerif PebblesVerif.Exec PebblesVerif.Spec PebblesVerif.Flat PebblesVerif.SubStitch

theorem fam : Fam ctx "A" "B" "Animal" "animalChanged" fs where
  hAB := by decide
  hAint := by decide
  hBint := by decide
  hqb := by simp [isBuiltinName]
  hqn := by decide
  hTroot := by decide
  hne := by decide
  hnd := by decide
  hfb := by simp [namesOf, fs, isBuiltinName]
  hfid := by decide
  hschemaT := ⟨animalT, by rfl, rfl⟩
  hschemaS := ⟨_, by rfl, rfl⟩
  tumSn := by rfl
  tumSs := by rfl
  tumTn := by rfl
  tumTid := by rfl
  tumTf := by decide
  hurlsA := by decide
  hurlsNd := by decide
  hkind := rfl
  hname := rfl

def expected : List (String × J) := [("age", .str "7"), ("name", .str "rex"), ("sound", .null)]

theorem reference : Spec.eval ctx.schema (dataOf e1) (op fs) [] = some (.obj [("animalChanged", .obj expected)]) := by
  rfl

/-- the theorem applied to the event about `e1` -/
theorem applied : ∃ (a d : List (String × J)),
    SubFlat.eventOf schemaA (dataOf e1) (upstreamStep (rootStep "A" "B" "Animal" "animalChanged" fs))
      = some (.obj [("animalChanged", .obj (("id", .str e1.id) :: a))])
    ∧ SubEntry.prepare (pipelineOf ctx {} none (specDownstream svcs (dataOf e1)) (rootStep "A" "B" "Animal" "animalChanged" fs)
          (scrubOf "Animal" "animalChanged"))
        ⟨some (.obj [("animalChanged", .obj (("id", .str e1.id) :: a))]), []⟩ = ⟨some (.obj [("animalChanged", .obj d)]), []⟩
    ∧ d.Perm expected := by
  obtain ⟨a, d, h1, h2, h3, -⟩ := flat_event_stitched fam svcs schemaA schemaB (dataOf e1) e1 expected
    (by decide) (by decide) (by decide) (by decide) (by decide) (by rfl) ⟨animalT, by rfl, rfl⟩ (by rfl) (by rfl) rfl
    reference
  exact ⟨a, d, h1, h2, h3⟩

end PebblesVerif.SubFlat.Example
