import PebblesVerif.Proofs.SubFlat4
/-!
Flat subscription family, a HISTORY of events: the entry (and its pipeline, with its downstream) is
built once; the events come one after the other, each about an entity of the shared entity graph.
The data at the moment of an event (`atEvent`) differs from the data the downstream services
answer the child steps from only in the `Subscription` root: entities are looked up by id, so the
lookups at `B` answer the same (`fval_ent_data`).
-/
namespace PebblesVerif.SubFlat
open PebblesVerif PebblesVerif.Exec PebblesVerif.Flat PebblesVerif.ResultOps PebblesVerif.Spec
open PebblesVerif.SubStitch

variable {c : PCtx} {A B T s : String} {fs : List FieldSpec}

/-- completing a stored value consults the data only through the entities -/
theorem completeWith_data (D D' : Data) (hE : D.entities = D'.entities)
    (k : Obj → Option (List (String × J))) (ec : J → J) :
    ∀ (t : TypeRef) (v : DVal), completeWith D k ec t v = completeWith D' k ec t v := by
  intro t
  induction t with
  | named n => intro v; cases v <;> simp [completeWith, Data.entity?, hE]
  | list elem ih =>
    intro v
    cases v with
    | list vs => simp only [completeWith]; congr 1 <;> (try congr 1) <;> simp [ih]
    | _ => rfl
  | nonNull t' ih =>
    intro v
    cases v <;> simp [completeWith, ih]

/-- the value of a leaf on an ENTITY depends on the data only through the entities -/
theorem fval_ent_data (S : Schema) (D D' : Data) (hE : D.entities = D'.entities) (v : List (String × J)) (t i : String)
    (flds : List (String × DVal)) (f : FieldSpec) :
    fval (envOf S D v) (.ent t i flds) f = fval (envOf S D' v) (.ent t i flds) f := by
  unfold fval fieldValue
  have hk : ∀ o', evalSels (envOf S D v) o' [] [] = evalSels (envOf S D' v) o' [] [] := by
    intro o'; rw [evalSels, evalSels]
  have hc := completeWith_congr D (fun o' => evalSels (envOf S D v) o' [] []) (fun o' => evalSels (envOf S D' v) o' [] [])
    (echoArgs (envOf S D v) []) (echoArgs (envOf S D' v) []) hk (by intro j; simp [echoArgs]) f.2.1
  have hd := completeWith_data D D' hE (fun o' => evalSels (envOf S D' v) o' [] []) (echoArgs (envOf S D' v) []) f.2.1
  simp only [envOf, storedValue] at hc hd ⊢
  simp only [hc, hd]

/-- **C17 on the flat subscription family, event data and downstream data apart**: the event and the
    single-server answer are evaluated over `Dev` (the data at the moment of the event), the child
    step is answered by `B` over `D` (the data behind the entry's downstream); the two agree on the
    entities. `flat_event_stitched` is the case `Dev = D`. -/
theorem flat_event_stitched2 (h : Fam c A B T s fs)
    (svcs : List Svc) (SA SB : Schema) (D Dev : Data) (e : Entity) (r : List (String × J))
    (hs1 : '#' ∉ s.toList) (hs2 : ':' ∉ s.toList) (hsne : s ≠ "") (hine : e.id ≠ "")
    (hnne : ∀ n ∈ namesOf fs, n ≠ "")
    (hsB : svcs.find? (·.url == B) = some ⟨B, SB⟩)
    (hSB : ∃ td, SB.type? T = some td ∧ td.kind = .object)
    (hE : Dev.entities = D.entities)
    (hroot : dlookup s (Dev.root "Subscription") = some (.ref e.id)) (hent : Dev.entity? e.id = some e) (hty : e.type = T)
    (href : Spec.eval c.schema Dev (opOf T s fs) [] = some (.obj [(s, .obj r)])) :
    ∃ (a d : List (String × J)),
      eventOf SA Dev (upstreamStep (rootStep A B T s fs)) = some (.obj [(s, .obj (("id", .str e.id) :: a))])
      ∧ SubEntry.prepare (pipelineOf c {} none (specDownstream svcs D) (rootStep A B T s fs) (scrubOf T s))
          ⟨some (.obj [(s, .obj (("id", .str e.id) :: a))]), []⟩ = ⟨some (.obj [(s, .obj d)]), []⟩
      ∧ d.Perm r := by
  have hsne' : s.toList ≠ [] := by
    intro hnil; apply hsne; rw [← String.ofList_toList (s := s), hnil]
  have hentD : D.entity? e.id = some e := by
    have : D.entity? e.id = Dev.entity? e.id := by simp [Data.entity?, hE]
    rw [this]; exact hent
  have hrefM : evalSels (envOf c.schema Dev []) (.ent e.type e.id e.fields) (leaves fs) [] = some r := by
    unfold Spec.eval opOf at href
    simp only [OpKind.rootName, Q] at href
    have := eval_root_s (envOf c.schema Dev []) T s e (leaves fs) h.hqb hsne hroot hent
    simp only [envOf] at this
    rw [this] at href
    cases hr : evalSels ⟨c.schema, Dev, [], []⟩ (.ent e.type e.id e.fields) (leaves fs) [] with
    | none => simp [hr] at href
    | some kvs => simp [hr] at href; subst href; simpa only [envOf] using hr
  obtain ⟨ra, rb, -, hrb, hperm, hownA, hvalB, hkA, hkB, hne⟩ :=
    FlatList.entity_sharesT h.toFamT SA SB Dev e r hnne hine hrefM
  obtain ⟨⟨-, hbnd, hdisj⟩, hid, htn, -⟩ := FlatList.shares_goodT h.toFamT e.id ra rb hine hkA hkB hne
  have hev : eventOf SA Dev (upstreamStep (rootStep A B T s fs)) = some (.obj (respA s e.id ra)) := by
    have hev := eval_root_s (envOf SA Dev []) T s e (idField :: leaves (fsA fs)) h.hqb hsne hroot hent
    rw [hownA] at hev
    have hsels : (upstreamStep (rootStep A B T s fs)).sels
        = [.field s s [] [] (.named T) [] (idField :: leaves (fsA fs))] := rfl
    simp only [eventOf, Spec.eval, OpKind.rootName, hsels]
    simp only [envOf] at hev
    rw [hev]
    simp [respA]
  -- `B` answers over `D`: the same share
  have hsubB := FlatList.names_subB fs
  have hndB : (namesOf (fsB fs)).Nodup := h.hnd.sublist hsubB
  have hnneB : ∀ n ∈ namesOf (fsB fs), n ≠ "" := fun n hn => hnne n (hsubB.subset hn)
  have hvalB' : evalSels (envOf SB D [("id", .str e.id)]) (.ent e.type e.id e.fields) (leaves (fsB fs)) [] = some rb := by
    rw [evalSels_leaves _ _ _ hndB hnneB] at hvalB ⊢
    rw [← hvalB]
    exact mapM_congr _ (fun f => (fval_ent_data SB Dev D hE _ _ _ _ f).symm)
  have hB : fsB fs ≠ [] → specDownstream svcs D B [rqOf c (stepB B T s (fsB fs)) [("id", .str e.id)]]
      = .ok [[("node", .obj rb)]] := by
    intro _
    have hhdr : (header c (stepB B T s (fsB fs))).kind = .query := by simp [header, stepB, Step.ip]
    have hnl := eval_node_lookup (envOf SB D [("id", .str e.id)]) e (leaves (fsB fs)) rb hentD
      (by simp [envOf, J.lookup]) (by rw [hty]; exact hSB) hvalB'
    have hsels : (stepB B T s (fsB fs)).sels = convertToNodeQuery T (leaves (fsB fs)) := rfl
    simp only [specDownstream, hsB, rqOf, List.map_cons, List.map_nil, hhdr, Spec.eval, OpKind.rootName, hsels]
    rw [hty] at hnl
    simp only [envOf] at hnl
    rw [hnl]
    simp
  have hb0 : fsB fs = [] → rb = [] := by
    intro hnil; rw [hnil] at hrb; simpa using hrb.symm
  have hprep := prepare_event (A := A) h.toFamT (specDownstream svcs D) e.id ra rb hs1 hs2 hsne' hine hB hb0 hbnd hdisj
    hid htn hne
  exact ⟨ra, ra ++ rb, hev, hprep, hperm⟩

/-- the data at the moment of an event about the entity with id `i`: the shared entity graph, the
    subscription's root field referring to that entity -/
def atEvent (D : Data) (s i : String) : Data := ⟨D.entities, [("Subscription", [(s, .ref i)])]⟩

theorem atEvent_root (D : Data) (s i : String) : dlookup s ((atEvent D s i).root "Subscription") = some (.ref i) := by
  simp [atEvent, Data.root, dlookup]

/-- the response the upstream reader hands to `Listen` for an event -/
def respOf (ev : J) : SubEntry.Resp := ⟨some ev, []⟩

/-- the payload of a frame carrying the object `d` under `s`, no errors -/
def payloadOf (s : String) (d : List (String × J)) : SubEntry.Resp := ⟨some (.obj [(s, .obj d)]), []⟩

/-- **A history of events**: for every list `es` of entities of the graph `D` — the k-th event is
    about `es[k]` — the events `A` emits are objects, and `prepareResponse` turns the k-th into the
    single-server answer `rs[k]` of the subscription operation at that moment (up to key order),
    without errors. The entry's pipeline is ONE (built over the downstream `specDownstream svcs D`). -/
theorem flat_history_stitched (h : Fam c A B T s fs)
    (svcs : List Svc) (SA SB : Schema) (D : Data)
    (hs1 : '#' ∉ s.toList) (hs2 : ':' ∉ s.toList) (hsne : s ≠ "")
    (hnne : ∀ n ∈ namesOf fs, n ≠ "")
    (hsB : svcs.find? (·.url == B) = some ⟨B, SB⟩)
    (hSB : ∃ td, SB.type? T = some td ∧ td.kind = .object) :
    ∀ (es : List Entity) (rs : List (List (String × J))), rs.length = es.length →
    (∀ e ∈ es, e.id ≠ "" ∧ D.entity? e.id = some e ∧ e.type = T) →
    (∀ (k : Nat) (e : Entity) (r : List (String × J)), es[k]? = some e → rs[k]? = some r →
      Spec.eval c.schema (atEvent D s e.id) (opOf T s fs) [] = some (.obj [(s, .obj r)])) →
    ∃ (events : List J) (ds : List (List (String × J))),
      events.map some = es.map (fun e => eventOf SA (atEvent D s e.id) (upstreamStep (rootStep A B T s fs)))
      ∧ events.map (fun ev => SubEntry.prepare
            (pipelineOf c {} none (specDownstream svcs D) (rootStep A B T s fs) (scrubOf T s)) (respOf ev))
          = ds.map (payloadOf s)
      ∧ ds.length = es.length
      ∧ ∀ (k : Nat) (d r : List (String × J)), ds[k]? = some d → rs[k]? = some r → d.Perm r
  | [], rs, hlen, _, _ => by
    have : rs = [] := List.eq_nil_of_length_eq_zero hlen
    subst this
    exact ⟨[], [], rfl, rfl, rfl, by intro k d r hd; simp at hd⟩
  | e :: es, rs, hlen, hes, href => by
    cases rs with
    | nil => simp at hlen
    | cons r rs =>
      obtain ⟨hine, hent, hty⟩ := hes e (by simp)
      obtain ⟨a, d, hev, hprep, hperm⟩ := flat_event_stitched2 (A := A) h svcs SA SB D (atEvent D s e.id) e r hs1 hs2 hsne hine
        hnne hsB hSB rfl (atEvent_root D s e.id) hent hty (href 0 e r rfl rfl)
      obtain ⟨events, ds, h1, h2, h3, h4⟩ := flat_history_stitched h svcs SA SB D hs1 hs2 hsne hnne hsB hSB es rs
        (by simpa using hlen) (fun x hx => hes x (by simp [hx]))
        (fun k x y hx hy => href (k + 1) x y (by simpa using hx) (by simpa using hy))
      refine ⟨.obj [(s, .obj (("id", .str e.id) :: a))] :: events, d :: ds, ?_, ?_, by simp [h3], ?_⟩
      · simp only [List.map_cons, hev, h1]
      · rw [List.map_cons, List.map_cons, h2]
        simp only [respOf, hprep, payloadOf]
      · intro k d' r' hd hr
        cases k with
        | zero =>
          simp only [List.getElem?_cons_zero, Option.some.injEq] at hd hr
          subst hd; subst hr; exact hperm
        | succ k =>
          simp only [List.getElem?_cons_succ] at hd hr
          exact h4 k d' r' hd hr

end PebblesVerif.SubFlat

/-! ### the history statement by evaluation on the concrete federation (a test) -/
namespace PebblesVerif.SubFlat.Example
open PebblesVerif PebblesVerif.Exec PebblesVerif.Spec PebblesVerif.Flat PebblesVerif.SubStitch

def expected2 : List (String × J) := [("age", .str "3"), ("name", .str "tom"), ("sound", .null)]

/-- the frames for the events about `es`, the entry built once over the data `D0` -/
def framesFor (D0 : Data) (es : List Entity) : Option (List SubEntry.Frame) :=
  match newEntry ctx {} (op fs) none (specDownstream svcs D0) with
  | .ok (up, p) =>
    (es.mapM (fun e => SubFlat.eventOf schemaA (atEvent D0 "animalChanged" e.id) up)).map
      (fun evs => SubEntry.framesOf "sub-1" p (evs.map (fun ev => .data ⟨some ev, []⟩)))
  | .error _ => none

#guard framesFor (dataOf e1) [e1, e2, e1] == some [
  ⟨"sub-1", ⟨some (ans [("name", .str "rex"), ("sound", .null), ("age", .str "7")]), []⟩⟩,
  ⟨"sub-1", ⟨some (ans [("name", .str "tom"), ("sound", .null), ("age", .str "3")]), []⟩⟩,
  ⟨"sub-1", ⟨some (ans [("name", .str "rex"), ("sound", .null), ("age", .str "7")]), []⟩⟩]

end PebblesVerif.SubFlat.Example
