import PebblesVerif.Model.SubInit
/-! Inductive invariant of the establishment phase of `Subscribe` (Model/SubInit.lean), for BOTH
variants (the pre-repair code does not panic either: its defect is the leak), every interleaving. -/
namespace PebblesVerif.SubInit
open PebblesVerif.SubProto (CqPc)

/-- the caller has got the error of the write that failed, and `failedCh` is closed iff the
    variant has one -/
def Failed (v : Variant) (s : St) : Prop :=
  s.s ≠ .wait ∧ s.failed = v.rel ∧ ∃ w, s.fault = some w ∧ s.result = some (some w)

/-- what is true when the reader is at `pc` -/
def RInv (v : Variant) (s : St) : RPc → Prop
  | .wInit => s.s = .wait ∧ s.failed = false ∧ s.fault = none ∧ s.wrote = 0 ∧ s.result = none
      ∧ s.upClosed = false ∧ s.c = .recvQ
  | .wStart => s.s = .wait ∧ s.failed = false ∧ s.fault = none ∧ s.wrote = 1 ∧ s.result = none
      ∧ s.upClosed = false ∧ s.c = .recvQ
  | .sendOk => s.s = .wait ∧ s.failed = false ∧ s.fault = none ∧ s.wrote = 2 ∧ s.result = none
      ∧ s.upClosed = false ∧ s.c = .recvQ
  | .est => s.s ≠ .wait ∧ s.failed = false ∧ s.fault = none ∧ s.wrote = 2 ∧ s.result = some none
      ∧ s.upClosed = false ∧ s.c = .recvQ
  | .closeF w => v = .repaired ∧ s.s = .wait ∧ s.failed = false ∧ s.fault = some w ∧ s.result = none
      ∧ s.c = .recvQ
  | .sendErr w => s.s = .wait ∧ s.failed = v.rel ∧ s.fault = some w ∧ s.result = none
  | .dUpClose => Failed v s
  | .dSel => v = .repaired ∧ Failed v s ∧ s.upClosed = true
  | .sendNil => v = .preRepair ∧ Failed v s ∧ s.upClosed = true
  | .done => v = .repaired ∧ Failed v s ∧ s.upClosed = true

structure Inv (v : Variant) (s : St) : Prop where
  nofatal : s.fatal = none
  chQ : s.chQ = false
  errc : s.errClosed = true ↔ s.s = .done
  c1 : s.c ≠ .recvQ → v = .repaired ∧ s.failed = true
  c2 : s.c = .done → s.upClosed = true
  r : RInv v s s.r

theorem inv_init (v : Variant) : Inv v init := by
  refine ⟨rfl, rfl, ?_, ?_, ?_, ?_⟩ <;> simp [init, RInv]

theorem inv_step {v : Variant} {s s' : St} {e : Ev} (hi : Inv v s) (hs : Step v s e s') : Inv v s' := by
  obtain ⟨hf, hq, herr, hc1, hc2, hr⟩ := hi
  have hf' : s.fatal.isSome = false := by rw [hf]; rfl
  unfold Step step? at hs
  simp only [hf', Bool.false_eq_true, if_false] at hs
  cases e with
  | rqWrite ok =>
    simp only at hs
    split at hs
    · -- wInit
      rename_i hpc
      rw [hpc] at hr
      obtain ⟨h1, h2, h3, h4, h5, h6, h7⟩ := hr
      cases ok with
      | true =>
        simp only [if_true, h6, Bool.false_eq_true, if_false] at hs
        cases hs
        exact ⟨hf, hq, herr, hc1, by simp [h7], by simp [RInv, h1, h2, h3, h4, h5, h7]⟩
      | false =>
        simp only [Bool.false_eq_true, if_false] at hs
        cases hs
        refine ⟨hf, hq, herr, hc1, hc2, ?_⟩
        cases v <;> simp [RInv, failNext, Variant.rel, h1, h2, h5, h7]
    · -- wStart
      rename_i hpc
      rw [hpc] at hr
      obtain ⟨h1, h2, h3, h4, h5, h6, h7⟩ := hr
      cases ok with
      | true =>
        simp only [if_true, h6, Bool.false_eq_true, if_false] at hs
        cases hs
        exact ⟨hf, hq, herr, hc1, by simp [h7], by simp [RInv, h1, h2, h3, h4, h5, h7]⟩
      | false =>
        simp only [Bool.false_eq_true, if_false] at hs
        cases hs
        refine ⟨hf, hq, herr, hc1, hc2, ?_⟩
        cases v <;> simp [RInv, failNext, Variant.rel, h1, h2, h5, h7]
    · cases hs
  | rqCloseF =>
    simp only at hs
    split at hs
    · rename_i w hpc
      rw [hpc] at hr
      obtain ⟨hv, h1, h2, h3, h4, h5⟩ := hr
      simp only [h2, Bool.false_eq_true, if_false] at hs
      cases hs
      refine ⟨hf, hq, herr, ?_, hc2, ?_⟩
      · intro _; exact ⟨hv, rfl⟩
      · subst hv; simp [RInv, Variant.rel, h1, h3, h4]
    · cases hs
  | rqSend =>
    simp only at hs
    split at hs
    · rename_i w hpc
      rw [hpc] at hr
      obtain ⟨h1, h2, h3, h4⟩ := hr
      have hec : s.errClosed = false := by
        cases hh : s.errClosed with
        | false => rfl
        | true => have := herr.mp hh; rw [h1] at this; cases this
      simp only [sendOn, hec, Bool.false_eq_true, if_false, h1, if_true] at hs
      cases hs
      refine ⟨hf, hq, ?_, hc1, hc2, ?_⟩
      · simp
      · simp [RInv, Failed, h2, h3]
    · rename_i hpc
      rw [hpc] at hr
      obtain ⟨h1, h2, h3, h4, h5, h6, h7⟩ := hr
      have hec : s.errClosed = false := by
        cases hh : s.errClosed with
        | false => rfl
        | true => have := herr.mp hh; rw [h1] at this; cases this
      simp only [sendOn, hec, Bool.false_eq_true, if_false, h1, if_true] at hs
      cases hs
      refine ⟨hf, hq, ?_, hc1, hc2, ?_⟩
      · simp
      · simp [RInv, h2, h3, h4, h6, h7]
    · cases hs
  | sCloseErr =>
    simp only at hs
    split at hs
    · rename_i hpc
      have hec : s.errClosed = false := by
        cases hh : s.errClosed with
        | false => rfl
        | true => have := herr.mp hh; rw [hpc] at this; cases this
      simp only [hec, Bool.false_eq_true, if_false] at hs
      cases hs
      refine ⟨hf, hq, by simp, hc1, hc2, ?_⟩
      -- the reader is past its send: nothing it knows mentions `closeErr` vs `done`
      have hne : s.s ≠ .wait := by rw [hpc]; simp
      revert hr
      cases s.r <;> simp [RInv, Failed, hpc]
    · cases hs
  | cqRecv =>
    simp only at hs
    split at hs
    · rename_i hc
      cases hs
      obtain ⟨hcq, hor⟩ := hc
      have hfl : v.rel = true ∧ s.failed = true := by
        rcases hor with h | h
        · rw [hq] at h; cases h
        · exact h
      have hv : v = .repaired := by
        cases v with
        | repaired => rfl
        | preRepair => simp [Variant.rel] at hfl
      refine ⟨hf, hq, herr, fun _ => ⟨hv, hfl.2⟩, by simp, ?_⟩
      revert hr
      cases hr' : s.r <;> simp [RInv, Failed, hcq, hfl.2]
      all_goals (intros; simp_all)
    · cases hs
  | cqUpClose =>
    simp only at hs
    split at hs
    · rename_i hc
      cases hs
      have hcf := hc1 (by rw [hc]; simp)
      refine ⟨hf, hq, herr, fun _ => hcf, by simp, ?_⟩
      revert hr
      cases hr' : s.r <;> simp [RInv, Failed, hc, hcf.2]
      all_goals (intros; simp_all)
    · cases hs
  | rqUpClose =>
    simp only at hs
    split at hs
    · rename_i hpc
      cases hs
      rw [hpc] at hr
      refine ⟨hf, hq, herr, hc1, by simp, ?_⟩
      cases v
      · exact ⟨rfl, hr, rfl⟩
      · exact ⟨rfl, hr, rfl⟩
    · cases hs
  | rqSel =>
    simp only at hs
    split at hs
    · rename_i hpc
      cases hs
      rw [hpc] at hr
      obtain ⟨hv, hfd, hup⟩ := hr
      have hfl : s.failed = true := by rw [hfd.2.1, hv]; rfl
      refine ⟨hf, hq, herr, hc1, hc2, ?_⟩
      show RInv v _ (if s.failed = true then RPc.done else RPc.sendNil)
      rw [if_pos hfl]
      exact ⟨hv, hfd, hup⟩
    · cases hs
  | rqNilAbort =>
    simp only at hs
    split at hs
    · rename_i hc
      rw [hq] at hc; simp at hc
    · cases hs

theorem reach_inv {v : Variant} {s : St} (h : Reach v s) : Inv v s := by
  induction h with
  | init => exact inv_init v
  | step _ hs ih => exact inv_step ih hs

end PebblesVerif.SubInit
