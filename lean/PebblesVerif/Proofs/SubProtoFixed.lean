import PebblesVerif.Model.SubProtoFixed
/-! Inductive invariant of the repaired teardown protocol (`knobs = good`), for every finite
history of the environment, every interleaving and ANY number of `Close()` executions. -/
namespace PebblesVerif.SubProtoFixed
open PebblesVerif.SubProto (Cfg Conn CqPc RqPc HPc)

/-- what a closer at `pc` knows about `isClosed` / `closeCh` -/
def Local (isClosed chC : Bool) : KPc → Prop
  | .lock => True
  | .check => isClosed = true → chC = true
  | .set => isClosed = false
  | .closeC => isClosed = true ∧ chC = false
  | .unlock late => late = false ∧ isClosed = true ∧ chC = true
  | .setLate => False
  | .done => isClosed = true ∧ chC = true

/-- the part of the invariant that concerns the closers, the entry's mutex and `closeCh` -/
structure InvK (ks : List KPc) (mutex : Option Nat) (isClosed chC : Bool) : Prop where
  hold : ∀ i : Nat, mutex = some i ↔ ∃ pc : KPc, ks[i]? = some pc ∧ pc.crit = true
  loc : ∀ (i : Nat) (pc : KPc), ks[i]? = some pc → Local isClosed chC pc
  g1 : chC = true → isClosed = true
  g2 : mutex = none → isClosed = true → chC = true

structure Inv (s : St) : Prop where
  k : InvK s.ks s.mutex s.isClosed s.chC
  nofatal : s.fatal = none
  lq : s.chQ = true ↔ s.l = .done
  lx : ∀ i, s.l = .xclose i → i < s.ks.length
  cq1 : s.cq ≠ .recvQ → s.chQ = true
  cq2 : s.cq = .done → s.upClosed = true
  rq1 : (s.rq = .sendNil ∨ s.rq = .done) → s.upClosed = true
  rq2 : s.rq = .done → s.l ≠ .sel ∧ s.l ≠ .write
  h1 : s.h = .done → s.dict = false
  h2 : s.dict = false → s.ks ≠ []
  h3 : s.conn = .closed → (s.h = .cleanAll ∨ s.h = .done)

theorem lt_of_getElem?_eq_some {α} {l : List α} {i : Nat} {a : α} (h : l[i]? = some a) :
    i < l.length := by
  rcases Nat.lt_or_ge i l.length with h' | h'
  · exact h'
  · rw [List.getElem?_eq_none h'] at h; cases h

theorem getElem?_set_of {α} {l : List α} {i j : Nat} {a b : α} (h : l[i]? = some a) :
    (l.set i b)[j]? = if i = j then some b else l[j]? := by
  rw [List.getElem?_set]
  have := lt_of_getElem?_eq_some h
  split <;> simp_all

theorem getElem?_snoc {α} {l : List α} {x a : α} {i : Nat} (h : (l ++ [x])[i]? = some a) :
    l[i]? = some a ∨ (i = l.length ∧ a = x) := by
  rcases Nat.lt_or_ge i l.length with h' | h'
  · rw [List.getElem?_append_left h'] at h; exact Or.inl h
  · rw [List.getElem?_append_right h'] at h
    cases hd : i - l.length with
    | zero => simp [hd] at h; exact Or.inr ⟨by omega, h.symm⟩
    | succ n => simp [hd] at h

theorem InvK.spawn {ks m a b} (h : InvK ks m a b) : InvK (ks ++ [.lock]) m a b := by
  refine ⟨?_, ?_, h.g1, h.g2⟩
  · intro i
    rw [h.hold i]
    constructor
    · rintro ⟨pc, hpc, hc⟩
      exact ⟨pc, by rw [List.getElem?_append_left (lt_of_getElem?_eq_some hpc)]; exact hpc, hc⟩
    · rintro ⟨pc, hpc, hc⟩
      rcases getElem?_snoc hpc with h1 | ⟨_, h1⟩
      · exact ⟨pc, h1, hc⟩
      · subst h1; simp [KPc.crit] at hc
  · intro i pc hpc
    rcases getElem?_snoc hpc with h1 | ⟨_, h1⟩
    · exact h.loc i pc h1
    · subst h1; trivial

theorem InvK.spawnIf {ks m a b} (h : InvK ks m a b) (d : Bool) : InvK (spawnIf d ks) m a b := by
  unfold SubProtoFixed.spawnIf; split
  · exact h.spawn
  · exact h

theorem length_spawnIf (d : Bool) (ks : List KPc) : ks.length ≤ (spawnIf d ks).length := by
  unfold spawnIf; split <;> simp

/-- a closer that holds the mutex is the only one inside the critical section -/
theorem InvK.unique {ks m a b} (h : InvK ks m a b) {i j pc} (hm : m = some i)
    (hj : ks[j]? = some pc) (hc : pc.crit = true) : j = i := by
  have := (h.hold j).mpr ⟨pc, hj, hc⟩
  rw [hm] at this; cases this; rfl

theorem InvK.holder {ks m a b} (h : InvK ks m a b) {i pc} (hi : ks[i]? = some pc)
    (hc : pc.crit = true) : m = some i := (h.hold i).mpr ⟨pc, hi, hc⟩

/-- the effect of one statement of `Close()` on the closer part of the invariant -/
theorem InvK.kstep {kn s i pc s'} (hk : kn = good) (h : InvK s.ks s.mutex s.isClosed s.chC)
    (hf : s.fatal = none) (hi : s.ks[i]? = some pc) (hs : closeStep kn i s pc = some s') :
    InvK s'.ks s'.mutex s'.isClosed s'.chC ∧ s'.fatal = none ∧ s'.ks.length = s.ks.length
      ∧ s'.l = s.l ∧ s'.cq = s.cq ∧ s'.rq = s.rq ∧ s'.h = s.h ∧ s'.dict = s.dict ∧ s'.chQ = s.chQ
      ∧ s'.upClosed = s.upClosed ∧ s'.conn = s.conn ∧ s'.evs = s.evs ∧ s'.spawn = s.spawn
      ∧ (∃ pc', s'.ks = s.ks.set i pc' ∧ kW pc' < kW pc) := by
  subst hk
  have hloc := h.loc i pc hi
  cases pc with
  | lock =>
    simp only [closeStep] at hs
    split at hs
    · rename_i hm
      cases hs
      have hget := fun j => getElem?_set_of (b := KPc.check) (j := j) hi
      refine ⟨⟨?_, ?_, h.g1, by intro hh; cases hh⟩, hf, by simp, rfl, rfl, rfl, rfl, rfl, rfl, rfl, rfl, rfl, rfl,
        ⟨_, rfl, by simp [kW]⟩⟩
      · intro j
        simp only [hget]
        constructor
        · intro hj; cases hj; exact ⟨.check, by simp, rfl⟩
        · rintro ⟨pc', hpc', hc⟩
          split at hpc'
          · rename_i hij; subst hij; rfl
          · have := h.holder hpc' hc; rw [hm] at this; cases this
      · intro j pc' hpc'
        simp only [hget] at hpc'
        split at hpc'
        · cases hpc'; exact h.g2 hm
        · exact h.loc j pc' hpc'
    · cases hs
  | check =>
    simp only [closeStep] at hs
    cases hs
    have hm : s.mutex = some i := h.holder hi rfl
    by_cases ha : s.isClosed = true
    · have e : checkNext good s.isClosed = KPc.unlock false := by rw [ha]; rfl
      rw [e]
      have hget := fun j => getElem?_set_of (b := KPc.unlock false) (j := j) hi
      refine ⟨⟨?_, ?_, h.g1, h.g2⟩, hf, by simp, rfl, rfl, rfl, rfl, rfl, rfl, rfl, rfl, rfl, rfl,
        ⟨_, rfl, by simp [kW]⟩⟩
      · intro j
        rw [h.hold j]; simp only [hget]
        constructor
        · rintro ⟨pc', hpc', hc⟩
          have := h.unique hm hpc' hc; subst this
          exact ⟨KPc.unlock false, by simp, rfl⟩
        · rintro ⟨pc', hpc', hc⟩
          split at hpc'
          · rename_i hij; subst hij; exact ⟨_, hi, rfl⟩
          · exact ⟨pc', hpc', hc⟩
      · intro j pc' hpc'
        simp only [hget] at hpc'
        split at hpc'
        · cases hpc'; exact ⟨rfl, ha, hloc ha⟩
        · exact h.loc j pc' hpc'
    · have ha' : s.isClosed = false := by cases hh : s.isClosed <;> simp_all
      have e : checkNext good s.isClosed = KPc.set := by rw [ha']; rfl
      rw [e]
      have hget := fun j => getElem?_set_of (b := KPc.set) (j := j) hi
      refine ⟨⟨?_, ?_, h.g1, h.g2⟩, hf, by simp, rfl, rfl, rfl, rfl, rfl, rfl, rfl, rfl, rfl, rfl,
        ⟨_, rfl, by simp [kW]⟩⟩
      · intro j
        rw [h.hold j]; simp only [hget]
        constructor
        · rintro ⟨pc', hpc', hc⟩
          have := h.unique hm hpc' hc; subst this
          exact ⟨KPc.set, by simp, rfl⟩
        · rintro ⟨pc', hpc', hc⟩
          split at hpc'
          · rename_i hij; subst hij; exact ⟨_, hi, rfl⟩
          · exact ⟨pc', hpc', hc⟩
      · intro j pc' hpc'
        simp only [hget] at hpc'
        split at hpc'
        · cases hpc'; exact ha'
        · exact h.loc j pc' hpc'
  | set =>
    simp only [closeStep] at hs
    cases hs
    have hm : s.mutex = some i := h.holder hi rfl
    have ha : s.isClosed = false := hloc
    have hb : s.chC = false := by
      cases hh : s.chC with
      | false => rfl
      | true => have := h.g1 hh; rw [ha] at this; cases this
    have hget := fun j => getElem?_set_of (b := KPc.closeC) (j := j) hi
    refine ⟨⟨?_, ?_, fun _ => rfl, by intro hh; rw [hm] at hh; cases hh⟩, hf, by simp, rfl, rfl, rfl, rfl, rfl,
      rfl, rfl, rfl, rfl, rfl, ⟨_, rfl, by simp [kW]⟩⟩
    · intro j
      rw [h.hold j]; simp only [hget]
      constructor
      · rintro ⟨pc', hpc', hc⟩
        have := h.unique hm hpc' hc; subst this
        exact ⟨KPc.closeC, by simp, rfl⟩
      · rintro ⟨pc', hpc', hc⟩
        split at hpc'
        · rename_i hij; subst hij; exact ⟨_, hi, rfl⟩
        · exact ⟨pc', hpc', hc⟩
    · intro j pc' hpc'
      simp only [hget] at hpc'
      split at hpc'
      · cases hpc'; exact ⟨rfl, hb⟩
      · rename_i hij
        have hold := h.loc j pc' hpc'
        cases pc' with
        | lock => trivial
        | setLate => exact hold
        | done => rw [ha] at hold; cases hold.1
        | check => exact absurd (h.unique hm hpc' rfl) (fun e => hij e.symm)
        | set => exact absurd (h.unique hm hpc' rfl) (fun e => hij e.symm)
        | closeC => exact absurd (h.unique hm hpc' rfl) (fun e => hij e.symm)
        | unlock l => exact absurd (h.unique hm hpc' rfl) (fun e => hij e.symm)
  | closeC =>
    have hm : s.mutex = some i := h.holder hi rfl
    obtain ⟨ha, hb⟩ : s.isClosed = true ∧ s.chC = false := hloc
    simp only [closeStep, hb, Bool.false_eq_true, if_false, good, Bool.not_true] at hs
    cases hs
    have hget := fun j => getElem?_set_of (b := KPc.unlock false) (j := j) hi
    refine ⟨⟨?_, ?_, fun _ => ha, by intro hh; rw [hm] at hh; cases hh⟩, hf, by simp, rfl, rfl, rfl, rfl, rfl,
      rfl, rfl, rfl, rfl, rfl, ⟨_, rfl, by simp [kW]⟩⟩
    · intro j
      rw [h.hold j]; simp only [hget]
      constructor
      · rintro ⟨pc', hpc', hc⟩
        have := h.unique hm hpc' hc; subst this
        exact ⟨KPc.unlock false, by simp, rfl⟩
      · rintro ⟨pc', hpc', hc⟩
        split at hpc'
        · rename_i hij; subst hij; exact ⟨_, hi, rfl⟩
        · exact ⟨pc', hpc', hc⟩
    · intro j pc' hpc'
      simp only [hget] at hpc'
      split at hpc'
      · cases hpc'; exact ⟨rfl, ha, rfl⟩
      · rename_i hij
        have hold := h.loc j pc' hpc'
        cases pc' with
        | lock => trivial
        | setLate => exact hold
        | done => rw [hb] at hold; cases hold.2
        | check => exact absurd (h.unique hm hpc' rfl) (fun e => hij e.symm)
        | set => exact absurd (h.unique hm hpc' rfl) (fun e => hij e.symm)
        | closeC => exact absurd (h.unique hm hpc' rfl) (fun e => hij e.symm)
        | unlock l => exact absurd (h.unique hm hpc' rfl) (fun e => hij e.symm)
  | unlock late =>
    have hm : s.mutex = some i := h.holder hi rfl
    obtain ⟨hl, ha, hb⟩ : late = false ∧ s.isClosed = true ∧ s.chC = true := hloc
    subst hl
    simp only [closeStep, hm, reduceCtorEq, if_false, Bool.false_eq_true] at hs
    cases hs
    have hget := fun j => getElem?_set_of (b := KPc.done) (j := j) hi
    refine ⟨⟨?_, ?_, h.g1, fun _ _ => hb⟩, hf, by simp, rfl, rfl, rfl, rfl, rfl,
      rfl, rfl, rfl, rfl, rfl, ⟨_, rfl, by simp [kW]⟩⟩
    · intro j
      simp only [hget]
      constructor
      · intro hh; cases hh
      · rintro ⟨pc', hpc', hc⟩
        split at hpc'
        · cases hpc'; simp [KPc.crit] at hc
        · rename_i hij
          exact absurd (h.unique hm hpc' hc) (fun e => hij e.symm)
    · intro j pc' hpc'
      simp only [hget] at hpc'
      split at hpc'
      · cases hpc'; exact ⟨ha, hb⟩
      · exact h.loc j pc' hpc'
  | setLate => exact absurd hloc (by simp [Local])
  | done => simp [closeStep] at hs

theorem inv_init (c : Cfg) : Inv (init c) := by
  refine ⟨⟨?_, ?_, ?_, ?_⟩, rfl, ?_, ?_, ?_, ?_, ?_, ?_, ?_, ?_, ?_⟩ <;> simp [init]

theorem inv_lExit {s : St} (h : Inv s) (hl : s.l ≠ .done) {rq : RqPc}
    (hr1 : (rq = .sendNil ∨ rq = .done) → s.upClosed = true) :
    Inv { lExit s with rq := rq } := by
  have hq : s.chQ ≠ true := fun hh => hl (h.lq.mp hh)
  refine ⟨h.k.spawn, h.nofatal, ?_, ?_, h.cq1, h.cq2, hr1, ?_, h.h1, ?_, h.h3⟩
  · simp [lExit, hq]
  · intro i hi; simp [lExit] at hi ⊢; omega
  · intro _; simp [lExit]
  · intro _; simp [lExit]

theorem inv_step {c : Cfg} {s e s'} (h : Inv s) (hs : Step good c s e s') : Inv s' := by
  have hf : s.fatal.isSome = false := by rw [h.nofatal]; rfl
  unfold Step step? at hs
  simp only [hf, Bool.false_eq_true, if_false] at hs
  cases e with
  | upEvent =>
    simp only at hs; split at hs
    · cases hs
      exact ⟨h.k, h.nofatal, h.lq, h.lx, h.cq1, h.cq2, by simp, by simp, h.h1, h.h2, h.h3⟩
    · cases hs
  | upEnd =>
    simp only at hs; split at hs
    · cases hs
      exact ⟨h.k, h.nofatal, h.lq, h.lx, h.cq1, h.cq2, by simp, by simp, h.h1, h.h2, h.h3⟩
    · cases hs
  | clStop =>
    simp only at hs; split at hs
    · cases hs
      refine ⟨h.k.spawn, h.nofatal, h.lq, ?_, h.cq1, h.cq2, h.rq1, h.rq2, fun _ => rfl, by simp, h.h3⟩
      intro i hi; have := h.lx i hi; simp; omega
    · cases hs
  | clTerminate =>
    simp only at hs; split at hs
    · rename_i hc; cases hs
      refine ⟨h.k.spawnIf _, h.nofatal, h.lq, ?_, h.cq1, h.cq2, h.rq1, h.rq2, fun _ => rfl, ?_, ?_⟩
      · intro i hi; have := h.lx i hi; have := length_spawnIf s.dict s.ks; simp only; omega
      · intro _
        unfold spawnIf; split
        · simp
        · rename_i hd; exact h.h2 (by simpa using hd)
      · intro hcl; have := h.h3 hcl; simp [hc.1] at this
    · cases hs
  | clBad =>
    simp only at hs; split at hs
    · rename_i hc; cases hs
      refine ⟨h.k, h.nofatal, h.lq, h.lx, h.cq1, h.cq2, h.rq1, h.rq2, by simp, h.h2, ?_⟩
      intro hcl; have := h.h3 hcl; simp [hc.1] at this
    · cases hs
  | clGone =>
    simp only at hs; split at hs
    · cases hs
      exact ⟨h.k, h.nofatal, h.lq, h.lx, h.cq1, h.cq2, h.rq1, h.rq2, by simp, h.h2, by simp⟩
    · cases hs
  | spawnK =>
    simp only at hs; split at hs
    · cases hs
      refine ⟨h.k.spawn, h.nofatal, h.lq, ?_, h.cq1, h.cq2, h.rq1, h.rq2, h.h1, by simp, h.h3⟩
      intro i hi; have := h.lx i hi; simp; omega
    · cases hs
  | hCloseFrame ok =>
    simp only at hs; split at hs
    · split at hs
      · split at hs
        · rename_i hc; cases hs
          exact ⟨h.k, h.nofatal, h.lq, h.lx, h.cq1, h.cq2, h.rq1, h.rq2, by simp, h.h2,
            fun hcl => absurd hcl hc⟩
        · cases hs
      · split at hs
        · rename_i hc; cases hs
          refine ⟨h.k, h.nofatal, h.lq, h.lx, h.cq1, h.cq2, h.rq1, h.rq2, by simp [good], h.h2, ?_⟩
          intro hcl; simp only at hcl; rw [hc] at hcl; cases hcl
        · cases hs
    · cases hs
  | hConnClose =>
    simp only at hs; split at hs
    · cases hs
      exact ⟨h.k, h.nofatal, h.lq, h.lx, h.cq1, h.cq2, h.rq1, h.rq2, by simp, h.h2, by simp⟩
    · cases hs
  | hCleanAll =>
    simp only at hs; split at hs
    · cases hs
      refine ⟨h.k.spawnIf _, h.nofatal, h.lq, ?_, h.cq1, h.cq2, h.rq1, h.rq2, fun _ => rfl, ?_, by simp⟩
      · intro i hi; have := h.lx i hi; have := length_spawnIf s.dict s.ks; simp only; omega
      · intro _
        unfold spawnIf; split
        · simp
        · rename_i hd; exact h.h2 (by simpa using hd)
    · cases hs
  | k i =>
    simp only at hs; split at hs
    · rename_i pc hi
      obtain ⟨hk, hfat, hlen, hl, hcq, hrq, hh, hd, hq, hu, hcn, _, _, _⟩ := h.k.kstep rfl h.nofatal hi hs
      refine ⟨hk, hfat, by rw [hq, hl]; exact h.lq, ?_, by rw [hcq, hq]; exact h.cq1,
        by rw [hcq, hu]; exact h.cq2, by rw [hrq, hu]; exact h.rq1, by rw [hrq, hl]; exact h.rq2,
        by rw [hh, hd]; exact h.h1, ?_, by rw [hcn, hh]; exact h.h3⟩
      · intro j hj; rw [hl] at hj; rw [hlen]; exact h.lx j hj
      · intro hd'; rw [hd] at hd'
        have := h.h2 hd'
        intro hnil
        have : s'.ks.length = 0 := by rw [hnil]; rfl
        rw [hlen] at this
        exact ‹s.ks ≠ []› (List.length_eq_zero_iff.mp this)
    · cases hs
  | lRecv =>
    simp only at hs; split at hs
    · rename_i hc; cases hs
      have hq : s.chQ ≠ true := fun hh => by have := h.lq.mp hh; rw [hc.1] at this; cases this
      exact ⟨h.k, h.nofatal, by simp [hq], by simp, h.cq1, h.cq2, by simp, by simp, h.h1, h.h2, h.h3⟩
    · cases hs
  | lRecvNil =>
    simp only at hs; split at hs
    · rename_i hc; cases hs
      exact inv_lExit h (by rw [hc.1]; simp) (fun _ => h.rq1 (Or.inl hc.2))
    · cases hs
  | lRecvClose =>
    simp only at hs; split at hs
    · rename_i hc; cases hs
      have := inv_lExit h (rq := s.rq) (by rw [hc.1]; simp) h.rq1
      exact this
    · cases hs
  | lWrite ok =>
    simp only at hs; split at hs
    · rename_i hc
      split at hs
      · split at hs
        · cases hs
          have hq : s.chQ ≠ true := fun hh => by have := h.lq.mp hh; rw [hc] at this; cases this
          refine ⟨h.k, h.nofatal, by simp [hq], by simp, h.cq1, h.cq2, h.rq1, ?_, h.h1, h.h2, h.h3⟩
          intro hr; have := (h.rq2 hr).2; exact absurd hc this
        · cases hs
      · split at hs
        · cases hs
          have := inv_lExit h (rq := s.rq) (by rw [hc]; simp) h.rq1
          exact this
        · cases hs
    · cases hs
  | lJoin =>
    simp only at hs; split at hs
    · rename_i i hl
      split at hs
      · cases hs
        have hq : s.chQ ≠ true := fun hh => by have := h.lq.mp hh; rw [hl] at this; cases this
        exact ⟨h.k, h.nofatal, by simp [hq], by simp, h.cq1, h.cq2, h.rq1, by simp, h.h1, h.h2, h.h3⟩
      · cases hs
    · cases hs
  | lCloseQ =>
    simp only at hs; split at hs
    · rename_i hc
      have hq : s.chQ = false := by
        cases hh : s.chQ with
        | false => rfl
        | true => have := h.lq.mp hh; rw [hc] at this; cases this
      simp only [hq, Bool.false_eq_true, if_false] at hs
      cases hs
      exact ⟨h.k, h.nofatal, by simp, by simp, fun _ => rfl, h.cq2, h.rq1, by simp, h.h1, h.h2, h.h3⟩
    · cases hs
  | cqRecv =>
    simp only at hs; split at hs
    · rename_i hc; cases hs
      exact ⟨h.k, h.nofatal, h.lq, h.lx, fun _ => hc.2, by simp, h.rq1, h.rq2, h.h1, h.h2, h.h3⟩
    · cases hs
  | cqUpClose =>
    simp only at hs; split at hs
    · rename_i hc; cases hs
      exact ⟨h.k, h.nofatal, h.lq, h.lx, fun _ => h.cq1 (by rw [hc]; simp), fun _ => rfl, fun _ => rfl,
        h.rq2, h.h1, h.h2, h.h3⟩
    · cases hs
  | rqReadErr =>
    simp only at hs; split at hs
    · cases hs
      exact ⟨h.k, h.nofatal, h.lq, h.lx, h.cq1, h.cq2, by simp, by simp, h.h1, h.h2, h.h3⟩
    · cases hs
  | rqAbort =>
    simp only at hs; split at hs
    · cases hs
      exact ⟨h.k, h.nofatal, h.lq, h.lx, h.cq1, h.cq2, by simp, by simp, h.h1, h.h2, h.h3⟩
    · cases hs
  | rqUpClose =>
    simp only at hs; split at hs
    · cases hs
      exact ⟨h.k, h.nofatal, h.lq, h.lx, h.cq1, fun _ => rfl, fun _ => rfl, by simp, h.h1, h.h2, h.h3⟩
    · cases hs
  | rqNilAbort =>
    simp only at hs; split at hs
    · rename_i hc; cases hs
      have hl : s.l = .done := h.lq.mp hc.2.2
      exact ⟨h.k, h.nofatal, h.lq, h.lx, h.cq1, h.cq2, fun _ => h.rq1 (Or.inl hc.1), by simp [hl], h.h1, h.h2, h.h3⟩
    · cases hs

theorem reach_inv {c : Cfg} {s} (h : Reach good c s) : Inv s := by
  induction h with
  | init => exact inv_init c
  | step _ hs ih => exact inv_step ih hs

end PebblesVerif.SubProtoFixed
