import PebblesVerif.Model.TypeURLMap
/-! Helper lemmas about `Model/TypeURLMap.lean` (C04). Core Lean only. -/
namespace PebblesVerif.TUM
open PebblesVerif PebblesVerif.Merge
open PebblesVerif.Gen.Merge (Facts idFieldName nodeInterfaceName)

/-! ## rows -/

theorem props_updRow_same (T : String) (g : TypeProps → TypeProps) : ∀ (t : Table),
    Tum.props? (updRow T g t) T = some (g ((Tum.props? t T).getD emptyProps))
  | [] => by simp [updRow, Tum.props?]
  | (k, p) :: rest => by
    by_cases hk : (k == T) = true
    · simp [updRow, Tum.props?, hk]
    · have ih := props_updRow_same T g rest
      simp only [Tum.props?] at ih
      simp only [updRow, hk, Bool.false_eq_true, ↓reduceIte, Tum.props?, List.find?_cons]
      exact ih

theorem props_updRow_ne {T T' : String} (g : TypeProps → TypeProps) (h : T' ≠ T) : ∀ (t : Table),
    Tum.props? (updRow T g t) T' = Tum.props? t T'
  | [] => by
    have : (T == T') = false := by simpa using h.symm
    simp [updRow, Tum.props?, this]
  | (k, p) :: rest => by
    have ih := props_updRow_ne g h rest
    simp only [Tum.props?] at ih
    by_cases hk : (k == T) = true
    · have hkT : k = T := by simpa using hk
      have : (k == T') = false := by rw [hkT]; simpa using h.symm
      simp [updRow, Tum.props?, hk, this]
    · simp only [updRow, hk, Bool.false_eq_true, ↓reduceIte, Tum.props?, List.find?_cons]
      by_cases hk' : (k == T') = true
      · simp [hk']
      · simp only [hk']; exact ih

def fget (fs : List (String × String)) (f : String) : Option String :=
  match fs.find? (·.1 == f) with
  | some (_, u) => some u
  | none => none

theorem get?_eq (t : Table) (T f : String) :
    Tum.get? t T f = match Tum.props? t T with | none => none | some p => fget p.fields f := by
  unfold Tum.get? fget; rfl

theorem fget_setField (f u : String) : ∀ (fs : List (String × String)) (f' : String),
    fget (setField f u fs) f' = if f' = f then some u else fget fs f'
  | [], f' => by
    by_cases h : f' = f
    · subst h; simp [setField, fget]
    · have : (f == f') = false := by simpa using fun h' => h h'.symm
      simp [setField, fget, this, h]
  | (k, v) :: rest, f' => by
    have ih := fget_setField f u rest f'
    unfold fget at ih
    by_cases hk : (k == f) = true
    · have hkf : k = f := by simpa using hk
      by_cases h : f' = f
      · subst h; simp [setField, fget, hk]
      · have h1 : (k == f') = false := by rw [hkf]; simpa using fun h' => h h'.symm
        simp [setField, fget, hk, h1, h]
    · simp only [setField, hk, Bool.false_eq_true, ↓reduceIte, fget, List.find?_cons]
      by_cases hk' : (k == f') = true
      · have : f' ≠ f := by
          intro h'; apply hk; rw [← h']; exact hk'
        simp [hk', this]
      · simp only [hk']; exact ih

theorem get?_set (t : Table) (T f u T' f' : String) :
    Tum.get? (set t T f u) T' f' =
      if f ≠ idFieldName ∧ T' = T ∧ f' = f then some u else Tum.get? t T' f' := by
  unfold set
  by_cases hid : (f == idFieldName) = true
  · have : f = idFieldName := by simpa using hid
    simp [this]
  · have hne : f ≠ idFieldName := by simpa using hid
    simp only [hid, Bool.false_eq_true, ↓reduceIte, ne_eq, hne, not_false_eq_true, true_and]
    by_cases hT : T' = T
    · subst hT
      rw [get?_eq, props_updRow_same, get?_eq]
      simp only [fget_setField]
      by_cases hf : f' = f
      · simp [hf]
      · simp only [hf, and_false, ↓reduceIte]
        cases h : Tum.props? t T' with
        | none => simp [emptyProps, fget]
        | some p => simp
    · rw [get?_eq, props_updRow_ne _ hT, get?_eq]
      simp [hT]

theorem get?_setNode (t : Table) (T T' f' : String) : Tum.get? (setNode t T) T' f' = Tum.get? t T' f' := by
  unfold setNode
  by_cases hT : T' = T
  · subst hT
    rw [get?_eq, props_updRow_same, get?_eq]
    cases h : Tum.props? t T' with
    | none => simp [emptyProps, fget]
    | some p => simp
  · rw [get?_eq, props_updRow_ne _ hT, get?_eq]

theorem isNode?_set (t : Table) (T f u T' : String) :
    Tum.isNode? (set t T f u) T' = some true ↔ Tum.isNode? t T' = some true := by
  unfold set
  by_cases hid : (f == idFieldName) = true
  · simp [hid]
  · simp only [hid, Bool.false_eq_true, ↓reduceIte, Tum.isNode?]
    by_cases hT : T' = T
    · subst hT
      rw [props_updRow_same]
      cases h : Tum.props? t T' with
      | none => simp [emptyProps]
      | some p => simp
    · rw [props_updRow_ne _ hT]

theorem isNode?_setNode (t : Table) (T T' : String) :
    Tum.isNode? (setNode t T) T' = some true ↔ T' = T ∨ Tum.isNode? t T' = some true := by
  unfold setNode Tum.isNode?
  by_cases hT : T' = T
  · subst hT
    rw [props_updRow_same]
    simp
  · rw [props_updRow_ne _ hT]
    simp [hT]

/-! ## `SetFromSchema` and the table `Merge` builds -/

/-- `SetFromSchema` stores `(T, f)` when it meets the definition `v` -/
def StoresDef (F : Facts) (v : TypeDef) (T f : String) : Prop :=
  v.name = T ∧ v.kind = .object ∧ isBuiltinName v.name = false ∧
    ∃ fd ∈ v.fields, fd.name = f ∧ skipsField F v.name fd = false ∧ f ≠ idFieldName

/-- `SetFromSchema(types, _)` stores `(T, f)` -/
def Stores (F : Facts) (types : List TypeDef) (T f : String) : Prop := ∃ v ∈ types, StoresDef F v T f

abbrev fieldsFold (F : Facts) (url T0 : String) (fs : List FieldDef) (t : Table) : Table :=
  fs.foldl (fun t fd => if skipsField F T0 fd then t else set t T0 fd.name url) t

theorem fieldsFold_get {F : Facts} {url T0 : String} : ∀ (fs : List FieldDef) (t : Table) {T f u : String},
    Tum.get? (fieldsFold F url T0 fs t) T f = some u →
    (u = url ∧ T = T0 ∧ ∃ fd ∈ fs, fd.name = f ∧ skipsField F T0 fd = false ∧ f ≠ idFieldName) ∨ Tum.get? t T f = some u
  | [], _, _, _, _, h => Or.inr h
  | fd :: fs, t, T, f, u, h => by
    simp only [fieldsFold, List.foldl_cons] at h
    rcases fieldsFold_get fs _ h with ⟨h1, h2, fd', hfd', h3⟩ | h'
    · exact Or.inl ⟨h1, h2, fd', List.mem_cons_of_mem _ hfd', h3⟩
    · by_cases hs : skipsField F T0 fd = true
      · simp only [hs, ↓reduceIte] at h'; exact Or.inr h'
      · simp only [hs, Bool.false_eq_true, ↓reduceIte, get?_set] at h'
        split at h'
        · rename_i hc
          cases h'
          exact Or.inl ⟨rfl, hc.2.1, fd, List.mem_cons_self, hc.2.2.symm, by simpa using hs, hc.2.2 ▸ hc.1⟩
        · exact Or.inr h'

theorem fieldsFold_set {F : Facts} {url T0 n : String} : ∀ (fs : List FieldDef) (t : Table),
    (Tum.get? t T0 n = some url ∨ ∃ fd ∈ fs, fd.name = n ∧ skipsField F T0 fd = false ∧ n ≠ idFieldName) →
    Tum.get? (fieldsFold F url T0 fs t) T0 n = some url
  | [], t, h => by
    rcases h with h | ⟨_, hfd, _⟩
    · exact h
    · cases hfd
  | fd :: fs, t, h => by
    simp only [fieldsFold, List.foldl_cons]
    apply fieldsFold_set fs
    by_cases hs : skipsField F T0 fd = true
    · simp only [hs, ↓reduceIte]
      rcases h with h | ⟨fd', hfd', h1, h2, h3⟩
      · exact Or.inl h
      · rcases List.mem_cons.mp hfd' with rfl | hfd'
        · rw [hs] at h2; cases h2
        · exact Or.inr ⟨fd', hfd', h1, h2, h3⟩
    · simp only [hs, Bool.false_eq_true, ↓reduceIte, get?_set]
      rcases h with h | ⟨fd', hfd', h1, h2, h3⟩
      · left; split <;> simp [h]
      · rcases List.mem_cons.mp hfd' with rfl | hfd'
        · left; subst h1; simp [h3]
        · exact Or.inr ⟨fd', hfd', h1, h2, h3⟩

theorem fieldsFold_mono {F : Facts} {url T0 : String} : ∀ (fs : List FieldDef) (t : Table) {T f : String},
    (Tum.get? t T f).isSome = true → (Tum.get? (fieldsFold F url T0 fs t) T f).isSome = true
  | [], _, _, _, h => h
  | fd :: fs, t, T, f, h => by
    simp only [fieldsFold, List.foldl_cons]
    apply fieldsFold_mono fs
    by_cases hs : skipsField F T0 fd = true
    · simp only [hs, ↓reduceIte]; exact h
    · simp only [hs, Bool.false_eq_true, ↓reduceIte, get?_set]
      split
      · rfl
      · exact h

theorem fieldsFold_isNode {F : Facts} {url T0 : String} : ∀ (fs : List FieldDef) (t : Table) (T : String),
    Tum.isNode? (fieldsFold F url T0 fs t) T = some true ↔ Tum.isNode? t T = some true
  | [], _, _ => Iff.rfl
  | fd :: fs, t, T => by
    simp only [fieldsFold, List.foldl_cons]
    rw [fieldsFold_isNode fs]
    by_cases hs : skipsField F T0 fd = true
    · simp only [hs, ↓reduceIte]
    · simp only [hs, Bool.false_eq_true, ↓reduceIte, isNode?_set]

theorem setFromDef_eq (F : Facts) (url : String) (t : Table) (v : TypeDef) :
    setFromDef F url t v =
      if v.kind != .object || isBuiltinName v.name then t
      else fieldsFold F url v.name v.fields (if implementsNode v then setNode t v.name else t) := rfl

theorem setFromDef_get {F : Facts} {url : String} {t : Table} {v : TypeDef} {T f u : String}
    (h : Tum.get? (setFromDef F url t v) T f = some u) :
    (u = url ∧ StoresDef F v T f) ∨ Tum.get? t T f = some u := by
  rw [setFromDef_eq] at h
  split at h
  · exact Or.inr h
  · rename_i hc
    simp only [Bool.or_eq_true, bne_iff_ne, ne_eq, not_or, Decidable.not_not, Bool.not_eq_true] at hc
    rcases fieldsFold_get _ _ h with ⟨h1, h2, fd, hfd, h3, h4, h5⟩ | h'
    · exact Or.inl ⟨h1, h2.symm, hc.1, hc.2, fd, hfd, h3, h4, h5⟩
    · split at h'
      · rw [get?_setNode] at h'; exact Or.inr h'
      · exact Or.inr h'

theorem setFromDef_set {F : Facts} {url : String} {t : Table} {v : TypeDef} {T f : String}
    (h : Tum.get? t T f = some url ∨ StoresDef F v T f) : Tum.get? (setFromDef F url t v) T f = some url := by
  rw [setFromDef_eq]
  split
  · rename_i hc
    rcases h with h | ⟨_, hk, hb, _⟩
    · exact h
    · simp [hk, hb] at hc
  · rcases h with h | ⟨hn, _, _, fd, hfd, h1, h2, h3⟩
    · by_cases hT : T = v.name
      · subst hT
        apply fieldsFold_set
        left
        split
        · rw [get?_setNode]; exact h
        · exact h
      · have : (Tum.get? (fieldsFold F url v.name v.fields (if implementsNode v then setNode t v.name else t)) T f) = some url := by
          cases hg : Tum.get? (fieldsFold F url v.name v.fields (if implementsNode v then setNode t v.name else t)) T f with
          | some u' =>
            rcases fieldsFold_get _ _ hg with ⟨_, h2, _⟩ | h'
            · exact absurd h2 hT
            · split at h'
              · rw [get?_setNode, h] at h'; exact h'.symm ▸ rfl
              · rw [h] at h'; exact h'.symm ▸ rfl
          | none =>
            have hm := fieldsFold_mono (F := F) (url := url) (T0 := v.name) v.fields
              (if implementsNode v then setNode t v.name else t) (T := T) (f := f) (by
                split
                · rw [get?_setNode, h]; rfl
                · rw [h]; rfl)
            rw [hg] at hm; cases hm
        exact this
    · subst hn
      exact fieldsFold_set _ _ (Or.inr ⟨fd, hfd, h1, h2, h3⟩)

theorem setFromDef_mono {F : Facts} {url : String} {t : Table} {v : TypeDef} {T f : String}
    (h : (Tum.get? t T f).isSome = true) : (Tum.get? (setFromDef F url t v) T f).isSome = true := by
  rw [setFromDef_eq]
  split
  · exact h
  · apply fieldsFold_mono
    split
    · rw [get?_setNode]; exact h
    · exact h

/-- `SetFromSchema` marks `T` when it meets the definition `v` -/
def NodeDef (v : TypeDef) (T : String) : Prop :=
  v.name = T ∧ v.kind = .object ∧ isBuiltinName v.name = false ∧ implementsNode v = true

theorem setFromDef_isNode {F : Facts} {url : String} {t : Table} {v : TypeDef} {T : String} :
    Tum.isNode? (setFromDef F url t v) T = some true ↔ NodeDef v T ∨ Tum.isNode? t T = some true := by
  rw [setFromDef_eq]
  split
  · rename_i hc
    constructor
    · exact Or.inr
    · rintro (⟨_, hk, hb, _⟩ | h)
      · simp [hk, hb] at hc
      · exact h
  · rename_i hc
    simp only [Bool.or_eq_true, bne_iff_ne, ne_eq, not_or, Decidable.not_not, Bool.not_eq_true] at hc
    rw [fieldsFold_isNode]
    by_cases hN : implementsNode v = true
    · simp only [hN, ↓reduceIte, isNode?_setNode]
      constructor
      · rintro (h | h)
        · exact Or.inl ⟨h.symm, hc.1, hc.2, hN⟩
        · exact Or.inr h
      · rintro (⟨h, _⟩ | h)
        · exact Or.inl h.symm
        · exact Or.inr h
    · simp only [hN, Bool.false_eq_true, ↓reduceIte]
      constructor
      · exact Or.inr
      · rintro (⟨_, _, _, h⟩ | h)
        · exact absurd h hN
        · exact h

theorem setFromSchema_get {F : Facts} {url : String} : ∀ (types : List TypeDef) (t : Table) {T f u : String},
    Tum.get? (setFromSchema F t types url) T f = some u → (u = url ∧ Stores F types T f) ∨ Tum.get? t T f = some u
  | [], _, _, _, _, h => Or.inr h
  | v :: vs, t, T, f, u, h => by
    simp only [setFromSchema, List.foldl_cons] at h
    rcases setFromSchema_get vs _ h with ⟨h1, v', hv', hs⟩ | h'
    · exact Or.inl ⟨h1, v', List.mem_cons_of_mem _ hv', hs⟩
    · rcases setFromDef_get h' with ⟨h1, hs⟩ | h''
      · exact Or.inl ⟨h1, v, List.mem_cons_self, hs⟩
      · exact Or.inr h''

theorem setFromSchema_set {F : Facts} {url : String} {T f : String} : ∀ (types : List TypeDef) (t : Table),
    (Tum.get? t T f = some url ∨ Stores F types T f) → Tum.get? (setFromSchema F t types url) T f = some url
  | [], t, h => by
    rcases h with h | ⟨_, hv, _⟩
    · exact h
    · cases hv
  | v :: vs, t, h => by
    simp only [setFromSchema, List.foldl_cons]
    apply setFromSchema_set vs
    rcases h with h | ⟨v', hv', hs⟩
    · exact Or.inl (setFromDef_set (Or.inl h))
    · rcases List.mem_cons.mp hv' with rfl | hv'
      · exact Or.inl (setFromDef_set (Or.inr hs))
      · exact Or.inr ⟨v', hv', hs⟩

theorem setFromSchema_mono {F : Facts} {url : String} {T f : String} : ∀ (types : List TypeDef) (t : Table),
    (Tum.get? t T f).isSome = true → (Tum.get? (setFromSchema F t types url) T f).isSome = true
  | [], _, h => h
  | v :: vs, t, h => by
    simp only [setFromSchema, List.foldl_cons]
    exact setFromSchema_mono vs _ (setFromDef_mono h)

theorem setFromSchema_isNode {F : Facts} {url : String} {T : String} : ∀ (types : List TypeDef) (t : Table),
    Tum.isNode? (setFromSchema F t types url) T = some true ↔ (∃ v ∈ types, NodeDef v T) ∨ Tum.isNode? t T = some true
  | [], t => by simp [setFromSchema]
  | v :: vs, t => by
    simp only [setFromSchema, List.foldl_cons]
    have ih := setFromSchema_isNode (F := F) (url := url) (T := T) vs (setFromDef F url t v)
    simp only [setFromSchema] at ih
    rw [ih, setFromDef_isNode]
    constructor
    · rintro (⟨v', hv', h⟩ | h | h)
      · exact Or.inl ⟨v', List.mem_cons_of_mem _ hv', h⟩
      · exact Or.inl ⟨v, List.mem_cons_self, h⟩
      · exact Or.inr h
    · rintro (⟨v', hv', h⟩ | h)
      · rcases List.mem_cons.mp hv' with rfl | hv'
        · exact Or.inr (Or.inl h)
        · exact Or.inl ⟨v', hv', h⟩
      · exact Or.inr (Or.inr h)

abbrev buildFrom (F : Facts) (t : Table) (ins : List MergeInput) : Table :=
  ins.foldl (fun t i => setFromSchema F t i.schema.types i.url) t

theorem buildFrom_get {F : Facts} : ∀ (ins : List MergeInput) (t : Table) {T f u : String},
    Tum.get? (buildFrom F t ins) T f = some u →
    (∃ i ∈ ins, i.url = u ∧ Stores F i.schema.types T f) ∨ Tum.get? t T f = some u
  | [], _, _, _, _, h => Or.inr h
  | i :: is, t, T, f, u, h => by
    simp only [buildFrom, List.foldl_cons] at h
    rcases buildFrom_get is _ h with ⟨j, hj, h1, h2⟩ | h'
    · exact Or.inl ⟨j, List.mem_cons_of_mem _ hj, h1, h2⟩
    · rcases setFromSchema_get _ _ h' with ⟨h1, h2⟩ | h''
      · exact Or.inl ⟨i, List.mem_cons_self, h1.symm, h2⟩
      · exact Or.inr h''

theorem buildFrom_mono {F : Facts} {T f : String} : ∀ (ins : List MergeInput) (t : Table),
    (Tum.get? t T f).isSome = true → (Tum.get? (buildFrom F t ins) T f).isSome = true
  | [], _, h => h
  | i :: is, t, h => by
    simp only [buildFrom, List.foldl_cons]
    exact buildFrom_mono is _ (setFromSchema_mono _ _ h)

theorem buildFrom_total {F : Facts} {T f : String} : ∀ (ins : List MergeInput) (t : Table) {i : MergeInput},
    i ∈ ins → Stores F i.schema.types T f → (Tum.get? (buildFrom F t ins) T f).isSome = true
  | j :: is, t, i, hi, hs => by
    simp only [buildFrom, List.foldl_cons]
    rcases List.mem_cons.mp hi with rfl | hi
    · apply buildFrom_mono
      rw [setFromSchema_set _ _ (Or.inr hs)]; rfl
    · exact buildFrom_total is _ hi hs

theorem buildFrom_isNode {F : Facts} {T : String} : ∀ (ins : List MergeInput) (t : Table),
    Tum.isNode? (buildFrom F t ins) T = some true ↔
      (∃ i ∈ ins, ∃ v ∈ i.schema.types, NodeDef v T) ∨ Tum.isNode? t T = some true
  | [], t => by simp [buildFrom]
  | i :: is, t => by
    simp only [buildFrom, List.foldl_cons]
    have ih := buildFrom_isNode (F := F) (T := T) is (setFromSchema F t i.schema.types i.url)
    simp only [buildFrom] at ih
    rw [ih, setFromSchema_isNode]
    constructor
    · rintro (⟨j, hj, h⟩ | h | h)
      · exact Or.inl ⟨j, List.mem_cons_of_mem _ hj, h⟩
      · exact Or.inl ⟨i, List.mem_cons_self, h⟩
      · exact Or.inr h
    · rintro (⟨j, hj, h⟩ | h)
      · rcases List.mem_cons.mp hj with rfl | hj
        · exact Or.inr (Or.inl h)
        · exact Or.inl ⟨j, hj, h⟩
      · exact Or.inr (Or.inr h)

theorem get?_nil (T f : String) : Tum.get? ([] : Table) T f = none := rfl

/-- the table of `Merge`: a route is the url of an input that stores the field -/
theorem build_get {F : Facts} {ins : List MergeInput} {T f u : String} (h : Tum.get? (build F ins) T f = some u) :
    ∃ i ∈ ins, i.url = u ∧ Stores F i.schema.types T f := by
  rcases buildFrom_get ins [] h with h' | h'
  · exact h'
  · rw [get?_nil] at h'; cases h'

theorem build_total {F : Facts} {ins : List MergeInput} {T f : String} {i : MergeInput} (hi : i ∈ ins)
    (hs : Stores F i.schema.types T f) : ∃ u, Tum.get? (build F ins) T f = some u := by
  have := buildFrom_total (F := F) ins [] hi hs
  exact Option.isSome_iff_exists.mp this

theorem build_isNode {F : Facts} {ins : List MergeInput} {T : String} :
    Tum.isNode? (build F ins) T = some true ↔ ∃ i ∈ ins, ∃ v ∈ i.schema.types, NodeDef v T := by
  have := buildFrom_isNode (F := F) (T := T) ins []
  simp only [buildFrom] at this
  unfold build
  rw [this]
  simp [Tum.isNode?, Tum.props?]

/-! ## `GetURLs` -/

theorem mem_dedup_fold (x : String) : ∀ (l acc : List String),
    x ∈ l.foldl (fun acc y => if acc.contains y then acc else acc ++ [y]) acc ↔ x ∈ acc ∨ x ∈ l
  | [], acc => by simp
  | y :: l, acc => by
    simp only [List.foldl_cons]
    rw [mem_dedup_fold x l]
    by_cases hc : acc.contains y = true
    · simp only [hc, ↓reduceIte, List.mem_cons]
      constructor
      · rintro (h | h)
        · exact Or.inl h
        · exact Or.inr (Or.inr h)
      · rintro (h | rfl | h)
        · exact Or.inl h
        · exact Or.inl (by simpa using hc)
        · exact Or.inr h
    · simp only [hc, Bool.false_eq_true, ↓reduceIte, List.mem_append, List.mem_cons, List.not_mem_nil, or_false]
      constructor
      · rintro ((h | h) | h)
        · exact Or.inl h
        · exact Or.inr (Or.inl h)
        · exact Or.inr (Or.inr h)
      · rintro (h | h | h)
        · exact Or.inl (Or.inl h)
        · exact Or.inl (Or.inr h)
        · exact Or.inr h

theorem mem_dedup {x : String} {l : List String} : x ∈ Tum.dedup l ↔ x ∈ l := by
  unfold Tum.dedup
  rw [mem_dedup_fold]
  simp only [List.not_mem_nil, false_or]

/-- a url is listed by `GetURLs` iff some row stores it for some field -/
theorem mem_urls {t : Table} {u : String} : u ∈ Tum.urls t ↔ ∃ r ∈ t, ∃ e ∈ r.2.fields, e.2 = u := by
  unfold Tum.urls
  rw [mem_dedup]
  simp only [List.mem_flatMap, List.mem_map]

theorem get?_some_mem {t : Table} {T f u : String} (h : Tum.get? t T f = some u) : u ∈ Tum.urls t := by
  rw [mem_urls]
  unfold Tum.get? Tum.props? at h
  split at h
  · cases h
  · rename_i p hp
    split at hp
    · rename_i k p' hfind
      cases hp
      split at h
      · rename_i k' u' hf
        cases h
        exact ⟨(k, p), List.mem_of_find?_eq_some hfind, (k', u), List.mem_of_find?_eq_some hf, rfl⟩
      · cases h
    · cases hp

/-! ## keys of the table are distinct (it is a map) -/

theorem find?_key_of_nodup {β : Type} : ∀ {l : List (String × β)}, (l.map (·.1)).Nodup → ∀ {e : String × β}, e ∈ l →
    l.find? (·.1 == e.1) = some e
  | [], _, _, h => by cases h
  | x :: xs, hn, e, h => by
    simp only [List.map_cons, List.nodup_cons] at hn
    rw [List.find?_cons]
    rcases List.mem_cons.mp h with rfl | h
    · simp
    · have : (x.1 == e.1) = false := by
        have : x.1 ≠ e.1 := fun he => hn.1 (he ▸ List.mem_map_of_mem h)
        simpa using this
      rw [this]
      exact find?_key_of_nodup hn.2 h

def KeysOK (t : Table) : Prop := (t.map (·.1)).Nodup ∧ ∀ r ∈ t, (r.2.fields.map (·.1)).Nodup

theorem setField_keys (f u : String) : ∀ (fs : List (String × String)),
    (setField f u fs).map (·.1) = if f ∈ fs.map (·.1) then fs.map (·.1) else fs.map (·.1) ++ [f]
  | [] => by simp [setField]
  | (k, v) :: rest => by
    by_cases hk : (k == f) = true
    · have : k = f := by simpa using hk
      simp [setField, this]
    · have hne : k ≠ f := by simpa using hk
      simp only [setField, hk, Bool.false_eq_true, ↓reduceIte, List.map_cons, setField_keys f u rest,
        List.mem_cons]
      by_cases hm : f ∈ rest.map (·.1)
      · simp [hm]
      · have hfk : ¬ f = k := fun h => hne h.symm
        simp [hm, hfk]

theorem setField_nodup {f u : String} {fs : List (String × String)} (h : (fs.map (·.1)).Nodup) :
    ((setField f u fs).map (·.1)).Nodup := by
  rw [setField_keys]
  split
  · exact h
  · rename_i hm
    rw [List.nodup_append]
    exact ⟨h, by simp, by intro a ha b hb; simp at hb; subst hb; exact fun he => hm (he ▸ ha)⟩

theorem updRow_keys (T : String) (g : TypeProps → TypeProps) : ∀ (t : Table),
    (updRow T g t).map (·.1) = if T ∈ t.map (·.1) then t.map (·.1) else t.map (·.1) ++ [T]
  | [] => by simp [updRow]
  | (k, p) :: rest => by
    by_cases hk : (k == T) = true
    · have : k = T := by simpa using hk
      simp [updRow, this]
    · have hne : k ≠ T := by simpa using hk
      simp only [updRow, hk, Bool.false_eq_true, ↓reduceIte, List.map_cons, updRow_keys T g rest, List.mem_cons]
      by_cases hm : T ∈ rest.map (·.1)
      · simp [hm]
      · have hfk : ¬ T = k := fun h => hne h.symm
        simp [hm, hfk]

theorem mem_updRow {T : String} {g : TypeProps → TypeProps} : ∀ {t : Table} {r : String × TypeProps},
    r ∈ updRow T g t → r ∈ t ∨ (∃ p, (T, p) ∈ t ∧ r = (T, g p)) ∨ r = (T, g emptyProps)
  | [], r, h => by simp [updRow] at h; exact Or.inr (Or.inr h)
  | (k, p) :: rest, r, h => by
    by_cases hk : (k == T) = true
    · have hkT : k = T := by simpa using hk
      simp only [updRow, hk, ↓reduceIte, List.mem_cons] at h
      rcases h with h | h
      · exact Or.inr (Or.inl ⟨p, by rw [hkT]; exact List.mem_cons_self, by rw [h, hkT]⟩)
      · exact Or.inl (List.mem_cons_of_mem _ h)
    · simp only [updRow, hk, Bool.false_eq_true, ↓reduceIte, List.mem_cons] at h
      rcases h with h | h
      · exact Or.inl (h ▸ List.mem_cons_self)
      · rcases mem_updRow h with h' | ⟨p', hp', h'⟩ | h'
        · exact Or.inl (List.mem_cons_of_mem _ h')
        · exact Or.inr (Or.inl ⟨p', List.mem_cons_of_mem _ hp', h'⟩)
        · exact Or.inr (Or.inr h')

theorem updRow_keysOK {T : String} {g : TypeProps → TypeProps} {t : Table} (h : KeysOK t)
    (hg : ∀ p, (p.fields.map (·.1)).Nodup → ((g p).fields.map (·.1)).Nodup) : KeysOK (updRow T g t) := by
  constructor
  · rw [updRow_keys]
    split
    · exact h.1
    · rename_i hm
      rw [List.nodup_append]
      exact ⟨h.1, by simp, by intro a ha b hb; simp at hb; subst hb; exact fun he => hm (he ▸ ha)⟩
  · intro r hr
    rcases mem_updRow hr with h' | ⟨p, hp, rfl⟩ | rfl
    · exact h.2 r h'
    · exact hg p (h.2 _ hp)
    · exact hg emptyProps (by simp [emptyProps])

theorem set_keysOK {t : Table} {T f u : String} (h : KeysOK t) : KeysOK (set t T f u) := by
  unfold set
  split
  · exact h
  · exact updRow_keysOK h (fun p hp => setField_nodup hp)

theorem setNode_keysOK {t : Table} {T : String} (h : KeysOK t) : KeysOK (setNode t T) :=
  updRow_keysOK h (fun _ hp => hp)

theorem fieldsFold_keysOK {F : Facts} {url T0 : String} : ∀ (fs : List FieldDef) (t : Table), KeysOK t →
    KeysOK (fieldsFold F url T0 fs t)
  | [], _, h => h
  | fd :: fs, t, h => by
    simp only [fieldsFold, List.foldl_cons]
    apply fieldsFold_keysOK fs
    split
    · exact h
    · exact set_keysOK h

theorem setFromDef_keysOK {F : Facts} {url : String} {t : Table} {v : TypeDef} (h : KeysOK t) :
    KeysOK (setFromDef F url t v) := by
  rw [setFromDef_eq]
  split
  · exact h
  · apply fieldsFold_keysOK
    split
    · exact setNode_keysOK h
    · exact h

theorem setFromSchema_keysOK {F : Facts} {url : String} : ∀ (types : List TypeDef) (t : Table), KeysOK t →
    KeysOK (setFromSchema F t types url)
  | [], _, h => h
  | v :: vs, t, h => by
    simp only [setFromSchema, List.foldl_cons]
    exact setFromSchema_keysOK vs _ (setFromDef_keysOK h)

theorem buildFrom_keysOK {F : Facts} : ∀ (ins : List MergeInput) (t : Table), KeysOK t → KeysOK (buildFrom F t ins)
  | [], _, h => h
  | i :: is, t, h => by
    simp only [buildFrom, List.foldl_cons]
    exact buildFrom_keysOK is _ (setFromSchema_keysOK _ _ h)

theorem build_keysOK (F : Facts) (ins : List MergeInput) : KeysOK (build F ins) :=
  buildFrom_keysOK ins [] ⟨by simp, by simp⟩

/-- in a table with distinct keys, every stored url is the route of some `(type, field)` -/
theorem urls_get {t : Table} (hk : KeysOK t) {u : String} (h : u ∈ Tum.urls t) : ∃ T f, Tum.get? t T f = some u := by
  obtain ⟨r, hr, e, he, rfl⟩ := mem_urls.mp h
  refine ⟨r.1, e.1, ?_⟩
  unfold Tum.get? Tum.props?
  rw [find?_key_of_nodup hk.1 hr]
  simp only
  rw [find?_key_of_nodup (hk.2 r hr) he]

end PebblesVerif.TUM
