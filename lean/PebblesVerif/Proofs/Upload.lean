import PebblesVerif.Spec.Upload
/-! Helper lemmas for C19: association-list facts, what one `walk` does to `nullKVs` / `upsKVs`,
preservation of the other positions, read-once parts. -/
namespace PebblesVerif.Upload
open PebblesVerif.Gen.Requests (Facts)

/-! ## association lists -/

theorem lookup_setKey_same (k : String) (v : V) (m : List (String × V)) : lookup k (setKey k v m) = some v := by
  induction m with
  | nil => simp [setKey, lookup]
  | cons kv rest ih =>
    obtain ⟨k', v'⟩ := kv
    unfold setKey
    split
    · simp [lookup]
    · rename_i h; simp [lookup, h, ih]

theorem lookup_setKey_ne (k k' : String) (v : V) (m : List (String × V)) (h : k' ≠ k) :
    lookup k' (setKey k v m) = lookup k' m := by
  induction m with
  | nil => simp [setKey, lookup, h]
  | cons kv rest ih =>
    obtain ⟨k2, v2⟩ := kv
    unfold setKey
    split
    · rename_i hk; subst hk; simp [lookup, h]
    · simp [lookup, ih]

theorem consAll_append (k : String) (a b : List (Nat × List String)) :
    consAll k (a ++ b) = consAll k a ++ consAll k b := by simp [consAll]

theorem consAll_perm (k : String) {a b : List (Nat × List String)} (h : a.Perm b) :
    (consAll k a).Perm (consAll k b) := h.map _

/-- replacing the binding of `p` by a value with the same nulled form leaves `nullKVs` alone -/
theorem nullKVs_setKey (p : String) (v old : V) : ∀ (m : List (String × V)),
    lookup p m = some old → nullV v = nullV old → nullKVs (setKey p v m) = nullKVs m := by
  intro m
  induction m with
  | nil => intro h; simp [lookup] at h
  | cons kv rest ih =>
    obtain ⟨k', v'⟩ := kv
    intro h hv
    unfold lookup at h
    unfold setKey
    split
    · rename_i hk
      simp [hk] at h
      subst h
      simp [nullKVs, hv, hk]
    · rename_i hk
      simp [hk] at h
      simp [nullKVs, ih h hv]

/-- … and adds to `upsKVs` what it adds to the value's own uploads -/
theorem upsKVs_setKey (p : String) (v old : V) (e : List (Nat × List String)) : ∀ (m : List (String × V)),
    lookup p m = some old → (upsV v).Perm (e ++ upsV old) →
    (upsKVs (setKey p v m)).Perm (consAll p e ++ upsKVs m) := by
  intro m
  induction m with
  | nil => intro h; simp [lookup] at h
  | cons kv rest ih =>
    obtain ⟨k', v'⟩ := kv
    intro h hv
    unfold lookup at h
    unfold setKey
    split
    · rename_i hk
      simp [hk] at h
      subst h
      subst hk
      simp only [upsKVs]
      have := consAll_perm p hv
      rw [consAll_append] at this
      have h2 := this.append_right (upsKVs rest)
      simpa [List.append_assoc] using h2
    · rename_i hk
      simp [hk] at h
      simp only [upsKVs]
      have h1 := (ih h hv).append_left (consAll k' (upsV v'))
      refine h1.trans ?_
      simpa [List.append_assoc] using
        (List.perm_append_comm_assoc (consAll k' (upsV v')) (consAll p e) (upsKVs rest))

/-! ## lists -/

theorem nullL_set (u : Nat) : ∀ (xs : List V) (i : Nat), xs[i]? = some .null →
    nullL (xs.set i (.upload u)) = nullL xs := by
  intro xs
  induction xs with
  | nil => intro i h; simp at h
  | cons x rest ih =>
    intro i h
    cases i with
    | zero => simp at h; subst h; simp [nullL, nullV]
    | succ j => simp at h; simp [nullL, ih j h]

theorem upsL_set (u : Nat) : ∀ (xs : List V) (o i : Nat), xs[i]? = some .null →
    (upsL o (xs.set i (.upload u))).Perm ((u, [toString (o + i)]) :: upsL o xs) := by
  intro xs
  induction xs with
  | nil => intro o i h; simp at h
  | cons x rest ih =>
    intro o i h
    cases i with
    | zero =>
      simp at h; subst h
      simp [upsL, upsV, consAll]
    | succ j =>
      simp at h
      simp only [List.set_cons_succ, upsL]
      have h1 := (ih (o + 1) j h).append_left (consAll (toString o) (upsV x))
      refine h1.trans ?_
      have : o + 1 + j = o + (j + 1) := by omega
      rw [this]
      exact List.perm_middle

/-! ## canonical indices -/

theorem canonIdx_spec {q : String} {i : Nat} (h : canonIdx q = some i) :
    atoi q = some (Int.ofNat i) ∧ toString i = q := by
  unfold canonIdx at h
  split at h
  · rename_i j hj
    split at h
    · simp at h; subst h; exact ⟨hj, by assumption⟩
    · cases h
  · cases h

/-! ## one injection at a well-formed position -/

theorem nullAt_setKey_ne (k' p : String) (r' : List String) (v : V) (m : List (String × V)) (h : k' ≠ p) :
    nullAt (k' :: r') (setKey p v m) = nullAt (k' :: r') m := by
  rw [nullAt, nullAt, lookup_setKey_ne _ _ _ _ h]

theorem walk_nullAt (F : Facts) (u : Nat) : ∀ (path : List String) (m : List (String × V)),
    nullAt path m = true →
    ∃ m', walk F u path m = .ok m' ∧ nullKVs m' = nullKVs m ∧
      (upsKVs m').Perm ((u, path) :: upsKVs m) ∧
      (∀ p', p' ≠ path → nullAt p' m = true → nullAt p' m' = true) := by
  intro path
  induction path with
  | nil => intro m h; simp [nullAt] at h
  | cons p rest ih =>
    intro m h
    rw [nullAt] at h
    cases hl : lookup p m with
    | none => simp [hl] at h
    | some val =>
      rw [hl] at h
      cases val with
      | scalar s => simp at h
      | upload k => simp at h
      | null =>
        simp at h
        subst h
        refine ⟨setKey p (.upload u) m, ?_, ?_, ?_, ?_⟩
        · simp [walk, hl]
        · exact nullKVs_setKey p _ _ m hl (by simp [nullV])
        · have := upsKVs_setKey p (.upload u) .null [(u, [])] m hl (by simp [upsV])
          simpa [consAll] using this
        · intro p' hne hp'
          cases p' with
          | nil => simp [nullAt] at hp'
          | cons k' r' =>
            by_cases hk : k' = p
            · subst hk
              rw [nullAt, hl] at hp'
              simp at hp'
              subst hp'
              exact absurd rfl hne
            · rw [nullAt_setKey_ne _ _ _ _ _ hk]; exact hp'
      | obj sub =>
        simp only at h
        obtain ⟨sub', hw, hn, hu, hpres⟩ := ih sub h
        refine ⟨setKey p (.obj sub') m, ?_, ?_, ?_, ?_⟩
        · simp [walk, hl, hw]
        · exact nullKVs_setKey p _ _ m hl (by simp [nullV, hn])
        · have := upsKVs_setKey p (.obj sub') (.obj sub) [(u, rest)] m hl (by simpa [upsV] using hu)
          simpa [consAll] using this
        · intro p' hne hp'
          cases p' with
          | nil => simp [nullAt] at hp'
          | cons k' r' =>
            by_cases hk : k' = p
            · subst hk
              rw [nullAt, hl] at hp'
              simp only at hp'
              have hr : r' ≠ rest := fun e => hne (by rw [e])
              rw [nullAt, lookup_setKey_same]
              exact hpres r' hr hp'
            · rw [nullAt_setKey_ne _ _ _ _ _ hk]; exact hp'
      | list xs =>
        simp only at h
        match rest, h with
        | [q], h =>
          simp only at h
          cases hc : canonIdx q with
          | none => simp [hc] at h
          | some i =>
            rw [hc] at h
            simp only at h
            have hx : xs[i]? = some .null := by
              cases hxi : xs[i]? with
              | none => simp [hxi] at h
              | some e => cases e <;> simp_all
            obtain ⟨ha, hs⟩ := canonIdx_spec hc
            refine ⟨setKey p (.list (xs.set i (.upload u))) m, ?_, ?_, ?_, ?_⟩
            · have hneg : ¬ ((i : Int) < 0) := by omega
              simp [walk, hl, ha, hx]
              intro hlt; exact absurd hlt hneg
            · exact nullKVs_setKey p _ _ m hl (by simp [nullV, nullL_set u xs i hx])
            · have h0 := upsL_set u xs 0 i hx
              have := upsKVs_setKey p (.list (xs.set i (.upload u))) (.list xs) [(u, [q])] m hl
                (by simpa [upsV, hs] using h0)
              simpa [consAll] using this
            · intro p' hne hp'
              cases p' with
              | nil => simp [nullAt] at hp'
              | cons k' r' =>
                by_cases hk : k' = p
                · subst hk
                  rw [nullAt, hl] at hp'
                  simp only at hp'
                  rw [nullAt, lookup_setKey_same]
                  simp only
                  match r', hp' with
                  | [q'], hp' =>
                    simp only at hp' ⊢
                    cases hc' : canonIdx q' with
                    | none => simp [hc'] at hp'
                    | some i' =>
                      rw [hc'] at hp'
                      simp only at hp' ⊢
                      have hii : i ≠ i' := by
                        intro e
                        have h1 := (canonIdx_spec hc').2
                        rw [← e, hs] at h1
                        exact hne (by rw [h1])
                      rw [List.getElem?_set_ne hii]
                      exact hp'
                · rw [nullAt_setKey_ne _ _ _ _ _ hk]; exact hp'

/-! ## all pairs of a well-formed map -/

theorem injectPairs_spec (F : Facts) : ∀ (pairs : Pairs) (m : List (String × V)), wfMap m pairs →
    ∃ m', injectPairs F pairs m = .ok m' ∧ nullKVs m' = nullKVs m ∧
      (upsKVs m').Perm (pairs ++ upsKVs m) := by
  intro pairs
  induction pairs with
  | nil => intro m _; exact ⟨m, rfl, rfl, by simp⟩
  | cons x rest ih =>
    intro m hw
    obtain ⟨u, p⟩ := x
    obtain ⟨hall, hnd⟩ := hw
    have hp : nullAt p m = true := hall (u, p) (by simp)
    obtain ⟨m1, hw1, hn1, hu1, hpres⟩ := walk_nullAt F u p m hp
    simp only [List.map_cons, List.nodup_cons] at hnd
    have hw' : wfMap m1 rest := by
      refine ⟨?_, hnd.2⟩
      intro y hy
      have hne : y.2 ≠ p := by
        intro e
        apply hnd.1
        rw [← e]
        exact List.mem_map_of_mem hy
      exact hpres y.2 hne (hall y (by simp [hy]))
    obtain ⟨m', hi, hn, hu⟩ := ih m1 hw'
    refine ⟨m', ?_, ?_, ?_⟩
    · simp [injectPairs, hw1, hi]
    · rw [hn, hn1]
    · refine hu.trans ?_
      refine (List.Perm.append_left rest hu1).trans ?_
      simpa using (List.perm_middle (a := (u, p)) (l₁ := rest) (l₂ := upsKVs m))

/-! ## a tree without uploads is its own nulled form -/

theorem consAll_eq_nil {k : String} {l : List (Nat × List String)} (h : consAll k l = []) : l = [] := by
  simpa [consAll] using h

mutual
theorem nullV_of_noUp : ∀ (v : V), upsV v = [] → nullV v = v
  | .null, _ => by simp [nullV]
  | .scalar _, _ => by simp [nullV]
  | .upload _, h => by simp [upsV] at h
  | .obj kvs, h => by
    simp only [upsV] at h
    simp [nullV, nullKVs_of_noUp kvs h]
  | .list xs, h => by
    simp only [upsV] at h
    simp [nullV, nullL_of_noUp xs 0 h]
theorem nullKVs_of_noUp : ∀ (m : List (String × V)), upsKVs m = [] → nullKVs m = m
  | [], _ => by simp [nullKVs]
  | (k, v) :: r, h => by
    simp only [upsKVs, List.append_eq_nil_iff] at h
    simp [nullKVs, nullV_of_noUp v (consAll_eq_nil h.1), nullKVs_of_noUp r h.2]
theorem nullL_of_noUp : ∀ (xs : List V) (o : Nat), upsL o xs = [] → nullL xs = xs
  | [], _, _ => by simp [nullL]
  | v :: r, o, h => by
    simp only [upsL, List.append_eq_nil_iff] at h
    simp [nullL, nullV_of_noUp v (consAll_eq_nil h.1), nullL_of_noUp r (o + 1) h.2]
end

/-! ## read-once readers -/

theorem emitParts_fresh : ∀ (items : List (Nat × List String)) (consumed : List Nat),
    (items.map (·.1)).Nodup → (∀ x ∈ items, x.1 ∉ consumed) →
    (emitParts items consumed).1 = items.map (fun x => (⟨x.1, x.2, true⟩ : Part)) := by
  intro items
  induction items with
  | nil => intro c _ _; rfl
  | cons x rest ih =>
    intro c hnd hc
    obtain ⟨k, p⟩ := x
    simp only [List.map_cons, List.nodup_cons] at hnd
    have hk : k ∉ c := hc (k, p) (by simp)
    have ih' := ih (k :: c) hnd.2 (by
      intro y hy
      simp only [List.mem_cons, not_or]
      refine ⟨?_, hc y (by simp [hy])⟩
      intro e
      apply hnd.1
      rw [← e]
      exact List.mem_map_of_mem hy)
    simp only [emitParts, List.map_cons]
    rw [ih']
    simp [hk]

/-! ## queryBatch: which inputs go multipart -/

theorem stepCalls_multipart (F : Facts) : ∀ (inputs : List (Option (List (String × V)))) (i0 : Nat) (c : List Nat),
    ∀ call ∈ (stepCalls F i0 inputs c).1, ∃ j v parts,
      call = Call.multipart (i0 + j) (extractFiles F v).1 parts ∧ inputs[j]? = some v ∧ (extractFiles F v).2 ≠ [] := by
  intro inputs
  induction inputs with
  | nil => intro i0 c call h; simp [stepCalls] at h
  | cons v more ih =>
    intro i0 c call h
    unfold stepCalls at h
    simp only at h
    split at h
    · obtain ⟨j, v', parts, h1, h2, h3⟩ := ih (i0 + 1) c call h
      exact ⟨j + 1, v', parts, by rw [h1]; congr 1; omega, by simpa using h2, h3⟩
    · rename_i hne
      simp only [List.mem_cons] at h
      cases h with
      | inl h => exact ⟨0, v, _, by rw [h]; rfl, by simp, by simpa using hne⟩
      | inr h =>
        obtain ⟨j, v', parts, h1, h2, h3⟩ := ih (i0 + 1) _ call h
        exact ⟨j + 1, v', parts, by rw [h1]; congr 1; omega, by simpa using h2, h3⟩

theorem stepCalls_plain (F : Facts) : ∀ (inputs : List (Option (List (String × V)))) (i0 : Nat) (c : List Nat)
    (i : Nat) (v : Option (List (String × V))), inputs[i]? = some v → (extractFiles F v).2 = [] →
    (i0 + i, (extractFiles F v).1) ∈ (stepCalls F i0 inputs c).2.1 := by
  intro inputs
  induction inputs with
  | nil => intro i0 c i v h; simp at h
  | cons w more ih =>
    intro i0 c i v h hv
    unfold stepCalls
    simp only
    cases i with
    | zero =>
      simp at h; subst h
      simp [hv]
    | succ j =>
      simp at h
      have := ih (i0 + 1) c j v h hv
      have e : i0 + 1 + j = i0 + (j + 1) := by omega
      split
      · simp only [List.mem_cons]; right; rw [← e]; exact this
      · rw [← e]; exact ih (i0 + 1) _ j v h hv

/-- the per-step selection of variables without uploads extracts nothing -/
theorem upsKVs_stepVars_nil (names : List String) : ∀ (m : List (String × V)),
    (∀ kv ∈ m, names.contains kv.1 = true → upsV kv.2 = []) → upsKVs (stepVars names m) = [] := by
  intro m
  induction m with
  | nil => intro _; rfl
  | cons kv rest ih =>
    intro h
    obtain ⟨k, v⟩ := kv
    unfold stepVars
    rw [List.filter_cons]
    split
    · rename_i hk
      have hv : upsV v = [] := h (k, v) (by simp) hk
      have := ih (fun kv hkv => h kv (by simp [hkv]))
      unfold stepVars at this
      simp only [upsKVs, hv, consAll, List.map_nil, List.nil_append]
      exact this
    · have := ih (fun kv hkv => h kv (by simp [hkv]))
      unfold stepVars at this
      exact this

/-! ## strings: split ∘ join -/

theorem splitChars_noSep (sep : Char) : ∀ (p : List Char), sep ∉ p → splitChars sep p = [p] := by
  intro p
  induction p with
  | nil => intro _; rfl
  | cons c cs ih =>
    intro h
    simp only [List.mem_cons, not_or] at h
    unfold splitChars
    rw [if_neg (fun e => h.1 e.symm), ih h.2]

theorem splitChars_append_sep (sep : Char) (t : List Char) : ∀ (p : List Char), sep ∉ p →
    splitChars sep (p ++ sep :: t) = p :: splitChars sep t := by
  intro p
  induction p with
  | nil => intro _; simp [splitChars]
  | cons c cs ih =>
    intro h
    simp only [List.mem_cons, not_or] at h
    simp only [List.cons_append]
    rw [splitChars, if_neg (fun e => h.1 e.symm), ih h.2]

theorem splitChars_joinChars (sep : Char) : ∀ (parts : List (List Char)), parts ≠ [] →
    (∀ p ∈ parts, sep ∉ p) → splitChars sep (joinChars sep parts) = parts := by
  intro parts
  induction parts with
  | nil => intro h; exact absurd rfl h
  | cons p rest ih =>
    intro _ h
    cases rest with
    | nil => simpa [joinChars] using splitChars_noSep sep p (h p (by simp))
    | cons q r =>
      simp only [joinChars]
      rw [splitChars_append_sep sep _ p (h p (by simp)), ih (by simp) (fun x hx => h x (by simp [hx]))]

/-- `strings.Split(strings.Join(parts, "."), ".") = parts` when no part contains a dot -/
theorem splitDot_joinDot (parts : List String) (hne : parts ≠ []) (hd : ∀ p ∈ parts, '.' ∉ p.toList) :
    splitDot (joinDot parts) = parts := by
  unfold splitDot joinDot
  rw [String.toList_ofList, splitChars_joinChars '.' (parts.map String.toList) (by simpa using hne)
    (by intro p hp; simp only [List.mem_map] at hp; obtain ⟨s, hs, rfl⟩ := hp; exact hd s hs)]
  simp [List.map_map, Function.comp_def, String.ofList_toList]

/-! ## strconv.Atoi ∘ strconv.Itoa -/

theorem atoi_toString (i : Nat) (hi : i < 2 ^ 63) : atoi (toString i) = some (Int.ofNat i) := by
  have hcs : (toString i).toList = Nat.toDigits 10 i := Nat.toList_repr
  have hdig : ∀ c ∈ Nat.toDigits 10 i, c.isDigit = true :=
    fun c hc => Nat.isDigit_of_mem_toDigits (by decide) (by decide) hc
  have hnn : Nat.toDigits 10 i ≠ [] := Nat.toDigits_ne_nil
  obtain ⟨c, r, hcr⟩ : ∃ c r, Nat.toDigits 10 i = c :: r := by
    cases h : Nat.toDigits 10 i with
    | nil => exact absurd h hnn
    | cons c r => exact ⟨c, r, rfl⟩
  have hc : c.isDigit = true := hdig c (by rw [hcr]; simp)
  have hm : c ≠ '-' := by intro e; rw [e] at hc; exact absurd hc (by decide)
  have hp : c ≠ '+' := by intro e; rw [e] at hc; exact absurd hc (by decide)
  have hall : (c :: r).all Char.isDigit = true := by
    rw [← hcr]; exact List.all_eq_true.mpr hdig
  have hval : Nat.ofDigitChars 10 (c :: r) 0 = i := by rw [← hcr]; exact Nat.ofDigitChars_ten_toDigits
  unfold atoi
  simp only [hcs, hcr, List.head?_cons]
  simp [hm, hp, hall, hval, hi]

/-! ## from positions to the Go path strings -/

/-- the path string a client writes for position `pos` of request `i` -/
def clientPath (F : Facts) (batch : Bool) (i : Nat) (pos : List String) : String :=
  joinDot ((if batch then [toString i] else []) ++ F.variablesKeyword :: pos)

theorem toString_nat_noDot (i : Nat) : '.' ∉ (toString i).toList := by
  intro h
  have hcs : (toString i).toList = Nat.toDigits 10 i := Nat.toList_repr
  rw [hcs] at h
  have := Nat.isDigit_of_mem_toDigits (b := 10) (n := i) (by decide) (by decide) h
  exact absurd this (by decide)

theorem reqAt_ok (F : Facts) (reqs : List Req) (i : Nat) (r : Req) (h : reqs[i]? = some r) :
    reqAt F reqs (Int.ofNat i) = .ok (i, r) := by
  unfold reqAt
  have : ¬ ((Int.ofNat i) < 0) := by simp
  simp [h]
  intro hlt
  omega

/-- one path of the client's map does, on request `i`, what `walk` does on its variables -/
theorem injectPath_clientPath (F : Facts) (batch : Bool) (u i : Nat) (hi : i < 2 ^ 63) (hnb : batch = false → i = 0)
    (reqs : List Req) (r : Req) (m : List (String × V)) (hr : reqs[i]? = some r) (hv : r.vars = some m)
    (pos : List String) (hp : pos ≠ []) (hd : ∀ p ∈ pos, '.' ∉ p.toList) (hk : '.' ∉ F.variablesKeyword.toList) :
    injectPath F batch u (clientPath F batch i pos) reqs =
      match walk F u pos m with
      | .ok m' => .ok (reqs.set i { r with vars := some m' })
      | .err e => .err e
      | .panic x => .panic x := by
  unfold injectPath clientPath
  rw [splitDot_joinDot _ (by cases batch <;> simp)
    (by
      intro p hpm
      cases batch with
      | false => simp at hpm; rcases hpm with rfl | h; exact hk; exact hd p h
      | true =>
        simp at hpm
        rcases hpm with rfl | rfl | h
        · exact toString_nat_noDot i
        · exact hk
        · exact hd p h)]
  have hrest : pos.isEmpty = false := by cases pos with | nil => exact absurd rfl hp | cons _ _ => rfl
  cases batch with
  | false =>
    have hi0 : i = 0 := hnb rfl
    subst hi0
    have h0 := reqAt_ok F reqs 0 r hr
    simp only [injectParts, injectAt, Bool.false_eq_true, if_false, List.nil_append, ne_eq, not_true_eq_false, hrest]
    simp only [show (0 : Int) = Int.ofNat 0 from rfl, h0, hv]
    rfl
  | true =>
    have h0 := reqAt_ok F reqs i r hr
    simp only [injectParts, injectAt, if_true, List.cons_append, List.nil_append, atoi_toString i hi, ne_eq,
      not_true_eq_false, if_false, hrest, h0, hv]
    rfl

/-- the entries a client sends for a flattened map: one form key per pair -/
def entriesOf (F : Facts) (batch : Bool) (i : Nat) : Pairs → List (Nat × String × List String)
  | [] => []
  | (u, pos) :: r => (u, toString u, [clientPath F batch i pos]) :: entriesOf F batch i r

/-- `injectEntries` on those entries is `injectPairs` on the variables of request `i` -/
theorem injectEntries_entriesOf (F : Facts) (batch : Bool) (i : Nat) (hi : i < 2 ^ 63) (hnb : batch = false → i = 0)
    (files : List String) (hk : '.' ∉ F.variablesKeyword.toList) :
    ∀ (pairs : Pairs) (reqs : List Req) (r : Req) (m : List (String × V)),
      reqs[i]? = some r → r.vars = some m →
      (∀ x ∈ pairs, files.contains (toString x.1) = true ∧ x.2 ≠ [] ∧ ∀ p ∈ x.2, '.' ∉ p.toList) →
      injectEntries F batch files (entriesOf F batch i pairs) reqs =
        match injectPairs F pairs m with
        | .ok m' => .ok (reqs.set i { r with vars := some m' })
        | .err e => .err e
        | .panic x => .panic x := by
  intro pairs
  induction pairs with
  | nil =>
    intro reqs r m hr hv _
    simp only [entriesOf, injectEntries, injectPairs]
    congr 1
    rcases List.getElem?_eq_some_iff.mp hr with ⟨hlt, hget⟩
    have : ({ r with vars := some m } : Req) = r := by rw [← hv]
    rw [this, ← hget, List.set_getElem_self]
  | cons x rest ih =>
    intro reqs r m hr hv hall
    obtain ⟨u, pos⟩ := x
    obtain ⟨hf, hp, hd⟩ := hall (u, pos) (by simp)
    simp only [entriesOf, injectEntries, injectPairs, hf, Bool.not_true, Bool.false_eq_true, if_false, injectFile]
    rw [injectPath_clientPath F batch u i hi hnb reqs r m hr hv pos hp hd hk]
    cases hw : walk F u pos m with
    | err e => rfl
    | panic x => rfl
    | ok m1 =>
      simp only
      have hlen : i < reqs.length := by
        rcases List.getElem?_eq_some_iff.mp hr with ⟨h, _⟩; exact h
      have hr1 : (reqs.set i { r with vars := some m1 })[i]? = some { r with vars := some m1 } := by
        simp [hlen]
      rw [ih (reqs.set i { r with vars := some m1 }) { r with vars := some m1 } m1 hr1 rfl
        (fun y hy => hall y (by simp [hy]))]
      cases injectPairs F rest m1 with
      | err e => rfl
      | panic x => rfl
      | ok m' => simp [List.set_set]

end PebblesVerif.Upload
