import PebblesVerif.Proofs.Point
import PebblesVerif.Model.Exec
/-!
# C01 — federated execution equals a single server

**Full statement (kept visible; NOT yet proved as one theorem):**

```
theorem C01_gateway_eq_reference (F : Fed) (hwf : F.WF) (hm : Model.merge F = .ok mr)
    (op : Op) (hv : Spec.valid mr.schema op) (vars) (cfg : GwConfig) :
    ∃ d, Exec.gateway c cfg op vars (specDownstream F.services F.data) = .ok ⟨some d, [], _⟩
       ∧ prune d = prune (Spec.eval mr.schema F.data op vars)
```

What is machine-checked today are the stage lemmas below, each for ALL inputs, about the
functions of the executable model (`Model/Sanitize`, `Plan`, `Format`, `Point`, `ResultOps`,
`ScrubClean`, `Exec`) that the correspondence run compares with the real planner and executor on
every run (plan steps, scrub table, sub-requests, response data). The composition is carried by
that correspondence and by the oracle run (real gateway vs `Spec.eval` over the merged schema);
C01 is therefore claimed as *proof, partial*.
-/
namespace PebblesVerif
open PebblesVerif.Point

/-- **Insertion-point codec round trip (list element with id).** For every field name without
    `#`/`:`, every index and every id without `#`, decoding the encoded point returns exactly
    the three components. (`:` inside the id is harmless — TestResultSingleObjectWithColonInID.) -/
theorem C01_point_roundtrip_list (field id : List Char) (i : Nat)
    (hf1 : '#' ∉ field) (hf2 : ':' ∉ field) (hid : '#' ∉ id) :
    extractL (encodeListL field i (some id))
      = .ok ⟨String.ofList field, some i, String.ofList id⟩ := by
  have hd1 : '#' ∉ showNat i := not_mem_showNat i '#' (by decide)
  have hd2 : ':' ∉ showNat i := not_mem_showNat i ':' (by decide)
  have hpre : '#' ∉ field ++ ':' :: showNat i := by
    simp only [List.mem_append, List.mem_cons, not_or]
    exact ⟨hf1, by decide, hd1⟩
  have hsplit : splitOn '#' (field ++ ':' :: showNat i ++ '#' :: id) = [field ++ ':' :: showNat i, id] := by
    have := splitOn_append_sep '#' (field ++ ':' :: showNat i) id hpre
    rw [splitOn_not_mem '#' id hid] at this
    simpa [List.append_assoc] using this
  have hcont : (field ++ ':' :: showNat i ++ '#' :: id).contains '#' = true := by simp
  have hsplit2 : splitOn ':' (field ++ ':' :: showNat i) = [field, showNat i] := by
    have := splitOn_append_sep ':' field (showNat i) hf2
    rw [splitOn_not_mem ':' _ hd2] at this
    exact this
  have hcont2 : (field ++ ':' :: showNat i).contains ':' = true := by simp
  unfold extractL encodeListL
  simp only [List.append_assoc, List.cons_append] at hsplit hcont ⊢
  simp only [hcont, ↓reduceIte, hsplit, hcont2, hsplit2, allDigits_showNat, digitsToNat_showNat]

/-- **Round trip without an id** (intermediate points of a path: `friends:3`). -/
theorem C01_point_roundtrip_list_noid (field : List Char) (i : Nat)
    (hf1 : '#' ∉ field) (hf2 : ':' ∉ field) :
    extractL (encodeListL field i none) = .ok ⟨String.ofList field, some i, ""⟩ := by
  have hd1 : '#' ∉ showNat i := not_mem_showNat i '#' (by decide)
  have hd2 : ':' ∉ showNat i := not_mem_showNat i ':' (by decide)
  have hno : (field ++ ':' :: showNat i).contains '#' = false := by
    simp only [List.contains_eq_mem, List.mem_append, List.mem_cons, decide_eq_false_iff_not, not_or]
    exact ⟨hf1, by decide, hd1⟩
  have hsplit2 : splitOn ':' (field ++ ':' :: showNat i) = [field, showNat i] := by
    have := splitOn_append_sep ':' field (showNat i) hf2
    rw [splitOn_not_mem ':' _ hd2] at this
    exact this
  have hcont2 : (field ++ ':' :: showNat i).contains ':' = true := by simp
  have hno' : ¬ ('#' ∈ field ∨ '#' ∈ showNat i) := by
    intro h; rcases h with h | h
    · exact hf1 h
    · exact hd1 h
  have hc' : ':' ∈ field ++ ':' :: showNat i := by simp
  unfold extractL encodeListL
  simp only [List.append_nil]
  simp [hno', hsplit2, allDigits_showNat, digitsToNat_showNat]

/-- **Object point with id** (`owner#User_8`). -/
theorem C01_point_roundtrip_obj (field id : List Char)
    (hf1 : '#' ∉ field) (hf2 : ':' ∉ field) (hid : '#' ∉ id) :
    extractL (field ++ '#' :: id) = .ok ⟨String.ofList field, none, String.ofList id⟩ := by
  have hsplit : splitOn '#' (field ++ '#' :: id) = [field, id] := by
    have := splitOn_append_sep '#' field id hf1
    rw [splitOn_not_mem '#' id hid] at this
    exact this
  have hcont : (field ++ '#' :: id).contains '#' = true := by simp
  have hno : field.contains ':' = false := by simpa using hf2
  unfold extractL
  simp [hsplit]
  intro h; exact absurd h hf2

/-- **The hypothesis is forced** — an id containing `#` decodes to the EMPTY id (after which
    `getVariables` fails with "could not find id in path"): concrete witness, by evaluation. -/
theorem C01_point_hash_breaks :
    extractL ['o', 'w', 'n', 'e', 'r', '#', 'a', '#', 'b'] = .ok ⟨"owner", none, ""⟩ := by rfl

end PebblesVerif
