import PebblesVerif.Proofs.Point
import PebblesVerif.Proofs.Eval
import PebblesVerif.Proofs.Sanitize
import PebblesVerif.Proofs.OneHop
import PebblesVerif.Model.Exec
import PebblesVerif.Model.SanitizeShared
/-!
# C01 — federated execution equals a single server

**Full statement (kept visible; NOT yet proved as one theorem):**

```
theorem C01_gateway_eq_reference (F : Fed) (hwf : F.WF) (hm : Model.merge F = .ok mr)
    (op : Op) (hv : Spec.valid mr.schema op) (vars) (cfg : GwConfig) :
    ∃ d, Exec.gateway c cfg op vars (specDownstream F.services F.data) = .ok ⟨some d, [], _⟩
       ∧ prune d = prune (Spec.eval mr.schema F.data op vars)
```

What is machine-checked today are the stage lemmas below, each for ALL inputs, about the
functions of the executable model (`Model/Sanitize`, `Plan`, `Format`, `Point`, `ResultOps`,
`ScrubClean`, `Exec`) that the correspondence run compares with the real planner and executor on
every run (plan steps, scrub table, sub-requests, response data). The composition is carried by
that correspondence and by the oracle run (real gateway vs `Spec.eval` over the merged schema);
C01 is therefore claimed as *proof, partial*.
-/
namespace PebblesVerif
open PebblesVerif.Point

/-- **Insertion-point codec round trip (list element with id).** For every field name without
    `#`/`:`, every index and EVERY id (it may contain `#` and `:` — the point is cut at the first
    `#` only, regenerated fact `Gen.Point.idSplitFirst`), decoding the encoded point returns
    exactly the three components. -/
theorem C01_point_roundtrip_list (field id : List Char) (i : Nat)
    (hf1 : '#' ∉ field) (hf2 : ':' ∉ field) :
    extractL (encodeListL field i (some id))
      = .ok ⟨String.ofList field, some i, String.ofList id⟩ := by
  have hd1 : '#' ∉ showNat i := not_mem_showNat i '#' (by decide)
  have hd2 : ':' ∉ showNat i := not_mem_showNat i ':' (by decide)
  have hpre : '#' ∉ field ++ ':' :: showNat i := by
    simp only [List.mem_append, List.mem_cons, not_or]
    exact ⟨hf1, by decide, hd1⟩
  have hsplit : splitFirst '#' (field ++ ':' :: showNat i ++ '#' :: id) = (field ++ ':' :: showNat i, id) :=
    splitFirst_append_sep '#' (field ++ ':' :: showNat i) id hpre
  have hcont : (field ++ ':' :: showNat i ++ '#' :: id).contains '#' = true := by simp
  have hsplit2 : splitOn ':' (field ++ ':' :: showNat i) = [field, showNat i] := by
    have := splitOn_append_sep ':' field (showNat i) hf2
    rw [splitOn_not_mem ':' _ hd2] at this
    exact this
  have hcont2 : (field ++ ':' :: showNat i).contains ':' = true := by simp
  unfold extractL encodeListL
  simp only [List.append_assoc, List.cons_append] at hsplit hcont ⊢
  simp only [hcont, ↓reduceIte, idSplitFirst_current, hsplit, hcont2, hsplit2, allDigits_showNat, digitsToNat_showNat]

/-- **Round trip without an id** (intermediate points of a path: `friends:3`). -/
theorem C01_point_roundtrip_list_noid (field : List Char) (i : Nat)
    (hf1 : '#' ∉ field) (hf2 : ':' ∉ field) :
    extractL (encodeListL field i none) = .ok ⟨String.ofList field, some i, ""⟩ := by
  have hd1 : '#' ∉ showNat i := not_mem_showNat i '#' (by decide)
  have hd2 : ':' ∉ showNat i := not_mem_showNat i ':' (by decide)
  have hno : (field ++ ':' :: showNat i).contains '#' = false := by
    simp only [List.contains_eq_mem, List.mem_append, List.mem_cons, decide_eq_false_iff_not, not_or]
    exact ⟨hf1, by decide, hd1⟩
  have hsplit2 : splitOn ':' (field ++ ':' :: showNat i) = [field, showNat i] := by
    have := splitOn_append_sep ':' field (showNat i) hf2
    rw [splitOn_not_mem ':' _ hd2] at this
    exact this
  have hcont2 : (field ++ ':' :: showNat i).contains ':' = true := by simp
  have hno' : ¬ ('#' ∈ field ∨ '#' ∈ showNat i) := by
    intro h; rcases h with h | h
    · exact hf1 h
    · exact hd1 h
  have hc' : ':' ∈ field ++ ':' :: showNat i := by simp
  unfold extractL encodeListL
  simp only [List.append_nil]
  simp [hno', hsplit2, allDigits_showNat, digitsToNat_showNat]

/-- **Object point with id** (`owner#User_8`), for EVERY id. -/
theorem C01_point_roundtrip_obj (field id : List Char)
    (hf1 : '#' ∉ field) (hf2 : ':' ∉ field) :
    extractL (field ++ '#' :: id) = .ok ⟨String.ofList field, none, String.ofList id⟩ := by
  have hsplit : splitFirst '#' (field ++ '#' :: id) = (field, id) := splitFirst_append_sep '#' field id hf1
  have hcont : (field ++ '#' :: id).contains '#' = true := by simp
  have hno : field.contains ':' = false := by simpa using hf2
  unfold extractL
  simp only [hcont, ↓reduceIte, idSplitFirst_current, hsplit, hno]
  simp

/-- **An id containing `#` survives** (it did not before the repair `strings.SplitN(point, "#", 2)`:
    the id was dropped and `getVariables` failed with "could not find id in path"). Concrete
    witness, by evaluation. -/
theorem C01_point_hash_in_id :
    extractL ['o', 'w', 'n', 'e', 'r', '#', 'a', '#', 'b'] = .ok ⟨"owner", none, "a#b"⟩ := by rfl

/-! ## Finding the stitch point in a step's selection set -/

/-- **A field of the current level is never shadowed by a deeper field with the same response
    name.** For every selection set: if a field with response name `name` stands at the current
    level (through inline fragments — `ResultOps.findLevel`), `executor.FindSelection` returns that
    field, whatever lies deeper and earlier. Stands on the regenerated fact that the function
    searches the current level first (`Gen.FindSelection.levelFirst`, read from
    executor/selection_set.go on every run). -/
theorem C01_find_selection_level_first (name : String) (ss : List Sel) (f : Sel)
    (h : ResultOps.findLevel name ss = some f) : ResultOps.findSelection name ss = some f := by
  have hfact : Gen.FindSelection.levelFirst = true := by decide
  unfold ResultOps.findSelection
  simp only [hfact, ↓reduceIte, ResultOps.findSelectionLF, h]

/-- **What the single depth-first loop did** (before the repair): in
    `{ w { items { n } }  items { n extra } }` the stitch-path name `items` resolved to the field
    below `w` — a valid query was then answered "root value of result chunk was not a list".
    Concrete witness on the depth-first search, by evaluation. -/
theorem C01_find_selection_depth_first_shadowed :
    let inner : Sel := .field "" "items" [] [] (.named "Item") [] [.field "" "n" [] [] (.named "Int") [] []]
    let outer : Sel := .field "" "items" [] [] (.list (.named "Item")) [] [.field "" "n" [] [] (.named "Int") [] [], .field "" "extra" [] [] (.named "Int") [] []]
    let ss : List Sel := [.field "" "w" [] [] (.named "W") [] [inner], outer]
    (ResultOps.findSelectionDF "items" ss).map ResultOps.selType = some (.named "Item") ∧
    (ResultOps.findSelectionLF "items" ss).map ResultOps.selType = some (.list (.named "Item")) := by
  exact ⟨rfl, rfl⟩

/-! ## The sanitiser has value semantics -/

/-- **The planner the correspondence runs against the real code is the value-level planner of the
    theorems, for EVERY operation** — in particular for operations that spread one fragment more
    than once. Stands on the regenerated fact that `sanitizeSelectionSet` works on copies of the
    document's nodes (`Gen.Sanitize.copiesNodes`, read from planner/sanitize_selection_set.go on every
    run). While it wrote into the shared nodes, the second expansion of a fragment found the helper
    `id` the first one had put there and registered no scrub entry: `{ q0 { ...F0 } a: q0 { ...F0 } }`
    leaked `id` under `a` (the sharing model `planShared` reproduces that; see
    `Model/SanitizeShared.lean`). -/
theorem C01_planner_value_semantics (c : PCtx) (op : Op) : planFor c op = plan c op := by
  have hfact : Gen.Sanitize.copiesNodes = true := by decide
  simp [planFor, hfact]

/-! ## The semantic core of federation (reference evaluator) -/

/-- **A service answers what the merged-schema server would answer for the same selection.**
    Evaluation over the shared data does not consult the schema for selections that do not go
    through `node` and whose fragment conditions have the same possible types in both schemas
    (in particular: all conditions concrete) — for every selection set, object and data. -/
theorem C01_eval_schema_independent (e : Spec.Env) (S : Schema) (ss : List Sel) (o : Spec.Obj)
    (acc : List (String × J)) (h : Spec.concreteOnly S e.schema ss = true) :
    Spec.evalSels (e.withSchema S) o ss acc = Spec.evalSels e o ss acc :=
  Spec.evalSels_schema e S ss o acc h

/-- **Decomposition**: the answer to `a ++ b` on one object is the answer to `a` extended by the
    answer to `b` — what lets the planner hand `a` and `b` to different owners. -/
theorem C01_eval_split (e : Spec.Env) (o : Spec.Obj) (a b : List Sel) (acc : List (String × J)) :
    Spec.evalSels e o (a ++ b) acc = (Spec.evalSels e o a acc).bind (fun acc' => Spec.evalSels e o b acc') :=
  Spec.evalSels_append e o a b acc

/-- **Lookup by id**: the planner's `node(id: $id) { ... on T { sels } }` wrapper, evaluated at a
    service that knows `T`, returns under `node` exactly the evaluation of `sels` on that entity. -/
theorem C01_eval_node_lookup (env : Spec.Env) (e : Spec.Entity) (sels : List Sel) (kvs : List (String × J))
    (he : env.data.entity? e.id = some e) (hid : J.lookup "id" env.vars = some (.str e.id))
    (hT : ∃ td, env.schema.type? e.type = some td ∧ td.kind = .object)
    (hk : Spec.evalSels env (.ent e.type e.id e.fields) sels [] = some kvs) :
    Spec.evalSels env (.root "Query") (convertToNodeQuery e.type sels) [] = some [("node", .obj kvs)] :=
  Spec.eval_node_lookup env e sels kvs he hid hT hk

/-- **One stitching hop**: for every object, every two lists of plain fields `own` / `foreign`
    with pairwise distinct response keys and every data: merging the answer for `foreign` into the
    answer for `own` with the executor's own merge function (`DepthExecutorManager.merge`'s per-key
    rule, `ResultOps.mergeInto`) is the single-server answer for `own ++ foreign`. Together with
    `C01_eval_schema_independent` (each owner evaluates its share as the merged server would) and
    `C01_eval_node_lookup` (the share is reached through `node(id: $id)`), this is the semantic step
    that every level of the plan repeats. -/
theorem C01_one_hop (e : Spec.Env) (o : Spec.Obj) (own foreign : List Sel) (a b : List (String × J))
    (hp1 : Spec.plainFields own = true) (hp2 : Spec.plainFields foreign = true)
    (hnd : (Spec.respKeys (own ++ foreign)).Nodup)
    (ha : Spec.evalSels e o own [] = some a) (hb : Spec.evalSels e o foreign [] = some b) :
    Spec.evalSels e o (own ++ foreign) [] = some (ResultOps.mergeInto a b) :=
  Spec.one_hop e o own foreign a b hp1 hp2 hnd ha hb

/-! ## Planner front end -/

/-- **The sanitiser expands every fragment spread** (for every operation): the selection set the
    router sees contains no `FragmentSpread`. -/
theorem C01_sanitize_expands_spreads (c : PCtx) (ss res : List Sel) (sf : Scrub)
    (h : sanitizeSels c [] ss = .ok (res, sf)) : noSpread res = true :=
  sanitize_noSpread c [] ss res sf h

/-- **Helper fields are only ever PREPENDED, and only `id` / `__typename`**: whatever the
    sanitiser adds to a selection set for the executor's benefit is a prefix of helper fields;
    the client's selections are kept, in order. -/
theorem C01_helpers_only_prepended {c : PCtx} {ss : List Sel} {t : String} {res : List Sel} {added : List String}
    (h : addScrubFields c ss t = .ok (res, added)) :
    ∃ pre, res = pre ++ ss ∧ ∀ x ∈ pre, x = idField ∨ x = typenameField :=
  addScrubFields_shape h

end PebblesVerif
