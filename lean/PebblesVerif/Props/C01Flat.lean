import PebblesVerif.Props.C01
import PebblesVerif.Proofs.Flat6
/-!
C01, end to end, for an unbounded family of operations (kept apart from Props/C01.lean only because
the proof uses the Point round-trip theorems stated there).
-/
namespace PebblesVerif

/-- **The gateway's answer equals the single-server answer — end to end — for every operation of
    the "one object, two owners" family.** The family: a root field `q` of a Node type `T` is
    owned by service `A`; the client selects any non-empty list `fs` of distinct leaf fields of
    `T`, each owned by `A` or by `B`, in any order and interleaving (`Flat.Fam` states exactly
    this about the merged schema and the type-URL map; no bound on the number of fields or on the
    data). For every data set in which `q` refers to an entity `e` of type `T` (its id an arbitrary
    non-empty string: it may contain `#`, the path separator — the point is cut at the FIRST `#`,
    cf. `C01_point_hash_in_id`), with every service answering its sub-requests as the reference
    evaluator does over its OWN schema:

    `Model.gateway` — sanitise (adds the helper `id`), plan (root step at `A`, one child step
    `node(id: $id)` at `B` when some field is `B`'s), execute depth by depth (insertion point
    `q#<id>` built and parsed back, batch built, `node` unwrapped, merged at the insertion point),
    scrub (helper `id` removed) — returns no errors and, under `q`, exactly the fields of the
    single-server answer `r` (as a JSON object: same keys, same values; the key order is `A`'s
    fields then `B`'s, hence `Perm`).

    This composes every modelled stage of the pipeline; the correspondence check ties each stage
    (plan tree, scrub table, sub-requests, data) to the real gateway. A concrete instance
    satisfying every hypothesis: `C01_flat_one_hop_instance`. -/
theorem C01_flat_one_hop {c : PCtx} {A B T q : String} {fs : List Flat.FieldSpec} (h : Flat.Fam c A B T q fs)
    (svcs : List Exec.Svc) (SA SB : Schema) (D : Spec.Data) (e : Spec.Entity) (r : List (String × J))
    (hq1 : '#' ∉ q.toList) (hq2 : ':' ∉ q.toList) (hqne : q ≠ "") (hine : e.id ≠ "")
    (hnne : ∀ n ∈ Flat.namesOf fs, n ≠ "")
    (hsA : svcs.find? (·.url == A) = some ⟨A, SA⟩) (hsB : svcs.find? (·.url == B) = some ⟨B, SB⟩)
    (hSB : ∃ td, SB.type? T = some td ∧ td.kind = .object)
    (hroot : Spec.dlookup q (D.root "Query") = some (.ref e.id)) (hent : D.entity? e.id = some e) (hty : e.type = T)
    (href : Spec.eval c.schema D ⟨.query, "", [], [Flat.Q T q fs]⟩ [] = some (.obj [(q, .obj r)])) :
    ∃ d calls, Exec.gateway c {} ⟨.query, "", [], [Flat.Q T q fs]⟩ none (Exec.specDownstream svcs D)
        = .ok ⟨some [(q, .obj d)], [], calls⟩ ∧ d.Perm r :=
  Flat.flat_one_hop h svcs SA SB D e r hq1 hq2 hqne hine hnne hsA hsB hSB hroot hent hty href

/-- non-vacuity: a concrete two-service federation (three fields, split A/B/A) meets every
    hypothesis of `C01_flat_one_hop` -/
theorem C01_flat_one_hop_instance : ∃ d calls,
    Exec.gateway Flat.Example.ctx {} ⟨.query, "", [], [Flat.Q "Animal" "animal" Flat.Example.fs]⟩ none
      (Exec.specDownstream Flat.Example.svcs Flat.Example.data) = .ok ⟨some [("animal", .obj d)], [], calls⟩ ∧
    d.Perm Flat.Example.expected := Flat.Example.applied

end PebblesVerif
