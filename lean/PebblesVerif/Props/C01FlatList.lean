import PebblesVerif.Props.C01Flat
import PebblesVerif.Proofs.FlatList6
/-!
C01, end to end, for the "LIST of objects, two owners" family: the root field returns a list of
entities (`q : [T]`), the selected leaf fields are split between two services. Companion of
`Props/C01Flat.lean` (one object). Proof in `Proofs/FlatList1 … FlatList6.lean`.
-/
namespace PebblesVerif

/-- **The gateway's answer equals the single-server answer — end to end — for every operation of
    the "list of objects, two owners" family.** The family is that of `C01_flat_one_hop`
    (`Flat.Fam`: a root field `q` owned by service `A`; the client selects any non-empty list `fs`
    of distinct leaf fields of the Node type `T`, each owned by `A` or by `B`, in any order and
    interleaving) — but `q` is declared `[T]` (`FlatList.QL`: the field's type is
    `.list (.named T)`) and the data's root value for `q` is a LIST of references to entities
    `es` of type `T`. No bound on the number of fields, on the length `k` of the list (`k = 0`
    allowed), on the data; the SAME entity may occur at several positions. Ids are arbitrary non-empty
    strings (`#`, the path separator, may occur in them: the point is cut at the FIRST `#`, cf.
    `C01_point_hash_in_id`); every reference resolves (lists with `null` elements:
    `C01_flat_list_nulls_one_hop`, `Props/C01FlatListNulls.lean`). Every service answers
    its sub-requests as the reference evaluator does over its OWN schema.

    `Model.gateway` — sanitise (adds the helper `id` under `q`), plan (root step at `A`, ONE child
    step `node(id: $id) { ... on T { … } }` at `B` with insertion point `[q]`), execute depth 0
    (the list from `A`; `FindInsertionPoints` realises one insertion point `q:<j>#<id>` per list
    element), execute depth 1 (`k` follow-up requests grouped into ONE batch for `B`, identical
    lookups de-duplicated; every answer unwrapped from `node` and merged into the element at ITS
    index), scrub (the helper `id` removed from every element) — returns no errors and, under
    `q`, a list `ds` of `k` objects whose `j`-th element has exactly the fields of the `j`-th
    element `rs[j]` of the single-server answer (same keys, same values; inside an element the key
    order is `A`'s fields then `B`'s, hence `Perm`).

    Concrete instances satisfying every hypothesis: `C01_flat_list_instance` (three entities),
    `C01_flat_list_instance_dup` (a repeated entity), `C01_flat_list_instance_empty` (`k = 0`). -/
theorem C01_flat_list_one_hop {c : PCtx} {A B T q : String} {fs : List Flat.FieldSpec} (h : Flat.Fam c A B T q fs)
    (svcs : List Exec.Svc) (SA SB : Schema) (D : Spec.Data) (es : List Spec.Entity) (rs : List (List (String × J)))
    (hq1 : '#' ∉ q.toList) (hq2 : ':' ∉ q.toList) (hqne : q ≠ "")
    (hi : ∀ e ∈ es, e.id ≠ "")
    (hnne : ∀ n ∈ Flat.namesOf fs, n ≠ "")
    (hsA : svcs.find? (·.url == A) = some ⟨A, SA⟩) (hsB : svcs.find? (·.url == B) = some ⟨B, SB⟩)
    (hSB : ∃ td, SB.type? T = some td ∧ td.kind = .object)
    (hroot : Spec.dlookup q (D.root "Query") = some (.list (es.map (fun e => Spec.DVal.ref e.id))))
    (hent : ∀ e ∈ es, D.entity? e.id = some e ∧ e.type = T)
    (href : Spec.eval c.schema D ⟨.query, "", [], [FlatList.QL T q fs]⟩ [] = some (.obj [(q, .arr (rs.map J.obj))])) :
    ∃ (ds : List (List (String × J))) (calls : List Exec.Call),
      Exec.gateway c {} ⟨.query, "", [], [FlatList.QL T q fs]⟩ none (Exec.specDownstream svcs D)
        = .ok ⟨some [(q, .arr (ds.map J.obj))], [], calls⟩
      ∧ ds.length = es.length ∧ rs.length = es.length
      ∧ ∀ (j : Nat) (d r : List (String × J)), ds[j]? = some d → rs[j]? = some r → d.Perm r :=
  FlatList.flat_list_one_hop h svcs SA SB D es rs hq1 hq2 hqne hi hnne hsA hsB hSB hroot hent href

/-- **One batch, identical lookups sent once.** Under the hypotheses of `C01_flat_list_one_hop`,
    when `B` owns at least one selected field and the list is not empty, the model makes exactly
    TWO calls: one request to `A`, then ONE batch to `B` whose requests carry, as variables,
    `{id: i}` for each DISTINCT id `i` of the list, in order of first occurrence
    (`FlatList.dedupIds`: duplicate-free, same members as the list of ids — so `k` lookups when the
    ids are pairwise distinct, fewer when an entity is repeated; the one answer is then stitched in
    at every position of that entity, which is what the first theorem's conclusion says). -/
theorem C01_flat_list_one_batch {c : PCtx} {A B T q : String} {fs : List Flat.FieldSpec} (h : Flat.Fam c A B T q fs)
    (svcs : List Exec.Svc) (SA SB : Schema) (D : Spec.Data) (es : List Spec.Entity) (rs : List (List (String × J)))
    (hq1 : '#' ∉ q.toList) (hq2 : ':' ∉ q.toList) (hqne : q ≠ "")
    (hi : ∀ e ∈ es, e.id ≠ "")
    (hnne : ∀ n ∈ Flat.namesOf fs, n ≠ "")
    (hsA : svcs.find? (·.url == A) = some ⟨A, SA⟩) (hsB : svcs.find? (·.url == B) = some ⟨B, SB⟩)
    (hSB : ∃ td, SB.type? T = some td ∧ td.kind = .object)
    (hroot : Spec.dlookup q (D.root "Query") = some (.list (es.map (fun e => Spec.DVal.ref e.id))))
    (hent : ∀ e ∈ es, D.entity? e.id = some e ∧ e.type = T)
    (href : Spec.eval c.schema D ⟨.query, "", [], [FlatList.QL T q fs]⟩ [] = some (.obj [(q, .arr (rs.map J.obj))]))
    (hBown : ∃ f ∈ fs, f.2.2 = true) (hk : es ≠ []) :
    ∃ (data : List (String × J)) (rqA : Exec.Request) (batch : List Exec.Request),
      Exec.gateway c {} ⟨.query, "", [], [FlatList.QL T q fs]⟩ none (Exec.specDownstream svcs D)
        = .ok ⟨some data, [], [⟨A, [rqA]⟩, ⟨B, batch⟩]⟩
      ∧ batch.map (·.vars) = (FlatList.dedupIds (es.map (·.id))).map (fun i => [("id", J.str i)])
      ∧ (FlatList.dedupIds (es.map (·.id))).Nodup
      ∧ (∀ i, i ∈ FlatList.dedupIds (es.map (·.id)) ↔ i ∈ es.map (·.id))
      ∧ ((es.map (·.id)).Nodup → batch.length = es.length) := by
  obtain ⟨ds, hg, -, -, -⟩ :=
    FlatList.flat_list_one_hop_calls h svcs SA SB D es rs hq1 hq2 hqne hi hnne hsA hsB hSB hroot hent href
  have hB : Flat.fsB fs ≠ [] := by
    obtain ⟨f, hf, hb⟩ := hBown
    intro hnil
    have : f ∈ Flat.fsB fs := by simp [Flat.fsB, hf, hb]
    rw [hnil] at this; cases this
  have hids : es.map (fun e => e.id) ≠ [] := by simpa using hk
  rw [FlatList.callsOf_two c A B T q fs _ hB hids] at hg
  refine ⟨_, _, _, hg, FlatList.batchB_vars c B T q _ _, FlatList.dedupIds_nodup _, FlatList.mem_dedupIds _, ?_⟩
  intro hnd
  simp [FlatList.batchB, FlatList.dedupIds_of_nodup _ hnd]

/-- **The list may be empty, and `B` may own nothing**: then there is exactly one call (to `A`)
    and no batch at all. -/
theorem C01_flat_list_no_batch {c : PCtx} {A B T q : String} {fs : List Flat.FieldSpec} (h : Flat.Fam c A B T q fs)
    (svcs : List Exec.Svc) (SA SB : Schema) (D : Spec.Data) (es : List Spec.Entity) (rs : List (List (String × J)))
    (hq1 : '#' ∉ q.toList) (hq2 : ':' ∉ q.toList) (hqne : q ≠ "")
    (hi : ∀ e ∈ es, e.id ≠ "")
    (hnne : ∀ n ∈ Flat.namesOf fs, n ≠ "")
    (hsA : svcs.find? (·.url == A) = some ⟨A, SA⟩) (hsB : svcs.find? (·.url == B) = some ⟨B, SB⟩)
    (hSB : ∃ td, SB.type? T = some td ∧ td.kind = .object)
    (hroot : Spec.dlookup q (D.root "Query") = some (.list (es.map (fun e => Spec.DVal.ref e.id))))
    (hent : ∀ e ∈ es, D.entity? e.id = some e ∧ e.type = T)
    (href : Spec.eval c.schema D ⟨.query, "", [], [FlatList.QL T q fs]⟩ [] = some (.obj [(q, .arr (rs.map J.obj))]))
    (hnone : (∀ f ∈ fs, f.2.2 = false) ∨ es = []) :
    ∃ (data : List (String × J)) (rqA : Exec.Request),
      Exec.gateway c {} ⟨.query, "", [], [FlatList.QL T q fs]⟩ none (Exec.specDownstream svcs D)
        = .ok ⟨some data, [], [⟨A, [rqA]⟩]⟩ := by
  obtain ⟨ds, hg, -, -, -⟩ :=
    FlatList.flat_list_one_hop_calls h svcs SA SB D es rs hq1 hq2 hqne hi hnne hsA hsB hSB hroot hent href
  have hone : Flat.fsB fs = [] ∨ es.map (fun e => e.id) = [] := by
    rcases hnone with hn | hn
    · left
      simp only [Flat.fsB, List.filter_eq_nil_iff]
      intro f hf; simp [hn f hf]
    · right; simp [hn]
  rw [FlatList.callsOf_one c A B T q fs _ hone] at hg
  exact ⟨_, _, hg⟩

section Instances
open FlatList.Example

/-- non-vacuity: a concrete two-service federation (`animals : [Animal]`, three fields split
    B/A/A, three entities) meets every hypothesis of `C01_flat_list_one_hop`; the model's answer
    for it is also checked by evaluation (`#guard`s in `Proofs/FlatList6.lean`) -/
theorem C01_flat_list_instance : ∃ (ds : List (List (String × J))) (calls : List Exec.Call),
    Exec.gateway ctx {} ⟨.query, "", [], [FlatList.QL "Animal" "animals" FlatList.Example.fs]⟩ none
        (Exec.specDownstream svcs (dataOf [e1, e2, e3]))
      = .ok ⟨some [("animals", .arr (ds.map J.obj))], [], calls⟩
    ∧ ds.length = [e1, e2, e3].length ∧ [x1, x2, x3].length = [e1, e2, e3].length
    ∧ ∀ (j : Nat) (d r : List (String × J)), ds[j]? = some d → [x1, x2, x3][j]? = some r → d.Perm r :=
  applied3

/-- non-vacuity with a REPEATED entity (`animals = [e1, e2, e1]`: two lookups for three elements) -/
theorem C01_flat_list_instance_dup : ∃ (ds : List (List (String × J))) (calls : List Exec.Call),
    Exec.gateway ctx {} ⟨.query, "", [], [FlatList.QL "Animal" "animals" FlatList.Example.fs]⟩ none
        (Exec.specDownstream svcs (dataOf [e1, e2, e1]))
      = .ok ⟨some [("animals", .arr (ds.map J.obj))], [], calls⟩
    ∧ ds.length = [e1, e2, e1].length ∧ [x1, x2, x1].length = [e1, e2, e1].length
    ∧ ∀ (j : Nat) (d r : List (String × J)), ds[j]? = some d → [x1, x2, x1][j]? = some r → d.Perm r :=
  appliedDup

/-- non-vacuity with the EMPTY list (`animals = []`): the answer is `animals: []` -/
theorem C01_flat_list_instance_empty : ∃ (calls : List Exec.Call),
    Exec.gateway ctx {} ⟨.query, "", [], [FlatList.QL "Animal" "animals" FlatList.Example.fs]⟩ none
        (Exec.specDownstream svcs (dataOf []))
      = .ok ⟨some [("animals", .arr [])], [], calls⟩ := by
  obtain ⟨ds, calls, hg, hlen, -, -⟩ := applied0
  have : ds = [] := List.eq_nil_of_length_eq_zero hlen
  subst this
  exact ⟨calls, hg⟩

end Instances

end PebblesVerif
