import PebblesVerif.Props.C01FlatList
import PebblesVerif.Proofs.FlatListNulls2
/-!
C01, end to end, for the "LIST of objects, two owners" family when the list holds `null` ELEMENTS
(`q : [T]` with a nullable element type; the data's root value is a list of references to entities
and `null`s). Companion of `Props/C01FlatList.lean` (every element an entity) and of
`Props/C01Nulls.lean` (the two stage theorems about `null` elements). Proof in
`Proofs/FlatListNulls1.lean` (execute, scrub, pipeline) and `Proofs/FlatListNulls2.lean` (the
reference evaluator as downstream).
-/
namespace PebblesVerif

/-- **The gateway's answer equals the single-server answer — end to end — for every operation of
    the "list of objects, two owners" family over a list with `null` elements.** The family is that
    of `C01_flat_list_one_hop` (`Flat.Fam`: root field `q : [T]` owned by service `A`; any non-empty
    list `fs` of distinct leaf fields of the Node type `T`, each owned by `A` or by `B`), but the
    data's root value for `q` is a list `vs` whose elements are references to entities of type `T`
    (`some e`) OR `null` (`none`; `Spec.DVal.null`) — any number of `null`s at any positions: none
    (then this is `C01_flat_list_one_hop`), some, all; the same entity may occur several times; ids
    are arbitrary non-empty strings. Every service answers its sub-requests as the reference
    evaluator does over its OWN schema. The single server answers under `q` a list `rs` of objects
    and `null`s, `null` only where the data has `null` (`hnull`: no `null` propagated up from a
    non-null field of an entity — that case is outside this family, as in `C01_flat_list_one_hop`).

    `Model.gateway` — sanitise, plan (root step at `A`, one child step at `B` with insertion point
    `[q]`), execute depth 0 (the list from `A`, `null`s included; `FindInsertionPoints` passes over
    the `null`s and realises `q:<j>#<id>` for the entity at position `j` — `j` counts the `null`s
    before it), execute depth 1 (ONE batch to `B`, a lookup per distinct id of the ENTITY elements,
    none at all when the list holds only `null`s; every answer merged into the element at ITS
    index), scrub (the helper `id` removed from every entity element; the `null`s stay, and so does
    a list of nothing but `null`s) — returns no errors and, under `q`, a list `ds` of the same
    length with `null` exactly at the positions where the data (and the single-server answer) has
    `null`, and at every entity position an object with exactly the fields of the single-server
    answer's element (same keys, same values; `A`'s fields then `B`'s, hence `Perm`).

    Stands on the regenerated facts `Gen.Nulls.findIPSkipsNullElements` and
    `Gen.Nulls.cleanKeepsListWithNonMapElement`; before the repair the model (like the code) answered
    `data: null` with the error "entry in result wasn't a map" as soon as `vs` held one `null`
    (`C01_null_element_before_repair`). Concrete instance: `C01_flat_list_nulls_instance`. -/
theorem C01_flat_list_nulls_one_hop {c : PCtx} {A B T q : String} {fs : List Flat.FieldSpec} (h : Flat.Fam c A B T q fs)
    (svcs : List Exec.Svc) (SA SB : Schema) (D : Spec.Data) (vs : List (Option Spec.Entity))
    (rs : List (Option (List (String × J))))
    (hq1 : '#' ∉ q.toList) (hq2 : ':' ∉ q.toList) (hqne : q ≠ "")
    (hi : ∀ e, some e ∈ vs → e.id ≠ "")
    (hnne : ∀ n ∈ Flat.namesOf fs, n ≠ "")
    (hsA : svcs.find? (·.url == A) = some ⟨A, SA⟩) (hsB : svcs.find? (·.url == B) = some ⟨B, SB⟩)
    (hSB : ∃ td, SB.type? T = some td ∧ td.kind = .object)
    (hroot : Spec.dlookup q (D.root "Query")
      = some (.list (vs.map (fun v => match v with | some e => Spec.DVal.ref e.id | none => Spec.DVal.null))))
    (hent : ∀ e, some e ∈ vs → D.entity? e.id = some e ∧ e.type = T)
    (href : Spec.eval c.schema D ⟨.query, "", [], [FlatList.QL T q fs]⟩ []
      = some (.obj [(q, .arr (rs.map (fun r => match r with | some kvs => J.obj kvs | none => J.null)))]))
    (hnull : ∀ j : Nat, rs[j]? = some none → vs[j]? = some none) :
    ∃ (ds : List (Option (List (String × J)))) (calls : List Exec.Call),
      Exec.gateway c {} ⟨.query, "", [], [FlatList.QL T q fs]⟩ none (Exec.specDownstream svcs D)
        = .ok ⟨some [(q, .arr (ds.map (fun d => match d with | some kvs => J.obj kvs | none => J.null)))], [], calls⟩
      ∧ ds.length = vs.length ∧ rs.length = vs.length
      ∧ (∀ j : Nat, vs[j]? = some none → ds[j]? = some none ∧ rs[j]? = some none)
      ∧ (∀ (j : Nat) e, vs[j]? = some (some e) →
          ∃ d r, ds[j]? = some (some d) ∧ rs[j]? = some (some r) ∧ d.Perm r) := by
  have hdv : (fun v : Option Spec.Entity => match v with | some e => Spec.DVal.ref e.id | none => Spec.DVal.null)
      = FlatListN.dvalOf := by funext v; cases v <;> rfl
  have hoj : (fun r : Option (List (String × J)) => match r with | some kvs => J.obj kvs | none => J.null)
      = FlatListN.optJ := by funext r; cases r <;> rfl
  rw [hdv] at hroot
  rw [hoj] at href
  obtain ⟨ds, hg, h1, h2, h3, h4⟩ :=
    FlatListN.flat_list_nulls_one_hop_calls h svcs SA SB D vs rs hq1 hq2 hqne hi hnne hsA hsB hSB hroot hent href hnull
  exact ⟨ds, _, by rw [hoj]; exact hg, h1, h2, h3, h4⟩

/-- **Lookups go out for the entities only.** Under the same hypotheses the calls are exactly those
    of the list of entity ids (`FlatList.callsOf … (ids of the non-null elements)`): one request to
    `A`, then — iff `B` owns a selected field and at least one element is an entity — ONE batch to
    `B` with one lookup per DISTINCT id; a list of nothing but `null`s causes no call to `B`. -/
theorem C01_flat_list_nulls_calls {c : PCtx} {A B T q : String} {fs : List Flat.FieldSpec} (h : Flat.Fam c A B T q fs)
    (svcs : List Exec.Svc) (SA SB : Schema) (D : Spec.Data) (vs : List (Option Spec.Entity))
    (rs : List (Option (List (String × J))))
    (hq1 : '#' ∉ q.toList) (hq2 : ':' ∉ q.toList) (hqne : q ≠ "")
    (hi : ∀ e, some e ∈ vs → e.id ≠ "")
    (hnne : ∀ n ∈ Flat.namesOf fs, n ≠ "")
    (hsA : svcs.find? (·.url == A) = some ⟨A, SA⟩) (hsB : svcs.find? (·.url == B) = some ⟨B, SB⟩)
    (hSB : ∃ td, SB.type? T = some td ∧ td.kind = .object)
    (hroot : Spec.dlookup q (D.root "Query") = some (.list (vs.map FlatListN.dvalOf)))
    (hent : ∀ e, some e ∈ vs → D.entity? e.id = some e ∧ e.type = T)
    (href : Spec.eval c.schema D ⟨.query, "", [], [FlatList.QL T q fs]⟩ [] = some (.obj [(q, .arr (rs.map FlatListN.optJ))]))
    (hnull : ∀ j : Nat, rs[j]? = some none → vs[j]? = some none) :
    ∃ (data : List (String × J)),
      Exec.gateway c {} ⟨.query, "", [], [FlatList.QL T q fs]⟩ none (Exec.specDownstream svcs D)
        = .ok ⟨some data, [], FlatList.callsOf c A B T q fs (vs.filterMap (Option.map (·.id)))⟩
      ∧ ((∀ v ∈ vs, v = none) →
          FlatList.callsOf c A B T q fs (vs.filterMap (Option.map (·.id)))
            = [⟨A, [Flat.rqOf c (FlatList.rootStep A B T q fs) []]⟩]) := by
  obtain ⟨ds, hg, -, -, -, -⟩ :=
    FlatListN.flat_list_nulls_one_hop_calls h svcs SA SB D vs rs hq1 hq2 hqne hi hnne hsA hsB hSB hroot hent href hnull
  have hids : FlatListN.idsOf (FlatListN.idsO vs) = vs.filterMap (Option.map (·.id)) := by
    simp only [FlatListN.idsOf, FlatListN.idsO, List.filterMap_map]
    rfl
  rw [hids] at hg
  refine ⟨_, hg, ?_⟩
  intro hall
  have hnil : vs.filterMap (Option.map (·.id)) = [] := by
    rw [List.filterMap_eq_nil_iff]
    intro v hv
    rw [hall v hv]; rfl
  exact FlatList.callsOf_one c A B T q fs _ (.inr hnil)

section Instance
open FlatList.Example

/-- the example federation of `C01_flat_list_instance` with `animals = vs` (entities and `null`s) -/
def C01Nulls.dataOfO (vs : List (Option Spec.Entity)) : Spec.Data :=
  ⟨[e1, e2, e3], [("Query", [("animals", .list (vs.map FlatListN.dvalOf))])]⟩

/-- non-vacuity: `animals = [e1, null, e2, null]` meets every hypothesis of
    `C01_flat_list_nulls_one_hop`; the answer has `null` at positions 1 and 3 and the two animals,
    with all three fields, at positions 0 and 2 -/
theorem C01_flat_list_nulls_instance :
    ∃ (ds : List (Option (List (String × J)))) (calls : List Exec.Call),
      Exec.gateway ctx {} ⟨.query, "", [], [FlatList.QL "Animal" "animals" FlatList.Example.fs]⟩ none
          (Exec.specDownstream svcs (C01Nulls.dataOfO [some e1, none, some e2, none]))
        = .ok ⟨some [("animals", .arr (ds.map FlatListN.optJ))], [], calls⟩
      ∧ ds.length = 4
      ∧ ds[1]? = some none ∧ ds[3]? = some none
      ∧ (∃ d, ds[0]? = some (some d) ∧ d.Perm x1) ∧ (∃ d, ds[2]? = some (some d) ∧ d.Perm x2) := by
  have href : Spec.eval ctx.schema (C01Nulls.dataOfO [some e1, none, some e2, none]) op []
      = some (.obj [("animals", .arr ([some x1, none, some x2, none].map FlatListN.optJ))]) := by rfl
  obtain ⟨ds, hg, h1, _, h3, h4⟩ :=
    FlatListN.flat_list_nulls_one_hop_calls fam svcs schemaA schemaB (C01Nulls.dataOfO [some e1, none, some e2, none])
      [some e1, none, some e2, none] [some x1, none, some x2, none] (by decide) (by decide) (by decide)
      (by intro e he
          simp only [List.mem_cons, Option.some.injEq, List.not_mem_nil, or_false, reduceCtorEq, false_or] at he
          rcases he with rfl | rfl <;> decide)
      (by decide) (by rfl) (by rfl) ⟨animalT, by rfl, rfl⟩ (by rfl)
      (by intro e he
          simp only [List.mem_cons, Option.some.injEq, List.not_mem_nil, or_false, reduceCtorEq, false_or] at he
          rcases he with rfl | rfl <;> exact ⟨by rfl, rfl⟩)
      href
      (by intro j hj
          match j, hj with
          | 1, _ => rfl
          | 3, _ => rfl)
  refine ⟨ds, _, hg, h1, (h3 1 rfl).1, (h3 3 rfl).1, ?_, ?_⟩
  · obtain ⟨d, r, hd, hr, hp⟩ := h4 0 e1 rfl
    have : r = x1 := by simpa using hr.symm
    exact ⟨d, hd, this ▸ hp⟩
  · obtain ⟨d, r, hd, hr, hp⟩ := h4 2 e2 rfl
    have : r = x2 := by simpa using hr.symm
    exact ⟨d, hd, this ▸ hp⟩

/-- the model's answer for that instance, by evaluation (independently of the proof): the two
    animals complete, `null` at positions 1 and 3, ONE batch of two lookups to `B` -/
def C01Nulls.outcomeO (vs : List (Option Spec.Entity)) :
    Option (Option (List (String × J)) × List String × List (String × List (List (String × J)))) :=
  match Exec.gateway ctx {} op none (Exec.specDownstream svcs (C01Nulls.dataOfO vs)) with
  | .ok g => some (g.data, g.errors, g.calls.map (fun cl => (cl.url, cl.batch.map (·.vars))))
  | .error _ => none

#guard C01Nulls.outcomeO [some e1, none, some e2, none] ==
  some (some [("animals", .arr [y "rex" "7", .null, y "tom" "3", .null])], [],
    [("A", [[]]), ("B", [[("id", .str e1.id)], [("id", .str e2.id)]])])
#guard C01Nulls.outcomeO [none, none] == some (some [("animals", .arr [.null, .null])], [], [("A", [[]])])

end Instance

end PebblesVerif
