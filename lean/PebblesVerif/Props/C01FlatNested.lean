import PebblesVerif.Props.C01Flat
import PebblesVerif.Proofs.FlatNested7
/-!
C01, end to end, for the TWO-LEVEL family: `{ q { f… g { h₁ … hₘ } f… } }` — one object with a
nested object of a second Node type, the leaf fields of BOTH types split between two services.
Companion of `Props/C01Flat.lean` (one object) and `Props/C01FlatList.lean` (a list of objects).
Proof in `Proofs/FlatNested1 … FlatNested7.lean`, stage by stage: `FlatNested.stage_sanitize`,
`stage_plan`, `depth0`, `depth1_T` / `depth1_U` / `depth1_TU` / `depth1_UT`, `stage_execute`,
`stage_scrub`, `stage_gateway`, `flat_nested_calls`.

What this family exercises and the two others do not: TWO child steps at the same depth for the
same service with different insertion points (`[q]`, `[q, g]`), hence ONE call to `B` carrying TWO
requests (`Exec.partitionByURL`, `Exec.buildBatch`; the de-duplication keys differ); an insertion
point of two elements, found by descending through `g` (`ResultOps.findIP`) and merged by descending
again (`Exec.mergeResult` / `ResultOps.updateAt`); a scrub table with two paths.

`g` stands ANYWHERE among the leaf fields of `T`: `fs1` are those written before it, `fs2` those
written after it (either may be empty, not both — `Flat.Fam` asks for one leaf field of `T`).
-/
namespace PebblesVerif

/-- **The gateway's answer equals the single-server answer — end to end — for every operation of
    the two-level family.** The family (`FlatNested.Fam`): a root field `q` of a Node type `T` is owned
    by service `A`; the client selects a non-empty list `fs1 ++ fs2` of distinct leaf fields of `T`,
    each owned by `A` or by `B`, in any order and interleaving (`Flat.Fam`, as in `C01_flat_one_hop`),
    and — between `fs1` and `fs2`, i.e. at ANY position — a field `g` of `T`, owned by `A`, not among
    them, of a second Node type `U ≠ T`, with any non-empty list `hs` of distinct leaf fields of `U`,
    each owned by `A` or by `B`, in any order and interleaving (`Flat.FamT` for `U`). No bound on the
    numbers of fields, the position of `g`, the splits, the data. In the data `q` refers to an entity
    `e` of type `T` and `e.g` to an entity `e'` of type `U`; ids are arbitrary non-empty strings (they
    may contain `#`); the field names `q`, `g` contain neither `#` nor `:`. Every service answers its
    sub-requests as the reference evaluator does over its OWN schema (`B`'s schema knows `T` and `U` as
    object types). The single-server answer over the merged schema is `{q: {…r₁, g: {…rg}, …r₂}}`
    (`g` an object: no non-null violation below it; `r₁` = the answers for `fs1`).

    `Model.gateway` — sanitise (helper `id` under `q` AND under `g`), plan (root step at `A`; child
    steps `node(id: $id) { ... on T {…} }` at `[q]` and `node(id: $id) { ... on U {…} }` at `[q, g]`,
    both at depth 1, both at `B`), execute depth 0 (`A`'s answer; insertion points `[q#<id>]` and
    `[q, g#<id'>]` realised), execute depth 1 (the two follow-up requests grouped into ONE call to `B`;
    each answer unwrapped from `node` and merged at ITS insertion point — the one for `U` by
    descending through `q` into the object under `g`), scrub (two paths; both helper ids removed) —
    returns no errors and, under `q`, an object `d` that is the single-server answer up to the order
    of keys AT BOTH LEVELS: `d` is a permutation of `r₁`, `r₂` and the key `g`, whose value is an
    object `dg` that is a permutation of `rg`. (Order as produced: `A`'s fields with `g` where the
    client wrote it, then `B`'s fields; inside `g`: `A`'s then `B`'s.)

    Concrete instances satisfying every hypothesis: `C01_flat_nested_instance` (`g` last),
    `C01_flat_nested_instance_first`, `C01_flat_nested_instance_middle`. -/
theorem C01_flat_nested_one_hop {c : PCtx} {A B T U q g : String} {fs1 fs2 hs : List Flat.FieldSpec}
    (h : FlatNested.Fam c A B T U q g fs1 fs2 hs)
    (svcs : List Exec.Svc) (SA SB : Schema) (D : Spec.Data) (e e' : Spec.Entity) (r₁ r₂ rg : List (String × J))
    (hq1 : '#' ∉ q.toList) (hq2 : ':' ∉ q.toList) (hqne : q ≠ "")
    (hg1 : '#' ∉ g.toList) (hg2 : ':' ∉ g.toList) (hgne : g ≠ "")
    (hine : e.id ≠ "") (hine' : e'.id ≠ "")
    (hnne : ∀ n ∈ Flat.namesOf (fs1 ++ fs2), n ≠ "") (hnne' : ∀ n ∈ Flat.namesOf hs, n ≠ "")
    (hsA : svcs.find? (·.url == A) = some ⟨A, SA⟩) (hsB : svcs.find? (·.url == B) = some ⟨B, SB⟩)
    (hSBT : ∃ td, SB.type? T = some td ∧ td.kind = .object) (hSBU : ∃ td, SB.type? U = some td ∧ td.kind = .object)
    (hroot : Spec.dlookup q (D.root "Query") = some (.ref e.id)) (hent : D.entity? e.id = some e) (hty : e.type = T)
    (hgref : Spec.dlookup g e.fields = some (.ref e'.id)) (hent' : D.entity? e'.id = some e') (hty' : e'.type = U)
    (hlen : r₁.length = fs1.length)
    (href : Spec.eval c.schema D ⟨.query, "", [], [FlatNested.QN T U q g fs1 fs2 hs]⟩ []
      = some (.obj [(q, .obj (r₁ ++ (g, .obj rg) :: r₂))])) :
    ∃ d dg calls, Exec.gateway c {} ⟨.query, "", [], [FlatNested.QN T U q g fs1 fs2 hs]⟩ none (Exec.specDownstream svcs D)
        = .ok ⟨some [(q, .obj d)], [], calls⟩
      ∧ d.Perm (r₁ ++ (g, .obj dg) :: r₂) ∧ dg.Perm rg := by
  obtain ⟨d, dg, hgw, hp, hp'⟩ := FlatNested.flat_nested_calls h
    (⟨hq1, hq2, hqne, hg1, hg2, hgne, hine, hine', hnne, hnne', hsA, hsB, hSBT, hSBU, hroot, hent, hty, hgref, hent', hty'⟩ :
      FlatNested.Setting c A B T U q g fs1 fs2 hs svcs SA SB D e e') r₁ r₂ rg hlen href
  exact ⟨d, dg, _, hgw, hp, hp'⟩

/-- **Two calls; the second is ONE batch with TWO lookups.** `FlatNested.Setting` bundles the
    hypotheses of `C01_flat_nested_one_hop` on names, federation and data (same fields, same names).
    When `B` owns a selected field at BOTH levels and one of its fields of `T` is written BEFORE `g`,
    the model makes exactly two calls, in this order: to `A` the root request
    `{ q { id <A's f1…> g { id <A's h…> } <A's f2…> } }` without variables; to `B` one batch of two
    requests — first `node(id: $id) { ... on T { <B's f…> } }` with `{id: e.id}`, then
    `node(id: $id) { ... on U { <B's h…> } }` with `{id: e'.id}` (no de-duplication: the two ids
    differ, `T ≠ U`). -/
theorem C01_flat_nested_calls {c : PCtx} {A B T U q g : String} {fs1 fs2 hs : List Flat.FieldSpec}
    (h : FlatNested.Fam c A B T U q g fs1 fs2 hs)
    {svcs : List Exec.Svc} {SA SB : Schema} {D : Spec.Data} {e e' : Spec.Entity}
    (s : FlatNested.Setting c A B T U q g fs1 fs2 hs svcs SA SB D e e') (r₁ r₂ rg : List (String × J))
    (hlen : r₁.length = fs1.length)
    (href : Spec.eval c.schema D ⟨.query, "", [], [FlatNested.QN T U q g fs1 fs2 hs]⟩ []
      = some (.obj [(q, .obj (r₁ ++ (g, .obj rg) :: r₂))]))
    (hBT : ∃ f ∈ fs1, f.2.2 = true) (hBU : ∃ f ∈ hs, f.2.2 = true) :
    ∃ (data : List (String × J)) (rootRequest lookupT lookupU : Exec.Request),
      Exec.gateway c {} ⟨.query, "", [], [FlatNested.QN T U q g fs1 fs2 hs]⟩ none (Exec.specDownstream svcs D)
        = .ok ⟨some data, [], [⟨A, [rootRequest]⟩, ⟨B, [lookupT, lookupU]⟩]⟩
      ∧ rootRequest.sels = [FlatNested.QNown T U q g fs1 fs2 hs] ∧ rootRequest.vars = []
      ∧ lookupT.sels = convertToNodeQuery T (Flat.leaves (Flat.fsB (fs1 ++ fs2))) ∧ lookupT.vars = [("id", .str e.id)]
      ∧ lookupU.sels = convertToNodeQuery U (Flat.leaves (Flat.fsB hs)) ∧ lookupU.vars = [("id", .str e'.id)] := by
  obtain ⟨d, dg, hgw, -, -⟩ := FlatNested.flat_nested_calls h s r₁ r₂ rg hlen href
  rw [FlatNested.callsN_TU c A B T U q g fs1 fs2 hs _ _ (FlatNested.fsB_ne_nil hBT) (FlatNested.fsB_ne_nil hBU)] at hgw
  exact ⟨_, _, _, _, hgw, rfl, rfl, rfl, rfl, rfl, rfl⟩

/-- **The order of the two lookups in the batch depends on where the client wrote `g`.** When `B`
    owns a selected field at both levels but NONE of its fields of `T` is written before `g` (all
    after it), the child step at `[q, g]` is created first (a child step is created when the first
    field for it is met, and `g` comes first): the batch to `B` carries the lookup for `U` FIRST, then
    the lookup for `T`. Same requests, same answer (`C01_flat_nested_one_hop`), other order. -/
theorem C01_flat_nested_calls_swapped {c : PCtx} {A B T U q g : String} {fs1 fs2 hs : List Flat.FieldSpec}
    (h : FlatNested.Fam c A B T U q g fs1 fs2 hs)
    {svcs : List Exec.Svc} {SA SB : Schema} {D : Spec.Data} {e e' : Spec.Entity}
    (s : FlatNested.Setting c A B T U q g fs1 fs2 hs svcs SA SB D e e') (r₁ r₂ rg : List (String × J))
    (hlen : r₁.length = fs1.length)
    (href : Spec.eval c.schema D ⟨.query, "", [], [FlatNested.QN T U q g fs1 fs2 hs]⟩ []
      = some (.obj [(q, .obj (r₁ ++ (g, .obj rg) :: r₂))]))
    (hBT1 : ∀ f ∈ fs1, f.2.2 = false) (hBT2 : ∃ f ∈ fs2, f.2.2 = true) (hBU : ∃ f ∈ hs, f.2.2 = true) :
    ∃ (data : List (String × J)) (rootRequest lookupT lookupU : Exec.Request),
      Exec.gateway c {} ⟨.query, "", [], [FlatNested.QN T U q g fs1 fs2 hs]⟩ none (Exec.specDownstream svcs D)
        = .ok ⟨some data, [], [⟨A, [rootRequest]⟩, ⟨B, [lookupU, lookupT]⟩]⟩
      ∧ rootRequest.sels = [FlatNested.QNown T U q g fs1 fs2 hs] ∧ rootRequest.vars = []
      ∧ lookupT.sels = convertToNodeQuery T (Flat.leaves (Flat.fsB (fs1 ++ fs2))) ∧ lookupT.vars = [("id", .str e.id)]
      ∧ lookupU.sels = convertToNodeQuery U (Flat.leaves (Flat.fsB hs)) ∧ lookupU.vars = [("id", .str e'.id)] := by
  obtain ⟨d, dg, hgw, -, -⟩ := FlatNested.flat_nested_calls h s r₁ r₂ rg hlen href
  have hT : Flat.fsB (fs1 ++ fs2) ≠ [] := by
    obtain ⟨f, hf, hb⟩ := hBT2
    exact FlatNested.fsB_ne_nil ⟨f, List.mem_append_right _ hf, hb⟩
  rw [FlatNested.callsN_UT c A B T U q g fs1 fs2 hs _ _ (FlatNested.fsB_eq_nil hBT1) hT (FlatNested.fsB_ne_nil hBU)] at hgw
  exact ⟨_, _, _, _, hgw, rfl, rfl, rfl, rfl, rfl, rfl⟩

/-- **No `B`-owned field below `g`** (but one among the fields of `T`): one lookup, for the entity
    under `q`. -/
theorem C01_flat_nested_lookup_outer_only {c : PCtx} {A B T U q g : String} {fs1 fs2 hs : List Flat.FieldSpec}
    (h : FlatNested.Fam c A B T U q g fs1 fs2 hs)
    {svcs : List Exec.Svc} {SA SB : Schema} {D : Spec.Data} {e e' : Spec.Entity}
    (s : FlatNested.Setting c A B T U q g fs1 fs2 hs svcs SA SB D e e') (r₁ r₂ rg : List (String × J))
    (hlen : r₁.length = fs1.length)
    (href : Spec.eval c.schema D ⟨.query, "", [], [FlatNested.QN T U q g fs1 fs2 hs]⟩ []
      = some (.obj [(q, .obj (r₁ ++ (g, .obj rg) :: r₂))]))
    (hBT : ∃ f ∈ fs1 ++ fs2, f.2.2 = true) (hBU : ∀ f ∈ hs, f.2.2 = false) :
    ∃ (data : List (String × J)) (rootRequest lookupT : Exec.Request),
      Exec.gateway c {} ⟨.query, "", [], [FlatNested.QN T U q g fs1 fs2 hs]⟩ none (Exec.specDownstream svcs D)
        = .ok ⟨some data, [], [⟨A, [rootRequest]⟩, ⟨B, [lookupT]⟩]⟩
      ∧ lookupT.sels = convertToNodeQuery T (Flat.leaves (Flat.fsB (fs1 ++ fs2))) ∧ lookupT.vars = [("id", .str e.id)] := by
  obtain ⟨d, dg, hgw, -, -⟩ := FlatNested.flat_nested_calls h s r₁ r₂ rg hlen href
  rw [FlatNested.callsN_onlyT c A B T U q g fs1 fs2 hs _ _ (FlatNested.fsB_ne_nil hBT) (FlatNested.fsB_eq_nil hBU)] at hgw
  exact ⟨_, _, _, hgw, rfl, rfl⟩

/-- **No `B`-owned field among the fields of `T`** (but one below `g`): one lookup, for the entity
    under `g`; its answer goes to the two-element insertion point. -/
theorem C01_flat_nested_lookup_inner_only {c : PCtx} {A B T U q g : String} {fs1 fs2 hs : List Flat.FieldSpec}
    (h : FlatNested.Fam c A B T U q g fs1 fs2 hs)
    {svcs : List Exec.Svc} {SA SB : Schema} {D : Spec.Data} {e e' : Spec.Entity}
    (s : FlatNested.Setting c A B T U q g fs1 fs2 hs svcs SA SB D e e') (r₁ r₂ rg : List (String × J))
    (hlen : r₁.length = fs1.length)
    (href : Spec.eval c.schema D ⟨.query, "", [], [FlatNested.QN T U q g fs1 fs2 hs]⟩ []
      = some (.obj [(q, .obj (r₁ ++ (g, .obj rg) :: r₂))]))
    (hBT : ∀ f ∈ fs1 ++ fs2, f.2.2 = false) (hBU : ∃ f ∈ hs, f.2.2 = true) :
    ∃ (data : List (String × J)) (rootRequest lookupU : Exec.Request),
      Exec.gateway c {} ⟨.query, "", [], [FlatNested.QN T U q g fs1 fs2 hs]⟩ none (Exec.specDownstream svcs D)
        = .ok ⟨some data, [], [⟨A, [rootRequest]⟩, ⟨B, [lookupU]⟩]⟩
      ∧ lookupU.sels = convertToNodeQuery U (Flat.leaves (Flat.fsB hs)) ∧ lookupU.vars = [("id", .str e'.id)] := by
  obtain ⟨d, dg, hgw, -, -⟩ := FlatNested.flat_nested_calls h s r₁ r₂ rg hlen href
  rw [FlatNested.callsN_onlyU c A B T U q g fs1 fs2 hs _ _ (FlatNested.fsB_eq_nil hBT) (FlatNested.fsB_ne_nil hBU)] at hgw
  exact ⟨_, _, _, hgw, rfl, rfl⟩

/-- **`A` owns everything selected**: exactly one call. -/
theorem C01_flat_nested_no_lookup {c : PCtx} {A B T U q g : String} {fs1 fs2 hs : List Flat.FieldSpec}
    (h : FlatNested.Fam c A B T U q g fs1 fs2 hs)
    {svcs : List Exec.Svc} {SA SB : Schema} {D : Spec.Data} {e e' : Spec.Entity}
    (s : FlatNested.Setting c A B T U q g fs1 fs2 hs svcs SA SB D e e') (r₁ r₂ rg : List (String × J))
    (hlen : r₁.length = fs1.length)
    (href : Spec.eval c.schema D ⟨.query, "", [], [FlatNested.QN T U q g fs1 fs2 hs]⟩ []
      = some (.obj [(q, .obj (r₁ ++ (g, .obj rg) :: r₂))]))
    (hBT : ∀ f ∈ fs1 ++ fs2, f.2.2 = false) (hBU : ∀ f ∈ hs, f.2.2 = false) :
    ∃ (data : List (String × J)) (rootRequest : Exec.Request),
      Exec.gateway c {} ⟨.query, "", [], [FlatNested.QN T U q g fs1 fs2 hs]⟩ none (Exec.specDownstream svcs D)
        = .ok ⟨some data, [], [⟨A, [rootRequest]⟩]⟩ := by
  obtain ⟨d, dg, hgw, -, -⟩ := FlatNested.flat_nested_calls h s r₁ r₂ rg hlen href
  rw [FlatNested.callsN_none c A B T U q g fs1 fs2 hs _ _ (FlatNested.fsB_eq_nil hBT) (FlatNested.fsB_eq_nil hBU)] at hgw
  exact ⟨_, _, hgw⟩

/-- **The plan of the family**: ONE root step at `A` whose child steps (`FlatNested.childSteps`: up
    to two) stand at the SAME depth, go to the SAME service and differ in parent type and insertion
    point (`[q]` / `[q, g]`); the step at `[q]` comes first iff `B` owns a field of `T` written before
    `g`. The scrub table has two paths, the inner one first. -/
theorem C01_flat_nested_plan {c : PCtx} {A B T U q g : String} {fs1 fs2 hs : List Flat.FieldSpec}
    (h : FlatNested.Fam c A B T U q g fs1 fs2 hs) :
    plan c ⟨.query, "", [], [FlatNested.QN T U q g fs1 fs2 hs]⟩
      = .ok ([.mk A "Query" [FlatNested.QNown T U q g fs1 fs2 hs] []
                (match Flat.fsB fs1 with
                 | [] => FlatNested.stepsAt B U [q, g] (Flat.fsB hs) ++ FlatNested.stepsAt B T [q] (Flat.fsB (fs1 ++ fs2))
                 | _ :: _ => FlatNested.stepAt B T [q] (Flat.fsB (fs1 ++ fs2)) :: FlatNested.stepsAt B U [q, g] (Flat.fsB hs))],
             [([q, g], [(U, ["id"])]), ([q], [(T, ["id"])])]) := by
  unfold plan
  simp only [FlatNested.stage_sanitize h, bind, Except.bind, FlatNested.stage_plan h]
  rfl

/-- **Only the LAST point of an insertion point carries an id** (witness on the model, for every
    member of the family): from `A`'s answer `{q: {id: i, …a1, g: {id: i', …a'}, …a2}}` the child step at
    `[q, g]` gets the realised insertion point `[q, g#i']` — NOT `[q#i, g#i']`: the intermediate
    object point is the bare field name, and merging descends through it by name alone. -/
theorem C01_flat_nested_insertion_points {c : PCtx} {A B T U q g : String} {fs1 fs2 hs : List Flat.FieldSpec}
    (h : FlatNested.Fam c A B T U q g fs1 fs2 hs) (i i' : String) (a1 a2 a' : List (String × J)) (hga : g ∉ J.keys a1) :
    ResultOps.findIP [q] [FlatNested.QNown T U q g fs1 fs2 hs]
        [(q, .obj (("id", .str i) :: (a1 ++ (g, .obj (("id", .str i') :: a')) :: a2)))] [] = .ok [[q ++ "#" ++ i]]
    ∧ ResultOps.findIP [q, g] [FlatNested.QNown T U q g fs1 fs2 hs]
        [(q, .obj (("id", .str i) :: (a1 ++ (g, .obj (("id", .str i') :: a')) :: a2)))] [] = .ok [[q, g ++ "#" ++ i']] :=
  ⟨FlatNested.findIP_q T U q g fs1 fs2 hs i _, FlatNested.findIP_qg h i i' a1 a2 a' hga⟩

section Instances
open FlatNested.Example

/-- non-vacuity: a concrete two-service federation (`animal : Animal` with `owner : Person`; fields
    of `Animal` split B/A/A, fields of `Person` split B/A/B; ids containing `#`), `owner` written LAST,
    meets every hypothesis of `C01_flat_nested_one_hop`; the model's answer, calls and plan for it are
    also checked by evaluation (`#guard`s in `Proofs/FlatNested7.lean`) -/
theorem C01_flat_nested_instance : ∃ d dg calls,
    Exec.gateway ctx {} ⟨.query, "", [], [FlatNested.QN "Animal" "Person" "animal" "owner" FlatNested.Example.fs [] hs]⟩ none
        (Exec.specDownstream svcs data)
      = .ok ⟨some [("animal", .obj d)], [], calls⟩
    ∧ d.Perm (expected0 ++ ("owner", .obj dg) :: []) ∧ dg.Perm expectedOwner := by
  obtain ⟨d, dg, hgw, hp, hp'⟩ := applied
  exact ⟨d, dg, _, hgw, hp, hp'⟩

/-- the same with `owner` written FIRST (the two lookups then travel in the other order) -/
theorem C01_flat_nested_instance_first : ∃ d dg calls,
    Exec.gateway ctx {} ⟨.query, "", [], [FlatNested.QN "Animal" "Person" "animal" "owner" [] FlatNested.Example.fs hs]⟩ none
        (Exec.specDownstream svcs data)
      = .ok ⟨some [("animal", .obj d)], [], calls⟩
    ∧ d.Perm ([] ++ ("owner", .obj dg) :: expected0) ∧ dg.Perm expectedOwner := by
  obtain ⟨d, dg, hgw, hp, hp'⟩ := appliedFirst
  exact ⟨d, dg, _, hgw, hp, hp'⟩

/-- the same with `owner` written in the MIDDLE (`name owner {…} age sound`) -/
theorem C01_flat_nested_instance_middle : ∃ d dg calls,
    Exec.gateway ctx {} ⟨.query, "", [], [FlatNested.QN "Animal" "Person" "animal" "owner" fsM1 fsM2 hs]⟩ none
        (Exec.specDownstream svcs data)
      = .ok ⟨some [("animal", .obj d)], [], calls⟩
    ∧ d.Perm ([("name", .str "rex")] ++ ("owner", .obj dg) :: [("age", .str "7"), ("sound", .null)])
    ∧ dg.Perm expectedOwner := by
  obtain ⟨d, dg, hgw, hp, hp'⟩ := appliedMid
  exact ⟨d, dg, _, hgw, hp, hp'⟩

end Instances

end PebblesVerif
