import PebblesVerif.Proofs.Nulls
/-!
# C01 — `null` elements inside lists of objects

A list-typed field on a stitch path (`animals: [Animal]`, `Animal` shared by two services) may hold
`null` elements: the single server answers `[{…}, null, {…}]`. Two places of the gateway look at the
elements of such a list:

* `executor.FindInsertionPoints` realises one insertion point per element for the child steps. A
  `null` element has nothing to stitch; with the guard `if iEntry == nil { continue }` (regenerated
  fact `Gen.Nulls.findIPSkipsNullElements`, read from executor/result.go on every run) it is passed
  over and every other element keeps ITS index (`C01_findIP_skips_null_elements`, `…_path`).
  Before the repair the whole operation failed with "entry in result wasn't a map".
* `planner.ScrubFields.clean` removes the helper fields below the list and deletes a list whose
  elements are all empty afterwards. With the arm `else { removeParent = false }` (regenerated fact
  `Gen.Nulls.cleanKeepsListWithNonMapElement`, read from planner/scrub_fields.go on every run) a
  `null` (or scalar) element is data of its own: the list stays and the element keeps its place
  (`C01_clean_keeps_null_elements`). Before the repair a list WITHOUT any object element (`[null]`)
  counted as "all empty" and was deleted from the response.

`C01_null_element_before_repair` is the behaviour of the other branch of the model (the guards
absent), by evaluation. Helper lemmas in `Proofs/Nulls.lean`. The end-to-end theorem for entity
lists with `null` elements is `C01_flat_list_nulls_one_hop` (`Props/C01FlatListNulls.lean`).
-/
namespace PebblesVerif
open PebblesVerif.ResultOps PebblesVerif.ScrubClean PebblesVerif.Nulls

/-- **`FindInsertionPoints` passes over `null` elements; every object element keeps its ORIGINAL
    index.** For every step selection `sels`, every result chunk, every list `es` found under the
    LAST point `p` of a child step's path whose field has a list type, where every entry of `es` is
    `null` or an object carrying an `id` (`Nulls.EntitiesOrNull`): the realised insertion points are
    exactly — in order — one point `branch ++ ["<name>:<j>#<id>"]` for every OBJECT entry, `j` being
    the position of that entry IN `es` (`es.zipIdx` pairs every entry with its position; `filterMap`
    keeps the object entries — `Nulls.entryPoint` is `none` on `null`), whatever the number and the
    positions of the `null`s (all of them, none of them). The executor later merges the child's answer
    into the element at index `j` (`ResultOps.updateAt`), so a shifted index would stitch into the
    wrong element. Stands on the regenerated fact `Gen.Nulls.findIPSkipsNullElements`. -/
theorem C01_findIP_skips_null_elements (p : String) (sels : List Sel) (found : Sel)
    (chunk : List (String × J)) (es : List J) (branch : List String)
    (hsel : findSelection p sels = some found) (hlist : (selType found).isList = true)
    (hchunk : J.lookup p chunk = some (.arr es)) (hes : EntitiesOrNull es) :
    findIP [p] sels chunk branch
      = .ok (es.zipIdx.filterMap (fun (e, j) => match e with
          | .obj o => (J.lookup "id" o).map (fun id => branch ++ [Point.encodeList (displayName found) j (some (fmtID id))])
          | _ => none)) :=
  findIP_list_last p sels found chunk es branch hsel hlist hchunk hes

/-- **The same on a longer path** (`p :: rest`, the list in the MIDDLE of a child step's path when
    `rest ≠ []`): for every list `es` of objects and `null`s under `p`, `findIP` is the reference
    loop `Nulls.pointsOf` over the OBJECT entries paired with their original indices
    (`Nulls.indexedObjectsFrom 0 es` = `es.zipIdx` filtered to the objects): each pair `(entry, j)`
    contributes the points found below `entry` for `rest`, on the branch extended by `<name>:<j>`
    (with `#<id>` when `rest = []`); `null` entries contribute nothing and shift nothing. -/
theorem C01_findIP_skips_null_elements_path (p : String) (rest : List String) (sels : List Sel) (found : Sel)
    (chunk : List (String × J)) (es : List J) (branch : List String)
    (hsel : findSelection p sels = some found) (hlist : (selType found).isList = true)
    (hchunk : J.lookup p chunk = some (.arr es)) (hes : ObjectsOrNull es) :
    findIP (p :: rest) sels chunk branch
      = (pointsOf true rest branch found (indexedObjectsFrom 0 es) []).bind (fun r => .ok (r.getD [])) :=
  findIP_list p rest sels found chunk es branch hsel hlist hchunk hes

namespace C01Nulls.Example
def animals : Sel := .field "" "animals" [] [] (.list (.named "Animal")) [] [.field "" "id" [] [] (.named "ID") [] []]
def owner : Sel := .field "" "owner" [] [] (.named "Person") [] [.field "" "id" [] [] (.named "ID") [] []]
def zoo : Sel := .field "" "zoo" [] [] (.list (.named "Zoo")) [] [owner]
def ent (i : String) : J := .obj [("id", .str i)]
/-- `[{id:a}, null, {id:c}, null]` -/
def chunk : List (String × J) := [("animals", .arr [ent "a", .null, ent "c", .null])]
/-- a list in the middle of a path: `zoo: [{owner:{id:p}}, null, {owner:{id:r}}]` -/
def chunkZ : List (String × J) :=
  [("zoo", .arr [.obj [("owner", ent "p")], .null, .obj [("owner", ent "r")]])]
end C01Nulls.Example

/-- Non-vacuity, and the indices: the elements at positions 0 and 2 get the points `animals:0#a`
    and `animals:2#c` (not `animals:1#c`). -/
example : findIP ["animals"] [C01Nulls.Example.animals] C01Nulls.Example.chunk []
    = .ok [[Point.encodeList "animals" 0 (some "a")], [Point.encodeList "animals" 2 (some "c")]] := by
  rw [C01_findIP_skips_null_elements "animals" [C01Nulls.Example.animals] C01Nulls.Example.animals
    C01Nulls.Example.chunk [C01Nulls.Example.ent "a", .null, C01Nulls.Example.ent "c", .null] []
    (findSelection_head "" "animals" [] [] _ [] _ [] "animals" (by decide)) rfl rfl
    (by intro e he
        simp only [List.mem_cons, List.not_mem_nil, or_false] at he
        rcases he with rfl | rfl | rfl | rfl
        · exact .inr ⟨_, .str "a", rfl, rfl⟩
        · exact .inl rfl
        · exact .inr ⟨_, .str "c", rfl, rfl⟩
        · exact .inl rfl)]
  rfl

/-- … and through a list in the middle of a path: `["zoo", "owner"]` over `zoo: [{…}, null, {…}]`
    realises `[zoo:0, owner#p]` and `[zoo:2, owner#r]`. -/
example : findIP ["zoo", "owner"] [C01Nulls.Example.zoo] C01Nulls.Example.chunkZ []
    = .ok [[Point.encodeList "zoo" 0 none, "owner#p"], [Point.encodeList "zoo" 2 none, "owner#r"]] := by
  rw [C01_findIP_skips_null_elements_path "zoo" ["owner"] [C01Nulls.Example.zoo] C01Nulls.Example.zoo
    C01Nulls.Example.chunkZ [.obj [("owner", C01Nulls.Example.ent "p")], .null, .obj [("owner", C01Nulls.Example.ent "r")]] []
    (findSelection_head "" "zoo" [] [] _ [] _ [] "zoo" (by decide)) rfl rfl
    (by intro e he
        simp only [List.mem_cons, List.not_mem_nil, or_false] at he
        rcases he with rfl | rfl | rfl
        · exact .inr ⟨_, rfl⟩
        · exact .inl rfl
        · exact .inr ⟨_, rfl⟩)]
  have hsub : selSub C01Nulls.Example.zoo = [C01Nulls.Example.owner] := rfl
  have hdn : displayName C01Nulls.Example.zoo = "zoo" := rfl
  have hfs : findSelection "owner" [C01Nulls.Example.owner] = some C01Nulls.Example.owner :=
    findSelection_head "" "owner" [] [] _ [] _ [] "owner" (by decide)
  have hty : (selType C01Nulls.Example.owner).isList = false := rfl
  simp [indexedObjectsFrom, List.zipIdx_cons, pointsOf, findIPW, hsub, hdn, hfs, hty, J.lookup,
    C01Nulls.Example.ent, extractID, fmtID, bind, Except.bind]

/-- **The scrubber never deletes a list that holds a non-object element, and leaves such elements in
    place.** For every per-path type table `fields`, every path `p :: rest` (the scrub path goes
    THROUGH the list under `p`; `rest = []` when it ends there), every payload whose value under `p`
    is a list `xs` with at least one element that is not an object (`null`, a scalar, a nested list):
    after `clean` the key `p` is still there and holds a list of the same length in which every
    non-object element is unchanged at its position and every object element is the cleaned object
    (`Nulls.cleanElem`) — whether or not the object elements came out empty. Stands on the
    regenerated fact `Gen.Nulls.cleanKeepsListWithNonMapElement`. -/
theorem C01_clean_keeps_null_elements (fields : List (String × List String)) (p : String) (rest : List String)
    (payload : List (String × J)) (xs : List J)
    (hl : J.lookup p payload = some (.arr xs)) (hx : ∃ x ∈ xs, ∀ v, x ≠ .obj v) :
    J.lookup p (clean fields (p :: rest) payload).1
        = some (.arr (xs.map (fun x => match x with | .obj v => .obj (clean fields rest v).1 | x => x)))
      ∧ ∀ (j : Nat) (x : J), xs[j]? = some x → (∀ v, x ≠ .obj v) →
          ∃ ys, J.lookup p (clean fields (p :: rest) payload).1 = some (.arr ys) ∧ ys.length = xs.length ∧ ys[j]? = some x := by
  have hfun : (fun x => match x with | J.obj v => J.obj (clean fields rest v).1 | x => x) = cleanElem fields rest := by
    funext x; cases x <;> rfl
  have hmain : J.lookup p (clean fields (p :: rest) payload).1 = some (.arr (xs.map (cleanElem fields rest))) := by
    rw [clean_keeps_list fields p rest payload xs hl hx, Nulls.lookup_setKey_self]
  refine ⟨by rw [hfun]; exact hmain, ?_⟩
  intro j x hj hxn
  refine ⟨_, hmain, by simp, ?_⟩
  rw [List.getElem?_map, hj]
  cases x with
  | obj v => exact absurd rfl (hxn v)
  | null => rfl
  | bool _ => rfl
  | num _ => rfl
  | str _ => rfl
  | arr _ => rfl

/-- Non-vacuity: `animals: [null, {id, name}, null]` scrubbed of the helper `id` at path `[animals]`
    — the nulls stay at positions 0 and 2; and the list of nulls alone, `[null, null]`, stays as it is. -/
example :
    (clean [("Animal", ["id"])] ["animals"] [("animals", .arr [.null, .obj [("id", .str "a"), ("name", .str "rex")], .null])]).1
      = [("animals", .arr [.null, .obj [("name", .str "rex")], .null])]
    ∧ (clean [("Animal", ["id"])] ["animals"] [("animals", .arr [.null, .null])]).1 = [("animals", .arr [.null, .null])] := by
  constructor
  · rw [clean_keeps_list _ _ _ _ _ rfl ⟨.null, by simp, fun _ => J.noConfusion⟩]
    simp [cleanElem, clean, cleanW, cleanHere, J.lookup, J.eraseKey, J.setKey]
  · rw [clean_keeps_list _ _ _ _ _ rfl ⟨.null, by simp, fun _ => J.noConfusion⟩]
    simp [cleanElem, J.setKey]

/-- **What the code did before the repair** (the other branch of the model: `findIPW false`,
    `cleanW false` — the shapes the extractor reports as `Gen.Nulls.… = false`), by evaluation:
    * `animals: [{id:a}, null]` on a stitch path: `FindInsertionPoints` failed the whole operation
      with "entry in result wasn't a map" (the client got `data: null` and an error for an operation
      the single server answers with `[{…}, null]`); with the guard: one point, for element 0;
    * `animals: [null, null]` at a scrub path: the scrubber found no object element, took the list
      for "all empty" and DELETED the key from the response (`data: {}` instead of
      `{animals: [null, null]}`); with the `else` arm the payload is unchanged. -/
theorem C01_null_element_before_repair :
    findIPW false ["animals"] [C01Nulls.Example.animals] [("animals", .arr [C01Nulls.Example.ent "a", .null])] []
        = .error (.err "entry in result wasn't a map")
    ∧ (findIPW true ["animals"] [C01Nulls.Example.animals] [("animals", .arr [C01Nulls.Example.ent "a", .null])] []).toOption.map List.length
        = some 1
    ∧ cleanW false [("Animal", ["id"])] ["animals"] [("animals", .arr [.null, .null])] = ([], true)
    ∧ cleanW true [("Animal", ["id"])] ["animals"] [("animals", .arr [.null, .null])]
        = ([("animals", .arr [.null, .null])], false) := by
  have hfs : findSelection "animals" [C01Nulls.Example.animals] = some C01Nulls.Example.animals :=
    findSelection_head "" "animals" [] [] _ [] _ [] "animals" (by decide)
  have hty : (selType C01Nulls.Example.animals).isList = true := rfl
  refine ⟨?_, ?_, ?_, ?_⟩
  · simp [findIPW, hfs, hty, findIPW.go, J.lookup, C01Nulls.Example.ent, extractID, fmtID, bind, Except.bind]
  · simp [findIPW, hfs, hty, findIPW.go, J.lookup, C01Nulls.Example.ent, extractID, fmtID, bind, Except.bind,
      Except.toOption]
  · simp [cleanW, cleanListW, J.lookup, J.eraseKey]
  · simp [cleanW, cleanListW, J.lookup, J.setKey]

end PebblesVerif
