import PebblesVerif.Model.Format
/-!
# C02 — every sub-request is valid for, and owned by, its service (partial)

Machine-checked part: what a step's header declares and what `VariablesList` forwards, for
ALL selection sets. The statement "validates against the receiving service's schema" is decided
per translation by the oracle run (gqlparser at the receiving service); see checks/C02.json.
-/
namespace PebblesVerif

-- `directArgVars`: variables used directly as the value of an argument that has a definition
-- (`field(arg: $v)`), in document order, inline fragments looked through
mutual
  def directArgVars : List Sel → List String
    | [] => []
    | s :: rest => directArgVarsSel s ++ directArgVars rest
  def directArgVarsSel : Sel → List String
    | .field _ _ args _ _ argDefs sub =>
      args.filterMap (fun a => match a.value with
        | .var n _ => if (argDefs.find? (·.name == a.name)).isSome then some n else none
        | _ => none) ++ directArgVars sub
    | .inline _ _ _ _ sub => directArgVars sub
    | .spread .. => []
end

def hasKey (k : String) (m : List (String × String)) : Prop := ∃ v, (k, v) ∈ m

theorem hasKey_setStr_self (k v : String) (m : List (String × String)) : hasKey k (setStr k v m) := by
  induction m with
  | nil => exact ⟨v, by simp [setStr]⟩
  | cons x xs ih =>
    obtain ⟨k', v'⟩ := x
    unfold setStr
    split
    · exact ⟨v, by simp⟩
    · obtain ⟨w, hw⟩ := ih; exact ⟨w, by simp [hw]⟩

theorem hasKey_setStr_mono {k : String} (k2 v2 : String) {m : List (String × String)} (h : hasKey k m) :
    hasKey k (setStr k2 v2 m) := by
  induction m with
  | nil => obtain ⟨w, hw⟩ := h; simp at hw
  | cons x xs ih =>
    obtain ⟨k', v'⟩ := x
    obtain ⟨w, hw⟩ := h
    unfold setStr
    split
    · rename_i heq
      simp only [List.mem_cons, Prod.mk.injEq] at hw
      rcases hw with ⟨h1, _⟩ | hw
      · subst h1; subst heq; exact ⟨v2, by simp⟩
      · exact ⟨w, by simp [hw]⟩
    · simp only [List.mem_cons, Prod.mk.injEq] at hw
      rcases hw with ⟨h1, h2⟩ | hw
      · exact ⟨w, by simp [h1, h2]⟩
      · obtain ⟨w', hw'⟩ := ih ⟨w, hw⟩; exact ⟨w', by simp [hw']⟩

mutual
  theorem childVarTypes_mono {k : String} : ∀ (v : Value) {acc : List (String × String)},
      hasKey k acc → hasKey k (childVarTypes v acc)
    | .var n et, _, h => by rw [childVarTypes]; exact hasKey_setStr_mono _ _ h
    | .list vs, _, h => by rw [childVarTypes]; exact childVarTypesL_mono vs h
    | .object fs, _, h => by rw [childVarTypes]; exact childVarTypesO_mono fs h
    | .int _, _, h => by simpa [childVarTypes] using h
    | .float _, _, h => by simpa [childVarTypes] using h
    | .str _, _, h => by simpa [childVarTypes] using h
    | .bool _, _, h => by simpa [childVarTypes] using h
    | .null, _, h => by simpa [childVarTypes] using h
    | .enum _, _, h => by simpa [childVarTypes] using h
  theorem childVarTypesL_mono {k : String} : ∀ (vs : List Value) {acc : List (String × String)},
      hasKey k acc → hasKey k (childVarTypesL vs acc)
    | [], _, h => by rw [childVarTypesL]; exact h
    | v :: vs, _, h => by rw [childVarTypesL]; exact childVarTypesL_mono vs (childVarTypes_mono v h)
  theorem childVarTypesO_mono {k : String} : ∀ (fs : List (String × Value)) {acc : List (String × String)},
      hasKey k acc → hasKey k (childVarTypesO fs acc)
    | [], _, h => by rw [childVarTypesO]; exact h
    | (_, v) :: fs, _, h => by rw [childVarTypesO]; exact childVarTypesO_mono fs (childVarTypes_mono v h)
end

/-- the per-argument step never forgets a declared variable -/
theorem argStep_mono (schema : Schema) (argDefs : List ArgDef) (a : Arg) {k : String}
    {acc : List (String × String)} (h : hasKey k acc) : hasKey k (argVarTypes schema argDefs acc a) := by
  unfold argVarTypes
  split
  · exact h
  · split
    · exact hasKey_setStr_mono _ _ h
    · split
      · exact childVarTypesL_mono _ h
      · exact h
    · split
      · exact childVarTypesO_mono _ h
      · exact h
    · exact h

theorem argsFold_mono (schema : Schema) (argDefs : List ArgDef) (args : List Arg) {k : String} :
    ∀ {acc : List (String × String)}, hasKey k acc → hasKey k (args.foldl (argVarTypes schema argDefs) acc) := by
  induction args with
  | nil => intro acc h; simpa using h
  | cons a as ih =>
    intro acc h
    simp only [List.foldl_cons]
    exact ih (argStep_mono schema argDefs a h)

theorem argsFold_declares (schema : Schema) (argDefs : List ArgDef) (args : List Arg) (n : String)
    (hn : n ∈ args.filterMap (fun a => match a.value with
        | .var n _ => if (argDefs.find? (·.name == a.name)).isSome then some n else none
        | _ => none)) :
    ∀ (acc : List (String × String)), hasKey n (args.foldl (argVarTypes schema argDefs) acc) := by
  induction args with
  | nil => simp at hn
  | cons a as ih =>
    intro acc
    simp only [List.foldl_cons]
    simp only [List.filterMap_cons] at hn
    cases hv : a.value with
    | var m et =>
      simp only [hv] at hn
      cases hf : argDefs.find? (·.name == a.name) with
      | none =>
        simp only [hf, Option.isSome_none, Bool.false_eq_true, ↓reduceIte] at hn
        exact ih hn _
      | some ad =>
        simp only [hf, Option.isSome_some, ↓reduceIte, List.mem_cons] at hn
        rcases hn with hn | hn
        · subst hn
          apply argsFold_mono
          simp only [argVarTypes, hf, hv]
          exact hasKey_setStr_self _ _ _
        · exact ih hn _
    | _ =>
      simp only [hv] at hn
      exact ih hn _

mutual
  theorem walkArgs_mono (schema : Schema) {k : String} : ∀ (ss : List Sel) {acc : List (String × String)},
      hasKey k acc → hasKey k (walkArgs schema ss acc)
    | [], _, h => by simpa [walkArgs] using h
    | s :: rest, _, h => by
      rw [walkArgs]
      exact walkArgs_mono schema rest (walkArgsSel_mono schema s h)
  theorem walkArgsSel_mono (schema : Schema) {k : String} : ∀ (s : Sel) {acc : List (String × String)},
      hasKey k acc → hasKey k (walkArgsSel schema s acc)
    | .field _ _ args _ _ argDefs sub, _, h => by
      rw [walkArgsSel]
      exact walkArgs_mono schema sub (argsFold_mono schema argDefs args h)
    | .inline _ _ _ _ sub, _, h => by
      rw [walkArgsSel]; exact walkArgs_mono schema sub h
    | .spread .., _, h => by
      rw [walkArgsSel]; exact h
end

mutual
  theorem walkArgs_declares (schema : Schema) (n : String) : ∀ (ss : List Sel) (acc : List (String × String)),
      n ∈ directArgVars ss → hasKey n (walkArgs schema ss acc)
    | [], _, h => by simp [directArgVars] at h
    | s :: rest, acc, h => by
      rw [walkArgs]
      simp only [directArgVars, List.mem_append] at h
      rcases h with h | h
      · exact walkArgs_mono schema rest (walkArgsSel_declares schema n s acc h)
      · exact walkArgs_declares schema n rest _ h
  theorem walkArgsSel_declares (schema : Schema) (n : String) : ∀ (s : Sel) (acc : List (String × String)),
      n ∈ directArgVarsSel s → hasKey n (walkArgsSel schema s acc)
    | .field _ _ args _ _ argDefs sub, acc, h => by
      rw [walkArgsSel]
      simp only [directArgVarsSel, List.mem_append] at h
      rcases h with h | h
      · exact walkArgs_mono schema sub (argsFold_declares schema argDefs args n h acc)
      · exact walkArgs_declares schema n sub _ h
    | .inline _ _ _ _ sub, acc, h => by
      rw [walkArgsSel]
      simp only [directArgVarsSel] at h
      exact walkArgs_declares schema n sub acc h
    | .spread .., _, h => by simp [directArgVarsSel] at h
end

/-- **The synthesised header declares every variable used in an argument position**, for every
    selection set of every step: `$n: <declared argument type>` is among the declarations. -/
theorem C02_header_declares (c : PCtx) (st : Step) (n : String) (h : n ∈ directArgVars st.sels) :
    ∃ t, ("$" ++ n ++ ": " ++ t) ∈ (walkArgs c.schema st.sels []).map (fun (n, t) => "$" ++ n ++ ": " ++ t) := by
  obtain ⟨t, ht⟩ := walkArgs_declares c.schema n st.sels [] h
  exact ⟨t, List.mem_map.mpr ⟨(n, t), ht, rfl⟩⟩

theorem foldl_uniq_mem (l : List String) : ∀ (acc : List String) (x : String), (x ∈ acc ∨ x ∈ l) →
    x ∈ l.foldl (fun acc x => if acc.contains x then acc else acc ++ [x]) acc := by
  induction l with
  | nil => intro acc x h; rcases h with h | h; exact h; cases h
  | cons y ys ih =>
    intro acc x h
    simp only [List.foldl_cons]
    apply ih
    rcases h with h | h
    · left; split
      · exact h
      · simp [h]
    · simp only [List.mem_cons] at h
      rcases h with h | h
      · subst h; left; split
        · rename_i hc; simpa using hc
        · simp
      · right; exact h

theorem mem_uniq {l : List String} {x : String} (h : x ∈ l) : x ∈ uniq l :=
  foldl_uniq_mem l [] x (Or.inr h)

mutual
  theorem varNames_direct (n : String) : ∀ (ss : List Sel), n ∈ directArgVars ss → n ∈ varNames ss
    | [], h => by simp [directArgVars] at h
    | s :: rest, h => by
      simp only [directArgVars, List.mem_append] at h
      simp only [varNames, List.mem_append]
      rcases h with h | h
      · exact Or.inl (varNamesSel_direct n s h)
      · exact Or.inr (varNames_direct n rest h)
  theorem varNamesSel_direct (n : String) : ∀ (s : Sel), n ∈ directArgVarsSel s → n ∈ varNamesSel s
    | .field _ _ args _ _ argDefs sub, h => by
      simp only [directArgVarsSel, List.mem_append, List.mem_filterMap] at h
      simp only [varNamesSel, List.mem_append, List.mem_flatMap]
      rcases h with ⟨a, ha, hv⟩ | h
      · left
        refine ⟨a, ha, ?_⟩
        cases hval : a.value with
        | var m et =>
          simp only [hval] at hv
          split at hv
          · simp only [Option.some.injEq] at hv; subst hv; simp [argRaws, hval, Value.raw]
          · cases hv
        | _ => simp [hval] at hv
      · exact Or.inr (varNames_direct n sub h)
    | .inline _ _ _ _ sub, h => by
      simp only [directArgVarsSel] at h
      simp only [varNamesSel]
      exact varNames_direct n sub h
    | .spread .., h => by simp [directArgVarsSel] at h
end

/-- **Every variable used in an argument position is in `VariablesList`**, hence its value is
    copied from the client's variables into the sub-request's variables (`getVariables`). -/
theorem C02_variables_forwarded (st : Step) (n : String) (h : n ∈ directArgVars st.sels) :
    n ∈ variablesList st.sels :=
  mem_uniq (varNames_direct n st.sels h)

/-- **Known gap, by evaluation**: a variable used only inside a directive is neither declared
    nor forwarded (`{ q @include(if: $v) }`) — the full statement "declares every variable it
    uses" is false of the current code; see finding C02-directive-variable-undeclared. -/
theorem C02_directive_variable_gap :
    let sel : Sel := .field "q" "q" [] [⟨"include", [⟨"if", .var "v"⟩]⟩] (.named "String") [] []
    walkArgs ⟨[], [], [], [], none, none, none⟩ [sel] [] = [] ∧ variablesList [sel] = [] := by
  exact ⟨rfl, rfl⟩

/-- Non-vacuity of `C02_header_declares`: `user(id: $uid)` declares `$uid: ID!`. -/
example : walkArgs ⟨[], [], [], [], none, none, none⟩
    [.field "user" "user" [⟨"id", .var "uid"⟩] [] (.named "User") [⟨"id", .nonNull (.named "ID"), none, "", []⟩] []] []
    = [("uid", "ID!")] := by rfl

end PebblesVerif
