import PebblesVerif.Model.Exec
/-!
# C02 — every sub-request is valid for, and owned by, its service (partial)

Machine-checked part, for ALL selection sets and ALL operations:

* the header a step's query string opens with declares every variable the step uses directly as
  the value of an argument of a field OR of a directive of a field (`C02_header_declares`), and
  `VariablesList` holds it (`C02_variables_forwarded`), so `getVariables` copies the client's value
  into the sub-request (`C02_value_forwarded`, an explicit `null` included);
* a variable whose default the client DECLARED (`query($v: Int = 5)`) and for which no value was
  sent travels as a value: the handler fills the default into the request's variables before
  planning, and a step that lists the variable sends it (`C02_declared_default_forwarded`).

Both hold for the code as it is now: `format.walkArgumentList` / `planner.getVariablesList` walk
the directives of every field, `queryHandler` / the `start` arm of `subscriptionHandler` call
`applyDeclaredDefaults` — regenerated facts `Gen/Vars.lean`, pinned by `C02_vars_facts`. The shape
before the repair is kept as the `false` branch of the same model functions;
`C02_before_repair_*` show what it did.

The statement "validates against the receiving service's schema" is decided per translation by
the oracle run (gqlparser at the receiving service); see checks/C02.json.
-/
namespace PebblesVerif
open PebblesVerif.Exec

/-- variables used directly as the value of an argument that has a definition (`f(arg: $v)`,
    `@d(arg: $v)`) -/
def argUses (argDefs : List ArgDef) (args : List Arg) : List String :=
  args.filterMap (fun a => match a.value with
    | .var n _ => if (argDefs.find? (·.name == a.name)).isSome then some n else none
    | _ => none)

/-- variables used directly in the arguments of one directive the schema defines -/
def dirUses (schema : Schema) (d : Dir) : List String :=
  match schema.directives.find? (·.name == d.name) with
  | none => []
  | some dd => argUses dd.args d.args

-- `directVarsWith dirs`: the variables a selection set uses directly in argument positions, in
-- document order, inline fragments looked through: arguments of fields and — `dirs` — arguments of
-- the directives of fields. `directVars` = both.
mutual
  def directVarsWith (dirs : Bool) (schema : Schema) : List Sel → List String
    | [] => []
    | s :: rest => directVarsSelWith dirs schema s ++ directVarsWith dirs schema rest
  def directVarsSelWith (dirs : Bool) (schema : Schema) : Sel → List String
    | .field _ _ args ds _ argDefs sub =>
      argUses argDefs args ++ (if dirs then ds.flatMap (dirUses schema) else []) ++ directVarsWith dirs schema sub
    | .inline _ _ _ _ sub => directVarsWith dirs schema sub
    | .spread .. => []
end

/-- every variable used directly in an argument of a field or of a directive of a field -/
def directVars (schema : Schema) (ss : List Sel) : List String := directVarsWith true schema ss

def hasKey (k : String) (m : List (String × String)) : Prop := ∃ v, (k, v) ∈ m

theorem hasKey_setVarTypeWith_self (st : Bool) (k v : String) (m : List (String × String)) :
    hasKey k (setVarTypeWith st k v m) := by
  induction m with
  | nil => exact ⟨v, by simp [setVarTypeWith]⟩
  | cons x xs ih =>
    obtain ⟨k', v'⟩ := x
    unfold setVarTypeWith
    by_cases hk : k = k'
    · simp only [hk, ↓reduceIte]
      split
      · exact ⟨v', by simp⟩
      · exact ⟨v, by simp⟩
    · simp only [hk, ↓reduceIte]
      obtain ⟨w, hw⟩ := ih; exact ⟨w, by simp [hw]⟩

theorem hasKey_setStr_self (k v : String) (m : List (String × String)) : hasKey k (setStr k v m) :=
  hasKey_setVarTypeWith_self _ k v m

theorem hasKey_setVarTypeWith_mono (st : Bool) {k : String} (k2 v2 : String) {m : List (String × String)} (h : hasKey k m) :
    hasKey k (setVarTypeWith st k2 v2 m) := by
  induction m with
  | nil => obtain ⟨w, hw⟩ := h; simp at hw
  | cons x xs ih =>
    obtain ⟨k', v'⟩ := x
    obtain ⟨w, hw⟩ := h
    unfold setVarTypeWith
    by_cases hk : k2 = k'
    · simp only [hk, ↓reduceIte]
      simp only [List.mem_cons, Prod.mk.injEq] at hw
      rcases hw with ⟨h1, _⟩ | hw
      · subst h1
        split
        · exact ⟨v', by simp⟩
        · exact ⟨v2, by simp⟩
      · split
        · exact ⟨w, by simp [hw]⟩
        · exact ⟨w, by simp [hw]⟩
    · simp only [hk, ↓reduceIte]
      simp only [List.mem_cons, Prod.mk.injEq] at hw
      rcases hw with ⟨h1, h2⟩ | hw
      · exact ⟨w, by simp [h1, h2]⟩
      · obtain ⟨w2, hw2⟩ := ih ⟨w, hw⟩; exact ⟨w2, by simp [hw2]⟩

theorem hasKey_setStr_mono {k : String} (k2 v2 : String) {m : List (String × String)} (h : hasKey k m) :
    hasKey k (setStr k2 v2 m) :=
  hasKey_setVarTypeWith_mono _ k2 v2 h

mutual
  theorem childVarTypes_mono {k : String} : ∀ (v : Value) {acc : List (String × String)},
      hasKey k acc → hasKey k (childVarTypes v acc)
    | .var n et, _, h => by rw [childVarTypes]; exact hasKey_setStr_mono _ _ h
    | .list vs, _, h => by rw [childVarTypes]; exact childVarTypesL_mono vs h
    | .object fs, _, h => by rw [childVarTypes]; exact childVarTypesO_mono fs h
    | .int _, _, h => by simpa [childVarTypes] using h
    | .float _, _, h => by simpa [childVarTypes] using h
    | .str _, _, h => by simpa [childVarTypes] using h
    | .bool _, _, h => by simpa [childVarTypes] using h
    | .null, _, h => by simpa [childVarTypes] using h
    | .enum _, _, h => by simpa [childVarTypes] using h
  theorem childVarTypesL_mono {k : String} : ∀ (vs : List Value) {acc : List (String × String)},
      hasKey k acc → hasKey k (childVarTypesL vs acc)
    | [], _, h => by rw [childVarTypesL]; exact h
    | v :: vs, _, h => by rw [childVarTypesL]; exact childVarTypesL_mono vs (childVarTypes_mono v h)
  theorem childVarTypesO_mono {k : String} : ∀ (fs : List (String × Value)) {acc : List (String × String)},
      hasKey k acc → hasKey k (childVarTypesO fs acc)
    | [], _, h => by rw [childVarTypesO]; exact h
    | (_, v) :: fs, _, h => by rw [childVarTypesO]; exact childVarTypesO_mono fs (childVarTypes_mono v h)
end

/-- the per-argument step never forgets a declared variable -/
theorem argStep_mono (schema : Schema) (argDefs : List ArgDef) (a : Arg) {k : String}
    {acc : List (String × String)} (h : hasKey k acc) : hasKey k (argVarTypes schema argDefs acc a) := by
  unfold argVarTypes
  split
  · exact h
  · split
    · exact hasKey_setStr_mono _ _ h
    · split
      · exact childVarTypesL_mono _ h
      · exact h
    · split
      · exact childVarTypesO_mono _ h
      · exact h
    · exact h

theorem argsFold_mono (schema : Schema) (argDefs : List ArgDef) (args : List Arg) {k : String} :
    ∀ {acc : List (String × String)}, hasKey k acc → hasKey k (args.foldl (argVarTypes schema argDefs) acc) := by
  induction args with
  | nil => intro acc h; simpa using h
  | cons a as ih =>
    intro acc h
    simp only [List.foldl_cons]
    exact ih (argStep_mono schema argDefs a h)

theorem argsFold_declares (schema : Schema) (argDefs : List ArgDef) (args : List Arg) (n : String)
    (hn : n ∈ argUses argDefs args) :
    ∀ (acc : List (String × String)), hasKey n (args.foldl (argVarTypes schema argDefs) acc) := by
  unfold argUses at hn
  induction args with
  | nil => simp at hn
  | cons a as ih =>
    intro acc
    simp only [List.foldl_cons]
    simp only [List.filterMap_cons] at hn
    cases hv : a.value with
    | var m et =>
      simp only [hv] at hn
      cases hf : argDefs.find? (·.name == a.name) with
      | none =>
        simp only [hf, Option.isSome_none, Bool.false_eq_true, ↓reduceIte] at hn
        exact ih hn _
      | some ad =>
        simp only [hf, Option.isSome_some, ↓reduceIte, List.mem_cons] at hn
        rcases hn with hn | hn
        · subst hn
          apply argsFold_mono
          simp only [argVarTypes, hf, hv]
          exact hasKey_setStr_self _ _ _
        · exact ih hn _
    | _ =>
      simp only [hv] at hn
      exact ih hn _

/-- the per-directive step never forgets a declared variable -/
theorem dirStep_mono (schema : Schema) (d : Dir) {k : String} {acc : List (String × String)}
    (h : hasKey k acc) : hasKey k (dirVarTypes schema acc d) := by
  unfold dirVarTypes
  split
  · exact h
  · exact argsFold_mono schema _ d.args h

theorem dirsFold_mono (schema : Schema) (ds : List Dir) {k : String} :
    ∀ {acc : List (String × String)}, hasKey k acc → hasKey k (ds.foldl (dirVarTypes schema) acc) := by
  induction ds with
  | nil => intro acc h; simpa using h
  | cons d ds ih =>
    intro acc h
    simp only [List.foldl_cons]
    exact ih (dirStep_mono schema d h)

theorem dirsFold_declares (schema : Schema) (ds : List Dir) (n : String)
    (hn : n ∈ ds.flatMap (dirUses schema)) :
    ∀ (acc : List (String × String)), hasKey n (ds.foldl (dirVarTypes schema) acc) := by
  induction ds with
  | nil => simp at hn
  | cons d ds ih =>
    intro acc
    simp only [List.foldl_cons]
    simp only [List.flatMap_cons, List.mem_append] at hn
    rcases hn with hn | hn
    · apply dirsFold_mono
      unfold dirUses at hn
      unfold dirVarTypes
      cases hf : schema.directives.find? (·.name == d.name) with
      | none => simp [hf] at hn
      | some dd =>
        simp only [hf] at hn
        exact argsFold_declares schema dd.args d.args n hn acc
    · exact ih hn _

mutual
  theorem walkArgsWith_mono (dirs : Bool) (schema : Schema) {k : String} :
      ∀ (ss : List Sel) {acc : List (String × String)},
      hasKey k acc → hasKey k (walkArgsWith dirs schema ss acc)
    | [], _, h => by simpa [walkArgsWith] using h
    | s :: rest, _, h => by
      rw [walkArgsWith]
      exact walkArgsWith_mono dirs schema rest (walkArgsSelWith_mono dirs schema s h)
  theorem walkArgsSelWith_mono (dirs : Bool) (schema : Schema) {k : String} :
      ∀ (s : Sel) {acc : List (String × String)},
      hasKey k acc → hasKey k (walkArgsSelWith dirs schema s acc)
    | .field _ _ args ds _ argDefs sub, _, h => by
      rw [walkArgsSelWith]
      apply walkArgsWith_mono dirs schema sub
      cases dirs
      · exact argsFold_mono schema argDefs args h
      · exact dirsFold_mono schema ds (argsFold_mono schema argDefs args h)
    | .inline _ _ _ _ sub, _, h => by
      rw [walkArgsSelWith]; exact walkArgsWith_mono dirs schema sub h
    | .spread .., _, h => by
      rw [walkArgsSelWith]; exact h
end

mutual
  theorem walkArgsWith_declares (dirs : Bool) (schema : Schema) (n : String) :
      ∀ (ss : List Sel) (acc : List (String × String)),
      n ∈ directVarsWith dirs schema ss → hasKey n (walkArgsWith dirs schema ss acc)
    | [], _, h => by simp [directVarsWith] at h
    | s :: rest, acc, h => by
      rw [walkArgsWith]
      simp only [directVarsWith, List.mem_append] at h
      rcases h with h | h
      · exact walkArgsWith_mono dirs schema rest (walkArgsSelWith_declares dirs schema n s acc h)
      · exact walkArgsWith_declares dirs schema n rest _ h
  theorem walkArgsSelWith_declares (dirs : Bool) (schema : Schema) (n : String) :
      ∀ (s : Sel) (acc : List (String × String)),
      n ∈ directVarsSelWith dirs schema s → hasKey n (walkArgsSelWith dirs schema s acc)
    | .field _ _ args ds _ argDefs sub, acc, h => by
      rw [walkArgsSelWith]
      simp only [directVarsSelWith, List.mem_append] at h
      rcases h with (h | h) | h
      · apply walkArgsWith_mono dirs schema sub
        cases dirs
        · exact argsFold_declares schema argDefs args n h acc
        · exact dirsFold_mono schema ds (argsFold_declares schema argDefs args n h acc)
      · apply walkArgsWith_mono dirs schema sub
        cases dirs
        · simp at h
        · exact dirsFold_declares schema ds n (by simpa using h) _
      · exact walkArgsWith_declares dirs schema n sub _ h
    | .inline _ _ _ _ sub, acc, h => by
      rw [walkArgsSelWith]
      simp only [directVarsSelWith] at h
      exact walkArgsWith_declares dirs schema n sub acc h
    | .spread .., _, h => by simp [directVarsSelWith] at h
end

theorem mem_insertSortedStr (x y : String) : ∀ (l : List String), y = x ∨ y ∈ l → y ∈ insertSortedStr x l
  | [], h => by simpa [insertSortedStr] using h
  | z :: zs, h => by
    unfold insertSortedStr
    split
    · simpa using h
    · simp only [List.mem_cons] at h ⊢
      rcases h with h | h | h
      · exact Or.inr (mem_insertSortedStr x y zs (Or.inl h))
      · exact Or.inl h
      · exact Or.inr (mem_insertSortedStr x y zs (Or.inr h))

theorem mem_foldl_insertSorted (y : String) : ∀ (l acc : List String), (y ∈ acc ∨ y ∈ l) →
    y ∈ l.foldl (fun acc x => insertSortedStr x acc) acc
  | [], acc, h => by rcases h with h | h; exact h; cases h
  | x :: xs, acc, h => by
    simp only [List.foldl_cons]
    apply mem_foldl_insertSorted y xs
    rcases h with h | h
    · exact Or.inl (mem_insertSortedStr x y acc (Or.inr h))
    · simp only [List.mem_cons] at h
      rcases h with h | h
      · exact Or.inl (mem_insertSortedStr x y acc (Or.inl h))
      · exact Or.inr h

/-- sorting the declarations loses none -/
theorem mem_sortStrs {y : String} {l : List String} (h : y ∈ l) : y ∈ sortStrs l :=
  mem_foldl_insertSorted y l [] (Or.inr h)

/-! ## The facts the theorems stand on -/

/-- **The code has the repaired shape** (read from format/format.go, planner/plan.go, gateway.go,
    subscription.go on every run): `walkArgumentList` and `getVariablesList` walk the directives
    of every field; `queryHandler` and the `start` arm of `subscriptionHandler` fill the client's
    declared defaults into the request's variables between operation selection and planning. -/
theorem C02_vars_facts :
    Gen.Vars.recognised = true ∧ Gen.Vars.directivesWalkedInHeader = true
    ∧ Gen.Vars.directivesWalkedInVariablesList = true ∧ Gen.Vars.declaredDefaultsApplied = true
    ∧ Gen.Vars.declaredDefaultsAppliedSubscription = true ∧ Gen.Vars.strictestTypeWins = true
    ∧ Gen.Vars.emptyListDefaultsKept = true := by decide

/-! ## One variable at several positions -/

/-- the type recorded for a variable (first entry with that name, as `setVarTypeWith` finds it) -/
def recordedType (k : String) (m : List (String × String)) : Option String := (m.find? (fun e => k == e.1)).map (·.2)

/-- **A later, weaker position never weakens the declaration.** For every table of recorded
    types: if `$k` is recorded with type `old` and is then met at a position of the same type up to
    non-null marks with no more marks than `old` (`T` after `T!`), the table is unchanged — the
    header keeps `$k: T!`, which is valid at both positions. -/
theorem C02_header_type_never_weakens (k v old : String) (m : List (String × String))
    (hold : recordedType k m = some old) (hsame : stripBang old = stripBang v) (hle : countBang v ≤ countBang old) :
    setVarTypeWith true k v m = m := by
  induction m with
  | nil => simp [recordedType] at hold
  | cons x xs ih =>
    obtain ⟨k', v'⟩ := x
    unfold setVarTypeWith
    by_cases hk : k = k'
    · subst hk
      simp only [recordedType, List.find?_cons, beq_self_eq_true, Option.map_some, Option.some.injEq] at hold
      subst hold
      simp [hsame, hle]
    · have hk' : (k == k') = false := by simpa using hk
      simp only [recordedType, List.find?_cons, hk'] at hold
      simp only [hk, ↓reduceIte]
      rw [ih (by simpa [recordedType] using hold)]

/-- **A later, stricter position strengthens it.** If `$k` is recorded with `old` and is then met at
    a position whose type has more non-null marks, the recorded type becomes that type. -/
theorem C02_header_type_strengthens (k v old : String) (m : List (String × String))
    (hold : recordedType k m = some old) (hlt : countBang old < countBang v) :
    recordedType k (setVarTypeWith true k v m) = some v := by
  induction m with
  | nil => simp [recordedType] at hold
  | cons x xs ih =>
    obtain ⟨k', v'⟩ := x
    unfold setVarTypeWith
    by_cases hk : k = k'
    · subst hk
      simp only [recordedType, List.find?_cons, beq_self_eq_true, Option.map_some, Option.some.injEq] at hold
      subst hold
      have : ¬ countBang v ≤ countBang v' := by omega
      simp [recordedType, this]
    · have hk' : (k == k') = false := by simpa using hk
      simp only [recordedType, List.find?_cons, hk'] at hold
      simp only [hk, ↓reduceIte, recordedType, List.find?_cons, hk']
      exact ih (by simpa [recordedType] using hold)

/-- **What the plain map assignment did** (before the repair): `$v: Int!` used at an `Int!` position
    and then at an `Int` position was declared `$v: Int` — invalid at the first position (the
    service answered `Variable "$v" of type "Int" used in position expecting type "Int!"`). -/
theorem C02_before_repair_last_position_won :
    setVarTypeWith false "v" "Int" [("v", "Int!")] = [("v", "Int")] ∧
    setVarTypeWith true "v" "Int" [("v", "Int!")] = [("v", "Int!")] ∧
    setVarTypeWith true "v" "Int!" [("v", "Int")] = [("v", "Int!")] := by decide

/-! ## Declared -/

/-- **The synthesised header declares every variable a step uses** directly as the value of an
    argument of a field or of a directive of a field, for every selection set of every step:
    `$n: <type declared at that position>` is among the declarations of the header the query
    string opens with. -/
theorem C02_header_declares (c : PCtx) (st : Step) (n : String) (h : n ∈ directVars c.schema st.sels) :
    ∃ t, ("$" ++ n ++ ": " ++ t) ∈ (header c st).varDecls := by
  have hfact : Gen.Vars.directivesWalkedInHeader = true := C02_vars_facts.2.1
  obtain ⟨t, ht⟩ := walkArgsWith_declares true c.schema n st.sels [] h
  refine ⟨t, ?_⟩
  unfold header walkArgs
  rw [hfact]
  exact mem_sortStrs (List.mem_map.mpr ⟨(n, t), ht, rfl⟩)

theorem foldl_uniq_mem (l : List String) : ∀ (acc : List String) (x : String), (x ∈ acc ∨ x ∈ l) →
    x ∈ l.foldl (fun acc x => if acc.contains x then acc else acc ++ [x]) acc := by
  induction l with
  | nil => intro acc x h; rcases h with h | h; exact h; cases h
  | cons y ys ih =>
    intro acc x h
    simp only [List.foldl_cons]
    apply ih
    rcases h with h | h
    · left; split
      · exact h
      · simp [h]
    · simp only [List.mem_cons] at h
      rcases h with h | h
      · subst h; left; split
        · rename_i hc; simpa using hc
        · simp
      · right; exact h

theorem mem_uniq {l : List String} {x : String} (h : x ∈ l) : x ∈ uniq l :=
  foldl_uniq_mem l [] x (Or.inr h)

theorem mem_argRaws_of_uses (argDefs : List ArgDef) (args : List Arg) (n : String)
    (h : n ∈ argUses argDefs args) : n ∈ args.flatMap argRaws := by
  unfold argUses at h
  simp only [List.mem_filterMap] at h
  obtain ⟨a, ha, hv⟩ := h
  simp only [List.mem_flatMap]
  refine ⟨a, ha, ?_⟩
  cases hval : a.value with
  | var m et =>
    simp only [hval] at hv
    split at hv
    · simp only [Option.some.injEq] at hv; subst hv; simp [argRaws, hval, Value.raw]
    · cases hv
  | _ => simp [hval] at hv

theorem mem_dirRaws_of_uses (schema : Schema) (ds : List Dir) (n : String)
    (h : n ∈ ds.flatMap (dirUses schema)) : n ∈ ds.flatMap dirRaws := by
  simp only [List.mem_flatMap] at h ⊢
  obtain ⟨d, hd, hn⟩ := h
  refine ⟨d, hd, ?_⟩
  unfold dirUses at hn
  cases hf : schema.directives.find? (·.name == d.name) with
  | none => simp [hf] at hn
  | some dd =>
    simp only [hf] at hn
    exact mem_argRaws_of_uses dd.args d.args n hn

mutual
  theorem varNamesWith_direct (dirs : Bool) (schema : Schema) (n : String) : ∀ (ss : List Sel),
      n ∈ directVarsWith dirs schema ss → n ∈ varNamesWith dirs ss
    | [], h => by simp [directVarsWith] at h
    | s :: rest, h => by
      simp only [directVarsWith, List.mem_append] at h
      simp only [varNamesWith, List.mem_append]
      rcases h with h | h
      · exact Or.inl (varNamesSelWith_direct dirs schema n s h)
      · exact Or.inr (varNamesWith_direct dirs schema n rest h)
  theorem varNamesSelWith_direct (dirs : Bool) (schema : Schema) (n : String) : ∀ (s : Sel),
      n ∈ directVarsSelWith dirs schema s → n ∈ varNamesSelWith dirs s
    | .field _ _ args ds _ argDefs sub, h => by
      simp only [directVarsSelWith, List.mem_append] at h
      simp only [varNamesSelWith, List.mem_append]
      rcases h with (h | h) | h
      · exact Or.inl (Or.inl (mem_argRaws_of_uses argDefs args n h))
      · cases dirs
        · simp at h
        · exact Or.inl (Or.inr (by simpa using mem_dirRaws_of_uses schema ds n (by simpa using h)))
      · exact Or.inr (varNamesWith_direct dirs schema n sub h)
    | .inline _ _ _ _ sub, h => by
      simp only [directVarsSelWith] at h
      simp only [varNamesSelWith]
      exact varNamesWith_direct dirs schema n sub h
    | .spread .., h => by simp [directVarsSelWith] at h
end

/-! ## Forwarded -/

/-- **Every variable a step uses** (argument of a field or of a directive of a field) **is in its
    `VariablesList`**, whatever schema the definitions are looked up in. -/
theorem C02_variables_forwarded (schema : Schema) (st : Step) (n : String) (h : n ∈ directVars schema st.sels) :
    n ∈ variablesList st.sels := by
  have hfact : Gen.Vars.directivesWalkedInVariablesList = true := C02_vars_facts.2.2.1
  unfold variablesList varNames
  rw [hfact]
  exact mem_uniq (varNamesWith_direct true schema n st.sels h)

namespace C02
theorem lookup_setKey_same (k : String) (v : J) : ∀ (m : List (String × J)), J.lookup k (J.setKey k v m) = some v
  | [] => by simp [J.setKey, J.lookup]
  | (k', v') :: rest => by
    by_cases hk : k = k'
    · simp [J.setKey, J.lookup, hk]
    · simp [J.setKey, J.lookup, hk, lookup_setKey_same k v rest]

theorem lookup_setKey_ne (k k' : String) (v : J) (hne : k ≠ k') : ∀ (m : List (String × J)),
    J.lookup k (J.setKey k' v m) = J.lookup k m
  | [] => by simp [J.setKey, J.lookup, hne]
  | (k'', v'') :: rest => by
    by_cases hk : k' = k''
    · subst hk; simp [J.setKey, J.lookup, hne]
    · by_cases hk2 : k = k''
      · simp [J.setKey, J.lookup, hk, hk2]
      · simp [J.setKey, J.lookup, hk, hk2, lookup_setKey_ne k k' v hne rest]

/-- the copying loop of `getVariables`: a listed variable the request carries ends up in the result -/
theorem copy_lookup (rv : List (String × J)) (n : String) (x : J) (hx : J.lookup n rv = some x) :
    ∀ (l : List String) (acc : List (String × J)), (n ∈ l ∨ J.lookup n acc = some x) →
    J.lookup n (l.foldl (fun acc v => match J.lookup v rv with
        | some y => J.setKey v y acc
        | none => acc) acc) = some x
  | [], acc, h => by
    rcases h with h | h
    · cases h
    · simpa using h
  | v :: vs, acc, h => by
    simp only [List.foldl_cons]
    apply copy_lookup rv n x hx vs
    by_cases hv : n = v
    · subst hv
      right
      simp only [hx]
      exact lookup_setKey_same n x acc
    · rcases h with h | h
      · simp only [List.mem_cons] at h
        rcases h with h | h
        · exact absurd h hv
        · exact Or.inl h
      · right
        cases hl : J.lookup v rv with
        | none => simpa using h
        | some y => simp only []; rw [lookup_setKey_ne n v y hv]; exact h
end C02

/-- **`getVariables` forwards the value of every listed variable the request carries** — a value
    the client sent (an explicit `null` is one) or a declared default filled in by the handler.
    `$id` of a child step is the executor's own (open finding `variable-named-id`), hence the
    side condition. -/
theorem C02_value_forwarded (rv : List (String × J)) (c : PCtx) (er : ExecReq) (n : String) (x : J)
    (vars : List (String × J)) (hlisted : n ∈ variablesList er.step.sels) (hx : J.lookup n rv = some x)
    (hid : er.ip = [] ∨ n ≠ "id") (hok : getVariables (some rv) c er = .ok vars) :
    J.lookup n vars = some x := by
  have hbase := C02.copy_lookup rv n x hx (variablesList er.step.sels) [] (Or.inl hlisted)
  unfold getVariables at hok
  simp only [] at hok
  cases hl : er.ip.getLast? with
  | none =>
    simp only [hl] at hok
    cases hok
    exact hbase
  | some head =>
    have hne : n ≠ "id" := by
      rcases hid with h | h
      · rw [h] at hl; simp at hl
      · exact h
    simp only [hl, bind, Except.bind] at hok
    cases hp : Point.extract head with
    | error e => simp [hp] at hok
    | ok pd =>
      simp only [hp] at hok
      split at hok
      · cases hok
      · cases hok
        rw [C02.lookup_setKey_ne n "id" _ hne]
        exact hbase

/-! ## Declared defaults -/

namespace C02
/-- as the code has it now the default is stored as declared (this is where reverting the
    `emptyListsNotNil` repair breaks) -/
theorem defaultAsSent_current (v : J) : defaultAsSent Gen.Vars.emptyListDefaultsKept v = v := by
  have h : Gen.Vars.emptyListDefaultsKept = true := by decide
  simp [defaultAsSent, h]

/-- one step of `applyDeclaredDefaults` keeps what the request already carries -/
theorem step_keeps (n : String) (x : J) (vd : VarDef) (rv : Option (List (String × J)))
    (h : J.lookup n (rv.getD []) = some x) :
    J.lookup n ((match vd.default with
      | none => rv
      | some d =>
        if (J.lookup vd.name (rv.getD [])).isSome then rv else
        match Spec.constToJ d with
        | none => rv
        | some v => some (J.setKey vd.name v (rv.getD []))).getD []) = some x := by
  cases vd.default with
  | none => exact h
  | some d =>
    simp only []
    split
    · exact h
    · rename_i hns
      cases Spec.constToJ d with
      | none => exact h
      | some v =>
        simp only [Option.getD_some]
        have hne : n ≠ vd.name := by
          intro he; subst he; rw [h] at hns; simp at hns
        rw [lookup_setKey_ne n vd.name v hne]
        exact h

theorem apply_keeps (n : String) (x : J) : ∀ (varDefs : List VarDef) (rv : Option (List (String × J))),
    J.lookup n (rv.getD []) = some x → J.lookup n ((applyDeclaredDefaults varDefs rv).getD []) = some x
  | [], rv, h => by simpa [applyDeclaredDefaults] using h
  | vd :: rest, rv, h => by
    unfold applyDeclaredDefaults
    simp only [defaultAsSent_current]
    simp only [List.foldl_cons]
    exact apply_keeps n x rest _ (step_keeps n x vd rv h)

/-- the first definition of a variable decides: with a default and no value sent, the default
    is filled in -/
theorem apply_default (n : String) (d : Value) (v : J) (hv : Spec.constToJ d = some v) :
    ∀ (varDefs : List VarDef) (rv : Option (List (String × J))),
    (∃ vd ∈ varDefs, vd.name = n ∧ vd.default = some d ∧ ∀ vd' ∈ varDefs, vd'.name = n → vd' = vd) →
    J.lookup n (rv.getD []) = none →
    J.lookup n ((applyDeclaredDefaults varDefs rv).getD []) = some v
  | [], _, h, _ => by obtain ⟨vd, hm, _⟩ := h; cases hm
  | vd0 :: rest, rv, h, hnone => by
    obtain ⟨vd, hm, hname, hdef, huniq⟩ := h
    unfold applyDeclaredDefaults
    simp only [defaultAsSent_current]
    simp only [List.foldl_cons]
    by_cases h0 : vd0.name = n
    · -- this definition is the one
      have heq : vd0 = vd := huniq vd0 (by simp) h0
      subst heq
      apply apply_keeps n v rest
      simp only [hdef, h0, hnone, Option.isSome_none, Bool.false_eq_true, ↓reduceIte, hv, Option.getD_some]
      exact lookup_setKey_same n v _
    · -- another variable: `n` stays absent, the definition of `n` is further on
      have hm' : vd ∈ rest := by
        simp only [List.mem_cons] at hm
        rcases hm with hm | hm
        · subst hm; exact absurd hname h0
        · exact hm
      apply apply_default n d v hv rest _ ⟨vd, hm', hname, hdef, fun vd' hvd' => huniq vd' (by simp [hvd'])⟩
      cases vd0.default with
      | none => exact hnone
      | some d0 =>
        simp only []
        split
        · exact hnone
        · cases Spec.constToJ d0 with
          | none => exact hnone
          | some v0 =>
            simp only [Option.getD_some]
            rw [lookup_setKey_ne n vd0.name v0 (fun he => h0 he.symm)]
            exact hnone
end C02

/-- **A client variable with a declared default and no value is forwarded with the default**: for
    every operation whose variable definitions define `$n` once, with default `d`, and every
    request that carries no value for `n` (no variables at all included), every sub-request whose
    step lists `n` is sent with the default's value for it. -/
theorem C02_declared_default_forwarded (op : Op) (reqVars : Option (List (String × J))) (c : PCtx) (er : ExecReq)
    (n : String) (d : Value) (v : J) (vars : List (String × J))
    (hdef : ∃ vd ∈ op.varDefs, vd.name = n ∧ vd.default = some d ∧ ∀ vd' ∈ op.varDefs, vd'.name = n → vd' = vd)
    (hv : Spec.constToJ d = some v)
    (hnone : J.lookup n (reqVars.getD []) = none)
    (hlisted : n ∈ variablesList er.step.sels) (hid : er.ip = [] ∨ n ≠ "id")
    (hok : getVariables (withDeclaredDefaults Gen.Vars.declaredDefaultsApplied op reqVars) c er = .ok vars) :
    J.lookup n vars = some v := by
  have hfact : Gen.Vars.declaredDefaultsApplied = true := C02_vars_facts.2.2.2.1
  rw [hfact] at hok
  have hl := C02.apply_default n d v hv op.varDefs reqVars hdef hnone
  simp only [withDeclaredDefaults, ↓reduceIte] at hok
  cases hrv : applyDeclaredDefaults op.varDefs reqVars with
  | none => rw [hrv] at hl; simp [J.lookup] at hl
  | some rv =>
    rw [hrv] at hl hok
    exact C02_value_forwarded rv c er n v vars hlisted (by simpa using hl) hid hok

/-- **A value the client sent stays** (an explicit `null` is a value): the declared default does
    not replace it, and it is forwarded. -/
theorem C02_sent_value_kept (op : Op) (rv0 : List (String × J)) (c : PCtx) (er : ExecReq)
    (n : String) (x : J) (vars : List (String × J)) (hx : J.lookup n rv0 = some x)
    (hlisted : n ∈ variablesList er.step.sels) (hid : er.ip = [] ∨ n ≠ "id")
    (hok : getVariables (withDeclaredDefaults Gen.Vars.declaredDefaultsApplied op (some rv0)) c er = .ok vars) :
    J.lookup n vars = some x := by
  have hl : J.lookup n ((withDeclaredDefaults Gen.Vars.declaredDefaultsApplied op (some rv0)).getD []) = some x := by
    unfold withDeclaredDefaults
    split
    · exact C02.apply_keeps n x op.varDefs (some rv0) (by simpa using hx)
    · simpa using hx
  cases hrv : withDeclaredDefaults Gen.Vars.declaredDefaultsApplied op (some rv0) with
  | none => rw [hrv] at hl; simp [J.lookup] at hl
  | some rv =>
    rw [hrv] at hl hok
    exact C02_value_forwarded rv c er n x vars hlisted (by simpa using hl) hid hok

/-! ## What the shape before the repair did (the `false` branches of the same model functions) -/

/-- a schema that defines `@include(if: Boolean!)` and nothing else -/
def C02.includeSchema : Schema :=
  ⟨[], [⟨"include", "", [⟨"if", .nonNull (.named "Boolean"), none, "", []⟩], [], false⟩], [], [], none, none, none⟩

/-- `{ q @include(if: $v) }` -/
def C02.dirSel : Sel := .field "q" "q" [] [⟨"include", [⟨"if", .var "v"⟩]⟩] (.named "String") [] []

/-- **Before the repair** (`walkArgumentList` / `getVariablesList` look at field arguments only):
    the variable of `{ q @include(if: $v) }` is neither declared nor listed — the service answers
    `Variable "$v" is not defined`. With the directives walked it is declared `$v: Boolean!` and
    listed. -/
theorem C02_before_repair_directive_variable :
    (walkArgsWith false C02.includeSchema [C02.dirSel] [] = [] ∧ uniq (varNamesWith false [C02.dirSel]) = [])
    ∧ (walkArgsWith true C02.includeSchema [C02.dirSel] [] = [("v", "Boolean!")]
       ∧ uniq (varNamesWith true [C02.dirSel]) = ["v"]) := by
  refine ⟨⟨rfl, rfl⟩, rfl, rfl⟩

/-- `query($v: Int = 5) { f(a: $v) }` -/
def C02.defaultOp : Op :=
  ⟨.query, "", [⟨"v", .named "Int", some (.int "5")⟩],
   [.field "f" "f" [⟨"a", .var "v"⟩] [] (.named "String") [⟨"a", .named "Int", none, "", []⟩] []]⟩

/-- **An empty-list default travels as `[]`** — `(*ast.Value).Value` hands back a nil slice for an
    empty list literal, which `encoding/json` writes as `null`; before the repair
    (`emptyListsNotNil`) `query($v: [Int!] = [])` and `= {tags: []}` reached the service as `null`.
    Concrete witness on both branches of the model, by evaluation. -/
theorem C02_before_repair_empty_list_default :
    defaultAsSent false (.arr []) = .null ∧
    defaultAsSent false (.obj [("tags", .arr []), ("n", .num "1")]) = .obj [("tags", .null), ("n", .num "1")] ∧
    defaultAsSent true (.obj [("tags", .arr [])]) = .obj [("tags", .arr [])] := by
  exact ⟨rfl, rfl, rfl⟩

/-- **Before the repair** (no `applyDeclaredDefaults`): `query($v: Int = 5) { f(a: $v) }` sent
    without variables reaches the service without a value for `$v` (and the header declares
    `$v: Int`, without the default): the argument is absent. With the defaults applied the
    sub-request carries `v = 5`. -/
theorem C02_before_repair_default_dropped :
    let er : ExecReq := ⟨.mk "A" "Query" C02.defaultOp.sels [] [], []⟩
    let c : PCtx := { schema := C02.includeSchema, tum := [], opKind := .query, opName := "" }
    getVariables (withDeclaredDefaults false C02.defaultOp none) c er = .ok []
    ∧ getVariables (withDeclaredDefaults true C02.defaultOp none) c er = .ok [("v", .num "5")] := by
  intro er c
  exact ⟨rfl, rfl⟩

/-- Non-vacuity of `C02_header_declares`: `user(id: $uid) @include(if: $v)` declares `$uid: ID!`
    and `$v: Boolean!`; both are used directly. -/
example :
    let sel : Sel := .field "user" "user" [⟨"id", .var "uid"⟩] [⟨"include", [⟨"if", .var "v"⟩]⟩] (.named "User")
      [⟨"id", .nonNull (.named "ID"), none, "", []⟩] []
    walkArgs C02.includeSchema [sel] [] = [("uid", "ID!"), ("v", "Boolean!")]
    ∧ directVars C02.includeSchema [sel] = ["uid", "v"] ∧ variablesList [sel] = ["uid", "v"] := by
  decide

/-- Non-vacuity of `C02_declared_default_forwarded`: the hypotheses hold for
    `query($v: Int = 5) { f(a: $v) }` sent without variables. -/
example : (∃ vd ∈ C02.defaultOp.varDefs, vd.name = "v" ∧ vd.default = some (.int "5")
      ∧ ∀ vd' ∈ C02.defaultOp.varDefs, vd'.name = "v" → vd' = vd)
    ∧ Spec.constToJ (.int "5") = some (.num "5") ∧ "v" ∈ variablesList C02.defaultOp.sels := by
  refine ⟨⟨⟨"v", .named "Int", some (.int "5")⟩, by simp [C02.defaultOp], rfl, rfl, ?_⟩, rfl, by decide⟩
  intro vd' h _
  simpa [C02.defaultOp] using h

end PebblesVerif
