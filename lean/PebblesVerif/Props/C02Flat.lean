import PebblesVerif.Props.C01FlatList
import PebblesVerif.Props.C06Flat
import PebblesVerif.Proofs.C02Flat7
/-!
# C02, end to end, for the flat families

"Every sub-request the gateway sends is a valid GraphQL operation against the schema of the
service it is sent to: it selects only fields that service declares (each client-selected field
is sent to exactly the service that declares it; `id` and `__typename` helper fields aside),
declares every variable it uses with the type of the argument position, forwards the client's
values for them, and — for follow-up lookups — has the form
`query($id: ID!) { node(id: $id) { ... on T { … } } }`."

`Props/C02.lean` proves the header / variables part stage-wise, for all selection sets. Here the
statement is proved about the calls `Exec.gateway` actually makes, for the unbounded families of
`C01_flat_one_hop` (one object, two owners), `C01_flat_list_one_hop` (a list of objects, two
owners; the batch of de-duplicated lookups), `C06_flat_mutation_calls` (leaf mutation root
fields, any number of owners) and `C06_flat_followup_is_query` (the same plus one object-valued
mutation root field, whose follow-up lookup is a `query`).

Spec side (definitions in `Proofs/C02Flat1.lean`, written from the statement, independent of the
planner model): `C02.ValidFor S rq` — the decidable predicate "a validator at the service accepts
`rq` against its own schema `S`" (what it checks and what a real validator checks in addition: see
its doc comment); `C02.occOn S T n rq` — how often `rq` selects the field `T.n`, types followed
through `S`; `C02.selecting svcs T n calls` — the (URL, request) pairs among `calls` whose request
selects `T.n`; `C02.IsNodeLookup T sub rq` — `rq` is exactly
`query($id: ID!) { node(id: $id) { ... on T { sub } } }`; `C02.SubrequestsOK` — the conclusion,
field by field; `C02.RequestOK` / `C02.MutORequestOK` — the same for one request. The hypotheses
about the SERVICE schemas are `Flat.SvcFam` (= `Flat.SvcTA` + `Flat.SvcB` + the root field),
`Mut.SvcFam`, `MutO.SvcFam` (`Proofs/C02Flat2.lean`, `C02Flat5.lean`, `C02Flat7.lean`); `Flat.Fam`
/ `Mut.Fam` / `MutO.Fam` speak of the merged schema and the routing table only. Proofs: `Proofs/C02Flat1…7.lean`, `Proofs/C02Calls.lean`.

Three layers, from the most general:
* `C02_requests_are_plan_steps` — ALL operations, ALL plans, ALL downstreams: every request of every
  call is the formatted form of a step of the plan, sent to that step's service (so validating the
  steps of the plan against the schemas of their services — what the C02 harness does with
  gqlparser on the real planner's plan — covers everything that is ever sent);
* `C02_flat_every_downstream`, `C02_flat_list_every_downstream`,
  `C02_flat_mutation_every_downstream`, `C02_flat_followup_every_downstream` — the flat families,
  EVERY downstream (wrong answers and faults included): every request sent is valid for its service, of the right form, and selects a
  client field iff it goes to the field's owner;
* `C02_flat_guarded`, `C02_flat_list_guarded`, `C02_flat_mutation_guarded`, `C02_flat_followup_guarded`
  — the same for runs that end in an error too (a validating front before the services never fires;
  general form `C02_downstream_consulted_on_plan_only`);
* `C02_flat_subrequests_valid`, `C02_flat_list_subrequests_valid`,
  `C02_flat_mutation_subrequests_valid`, `C02_flat_followup_subrequests_valid` (+ `…_any`) — with services answering as the reference
  evaluator does (or any well-formed answers) the call list is known exactly: one request to `A`,
  one batch of lookups to `B`, ids of the entities, each field in exactly one request.
-/
namespace PebblesVerif
open PebblesVerif.Exec

/-! ## every operation: what is sent is what was planned -/

/-- **Every request of every call is the formatted form of a step of the plan, sent to that step's
    service.** For every planning context, executor configuration, operation, variables, downstream
    (faults and malformed answers included) and scrub order: if the planner model yields the plan
    `steps` and the pipeline `Exec.gateway` ends with `res`, then for every request `rq` of every
    call of `res.calls` there is a step `s` of the plan (`Exec.InPlan`: a root step or, recursively,
    a child step) with `s.url` the URL called and `rq` exactly `Exec.requestOf c s vars`: the header
    synthesised for `s` (`C02_header_declares`), the selection set of `s`, its operation name and
    query key, and the variables `getVariables` computes for `s` at some insertion point
    (`C02_variables_forwarded`, `C02_value_forwarded`). Nothing else is ever sent, and nothing is
    sent anywhere else. -/
theorem C02_requests_are_plan_steps (c : PCtx) (cfg : ExecCfg) (op : Op) (rv : Option (List (String × J)))
    (down : Downstream) (so : Scrub → Scrub) (steps : List Step) (sf : Scrub)
    (hplan : plan c op = .ok (steps, sf)) (res : GwResult)
    (h : gateway c cfg op rv down so = .ok res) :
    ∀ cl ∈ res.calls, ∀ rq ∈ cl.batch, ∃ s ip vars, InPlan steps s ∧ s.url = cl.url ∧
      getVariables (withDeclaredDefaults Gen.Vars.declaredDefaultsApplied op rv) c ⟨s, ip⟩ = .ok vars ∧
      rq = requestOf c s vars :=
  gateway_requests_are_plan_steps c cfg rv down op so steps sf hplan res h

/-- **The downstream is consulted on requests of the plan only — also in runs that end in an
    error.** (`GwResult.calls` lists the calls of runs that end well; this theorem covers every run.)
    Two downstreams that agree on every batch all of whose requests are formatted forms of steps of
    the plan, sent to those steps' service, give the same outcome of `Exec.gateway`: same data, same
    errors, same calls, same fault. So no other request is ever handed to a service. -/
theorem C02_downstream_consulted_on_plan_only (c : PCtx) (cfg : ExecCfg) (op : Op) (rv : Option (List (String × J)))
    (down down' : Downstream) (so : Scrub → Scrub) (steps : List Step) (sf : Scrub)
    (hplan : plan c op = .ok (steps, sf))
    (hagree : ∀ url batch,
      (∀ rq ∈ batch, ∃ s ip vars, InPlan steps s ∧ s.url = url ∧
        getVariables (withDeclaredDefaults Gen.Vars.declaredDefaultsApplied op rv) c ⟨s, ip⟩ = .ok vars ∧
        rq = requestOf c s vars) →
      down url batch = down' url batch) :
    gateway c cfg op rv down so = gateway c cfg op rv down' so :=
  gateway_congr_on_plan c cfg rv down down' op so steps sf hplan hagree

/-! ## one object, two owners -/

/-- **Every sub-request is valid for, and owned by, its service — end to end — for every operation
    `{ q { f₁ … fₙ } }` of the "one object, two owners" family.** Hypotheses: those of
    `C01_flat_one_hop` (`Flat.Fam`: the root field `q` of a Node type `T` is routed to `A`, the
    distinct leaf fields `fs` each to `A` or `B`, any interleaving; the data set refers to an
    entity `e` under `q`; every service answers as the reference evaluator does over its own
    schema) and `Flat.SvcFam`, which ties the SERVICE schemas to the routing table: `SA` declares
    `Query.q` (named type `T`), `T.id` and exactly the `fᵢ` routed to `A`; `SB` declares
    `Query.node(id: ID!): Node`, the interface `Node`, `T implements Node` with `id` and exactly
    the `fᵢ` routed to `B`.

    Then `Exec.gateway` answers without error and the calls it made are: ONE request `rqA` to `A`
    and — iff `B` owns a selected field — ONE follow-up request to `B`
    (`C02.SubrequestsOK`, with `lookups = [e.id]`), such that
    * `valid`: EVERY request of EVERY call satisfies `ValidFor` for the schema of the service it
      was sent to (fields declared by the type they are selected on, leaf/composite shape, the
      fragment's type condition, arguments declared and required arguments given, the variable
      `$id` declared in the header with the type `ID!` of the argument position `node(id:)`);
    * `root`: the request to `A` is a `query` with no variable declarations and no variables;
    * `lookup`, `ids`: the follow-up is exactly
      `query($id: ID!) { node(id: $id) { ... on T { <B's fields> } } }` with
      `vars = [("id", e.id)]`;
    * `owner`, `once`, and the last conjunct: each client-selected field `T.fᵢ` is selected by
      EXACTLY ONE request among all requests of all calls, exactly once in it, and that request
      went to the service the table names (`A` or `B`);
    * `declared`: that service declares `T.fᵢ` and the other one does not.
    (`'#'`, `':'` do not occur in `q`, `q` and the field names are not empty, the id is an
    arbitrary non-empty string: the insertion-point codec, as in C01.)
    Concrete instance: `C02_flat_subrequests_valid_instance`. -/
theorem C02_flat_subrequests_valid {c : PCtx} {A B T q : String} {fs : List Flat.FieldSpec} (h : Flat.Fam c A B T q fs)
    (svcs : List Svc) (SA SB : Schema) (hs : Flat.SvcFam c A B T q fs SA SB)
    (D : Spec.Data) (e : Spec.Entity) (r : List (String × J))
    (hq1 : '#' ∉ q.toList) (hq2 : ':' ∉ q.toList) (hqne : q ≠ "") (hine : e.id ≠ "")
    (hnne : ∀ n ∈ Flat.namesOf fs, n ≠ "")
    (hsA : svcs.find? (·.url == A) = some ⟨A, SA⟩) (hsB : svcs.find? (·.url == B) = some ⟨B, SB⟩)
    (hroot : Spec.dlookup q (D.root "Query") = some (.ref e.id)) (hent : D.entity? e.id = some e) (hty : e.type = T)
    (href : Spec.eval c.schema D ⟨.query, "", [], [Flat.Q T q fs]⟩ [] = some (.obj [(q, .obj r)])) :
    ∃ (d : List (String × J)) (rqA : Request) (batch : List Request) (calls : List Call),
      gateway c {} ⟨.query, "", [], [Flat.Q T q fs]⟩ none (specDownstream svcs D)
        = .ok ⟨some [(q, .obj d)], [], calls⟩ ∧
      C02.SubrequestsOK svcs A B T fs (if (Flat.fsB fs).isEmpty then [] else [e.id]) rqA batch calls ∧
      ∀ f ∈ fs, ∃ rq, C02.selecting svcs T f.1 calls = [(if f.2.2 then B else A, rq)] := by
  obtain ⟨d, hg, -⟩ := Flat.flat_one_hop_calls h svcs SA SB D e r hq1 hq2 hqne hine hnne hsA hsB
    (C02.kindOf_some hs.kTB) hroot hent hty href
  obtain ⟨rqA, batch, hok⟩ := C02.flat_calls_ok h hs svcs hsA hsB e.id
  exact ⟨d, rqA, batch, _, hg, hok, hok.exactly_one⟩

/-- **The same for every downstream with well-formed answers** (not only the reference evaluator):
    `down` answers the root request with an object under `q` that carries the string id `i` and
    fields `a`, and — if `B` owns a selected field — the lookup for `i` with `{node: {b…}}`, the
    keys of `b` distinct and disjoint from `id` and `a`'s (so that the merge succeeds), no `id` /
    `__typename` among them. The sub-requests do not depend on anything else the services say. -/
theorem C02_flat_subrequests_valid_any {c : PCtx} {A B T q : String} {fs : List Flat.FieldSpec}
    (h : Flat.Fam c A B T q fs) (svcs : List Svc) (SA SB : Schema) (hs : Flat.SvcFam c A B T q fs SA SB)
    (hsA : svcs.find? (·.url == A) = some ⟨A, SA⟩) (hsB : svcs.find? (·.url == B) = some ⟨B, SB⟩)
    (down : Downstream) (i : String) (a b : List (String × J))
    (hq1 : '#' ∉ q.toList) (hq2 : ':' ∉ q.toList) (hqne : q.toList ≠ []) (hine : i ≠ "")
    (hA : down A [Flat.rqOf c (Flat.rootStep A B T q fs) []] = .ok [Flat.respA q i a])
    (hB : Flat.fsB fs ≠ [] →
      down B [Flat.rqOf c (Flat.stepB B T q (Flat.fsB fs)) [("id", .str i)]] = .ok [[("node", .obj b)]])
    (hb0 : Flat.fsB fs = [] → b = [])
    (hbnd : (J.keys b).Nodup) (hdisj : ∀ k ∈ J.keys b, k ∉ J.keys (("id", J.str i) :: a))
    (hid : "id" ∉ J.keys (a ++ b)) (htn : "__typename" ∉ J.keys (a ++ b)) (hne : a ++ b ≠ []) :
    ∃ (rqA : Request) (batch : List Request) (calls : List Call),
      gateway c {} ⟨.query, "", [], [Flat.Q T q fs]⟩ none down = .ok ⟨some [(q, .obj (a ++ b))], [], calls⟩ ∧
      C02.SubrequestsOK svcs A B T fs (if (Flat.fsB fs).isEmpty then [] else [i]) rqA batch calls ∧
      ∀ f ∈ fs, ∃ rq, C02.selecting svcs T f.1 calls = [(if f.2.2 then B else A, rq)] := by
  have hg := Flat.stage_gateway_calls h down i a b hq1 hq2 hqne hine hA hB hb0 hbnd hdisj hid htn hne
  obtain ⟨rqA, batch, hok⟩ := C02.flat_calls_ok h hs svcs hsA hsB i
  exact ⟨rqA, batch, _, hg, hok, hok.exactly_one⟩

/-! ## a list of objects, two owners -/

/-- **Every sub-request is valid for, and owned by, its service — end to end — for every operation
    of the "list of objects, two owners" family** (`q : [T]`, the data's value for `q` a list of
    references to entities `es`, `k = 0` and repeated entities allowed): hypotheses of
    `C01_flat_list_one_hop` and `Flat.SvcFam` (with `SA` declaring `Query.q : [T]` — the structure
    only asks for the NAMED type `T`).

    The calls `Exec.gateway` made are one request `rqA` to `A` and — iff `B` owns a selected field
    and the list is not empty — ONE call to `B` whose batch holds one follow-up per DISTINCT id of
    the list, in order of first occurrence (`FlatList.dedupIds`: duplicate-free, same members as
    the list of ids). `C02.SubrequestsOK` then says: every request of every call is `ValidFor` the
    schema of the service called; `rqA` is a `query` without variables; every follow-up is exactly
    `query($id: ID!) { node(id: $id) { ... on T { <B's fields> } } }` and the `j`-th one carries
    `vars = [("id", <j-th distinct id>)]`; a client-selected field routed to `A` is selected by
    `rqA` and by no other request, one routed to `B` by the follow-ups — one per distinct entity —
    and not by `rqA`, each time exactly once; the owner declares the field, the other service
    does not. Concrete instances: `C02_flat_list_subrequests_valid_instance` (three entities),
    `…_instance_dup` (a repeated entity: two lookups). -/
theorem C02_flat_list_subrequests_valid {c : PCtx} {A B T q : String} {fs : List Flat.FieldSpec}
    (h : Flat.Fam c A B T q fs) (svcs : List Svc) (SA SB : Schema) (hs : Flat.SvcFam c A B T q fs SA SB)
    (D : Spec.Data) (es : List Spec.Entity) (rs : List (List (String × J)))
    (hq1 : '#' ∉ q.toList) (hq2 : ':' ∉ q.toList) (hqne : q ≠ "")
    (hi : ∀ e ∈ es, e.id ≠ "")
    (hnne : ∀ n ∈ Flat.namesOf fs, n ≠ "")
    (hsA : svcs.find? (·.url == A) = some ⟨A, SA⟩) (hsB : svcs.find? (·.url == B) = some ⟨B, SB⟩)
    (hroot : Spec.dlookup q (D.root "Query") = some (.list (es.map (fun e => Spec.DVal.ref e.id))))
    (hent : ∀ e ∈ es, D.entity? e.id = some e ∧ e.type = T)
    (href : Spec.eval c.schema D ⟨.query, "", [], [FlatList.QL T q fs]⟩ [] = some (.obj [(q, .arr (rs.map J.obj))])) :
    ∃ (data : List (String × J)) (rqA : Request) (batch : List Request) (calls : List Call),
      gateway c {} ⟨.query, "", [], [FlatList.QL T q fs]⟩ none (specDownstream svcs D)
        = .ok ⟨some data, [], calls⟩ ∧
      C02.SubrequestsOK svcs A B T fs
        (if (Flat.fsB fs).isEmpty then [] else FlatList.dedupIds (es.map (·.id))) rqA batch calls ∧
      (FlatList.dedupIds (es.map (·.id))).Nodup ∧
      (∀ i, i ∈ FlatList.dedupIds (es.map (·.id)) ↔ i ∈ es.map (·.id)) := by
  obtain ⟨ds, hg, -, -, -⟩ := FlatList.flat_list_one_hop_calls h svcs SA SB D es rs hq1 hq2 hqne hi hnne hsA hsB
    (C02.kindOf_some hs.kTB) hroot hent href
  obtain ⟨rqA, batch, hok⟩ := C02.flat_list_calls_ok h hs svcs hsA hsB (es.map (·.id))
  exact ⟨_, rqA, batch, _, hg, hok, FlatList.dedupIds_nodup _, FlatList.mem_dedupIds _⟩

/-- **The same for every downstream with well-formed answers**: `down` answers the root request
    with the list under `q` (element `j`: the string id `ids[j]` and the fields `aOf ids[j]`) and
    the ONE batch of lookups with `{node: {bOf i…}}` per distinct id `i`
    (`FlatList.GoodId` / `FlatList.GoodElem`: ids not empty; the keys of `bOf i` distinct and
    disjoint from `id` and `aOf i`'s; no `id` / `__typename` among them; elements not empty). -/
theorem C02_flat_list_subrequests_valid_any {c : PCtx} {A B T q : String} {fs : List Flat.FieldSpec}
    (h : Flat.Fam c A B T q fs) (svcs : List Svc) (SA SB : Schema) (hs : Flat.SvcFam c A B T q fs SA SB)
    (hsA : svcs.find? (·.url == A) = some ⟨A, SA⟩) (hsB : svcs.find? (·.url == B) = some ⟨B, SB⟩)
    (down : Downstream) (ids : List String) (aOf bOf : String → List (String × J))
    (hq1 : '#' ∉ q.toList) (hq2 : ':' ∉ q.toList)
    (hids : ∀ i ∈ ids, FlatList.GoodId aOf bOf i)
    (hA : down A [Flat.rqOf c (FlatList.rootStep A B T q fs) []] = .ok [FlatList.respA q ids aOf])
    (hB : Flat.fsB fs ≠ [] → ids ≠ [] →
      down B (FlatList.batchB c B T q (Flat.fsB fs) ids) = .ok (FlatList.answersB bOf ids))
    (hb0 : Flat.fsB fs = [] → ∀ i ∈ ids, bOf i = [])
    (hd : ∀ i ∈ ids, FlatList.GoodElem (aOf i ++ bOf i)) :
    ∃ (rqA : Request) (batch : List Request) (calls : List Call),
      gateway c {} ⟨.query, "", [], [FlatList.QL T q fs]⟩ none down
        = .ok ⟨some [(q, .arr (ids.map (fun i => J.obj (aOf i ++ bOf i))))], [], calls⟩ ∧
      C02.SubrequestsOK svcs A B T fs (if (Flat.fsB fs).isEmpty then [] else FlatList.dedupIds ids) rqA batch calls := by
  have hg := FlatList.stage_gateway h down ids aOf bOf hq1 hq2 hids hA hB hb0 hd
  obtain ⟨rqA, batch, hok⟩ := C02.flat_list_calls_ok h hs svcs hsA hsB ids
  exact ⟨rqA, batch, _, hg, hok⟩

/-! ## mutations -/

/-- **Every sub-request of a flat mutation is valid for its service — end to end.** For every
    operation `mutation { m₁ … mₙ }` of the family of `C06_flat_mutation_calls` (`Mut.Fam`: distinct
    leaf root fields, `mᵢ` routed to the service the table names, any number of services, any
    interleaving), service schemas as `Mut.SvcFam` says (each owning service has the mutation root
    `Mutation`, an object type declaring every selected field routed to it, as a leaf field without
    required arguments) and EVERY downstream that answers each batch with one object per request:
    `Exec.gateway` returns data, no errors, and every request of every call it made is `ValidFor`
    the schema of the service called, is sent as a `mutation`, declares no variables and carries
    none. (Which field goes where, exactly once: `C06_flat_mutation_calls`.) Concrete instance:
    `C02_flat_mutation_subrequests_valid_instance`. -/
theorem C02_flat_mutation_subrequests_valid {c : PCtx} {ms : List Mut.MSpec} (h : Mut.Fam c ms)
    (svcs : List Svc) (hs : Mut.SvcFam c ms svcs) (down : Downstream)
    (hdown : ∀ url batch, ∃ resps, down url batch = .ok resps ∧ resps.length = batch.length) :
    ∃ d calls, gateway c {} (Mut.op c ms) none down = .ok ⟨some d, [], calls⟩ ∧
      ∀ cl ∈ calls, ∀ rq ∈ cl.batch,
        C02.ValidFor (C02.schemaAt svcs cl.url) rq = true ∧
        rq.header.kind = .mutation ∧ rq.header.varDecls = [] ∧ rq.vars = [] := by
  obtain ⟨d, hg⟩ := C06_flat_mutation_calls_explicit h down hdown
  exact ⟨d, _, hg, C02.mut_calls_ok h hs⟩

/-! ## every downstream -/

/-- **One object, two owners — EVERY downstream.** Under `Flat.Fam` and `Flat.SvcFam` alone (no
    hypothesis on the data or on what the services answer): whenever the pipeline ends (`.ok res` —
    also with `data: null` and an error, in which case the model records no calls), every request
    `rq` of every call `cl` it made satisfies `C02.RequestOK`:
    * `valid`: `rq` is `ValidFor` the schema of the service at `cl.url`;
    * `form`: either `cl.url = A` and `rq` is a `query` with no variable declarations and no
      variables, or `cl.url = B` and `rq` is exactly
      `query($id: ID!) { node(id: $id) { ... on T { <B's fields> } } }` with
      `vars = [("id", i)]` for a non-empty string `i` (the id found in `A`'s answer, whatever it is);
    * `owner`: for every client-selected field `T.f`, `rq` selects it once if `cl.url` is the
      service the table routes `f` to, and not at all otherwise.
    How many lookups there are and for which ids depends on the answers; their validity does not. -/
theorem C02_flat_every_downstream {c : PCtx} {A B T q : String} {fs : List Flat.FieldSpec}
    (h : Flat.Fam c A B T q fs) (svcs : List Svc) (SA SB : Schema) (hs : Flat.SvcFam c A B T q fs SA SB)
    (hsA : svcs.find? (·.url == A) = some ⟨A, SA⟩) (hsB : svcs.find? (·.url == B) = some ⟨B, SB⟩)
    (down : Downstream) (res : GwResult)
    (hg : gateway c {} ⟨.query, "", [], [Flat.Q T q fs]⟩ none down = .ok res) :
    ∀ cl ∈ res.calls, ∀ rq ∈ cl.batch, C02.RequestOK svcs A B T fs cl.url rq :=
  C02.flat_every_downstream h hs svcs hsA hsB down res hg

/-- **A list of objects, two owners — EVERY downstream**: the same for `q : [T]`; every request
    of the batch of lookups is a `node` lookup for some non-empty id. -/
theorem C02_flat_list_every_downstream {c : PCtx} {A B T q : String} {fs : List Flat.FieldSpec}
    (h : Flat.Fam c A B T q fs) (svcs : List Svc) (SA SB : Schema) (hs : Flat.SvcFam c A B T q fs SA SB)
    (hsA : svcs.find? (·.url == A) = some ⟨A, SA⟩) (hsB : svcs.find? (·.url == B) = some ⟨B, SB⟩)
    (down : Downstream) (res : GwResult)
    (hg : gateway c {} ⟨.query, "", [], [FlatList.QL T q fs]⟩ none down = .ok res) :
    ∀ cl ∈ res.calls, ∀ rq ∈ cl.batch, C02.RequestOK svcs A B T fs cl.url rq :=
  C02.flat_list_every_downstream h hs svcs hsA hsB down res hg

/-- **Flat mutations — EVERY downstream**: whenever the pipeline ends, every request of every call
    is `ValidFor` the schema of the service called, a `mutation`, without variables. -/
theorem C02_flat_mutation_every_downstream {c : PCtx} {ms : List Mut.MSpec} (h : Mut.Fam c ms)
    (svcs : List Svc) (hs : Mut.SvcFam c ms svcs) (down : Downstream) (res : GwResult)
    (hg : gateway c {} (Mut.op c ms) none down = .ok res) :
    ∀ cl ∈ res.calls, ∀ rq ∈ cl.batch,
      C02.ValidFor (C02.schemaAt svcs cl.url) rq = true ∧
      rq.header.kind = .mutation ∧ rq.header.varDecls = [] ∧ rq.vars = [] :=
  C02.mut_every_downstream h hs down res hg

/-- **A mutation with an object-valued root field — EVERY downstream.** For every operation
    `mutation { m₁ … mₙ o { f₁ … fₖ } }` of the family of `C06_flat_followup_is_query` (`MutO.Fam`:
    n ≥ 0 leaf root fields with their owners; `o : T` routed to `A`, `T` a Node type, each `fⱼ` a
    leaf routed to `A` or `B`) and service schemas as `MutO.SvcFam` says: whenever the pipeline
    ends, every request `rq` of every call `cl` it made satisfies `C02.MutORequestOK`: it is
    `ValidFor` the schema of the service at `cl.url`, and it is EITHER a root request — a `mutation`
    without variables, which selects a field of `T` only at `A` (below `o`), then exactly `A`'s
    share, each once — OR, at `B`, a follow-up lookup: the QUERY
    `query($id: ID!) { node(id: $id) { ... on T { <B's fields> } } }` with `vars = [("id", i)]`,
    `i` a non-empty string, selecting exactly `B`'s share, each once. (A follow-up sent as a
    `query` is valid at `B` because `B`'s schema has a query root with `node`; as a `mutation` it
    would not be: `Mutation` declares no `node`.) -/
theorem C02_flat_followup_every_downstream {c : PCtx} {ms : List Mut.MSpec} {A B T o : String}
    {fs : List Flat.FieldSpec} (h : MutO.Fam c ms A B T o fs) (svcs : List Svc)
    (hs : MutO.SvcFam c ms A B T o fs svcs) (down : Downstream) (res : GwResult)
    (hg : gateway c {} (MutO.op c ms T o fs) none down = .ok res) :
    ∀ cl ∈ res.calls, ∀ rq ∈ cl.batch, C02.MutORequestOK svcs A B T fs cl.url rq :=
  C02.mutO_every_downstream h hs down res hg

/-- **The same with the call list spelled out**, for every downstream whose answers to the
    expected calls are well-formed (`MutO.Good`, as in `C06_flat_followup_is_query`): the calls are
    one root request per owning service (`MutO.rootCalls`) followed by — iff `B` owns a selected
    field of `T` — the ONE lookup for the id `i` found under `o`; every one of them satisfies
    `C02.MutORequestOK`. -/
theorem C02_flat_followup_subrequests_valid {c : PCtx} {ms : List Mut.MSpec} {A B T o : String}
    {fs : List Flat.FieldSpec} (h : MutO.Fam c ms A B T o fs) (svcs : List Svc)
    (hs : MutO.SvcFam c ms A B T o fs svcs) (down : Downstream) (i : String)
    (ho1 : '#' ∉ o.toList) (ho2 : ':' ∉ o.toList) (hone : o ≠ "") (hine : i ≠ "")
    (hg : MutO.Good c ms A B T o fs down i) :
    ∃ d calls, gateway c {} (MutO.op c ms T o fs) none down = .ok ⟨some d, [], calls⟩ ∧
      calls = MutO.rootCalls c ms A B T o fs ++ MutO.followUps c B T o fs i ∧
      ∀ cl ∈ calls, ∀ rq ∈ cl.batch, C02.MutORequestOK svcs A B T fs cl.url rq := by
  obtain ⟨d, hgw⟩ := MutO.stage_gateway h down i ho1 ho2 hone hine hg
  exact ⟨d, _, hgw, rfl, C02.mutO_every_downstream h hs down _ hgw⟩

/-! ## no invalid request is ever handed to a service -/

/-- **A validating front before the services changes nothing** — the four families. `GwResult.calls`
    records the calls of runs that END WELL; a run that ends in an error reports none. To cover every
    run: `C02.guardValid svcs down` is `down` behind a front that refuses (with a fault) any batch
    containing a request that is not `ValidFor` the schema of the service called. For every
    downstream `down`, `Exec.gateway` gives the SAME outcome (data, errors, calls or fault) with and
    without the front — so, for a `down` that never itself raises that fault, no batch with an
    invalid request is handed to a service at any point of any run. -/
theorem C02_flat_guarded {c : PCtx} {A B T q : String} {fs : List Flat.FieldSpec}
    (h : Flat.Fam c A B T q fs) (svcs : List Svc) (SA SB : Schema) (hs : Flat.SvcFam c A B T q fs SA SB)
    (hsA : svcs.find? (·.url == A) = some ⟨A, SA⟩) (hsB : svcs.find? (·.url == B) = some ⟨B, SB⟩)
    (down : Downstream) :
    gateway c {} ⟨.query, "", [], [Flat.Q T q fs]⟩ none (C02.guardValid svcs down)
      = gateway c {} ⟨.query, "", [], [Flat.Q T q fs]⟩ none down :=
  C02.flat_guarded h hs svcs hsA hsB down

theorem C02_flat_list_guarded {c : PCtx} {A B T q : String} {fs : List Flat.FieldSpec}
    (h : Flat.Fam c A B T q fs) (svcs : List Svc) (SA SB : Schema) (hs : Flat.SvcFam c A B T q fs SA SB)
    (hsA : svcs.find? (·.url == A) = some ⟨A, SA⟩) (hsB : svcs.find? (·.url == B) = some ⟨B, SB⟩)
    (down : Downstream) :
    gateway c {} ⟨.query, "", [], [FlatList.QL T q fs]⟩ none (C02.guardValid svcs down)
      = gateway c {} ⟨.query, "", [], [FlatList.QL T q fs]⟩ none down :=
  C02.flat_list_guarded h hs svcs hsA hsB down

theorem C02_flat_mutation_guarded {c : PCtx} {ms : List Mut.MSpec} (h : Mut.Fam c ms)
    (svcs : List Svc) (hs : Mut.SvcFam c ms svcs) (down : Downstream) :
    gateway c {} (Mut.op c ms) none (C02.guardValid svcs down) = gateway c {} (Mut.op c ms) none down :=
  C02.mut_guarded h hs down

theorem C02_flat_followup_guarded {c : PCtx} {ms : List Mut.MSpec} {A B T o : String}
    {fs : List Flat.FieldSpec} (h : MutO.Fam c ms A B T o fs) (svcs : List Svc)
    (hs : MutO.SvcFam c ms A B T o fs svcs) (down : Downstream) :
    gateway c {} (MutO.op c ms T o fs) none (C02.guardValid svcs down)
      = gateway c {} (MutO.op c ms T o fs) none down :=
  C02.mutO_guarded h hs down

/-! ## instances -/

namespace C02.Example
open PebblesVerif.Flat

def tStr : TypeRef := .named "String"
def idF : FieldDef := ⟨"id", [], .nonNull (.named "ID"), none, "", []⟩
/-- `type Animal { id: ID!  name: String  sound: String }` — `A`'s share -/
def animalA : TypeDef :=
  { name := "Animal", kind := .object, fields := [idF, ⟨"name", [], tStr, none, "", []⟩, ⟨"sound", [], tStr, none, "", []⟩] }
/-- service `A`: `type Query { q: ty }` and `A`'s share of `Animal` -/
def schemaAq (q : String) (ty : TypeRef) : Schema :=
  { types := [animalA, { name := "Query", kind := .object, fields := [⟨q, [], ty, none, "", []⟩] }], query := some "Query" }
/-- service `A` of the one-object federation: `type Query { animal: Animal }` -/
def schemaA1 : Schema := schemaAq "animal" (.named "Animal")
/-- service `A` of the list federation: `type Query { animals: [Animal] }` -/
def schemaAL : Schema := schemaAq "animals" (.list (.named "Animal"))
/-- `type Animal implements Node { id: ID!  age: String }` — `B`'s share -/
def animalB : TypeDef :=
  { name := "Animal", kind := .object, fields := [idF, ⟨"age", [], tStr, none, "", []⟩], interfaces := ["Node"] }
def nodeT : TypeDef := { name := "Node", kind := .interface, fields := [idF] }
def queryB : TypeDef :=
  { name := "Query", kind := .object,
    fields := [⟨"node", [⟨"id", .nonNull (.named "ID"), none, "", []⟩], .named "Node", none, "", []⟩] }
/-- service `B`: `type Query { node(id: ID!): Node }  interface Node { id: ID! }  type Animal implements Node …` -/
def schemaB : Schema := { types := [animalB, nodeT, queryB], possible := [("Node", ["Animal"])], query := some "Query" }
def svcs1 : List Svc := [⟨"A", schemaA1⟩, ⟨"B", schemaB⟩]
def svcsL : List Svc := [⟨"A", schemaAL⟩, ⟨"B", schemaB⟩]

/-- the three fields of `Flat.Example.fs` / `FlatList.Example.fs` (`age` at `B`; `name`, `sound` at `A`) -/
theorem fs_cases {P : FieldSpec → Prop} (h1 : P ("age", tStr, true)) (h2 : P ("name", tStr, false))
    (h3 : P ("sound", tStr, false)) : ∀ f ∈ Flat.Example.fs, P f := by
  intro f hf
  simp only [Flat.Example.fs, List.mem_cons, List.not_mem_nil, or_false] at hf
  rcases hf with rfl | rfl | rfl <;> assumption

theorem svcFam_of (ctx : PCtx) (q : String) (ty : TypeRef) (hty : ty.name = "Animal") :
    Flat.SvcFam ctx "A" "B" "Animal" q Flat.Example.fs (schemaAq q ty) schemaB where
  hTne := by decide
  rootA := rfl
  kQA := by rfl
  qA := ⟨⟨q, [], ty, none, "", []⟩, by simp [fieldOf, schemaAq, Schema.type?, animalA, TypeDef.field?], hty, rfl⟩
  kTA := by rfl
  idA := ⟨idF, by rfl, rfl, by rfl⟩
  fsA := fs_cases (by intro hb; cases hb) (fun _ => ⟨_, by rfl, rfl, by rfl⟩) (fun _ => ⟨_, by rfl, rfl, by rfl⟩)
  onlyA := fs_cases (fun _ => by rfl) (by intro hb; cases hb) (by intro hb; cases hb)
  rootB := rfl
  kQB := by rfl
  nodeB := ⟨_, _, by rfl, rfl, rfl, rfl, rfl⟩
  kNodeB := by rfl
  kTB := by rfl
  implB := ⟨_, by rfl, by rfl⟩
  idB := ⟨_, by rfl, rfl, by rfl⟩
  fsB := fs_cases (fun _ => ⟨_, by rfl, rfl, by rfl⟩) (by intro hb; cases hb) (by intro hb; cases hb)
  onlyB := fs_cases (by intro hb; cases hb) (fun _ => by rfl) (fun _ => by rfl)

theorem svcFam1 : Flat.SvcFam Flat.Example.ctx "A" "B" "Animal" "animal" Flat.Example.fs schemaA1 schemaB :=
  svcFam_of _ _ _ rfl

theorem svcFamL : Flat.SvcFam FlatList.Example.ctx "A" "B" "Animal" "animals" Flat.Example.fs schemaAL schemaB :=
  svcFam_of _ _ _ rfl

/-! the mutation federation of `Mut.Example` (`m1`, `m3` at `A`; `m2` at `B`), service by service -/
def mutationT (fs : List FieldDef) : TypeDef := { name := "Mutation", kind := .object, fields := fs }
def mschemaA : Schema :=
  { types := [mutationT [⟨"m1", [], Mut.Example.tInt, none, "", []⟩, ⟨"m3", [], Mut.Example.tInt, none, "", []⟩]],
    mutation := some "Mutation" }
def mschemaB : Schema :=
  { types := [Mut.Example.queryT, mutationT [⟨"m2", [], Mut.Example.tInt, none, "", []⟩]],
    query := some "Query", mutation := some "Mutation" }
def msvcs : List Svc := [⟨"A", mschemaA⟩, ⟨"B", mschemaB⟩]

theorem ms_cases {P : Mut.MSpec → Prop} (h1 : P ("m1", Mut.Example.tInt, "A")) (h2 : P ("m2", Mut.Example.tInt, "B"))
    (h3 : P ("m3", Mut.Example.tInt, "A")) : ∀ f ∈ Mut.Example.ms, P f := by
  intro f hf
  simp only [Mut.Example.ms, List.mem_cons, List.not_mem_nil, or_false] at hf
  rcases hf with rfl | rfl | rfl <;> assumption

theorem urls_cases {P : String → Prop} (hB : P "B") (hA : P "A") :
    ∀ u ∈ Mut.activeUrls Mut.Example.ctx Mut.Example.ms, P u := by
  have : Mut.activeUrls Mut.Example.ctx Mut.Example.ms = ["B", "A"] := by decide
  intro u hu
  rw [this] at hu
  simp only [List.mem_cons, List.not_mem_nil, or_false] at hu
  rcases hu with rfl | rfl <;> assumption

theorem msvcFam : Mut.SvcFam Mut.Example.ctx Mut.Example.ms msvcs where
  rootM := urls_cases rfl rfl
  kM := urls_cases (by rfl) (by rfl)
  own := ms_cases ⟨_, by rfl, rfl, by rfl⟩ ⟨_, by rfl, rfl, by rfl⟩ ⟨_, by rfl, rfl, by rfl⟩
  only := ms_cases
    (urls_cases (fun _ => by rfl) (fun hne => absurd rfl hne))
    (urls_cases (fun hne => absurd rfl hne) (fun _ => by rfl))
    (urls_cases (fun _ => by rfl) (fun hne => absurd rfl hne))

/-! the federation of `MutO.Example` (`m1`, `createAnimal`, `Animal.name`, `Animal.sound` at `A`;
    `m2`, `Animal.age` at `B`), service by service -/
def oschemaA : Schema :=
  { types := [animalA, mutationT [⟨"m1", [], MutO.Example.tInt, none, "", []⟩,
                                  ⟨"createAnimal", [], .named "Animal", none, "", []⟩]],
    mutation := some "Mutation" }
def oschemaB : Schema :=
  { types := [animalB, mutationT [⟨"m2", [], MutO.Example.tInt, none, "", []⟩], nodeT, queryB],
    possible := [("Node", ["Animal"])], query := some "Query", mutation := some "Mutation" }
def osvcs : List Svc := [⟨"A", oschemaA⟩, ⟨"B", oschemaB⟩]

theorem ofs_cases {P : FieldSpec → Prop} (h1 : P ("age", tStr, true)) (h2 : P ("name", tStr, false))
    (h3 : P ("sound", tStr, false)) : ∀ f ∈ MutO.Example.fs, P f := by
  intro f hf
  simp only [MutO.Example.fs, List.mem_cons, List.not_mem_nil, or_false] at hf
  rcases hf with rfl | rfl | rfl <;> assumption

theorem ourls_cases {P : String → Prop} (hB : P "B") (hA : P "A") :
    ∀ u ∈ MutO.urlsOf MutO.Example.ctx MutO.Example.ms "A" "Animal" "createAnimal" MutO.Example.fs, P u := by
  intro u hu
  rw [MutO.Example.urls_eq] at hu
  simp only [List.mem_cons, List.not_mem_nil, or_false] at hu
  rcases hu with rfl | rfl <;> assumption

theorem osvcFam : MutO.SvcFam MutO.Example.ctx MutO.Example.ms "A" "B" "Animal" "createAnimal" MutO.Example.fs osvcs where
  rootM := ourls_cases rfl rfl
  kM := ourls_cases (by rfl) (by rfl)
  own := by
    intro f hf
    simp only [MutO.Example.ms, List.mem_cons, List.not_mem_nil, or_false] at hf
    rcases hf with rfl | rfl
    · exact ⟨_, by rfl, rfl, by rfl⟩
    · exact ⟨_, by rfl, rfl, by rfl⟩
  oA := ⟨_, by rfl, rfl, rfl⟩
  tA :=
    { kTA := by rfl
      idA := ⟨idF, by rfl, rfl, by rfl⟩
      fsA := ofs_cases (by intro hb; cases hb) (fun _ => ⟨_, by rfl, rfl, by rfl⟩) (fun _ => ⟨_, by rfl, rfl, by rfl⟩)
      onlyA := ofs_cases (fun _ => by rfl) (by intro hb; cases hb) (by intro hb; cases hb) }
  tB := fun _ =>
    { hTne := by decide
      rootB := rfl
      kQB := by rfl
      nodeB := ⟨_, _, by rfl, rfl, rfl, rfl, rfl⟩
      kNodeB := by rfl
      kTB := by rfl
      implB := ⟨_, by rfl, by rfl⟩
      idB := ⟨_, by rfl, rfl, by rfl⟩
      fsB := ofs_cases (fun _ => ⟨_, by rfl, rfl, by rfl⟩) (by intro hb; cases hb) (by intro hb; cases hb)
      onlyB := ofs_cases (by intro hb; cases hb) (fun _ => by rfl) (fun _ => by rfl) }

end C02.Example

section Instances
open C02.Example

/-- non-vacuity: the two-service federation of `C01_flat_one_hop_instance` (`age` at `B`; `name`,
    `sound` at `A`) with service schemas that declare exactly their shares meets every hypothesis
    of `C02_flat_subrequests_valid` -/
theorem C02_flat_subrequests_valid_instance :
    ∃ (d : List (String × J)) (rqA : Request) (batch : List Request) (calls : List Call),
      gateway Flat.Example.ctx {} ⟨.query, "", [], [Flat.Q "Animal" "animal" Flat.Example.fs]⟩ none
          (specDownstream svcs1 Flat.Example.data) = .ok ⟨some [("animal", .obj d)], [], calls⟩ ∧
      C02.SubrequestsOK svcs1 "A" "B" "Animal" Flat.Example.fs
        (if (Flat.fsB Flat.Example.fs).isEmpty then [] else [Flat.Example.ent.id]) rqA batch calls ∧
      ∀ f ∈ Flat.Example.fs, ∃ rq, C02.selecting svcs1 "Animal" f.1 calls = [(if f.2.2 then "B" else "A", rq)] :=
  C02_flat_subrequests_valid Flat.Example.fam svcs1 schemaA1 schemaB svcFam1 Flat.Example.data Flat.Example.ent
    Flat.Example.expected (by decide) (by decide) (by decide) (by decide) (by decide) (by rfl) (by rfl)
    (by rfl) (by rfl) rfl Flat.Example.reference

/-- the list family applied to `animals = es` for any list drawn from the three entities of
    `FlatList.Example` -/
theorem C02.Example.listApplied (es : List Spec.Entity) (rs : List (List (String × J)))
    (hes : ∀ e ∈ es, e = FlatList.Example.e1 ∨ e = FlatList.Example.e2 ∨ e = FlatList.Example.e3)
    (href : Spec.eval FlatList.Example.ctx.schema (FlatList.Example.dataOf es) FlatList.Example.op []
      = some (.obj [("animals", .arr (rs.map J.obj))])) :
    ∃ (data : List (String × J)) (rqA : Request) (batch : List Request) (calls : List Call),
      gateway FlatList.Example.ctx {} FlatList.Example.op none (specDownstream svcsL (FlatList.Example.dataOf es))
        = .ok ⟨some data, [], calls⟩ ∧
      C02.SubrequestsOK svcsL "A" "B" "Animal" FlatList.Example.fs
        (if (Flat.fsB FlatList.Example.fs).isEmpty then [] else FlatList.dedupIds (es.map (·.id))) rqA batch calls ∧
      (FlatList.dedupIds (es.map (·.id))).Nodup ∧
      (∀ i, i ∈ FlatList.dedupIds (es.map (·.id)) ↔ i ∈ es.map (·.id)) :=
  C02_flat_list_subrequests_valid FlatList.Example.fam svcsL schemaAL schemaB svcFamL (FlatList.Example.dataOf es) es rs
    (by decide) (by decide) (by decide)
    (by intro e he; rcases hes e he with rfl | rfl | rfl <;> decide)
    (by decide) (by rfl) (by rfl) (by rfl)
    (by intro e he; rcases hes e he with rfl | rfl | rfl <;> exact ⟨by rfl, rfl⟩) href

/-- non-vacuity of `C02_flat_list_subrequests_valid`: `animals = [e1, e2, e3]` (three lookups in
    one batch) -/
theorem C02_flat_list_subrequests_valid_instance :
    ∃ (data : List (String × J)) (rqA : Request) (batch : List Request) (calls : List Call),
      gateway FlatList.Example.ctx {} FlatList.Example.op none
          (specDownstream svcsL (FlatList.Example.dataOf [FlatList.Example.e1, FlatList.Example.e2, FlatList.Example.e3]))
        = .ok ⟨some data, [], calls⟩ ∧
      C02.SubrequestsOK svcsL "A" "B" "Animal" FlatList.Example.fs
        [FlatList.Example.e1.id, FlatList.Example.e2.id, FlatList.Example.e3.id] rqA batch calls := by
  obtain ⟨data, rqA, batch, calls, hg, hok, -, -⟩ := C02.Example.listApplied
    [FlatList.Example.e1, FlatList.Example.e2, FlatList.Example.e3] _ (by simp) FlatList.Example.reference3
  exact ⟨data, rqA, batch, calls, hg, hok⟩

/-- non-vacuity with a REPEATED entity: `animals = [e1, e2, e1]` — two lookups for three elements -/
theorem C02_flat_list_subrequests_valid_instance_dup :
    ∃ (data : List (String × J)) (rqA : Request) (batch : List Request) (calls : List Call),
      gateway FlatList.Example.ctx {} FlatList.Example.op none
          (specDownstream svcsL (FlatList.Example.dataOf [FlatList.Example.e1, FlatList.Example.e2, FlatList.Example.e1]))
        = .ok ⟨some data, [], calls⟩ ∧
      C02.SubrequestsOK svcsL "A" "B" "Animal" FlatList.Example.fs
        [FlatList.Example.e1.id, FlatList.Example.e2.id] rqA batch calls := by
  obtain ⟨data, rqA, batch, calls, hg, hok, -, -⟩ := C02.Example.listApplied
    [FlatList.Example.e1, FlatList.Example.e2, FlatList.Example.e1] _ (by simp) FlatList.Example.referenceDup
  exact ⟨data, rqA, batch, calls, hg, hok⟩

/-- non-vacuity of `C02_flat_mutation_subrequests_valid`: `mutation { m1 m2 m3 }` with owners
    `A B A`, service schemas declaring exactly their shares -/
theorem C02_flat_mutation_subrequests_valid_instance :
    ∃ d calls, gateway Mut.Example.ctx {} (Mut.op Mut.Example.ctx Mut.Example.ms) none Mut.Example.downEmpty
        = .ok ⟨some d, [], calls⟩ ∧
      ∀ cl ∈ calls, ∀ rq ∈ cl.batch,
        C02.ValidFor (C02.schemaAt msvcs cl.url) rq = true ∧
        rq.header.kind = .mutation ∧ rq.header.varDecls = [] ∧ rq.vars = [] :=
  C02_flat_mutation_subrequests_valid Mut.Example.fam msvcs msvcFam Mut.Example.downEmpty Mut.Example.downEmpty_answers

/-- non-vacuity of `C02_flat_followup_subrequests_valid` (hence of `C02_flat_followup_every_downstream`):
    `mutation { m1 m2 createAnimal { age name sound } }` against the downstream of
    `C06_flat_followup_is_query_instance`; the three calls — `B` `mutation { m2 }`, `A`
    `mutation { m1 createAnimal { id name sound } }`, `B` `query($id: ID!) { node(id: $id) {…} }` —
    are all valid for the service called -/
theorem C02_flat_followup_subrequests_valid_instance :
    ∃ d calls, gateway MutO.Example.ctx {} MutO.Example.opEx none MutO.Example.down = .ok ⟨some d, [], calls⟩ ∧
      MutO.Example.summary calls
        = [("B", [(.mutation, ["m2"])]), ("A", [(.mutation, ["m1", "createAnimal"])]), ("B", [(.query, ["node"])])] ∧
      ∀ cl ∈ calls, ∀ rq ∈ cl.batch, C02.MutORequestOK osvcs "A" "B" "Animal" MutO.Example.fs cl.url rq := by
  obtain ⟨d, calls, hgw, hcalls, hok⟩ := C02_flat_followup_subrequests_valid MutO.Example.fam osvcs osvcFam
    MutO.Example.down "a#1" (by decide) (by decide) (by decide) (by decide) MutO.Example.good
  subst hcalls
  exact ⟨d, _, hgw, by decide, hok⟩

/-- non-vacuity of `C02_flat_every_downstream` / `C02_flat_list_every_downstream`: the example
    federations meet `Flat.Fam` and `Flat.SvcFam`; the remaining hypothesis (the pipeline ends) holds
    e.g. for the reference services (`C02_flat_subrequests_valid_instance`, two calls) and is
    exercised with invented ids and vanished entities by the `#guard`s below -/
theorem C02_flat_every_downstream_instance (down : Downstream) (res : GwResult)
    (hg : gateway Flat.Example.ctx {} ⟨.query, "", [], [Flat.Q "Animal" "animal" Flat.Example.fs]⟩ none down = .ok res) :
    ∀ cl ∈ res.calls, ∀ rq ∈ cl.batch, C02.RequestOK svcs1 "A" "B" "Animal" Flat.Example.fs cl.url rq :=
  C02_flat_every_downstream Flat.Example.fam svcs1 schemaA1 schemaB svcFam1 (by rfl) (by rfl) down res hg

theorem C02_flat_list_every_downstream_instance (down : Downstream) (res : GwResult)
    (hg : gateway FlatList.Example.ctx {} FlatList.Example.op none down = .ok res) :
    ∀ cl ∈ res.calls, ∀ rq ∈ cl.batch, C02.RequestOK svcsL "A" "B" "Animal" FlatList.Example.fs cl.url rq :=
  C02_flat_list_every_downstream FlatList.Example.fam svcsL schemaAL schemaB svcFamL (by rfl) (by rfl) down res hg

/-- non-vacuity of `C02_flat_guarded`: the example federation, every downstream -/
theorem C02_flat_guarded_instance (down : Downstream) :
    gateway Flat.Example.ctx {} ⟨.query, "", [], [Flat.Q "Animal" "animal" Flat.Example.fs]⟩ none (C02.guardValid svcs1 down)
      = gateway Flat.Example.ctx {} ⟨.query, "", [], [Flat.Q "Animal" "animal" Flat.Example.fs]⟩ none down :=
  C02_flat_guarded Flat.Example.fam svcs1 schemaA1 schemaB svcFam1 (by rfl) (by rfl) down

theorem C02_flat_list_guarded_instance (down : Downstream) :
    gateway FlatList.Example.ctx {} FlatList.Example.op none (C02.guardValid svcsL down)
      = gateway FlatList.Example.ctx {} FlatList.Example.op none down :=
  C02_flat_list_guarded FlatList.Example.fam svcsL schemaAL schemaB svcFamL (by rfl) (by rfl) down

/-- non-vacuity of `C02_flat_mutation_every_downstream` / `C02_flat_mutation_guarded`: `Mut.Example`,
    every downstream -/
theorem C02_flat_mutation_every_downstream_instance (down : Downstream) (res : GwResult)
    (hg : gateway Mut.Example.ctx {} (Mut.op Mut.Example.ctx Mut.Example.ms) none down = .ok res) :
    ∀ cl ∈ res.calls, ∀ rq ∈ cl.batch,
      C02.ValidFor (C02.schemaAt msvcs cl.url) rq = true ∧
      rq.header.kind = .mutation ∧ rq.header.varDecls = [] ∧ rq.vars = [] :=
  C02_flat_mutation_every_downstream Mut.Example.fam msvcs msvcFam down res hg

theorem C02_flat_mutation_guarded_instance (down : Downstream) :
    gateway Mut.Example.ctx {} (Mut.op Mut.Example.ctx Mut.Example.ms) none (C02.guardValid msvcs down)
      = gateway Mut.Example.ctx {} (Mut.op Mut.Example.ctx Mut.Example.ms) none down :=
  C02_flat_mutation_guarded Mut.Example.fam msvcs msvcFam down

/-- non-vacuity of `C02_flat_followup_every_downstream` / `C02_flat_followup_guarded`: `MutO.Example`,
    every downstream -/
theorem C02_flat_followup_every_downstream_instance (down : Downstream) (res : GwResult)
    (hg : gateway MutO.Example.ctx {} MutO.Example.opEx none down = .ok res) :
    ∀ cl ∈ res.calls, ∀ rq ∈ cl.batch, C02.MutORequestOK osvcs "A" "B" "Animal" MutO.Example.fs cl.url rq :=
  C02_flat_followup_every_downstream MutO.Example.fam osvcs osvcFam down res hg

theorem C02_flat_followup_guarded_instance (down : Downstream) :
    gateway MutO.Example.ctx {} MutO.Example.opEx none (C02.guardValid osvcs down)
      = gateway MutO.Example.ctx {} MutO.Example.opEx none down :=
  C02_flat_followup_guarded MutO.Example.fam osvcs osvcFam down

end Instances

/-! ## checks by evaluation (tests of the definitions, not obligations)

`ValidFor` and the pipeline evaluated on the instances — run by the evaluator at every build; they
fail the build if a definition or the model changes its answer. -/
namespace C02.Example

/-- are all requests of all calls valid for the service called? and: URL, number of requests per call -/
def allValid (svcs : List Svc) (r : G GwResult) : Option (Bool × List (String × Nat)) :=
  match r with
  | .ok g => some (g.calls.all (fun cl => cl.batch.all (fun rq => ValidFor (schemaAt svcs cl.url) rq)),
                   g.calls.map (fun cl => (cl.url, cl.batch.length)))
  | .error _ => none

def op1 : Op := ⟨.query, "", [], [Flat.Q "Animal" "animal" Flat.Example.fs]⟩

/-- a service `A` that invents ids and a service `B` that knows none of them -/
def downOdd : Downstream := fun url batch =>
  if url == "A" then
    .ok [[("animals", .arr [.obj [("id", .str "zz"), ("name", .null), ("sound", .null)],
                            .obj [("id", .str "y#y"), ("name", .null), ("sound", .null)]])]]
  else .ok (batch.map (fun _ => [("node", .null)]))

-- the reference services: one object; a list with a repeated entity (two lookups); mutations
#guard allValid svcs1 (gateway Flat.Example.ctx {} op1 none (specDownstream svcs1 Flat.Example.data))
  == some (true, [("A", 1), ("B", 1)])
#guard allValid svcsL (gateway FlatList.Example.ctx {} FlatList.Example.op none (specDownstream svcsL
    (FlatList.Example.dataOf [FlatList.Example.e1, FlatList.Example.e2, FlatList.Example.e1])))
  == some (true, [("A", 1), ("B", 2)])
#guard allValid msvcs (gateway Mut.Example.ctx {} (Mut.op Mut.Example.ctx Mut.Example.ms) none Mut.Example.downEmpty)
  == some (true, [("B", 1), ("A", 1)])
#guard allValid osvcs (gateway MutO.Example.ctx {} MutO.Example.opEx none MutO.Example.down)
  == some (true, [("B", 1), ("A", 1), ("B", 1)])
-- services that answer something else entirely: the requests sent are still valid
#guard allValid svcsL (gateway FlatList.Example.ctx {} FlatList.Example.op none downOdd)
  == some (true, [("A", 1), ("B", 2)])
-- a request is valid for its OWN service only: sent to the other one it fails
#guard allValid [⟨"A", schemaB⟩, ⟨"B", schemaA1⟩]
    (gateway Flat.Example.ctx {} op1 none (specDownstream svcs1 Flat.Example.data))
  == some (false, [("A", 1), ("B", 1)])

end C02.Example

/-! ## the predicate is not vacuous -/

namespace C02.Misrouted
open PebblesVerif.Flat C02.Example

/-- the routing table of `Flat.Example` with `sound` routed to `B` — a service that does NOT
    declare `Animal.sound` (`C02.Example.schemaB` declares `id` and `age` only) -/
def tum : Tum := [("Query", ⟨[("animal", "A")], false⟩), ("Animal", ⟨[("name", "A"), ("age", "B"), ("sound", "B")], true⟩)]
def ctx : PCtx := ⟨Flat.Example.merged, tum, .query, ""⟩
def fs : List FieldSpec := [("age", tStr, true), ("name", tStr, false), ("sound", tStr, true)]

theorem fam : Fam ctx "A" "B" "Animal" "animal" fs where
  hAB := by decide
  hAint := by decide
  hBint := by decide
  hqb := by simp [isBuiltinName]
  hqn := by decide
  hTroot := by decide
  hne := by decide
  hnd := by decide
  hfb := by simp [namesOf, fs, isBuiltinName]
  hfid := by decide
  hschemaT := ⟨Flat.Example.animalT, by rfl, rfl⟩
  hschemaQ := ⟨_, by rfl, rfl⟩
  tumQn := by rfl
  tumQq := by rfl
  tumTn := by rfl
  tumTid := by rfl
  tumTf := by decide
  hurlsA := by decide
  hurlsNd := by decide
  hkind := rfl
  hname := rfl

theorem reference : Spec.eval ctx.schema Flat.Example.data ⟨.query, "", [], [Q "Animal" "animal" fs]⟩ []
    = some (.obj [("animal", .obj Flat.Example.expected)]) := by rfl

end C02.Misrouted

/-- **`ValidFor` is not vacuous: a misrouted field makes an invalid sub-request.** The federation
    of `C02_flat_subrequests_valid_instance` with ONE change — the table routes `Animal.sound` to
    `B`, whose schema does not declare it (so `Flat.SvcFam` fails, everything else holds). The
    gateway model still answers (the model's services evaluate without validating), and among the
    requests it sent there is one — the follow-up
    `query($id: ID!) { node(id: $id) { ... on Animal { age sound } } }` to `B` — that FAILS
    `ValidFor` for the schema of the service it was sent to (decided by evaluation), while the
    request to `A` passes. -/
theorem C02_flat_invalid_if_misrouted :
    ∃ (d : List (String × J)) (rqA rqB : Request),
      gateway C02.Misrouted.ctx {} ⟨.query, "", [], [Flat.Q "Animal" "animal" C02.Misrouted.fs]⟩ none
          (specDownstream C02.Example.svcs1 Flat.Example.data)
        = .ok ⟨some [("animal", .obj d)], [], [⟨"A", [rqA]⟩, ⟨"B", [rqB]⟩]⟩ ∧
      C02.ValidFor (C02.schemaAt C02.Example.svcs1 "A") rqA = true ∧
      C02.ValidFor (C02.schemaAt C02.Example.svcs1 "B") rqB = false ∧
      C02.occOn (C02.schemaAt C02.Example.svcs1 "B") "Animal" "sound" rqB = 1 ∧
      C02.declares (C02.schemaAt C02.Example.svcs1 "B") "Animal" "sound" = false := by
  obtain ⟨d, hg, -⟩ := Flat.flat_one_hop_calls C02.Misrouted.fam C02.Example.svcs1 C02.Example.schemaA1
    C02.Example.schemaB Flat.Example.data Flat.Example.ent Flat.Example.expected (by decide) (by decide) (by decide)
    (by decide) (by decide) (by rfl) (by rfl) ⟨_, by rfl, rfl⟩ (by rfl) (by rfl) rfl C02.Misrouted.reference
  refine ⟨d, _, _, hg, ?_, ?_, ?_, ?_⟩
  · decide
  · decide
  · decide
  · decide

-- the same by evaluation of the whole pipeline (tests): the request to `B` is invalid, and behind
-- the validating front of `C02_flat_guarded` the run is refused instead of answered
#guard (match gateway C02.Misrouted.ctx {} ⟨.query, "", [], [Flat.Q "Animal" "animal" C02.Misrouted.fs]⟩ none
    (C02.guardValid C02.Example.svcs1 (specDownstream C02.Example.svcs1 Flat.Example.data)) with
  | .error (.panic m) => m == "invalid sub-request"
  | _ => false)
#guard C02.Example.allValid C02.Example.svcs1
    (gateway C02.Misrouted.ctx {} ⟨.query, "", [], [Flat.Q "Animal" "animal" C02.Misrouted.fs]⟩ none
      (specDownstream C02.Example.svcs1 Flat.Example.data))
  == some (false, [("A", 1), ("B", 1)])

/-! ### the open finding `variable-named-id`, seen by the predicate -/

namespace C02.VarNamedId
open PebblesVerif.Flat C02.Example

def ageArgs : List ArgDef := [⟨"unit", tStr, none, "", []⟩]
def animalM : TypeDef :=
  { name := "Animal", kind := .object,
    fields := [idF, ⟨"name", [], tStr, none, "", []⟩, ⟨"age", ageArgs, tStr, none, "", []⟩] }
def merged : Schema :=
  { types := [animalM, { name := "Query", kind := .object, fields := [⟨"animal", [], .named "Animal", none, "", []⟩] }],
    query := some "Query" }
/-- service `B`: `type Animal implements Node { id: ID!  age(unit: String): String }` -/
def animalB : TypeDef :=
  { name := "Animal", kind := .object, fields := [idF, ⟨"age", ageArgs, tStr, none, "", []⟩], interfaces := ["Node"] }
def schemaB : Schema := { types := [animalB, nodeT, queryB], possible := [("Node", ["Animal"])], query := some "Query" }
def tum : Tum := [("Query", ⟨[("animal", "A")], false⟩), ("Animal", ⟨[("name", "A"), ("age", "B")], true⟩)]
def ctx : PCtx := ⟨merged, tum, .query, ""⟩
def ageSel : Sel := .field "age" "age" [⟨"unit", .var "id" "String"⟩] [] tStr ageArgs []
/-- the client operation `query($id: String) { animal { name age(unit: $id) } }` — a client
    variable that happens to be called `id` -/
def op : Op :=
  ⟨.query, "", [⟨"id", tStr, none⟩], [.field "animal" "animal" [] [] (.named "Animal") [] [leaf "name" tStr, ageSel]]⟩
/-- the child step the planner model builds for it: `node(id: $id) { ... on Animal { age(unit: $id) } }` at `B` -/
def stepB : Step := .mk "B" "Animal" (convertToNodeQuery "Animal" [ageSel]) ["animal"] []

-- (a test, by the evaluator) `stepB` IS the child step of the model's plan for `op`
#guard (match plan ctx op with
  | .ok ([.mk _ _ _ _ [child]], _) => child.url == "B" && queryKey ctx child == queryKey ctx stepB
  | _ => false)

end C02.VarNamedId

/-- **`ValidFor` sees the open finding `C02-variable-named-id`.** For the client operation
    `query($id: String) { animal { name age(unit: $id) } }` (`age` routed to `B`) the follow-up the
    model builds is `query($id: String) { node(id: $id) { ... on Animal { age(unit: $id) } } }`: the
    header synthesised from the argument positions declares `$id` ONCE, with the type of the LAST
    position walked (`String`), and the request uses it in `node(id:)`, a position of type `ID!`.
    The request fails `ValidFor` for `B`'s schema, which declares everything it selects — the
    defect the harness reports on the real gateway (known finding, class `variable-named-id`) is a
    violation of this predicate on the model. -/
theorem C02_validFor_rejects_variable_named_id :
    (header C02.VarNamedId.ctx C02.VarNamedId.stepB).varDecls = ["$id: String"] ∧
    C02.ValidFor C02.VarNamedId.schemaB (requestOf C02.VarNamedId.ctx C02.VarNamedId.stepB [("id", .str "x")]) = false ∧
    C02.declares C02.VarNamedId.schemaB "Animal" "age" = true := by
  refine ⟨?_, ?_, ?_⟩ <;> decide

end PebblesVerif
