import PebblesVerif.Model.IfaceSplit
/-!
# C02 — fragments of a spread interface selection name only types the receiving service declares

`formatSelectionSetForInterface` emits one inline fragment per possible type of the interface. The
theorems are about `Model/IfaceSplit.lean`, for every list of services, every list of possible types
and every receiving service; `C02_iface_facts` ties the two parameters to the regenerated facts of
the source.
-/
namespace PebblesVerif.C02Iface
open PebblesVerif PebblesVerif.Model.IfaceSplit

/-- the tie: `SetFromSchema` records the declaring services and the fragment loop consults them -/
theorem C02_iface_facts :
    Gen.IfaceSplit.recordsDeclaring = true ∧ Gen.IfaceSplit.skipsUndeclared = true := by decide

/-- does the service at `loc` declare `t`? -/
def declares (inputs : List Input) (loc t : String) : Prop :=
  ∃ i ∈ inputs, i.url = loc ∧ i.types.contains t = true

/-- the urls recorded for `t` -/
def urlsOf (inputs : List Input) (t : String) : List String :=
  (inputs.filter (fun i => i.types.contains t)).map (·.url)

theorem declaredOf_true (inputs : List Input) (t : String) :
    declaredOf true inputs t = if (urlsOf inputs t).isEmpty then none else some (urlsOf inputs t) := rfl

theorem contains_urls {inputs : List Input} {t loc : String} :
    (urlsOf inputs t).contains loc = true ↔ declares inputs loc t := by
  simp only [urlsOf, List.contains_iff_mem, List.mem_map, List.mem_filter, declares]
  constructor
  · rintro ⟨i, ⟨hi, ht⟩, hu⟩; exact ⟨i, hi, hu, ht⟩
  · rintro ⟨i, hi, hu, ht⟩; exact ⟨i, ⟨hi, ht⟩, hu⟩

theorem urls_empty {inputs : List Input} {t : String} (he : (urlsOf inputs t).isEmpty = true) :
    ∀ i ∈ inputs, i.types.contains t = false := by
  intro i hi
  cases hc : i.types.contains t with
  | false => rfl
  | true =>
    have hm : i.url ∈ urlsOf inputs t := List.mem_map.mpr ⟨i, List.mem_filter.mpr ⟨hi, hc⟩, rfl⟩
    cases hu : urlsOf inputs t with
    | nil => rw [hu] at hm; cases hm
    | cons _ _ => rw [hu] at he; cases he

/-- **no fragment on an undeclared type.** Every implementation that gets a fragment in the
    sub-request for `loc` is declared by the service at `loc`, or by no service the table knows of
    (a type without any entry: nothing is recorded, the fragment is kept as before the repair). -/
theorem C02_iface_fragments_declared (inputs : List Input) (defs : List String) (loc t : String)
    (ht : t ∈ fragmentTypes Gen.IfaceSplit.skipsUndeclared (declaredOf Gen.IfaceSplit.recordsDeclaring inputs) defs loc) :
    declares inputs loc t ∨ ∀ i ∈ inputs, i.types.contains t = false := by
  have hf := C02_iface_facts
  rw [hf.1, hf.2] at ht
  have hk := (List.mem_filter.mp ht).2
  by_cases he : (urlsOf inputs t).isEmpty = true
  · exact Or.inr (urls_empty he)
  · left
    simp only [isDeclaredBy, declaredOf_true, he, Bool.false_eq_true, if_false, Bool.true_and, Bool.not_not] at hk
    exact contains_urls.mp hk

/-- **nothing declared is lost.** An implementation the receiving service declares always gets its
    fragment — whatever the two facts say. -/
theorem C02_iface_fragments_complete (skips records : Bool) (inputs : List Input) (defs : List String)
    (loc t : String) (hd : t ∈ defs) (hl : declares inputs loc t) :
    t ∈ fragmentTypes skips (declaredOf records inputs) defs loc := by
  refine List.mem_filter.mpr ⟨hd, ?_⟩
  cases records with
  | false => simp [declaredOf, isDeclaredBy]
  | true =>
    have hc := contains_urls.mpr hl
    have hne : (urlsOf inputs t).isEmpty = false := by
      cases h : urlsOf inputs t with
      | nil => rw [h] at hc; cases hc
      | cons _ _ => rfl
    simp only [isDeclaredBy, declaredOf_true, hne, Bool.false_eq_true, if_false, hc]
    cases skips <;> rfl

/-- the order of the fragments is the order of the possible types -/
theorem C02_iface_fragments_sublist (skips : Bool) (d : Declared) (defs : List String) (loc : String) :
    (fragmentTypes skips d defs loc).Sublist defs := List.filter_sublist

/-! ## before the repair, and non-vacuity -/

def svcA : Input := { url := "A", types := ["Query", "Book"] }
def svcB : Input := { url := "B", types := ["Query", "Film"] }

/-- the repaired tree: the sub-request for A asks about `Book` only, the one for B about `Film` only -/
example : fragmentTypes true (declaredOf true [svcA, svcB]) ["Book", "Film"] "A" = ["Book"]
    ∧ fragmentTypes true (declaredOf true [svcA, svcB]) ["Book", "Film"] "B" = ["Film"] := by decide

/-- before the repair (either fact false) the sub-request for A carried `... on Film`, a type A's
    schema does not declare: the `Unknown type "Film"` the pinned cases of the harness replay -/
theorem C02_iface_before_repair :
    "Film" ∈ fragmentTypes false (declaredOf true [svcA, svcB]) ["Book", "Film"] "A"
    ∧ "Film" ∈ fragmentTypes true (declaredOf false [svcA, svcB]) ["Book", "Film"] "A"
    ∧ ¬ declares [svcA, svcB] "A" "Film" := by
  refine ⟨by decide, by decide, ?_⟩
  rintro ⟨i, hi, hu, ht⟩
  simp only [List.mem_cons, List.mem_nil_iff, or_false] at hi
  rcases hi with rfl | rfl
  · simp [svcA] at ht
  · simp [svcB] at hu

end PebblesVerif.C02Iface
