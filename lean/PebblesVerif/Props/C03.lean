import PebblesVerif.Proofs.Merge
/-!
# C03 — the merged schema is exactly the union of the service schemas

About `mergeSchema` (Model/Merge.lean): the schema `ExtendMergerFunc.Merge` hands to the
formatter, for EVERY list of inputs (any number of services, any order). The print + reload
through gqlparser is outside the model; the correspondence run compares after it.
`facts` are regenerated from the source on every run; the theorems are proved for the repaired
tree (`C03_facts`), the negative witnesses are evaluated on the tree as first read (`original`).
-/
namespace PebblesVerif.Merge
open PebblesVerif PebblesVerif.SchemaUnion
open PebblesVerif.Gen.Merge

/-- the source has the shape the model was written for, with repairs 0001–0005 applied -/
theorem C03_facts : facts = expected := by decide

/-- all definitions named `Node` across the inputs have the same items -/
def NodeAgree (ins : List MergeInput) : Prop :=
  ∀ i ∈ ins, ∀ j ∈ ins, ∀ x ∈ i.schema.types, ∀ y ∈ j.schema.types,
    x.name = nodeInterfaceName → y.name = nodeInterfaceName → Covers x y

instance (d r : TypeDef) : Decidable (Covers d r) := by unfold Covers; infer_instance
instance (ins : List MergeInput) : Decidable (NodeAgree ins) := by unfold NodeAgree; infer_instance
instance (S : Schema) : Decidable (RootsAreObjects S) := by unfold RootsAreObjects; infer_instance
instance (S : Schema) : Decidable (TypesNodup S) := by unfold TypesNodup; infer_instance
instance (l : List Schema) : Decidable (DirectivesAgree l) := by unfold DirectivesAgree; infer_instance
instance (l : List Schema) (R : Schema) : Decidable (SchemaUnion.Superset l R) := by unfold SchemaUnion.Superset; infer_instance
instance {ε α : Type} (x : Except ε α) (P : α → Prop) [∀ a, Decidable (P a)] : Decidable (∃ a, x = .ok a ∧ P a) :=
  match x with
  | .ok a => if h : P a then isTrue ⟨a, rfl, h⟩ else isFalse (fun ⟨b, hb, hp⟩ => by cases hb; exact h hp)
  | .error _ => isFalse (fun ⟨_, hb, _⟩ => by cases hb)

theorem nodeAgree_inInputs {i0 : MergeInput} {rest : List MergeInput} (h : NodeAgree (i0 :: rest))
    {d x : TypeDef} (hd : InInputs (i0 :: rest) d) (hx : x ∈ i0.schema.types ∨ InInputs rest x)
    (hdn : d.name = nodeInterfaceName) (hxn : x.name = nodeInterfaceName) : Covers d x := by
  obtain ⟨i, hi, hdi⟩ := hd
  rcases hx with hx | ⟨j, hj, hxj⟩
  · exact h i hi i0 List.mem_cons_self d hdi x hx hdn hxn
  · exact h i hi j (List.mem_cons_of_mem _ hj) d hdi x hxj hdn hxn

/-- what `mergeSchema` is made of, once it succeeded -/
theorem mergeSchema_ok {i0 : MergeInput} {rest : List MergeInput} {R : Schema}
    (h : mergeSchema E (i0 :: rest) = .ok R) :
    ∃ types, foldInputs E i0.schema.types i0.schema i0.schema rest = .ok types ∧
      R.types = refillUnions (mergePossibleTypes ((i0 :: rest).map (·.schema)) types) types ∧
      R.directives = mergeDirectives ((i0 :: rest).map (·.schema)) := by
  simp only [mergeSchema, bind, Except.bind, pure, Except.pure] at h
  split at h
  · cases h
  · rename_i types ht
    cases h
    exact ⟨types, ht, rfl, rfl⟩

/-
FULL STATEMENT (false of the code, see `C03_superset_false_node`, `C03_superset_false_directive`):
  theorem C03_superset (h : mergeSchema facts ins = .ok R) (hroot : ∀ i ∈ ins, RootsAreObjects i.schema) :
      SchemaUnion.Superset (ins.map (·.schema)) R
-/

/-- C03, superset: every type, field (result type, default), argument (type, default), enum value,
    union member, implemented interface and directive definition of every input is in the merged
    schema — provided the services agree on `Node` itself and on same-named directive
    definitions (the two open findings). `RootsAreObjects` is a fact of every loaded schema. -/
theorem C03_superset_partial (ins : List MergeInput) (R : Schema) (h : mergeSchema facts ins = .ok R)
    (hroot : ∀ i ∈ ins, RootsAreObjects i.schema) (hnode : NodeAgree ins)
    (hdir : DirectivesAgree (ins.map (·.schema))) : SchemaUnion.Superset (ins.map (·.schema)) R := by
  rw [C03_facts] at h
  cases ins with
  | nil => cases h
  | cons i0 rest =>
    obtain ⟨types, ht, hR, hD⟩ := mergeSchema_ok h
    have IF := foldInputs_spec rest _ _ _ _ ht (fun i hi => hroot i (List.mem_cons_of_mem _ hi))
    constructor
    · intro S hS d hd hb it hit
      obtain ⟨i, hi, rfl⟩ := List.mem_map.mp hS
      have : ∃ r ∈ types, Covers d r := by
        rcases List.mem_cons.mp hi with rfl | hi
        · exact IF.keeps d hd
        · apply IF.adds i hi d hd hb
          intro hN x hx hxN
          exact nodeAgree_inInputs hnode ⟨i, List.mem_cons_of_mem _ hi, hd⟩ hx hN hxN
      obtain ⟨r, hr, hc⟩ := this
      rw [hR]
      simp only [typesItems, List.mem_flatMap]
      exact ⟨_, List.mem_map_of_mem (f := fun d => if d.kind == .union && d.members.isEmpty then
          { d with members := assocGet (mergePossibleTypes ((i0 :: rest).map (·.schema)) types) d.name } else d) hr,
        refill_covers _ r it (hc it hit)⟩
    · intro S hS dd hdd
      rw [hD]
      unfold mergeDirectives
      apply mergeDirectives_keeps
      · intro S' hS' d' hd' hn
        exact hdir S' hS' S hS d' hd' dd hdd hn
      · exact Or.inr ⟨S, hS, hdd⟩

/-- C03, nothing invented: every item of the merged schema is an item of some input (a member of
    a refilled "broken" union comes from some input's `PossibleTypes` of that union), every
    directive definition is some input's. Full. -/
theorem C03_no_invention (ins : List MergeInput) (R : Schema) (h : mergeSchema facts ins = .ok R)
    (hroot : ∀ i ∈ ins, RootsAreObjects i.schema) : NoInvention (ins.map (·.schema)) R := by
  rw [C03_facts] at h
  cases ins with
  | nil => cases h
  | cons i0 rest =>
    obtain ⟨types, ht, hR, hD⟩ := mergeSchema_ok h
    have IF := foldInputs_spec rest _ _ _ _ ht (fun i hi => hroot i (List.mem_cons_of_mem _ hi))
    constructor
    · intro it hit
      rw [hR] at hit
      simp only [typesItems, List.mem_flatMap] at hit
      obtain ⟨r', hr', hit'⟩ := hit
      obtain ⟨d, hd, rfl⟩ := mem_refillUnions hr'
      rcases refill_items _ d it hit' with hi | ⟨m, rfl, hm⟩
      · left
        rcases IF.noInv d hd it hi with ⟨d0, hd0, hi0⟩ | ⟨d0, ⟨j, hj, hdj⟩, hi0⟩
        · exact ⟨i0.schema, by simp, by simp only [typesItems, List.mem_flatMap]; exact ⟨d0, hd0, hi0⟩⟩
        · exact ⟨j.schema, List.mem_map_of_mem (List.mem_cons_of_mem _ hj),
            by simp only [typesItems, List.mem_flatMap]; exact ⟨d0, hdj, hi0⟩⟩
      · right
        exact ⟨d.name, m, rfl, mem_mergePossibleTypes hm⟩
    · intro dd hdd
      rw [hD] at hdd
      unfold mergeDirectives at hdd
      rcases mergeDirectives_noInv _ _ _ hdd with h' | h'
      · cases h'
      · exact h'

end PebblesVerif.Merge
