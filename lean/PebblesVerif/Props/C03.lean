import PebblesVerif.Proofs.MergeTop
/-!
# C03 — the merged schema is exactly the union of the service schemas

About `mergeSchema` (Model/Merge.lean): the schema `ExtendMergerFunc.Merge` hands to the
formatter, for EVERY list of inputs (any number of services, any order). The print + reload
through gqlparser is outside the model; the correspondence run compares after it.
`facts` are regenerated from the source on every run; the theorems are proved for the repaired
tree (`C03_facts`), the negative witnesses are evaluated on the tree as first read (`original`).
-/
namespace PebblesVerif.Merge
open PebblesVerif PebblesVerif.SchemaUnion
open PebblesVerif.Gen.Merge

/-- the source has the shape the model was written for, with repairs 0001–0005 applied -/
theorem C03_facts : facts = expected := by decide

/-
FULL STATEMENT (false of the code, see `C03_superset_false_node`, `C03_superset_false_directive`):
  theorem C03_superset (h : mergeSchema facts ins = .ok R) (hroot : ∀ i ∈ ins, RootsAreObjects i.schema) :
      SchemaUnion.Superset (ins.map (·.schema)) R
-/

/-- C03, superset: every type, field (result type, default), argument (type, default), enum value,
    union member, implemented interface and directive definition of every input is in the merged
    schema — provided the services agree on `Node` itself and on same-named directive
    definitions (the two open findings). `RootsAreObjects` is a fact of every loaded schema. -/
theorem C03_superset_partial (ins : List MergeInput) (R : Schema) (h : mergeSchema facts ins = .ok R)
    (hroot : ∀ i ∈ ins, RootsAreObjects i.schema) (hnode : NodeAgree ins)
    (hdir : DirectivesAgree (ins.map (·.schema))) : SchemaUnion.Superset (ins.map (·.schema)) R := by
  rw [C03_facts] at h
  exact superset_E ins R h hroot hnode hdir

/-- C03, nothing invented: every item of the merged schema is an item of some input (a member of
    a refilled "broken" union comes from some input's `PossibleTypes` of that union), every
    directive definition is some input's. Full. -/
theorem C03_no_invention (ins : List MergeInput) (R : Schema) (h : mergeSchema facts ins = .ok R)
    (hroot : ∀ i ∈ ins, RootsAreObjects i.schema) : NoInvention (ins.map (·.schema)) R := by
  rw [C03_facts] at h
  exact noInvention_E ins R h hroot

/-- C03, Node types: a type that some service declares as an object implementing `Node` appears
    exactly once in the merged schema, as an object implementing `Node`, and its fields (name,
    result type, default) are exactly the fields the services declare on it. Full (the name is
    not `Node` itself and not a `__…` name; `TypesNodup` is a fact of every loaded schema). -/
theorem C03_node_union (ins : List MergeInput) (R : Schema) (h : mergeSchema facts ins = .ok R)
    (hroot : ∀ i ∈ ins, RootsAreObjects i.schema) (hnd : ∀ i ∈ ins, TypesNodup i.schema)
    (T : String) (hb : isBuiltinName T = false) (hT : T ≠ nodeInterfaceName)
    (i : MergeInput) (hi : i ∈ ins) (d : TypeDef) (hd : d ∈ i.schema.types) (hdn : d.name = T)
    (hdk : d.kind = .object) (hdN : implementsNode d = true) :
    ∃ r ∈ R.types, r.name = T ∧ r.kind = .object ∧ implementsNode r = true ∧
      (R.types.map (·.name)).count T = 1 ∧
      (∀ j ∈ ins, ∀ d' ∈ j.schema.types, d'.name = T → ∀ f ∈ d'.fields, isBuiltinName f.name = false →
        ∃ g ∈ r.fields, g.name = f.name ∧ g.type = f.type ∧ g.default = f.default) ∧
      (∀ g ∈ r.fields, isBuiltinName g.name = false →
        ∃ j ∈ ins, ∃ d' ∈ j.schema.types, d'.name = T ∧ ∃ f ∈ d'.fields, f.name = g.name ∧ f.type = g.type ∧ f.default = g.default) := by
  rw [C03_facts] at h
  exact nodeUnion_E ins R h hroot hnd T hb hT i hi d hd hdn hdk hdN

/-! ## the full statement is false of the code: witnesses (evaluated by the kernel) -/

/-- NEGATION of the full statement, repaired tree: two services with different `Node` interfaces
    are accepted and the later one's `Node.rev` is gone (open finding C03-node-def-differs) -/
theorem C03_superset_false_node : SupersetFailsAt expected W.nodeDefs ∧ DirectivesAgree (W.nodeDefs.map (·.schema)) := by
  decide

/-- NEGATION of the full statement, repaired tree: one directive name with two definitions is
    accepted and one definition is gone (open finding C03-directive-conflict) -/
theorem C03_superset_false_directive : SupersetFailsAt expected W.dirConflict ∧ NodeAgree W.dirConflict := by
  decide

/-- the tree as first read: `Query.node` is dropped when the later service lacks it (all
    hypotheses of `C03_superset_partial` hold) — repaired by 0002-root-node-field.patch -/
theorem C03_superset_false_original :
    SupersetFailsAt original W.nodeLost ∧ NodeAgree W.nodeLost ∧ DirectivesAgree (W.nodeLost.map (·.schema)) := by
  decide

/-- the tree as first read: `T.id` is dropped from `T{id,x}` + `T{x}` — repaired by
    0004-keep-id-field.patch (the pair is rejected now) -/
theorem C03_superset_false_original_id :
    SupersetFailsAt original W.idLost ∧ NodeAgree W.idLost ∧ DirectivesAgree (W.idLost.map (·.schema)) := by
  decide

/-- non-vacuity: the hypotheses of the theorems above hold of a mergeable pair (a Node type split
    field-wise, a shared value type), and of the `Query.node` witness on the repaired tree -/
example : ∃ R, mergeSchema expected W.plain = .ok R ∧
    ((∀ i ∈ W.plain, RootsAreObjects i.schema) ∧ (∀ i ∈ W.plain, TypesNodup i.schema) ∧ NodeAgree W.plain ∧
      DirectivesAgree (W.plain.map (·.schema)) ∧ SchemaUnion.Superset (W.plain.map (·.schema)) R) := by decide
example : ∃ R, mergeSchema expected W.nodeLost = .ok R ∧ SchemaUnion.Superset (W.nodeLost.map (·.schema)) R := by decide

end PebblesVerif.Merge
