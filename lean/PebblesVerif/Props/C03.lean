import PebblesVerif.Proofs.Merge
import PebblesVerif.Proofs.MergeWitness
/-!
# C03 — the merged schema is exactly the union of the service schemas

About `mergeSchema` (Model/Merge.lean): the schema `ExtendMergerFunc.Merge` hands to the
formatter, for EVERY list of inputs (any number of services, any order). The print + reload
through gqlparser is outside the model; the correspondence run compares after it.
`facts` are regenerated from the source on every run; the theorems are proved for the repaired
tree (`C03_facts`), the negative witnesses are evaluated on the tree as first read (`original`).
-/
namespace PebblesVerif.Merge
open PebblesVerif PebblesVerif.SchemaUnion
open PebblesVerif.Gen.Merge

/-- the source has the shape the model was written for, with repairs 0001–0005 applied -/
theorem C03_facts : facts = expected := by decide

/-- all definitions named `Node` across the inputs have the same items -/
def NodeAgree (ins : List MergeInput) : Prop :=
  ∀ i ∈ ins, ∀ j ∈ ins, ∀ x ∈ i.schema.types, ∀ y ∈ j.schema.types,
    x.name = nodeInterfaceName → y.name = nodeInterfaceName → Covers x y

instance (d r : TypeDef) : Decidable (Covers d r) := by unfold Covers; infer_instance
instance (ins : List MergeInput) : Decidable (NodeAgree ins) := by unfold NodeAgree; infer_instance
instance (S : Schema) : Decidable (RootsAreObjects S) := by unfold RootsAreObjects; infer_instance
instance (S : Schema) : Decidable (TypesNodup S) := by unfold TypesNodup; infer_instance
instance (l : List Schema) : Decidable (DirectivesAgree l) := by unfold DirectivesAgree; infer_instance
instance (l : List Schema) (R : Schema) : Decidable (SchemaUnion.Superset l R) := by unfold SchemaUnion.Superset; infer_instance
instance {ε α : Type} (x : Except ε α) (P : α → Prop) [∀ a, Decidable (P a)] : Decidable (∃ a, x = .ok a ∧ P a) :=
  match x with
  | .ok a => if h : P a then isTrue ⟨a, rfl, h⟩ else isFalse (fun ⟨b, hb, hp⟩ => by cases hb; exact h hp)
  | .error _ => isFalse (fun ⟨_, hb, _⟩ => by cases hb)

theorem nodeAgree_inInputs {i0 : MergeInput} {rest : List MergeInput} (h : NodeAgree (i0 :: rest))
    {d x : TypeDef} (hd : InInputs (i0 :: rest) d) (hx : x ∈ i0.schema.types ∨ InInputs rest x)
    (hdn : d.name = nodeInterfaceName) (hxn : x.name = nodeInterfaceName) : Covers d x := by
  obtain ⟨i, hi, hdi⟩ := hd
  rcases hx with hx | ⟨j, hj, hxj⟩
  · exact h i hi i0 List.mem_cons_self d hdi x hx hdn hxn
  · exact h i hi j (List.mem_cons_of_mem _ hj) d hdi x hxj hdn hxn

/-- what `mergeSchema` is made of, once it succeeded -/
theorem mergeSchema_ok {i0 : MergeInput} {rest : List MergeInput} {R : Schema}
    (h : mergeSchema E (i0 :: rest) = .ok R) :
    ∃ types, foldInputs E i0.schema.types i0.schema i0.schema rest = .ok types ∧
      R.types = refillUnions (mergePossibleTypes ((i0 :: rest).map (·.schema)) types) types ∧
      R.directives = mergeDirectives ((i0 :: rest).map (·.schema)) := by
  simp only [mergeSchema, bind, Except.bind, pure, Except.pure] at h
  split at h
  · cases h
  · rename_i types ht
    cases h
    exact ⟨types, ht, rfl, rfl⟩

/-- every non-`__` definition of every input is covered by a definition of the result (for a
    definition named `Node`: if the inputs agree on `Node`) -/
theorem covered {ins : List MergeInput} {R : Schema} (h : mergeSchema E ins = .ok R)
    (hroot : ∀ i ∈ ins, RootsAreObjects i.schema) {i : MergeInput} (hi : i ∈ ins) {d : TypeDef}
    (hd : d ∈ i.schema.types) (hb : isBuiltinName d.name = false)
    (hnode : d.name = nodeInterfaceName → NodeAgree ins) : ∃ r ∈ R.types, Covers d r := by
  cases ins with
  | nil => cases h
  | cons i0 rest =>
    obtain ⟨types, ht, hR, _⟩ := mergeSchema_ok h
    have IF := foldInputs_spec rest _ _ _ _ ht (fun i hi => hroot i (List.mem_cons_of_mem _ hi))
    have : ∃ r ∈ types, Covers d r := by
      rcases List.mem_cons.mp hi with rfl | hi'
      · exact IF.keeps d hd
      · apply IF.adds i hi' d hd hb
        intro hN x hx hxN
        exact nodeAgree_inInputs (hnode hN) ⟨i, hi, hd⟩ hx hN hxN
    obtain ⟨r, hr, hc⟩ := this
    refine ⟨_, ?_, Covers.trans hc (refill_covers (mergePossibleTypes ((i0 :: rest).map (·.schema)) types) r)⟩
    rw [hR]
    exact List.mem_map_of_mem (f := fun d => if d.kind == .union && d.members.isEmpty then
      { d with members := assocGet (mergePossibleTypes ((i0 :: rest).map (·.schema)) types) d.name } else d) hr

/-- keys of the result are distinct when those of the first input are -/
theorem result_nodup {i0 : MergeInput} {rest : List MergeInput} {R : Schema} (h : mergeSchema E (i0 :: rest) = .ok R)
    (hroot : ∀ i ∈ i0 :: rest, RootsAreObjects i.schema) (hnd : TypesNodup i0.schema) : (R.types.map (·.name)).Nodup := by
  obtain ⟨types, ht, hR, _⟩ := mergeSchema_ok h
  have IF := foldInputs_spec rest _ _ _ _ ht (fun i hi => hroot i (List.mem_cons_of_mem _ hi))
  rw [hR, refillUnions_names]
  exact IF.nodup hnd

/-
FULL STATEMENT (false of the code, see `C03_superset_false_node`, `C03_superset_false_directive`):
  theorem C03_superset (h : mergeSchema facts ins = .ok R) (hroot : ∀ i ∈ ins, RootsAreObjects i.schema) :
      SchemaUnion.Superset (ins.map (·.schema)) R
-/

/-- C03, superset: every type, field (result type, default), argument (type, default), enum value,
    union member, implemented interface and directive definition of every input is in the merged
    schema — provided the services agree on `Node` itself and on same-named directive
    definitions (the two open findings). `RootsAreObjects` is a fact of every loaded schema. -/
theorem C03_superset_partial (ins : List MergeInput) (R : Schema) (h : mergeSchema facts ins = .ok R)
    (hroot : ∀ i ∈ ins, RootsAreObjects i.schema) (hnode : NodeAgree ins)
    (hdir : DirectivesAgree (ins.map (·.schema))) : SchemaUnion.Superset (ins.map (·.schema)) R := by
  rw [C03_facts] at h
  cases ins with
  | nil => cases h
  | cons i0 rest =>
    obtain ⟨types, ht, hR, hD⟩ := mergeSchema_ok h
    constructor
    · intro S hS d hd hb it hit
      obtain ⟨i, hi, rfl⟩ := List.mem_map.mp hS
      obtain ⟨r, hr, hc⟩ := covered h hroot hi hd hb (fun _ => hnode)
      simp only [typesItems, List.mem_flatMap]
      exact ⟨r, hr, hc it hit⟩
    · intro S hS dd hdd
      rw [hD]
      unfold mergeDirectives
      apply mergeDirectives_keeps
      · intro S' hS' d' hd' hn
        exact hdir S' hS' S hS d' hd' dd hdd hn
      · exact Or.inr ⟨S, hS, hdd⟩

/-- C03, nothing invented: every item of the merged schema is an item of some input (a member of
    a refilled "broken" union comes from some input's `PossibleTypes` of that union), every
    directive definition is some input's. Full. -/
theorem C03_no_invention (ins : List MergeInput) (R : Schema) (h : mergeSchema facts ins = .ok R)
    (hroot : ∀ i ∈ ins, RootsAreObjects i.schema) : NoInvention (ins.map (·.schema)) R := by
  rw [C03_facts] at h
  cases ins with
  | nil => cases h
  | cons i0 rest =>
    obtain ⟨types, ht, hR, hD⟩ := mergeSchema_ok h
    have IF := foldInputs_spec rest _ _ _ _ ht (fun i hi => hroot i (List.mem_cons_of_mem _ hi))
    constructor
    · intro it hit
      rw [hR] at hit
      simp only [typesItems, List.mem_flatMap] at hit
      obtain ⟨r', hr', hit'⟩ := hit
      obtain ⟨d, hd, rfl⟩ := mem_refillUnions hr'
      rcases refill_items _ d it hit' with hi | ⟨m, rfl, hm⟩
      · left
        rcases IF.noInv d hd it hi with ⟨d0, hd0, hi0⟩ | ⟨d0, ⟨j, hj, hdj⟩, hi0⟩
        · exact ⟨i0.schema, by simp, by simp only [typesItems, List.mem_flatMap]; exact ⟨d0, hd0, hi0⟩⟩
        · exact ⟨j.schema, List.mem_map_of_mem (List.mem_cons_of_mem _ hj),
            by simp only [typesItems, List.mem_flatMap]; exact ⟨d0, hdj, hi0⟩⟩
      · right
        exact ⟨d.name, m, rfl, mem_mergePossibleTypes hm⟩
    · intro dd hdd
      rw [hD] at hdd
      unfold mergeDirectives at hdd
      rcases mergeDirectives_noInv _ _ _ hdd with h' | h'
      · cases h'
      · exact h'

/-- C03, Node types: a type that some service declares as an object implementing `Node` appears
    exactly once in the merged schema, as an object implementing `Node`, and its fields (name,
    result type, default) are exactly the fields the services declare on it. Full (the name is
    not `Node` itself and not a `__…` name; `TypesNodup` is a fact of every loaded schema). -/
theorem C03_node_union (ins : List MergeInput) (R : Schema) (h : mergeSchema facts ins = .ok R)
    (hroot : ∀ i ∈ ins, RootsAreObjects i.schema) (hnd : ∀ i ∈ ins, TypesNodup i.schema)
    (T : String) (hb : isBuiltinName T = false) (hT : T ≠ nodeInterfaceName)
    (i : MergeInput) (hi : i ∈ ins) (d : TypeDef) (hd : d ∈ i.schema.types) (hdn : d.name = T)
    (hdk : d.kind = .object) (hdN : implementsNode d = true) :
    ∃ r ∈ R.types, r.name = T ∧ r.kind = .object ∧ implementsNode r = true ∧
      (R.types.map (·.name)).count T = 1 ∧
      (∀ j ∈ ins, ∀ d' ∈ j.schema.types, d'.name = T → ∀ f ∈ d'.fields, isBuiltinName f.name = false →
        ∃ g ∈ r.fields, g.name = f.name ∧ g.type = f.type ∧ g.default = f.default) ∧
      (∀ g ∈ r.fields, isBuiltinName g.name = false →
        ∃ j ∈ ins, ∃ d' ∈ j.schema.types, d'.name = T ∧ ∃ f ∈ d'.fields, f.name = g.name ∧ f.type = g.type ∧ f.default = g.default) := by
  have hNI := C03_no_invention ins R h hroot
  rw [C03_facts] at h
  obtain ⟨r, hr, hc⟩ := covered h hroot hi hd (hdn ▸ hb) (fun hN => absurd (hdn ▸ hN) hT)
  have hty := type_item_mem.mp (hc _ (type_item_mem.mpr ⟨rfl, rfl⟩))
  have hrn : r.name = T := hty.1.trans hdn
  have hrk : r.kind = .object := hty.2.trans hdk
  have hnodup : (R.types.map (·.name)).Nodup := by
    cases ins with
    | nil => cases h
    | cons i0 rest => exact result_nodup h hroot (hnd i0 List.mem_cons_self)
  have hiface : implementsNode r = true := by
    have : Item.iface d.name nodeInterfaceName ∈ defItems d :=
      iface_item_mem.mpr ⟨rfl, by rw [hdk]; rfl, by simpa [implementsNode] using hdN⟩
    have := iface_item_mem.mp (hc _ this)
    simpa [implementsNode] using this.2.2
  refine ⟨r, hr, hrn, hrk, hiface, ?_, ?_, ?_⟩
  · rw [hnodup.count, if_pos (hrn ▸ List.mem_map_of_mem hr)]
  · intro j hj d' hd' hd'n f hf hfb
    obtain ⟨r', hr', hc'⟩ := covered h hroot hj hd' (hd'n ▸ hb) (fun hN => absurd (hd'n ▸ hN) hT)
    have hty' := type_item_mem.mp (hc' _ (type_item_mem.mpr ⟨rfl, rfl⟩))
    have : r' = r := eq_of_nodup_name hnodup hr' hr (by rw [hty'.1, hd'n, hrn])
    subst this
    have hk' : d'.kind = .object := hty'.2.symm.trans hrk
    have := field_item_mem.mp (hc' _ (field_item_mem.mpr ⟨rfl, by rw [hk']; rfl, f, hf, hfb, rfl, rfl, rfl⟩))
    obtain ⟨_, _, g, hg, _, h1, h2, h3⟩ := this
    exact ⟨g, hg, h1, h2, h3⟩
  · intro g hg hgb
    have hit : Item.field T g.name g.type g.default ∈ typesItems R.types := by
      simp only [typesItems, List.mem_flatMap]
      exact ⟨r, hr, field_item_mem.mpr ⟨hrn, by rw [hrk]; rfl, g, hg, hgb, rfl, rfl, rfl⟩⟩
    rcases hNI.1 _ hit with ⟨S, hS, hSi⟩ | ⟨_, _, hcontra, _⟩
    · obtain ⟨j, hj, rfl⟩ := List.mem_map.mp hS
      simp only [typesItems, List.mem_flatMap] at hSi
      obtain ⟨d', hd', hd'i⟩ := hSi
      obtain ⟨h1, _, f, hf, _, h2, h3, h4⟩ := field_item_mem.mp hd'i
      exact ⟨j, hj, d', hd', h1, f, hf, h2, h3, h4⟩
    · cases hcontra

/-! ## the full statement is false of the code: witnesses (evaluated by the kernel) -/

/-- the conclusion of the full superset statement, with the facts of every loaded schema as the
    only hypotheses -/
def SupersetFailsAt (F : Facts) (ins : List MergeInput) : Prop :=
  (∀ i ∈ ins, RootsAreObjects i.schema) ∧ (∀ i ∈ ins, TypesNodup i.schema) ∧
    ∃ R, mergeSchema F ins = .ok R ∧ ¬ SchemaUnion.Superset (ins.map (·.schema)) R

instance (F : Facts) (ins : List MergeInput) : Decidable (SupersetFailsAt F ins) := by
  unfold SupersetFailsAt; infer_instance

/-- NEGATION of the full statement, repaired tree: two services with different `Node` interfaces
    are accepted and the later one's `Node.rev` is gone (open finding C03-node-def-differs) -/
theorem C03_superset_false_node : SupersetFailsAt expected W.nodeDefs ∧ DirectivesAgree (W.nodeDefs.map (·.schema)) := by
  decide

/-- NEGATION of the full statement, repaired tree: one directive name with two definitions is
    accepted and one definition is gone (open finding C03-directive-conflict) -/
theorem C03_superset_false_directive : SupersetFailsAt expected W.dirConflict ∧ NodeAgree W.dirConflict := by
  decide

/-- the tree as first read: `Query.node` is dropped when the later service lacks it (all
    hypotheses of `C03_superset_partial` hold) — repaired by 0002-root-node-field.patch -/
theorem C03_superset_false_original :
    SupersetFailsAt original W.nodeLost ∧ NodeAgree W.nodeLost ∧ DirectivesAgree (W.nodeLost.map (·.schema)) := by
  decide

/-- the tree as first read: `T.id` is dropped from `T{id,x}` + `T{x}` — repaired by
    0004-keep-id-field.patch (the pair is rejected now) -/
theorem C03_superset_false_original_id :
    SupersetFailsAt original W.idLost ∧ NodeAgree W.idLost ∧ DirectivesAgree (W.idLost.map (·.schema)) := by
  decide

/-- non-vacuity: the hypotheses of the theorems above hold of a mergeable pair (a Node type split
    field-wise, a shared value type), and of the `Query.node` witness on the repaired tree -/
example : ∃ R, mergeSchema expected W.plain = .ok R ∧
    ((∀ i ∈ W.plain, RootsAreObjects i.schema) ∧ (∀ i ∈ W.plain, TypesNodup i.schema) ∧ NodeAgree W.plain ∧
      DirectivesAgree (W.plain.map (·.schema)) ∧ SchemaUnion.Superset (W.plain.map (·.schema)) R) := by decide
example : ∃ R, mergeSchema expected W.nodeLost = .ok R ∧ SchemaUnion.Superset (W.nodeLost.map (·.schema)) R := by decide

end PebblesVerif.Merge
