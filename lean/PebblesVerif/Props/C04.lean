import PebblesVerif.Props.C03
import PebblesVerif.Proofs.TypeURLMap
import PebblesVerif.Proofs.MergeRoutes
/-!
# C04 — the routing table names a real owner for every routable field

About `TUM.build` (the table `Merge` builds: `SetFromSchema` per input, in input order) and, where
the statement speaks of the merged schema, about `mergeSchema`. For EVERY list of inputs.
A field is ROUTABLE when it belongs to an object type, neither the type nor the field is named
`__…`, the field is not named `id` (entities are stitched by id, `id` is answered by whoever
answers the rest), and it is not the relay entry point `node(id: ID!): Node` of a root type
(planned by id in `groupSelectionSetForNodeField`, never by location).
-/
namespace PebblesVerif.Merge
open PebblesVerif PebblesVerif.SchemaUnion PebblesVerif.TUM
open PebblesVerif.Gen.Merge

theorem C04_facts : facts = expected := by decide

/-- C04, a route is an owner: `tm[T][f] = u` ⇒ `u` is the url of an input whose schema declares
    `f` on the object type `T`. Full (no hypothesis, not even that the merge succeeds). -/
theorem C04_declares (ins : List MergeInput) (T f u : String) (h : Tum.get? (build facts ins) T f = some u) :
    ∃ i ∈ ins, i.url = u ∧ declares i.schema T f ∧ f ≠ idFieldName := by
  obtain ⟨i, hi, hu, v, hv, hvn, _, _, fd, hfd, hfn, _, hid⟩ := build_get h
  exact ⟨i, hi, hu, ⟨v, hv, hvn, fd, hfd, hfn⟩, hid⟩

/-- C04, no routable field of an input is left without a route. Full. -/
theorem C04_total (ins : List MergeInput) (i : MergeInput) (hi : i ∈ ins) (d : TypeDef) (hd : d ∈ i.schema.types)
    (g : FieldDef) (hg : g ∈ d.fields) (hr : Routable facts d g) :
    ∃ u, Tum.get? (build facts ins) d.name g.name = some u :=
  build_total hi (stores_of_routable (by rw [C04_facts]; rfl) hd hg hr)

/-- C04, no routable field of the MERGED schema is left without a route, and the route is an
    owner. Full. (This is false of the tree as first read: `C04_total_false_original`.) -/
theorem C04_total_result (ins : List MergeInput) (R : Schema) (h : mergeSchema facts ins = .ok R)
    (hroot : ∀ i ∈ ins, RootsAreObjects i.schema) (r : TypeDef) (hr : r ∈ R.types) (g : FieldDef) (hg : g ∈ r.fields)
    (hrt : Routable facts r g) :
    ∃ u, Tum.get? (build facts ins) r.name g.name = some u ∧ ∃ i ∈ ins, i.url = u ∧ declares i.schema r.name g.name := by
  have hF : facts.tumNodeFieldRootOnly = true := by rw [C04_facts]; rfl
  have h' := h
  rw [C04_facts] at h'
  cases ins with
  | nil => cases h'
  | cons i0 rest =>
    obtain ⟨types, ht, hR, _⟩ := mergeSchema_ok h'
    rw [hR] at hr
    obtain ⟨d, hd, rfl⟩ := mem_refillUnions hr
    have hsame : ∀ (p : List (String × List String)),
        (if d.kind == .union && d.members.isEmpty then { d with members := assocGet p d.name } else d).name = d.name ∧
        (if d.kind == .union && d.members.isEmpty then { d with members := assocGet p d.name } else d).kind = d.kind ∧
        (if d.kind == .union && d.members.isEmpty then { d with members := assocGet p d.name } else d).fields = d.fields := by
      intro p; split <;> exact ⟨rfl, rfl, rfl⟩
    obtain ⟨e1, e2, e3⟩ := hsame (mergePossibleTypes ((i0 :: rest).map (·.schema)) types)
    rw [e3] at hg
    obtain ⟨d', hd', hn, hk, hgd⟩ := foldInputs_verb rest _ _ _ _ ht (fun i hi => hroot i (List.mem_cons_of_mem _ hi)) d hd g hg
    have hrt' : Routable facts d' g := by
      obtain ⟨a, b, c, e, f⟩ := hrt
      rw [e1] at b f
      rw [e2] at a
      exact ⟨hk.trans a, hn ▸ b, c, e, hn ▸ f⟩
    have hin : ∃ i ∈ i0 :: rest, d' ∈ i.schema.types := by
      rcases hd' with h0 | ⟨j, hj, hdj⟩
      · exact ⟨i0, List.mem_cons_self, h0⟩
      · exact ⟨j, List.mem_cons_of_mem _ hj, hdj⟩
    obtain ⟨i, hi, hdi⟩ := hin
    obtain ⟨u, hu⟩ := build_total (F := facts) hi (stores_of_routable hF hdi hgd hrt')
    rw [e1, ← hn]
    refine ⟨u, hu, ?_⟩
    obtain ⟨j, hj, hju, hdecl, _⟩ := C04_declares _ _ _ _ hu
    exact ⟨j, hj, hju, hdecl⟩

/-- C04, root fields: after a successful merge every root field (other than the one named
    `node`) is routed to the one service that declares it: the route is a declarer, and every
    service that declares the field is that one. Full. -/
theorem C04_root_owner (ins : List MergeInput) (R : Schema) (h : mergeSchema facts ins = .ok R)
    (hroot : ∀ i ∈ ins, RootsAreObjects i.schema) (hnd : ∀ i ∈ ins, TypesNodup i.schema)
    (T f u : String) (hT : isRootName T = true) (hb : isBuiltinName f = false) (hf : f ≠ nodeFieldName)
    (hget : Tum.get? (build facts ins) T f = some u) :
    (∃ i ∈ ins, i.url = u ∧ declares i.schema T f) ∧ (∀ j ∈ ins, declares j.schema T f → j.url = u) := by
  obtain ⟨i, hi, hu, hdecl, _⟩ := C04_declares _ _ _ _ hget
  refine ⟨⟨i, hi, hu, hdecl⟩, ?_⟩
  intro j hj hdj
  by_cases hij : i = j
  · rw [← hij]; exact hu
  · rw [C04_facts] at h
    exact absurd (pairwise_mem (root_fields_disjoint h hroot hnd) hi hj hij T f hT hb hdecl hdj) hf

/-- C04, Node types: after a successful merge every non-`id` field that a service declares on a
    type it declares as a Node type is routed to that service (no other service declares it). Full. -/
theorem C04_node_field_owner (ins : List MergeInput) (R : Schema) (h : mergeSchema facts ins = .ok R)
    (hroot : ∀ i ∈ ins, RootsAreObjects i.schema) (hnd : ∀ i ∈ ins, TypesNodup i.schema)
    (i : MergeInput) (hi : i ∈ ins) (T f : String) (hs : Stores facts i.schema.types T f) (hN : NodeObj i T)
    (hrT : isRootName T = false) (hNT : T ≠ nodeInterfaceName) (hb : isBuiltinName f = false) :
    Tum.get? (build facts ins) T f = some i.url := by
  rw [C04_facts] at h hs ⊢
  exact node_route_E h hroot hnd hi hs hN hrT hNT hb

/-- C04, stitchable flag (table form): the table marks `T` iff some input declares `T` as an
    object implementing `Node`. Full. -/
theorem C04_node_iff (ins : List MergeInput) (T : String) :
    Tum.isNode? (build facts ins) T = some true ↔
      ∃ i ∈ ins, ∃ d ∈ i.schema.types, d.name = T ∧ d.kind = .object ∧ isBuiltinName d.name = false ∧ implementsNode d = true :=
  build_isNode

/-- C04, stitchable flag (result form): after a successful merge an object type of the merged
    schema is marked iff it implements `Node`. Full (`T` is not `Node` itself). -/
theorem C04_node_iff_result (ins : List MergeInput) (R : Schema) (h : mergeSchema facts ins = .ok R)
    (hroot : ∀ i ∈ ins, RootsAreObjects i.schema) (hnd : ∀ i ∈ ins, TypesNodup i.schema)
    (r : TypeDef) (hr : r ∈ R.types) (hk : r.kind = .object) (hb : isBuiltinName r.name = false)
    (hN : r.name ≠ nodeInterfaceName) :
    Tum.isNode? (build facts ins) r.name = some true ↔ implementsNode r = true := by
  rw [C04_facts] at h
  have hNI := noInvention_E ins R h hroot
  have hnodup : (R.types.map (·.name)).Nodup := by
    cases ins with
    | nil => cases h
    | cons i0 rest => exact result_nodup h hroot (hnd i0 List.mem_cons_self)
  rw [C04_node_iff]
  constructor
  · rintro ⟨i, hi, d, hd, hdn, hdk, hdb, hdN⟩
    obtain ⟨r', hr', hc⟩ := covered h hroot hi hd hdb (fun hN' => absurd (hdn ▸ hN') hN)
    have hty := type_item_mem.mp (hc _ (type_item_mem.mpr ⟨rfl, rfl⟩))
    have : r' = r := eq_of_nodup_name hnodup hr' hr (hty.1.trans hdn)
    subst this
    have : Item.iface d.name nodeInterfaceName ∈ defItems d :=
      iface_item_mem.mpr ⟨rfl, by rw [hdk]; rfl, by simpa [implementsNode] using hdN⟩
    have := iface_item_mem.mp (hc _ this)
    simpa [implementsNode] using this.2.2
  · intro hrN
    have hit : Item.iface r.name nodeInterfaceName ∈ typesItems R.types := by
      simp only [typesItems, List.mem_flatMap]
      exact ⟨r, hr, iface_item_mem.mpr ⟨rfl, by rw [hk]; rfl, by simpa [implementsNode] using hrN⟩⟩
    rcases hNI.1 _ hit with ⟨S, hS, hSi⟩ | ⟨_, _, hcontra, _⟩
    · obtain ⟨j, hj, rfl⟩ := List.mem_map.mp hS
      simp only [typesItems, List.mem_flatMap] at hSi
      obtain ⟨d, hd, hdi⟩ := hSi
      obtain ⟨hdn, _, hdI⟩ := iface_item_mem.mp hdi
      have hdb : isBuiltinName d.name = false := hdn ▸ hb
      obtain ⟨r', hr', hc⟩ := covered h hroot hj hd hdb (fun hN' => absurd (hdn ▸ hN') hN)
      have hty := type_item_mem.mp (hc _ (type_item_mem.mpr ⟨rfl, rfl⟩))
      have : r' = r := eq_of_nodup_name hnodup hr' hr (hty.1.trans hdn)
      subst this
      exact ⟨j, hj, d, hd, hdn, hty.2.symm.trans hk, hdb, by simpa [implementsNode] using hdI⟩
    · cases hcontra

/-- C04, routed services: `GetURLs` lists exactly the urls that are the route of some field;
    each of them is a service that declares a field it is the route of. Full. -/
theorem C04_urls (ins : List MergeInput) (u : String) :
    u ∈ Tum.urls (build facts ins) ↔ ∃ T f, Tum.get? (build facts ins) T f = some u :=
  ⟨urls_get (build_keysOK facts ins), fun ⟨_, _, h⟩ => get?_some_mem h⟩

theorem C04_urls_are_services (ins : List MergeInput) (u : String) (h : u ∈ Tum.urls (build facts ins)) :
    ∃ i ∈ ins, i.url = u ∧ ∃ T f, declares i.schema T f ∧ Tum.get? (build facts ins) T f = some u := by
  obtain ⟨T, f, hg⟩ := (C04_urls ins u).mp h
  obtain ⟨i, hi, hu, hd, _⟩ := C04_declares _ _ _ _ hg
  exact ⟨i, hi, hu, T, f, hd, hg⟩

/-- every service that contributes a root field (a routable one, not named `node`) is listed -/
theorem C04_urls_contributors (ins : List MergeInput) (R : Schema) (h : mergeSchema facts ins = .ok R)
    (hroot : ∀ i ∈ ins, RootsAreObjects i.schema) (hnd : ∀ i ∈ ins, TypesNodup i.schema)
    (i : MergeInput) (hi : i ∈ ins) (d : TypeDef) (hd : d ∈ i.schema.types) (g : FieldDef) (hg : g ∈ d.fields)
    (hrt : Routable facts d g) (hT : isRootName d.name = true) (hf : g.name ≠ nodeFieldName) :
    i.url ∈ Tum.urls (build facts ins) := by
  obtain ⟨u, hu⟩ := C04_total ins i hi d hd g hg hrt
  have := (C04_root_owner ins R h hroot hnd d.name g.name u hT hrt.2.2.1 hf hu).2 i hi ⟨d, hd, rfl, g, hg, rfl⟩
  rw [this]
  exact get?_some_mem hu

/-! ## the tree as first read: any field shaped like `node` is left without a route -/

/-- NEGATION of `C04_total_result` on the tree as first read: `Query.getNode(id: ID!): Node` is a
    field of the merged schema with no route (repaired by 0003-node-field-name.patch) -/
theorem C04_total_false_original :
    (∃ R, mergeSchema original W.nodeShapedField = .ok R ∧ ∃ r ∈ R.types, r.name = "Query" ∧ ∃ g ∈ r.fields, g.name = "getNode") ∧
    Tum.get? (build original W.nodeShapedField) "Query" "getNode" = none ∧
    Tum.get? (build expected W.nodeShapedField) "Query" "getNode" = some "a" := by decide

/-- non-vacuity: routes of a mergeable pair (a split Node type, a shared value type) -/
example : Tum.get? (build expected W.plain) "A" "a" = some "a" ∧ Tum.get? (build expected W.plain) "A" "b" = some "b" ∧
    Tum.get? (build expected W.plain) "Query" "qb" = some "b" ∧ Tum.get? (build expected W.plain) "Query" "node" = none ∧
    Tum.isNode? (build expected W.plain) "A" = some true ∧ Tum.isNode? (build expected W.plain) "V" = some false := by decide

end PebblesVerif.Merge
