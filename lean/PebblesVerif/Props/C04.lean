import PebblesVerif.Spec.SchemaUnion
namespace PebblesVerif.Merge
open PebblesVerif.Gen.Merge
/-- the source has the shape the model was written for, with the repairs applied -/
theorem C04_facts : facts = expected := by decide
end PebblesVerif.Merge
