import PebblesVerif.Props.C04
import PebblesVerif.Proofs.MergeOrder
import PebblesVerif.Proofs.MergeRoutes
/-!
# C05 — conflicting service schemas are rejected, independent of service order

About `mergeSchema` / `run` (Model/Merge.lean). The conflict theorems are about TWO services,
in both orders (the statement says "if two services cannot be combined"); the order theorems say
what holds for two services (full) and for n services (partial: the pairwise fold compares each
new declaration with the ACCUMULATED type, see `C05_perm_false`).
-/
namespace PebblesVerif.Merge
open PebblesVerif PebblesVerif.SchemaUnion PebblesVerif.TUM
open PebblesVerif.Gen.Merge

theorem C05_facts : facts = expected := by decide

/-! ## no panic -/

/-- C05, no panic: for every list of inputs and both mergers the model answers with a schema or
    an error VALUE, never `.panic` (the only checked dereference is `res.Schema.Query` in the
    node-hiding merger, guarded since 0005-sanitize-nil-query.patch). Full. -/
theorem C05_no_panic (sanitize : Bool) (ins : List MergeInput) (w : String) : run facts sanitize ins ≠ .error (.panic w) := by
  rw [C05_facts]
  unfold run
  cases mergeSchema expected ins with
  | error e => simp
  | ok s =>
    cases sanitize with
    | false => simp
    | true =>
      simp only [↓reduceIte, sanitizeNode]
      cases (reloadView s).query <;> simp [expected]

/-- NEGATION on the tree as first read: no service declares `Query`, the node-hiding merger
    dereferences nil -/
theorem C05_no_panic_false_original :
    (match run original true W.noQuery with | .error (.panic _) => true | _ => false) = true ∧
    (match run expected true W.noQuery with | .ok _ => true | _ => false) = true := by decide

/-! ## conflicts between two services are rejected, in both orders -/

/-- C05, the same root field declared twice -/
theorem C05_conflict_rejected_root_field (A B : MergeInput) (hA : Loaded A.schema) (hB : Loaded B.schema)
    (h : RootFieldTwice facts A.schema B.schema) : Rejected2 facts A B := by
  rw [C05_facts] at h ⊢
  obtain ⟨a, b, hs, hk, hr, f, hf, g, hg, hfg, hfb, hnode⟩ := h
  have hn := hs.2.2.1
  have hN := hs.2.2.2.2
  have hao : a.kind = .object := hA.roots a hs.1 hr
  have hbo : b.kind = .object := hk ▸ hao
  unfold sameNodeField at hnode
  apply rejected2_of hA hB hs
  · apply mergeDef_err_of hn (hn ▸ hN) hk.symm (by rw [hbo]; decide) (by rw [hbo]; decide)
    · intro _ _
      apply mergeRootObjects_err
      apply rootFold_err a.fields b.fields f g hf hfb
      · rw [hfg]; exact fieldNamed_of_nodup (hB.fields b hs.2.1) hg
      · rw [isSameSignature_comm]; exact hnode
    · intro h; rw [← hn, hr] at h; cases h
  · apply mergeDef_err_of hn.symm hN hk (by rw [hao]; decide) (by rw [hao]; decide)
    · intro _ _
      apply mergeRootObjects_err
      apply rootFold_err b.fields a.fields g f hg (hfg ▸ hfb)
      · rw [← hfg]; exact fieldNamed_of_nodup (hA.fields a hs.1) hf
      · rw [Bool.and_comm (isNodeField E g)]; exact hnode
    · intro h; rw [hr] at h; cases h

/-- C05, one name used for different kinds -/
theorem C05_conflict_rejected_kind (A B : MergeInput) (hA : Loaded A.schema) (hB : Loaded B.schema)
    (h : KindMismatch A.schema B.schema) : Rejected2 facts A B := by
  rw [C05_facts]
  obtain ⟨a, b, hs, hk⟩ := h
  have hn := hs.2.2.1
  have hN := hs.2.2.2.2
  exact rejected2_of hA hB hs (mergeDef_err_kind (hn ▸ hN) (fun h => hk h.symm)) (mergeDef_err_kind hN hk)

/-- C05, a type that implements Node in one service but not in another -/
theorem C05_conflict_rejected_node_impl (A B : MergeInput) (hA : Loaded A.schema) (hB : Loaded B.schema)
    (h : NodeImplMismatch A.schema B.schema) : Rejected2 facts A B := by
  rw [C05_facts]
  obtain ⟨a, b, hs, hk, hc, hi⟩ := h
  obtain ⟨hcs, hcu⟩ := composite_not hc
  have hn := hs.2.2.1
  have hN := hs.2.2.2.2
  apply rejected2_of hA hB hs
  · exact mergeDef_err_of hn (hn ▸ hN) hk.symm (hk ▸ hcs) (hk ▸ hcu) (fun _ h => absurd h.symm hi) (fun _ h => absurd h.symm hi)
  · exact mergeDef_err_of hn.symm hN hk hcs hcu (fun _ h => absurd h hi) (fun _ h => absurd h hi)

/-- C05, a Node type with a non-`id` field declared by two services -/
theorem C05_conflict_rejected_node_field (A B : MergeInput) (hA : Loaded A.schema) (hB : Loaded B.schema)
    (h : NodeFieldTwice A.schema B.schema) : Rejected2 facts A B := by
  rw [C05_facts]
  obtain ⟨a, b, hs, hk, hc, hr, hNa, _, f, hf, g, hg, hfg, hfb, hid⟩ := h
  apply rejected2_custom hA hB hs hk hc hr
  intro _
  exact customFields_err_node (notQuery_of_notRoot hr) hNa hg (hfg ▸ hfb) hid ⟨f, hf, hfg⟩

/-- C05, a shared plain type or input that is neither identical nor disjoint (the extra field on
    either side: apply with the services swapped for the other side) -/
theorem C05_conflict_rejected_partial (A B : MergeInput) (hA : Loaded A.schema) (hB : Loaded B.schema)
    (h : NeitherIdenticalNorDisjoint A.schema B.schema) : Rejected2 facts A B := by
  rw [C05_facts]
  obtain ⟨a, b, hs, hk, hc, hr, ⟨f, hf, g, hg, hfg, hfb, hid⟩, ⟨g', hg', hgb', hno⟩⟩ := h
  apply rejected2_custom hA hB hs hk hc hr
  intro _
  exact customFields_err_partial (notQuery_of_notRoot hr) (hB.fields b hs.2.1) hg (hfg ▸ hfb) hid ⟨f, hf, hfg⟩ hg' hgb' hno

/-- C05, a shared field with different type or arguments -/
theorem C05_conflict_rejected_signature (A B : MergeInput) (hA : Loaded A.schema) (hB : Loaded B.schema)
    (h : FieldSignatureDiffers A.schema B.schema) : Rejected2 facts A B := by
  rw [C05_facts]
  obtain ⟨a, b, hs, hk, hc, hr, f, hf, g, hg, hfg, hfb, hsig⟩ := h
  apply rejected2_custom hA hB hs hk hc hr
  intro _
  exact customFields_err_sig (notQuery_of_notRoot hr) (hA.fields a hs.1) hg (hfg ▸ hfb) hf hfg hsig

/-- C05, a union with different members -/
theorem C05_conflict_rejected_union (A B : MergeInput) (hA : Loaded A.schema) (hB : Loaded B.schema)
    (h : UnionMembersDiffer A.schema B.schema) : Rejected2 facts A B := by
  rw [C05_facts]
  obtain ⟨a, b, hs, hka, hkb, hm⟩ := h
  have hn := hs.2.2.1
  have hN := hs.2.2.2.2
  exact rejected2_of hA hB hs (mergeDef_err_union (hn ▸ hN) hka hkb hm)
    (mergeDef_err_union hN hkb hka (by rw [sameMembers_comm]; exact hm))

/-! ## the order of the service list -/

/-- C05, order of two services: whether two services are accepted does not depend on the order in
    which they are listed. Full. -/
theorem C05_perm_two (A B : MergeInput) (hA : Loaded A.schema) (hB : Loaded B.schema) :
    (∃ R, mergeSchema facts [A, B] = .ok R) ↔ (∃ R, mergeSchema facts [B, A] = .ok R) := by
  rw [C05_facts]
  exact ⟨perm_two_dir hA hB, perm_two_dir hB hA⟩

/-
FULL STATEMENT (false of the code: `C05_perm_false`, `C05_perm_false_node`):
  theorem C05_perm (hp : l.Perm l') : ((∃ R, mergeSchema facts l = .ok R) ↔ ∃ R', mergeSchema facts l' = .ok R') ∧
      ∀ R R', mergeSchema facts l = .ok R → mergeSchema facts l' = .ok R' → ∀ it, Visible R.types it ↔ Visible R'.types it
-/

/-- C05, order of n services, the RESULT: when a list of services and a permutation of it are both
    accepted, the two merged schemas have the same types, fields, arguments, enum values and
    implemented interfaces (visible items, members of unions aside) — provided the services agree
    on `Node` itself and on same-named directives (open findings). Any number of services. -/
theorem C05_perm_result_partial (l l' : List MergeInput) (hp : l.Perm l') (R R' : Schema)
    (h : mergeSchema facts l = .ok R) (h' : mergeSchema facts l' = .ok R')
    (hroot : ∀ i ∈ l, RootsAreObjects i.schema) (hnode : NodeAgree l) (hdir : DirectivesAgree (l.map (·.schema)))
    (it : Item) (hm : ∀ U m, it ≠ .member U m) : Visible R.types it ↔ Visible R'.types it := by
  have hroot' : ∀ i ∈ l', RootsAreObjects i.schema := fun i hi => hroot i (hp.mem_iff.mpr hi)
  have hnode' : NodeAgree l' := fun i hi j hj => hnode i (hp.mem_iff.mpr hi) j (hp.mem_iff.mpr hj)
  have hdir' : DirectivesAgree (l'.map (·.schema)) := by
    intro S hS S' hS'
    exact hdir S ((hp.map _).mem_iff.mpr hS) S' ((hp.map _).mem_iff.mpr hS')
  rw [visible_iff h hroot hnode hdir it hm, visible_iff h' hroot' hnode' hdir' it hm]
  constructor
  · rintro ⟨i, hi, hv⟩; exact ⟨i, hp.mem_iff.mp hi, hv⟩
  · rintro ⟨i, hi, hv⟩; exact ⟨i, hp.mem_iff.mpr hi, hv⟩

/-- C05, order of n services, ACCEPTANCE (partial): if every two services of the list are accepted
    on their own, no composite non-root type is declared by three or more services (`AtMostTwo`:
    the region the open finding C05-order-nway excludes) and root types implement no interface,
    then the list is accepted, and so is every permutation of it. Any number of services. -/
theorem C05_perm_partial (l l' : List MergeInput) (hp : l.Perm l') (hne : l ≠ [])
    (hL : ∀ i ∈ l, Loaded i.schema ∧ RootsPlain i.schema)
    (hpw : l.Pairwise (fun i j => Accepted facts [i, j])) (h2 : AtMostTwo l) :
    Accepted facts l ∧ Accepted facts l' := by
  rw [C05_facts] at hpw ⊢
  refine ⟨accepted_of_pairwise l hne hL hpw h2, ?_⟩
  have hne' : l' ≠ [] := by
    intro he; rw [he] at hp; exact hne hp.eq_nil
  have hL' : ∀ i ∈ l', Loaded i.schema ∧ RootsPlain i.schema := fun i hi => hL i (hp.mem_iff.mpr hi)
  have hsym : l.Pairwise (fun i j => (Loaded i.schema ∧ Loaded j.schema) ∧ Accepted E [i, j]) :=
    hpw.imp_of_mem (fun {a b} ha hb h => ⟨⟨(hL a ha).1, (hL b hb).1⟩, h⟩)
  have hsym' : l'.Pairwise (fun i j => (Loaded i.schema ∧ Loaded j.schema) ∧ Accepted E [i, j]) :=
    (hp.pairwise_iff (fun {x y} h => ⟨⟨h.1.2, h.1.1⟩, perm_two_dir h.1.1 h.1.2 h.2⟩)).mp hsym
  refine accepted_of_pairwise l' hne' hL' (hsym'.imp (fun h => h.2)) ?_
  intro T hb hr
  rw [← (hp.filter (declC T)).length_eq]
  exact h2 T hb hr

/-- C05, order of n services, Node-field ROUTES: when a list and a permutation of it are both
    accepted, every non-`id` field that a service declares on a type it declares as a Node type is
    routed to that service in both tables (it has no other declarer). Full. Any number of services. -/
theorem C05_perm_routes (l l' : List MergeInput) (hp : l.Perm l') (R R' : Schema)
    (h : mergeSchema facts l = .ok R) (h' : mergeSchema facts l' = .ok R')
    (hroot : ∀ i ∈ l, RootsAreObjects i.schema) (hnd : ∀ i ∈ l, TypesNodup i.schema)
    (i : MergeInput) (hi : i ∈ l) (T f : String) (hs : Stores facts i.schema.types T f) (hN : NodeObj i T)
    (hrT : isRootName T = false) (hNT : T ≠ nodeInterfaceName) (hb : isBuiltinName f = false) :
    Tum.get? (build facts l) T f = some i.url ∧ Tum.get? (build facts l') T f = some i.url := by
  rw [C05_facts] at h h' hs ⊢
  exact ⟨node_route_E h hroot hnd hi hs hN hrT hNT hb,
    node_route_E h' (fun j hj => hroot j (hp.mem_iff.mpr hj)) (fun j hj => hnd j (hp.mem_iff.mpr hj))
      (hp.mem_iff.mp hi) hs hN hrT hNT hb⟩

/-! ## … and what is false -/

/-- NEGATION of order independence for three services (repaired tree; open finding
    C05-order-nway): `T{x,y}`, `T{x,y}`, `T{z}` is accepted, `T{x,y}`, `T{z}`, `T{x,y}` is rejected.
    Every pair of the three is accepted in both orders (`C05_perm_two`): the defect is in the
    accumulation. -/
theorem C05_perm_false : W.order3.Perm W.order3' ∧ Accepted expected W.order3 ∧ ¬ Accepted expected W.order3' ∧
    (∀ i ∈ W.order3, TypesNodup i.schema ∧ FieldsNodup i.schema ∧ RootsAreObjects i.schema) := by
  refine ⟨?_, by decide, by decide, by decide⟩
  unfold W.order3 W.order3'
  exact List.Perm.cons _ (List.Perm.swap _ _ _)

/-- NEGATION of result independence (repaired tree; open finding C05-node-def-differs): two
    services with different `Node` interfaces, the first one's `Node` wins -/
theorem C05_perm_false_node :
    (∃ R, mergeSchema expected W.nodeDefs = .ok R ∧ ¬ Visible R.types (.field "Node" "rev" W.tInt none)) ∧
    (∃ R, mergeSchema expected W.nodeDefs.reverse = .ok R ∧ Visible R.types (.field "Node" "rev" W.tInt none)) := by
  constructor
  · refine ⟨_, rfl, ?_⟩
    unfold Visible; decide
  · refine ⟨_, rfl, ?_⟩
    unfold Visible; decide

/-- the tree as first read: the same field with two types is accepted silently and the result
    depends on the order (repaired by 0001-field-signature.patch: rejected in both orders) -/
theorem C05_perm_false_original :
    (∃ R, mergeSchema original W.diffType = .ok R ∧ Visible R.types (.field "T" "x" W.tStr none)) ∧
    (∃ R, mergeSchema original W.diffType' = .ok R ∧ ¬ Visible R.types (.field "T" "x" W.tStr none)) ∧
    ¬ Accepted expected W.diffType ∧ ¬ Accepted expected W.diffType' := by
  refine ⟨⟨_, rfl, ?_⟩, ⟨_, rfl, ?_⟩, by decide, by decide⟩
  · unfold Visible; decide
  · unfold Visible; decide

/-- non-vacuity: the conflict predicates are inhabited by the witnesses, the hypotheses of the
    order theorems by a mergeable pair -/
example : FieldSignatureDiffers (W.diffType[0]!).schema (W.diffType[1]!).schema :=
  ⟨W.obj "T" [W.fld "x" W.tInt], W.obj "T" [W.fld "x" W.tStr], by unfold Shared; decide, rfl, rfl, by decide,
    W.fld "x" W.tInt, by decide, W.fld "x" W.tStr, by decide, rfl, by decide, by decide⟩
example : W.plain.Pairwise (fun i j => Accepted expected [i, j]) ∧ (∀ i ∈ W.plain, RootsPlain i.schema) := by
  unfold W.plain; refine ⟨?_, by decide⟩
  rw [List.pairwise_cons]; exact ⟨by decide, List.pairwise_singleton _ _⟩
example : Accepted expected W.plain ∧ Accepted expected W.plain.reverse ∧
    (∀ i ∈ W.plain, TypesNodup i.schema ∧ FieldsNodup i.schema ∧ RootsAreObjects i.schema) := by decide

/-! ## the relay-id exemption is for `id: ID!` only -/

/-- the tie: `isNonNullableTypeNamed` / `isNullableTypeNamed` have a known shape and require
    `t.Elem == nil` -/
theorem C05_named_type_facts :
    namedTypeRecognised = true ∧ namedTypeExcludesLists = true := by decide

/-- Two declarations of a type may overlap in the relay id without being copies of each other. The
    field exempted is exactly `id: ID!` without arguments — not `id: [ID!]!`, which the looser test
    (innermost name `ID`, outermost non-null) also let through: then `type X { id: [ID!]! x: Int }`
    and `type X { id: [ID!]! z: Int }` were merged instead of rejected. -/
theorem C05_id_exemption_exact (f : FieldDef) (h : isIDField f = true) :
    f.name = idFieldName ∧ f.args = [] ∧ f.type = .nonNull (.named "ID") := by
  have hf := C05_named_type_facts.2
  simp only [isIDField, isIDType, isNonNullNamed, hf, if_true, Bool.and_eq_true, beq_iff_eq,
    List.isEmpty_iff] at h
  exact ⟨h.1.1, h.1.2, h.2⟩

/-- the result type the relay `node` field must have is exactly `Node` (nullable, not a list) -/
theorem C05_node_result_exact (t : TypeRef) (h : isNullableNamed t nodeInterfaceName = true) :
    t = .named nodeInterfaceName := by
  have hf := C05_named_type_facts.2
  simpa only [isNullableNamed, hf, if_true, beq_iff_eq] using h

/-- before the repair: the innermost-name test accepts a list of ids as "the id type" -/
theorem C05_before_repair_list_of_id :
    let t : TypeRef := .nonNull (.list (.nonNull (.named "ID")))
    (t.name == "ID" && t.isNonNull) = true ∧ t ≠ .nonNull (.named "ID") := by decide

end PebblesVerif.Merge
