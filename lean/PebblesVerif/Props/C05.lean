import PebblesVerif.Props.C04
/-!
# C05 — conflicting service schemas are rejected, independent of service order

About `mergeSchema` / `run` (Model/Merge.lean). The conflict theorems are about TWO services,
in both orders (the statement says "if two services cannot be combined"); the order theorems say
what holds for two services (full) and for n services (partial: the pairwise fold compares each
new declaration with the ACCUMULATED type, see `C05_perm_false`).
-/
namespace PebblesVerif.Merge
open PebblesVerif PebblesVerif.SchemaUnion PebblesVerif.TUM
open PebblesVerif.Gen.Merge

theorem C05_facts : facts = expected := by decide

/-! ## no panic -/

/-- C05, no panic: for every list of inputs and both mergers the model answers with a schema or
    an error VALUE, never `.panic` (the only checked dereference is `res.Schema.Query` in the
    node-hiding merger, guarded since 0005-sanitize-nil-query.patch). Full. -/
theorem C05_no_panic (sanitize : Bool) (ins : List MergeInput) (w : String) : run facts sanitize ins ≠ .error (.panic w) := by
  rw [C05_facts]
  unfold run
  cases mergeSchema expected ins with
  | error e => simp
  | ok s =>
    cases sanitize with
    | false => simp
    | true =>
      simp only [↓reduceIte, sanitizeNode]
      cases (reloadView s).query <;> simp [expected]

/-- NEGATION on the tree as first read: no service declares `Query`, the node-hiding merger
    dereferences nil -/
theorem C05_no_panic_false_original :
    (match run original true W.noQuery with | .error (.panic _) => true | _ => false) = true ∧
    (match run expected true W.noQuery with | .ok _ => true | _ => false) = true := by decide

/-! ## conflicts between two services are rejected, in both orders -/

/-- facts of every schema gqlparser loads -/
structure Loaded (S : Schema) : Prop where
  types : TypesNodup S
  fields : FieldsNodup S
  roots : RootsAreObjects S

def Rejected2 (A B : MergeInput) : Prop :=
  (∃ e, mergeSchema facts [A, B] = .error e) ∧ (∃ e, mergeSchema facts [B, A] = .error e)

theorem rejected2_of {A B : MergeInput} (hA : Loaded A.schema) (hB : Loaded B.schema) {a b : TypeDef}
    (hs : Shared A.schema B.schema a b)
    (h1 : ∃ e, mergeDef E A.schema B.schema a b = .error e) (h2 : ∃ e, mergeDef E B.schema A.schema b a = .error e) :
    Rejected2 A B := by
  obtain ⟨ha, hb, hn, hbn, _⟩ := hs
  unfold Rejected2
  rw [C05_facts]
  exact ⟨reject_pair hA.types hB.types ha hb hn (hn ▸ hbn) h1, reject_pair hB.types hA.types hb ha hn.symm hbn h2⟩

theorem composite_not {k : Kind} (h : composite k = true) : k ≠ .scalar ∧ k ≠ .union := by
  cases k <;> simp [composite] at h ⊢

/-- shared composite non-root type on which `mergeCustomObjectFields(a, b)` fails -/
theorem rejected2_custom {A B : MergeInput} (hA : Loaded A.schema) (hB : Loaded B.schema) {a b : TypeDef}
    (hs : Shared A.schema B.schema a b) (hk : a.kind = b.kind) (hc : composite a.kind = true)
    (hr : isRootName a.name = false)
    (herr : implementsNode a = implementsNode b → ∃ e, mergeCustomObjectFields E a b = .error e) : Rejected2 A B := by
  obtain ⟨hcs, hcu⟩ := composite_not hc
  have hn := hs.2.2.1
  have hN := hs.2.2.2.2
  apply rejected2_of hA hB hs
  · apply mergeDef_err_of hn (hn ▸ hN) hk.symm (hk ▸ hcs) (hk ▸ hcu)
    · intro h; rw [← hn, hr] at h; cases h
    · intro _ hi; exact mergeCustomObjects_err_right (herr hi.symm)
  · apply mergeDef_err_of hn.symm hN hk hcs hcu
    · intro h; rw [hr] at h; cases h
    · intro _ hi; exact mergeCustomObjects_err_left (herr hi)

/-- C05, the same root field declared twice -/
theorem C05_conflict_rejected_root_field (A B : MergeInput) (hA : Loaded A.schema) (hB : Loaded B.schema)
    (h : RootFieldTwice facts A.schema B.schema) : Rejected2 A B := by
  rw [C05_facts] at h
  obtain ⟨a, b, hs, hk, hr, f, hf, g, hg, hfg, hfb, hnode⟩ := h
  have hn := hs.2.2.1
  have hN := hs.2.2.2.2
  have hao : a.kind = .object := hA.roots a hs.1 hr
  have hbo : b.kind = .object := hk ▸ hao
  unfold sameNodeField at hnode
  apply rejected2_of hA hB hs
  · apply mergeDef_err_of hn (hn ▸ hN) hk.symm (by rw [hbo]; decide) (by rw [hbo]; decide)
    · intro _ _
      apply mergeRootObjects_err
      apply rootFold_err a.fields b.fields f g hf hfb
      · rw [hfg]; exact fieldNamed_of_nodup (hB.fields b hs.2.1) hg
      · rw [isSameSignature_comm]; exact hnode
    · intro h; rw [← hn, hr] at h; cases h
  · apply mergeDef_err_of hn.symm hN hk (by rw [hao]; decide) (by rw [hao]; decide)
    · intro _ _
      apply mergeRootObjects_err
      apply rootFold_err b.fields a.fields g f hg (hfg ▸ hfb)
      · rw [← hfg]; exact fieldNamed_of_nodup (hA.fields a hs.1) hf
      · rw [Bool.and_comm (isNodeField E g)]; exact hnode
    · intro h; rw [hr] at h; cases h

/-- C05, one name used for different kinds -/
theorem C05_conflict_rejected_kind (A B : MergeInput) (hA : Loaded A.schema) (hB : Loaded B.schema)
    (h : KindMismatch A.schema B.schema) : Rejected2 A B := by
  obtain ⟨a, b, hs, hk⟩ := h
  have hn := hs.2.2.1
  have hN := hs.2.2.2.2
  exact rejected2_of hA hB hs (mergeDef_err_kind (hn ▸ hN) (fun h => hk h.symm)) (mergeDef_err_kind hN hk)

/-- C05, a type that implements Node in one service but not in another -/
theorem C05_conflict_rejected_node_impl (A B : MergeInput) (hA : Loaded A.schema) (hB : Loaded B.schema)
    (h : NodeImplMismatch A.schema B.schema) : Rejected2 A B := by
  obtain ⟨a, b, hs, hk, hc, hi⟩ := h
  obtain ⟨hcs, hcu⟩ := composite_not hc
  have hn := hs.2.2.1
  have hN := hs.2.2.2.2
  apply rejected2_of hA hB hs
  · exact mergeDef_err_of hn (hn ▸ hN) hk.symm (hk ▸ hcs) (hk ▸ hcu) (fun _ h => absurd h.symm hi) (fun _ h => absurd h.symm hi)
  · exact mergeDef_err_of hn.symm hN hk hcs hcu (fun _ h => absurd h hi) (fun _ h => absurd h hi)

/-- C05, a Node type with a non-`id` field declared by two services -/
theorem C05_conflict_rejected_node_field (A B : MergeInput) (hA : Loaded A.schema) (hB : Loaded B.schema)
    (h : NodeFieldTwice A.schema B.schema) : Rejected2 A B := by
  obtain ⟨a, b, hs, hk, hc, hr, hNa, _, f, hf, g, hg, hfg, hfb, hid⟩ := h
  apply rejected2_custom hA hB hs hk hc hr
  intro _
  exact customFields_err_node (notQuery_of_notRoot hr) hNa hg (hfg ▸ hfb) hid ⟨f, hf, hfg⟩

/-- C05, a shared plain type or input that is neither identical nor disjoint (the extra field on
    either side: apply with the services swapped for the other side) -/
theorem C05_conflict_rejected_partial (A B : MergeInput) (hA : Loaded A.schema) (hB : Loaded B.schema)
    (h : NeitherIdenticalNorDisjoint A.schema B.schema) : Rejected2 A B := by
  obtain ⟨a, b, hs, hk, hc, hr, ⟨f, hf, g, hg, hfg, hfb, hid⟩, ⟨g', hg', hgb', hno⟩⟩ := h
  apply rejected2_custom hA hB hs hk hc hr
  intro _
  exact customFields_err_partial (notQuery_of_notRoot hr) (hB.fields b hs.2.1) hg (hfg ▸ hfb) hid ⟨f, hf, hfg⟩ hg' hgb' hno

/-- C05, a shared field with different type or arguments -/
theorem C05_conflict_rejected_signature (A B : MergeInput) (hA : Loaded A.schema) (hB : Loaded B.schema)
    (h : FieldSignatureDiffers A.schema B.schema) : Rejected2 A B := by
  obtain ⟨a, b, hs, hk, hc, hr, f, hf, g, hg, hfg, hfb, hsig⟩ := h
  apply rejected2_custom hA hB hs hk hc hr
  intro _
  exact customFields_err_sig (notQuery_of_notRoot hr) (hA.fields a hs.1) hg (hfg ▸ hfb) hf hfg hsig

/-- C05, a union with different members -/
theorem C05_conflict_rejected_union (A B : MergeInput) (hA : Loaded A.schema) (hB : Loaded B.schema)
    (h : UnionMembersDiffer A.schema B.schema) : Rejected2 A B := by
  obtain ⟨a, b, hs, hka, hkb, hm⟩ := h
  have hn := hs.2.2.1
  have hN := hs.2.2.2.2
  exact rejected2_of hA hB hs (mergeDef_err_union (hn ▸ hN) hka hkb hm)
    (mergeDef_err_union hN hkb hka (by rw [sameMembers_comm]; exact hm))

end PebblesVerif.Merge
