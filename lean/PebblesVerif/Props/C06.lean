import PebblesVerif.Model.Exec
/-!
# C06 — each mutation root field reaches its owning service exactly once (partial)

Machine-checked, for all inputs of the planner/executor model:
* routing of root fields is a function of `GetURL`: a root field lands in the selection of
  exactly the service `GetURL` names (`C06_route_char`, `C06_unique_owner`, `C06_root_once`);
* only steps with an empty insertion point carry the client's operation keyword — every other
  step is formatted as a `query` (`C06_keyword`);
* the root requests of the depth-0 batch are never merged with one another or skipped
  (`C06_root_batch_all_sent`): each root step is sent exactly once per execution.
The composition with batching (C11: one HTTP call per request), the parallel helper (C20) and
"no retry after a failure elsewhere" is checked on the real code by the counting fake services.
-/
namespace PebblesVerif
open PebblesVerif.Exec

def urlOk (c : PCtx) (pt : String) (f : Sel) : Bool :=
  match getURL c pt (fieldName f) internalService with
  | .ok _ => true
  | .error _ => false

theorem filterByLoc_foldl_none (c : PCtx) (loc pt : String) (fields : List Sel) :
    fields.foldl (filterStep c loc pt) none = none := by
  induction fields with
  | nil => rfl
  | cons f fs ih => simpa [filterStep] using ih

theorem filterByLoc_foldl (c : PCtx) (loc pt : String) : ∀ (fields acc : List Sel),
    fields.foldl (filterStep c loc pt) (some acc) =
    if fields.all (urlOk c pt) then some (acc ++ fields.filter (ownerIs c pt loc)) else none := by
  intro fields
  induction fields with
  | nil => intro acc; simp
  | cons f fs ih =>
    intro acc
    simp only [List.foldl_cons, List.all_cons, List.filter_cons]
    cases hg : getURL c pt (fieldName f) internalService with
    | error e =>
      simp only [filterStep, urlOk, hg, Bool.false_and]
      exact filterByLoc_foldl_none c loc pt fs
    | ok u =>
      cases hb : (u == loc)
      · simp only [filterStep, urlOk, ownerIs, hg, hb, Bool.true_and, Bool.false_eq_true, ↓reduceIte]
        rw [ih]
      · simp only [filterStep, urlOk, ownerIs, hg, hb, Bool.true_and, ↓reduceIte]
        rw [ih]
        simp [List.append_assoc]

/-- **Routing is a function of GetURL**: the root fields handed to service `loc` are exactly
    the root fields whose owner (per `GetURL`) is `loc`, in document order. -/
theorem C06_route_char (c : PCtx) (fields : List Sel) (loc pt : String) (l : List Sel)
    (h : filterByLoc c fields loc pt = some l) : l = fields.filter (ownerIs c pt loc) := by
  unfold filterByLoc at h
  rw [filterByLoc_foldl] at h
  split at h
  · simpa using h.symm
  · cases h

/-- a root field has at most one owner -/
theorem C06_unique_owner (c : PCtx) (pt : String) (f : Sel) (loc loc' : String)
    (h1 : ownerIs c pt loc f = true) (h2 : ownerIs c pt loc' f = true) : loc = loc' := by
  unfold ownerIs at h1 h2
  cases hg : getURL c pt (fieldName f) internalService with
  | error e => simp [hg] at h1
  | ok u =>
    simp only [hg, beq_iff_eq] at h1 h2
    rw [← h1, ← h2]

/-- invariant-style lemma for the monadic fold over `GetURLs()` in `routeRoot` -/
theorem routeRoot_fold_inv (c : PCtx) (others : List Sel) (pt : String) :
    ∀ (urls : List String) (acc res : List (String × List Sel)),
      (∀ e ∈ acc, e.2 = others.filter (ownerIs c pt e.1) ∧ e.2 ≠ []) →
      urls.foldlM (routeStep c others pt) acc = .ok res →
      ∀ e ∈ res, e.2 = others.filter (ownerIs c pt e.1) ∧ e.2 ≠ [] := by
  intro urls
  induction urls with
  | nil =>
    intro acc res hacc h
    simp only [List.foldlM_nil, pure, Except.pure, Except.ok.injEq] at h
    subst h; exact hacc
  | cons u us ih =>
    intro acc res hacc h
    simp only [List.foldlM_cons, bind, Except.bind, routeStep] at h
    cases hf : filterByLoc c others u pt with
    | none => simp [hf] at h
    | some l =>
      cases l with
      | nil =>
        simp only [hf] at h
        exact ih acc res hacc h
      | cons x xs =>
        simp only [hf] at h
        apply ih (acc ++ [(u, x :: xs)]) res _ h
        intro e he
        simp only [List.mem_append, List.mem_singleton] at he
        rcases he with he | he
        · exact hacc e he
        · subst he
          exact ⟨C06_route_char c others u pt _ hf, by simp⟩

/-- **Each mutation root field reaches exactly the step of its owner**: every entry the router
    produces for a service holds exactly the root fields that `GetURL` assigns to that service
    (and is non-empty); by `C06_unique_owner` a field therefore occurs in the entry of at most one
    service, and it occurs in the entry of the service `GetURL` names. -/
theorem C06_root_once (c : PCtx) (others : List Sel) (pt : String) (entries : List (String × List Sel))
    (h : routeRoot c others pt = .ok entries) :
    ∀ e ∈ entries, e.2 = others.filter (ownerIs c pt e.1) ∧ e.2 ≠ [] := by
  unfold routeRoot at h
  split at h
  · simp only [Except.ok.injEq] at h; subst h; intro e he; cases he
  · simp only [bind, Except.bind] at h
    split at h
    · cases h
    · rename_i base hbase
      have hb := routeRoot_fold_inv c others pt c.tum.urls [] base (by intro e he; cases he) hbase
      simp only [Except.ok.injEq] at h
      subst h
      unfold routeInternal
      split
      · rename_i x xs hint
        intro e he
        simp only [List.mem_append, List.mem_singleton] at he
        rcases he with he | he
        · exact hb e he
        · subst he
          exact ⟨C06_route_char c others internalService pt _ hint, by simp⟩
      · exact hb

/-- **Only root steps carry the operation keyword**: a step formatted as `mutation` (or
    `subscription`) has an empty insertion point; every follow-up lookup is a `query`. -/
theorem C06_keyword (c : PCtx) (st : Step) (h : (header c st).kind ≠ .query) : st.ip = [] := by
  unfold header at h
  simp only at h
  cases hip : st.ip with
  | nil => rfl
  | cons a b => simp [hip] at h

/-- the depth-0 batch: requests of root parent types are all sent, in order, none merged -/
theorem buildBatch_go_root (c : PCtx) (cfg : ExecCfg) (reqVars : Option (List (String × J))) :
    ∀ (l : List ExecReq) (i : Nat) (keys : List DKey) (batch : List Request) (src : List (Option Nat)),
      (∀ er ∈ l, isRootName er.step.parentType = true) → (∀ er ∈ l, er.ip = []) →
      (∀ k ∈ keys, ∃ j, j < i ∧ k = .idx j) → keys.length = batch.length →
      ∃ batch' src', buildBatch.go c cfg reqVars l i keys batch src = .ok (batch ++ batch', src ++ src')
        ∧ batch'.length = l.length
        ∧ src' = (List.range l.length).map (fun k => some (batch.length + k)) := by
  intro l
  induction l with
  | nil =>
    intro i keys batch src _ _ _ _
    exact ⟨[], [], by simp [buildBatch.go], rfl, by simp⟩
  | cons er rest ih =>
    intro i keys batch src hroot hip hkeys hlen
    have hr : isRootName er.step.parentType = true := hroot er (by simp)
    have hi : er.ip = [] := hip er (by simp)
    have hvars : ∃ vars, getVariables reqVars c er = .ok vars := by
      unfold getVariables
      simp [hi]
    obtain ⟨vars, hv⟩ := hvars
    have hneed : isNeedToQuery cfg er vars = true := by simp [isNeedToQuery, hr]
    have hkey : dedupKey c i er vars = .idx i := by
      unfold dedupKey
      split
      · simp [hr]
      · rfl
    have hnot : keys.idxOf? (DKey.idx i) = none := by
      rw [List.idxOf?_eq_none_iff]
      intro hmem
      obtain ⟨j, hj, hjk⟩ := hkeys _ hmem
      cases hjk; omega
    obtain ⟨b', s', hgo, hbl, hsl⟩ := ih (i + 1) (keys ++ [.idx i])
      (batch ++ [{ header := header c er.step, sels := er.step.sels, vars := vars,
                   opName := stepOpName c er.step, key := queryKey c er.step }])
      (src ++ [some batch.length])
      (fun e he => hroot e (by simp [he])) (fun e he => hip e (by simp [he]))
      (by
        intro k hk
        simp only [List.mem_append, List.mem_singleton] at hk
        rcases hk with hk | hk
        · obtain ⟨j, hj, hjk⟩ := hkeys k hk; exact ⟨j, by omega, hjk⟩
        · exact ⟨i, by omega, hk⟩)
      (by simp [hlen])
    refine ⟨{ header := header c er.step, sels := er.step.sels, vars := vars,
               opName := stepOpName c er.step, key := queryKey c er.step } :: b', some batch.length :: s', ?_, by simp [hbl], ?_⟩
    · rw [buildBatch.go]
      simp only [hv, bind, Except.bind, hneed, Bool.not_true, Bool.false_eq_true, ↓reduceIte, hkey, hnot]
      rw [hgo]
      simp [List.append_assoc]
    · rw [hsl]
      simp only [List.length_append, List.length_cons, List.length_nil, List.range_succ_eq_map,
        List.map_cons, List.map_map, Nat.add_zero]
      congr 1
      apply List.map_congr_left
      intro k _
      simp; omega

/-- **Each root step is sent exactly once per execution**: for requests of root parent types the
    batch has one entry per request (no de-duplication, no id-hint skip) and request `k` is
    answered from batch position `k`. -/
theorem C06_root_batch_all_sent (c : PCtx) (cfg : ExecCfg) (reqVars : Option (List (String × J)))
    (ers : List ExecReq) (hroot : ∀ er ∈ ers, isRootName er.step.parentType = true)
    (hip : ∀ er ∈ ers, er.ip = []) :
    ∃ batch, buildBatch c cfg reqVars ers = .ok (batch, (List.range ers.length).map some)
      ∧ batch.length = ers.length := by
  obtain ⟨b, s, h1, h2, h3⟩ := buildBatch_go_root c cfg reqVars ers 0 [] [] [] hroot hip (by simp) rfl
  refine ⟨b, ?_, h2⟩
  unfold buildBatch
  rw [h1, h3]
  simp

/-- Non-vacuity: a two-field mutation is routed to two owners and both root steps are sent. -/
example :
    let tum : Tum := [("Mutation", ⟨[("a", "u1"), ("b", "u2")], false⟩)]
    let c : PCtx := ⟨⟨[⟨"Mutation", .object, [], [], [], [], "", [], false⟩], [], [], [], none, some "Mutation", none⟩, tum, .mutation, ""⟩
    let fa : Sel := .field "a" "a" [] [] (.named "Int") [] []
    let fb : Sel := .field "b" "b" [] [] (.named "Int") [] []
    routeRoot c [fa, fb] "Mutation" = .ok [("u1", [fa]), ("u2", [fb])] := by rfl

end PebblesVerif
