import PebblesVerif.Props.C06
import PebblesVerif.Proofs.Mut4
import PebblesVerif.Proofs.MutO4
/-!
C06, end to end, for an unbounded family of mutation operations: `mutation { m₁ … mₙ }`, n ≥ 1
distinct leaf root fields of `Mutation` (no arguments, alias = name), field `mᵢ` owned by the
service the type-URL map names, any number of services, any interleaving of owners
(`Mut.Fam` states exactly this about the merged schema and the table). Proofs in
`Proofs/Mut1…4.lean`.

What the planner does with a mutation (`C06_flat_mutation_plan`): ONE root step per owning
service, holding ALL the selected fields of that service in document order — not one step per
field, not one per run of consecutive same-owner fields — in `GetURLs()` order, all at depth 0.
Consequently (`C06_flat_mutation_not_serial`) the document order of mutation root fields owned by
different services is not the order in which they reach the services.

Second family (`MutO.Fam`, proofs in `Proofs/MutO1…4.lean`): `mutation { m₁ … mₙ o { f₁ … fₖ } }`,
n ≥ 0, where the root field `o` of a Node type `T` is owned by `A` and the leaf fields of `T` by `A`
or `B`: the follow-up lookup for `B`'s fields is issued as a `query`
(`C06_flat_followup_is_query`), every root field still reaches its owner exactly once, as a
`mutation`.
-/
namespace PebblesVerif
open PebblesVerif.Exec

/-- **The sequential planner's shape for mutations.** For every operation of the family the plan
    is: for each service that owns a selected root field (in `GetURLs()` order) exactly one step,
    at the root (parent type `Mutation`, empty insertion point, no child steps), whose selection
    set is the list of ALL selected root fields that service owns, in document order; nothing is
    scrubbed. The steps have pairwise different URLs. -/
theorem C06_flat_mutation_plan {c : PCtx} {ms : List Mut.MSpec} (h : Mut.Fam c ms) :
    plan c (Mut.op c ms) = .ok ((Mut.activeUrls c ms).map
        (fun u => Step.mk u "Mutation" (Mut.mleaves (ms.filter (fun f => f.2.2 == u))) [] []), []) ∧
    (Mut.activeUrls c ms).Nodup ∧
    (∀ f ∈ ms, f.2.2 ∈ Mut.activeUrls c ms) :=
  ⟨Mut.stage_plan' h, Mut.activeUrls_nodup c ms, Mut.mem_activeUrls h⟩

/-- **Any downstream, faults included.** For every operation of the family and EVERY downstream
    `down`, the gateway model's outcome is the envelope around the reference walk `Mut.run`: hand
    the expected calls `Mut.callsOf c ms` (one call per owning service, one request per call) to
    `down` once each, in order; stop at the first call that faults or is answered with the wrong
    number of objects. Nothing in the pipeline (batch building, de-duplication bookkeeping,
    grouping by URL, a failure of another call) evaluates `down` anywhere else or twice. -/
theorem C06_flat_mutation_walk {c : PCtx} {ms : List Mut.MSpec} (h : Mut.Fam c ms) (down : Downstream) :
    gateway c {} (Mut.op c ms) none down = Mut.envelope (Mut.run down (Mut.callsOf c ms) ⟨[], []⟩) :=
  Mut.stage_gateway h down

/-- **Each mutation root field reaches its owning service exactly once — end to end.** For every
    operation `mutation { m₁ … mₙ }` of the family (`ms` lists (name, type, owner) with
    `c.tum.get? "Mutation" name = some owner`, `Mut.Fam.tumMf`) and every downstream that answers
    every batch with one object per request, `Model.gateway` (sanitise → plan → execute → scrub)
    returns data, no errors, and a list `calls` of downstream calls such that
    (1) for every selected field there is EXACTLY ONE (URL, request) pair among all requests of all
        calls — counted with multiplicity, `Mut.sentWith` — whose request mentions the field,
    (2) that pair's URL is the field's owner,
    (3) that request is sent as a `mutation`,
    (4) every selection of every request sent is a selected root field whose owner (per the
        type-URL map) is the URL called — nothing goes to another service,
    and every call carries exactly one request, no service is called twice. -/
theorem C06_flat_mutation_calls {c : PCtx} {ms : List Mut.MSpec} (h : Mut.Fam c ms) (down : Downstream)
    (hdown : ∀ url batch, ∃ resps, down url batch = .ok resps ∧ resps.length = batch.length) :
    ∃ d calls, gateway c {} (Mut.op c ms) none down = .ok ⟨some d, [], calls⟩ ∧
      (∀ f ∈ ms, ∃ rq, Mut.sentWith calls f.1 = [(f.2.2, rq)] ∧ rq.header.kind = .mutation) ∧
      (∀ cl ∈ calls, ∀ rq ∈ cl.batch, ∀ s ∈ rq.sels,
          c.tum.get? "Mutation" (fieldName s) = some cl.url ∧ fieldName s ∈ Mut.mnames ms) ∧
      (∀ cl ∈ calls, cl.batch.length = 1) ∧ (calls.map (·.url)).Nodup := by
  obtain ⟨d, hr⟩ := Mut.run_ok down (Mut.callsOf c ms) ⟨[], []⟩ (fun cl _ => hdown cl.url cl.batch)
  refine ⟨d, Mut.callsOf c ms, ?_, ?_, ?_, (Mut.callsOf_shape c ms).1, (Mut.callsOf_shape c ms).2⟩
  · rw [Mut.stage_gateway h down, hr]
    simp [Mut.envelope]
  · intro f hf
    exact ⟨Mut.reqOf c ms f.2.2, Mut.sentWith_callsOf h f hf, Mut.reqOf_kind h _⟩
  · intro cl hcl rq hrq s hs
    obtain ⟨f, hf, rfl, hu⟩ := Mut.callsOf_own c ms cl hcl rq hrq s hs
    have hname : fieldName (Flat.leaf f.1 f.2.1) = f.1 := rfl
    rw [hname, ← hu]
    exact ⟨h.tumMf f hf, Mut.mem_mnames hf⟩

/-- the same with the calls spelled out: `calls` IS `Mut.callsOf c ms` — for each owning service
    `u` (in `GetURLs()` order) the call `⟨u, [mutation { <all selected fields u owns> }]⟩` -/
theorem C06_flat_mutation_calls_explicit {c : PCtx} {ms : List Mut.MSpec} (h : Mut.Fam c ms) (down : Downstream)
    (hdown : ∀ url batch, ∃ resps, down url batch = .ok resps ∧ resps.length = batch.length) :
    ∃ d, gateway c {} (Mut.op c ms) none down = .ok ⟨some d, [], Mut.callsOf c ms⟩ := by
  obtain ⟨d, hr⟩ := Mut.run_ok down (Mut.callsOf c ms) ⟨[], []⟩ (fun cl _ => hdown cl.url cl.batch)
  refine ⟨d, ?_⟩
  rw [Mut.stage_gateway h down, hr]
  simp [Mut.envelope]

/-- **A failure elsewhere in the plan.** If the downstream faults on one of the expected calls
    (message `m`) after answering the calls before it, the client gets the error envelope
    (`data: null`, `errors: [m]`); the calls before the faulting one were each made once (the walk
    over them records exactly them), the faulting call once, and the calls after it not at all:
    the outcome does not depend on what `down` would answer to them (`C06_flat_mutation_only_expected`). -/
theorem C06_flat_mutation_fault {c : PCtx} {ms : List Mut.MSpec} (h : Mut.Fam c ms) (down : Downstream)
    (pre post : List Call) (cl : Call) (m : String)
    (hsplit : Mut.callsOf c ms = pre ++ cl :: post)
    (hpre : ∀ x ∈ pre, Mut.Answered down x) (hfault : down cl.url cl.batch = .error (.err m)) :
    gateway c {} (Mut.op c ms) none down = .ok ⟨none, [m], []⟩ ∧
    (∃ d, Mut.run down pre ⟨[], []⟩ = .ok ⟨d, pre⟩) := by
  refine ⟨?_, ?_⟩
  · rw [Mut.stage_gateway h down, hsplit, Mut.run_fault down _ cl post pre _ hpre hfault]
    rfl
  · obtain ⟨d, hr⟩ := Mut.run_ok down pre ⟨[], []⟩ hpre
    exact ⟨d, by simpa using hr⟩

/-- **Nothing else is ever asked.** Two downstreams that agree on the expected calls give the same
    outcome: the pipeline consults the downstream on the expected calls only. -/
theorem C06_flat_mutation_only_expected {c : PCtx} {ms : List Mut.MSpec} (h : Mut.Fam c ms) (down down' : Downstream)
    (hagree : ∀ cl ∈ Mut.callsOf c ms, down cl.url cl.batch = down' cl.url cl.batch) :
    gateway c {} (Mut.op c ms) none down = gateway c {} (Mut.op c ms) none down' := by
  rw [Mut.stage_gateway h down, Mut.stage_gateway h down', Mut.run_congr down down' _ _ hagree]

/-- non-vacuity: a concrete federation (three mutation fields `m1 m2 m3` owned by `A B A`; the
    table lists `B` before `A`) meets every hypothesis of `C06_flat_mutation_calls` -/
theorem C06_flat_mutation_calls_instance : ∃ d calls,
    gateway Mut.Example.ctx {} (Mut.op Mut.Example.ctx Mut.Example.ms) none Mut.Example.downEmpty
      = .ok ⟨some d, [], calls⟩ ∧
    (∀ f ∈ Mut.Example.ms, ∃ rq, Mut.sentWith calls f.1 = [(f.2.2, rq)] ∧ rq.header.kind = .mutation) := by
  obtain ⟨d, calls, h1, h2, _⟩ := C06_flat_mutation_calls Mut.Example.fam Mut.Example.downEmpty
    Mut.Example.downEmpty_answers
  exact ⟨d, calls, h1, h2⟩

/-- **Mutation root fields owned by different services are not executed in document order**
    (a proved fact about the model, to be replayed on the real gateway): for
    `mutation { m1 m2 m3 }` with owners `A B A` the model makes two calls — `B` with
    `mutation { m2 }`, then `A` with `mutation { m1 m3 }` (in the real executor the groups of one
    depth run in parallel). `m3` travels together with `m1`, around `m2`; nothing orders `m2` after
    `m1` or before `m3`. GraphQL (spec §6.2.2) asks for serial execution of mutation root fields in
    document order. -/
theorem C06_flat_mutation_not_serial : ∃ d calls,
    gateway Mut.Example.ctx {} (Mut.op Mut.Example.ctx Mut.Example.ms) none Mut.Example.downEmpty
      = .ok ⟨some d, [], calls⟩ ∧
    Mut.Example.summary calls = [("B", [["m2"]]), ("A", [["m1", "m3"]])] := by
  obtain ⟨d, hg⟩ := C06_flat_mutation_calls_explicit Mut.Example.fam Mut.Example.downEmpty
    Mut.Example.downEmpty_answers
  exact ⟨d, _, hg, Mut.Example.summary_callsOf⟩

/-- **The plan of a mutation with an object-valued root field.** One root step per owning service
    (in `GetURLs()` order); the step of `A` — the owner of `o` — ends with `o { id <A's fields of T> }`
    and, if `B` owns a selected field of `T`, has ONE child step at `B`, insertion point `[o]`,
    `node(id: $id) { ... on T { <B's fields> } }`; the helper `id` is registered for scrubbing. -/
theorem C06_flat_followup_plan {c : PCtx} {ms : List Mut.MSpec} {A B T o : String} {fs : List Flat.FieldSpec}
    (h : MutO.Fam c ms A B T o fs) :
    plan c (MutO.op c ms T o fs) = .ok ((MutO.urlsOf c ms A T o fs).map (fun u =>
        Step.mk u "Mutation"
          (Mut.mleaves (ms.filter (fun f => f.2.2 == u)) ++ (if A == u then [Flat.Qown T o fs] else []))
          []
          (if A == u then Flat.stepsB B T o (Flat.fsB fs) else [])),
      [([o], [(T, ["id"])])]) :=
  MutO.stage_plan h

/-- **Follow-up lookups for fields owned by other services are issued as queries, not as
    mutations — end to end.** For every operation `mutation { m₁ … mₙ o { f₁ … fₖ } }` of the
    family (`MutO.Fam`: n ≥ 0 leaf root fields with their owners; `o : T` owned by `A`, `T` a Node
    type, each `fⱼ` a leaf owned by `A` or `B`, at least one by `B`: `hB`) and every downstream
    whose answers to the expected calls are well-formed (`MutO.Good`: every owning service answers
    its single root request with one object; `A`'s answer ends with an object under `o` carrying
    the string id `i`; nobody else answers with a key `o`; `B` answers the lookup with one object
    `{node: null | {…}}`), `Model.gateway` returns data, no errors, and the calls `roots ++ [⟨B, [rq]⟩]`
    where
    * `rq` — the only follow-up — is sent to `B` as a **`query`**: `node(id: $id) { ... on T { <B's
      fields> } }` with `$id = i`;
    * every request of `roots` is sent as a `mutation`, one request per call, no service twice,
      and each of its selections is a root field owned (per the type-URL map) by the URL called;
    * for every root field (the `mᵢ` and `o`) there is EXACTLY ONE (URL, request) pair among all
      requests of all calls, follow-up included, whose request mentions it (`Mut.sentWith`, with
      multiplicity): a `mutation` request at the field's owner.
    (`'#'`, `':'` do not occur in `o`: the insertion-point codec. The id `i` is an arbitrary
    non-empty string — it may contain `'#'`, the point is cut at the FIRST `'#'`, cf.
    `C01_point_hash_in_id`.) -/
theorem C06_flat_followup_is_query {c : PCtx} {ms : List Mut.MSpec} {A B T o : String} {fs : List Flat.FieldSpec}
    (h : MutO.Fam c ms A B T o fs) (hB : Flat.fsB fs ≠ []) (down : Downstream) (i : String)
    (ho1 : '#' ∉ o.toList) (ho2 : ':' ∉ o.toList) (hone : o ≠ "") (hine : i ≠ "")
    (hg : MutO.Good c ms A B T o fs down i) :
    ∃ d roots rq, gateway c {} (MutO.op c ms T o fs) none down = .ok ⟨some d, [], roots ++ [⟨B, [rq]⟩]⟩ ∧
      rq.header.kind = .query ∧
      rq.sels = convertToNodeQuery T (Flat.leaves (Flat.fsB fs)) ∧ rq.vars = [("id", .str i)] ∧
      (∀ cl ∈ roots, ∀ r ∈ cl.batch,
          r.header.kind = .mutation ∧ ∀ s ∈ r.sels, c.tum.get? "Mutation" (fieldName s) = some cl.url) ∧
      (∀ cl ∈ roots, cl.batch.length = 1) ∧ (roots.map (·.url)).Nodup ∧
      (∀ f ∈ MutO.roots ms A T o, ∃ r, Mut.sentWith (roots ++ [⟨B, [rq]⟩]) f.1 = [(f.2.2, r)] ∧
          r.header.kind = .mutation) := by
  obtain ⟨d, hgw⟩ := MutO.stage_gateway h down i ho1 ho2 hone hine hg
  have hfu : MutO.followUps c B T o fs i = [⟨B, [MutO.lookupReq c B T o fs i]⟩] := by
    simp [MutO.followUps, hB]
  refine ⟨d, MutO.rootCalls c ms A B T o fs, MutO.lookupReq c B T o fs i, ?_, MutO.lookupReq_kind c B T o fs i,
    rfl, rfl, MutO.rootCalls_own h, (MutO.rootCalls_shape c ms A B T o fs).1, (MutO.rootCalls_shape c ms A B T o fs).2, ?_⟩
  · rw [hgw, hfu]
  · intro f hf
    refine ⟨MutO.rootReq c ms A B T o fs f.2.2, ?_, MutO.rootReq_kind h _⟩
    rw [← hfu]
    exact MutO.sentWith_calls h i f hf

/-- when `B` owns none of the selected fields of `T` there is no follow-up at all: the calls are
    the root calls, all `mutation`s -/
theorem C06_flat_followup_none {c : PCtx} {ms : List Mut.MSpec} {A B T o : String} {fs : List Flat.FieldSpec}
    (h : MutO.Fam c ms A B T o fs) (hB : Flat.fsB fs = []) (down : Downstream) (i : String)
    (ho1 : '#' ∉ o.toList) (ho2 : ':' ∉ o.toList) (hone : o ≠ "") (hine : i ≠ "")
    (hg : MutO.Good c ms A B T o fs down i) :
    ∃ d roots, gateway c {} (MutO.op c ms T o fs) none down = .ok ⟨some d, [], roots⟩ ∧
      (∀ cl ∈ roots, ∀ r ∈ cl.batch,
          r.header.kind = .mutation ∧ ∀ s ∈ r.sels, c.tum.get? "Mutation" (fieldName s) = some cl.url) ∧
      (∀ f ∈ MutO.roots ms A T o, ∃ r, Mut.sentWith roots f.1 = [(f.2.2, r)] ∧ r.header.kind = .mutation) := by
  obtain ⟨d, hgw⟩ := MutO.stage_gateway h down i ho1 ho2 hone hine hg
  have hfu : MutO.followUps c B T o fs i = [] := by simp [MutO.followUps, hB]
  refine ⟨d, MutO.rootCalls c ms A B T o fs, ?_, MutO.rootCalls_own h, ?_⟩
  · rw [hgw, hfu, List.append_nil]
  · intro f hf
    refine ⟨MutO.rootReq c ms A B T o fs f.2.2, ?_, MutO.rootReq_kind h _⟩
    have := MutO.sentWith_calls h i f hf
    rw [hfu, List.append_nil] at this
    exact this

/-- non-vacuity: `mutation { m1 m2 createAnimal { age name sound } }` (`m1`, `createAnimal`, `name`,
    `sound` owned by `A`; `m2`, `age` by `B`) against a downstream with well-formed answers meets
    every hypothesis of `C06_flat_followup_is_query`; the calls are: `B` `mutation { m2 }`, `A`
    `mutation { m1 createAnimal {…} }`, then `B` `query { node(id: $id) {…} }` -/
theorem C06_flat_followup_is_query_instance : ∃ d calls,
    gateway MutO.Example.ctx {} MutO.Example.opEx none MutO.Example.down = .ok ⟨some d, [], calls⟩ ∧
    MutO.Example.summary calls
      = [("B", [(.mutation, ["m2"])]), ("A", [(.mutation, ["m1", "createAnimal"])]), ("B", [(.query, ["node"])])] := by
  obtain ⟨d, hgw⟩ := MutO.stage_gateway MutO.Example.fam MutO.Example.down "a#1" (by decide) (by decide) (by decide)
    (by decide) MutO.Example.good
  exact ⟨d, _, hgw, by decide⟩

end PebblesVerif
