import PebblesVerif.Props.C06
import PebblesVerif.Proofs.Mut4
/-!
C06, end to end, for an unbounded family of mutation operations: `mutation { m₁ … mₙ }`, n ≥ 1
distinct leaf root fields of `Mutation` (no arguments, alias = name), field `mᵢ` owned by the
service the type-URL map names, any number of services, any interleaving of owners
(`Mut.Fam` states exactly this about the merged schema and the table). Proofs in
`Proofs/Mut1…4.lean`.

What the planner does with a mutation (`C06_flat_mutation_plan`): ONE root step per owning
service, holding ALL the selected fields of that service in document order — not one step per
field, not one per run of consecutive same-owner fields — in `GetURLs()` order, all at depth 0.
Consequently (`C06_flat_mutation_not_serial`) the document order of mutation root fields owned by
different services is not the order in which they reach the services.
-/
namespace PebblesVerif
open PebblesVerif.Exec

/-- **The sequential planner's shape for mutations.** For every operation of the family the plan
    is: for each service that owns a selected root field (in `GetURLs()` order) exactly one step,
    at the root (parent type `Mutation`, empty insertion point, no child steps), whose selection
    set is the list of ALL selected root fields that service owns, in document order; nothing is
    scrubbed. The steps have pairwise different URLs. -/
theorem C06_flat_mutation_plan {c : PCtx} {ms : List Mut.MSpec} (h : Mut.Fam c ms) :
    plan c (Mut.op c ms) = .ok ((Mut.activeUrls c ms).map
        (fun u => Step.mk u "Mutation" (Mut.mleaves (ms.filter (fun f => f.2.2 == u))) [] []), []) ∧
    (Mut.activeUrls c ms).Nodup ∧
    (∀ f ∈ ms, f.2.2 ∈ Mut.activeUrls c ms) :=
  ⟨Mut.stage_plan' h, Mut.activeUrls_nodup c ms, Mut.mem_activeUrls h⟩

/-- **Any downstream, faults included.** For every operation of the family and EVERY downstream
    `down`, the gateway model's outcome is the envelope around the reference walk `Mut.run`: hand
    the expected calls `Mut.callsOf c ms` (one call per owning service, one request per call) to
    `down` once each, in order; stop at the first call that faults or is answered with the wrong
    number of objects. Nothing in the pipeline (batch building, de-duplication bookkeeping,
    grouping by URL, a failure of another call) evaluates `down` anywhere else or twice. -/
theorem C06_flat_mutation_walk {c : PCtx} {ms : List Mut.MSpec} (h : Mut.Fam c ms) (down : Downstream) :
    gateway c {} (Mut.op c ms) none down = Mut.envelope (Mut.run down (Mut.callsOf c ms) ⟨[], []⟩) :=
  Mut.stage_gateway h down

/-- **Each mutation root field reaches its owning service exactly once — end to end.** For every
    operation `mutation { m₁ … mₙ }` of the family (`ms` lists (name, type, owner) with
    `c.tum.get? "Mutation" name = some owner`, `Mut.Fam.tumMf`) and every downstream that answers
    every batch with one object per request, `Model.gateway` (sanitise → plan → execute → scrub)
    returns data, no errors, and a list `calls` of downstream calls such that
    (1) for every selected field there is EXACTLY ONE (URL, request) pair among all requests of all
        calls — counted with multiplicity, `Mut.sentWith` — whose request mentions the field,
    (2) that pair's URL is the field's owner,
    (3) that request is sent as a `mutation`,
    (4) every selection of every request sent is a selected root field whose owner (per the
        type-URL map) is the URL called — nothing goes to another service,
    and every call carries exactly one request, no service is called twice. -/
theorem C06_flat_mutation_calls {c : PCtx} {ms : List Mut.MSpec} (h : Mut.Fam c ms) (down : Downstream)
    (hdown : ∀ url batch, ∃ resps, down url batch = .ok resps ∧ resps.length = batch.length) :
    ∃ d calls, gateway c {} (Mut.op c ms) none down = .ok ⟨some d, [], calls⟩ ∧
      (∀ f ∈ ms, ∃ rq, Mut.sentWith calls f.1 = [(f.2.2, rq)] ∧ rq.header.kind = .mutation) ∧
      (∀ cl ∈ calls, ∀ rq ∈ cl.batch, ∀ s ∈ rq.sels,
          c.tum.get? "Mutation" (fieldName s) = some cl.url ∧ fieldName s ∈ Mut.mnames ms) ∧
      (∀ cl ∈ calls, cl.batch.length = 1) ∧ (calls.map (·.url)).Nodup := by
  obtain ⟨d, hr⟩ := Mut.run_ok down (Mut.callsOf c ms) ⟨[], []⟩ (fun cl _ => hdown cl.url cl.batch)
  refine ⟨d, Mut.callsOf c ms, ?_, ?_, ?_, (Mut.callsOf_shape c ms).1, (Mut.callsOf_shape c ms).2⟩
  · rw [Mut.stage_gateway h down, hr]
    simp [Mut.envelope]
  · intro f hf
    exact ⟨Mut.reqOf c ms f.2.2, Mut.sentWith_callsOf h f hf, Mut.reqOf_kind h _⟩
  · intro cl hcl rq hrq s hs
    obtain ⟨f, hf, rfl, hu⟩ := Mut.callsOf_own c ms cl hcl rq hrq s hs
    have hname : fieldName (Flat.leaf f.1 f.2.1) = f.1 := rfl
    rw [hname, ← hu]
    exact ⟨h.tumMf f hf, Mut.mem_mnames hf⟩

/-- the same with the calls spelled out: `calls` IS `Mut.callsOf c ms` — for each owning service
    `u` (in `GetURLs()` order) the call `⟨u, [mutation { <all selected fields u owns> }]⟩` -/
theorem C06_flat_mutation_calls_explicit {c : PCtx} {ms : List Mut.MSpec} (h : Mut.Fam c ms) (down : Downstream)
    (hdown : ∀ url batch, ∃ resps, down url batch = .ok resps ∧ resps.length = batch.length) :
    ∃ d, gateway c {} (Mut.op c ms) none down = .ok ⟨some d, [], Mut.callsOf c ms⟩ := by
  obtain ⟨d, hr⟩ := Mut.run_ok down (Mut.callsOf c ms) ⟨[], []⟩ (fun cl _ => hdown cl.url cl.batch)
  refine ⟨d, ?_⟩
  rw [Mut.stage_gateway h down, hr]
  simp [Mut.envelope]

/-- **A failure elsewhere in the plan.** If the downstream faults on one of the expected calls
    (message `m`) after answering the calls before it, the client gets the error envelope
    (`data: null`, `errors: [m]`); the calls before the faulting one were each made once (the walk
    over them records exactly them), the faulting call once, and the calls after it not at all:
    the outcome does not depend on what `down` would answer to them (`C06_flat_mutation_only_expected`). -/
theorem C06_flat_mutation_fault {c : PCtx} {ms : List Mut.MSpec} (h : Mut.Fam c ms) (down : Downstream)
    (pre post : List Call) (cl : Call) (m : String)
    (hsplit : Mut.callsOf c ms = pre ++ cl :: post)
    (hpre : ∀ x ∈ pre, Mut.Answered down x) (hfault : down cl.url cl.batch = .error (.err m)) :
    gateway c {} (Mut.op c ms) none down = .ok ⟨none, [m], []⟩ ∧
    (∃ d, Mut.run down pre ⟨[], []⟩ = .ok ⟨d, pre⟩) := by
  refine ⟨?_, ?_⟩
  · rw [Mut.stage_gateway h down, hsplit, Mut.run_fault down _ cl post pre _ hpre hfault]
    rfl
  · obtain ⟨d, hr⟩ := Mut.run_ok down pre ⟨[], []⟩ hpre
    exact ⟨d, by simpa using hr⟩

/-- **Nothing else is ever asked.** Two downstreams that agree on the expected calls give the same
    outcome: the pipeline consults the downstream on the expected calls only. -/
theorem C06_flat_mutation_only_expected {c : PCtx} {ms : List Mut.MSpec} (h : Mut.Fam c ms) (down down' : Downstream)
    (hagree : ∀ cl ∈ Mut.callsOf c ms, down cl.url cl.batch = down' cl.url cl.batch) :
    gateway c {} (Mut.op c ms) none down = gateway c {} (Mut.op c ms) none down' := by
  rw [Mut.stage_gateway h down, Mut.stage_gateway h down', Mut.run_congr down down' _ _ hagree]

/-- non-vacuity: a concrete federation (three mutation fields `m1 m2 m3` owned by `A B A`; the
    table lists `B` before `A`) meets every hypothesis of `C06_flat_mutation_calls` -/
theorem C06_flat_mutation_calls_instance : ∃ d calls,
    gateway Mut.Example.ctx {} (Mut.op Mut.Example.ctx Mut.Example.ms) none Mut.Example.downEmpty
      = .ok ⟨some d, [], calls⟩ ∧
    (∀ f ∈ Mut.Example.ms, ∃ rq, Mut.sentWith calls f.1 = [(f.2.2, rq)] ∧ rq.header.kind = .mutation) := by
  obtain ⟨d, calls, h1, h2, _⟩ := C06_flat_mutation_calls Mut.Example.fam Mut.Example.downEmpty
    Mut.Example.downEmpty_answers
  exact ⟨d, calls, h1, h2⟩

/-- **Mutation root fields owned by different services are not executed in document order**
    (a proved fact about the model, to be replayed on the real gateway): for
    `mutation { m1 m2 m3 }` with owners `A B A` the model makes two calls — `B` with
    `mutation { m2 }`, then `A` with `mutation { m1 m3 }` (in the real executor the groups of one
    depth run in parallel). `m3` travels together with `m1`, around `m2`; nothing orders `m2` after
    `m1` or before `m3`. GraphQL (spec §6.2.2) asks for serial execution of mutation root fields in
    document order. -/
theorem C06_flat_mutation_not_serial : ∃ d calls,
    gateway Mut.Example.ctx {} (Mut.op Mut.Example.ctx Mut.Example.ms) none Mut.Example.downEmpty
      = .ok ⟨some d, [], calls⟩ ∧
    Mut.Example.summary calls = [("B", [["m2"]]), ("A", [["m1", "m3"]])] := by
  obtain ⟨d, hg⟩ := C06_flat_mutation_calls_explicit Mut.Example.fam Mut.Example.downEmpty
    Mut.Example.downEmpty_answers
  exact ⟨d, _, hg, Mut.Example.summary_callsOf⟩

end PebblesVerif
