import PebblesVerif.Proofs.Parse
/-!
# C07 — every HTTP request gets a well-formed response; none can crash the gateway

Decode layer (`requests.Parse`, `parseRequest`, `injectFile`) and envelope (`queryHandler`,
`Results.Emit`, `emitError`), for ALL decoded inputs: every JSON value tree, every first-bracket
observation, every content-type header and method, every multipart form (operations, map, file
keys), every float-range oracle and every iteration order of the file map.

The models are parametrised by the facts regenerated from the source (`Gen.Requests.facts`).
`C07_facts` is the side condition "the four guards are there, statuses are 422/200, …"; it is
re-proved by `decide` against the current tree on every run, and is FALSE of the tree before
the `fix:` commits (`repo_fixes/requests-*.patch`) — the negative theorems
`C07_unrepaired_*` show, by evaluation of the same model with the guards off, the concrete
decoded inputs on which that tree panics.

Outside these theorems (trusted codecs, exercised by the correspondence run only): bytes → JSON,
bytes → multipart form, `net/http`. The stages between decode and envelope (validate, plan,
execute, scrub) are the parameter `run`; their totality is C07's pipeline part, owned by the
planner/executor models.
-/
namespace PebblesVerif.Parse
open PebblesVerif PebblesVerif.Upload PebblesVerif.Envelope
open PebblesVerif.Gen.Requests (Facts facts repaired unrepaired)

/-- The regenerated facts of `requests/request.go`, `gateway.go`, `queryer/files.go` are the
ones the theorems below need (all four guards present; first-bracket batch detection; accepted
content types; 422 / 200). -/
theorem C07_facts : facts = repaired := by decide

theorem guards_now : Guards facts := by rw [C07_facts]; decide

/-- general form: with the four guards, `parse` never panics -/
theorem parse_no_panic (F : Facts) (hg : Guards F) (fits : String → Bool)
    (order : List (Nat × String × List String) → List (Nat × String × List String))
    (method header : String) (p : Payload) : (parse F fits order method header p).isPanic = false := by
  unfold parse
  split
  · rfl
  · simp only
    split
    · exact parseRequest_no_panic F hg.1 fits _ _
    · split
      · split
        · rfl
        · have h := parseRequest_no_panic F hg.1 fits p.firstBracket p.body
          split
          · rfl
          · rename_i heq; rw [heq] at h; simp [Res.isPanic] at h
          · rename_i reqs batch _
            split
            · rfl
            · split
              · rfl
              · rename_i entries _
                split
                · rfl
                · have h2 := injectEntries_no_panic F hg batch p.files (order (numberEntries 0 entries)) reqs
                  split
                  · rfl
                  · rfl
                  · rename_i heq; rw [heq] at h2; simp [Res.isPanic] at h2
      · rfl

/-- **C07_parse_total.** For the tree as it is now: whatever the client sends — any JSON value
(including `[null]`, wrong member types, any key case), any first bracket, any content type and
method, any multipart form with any file map (missing, duplicate, out-of-range, malformed or
negative paths, missing files), in any map iteration order — `requests.Parse` returns a value or
an error; it never panics. -/
theorem C07_parse_total (fits : String → Bool)
    (order : List (Nat × String × List String) → List (Nat × String × List String))
    (method header : String) (p : Payload) : (parse facts fits order method header p).isPanic = false :=
  parse_no_panic facts guards_now fits order method header p

/-- a non-batch success carries exactly one request, so `rs[0]` in `Results.Emit` is in range -/
theorem parse_single (F : Facts) (fits : String → Bool)
    (order : List (Nat × String × List String) → List (Nat × String × List String))
    (method header : String) (p : Payload) (reqs : List Req)
    (h : parse F fits order method header p = .ok (reqs, false)) : reqs.length = 1 := by
  unfold parse at h
  split at h
  · cases h
  · simp only at h
    split at h
    · exact parseRequest_single F fits _ _ _ h
    · split at h
      · split at h
        · cases h
        · split at h
          · cases h
          · cases h
          · rename_i reqs0 batch heq
            split at h
            · cases h
            · split at h
              · cases h
              · split at h
                · cases h
                · split at h
                  · rename_i reqs1 hinj
                    simp at h
                    obtain ⟨h1, h2⟩ := h
                    subst h1; subst h2
                    rw [injectEntries_length F _ _ _ _ _ hinj]
                    exact parseRequest_single F fits _ _ _ heq
                  · cases h
                  · cases h
      · cases h

theorem C07_single_has_one (fits : String → Bool)
    (order : List (Nat × String × List String) → List (Nat × String × List String))
    (method header : String) (p : Payload) (reqs : List Req)
    (h : parse facts fits order method header p = .ok (reqs, false)) : reqs.length = 1 :=
  parse_single facts fits order method header p reqs h

/-- the handler's envelope logic is total on whatever `parse` returns -/
theorem respond_total (F : Facts) (hg : Guards F) (fits : String → Bool)
    (order : List (Nat × String × List String) → List (Nat × String × List String))
    (method header : String) (p : Payload) (run : Req → Outcome) :
    ∃ resp, respond F (parse F fits order method header p) run = .ok resp := by
  have hp := parse_no_panic F hg fits order method header p
  have hs := parse_single F fits order method header p
  generalize parse F fits order method header p = r at hp hs
  cases r with
  | panic x => simp [Res.isPanic] at hp
  | err e => exact ⟨_, rfl⟩
  | ok a =>
    obtain ⟨reqs, batch⟩ := a
    cases batch with
    | true => exact ⟨_, rfl⟩
    | false =>
      have := hs reqs rfl
      cases reqs with
      | nil => simp at this
      | cons r rest => exact ⟨_, rfl⟩

/-- **C07_handler_total.** decode + envelope never panic, for every `run`. -/
theorem C07_handler_total (fits : String → Bool)
    (order : List (Nat × String × List String) → List (Nat × String × List String))
    (method header : String) (p : Payload) (run : Req → Outcome) :
    ∃ resp, respond facts (parse facts fits order method header p) run = .ok resp :=
  respond_total facts guards_now fits order method header p run

/-- **C07_status.** The status is 422 exactly when the request could not be decoded, and 200
exactly when it could. -/
theorem C07_status (fits : String → Bool)
    (order : List (Nat × String × List String) → List (Nat × String × List String))
    (method header : String) (p : Payload) (run : Req → Outcome) (resp : Response)
    (h : respond facts (parse facts fits order method header p) run = .ok resp) :
    (resp.status = 422 ↔ (parse facts fits order method header p).isErr = true) ∧
    (resp.status = 200 ↔ (parse facts fits order method header p).isOk = true) := by
  have hf : facts.decodeFailStatus = 422 ∧ facts.okStatus = 200 := by rw [C07_facts]; decide
  generalize parse facts fits order method header p = r at h
  cases r with
  | panic x => cases h
  | err e =>
    simp [respond] at h
    subst h
    simp [Res.isErr, Res.isOk, hf.1]
  | ok a =>
    obtain ⟨reqs, batch⟩ := a
    unfold respond at h
    simp only at h
    split at h
    · simp at h; subst h; simp [Res.isErr, Res.isOk, hf.2]
    · split at h
      · simp at h; subst h; simp [Res.isErr, Res.isOk, hf.2]
      · cases h

theorem isEnvelope_encodeResult (r : Result) : isEnvelope (encodeResult r) = true := by
  unfold encodeResult
  cases he : r.errors with
  | nil => simp [isEnvelope, J.lookup]
  | cons x xs => simp [isEnvelope, J.lookup]

theorem isErrorEnvelope_invalid (errs : List J) (h : errs ≠ []) :
    isErrorEnvelope (encodeResult (resultOf (.invalid errs))) = true := by
  cases errs with
  | nil => exact absurd rfl h
  | cons x xs => simp [isErrorEnvelope, isEnvelope, encodeResult, resultOf, J.lookup]

/-- **C07_envelope.** The body is `{data, errors?}` — an array of those, one per operation and
in order, in batch mode; a request that could not be decoded gets `errors` and `data: null`;
and so does every operation that is invalid (its `Result` is built from a non-empty error list
with nil data). -/
theorem C07_envelope (fits : String → Bool)
    (order : List (Nat × String × List String) → List (Nat × String × List String))
    (method header : String) (p : Payload) (run : Req → Outcome) (resp : Response)
    (h : respond facts (parse facts fits order method header p) run = .ok resp) :
    match parse facts fits order method header p with
    | .err _ => isErrorEnvelope resp.body = true
    | .panic _ => False
    | .ok (reqs, batch) =>
      wellFormedBody batch reqs.length resp.body = true ∧
      (batch = true → resp.body = .arr (reqs.map (fun r => encodeResult (resultOf (run r))))) ∧
      (batch = false → ∃ r, reqs = [r] ∧ resp.body = encodeResult (resultOf (run r))) ∧
      (∀ r errs, run r = .invalid errs → errs ≠ [] → isErrorEnvelope (encodeResult (resultOf (run r))) = true) := by
  have hs := C07_single_has_one fits order method header p
  generalize parse facts fits order method header p = r at h hs
  cases r with
  | panic x => cases h
  | err e =>
    simp [respond] at h
    subst h
    simp [isErrorEnvelope, isEnvelope, J.lookup]
  | ok a =>
    obtain ⟨reqs, batch⟩ := a
    simp only
    have hinv : ∀ r errs, run r = .invalid errs → errs ≠ [] →
        isErrorEnvelope (encodeResult (resultOf (run r))) = true := by
      intro r errs hr hne
      rw [hr]; exact isErrorEnvelope_invalid errs hne
    cases batch with
    | true =>
      simp [respond] at h
      subst h
      refine ⟨?_, ?_, ?_, hinv⟩
      · simp [wellFormedBody, isEnvelope_encodeResult]
      · intro _; rfl
      · intro hc; cases hc
    | false =>
      have h1 := hs reqs rfl
      match reqs, h1 with
      | [r], _ =>
        simp [respond] at h
        subst h
        refine ⟨?_, ?_, ?_, hinv⟩
        · have := isEnvelope_encodeResult (resultOf (run r))
          unfold wellFormedBody
          cases hb : encodeResult (resultOf (run r)) with
          | arr xs => rw [hb] at this; simp [isEnvelope] at this
          | _ => rw [hb] at this; simpa using this
        · intro hc; cases hc
        · intro _; exact ⟨r, rfl, rfl⟩

/-! ## what the tree before the `fix:` commits does (same model, guards off) -/

private def okFits : String → Bool := fun _ => true

/-- body `[null]` (any JSON content type): `r.Query` on a nil `*Request` -/
theorem C07_unrepaired_nil_request_panics :
    parse unrepaired okFits id "POST" "application/json"
      { firstBracket := some true, body := some (.arr [.null]) } = .panic .nilRequest := by decide

/-- and a nil request later in the batch, after a valid one -/
theorem C07_unrepaired_nil_request_later_panics :
    parse unrepaired okFits id "POST" ""
      { firstBracket := some true, body := some (.arr [.obj [("query", .str "{ping}")], .null]) } = .panic .nilRequest := by
  decide

private def opsBatch1 : Payload :=
  { firstBracket := some true, body := some (.arr [.obj [("query", .str "q"), ("variables", .obj [("f", .null)])]]),
    files := ["0"] }

/-- batch path `"0"`: `parts[1:]` is empty and `parts[0]` panics -/
theorem C07_unrepaired_batch_path_index_only_panics :
    parse unrepaired okFits id "POST" "multipart/form-data; boundary=x"
      { opsBatch1 with map := some (.obj [("0", .arr [.str "0"])]) } = .panic .partsEmpty := by decide

/-- out-of-range batch index: `r.Requests[5]` with one request -/
theorem C07_unrepaired_batch_index_out_of_range_panics :
    parse unrepaired okFits id "POST" "multipart/form-data; boundary=x"
      { opsBatch1 with map := some (.obj [("0", .arr [.str "5.variables.f"])]) } = .panic .requestIndex := by decide

/-- negative batch index -/
theorem C07_unrepaired_batch_index_negative_panics :
    parse unrepaired okFits id "POST" "multipart/form-data; boundary=x"
      { opsBatch1 with map := some (.obj [("0", .arr [.str "-1.variables.f"])]) } = .panic .requestIndex := by decide

/-- negative list index: only the upper bound is checked -/
theorem C07_unrepaired_negative_list_index_panics :
    parse unrepaired okFits id "POST" "multipart/form-data; boundary=x"
      { firstBracket := some false,
        body := some (.obj [("query", .str "q"), ("variables", .obj [("files", .arr [.null])])]),
        map := some (.obj [("0", .arr [.str "variables.files.-1"])]), files := ["0"] } = .panic .listIndex := by decide

/-- the same four inputs on the repaired facts: errors, not panics (the guards are what changed) -/
theorem C07_repaired_same_inputs_are_errors :
    parse repaired okFits id "POST" "application/json"
      { firstBracket := some true, body := some (.arr [.null]) } = .err .missingQuery ∧
    parse repaired okFits id "POST" "multipart/form-data; boundary=x"
      { opsBatch1 with map := some (.obj [("0", .arr [.str "0"])]) } = .err .missingVariablesKeyword ∧
    parse repaired okFits id "POST" "multipart/form-data; boundary=x"
      { opsBatch1 with map := some (.obj [("0", .arr [.str "5.variables.f"])]) } = .err .requestIndexOutOfBound ∧
    parse repaired okFits id "POST" "multipart/form-data; boundary=x"
      { firstBracket := some false,
        body := some (.obj [("query", .str "q"), ("variables", .obj [("files", .arr [.null])])]),
        map := some (.obj [("0", .arr [.str "variables.files.-1"])]), files := ["0"] } = .err .indexOutOfBound := by
  decide

/-! non-vacuity: the success paths are inhabited -/

example : parse repaired okFits id "POST" "application/json; charset=utf-8"
    { firstBracket := some false, body := some (.obj [("QUERY", .str "{ping}"), ("variableſ", .obj [("a", .num "1")])]) }
    = .ok ([{ query := "{ping}", vars := some [("a", .scalar "n:1")], opName := none }], false) := by decide

example : parse repaired okFits id "POST" "multipart/form-data; boundary=x"
    { opsBatch1 with map := some (.obj [("0", .arr [.str "0.variables.f"])]) }
    = .ok ([{ query := "q", vars := some [("f", .upload 0)], opName := none }], true) := by decide

example : (respond repaired (.ok ([{ query := "q", vars := none, opName := none }], false))
    (fun _ => .invalid [.str "e"])).isOk = true := by decide

end PebblesVerif.Parse
