import PebblesVerif.Model.GatewayBatch
import PebblesVerif.Props.C20
import PebblesVerif.Gen.GatewayBatch
/-!
# C08 — batched requests are answered in order and independently

Ordering/placement for every batch length and every interleaving of the per-operation
goroutines: composition of C20 (each index reduced exactly once, in some order, never
concurrently) with the placement lemma below (placement by carried index is order-independent).
Independence of content: in the model `h i` is a function of request `i` alone (and immutable
gateway state); that the real per-request pipeline has this shape is what the correspondence
run checks (batch vs the same operations sent singly).
-/
namespace PebblesVerif.GatewayBatch
open PebblesVerif

/-- the batch handling in gateway.go has the shape the model was written for (regenerated) -/
theorem C08_facts : Gen.GatewayBatch.facts = Gen.GatewayBatch.expected := by decide

theorem placeAll_inv (n : Nat) (h : Nat → β) (σ : List Nat) :
    ∀ (acc : List (Option β)) (D : List Nat), acc.length = n → (∀ i ∈ σ, i < n) →
      (∀ j, j < n → acc[j]? = some (if j ∈ D then some (h j) else none)) →
      ∃ res, σ.foldl (fun acc i => acc.bind (fun a => place a (i, h i))) (some acc) = some res ∧
        res.length = n ∧ ∀ j, j < n → res[j]? = some (if j ∈ D ∨ j ∈ σ then some (h j) else none) := by
  induction σ with
  | nil =>
    intro acc D hl _ hD
    exact ⟨acc, rfl, hl, fun j hj => by simpa using hD j hj⟩
  | cons i σ ih =>
    intro acc D hl hσ hD
    have hi : i < n := hσ i (by simp)
    have hpl : place acc (i, h i) = some (acc.set i (some (h i))) := by simp [place, hl, hi]
    obtain ⟨res, h1, h2, h3⟩ := ih (acc.set i (some (h i))) (i :: D) (by simpa using hl)
      (fun j hj => hσ j (by simp [hj])) (by
        intro j hj
        rw [List.getElem?_set]
        by_cases hij : i = j
        · subst hij; simp [hl, hi]
        · have : ¬ j = i := fun e => hij e.symm
          simp [hij, this, hD j hj])
    refine ⟨res, ?_, h2, ?_⟩
    · simpa only [List.foldl_cons, Option.bind_some, hpl] using h1
    · intro j hj
      rw [h3 j hj]
      congr 1
      simp only [List.mem_cons]
      by_cases h1 : j = i <;> by_cases h2 : j ∈ D <;> by_cases h3 : j ∈ σ <;> simp [h1, h2, h3]

/-- **Placement is order-independent**: whatever order the per-request results reach the reducer
    in (each index present), no slice assignment is out of range and slot `i` holds result `i`. -/
theorem C08_place_any_order (n : Nat) (h : Nat → β) (σ : List Nat)
    (hlt : ∀ i ∈ σ, i < n) (hall : ∀ i, i < n → i ∈ σ) :
    placeAll n h σ = some (spec n h) := by
  obtain ⟨res, h1, h2, h3⟩ := placeAll_inv n h σ (List.replicate n none) [] (by simp) hlt
    (by intro j hj; simp [hj])
  unfold placeAll
  rw [h1]; congr 1
  apply List.ext_getElem?
  intro j
  by_cases hj : j < n
  · rw [h3 j hj]
    simp [spec, hj, hall j hj]
  · rw [List.getElem?_eq_none (by omega), List.getElem?_eq_none (by simp [spec]; omega)]

/-- **C08 ordering, all interleavings**: when the helper returns (any schedule of the `n`
    handler goroutines, reducer and caller; the map function never returns an error), the
    response array is `[h 0, …, h (n-1)]`. -/
theorem C08_order {c : AMR.Cfg} {s : AMR.St} (hr : AMR.Reach c s) (hm : s.main = .returned)
    (hok : ∀ i, i < c.n → c.ok[i]? = some true) (h : Nat → β) :
    placeAll c.n h s.acc = some (spec c.n h) := by
  apply C08_place_any_order
  · intro i hi
    have := (AMR.mem_acc_iff hr hm i).mp hi
    exact AMR.lt_of_getElem?_eq_some this
  · intro i hi
    exact (AMR.mem_acc_iff hr hm i).mpr (hok i hi)

theorem C08_len (n : Nat) (h : Nat → β) : (spec n h).length = n := by simp [spec]

/-- the empty batch `[]` is answered `[]` -/
theorem C08_empty (h : Nat → β) : placeAll 0 h [] = some [] := rfl

/-- Non-vacuity: three requests, completion order 2,0,1. -/
example : placeAll 3 (fun i => i * 10) [2, 0, 1] = some [some 0, some 10, some 20] := by decide

end PebblesVerif.GatewayBatch
