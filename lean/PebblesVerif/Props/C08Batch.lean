import PebblesVerif.Model.GatewayBatch
import PebblesVerif.Model.GatewayFlow
import PebblesVerif.Props.C08
import PebblesVerif.Props.C10
import PebblesVerif.Gen.GatewayEmit
/-!
# C08 — the batch as a whole: per-request closure ∘ placement ∘ `Results.Emit`

`Props/C08.lean` proves that placement by carried index is order-independent. Here the result
placed for request `i` is the answer of the per-request closure of `gateway.queryHandler`
(`GatewayFlow.handle`, the interpreter over the statement order regenerated from gateway.go) on
the abstract outcomes of request `i`, and the response body is what `Results.Emit` encodes:

* `C08_batch_answers` — any batch (any mix of invalid operations, unknown operation names, plan
  errors, introspection and executed operations), any interleaving of the handler goroutines:
  position `i` of the response holds the answer to request `i`;
* `C08_batch_independent` — two batches of equal length that agree at position `i`, under any
  two interleavings, answer position `i` alike: an invalid / failing neighbour changes neither
  the content nor the position of the others;
* `C08_batch_executes` — the number of `Execute` calls of a batch is the number of its requests
  that are valid, select an operation, plan and are not introspection: an invalid request adds no
  downstream traffic to a batch (C10's no-call at batch level);
* `C08_emit_*`, `C08_response` — the body is an array of exactly N elements in batch mode and the
  single element otherwise (`Parse` hands exactly one request to a non-batch body: C07_single_has_one).

The outcomes are ABSTRACT (DESIGN §4.6): that the real validate / plan / execute of request `i`
read nothing another request of the batch writes is what the batch-vs-single differential and
the race-detector pass check.
-/
namespace PebblesVerif.GatewayBatch
open PebblesVerif PebblesVerif.GatewayFlow

/-- the answer of the per-request closure to request `i` of the batch `os` -/
def answerOf (os : List Outcomes) (i : Nat) : Answer :=
  match os[i]? with
  | some o => (handle o).1
  | none => .fellThrough   -- never read: the payload is `lo.Range(len(rs.Requests))`

/-- what `Results.Emit` hands to the JSON encoder -/
inductive Body (β : Type) where
  | array (xs : List β)
  | single (x : β)
  | panic            -- `rs[0]` on an empty slice
  deriving DecidableEq, Repr

/-- `Results.Emit` (gateway.go): `if isBatch { e.Encode(rs) } else { e.Encode(rs[0]) }` -/
def emit (isBatch : Bool) (rs : List β) : Body β :=
  if isBatch then .array rs else
    match rs with
    | x :: _ => .single x
    | [] => .panic

/-- `Results.Emit` has the shape `emit` was written for (regenerated from gateway.go) -/
theorem C08_emit_facts : Gen.GatewayEmit.facts = Gen.GatewayEmit.expected := by decide

theorem spec_answerOf (os : List Outcomes) :
    spec os.length (answerOf os) = os.map (fun o => some (handle o).1) := by
  apply List.ext_getElem?
  intro j
  by_cases hj : j < os.length
  · simp [spec, answerOf, hj]
  · rw [List.getElem?_eq_none (by simp [spec]; omega), List.getElem?_eq_none (by simp; omega)]

/-- **C08, whole batch, all interleavings**: when the helper returns, slot `i` of the result
    slice holds the answer of the per-request closure to request `i`, for every mix of
    outcomes. -/
theorem C08_batch_answers {c : AMR.Cfg} {s : AMR.St} (hr : AMR.Reach c s) (hm : s.main = .returned)
    (hok : ∀ i, i < c.n → c.ok[i]? = some true) (os : List Outcomes) (hn : c.n = os.length) :
    placeAll c.n (answerOf os) s.acc = some (os.map (fun o => some (handle o).1)) := by
  rw [C08_order hr hm hok (answerOf os), hn, spec_answerOf]

/-- **C08 independence**: two batches of the same length that agree at position `i`, run under
    any two interleavings, carry the same answer at position `i` — and that answer is the one
    request `i` gets when it is sent alone (`handle o`). -/
theorem C08_batch_independent {c c' : AMR.Cfg} {s s' : AMR.St}
    (hr : AMR.Reach c s) (hm : s.main = .returned) (hok : ∀ i, i < c.n → c.ok[i]? = some true)
    (hr' : AMR.Reach c' s') (hm' : s'.main = .returned) (hok' : ∀ i, i < c'.n → c'.ok[i]? = some true)
    (os os' : List Outcomes) (hn : c.n = os.length) (hn' : c'.n = os'.length)
    (i : Nat) (o : Outcomes) (hi : os[i]? = some o) (hi' : os'[i]? = some o) :
    ∃ res res', placeAll c.n (answerOf os) s.acc = some res ∧
      placeAll c'.n (answerOf os') s'.acc = some res' ∧
      res[i]? = some (some (handle o).1) ∧ res'[i]? = some (some (handle o).1) := by
  refine ⟨_, _, C08_batch_answers hr hm hok os hn, C08_batch_answers hr' hm' hok' os' hn', ?_, ?_⟩
  · simp [List.getElem?_map, hi]
  · simp [List.getElem?_map, hi']

/-- a request that reaches `Execute` -/
def executes (o : Outcomes) : Bool := o.valid && o.operationFound && o.planOk && !o.introspection

theorem executes_handle (o : Outcomes) : (handle o).2.executes = if executes o then 1 else 0 := by
  obtain ⟨v, a, b, c⟩ := o
  cases v <;> cases a <;> cases b <;> cases c <;> decide

/-- **no-call at batch level**: the `Execute` calls of a batch (the only statements that are
    handed the queryers) number exactly its executing requests; invalid operations, unknown
    operation names, plan errors and introspection add none, wherever they stand in the batch. -/
theorem C08_batch_executes (os : List Outcomes) :
    (os.map (fun o => (handle o).2.executes)).sum = (os.filter executes).length := by
  induction os with
  | nil => rfl
  | cons o os ih =>
    simp only [List.map_cons, List.sum_cons, List.filter_cons, ih, executes_handle o]
    cases executes o <;> simp <;> omega

/-- a batch none of whose requests executes makes no downstream call at all -/
theorem C08_batch_no_call (os : List Outcomes) (h : ∀ o ∈ os, executes o = false) :
    (os.map (fun o => (handle o).2.executes)).sum = 0 := by
  rw [C08_batch_executes, List.length_eq_zero_iff, List.filter_eq_nil_iff]
  intro o ho; simp [h o ho]

/-- batch mode: the body is the whole array, one element per request, in request order —
    also for the empty batch `[]` -/
theorem C08_emit_batch (rs : List β) : emit true rs = .array rs := rfl

/-- single mode: the body is the one result (never the array) -/
theorem C08_emit_single (x : β) : emit false [x] = .single x := rfl

/-- **C08 response**: the HTTP body of a batch of N requests is an array of N answers, answer
    `i` being the closure's answer to request `i`, under every interleaving. -/
theorem C08_response {c : AMR.Cfg} {s : AMR.St} (hr : AMR.Reach c s) (hm : s.main = .returned)
    (hok : ∀ i, i < c.n → c.ok[i]? = some true) (os : List Outcomes) (hn : c.n = os.length) :
    ∃ res, placeAll c.n (answerOf os) s.acc = some res ∧
      emit true res = .array (os.map (fun o => some (handle o).1)) ∧ res.length = os.length := by
  exact ⟨_, C08_batch_answers hr hm hok os hn, rfl, by simp⟩

/-- Non-vacuity: invalid, executed, unknown operation name, introspection, plan error — in one
    batch, completion order 4,2,0,3,1. -/
example :
    let os : List Outcomes := [⟨false, false, false, false⟩, ⟨true, true, true, false⟩,
      ⟨true, false, false, false⟩, ⟨true, true, true, true⟩, ⟨true, true, false, false⟩]
    placeAll 5 (answerOf os) [4, 2, 0, 3, 1] =
      some [some .validationError, some .executed, some .operationError,
            some .introspectionResult, some .planError]
    ∧ (os.map (fun o => (handle o).2.executes)).sum = 1 := by decide

/-- the model of `Emit` does distinguish the modes: a one-element batch is still an array -/
example : emit true [7] ≠ emit false [7] := by decide

end PebblesVerif.GatewayBatch
