import PebblesVerif.Proofs.QueryBatch
import PebblesVerif.Proofs.ResultMerge
import PebblesVerif.Proofs.InsertionPoints
import PebblesVerif.Props.C10
import PebblesVerif.Props.C11

/-!
# C09 — downstream failures are contained and reported, never masked

The downstream is universally quantified: `Wire` is ANY answer (transport failure, any status,
a body that is not JSON, any JSON value). `decodeExchange` is the gateway's decode path for one
downstream HTTP call (`fetch` → `queryBatch` → `executeRequests`' count check → `parseRespones`'
node unwrapping), parametrised by the guards the extractor finds in the source.

* `C09_signal_reported_*` — one theorem per failure signal of the statement: the decode path ends
  in an `error` value whose formatted list is non-empty, and (by `C10_errors_preserved`) the
  client's `errors` is then non-empty. Each is proved for every `Facts` having the guard it needs
  (`…_of`), and instantiated at the facts regenerated from the CURRENT source (`C09_decode_facts`).
  On the tree before `repo_fixes/faults-1/2` the guards `lengthCheck` / `dataCheck` are absent, the
  instantiation fails, and the examples at the end show what the code then does (index panic;
  silently accepted empty result).
* `C09_no_panic` — no answer makes the decode path panic (given the count guard).
* `C09_no_invention` — the merge functions only move subtrees: every scalar leaf of the merged
  result is a scalar leaf of one of the merged step results, which are sub-objects of downstream
  answers (`unwrapNode`).
-/
set_option linter.unusedSimpArgs false
namespace PebblesVerif.QB
open PebblesVerif PebblesVerif.Errors
open PebblesVerif.Gen.QueryBatchFacts (Facts)

/-- the decode path ends in an error value that reaches the client as a non-empty `errors` -/
def Reported (r : G α) : Prop :=
  ∃ cls e, r = .error (.err cls e) ∧ clientErrors [.direct e] ≠ []

theorem reported_of_isErr {r : G α} (h : IsErr r) : Reported r := by
  obtain ⟨cls, e, hr, hne⟩ := h
  refine ⟨cls, e, hr, ?_⟩
  rw [C10_errors_preserved]
  simpa [GroupErr.flat] using hne

theorem decodeExchange_of_qb_err {f : Facts} {url : String} {child : List Bool} {w : Wire} {flt : Fault}
    (h : queryBatch f url child.length w = .error flt) : decodeExchange f url child w = .error flt := by
  simp [decodeExchange, h]

theorem queryBatch_of_fetch_err {f : Facts} {url : String} {n : Nat} {w : Wire} {flt : Fault}
    (h : fetch f w = .error flt) : queryBatch f url n w = .error flt := by
  simp [queryBatch, h]

theorem isErr_of_fetch {f : Facts} {url : String} {child : List Bool} {w : Wire} (cls : String) (m : String)
    (h : fetch f w = .error (.err cls (.other m))) : Reported (decodeExchange f url child w) :=
  reported_of_isErr ⟨cls, .other m, decodeExchange_of_qb_err (queryBatch_of_fetch_err h), formatError_other_ne m⟩

/-- the facts regenerated from the current source have every guard -/
theorem C09_decode_facts : Gen.QueryBatchFacts.facts = Gen.QueryBatchFacts.expected := by decide

/-! ## failure signals -/

/-- transport error -/
theorem C09_signal_reported_transport (f : Facts) (url : String) (child : List Bool) (msg : String) :
    Reported (decodeExchange f url child (.transportErr msg)) :=
  isErr_of_fetch "transport" msg (by simp [fetch])

/-- status outside 2xx (whatever the body) -/
theorem C09_signal_reported_status_of (f : Facts) (hs : f.statusCheck = true) (url : String) (child : List Bool)
    (status : Nat) (body : Option J) (h : status < 200 ∨ status > 299) :
    Reported (decodeExchange f url child (.resp status body)) :=
  isErr_of_fetch "status" (statusMsg status) (by simp [fetch, hs, h])

/-- body that is not JSON -/
theorem C09_signal_reported_not_json (f : Facts) (url : String) (child : List Bool) (status : Nat) :
    Reported (decodeExchange f url child (.resp status none)) := by
  by_cases h : f.statusCheck = true ∧ (status < 200 ∨ status > 299)
  · exact isErr_of_fetch "status" (statusMsg status) (by simp [fetch, h])
  · exact isErr_of_fetch "notjson" "invalid character looking for beginning of value" (by simp [fetch, h])

theorem fetch_ok_body {f : Facts} {status : Nat} {j : J} (hs : 200 ≤ status ∧ status ≤ 299) :
    fetch f (.resp status (some j)) = match decodeResponses j with
      | .error m => .error (.err "type" (.other m))
      | .ok rs => .ok rs := by
  have : ¬ (f.statusCheck = true ∧ (status < 200 ∨ status > 299)) := by omega
  simp only [fetch, if_neg this]
  cases decodeResponses j <;> rfl

/-- body that is JSON but not an array (including `null`, which `encoding/json` accepts as an empty slice) -/
theorem C09_signal_reported_not_array_of (f : Facts) (hl : f.lengthCheck = true) (url : String) (child : List Bool)
    (hn : child ≠ []) (status : Nat) (hs : 200 ≤ status ∧ status ≤ 299) (j : J) (hj : j.isArr = false) :
    Reported (decodeExchange f url child (.resp status (some j))) := by
  have hlen : child.length ≠ 0 := by intro h; exact hn (List.length_eq_zero_iff.mp h)
  cases j with
  | arr xs => simp [J.isArr] at hj
  | null =>
    apply reported_of_isErr
    refine ⟨"count", .other (countMsg url child.length 0), ?_, formatError_other_ne _⟩
    apply decodeExchange_of_qb_err
    simp [queryBatch, fetch_ok_body hs, decodeResponses, hl]
    omega
  | bool b => exact isErr_of_fetch "type" "json: cannot unmarshal into Go value of type requests.Responses" (by rw [fetch_ok_body hs]; simp [decodeResponses])
  | num r => exact isErr_of_fetch "type" "json: cannot unmarshal into Go value of type requests.Responses" (by rw [fetch_ok_body hs]; simp [decodeResponses])
  | str s => exact isErr_of_fetch "type" "json: cannot unmarshal into Go value of type requests.Responses" (by rw [fetch_ok_body hs]; simp [decodeResponses])
  | obj kvs => exact isErr_of_fetch "type" "json: cannot unmarshal into Go value of type requests.Responses" (by rw [fetch_ok_body hs]; simp [decodeResponses])

/-- array of the wrong length (shorter — also empty — or longer) -/
theorem C09_signal_reported_wrong_length_of (f : Facts) (hl : f.lengthCheck = true) (url : String) (child : List Bool)
    (status : Nat) (hs : 200 ≤ status ∧ status ≤ 299) (xs : List J) (hx : xs.length ≠ child.length) :
    Reported (decodeExchange f url child (.resp status (some (.arr xs)))) := by
  cases hd : decodeResponses (.arr xs) with
  | error m => exact isErr_of_fetch "type" m (by rw [fetch_ok_body hs, hd])
  | ok rs =>
    have hrl : rs.length = xs.length := mapM_length _ _ _ (by simpa [decodeResponses] using hd)
    apply reported_of_isErr
    refine ⟨"count", .other (countMsg url child.length rs.length), ?_, formatError_other_ne _⟩
    apply decodeExchange_of_qb_err
    simp [queryBatch, fetch_ok_body hs, hd, hl, hrl, hx]

/-- the element carries a non-empty `errors` array -/
def HasErrors (x : J) : Prop :=
  ∃ kvs es, x = .obj kvs ∧ lookupFold "errors" kvs = some (.arr es) ∧ es ≠ []

/-- the element carries no `data` (absent, `null`, or the element itself is `null`) -/
def NoData (x : J) : Prop :=
  x = .null ∨ ∃ kvs, x = .obj kvs ∧ (lookupFold "data" kvs = none ∨ lookupFold "data" kvs = some .null)

theorem decodeResp_hasErrors {x : J} {r : Resp} (hx : HasErrors x) (hd : decodeResp x = .ok r) :
    r.errors.length ≠ 0 := by
  obtain ⟨kvs, es, rfl, hl, hne⟩ := hx
  simp only [decodeResp, hl, decodeErrors, bind, Except.bind] at hd
  split at hd
  · cases hd
  · rename_i l hl'
    split at hd
    · cases hd
    · simp only [pure, Except.pure] at hd
      cases hd
      have := mapM_length _ _ _ hl'
      simp only [this]
      intro h0; exact hne (List.length_eq_zero_iff.mp h0)

theorem decodeResp_noData {x : J} {r : Resp} (hx : NoData x) (hd : decodeResp x = .ok r) :
    r.data.isNone = true := by
  rcases hx with rfl | ⟨kvs, rfl, hl⟩
  · simp [decodeResp] at hd; subst hd; rfl
  · simp only [decodeResp, bind, Except.bind] at hd
    split at hd
    · cases hd
    · rcases hl with hl | hl <;> simp [hl, decodeData, pure, Except.pure] at hd <;> subst hd <;> rfl

/-- common part of the element-level signals: a right-length array one element of which decodes to a
    response the loop reports -/
theorem reported_of_bad_elem (f : Facts) (url : String) (child : List Bool) (status : Nat)
    (hs : 200 ≤ status ∧ status ≤ 299) (xs : List J) (hlen : xs.length = child.length) (x : J) (hx : x ∈ xs)
    (hbad : ∀ r, decodeResp x = .ok r → Bad f r) :
    Reported (decodeExchange f url child (.resp status (some (.arr xs)))) := by
  cases hd : decodeResponses (.arr xs) with
  | error m => exact isErr_of_fetch "type" m (by rw [fetch_ok_body hs, hd])
  | ok rs =>
    have hd' : xs.mapM decodeResp = .ok rs := by simpa [decodeResponses] using hd
    have hrl : rs.length = xs.length := mapM_length _ _ _ hd'
    obtain ⟨r, hr, hrx⟩ := mapM_mem _ _ _ hd' x hx
    have hloop := loop_reports f url child.length rs 0 [] (List.replicate child.length none) (by omega)
      (Or.inr ⟨r, hr, hbad r hrx⟩)
    obtain ⟨cls, e, he, hne⟩ := hloop
    apply reported_of_isErr
    refine ⟨cls, e, ?_, hne⟩
    apply decodeExchange_of_qb_err
    simp [queryBatch, fetch_ok_body hs, hd, hrl, hlen, he]

/-- `errors` -/
theorem C09_signal_reported_errors_of (f : Facts) (ha : f.errorsAbort = true) (url : String) (child : List Bool)
    (status : Nat) (hs : 200 ≤ status ∧ status ≤ 299) (xs : List J) (hlen : xs.length = child.length)
    (x : J) (hx : x ∈ xs) (he : HasErrors x) :
    Reported (decodeExchange f url child (.resp status (some (.arr xs)))) :=
  reported_of_bad_elem f url child status hs xs hlen x hx (fun _ hd => Or.inl ⟨ha, decodeResp_hasErrors he hd⟩)

/-- missing `data` -/
theorem C09_signal_reported_missing_data_of (f : Facts) (hdc : f.dataCheck = true) (url : String) (child : List Bool)
    (status : Nat) (hs : 200 ≤ status ∧ status ≤ 299) (xs : List J) (hlen : xs.length = child.length)
    (x : J) (hx : x ∈ xs) (hn : NoData x) :
    Reported (decodeExchange f url child (.resp status (some (.arr xs)))) :=
  reported_of_bad_elem f url child status hs xs hlen x hx (fun _ hd => Or.inr ⟨hdc, decodeResp_noData hn hd⟩)

/-- the data of a child step lacks `node`, or `node` is neither an object nor `null` -/
def NodeBad (d : Option Obj) : Prop :=
  J.lookup "node" (d.getD []) = none ∨ ∃ v, J.lookup "node" (d.getD []) = some v ∧ v.isNull = false ∧ v.isObj = false

theorem unwrapNode_bad (f : Facts) (hm : f.nodeMissingIsError = true) (hn : f.nodeNotMapIsError = true)
    (d : Option Obj) (h : NodeBad d) : IsErr (unwrapNode f true d) := by
  rcases h with h | ⟨v, h, h1, h2⟩
  · exact ⟨"node-missing", .other "missing node key when expected", by simp [unwrapNode, h, hm], formatError_other_ne _⟩
  · refine ⟨"node-not-map", .other "node is not a map", ?_, formatError_other_ne _⟩
    cases v <;> simp_all [unwrapNode, J.isNull, J.isObj]

theorem unwrapNode_err_or_ok (f : Facts) (c : Bool) (d : Option Obj) :
    (∃ o, unwrapNode f c d = .ok o) ∨ IsErr (unwrapNode f c d) := by
  unfold unwrapNode
  cases c
  · exact Or.inl ⟨_, rfl⟩
  · simp only [Bool.not_true, Bool.false_eq_true, ↓reduceIte]
    split
    · split
      · exact Or.inr ⟨_, _, rfl, formatError_other_ne _⟩
      · exact Or.inl ⟨_, rfl⟩
    · exact Or.inl ⟨_, rfl⟩
    · exact Or.inl ⟨_, rfl⟩
    · split
      · exact Or.inr ⟨_, _, rfl, formatError_other_ne _⟩
      · exact Or.inl ⟨_, rfl⟩

theorem unwrapNode_not_panic (f : Facts) (c : Bool) (d : Option Obj) (w : String) :
    unwrapNode f c d ≠ .error (.panic w) := by
  rcases unwrapNode_err_or_ok f c d with ⟨o, ho⟩ | ⟨cls, e, he, _⟩
  · rw [ho]; simp
  · rw [he]; simp

theorem mem_zipWith_of_getElem? {α β γ : Type} (g : α → β → γ) :
    ∀ (as : List α) (bs : List β) (i : Nat) (a : α) (b : β), as[i]? = some a → bs[i]? = some b →
      g a b ∈ List.zipWith g as bs
  | [], _, i, _, _, ha, _ => by simp at ha
  | _ :: _, [], i, _, _, _, hb => by simp at hb
  | x :: as, y :: bs, 0, a, b, ha, hb => by simp at ha hb; subst ha; subst hb; simp
  | x :: as, y :: bs, i + 1, a, b, ha, hb => by
    simp at ha hb
    simp only [List.zipWith_cons_cons, List.mem_cons]
    exact Or.inr (mem_zipWith_of_getElem? g as bs i a b ha hb)

theorem formatErrorL_ne_of_mem {e : GoErr} {es : List GoErr} (he : e ∈ es) (hne : formatError e ≠ []) :
    formatErrorL es ≠ [] := by
  cases hf : formatError e with
  | nil => exact absurd hf hne
  | cons x xs =>
    intro h
    have : x ∈ formatErrorL es := mem_formatErrorL he (by rw [hf]; simp)
    rw [h] at this
    cases this

theorem unwrapAll_reports (f : Facts) (hm : f.nodeMissingIsError = true) (hn : f.nodeNotMapIsError = true)
    (cs : List Bool) (ds : List (Option Obj)) (i : Nat) (d : Option Obj)
    (hc : cs[i]? = some true) (hd : ds[i]? = some d) (hb : NodeBad d) : IsErr (unwrapAll f cs ds) := by
  obtain ⟨cls, e, he, hne⟩ := unwrapNode_bad f hm hn d hb
  have hmem : unwrapNode f true d ∈ List.zipWith (unwrapNode f) cs ds :=
    mem_zipWith_of_getElem? (unwrapNode f) cs ds i true d hc hd
  have hin : e ∈ (List.zipWith (unwrapNode f) cs ds).filterMap errOf :=
    List.mem_filterMap.mpr ⟨_, hmem, by rw [he]; rfl⟩
  unfold unwrapAll
  simp only
  split
  · rename_i hemp
    rw [List.isEmpty_iff] at hemp
    rw [hemp] at hin
    cases hin
  · exact ⟨"node", _, rfl, by simpa [formatError] using formatErrorL_ne_of_mem hin hne⟩

theorem queryBatch_ok_length {f : Facts} {url : String} {n : Nat} {w : Wire} {results : List (Option Obj)}
    (h : queryBatch f url n w = .ok results) : results.length = n := by
  unfold queryBatch at h
  split at h
  · cases h
  · split at h
    · cases h
    · rw [loop_ok_length _ _ _ _ _ _ _ _ h, List.length_replicate]

/-- missing or mistyped `node` -/
theorem C09_signal_reported_node_of (f : Facts) (hm : f.nodeMissingIsError = true) (hn : f.nodeNotMapIsError = true)
    (url : String) (child : List Bool) (w : Wire) (results : List (Option Obj))
    (hq : queryBatch f url child.length w = .ok results)
    (i : Nat) (d : Option Obj) (hc : child[i]? = some true) (hd : results[i]? = some d) (hb : NodeBad d) :
    Reported (decodeExchange f url child w) := by
  apply reported_of_isErr
  obtain ⟨cls, e, he, hne⟩ := unwrapAll_reports f hm hn child results i d hc hd hb
  refine ⟨cls, e, ?_, hne⟩
  simp [decodeExchange, hq, countCheck, queryBatch_ok_length hq, he]

/-! ### the same, at the facts regenerated from the current source -/

private theorem cur : Gen.QueryBatchFacts.facts = Gen.QueryBatchFacts.expected := C09_decode_facts

theorem C09_signal_reported_status (url : String) (child : List Bool) (status : Nat) (body : Option J)
    (h : status < 200 ∨ status > 299) :
    Reported (decodeExchange Gen.QueryBatchFacts.facts url child (.resp status body)) :=
  C09_signal_reported_status_of _ (by rw [cur]; rfl) url child status body h

theorem C09_signal_reported_not_array (url : String) (child : List Bool) (hn : child ≠ []) (status : Nat)
    (hs : 200 ≤ status ∧ status ≤ 299) (j : J) (hj : j.isArr = false) :
    Reported (decodeExchange Gen.QueryBatchFacts.facts url child (.resp status (some j))) :=
  C09_signal_reported_not_array_of _ (by rw [cur]; rfl) url child hn status hs j hj

theorem C09_signal_reported_wrong_length (url : String) (child : List Bool) (status : Nat)
    (hs : 200 ≤ status ∧ status ≤ 299) (xs : List J) (hx : xs.length ≠ child.length) :
    Reported (decodeExchange Gen.QueryBatchFacts.facts url child (.resp status (some (.arr xs)))) :=
  C09_signal_reported_wrong_length_of _ (by rw [cur]; rfl) url child status hs xs hx

theorem C09_signal_reported_errors (url : String) (child : List Bool) (status : Nat)
    (hs : 200 ≤ status ∧ status ≤ 299) (xs : List J) (hlen : xs.length = child.length)
    (x : J) (hx : x ∈ xs) (he : HasErrors x) :
    Reported (decodeExchange Gen.QueryBatchFacts.facts url child (.resp status (some (.arr xs)))) :=
  C09_signal_reported_errors_of _ (by rw [cur]; rfl) url child status hs xs hlen x hx he

theorem C09_signal_reported_missing_data (url : String) (child : List Bool) (status : Nat)
    (hs : 200 ≤ status ∧ status ≤ 299) (xs : List J) (hlen : xs.length = child.length)
    (x : J) (hx : x ∈ xs) (hn : NoData x) :
    Reported (decodeExchange Gen.QueryBatchFacts.facts url child (.resp status (some (.arr xs)))) :=
  C09_signal_reported_missing_data_of _ (by rw [cur]; rfl) url child status hs xs hlen x hx hn

theorem C09_signal_reported_node (url : String) (child : List Bool) (w : Wire) (results : List (Option Obj))
    (hq : queryBatch Gen.QueryBatchFacts.facts url child.length w = .ok results)
    (i : Nat) (d : Option Obj) (hc : child[i]? = some true) (hd : results[i]? = some d) (hb : NodeBad d) :
    Reported (decodeExchange Gen.QueryBatchFacts.facts url child w) :=
  C09_signal_reported_node_of _ (by rw [cur]; rfl) (by rw [cur]; rfl) url child w results hq i d hc hd hb

/-- the executor's own count check, for ANY `Queryer` (not only `MultiOpQueryer`): a queryer that returns
    `k ≠ n` results is reported, never dereferenced -/
theorem C09_signal_reported_wrong_count_any_queryer (n k : Nat) (h : k ≠ n) :
    IsErr (countCheck Gen.QueryBatchFacts.facts n k) := by
  refine ⟨"count-executor", .other "not all requests were fetched", ?_, formatError_other_ne _⟩
  simp [countCheck, h, cur, Gen.QueryBatchFacts.expected]

/-! ## no panic -/

def beforeFix4 : Facts := { Gen.QueryBatchFacts.expected with rootListGuard := false }

theorem unwrapAll_no_panic (f : Facts) (cs : List Bool) (ds : List (Option Obj)) (w : String) :
    unwrapAll f cs ds ≠ .error (.panic w) := by
  unfold unwrapAll
  simp only
  split <;> simp

/-- **No answer makes the decode path panic**, given the response-count guard of `queryBatch`. -/
theorem C09_no_panic_of (f : Facts) (hl : f.lengthCheck = true) (url : String) (child : List Bool) (w : Wire)
    (what : String) : decodeExchange f url child w ≠ .error (.panic what) := by
  cases hq : queryBatch f url child.length w with
  | error flt =>
    rw [decodeExchange_of_qb_err hq]
    intro h
    cases h
    -- queryBatch itself cannot panic
    unfold queryBatch at hq
    cases hf : fetch f w with
    | error flt' =>
      rw [hf] at hq
      simp only at hq
      cases hq
      unfold fetch at hf
      cases w with
      | transportErr m => simp at hf
      | resp s b =>
        simp only at hf
        split at hf
        · simp at hf
        · split at hf
          · simp at hf
          · split at hf <;> simp at hf
    | ok resps =>
      rw [hf] at hq
      simp only at hq
      split at hq
      · simp at hq
      · rename_i hc
        have hlen : resps.length = child.length := by
          by_cases h : resps.length = child.length
          · exact h
          · exact absurd ⟨hl, h⟩ hc
        exact loop_no_panic f url child.length resps 0 [] _ (by omega) what hq
  | ok results =>
    have : decodeExchange f url child w = unwrapAll f child results := by
      simp [decodeExchange, hq, countCheck, queryBatch_ok_length hq]
    rw [this]
    exact unwrapAll_no_panic f child results what

theorem C09_no_panic (url : String) (child : List Bool) (w : Wire) (what : String) :
    decodeExchange Gen.QueryBatchFacts.facts url child w ≠ .error (.panic what) :=
  C09_no_panic_of _ (by rw [cur]; rfl) url child w what

/-- **`FindInsertionPoints` (as modelled: one starting branch) never panics** on any answer, whatever its shape,
    given the bounds guard of `repo_fixes/faults-4`; every shape contradiction is an `error` or "no points". -/
theorem C09_fip_no_panic_of (f : Facts) (hg : f.rootListGuard = true) (target : List String) (sel : List IP.Sel)
    (result : Obj) (start : List String) (what : String) :
    IP.findInsertionPoints f target sel result start ≠ .error (.panic what) :=
  IP.fip_no_panic f hg what _ _ _ _

theorem C09_fip_no_panic (target : List String) (sel : List IP.Sel) (result : Obj) (start : List String) (what : String) :
    IP.findInsertionPoints Gen.QueryBatchFacts.facts target sel result start ≠ .error (.panic what) :=
  C09_fip_no_panic_of _ (by rw [cur]; rfl) target sel result start what

/-- before `faults-4`: a list answered for a non-list field on the last point of a child step's path -/
example : IP.findInsertionPoints beforeFix4 ["a"] [.field "a" false false [.field "id" false true []]]
    [("a", .arr [])] [] = .error (.panic "index out of range [0] with length 0 (rootList[i])") := by rfl

/-- non-vacuity: a list of entities yields one insertion point per element, with index and id -/
example : IP.findInsertionPoints Gen.QueryBatchFacts.expected ["a", "bs"]
    [.field "a" false false [.field "bs" true false [.field "id" false true []]]]
    [("a", .obj [("bs", .arr [.obj [("id", .str "x")], .obj [("id", .num "7")]])])] []
    = .ok [["a", "bs:0#x"], ["a", "bs:1#7"]] := by rfl

/-- a `null` element of a list answer: passed over with the guard `if iEntry == nil { continue }` (the points
    collected so far stay, the walk goes on; which shape the code has is the regenerated fact
    `Gen.Nulls.findIPSkipsNullElements`, C01 is the property that needs it) — and without the guard an error
    like any other non-map element; never a panic (`C09_fip_no_panic` holds for both shapes) -/
example (rec : Obj → List String → G (List (List String))) (pts : List (List String)) :
    IP.entryStep true "bs" true ["a"] rec (.ok pts) (.null, 3) = .ok pts
    ∧ IP.entryStep false "bs" true ["a"] rec (.ok pts) (.null, 3)
        = .error (some (IP.ferr "entry-not-map" "entry in result wasn't a map")) := ⟨rfl, rfl⟩

/-- a successful `queryBatch` returns exactly one result per request — the hypothesis `hlen` under which
    `C11_any_order` shows the chunked path's reducer never panics and loses nothing -/
theorem C09_results_length (f : Facts) (url : String) (n : Nat) (w : Wire) (results : List (Option Obj))
    (h : queryBatch f url n w = .ok results) : results.length = n := queryBatch_ok_length h

/-! ## what the code did before the repairs (the guards absent) -/

def beforeFix1 : Facts := { Gen.QueryBatchFacts.expected with lengthCheck := false, dataCheck := false, collectAllErrors := false }

/-- longer array ⇒ index panic (`repo_fixes/faults-1`) -/
example : decodeExchange beforeFix1 "u" [false]
    (.resp 200 (some (.arr [.obj [("data", .obj [])], .obj [("data", .obj [])]])))
    = .error (.panic "index out of range (results[toFetchIndexes[i]])") := by
  have k2 : keyMatch "errors" "data" = false := keyMatch_false (by decide) (by decide)
  simp [decodeExchange, queryBatch, fetch, beforeFix1, Gen.QueryBatchFacts.expected, decodeResponses, decodeResp,
    decodeErrors, decodeData, lookupFold, keyMatch_self, k2, bind, Except.bind, pure, Except.pure, loop,
    List.mapM_cons, List.mapM_nil]

/-- shorter array, and missing `data`, ⇒ accepted as empty results, no error (`faults-1`, `faults-2`) -/
example : decodeExchange beforeFix1 "u" [false, false] (.resp 200 (some (.arr [.obj []]))) = .ok [[], []] := by
  simp [decodeExchange, queryBatch, fetch, beforeFix1, Gen.QueryBatchFacts.expected, decodeResponses, decodeResp,
    decodeErrors, decodeData, lookupFold, bind, Except.bind, pure, Except.pure, loop, countCheck, unwrapAll,
    unwrapNode, List.mapM_cons, List.mapM_nil]

/-- non-vacuity of the signal theorems: a well-formed answer is accepted and unwrapped -/
example : decodeExchange Gen.QueryBatchFacts.expected "u" [false, true]
    (.resp 200 (some (.arr [.obj [("data", .obj [("a", .num "1")])], .obj [("data", .obj [("node", .obj [("b", .str "x")])])]])))
    = .ok [[("a", .num "1")], [("b", .str "x")]] := by
  have k2 : keyMatch "errors" "data" = false := keyMatch_false (by decide) (by decide)
  simp [decodeExchange, queryBatch, fetch, Gen.QueryBatchFacts.expected, decodeResponses, decodeResp,
    decodeErrors, decodeData, lookupFold, keyMatch_self, k2, bind, Except.bind, pure, Except.pure, loop, countCheck,
    unwrapAll, unwrapNode, errOf, okOf, J.lookup, List.mapM_cons, List.mapM_nil]

end PebblesVerif.QB

/-! ## no invention -/
namespace PebblesVerif.ResultMerge
open PebblesVerif

/-- **`mergeMaps` / `mergeSlices` only move subtrees**: every scalar leaf of the merged value is a scalar
    leaf of the left or of the right operand (they create nothing but containers). -/
theorem C09_no_invention_mergeMaps (safe : Bool) (left right m : List (String × J)) (h : mergeObj safe left right = .ok m) :
    ∀ x ∈ leavesO m, x ∈ leavesO left ∨ x ∈ leavesO right := mergeObj_leaves safe right left m h

theorem C09_no_invention_mergeSlices (safe : Bool) (left right m : List J) (h : mergeArr safe left 0 right = .ok m) :
    ∀ x ∈ leavesL m, x ∈ leavesL left ∨ x ∈ leavesL right := mergeArr_leaves safe right left 0 m h

/-- **No invention.** Merging the step results of an execution into the (initially empty) result, in any
    order the steps complete: every scalar leaf of `data` is a scalar leaf of one of the step results. -/
theorem C09_no_invention (safe : Bool) (results : List (List (String × J))) (m : List (String × J))
    (h : mergeAll safe [] results = .ok m) : ∀ x ∈ leavesO m, ∃ r ∈ results, x ∈ leavesO r := by
  intro x hx
  rcases mergeAll_leaves safe results [] m h x hx with h1 | h1
  · simp [leavesO] at h1
  · exact h1

/-- … and a step result is a sub-object of the downstream answer it was unwrapped from -/
theorem C09_no_invention_unwrap (f : Gen.QueryBatchFacts.Facts) (c : Bool) (d : Option QB.Obj) (o : QB.Obj)
    (h : QB.unwrapNode f c d = .ok o) : ∀ x ∈ leavesO o, x ∈ leavesO (d.getD []) := by
  intro x hx
  unfold QB.unwrapNode at h
  split at h
  · cases h; exact hx
  · split at h
    · split at h
      · cases h
      · cases h; simp [leavesO] at hx
    · cases h; simp [leavesO] at hx
    · rename_i o' hl
      cases h
      exact leaves_of_lookup hl x (by simpa [leaves] using hx)
    · split at h
      · cases h
      · cases h; simp [leavesO] at hx

/-- **The merge never panics** once ids are compared with `reflect.DeepEqual` (`repo_fixes/faults-5`): merging any
    step results, of any shape, yields a value. -/
theorem C09_merge_no_panic_of (results : List (List (String × J))) : ∃ m, mergeAll true [] results = .ok m :=
  mergeAll_safe results []

theorem C09_merge_no_panic (results : List (List (String × J))) :
    ∃ m, mergeAll Gen.QueryBatchFacts.facts.safeIdCompare [] results = .ok m := by
  have : Gen.QueryBatchFacts.facts.safeIdCompare = true := by rw [QB.C09_decode_facts]; rfl
  rw [this]; exact mergeAll_safe results []

/-- non-vacuity: a merge that matches list elements by `id`, merges nested maps and appends -/
example : mergeObj true [("l", .arr [.obj [("id", .str "1"), ("a", .num "1")]])]
    [("l", .arr [.obj [("id", .str "1"), ("b", .num "2")], .obj [("id", .str "2")]]), ("k", .bool true)]
    = .ok [("l", .arr [.obj [("id", .str "1"), ("a", .num "1"), ("b", .num "2")], .obj [("id", .str "2")]]), ("k", .bool true)] := by
  rfl

/-- before `faults-5` (`==`): two list elements whose `id`s are both maps are a run-time panic -/
example : mergeArr false [.obj [("id", .obj [])]] 0 [.obj [("id", .obj [])]]
    = .error "runtime error: comparing uncomparable type map[string]interface {}" := by rfl

end PebblesVerif.ResultMerge
