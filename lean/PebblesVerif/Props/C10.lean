import PebblesVerif.Proofs.Errors
import PebblesVerif.Proofs.QueryBatch
import PebblesVerif.Model.GatewayFlow
import PebblesVerif.Props.C20

/-!
# C10 — invalid operations never reach a service; service errors reach the client intact

Two halves.

**(i) no downstream call for a rejected operation.** `Model/GatewayFlow.lean` interprets the
statement sequence of `queryHandler`'s per-request closure as the extractor regenerates it from
gateway.go on every run, over abstract outcomes of validation / operation selection / planning.
`C10_flow_facts` pins the sequence; `C10_no_call*` are then statements about the code's order.

**(ii) error transport.** `Model/Errors.lean` + `Model/QueryBatch.lean`: every error object of a
downstream response travels `queryBatch → AsyncMapReduce → ExtendErrorList → DepthExecutorManager
→ FormatError → JSON` unchanged. For "each of them" the loop of `queryBatch` must collect the
errors of every response: that is the regenerated fact `collectAllErrors` (false on the tree
before `repo_fixes/faults-3`: only the first erroring response was reported — shown by
`C10_first_only_before_fix`).
-/
set_option linter.unusedSimpArgs false
namespace PebblesVerif.Errors
open PebblesVerif PebblesVerif.QB
open PebblesVerif.Gen.QueryBatchFacts (Facts)

/-! ## (ii) the error algebra -/

/-- `e` occurs as a `*Error` leaf of the error value `t`, at any nesting depth of error lists -/
inductive Leaf : Option Err → GoErr → Prop
  | here (e) : Leaf e (.gqlError e)
  | inList {e t ts} : t ∈ ts → Leaf e t → Leaf e (.errorList ts)

/-- **Flattening preserves.** For every nesting depth of error lists `FormatError` returns exactly
    the leaves, in order, each unchanged (the `*Error` itself: message, extensions, path, locations):
    a leaf is returned as the singleton of itself, a list as the concatenation of its members'
    results, and every leaf at any depth is a member of the result. -/
theorem C10_flatten_preserves :
    (∀ e, formatError (.gqlError e) = [e])
    ∧ (∀ ts, formatError (.errorList ts) = (ts.map formatError).flatten)
    ∧ (∀ e t, Leaf e t → e ∈ formatError t) := by
  refine ⟨fun _ => rfl, fun ts => ?_, ?_⟩
  · simp [formatError, formatErrorL_eq_flatten]
  · intro e t h
    induction h with
    | here => simp [formatError]
    | inList ht _ ih => simp only [formatError]; exact mem_formatErrorL ht ih

/-- wrapping an error value in `k` further list levels changes nothing -/
def nest : Nat → GoErr → GoErr
  | 0, t => t
  | k + 1, t => .errorList [nest k t]

theorem C10_flatten_any_depth (k : Nat) (t : GoErr) : formatError (nest k t) = formatError t := by
  induction k with
  | zero => rfl
  | succ k ih => simp [nest, formatError, formatErrorL, ih]

/-- an `ErrorList` used as an error is returned as it is (what every pipeline layer relies on) -/
theorem C10_flatten_errorList (l : List (Option Err)) : formatError (asErr l) = l := formatError_asErr l

/-- `ExtendErrorList` appends exactly the formatted errors, keeping what was there -/
theorem C10_extend_appends (errs : List (Option Err)) (e : GoErr) (l : List (Option Err)) :
    extend errs e = errs ++ formatError e ∧ extend errs (asErr l) = errs ++ l := by
  simp [extend, formatError_asErr]

/-- **JSON round trip** of the `Error` struct: what the gateway writes is read back (by the same
    `encoding/json` rules `fetch` applies to a downstream answer) as the same error — message,
    extensions (nil map ↔ `null`), path (any JSON elements: strings, integers), locations. No
    well-formedness hypothesis is needed at the level of `J` values; what the model does NOT carry is
    `encoding/json`'s float64 view of numbers (trusted base). -/
theorem C10_json_roundtrip (e : Option Err) : decodeErr (encodeErr e) = .ok e := decodeErr_encodeErr e

theorem C10_json_roundtrip_list (es : List (Option Err)) :
    decodeErrors (some (encodeErrors es)) = .ok es := by
  simp only [encodeErrors, decodeErrors]
  exact mapM_encode encodeErr decodeErr decodeErr_encodeErr es

/-- the JSON members the property names, read off the encoded error -/
theorem C10_fields (e : Err) :
    lookupFold "message" (match encodeErr (some e) with | .obj kvs => kvs | _ => []) = some (.str e.message)
    ∧ lookupFold "extensions" (match encodeErr (some e) with | .obj kvs => kvs | _ => [])
        = some (match e.extensions with | none => .null | some x => .obj x)
    ∧ (e.path ≠ [] → lookupFold "path" (match encodeErr (some e) with | .obj kvs => kvs | _ => []) = some (.arr e.path)) := by
  obtain ⟨a1, a2, a3, a4, a5, a6, a7, a8, a9, a10, a11, a12⟩ := keyMatch_fields
  obtain ⟨msg, ext, path, locs⟩ := e
  refine ⟨?_, ?_, ?_⟩
  · simp [encodeErr, lookupFold, keyMatch_self, a4]
  · cases ext <;> simp [encodeErr, lookupFold, keyMatch_self]
  · intro hp
    cases path with
    | nil => exact absurd rfl hp
    | cons p ps => cases locs <;> simp [encodeErr, lookupFold, keyMatch_self, a10, a11, a12]

/-! ## (ii) the layers -/

/-- what a URL group contributes: the formatted error of its `queryBatch` (direct path) or of
    every failing chunk (chunked path), in the order the reducer received them -/
def GroupErr.flat : GroupErr → List (Option Err)
  | .direct e => formatError e
  | .chunked cs => formatErrorL cs

theorem formatError_groupErr (g : GroupErr) : formatError g.err = g.flat := by
  cases g with
  | direct e => rfl
  | chunked cs => exact formatError_amrErrors cs

/-- **Errors are preserved through every layer.** The client's `errors` for a failing depth is the
    concatenation of what the failing `queryBatch` calls returned — nothing dropped, nothing
    altered, nothing added — whatever the grouping by URL, the chunking, and the order in which
    the concurrent calls reached the reducers (`groups` / `chunkErrs` are in reducer order, which
    `C20_exact_once` shows is a permutation of the failing calls). -/
theorem C10_errors_preserved (groups : List GroupErr) :
    clientErrors groups = (groups.map GroupErr.flat).flatten := by
  unfold clientErrors gatewayErrors
  rw [formatError_managerErrors, formatError_amrErrors, formatErrorL_eq_flatten, List.map_map]
  congr 1
  apply List.map_congr_left
  intro g _
  exact formatError_groupErr g

/-- in particular every error of a reported `ErrorList` is in the client's `errors` -/
theorem C10_errors_preserved_mem (groups : List GroupErr) (l : List (Option Err)) (x : Option Err)
    (hg : GroupErr.direct (asErr l) ∈ groups) (hx : x ∈ l) : x ∈ clientErrors groups := by
  rw [C10_errors_preserved]
  refine List.mem_flatten.mpr ⟨l, List.mem_map.mpr ⟨_, hg, ?_⟩, hx⟩
  simp [GroupErr.flat, formatError_asErr]

/-- on the wire: the JSON the client receives for those errors decodes back to them -/
theorem C10_errors_preserved_json (groups : List GroupErr) :
    decodeErrors (some (encodeErrors (clientErrors groups))) = .ok ((groups.map GroupErr.flat).flatten) := by
  rw [C10_json_roundtrip_list, C10_errors_preserved]

/-- **Each of them — partial form**, hypothesis = the regenerated fact that the loop of `queryBatch`
    collects: if the batch is answered with the right number of decodable responses and
    `queryBatch` fails with an error value, then EVERY error of EVERY response of the batch is in it
    (and hence, by `C10_errors_preserved`, in the client's `errors`). -/
theorem C10_each_error_partial (f : Facts) (hc : f.collectAllErrors = true) (ha : f.errorsAbort = true)
    (url : String) (n : Nat) (w : Wire) (resps : List Resp) (hf : fetch f w = .ok resps)
    (cls : String) (e : GoErr) (hq : queryBatch f url n w = .error (.err cls e))
    (hlen : resps.length = n) :
    ∀ r ∈ resps, ∀ x ∈ r.errors, x ∈ clientErrors [.direct e] := by
  intro r hr x hx
  rw [C10_errors_preserved]
  simp only [List.map_cons, List.map_nil, List.flatten_cons, List.flatten_nil, List.append_nil, GroupErr.flat]
  unfold queryBatch at hq
  rw [hf] at hq
  simp only [hlen, ne_eq, not_true_eq_false, and_false, ↓reduceIte] at hq
  exact loop_collects f url n hc ha resps 0 [] _ cls e hq x (Or.inr ⟨r, hr, hx⟩)

/-- the facts regenerated from the current source have the shape the theorems need -/
theorem C10_decode_facts : Gen.QueryBatchFacts.facts = Gen.QueryBatchFacts.expected := by decide

/-- **Each of them — full statement at the current source.** -/
theorem C10_each_error (url : String) (n : Nat) (w : Wire) (resps : List Resp)
    (hf : fetch Gen.QueryBatchFacts.facts w = .ok resps) (cls : String) (e : GoErr)
    (hq : queryBatch Gen.QueryBatchFacts.facts url n w = .error (.err cls e)) (hlen : resps.length = n) :
    ∀ r ∈ resps, ∀ x ∈ r.errors, x ∈ clientErrors [.direct e] :=
  C10_each_error_partial _ (by rw [C10_decode_facts]; rfl) (by rw [C10_decode_facts]; rfl) url n w resps hf cls e hq hlen

/-- nothing else is reported: every client error of a failing batch is a downstream error of one of
    its responses or the gateway's own "neither data nor errors" error -/
theorem C10_nothing_added (f : Facts) (url : String) (n : Nat) (w : Wire) (resps : List Resp)
    (hf : fetch f w = .ok resps) (hlen : resps.length = n) (cls : String) (e : GoErr)
    (hq : queryBatch f url n w = .error (.err cls e)) :
    ∀ x ∈ clientErrors [.direct e], (∃ r ∈ resps, x ∈ r.errors) ∨ x = some (newError undefinedCode (noDataMsg url)) := by
  intro x hx
  rw [C10_errors_preserved] at hx
  simp only [List.map_cons, List.map_nil, List.flatten_cons, List.flatten_nil, List.append_nil, GroupErr.flat] at hx
  unfold queryBatch at hq
  rw [hf] at hq
  simp only [hlen, ne_eq, not_true_eq_false, and_false, ↓reduceIte] at hq
  rcases loop_only f url n resps 0 [] _ cls e hq x hx with h | h | h
  · cases h
  · exact Or.inl h
  · exact Or.inr h

/-- the tree before `faults-3` (all other guards present): two responses with errors, only the
    first response's errors come back -/
def beforeFix3 : Facts := { Gen.QueryBatchFacts.expected with collectAllErrors := false }

def twoErrors : Wire := .resp 200 (some (.arr [
  .obj [("data", .null), ("errors", .arr [.obj [("message", .str "boom0")]])],
  .obj [("data", .null), ("errors", .arr [.obj [("message", .str "boom1")]])]]))

def boom (m : String) : Option Err := some { message := m, extensions := none, path := [], locations := [] }

theorem C10_first_only_before_fix :
    (match queryBatch beforeFix3 "u" 2 twoErrors with
      | .error (.err _ e) => clientErrors [.direct e] | _ => []) = [boom "boom0"] := by
  have k1 : keyMatch "errors" "data" = false := keyMatch_false (by decide) (by decide)
  have k2 : keyMatch "data" "errors" = false := keyMatch_false (by decide) (by decide)
  obtain ⟨a1, a2, a3, a4, a5, a6, a7, a8, a9, a10, a11, a12⟩ := keyMatch_fields
  simp [queryBatch, fetch, twoErrors, beforeFix3, Gen.QueryBatchFacts.expected, decodeResponses, decodeResp,
    decodeErrors, decodeErr, decodeData, lookupFold, keyMatch_self, k1, k2, bind, Except.bind, pure, Except.pure,
    decodeExtensions, decodeMessage, decodeLocs, decodePath, loop, clientErrors, gatewayErrors, managerErrors,
    amrErrors, extend, asErr, formatError, formatErrorL, GroupErr.err, boom, List.mapM_cons, List.mapM_nil,
    a1, a2, a3, a4, a5, a6, a7, a8, a9, a10, a11, a12]

/-- non-vacuity of `C10_each_error`: at the current facts the same answer yields both errors -/
example :
    (match queryBatch Gen.QueryBatchFacts.expected "u" 2 twoErrors with
      | .error (.err _ e) => clientErrors [.direct e] | _ => []) = [boom "boom0", boom "boom1"] := by
  have k1 : keyMatch "errors" "data" = false := keyMatch_false (by decide) (by decide)
  have k2 : keyMatch "data" "errors" = false := keyMatch_false (by decide) (by decide)
  obtain ⟨a1, a2, a3, a4, a5, a6, a7, a8, a9, a10, a11, a12⟩ := keyMatch_fields
  simp [queryBatch, fetch, twoErrors, Gen.QueryBatchFacts.expected, decodeResponses, decodeResp,
    decodeErrors, decodeErr, decodeData, lookupFold, keyMatch_self, k1, k2, bind, Except.bind, pure, Except.pure,
    decodeExtensions, decodeMessage, decodeLocs, decodePath, loop, clientErrors, gatewayErrors, managerErrors,
    amrErrors, extend, asErr, formatError, formatErrorL, GroupErr.err, boom, List.mapM_cons, List.mapM_nil,
    a1, a2, a3, a4, a5, a6, a7, a8, a9, a10, a11, a12]

/-- non-vacuity of the layer theorem: two URL groups, one of them chunked, one nil-pointer element -/
example : clientErrors [.direct (asErr [boom "a", none]), .chunked [asErr [boom "b"], .other "c"]]
    = [boom "a", none, boom "b", some (newError undefinedCode "c")] := by
  rw [C10_errors_preserved]
  simp [GroupErr.flat, formatError_asErr, formatErrorL, formatError]

end PebblesVerif.Errors

/-! ## (i) no downstream call for a rejected operation -/
namespace PebblesVerif.GatewayFlow

/-- the statement order of `queryHandler`'s closure is the one the model was written for, every
    statement was recognised, and `Plan` / `getQueryers` / `Execute` are called nowhere else in it.
    The step `applyDefaults` (filling in the client's declared variable defaults; its presence is
    C02's obligation, `Gen.Vars`) makes no call and is optional HERE; where it stands matters — it
    dereferences the selected operation — and that is decided by `C10_flow_total` on the sequence
    as it is. -/
theorem C10_flow_facts :
    Gen.GatewayFlow.flow.filter (· != "applyDefaults") = Gen.GatewayFlow.expected ∧ Gen.GatewayFlow.recognised = true
    ∧ Gen.GatewayFlow.strayCalls = 0 := by decide

/-- **Validation dominates planning and execution**: an operation that does not validate is answered
    with the validation error, without planning, without creating queryers, without `Execute` —
    hence without any downstream request — and without a panic. -/
theorem C10_no_call (o : Outcomes) (h : o.valid = false) :
    (handle o).1 = .validationError ∧ (handle o).2.executes = 0 ∧ (handle o).2.plans = 0
      ∧ (handle o).2.queryers = false := by
  obtain ⟨v, a, b, c⟩ := o
  cases h
  cases a <;> cases b <;> cases c <;> decide

/-- unknown `operationName`, or several operations and none named: answered by the gateway alone -/
theorem C10_opname (o : Outcomes) (hv : o.valid = true) (h : o.operationFound = false) :
    (handle o).1 = .operationError ∧ (handle o).2.executes = 0 ∧ (handle o).2.plans = 0
      ∧ (handle o).2.queryers = false := by
  obtain ⟨v, a, b, c⟩ := o
  cases hv; cases h
  cases b <;> cases c <;> decide

/-- the closure never panics on its own and executes at most once; it executes exactly when the
    operation is valid, selected, planned and not an introspection query -/
theorem C10_flow_total (o : Outcomes) :
    (∀ w, (handle o).1 ≠ .panic w) ∧ (handle o).1 ≠ .fellThrough ∧ (handle o).2.executes ≤ 1
    ∧ ((handle o).2.executes = 1 ↔ (o.valid ∧ o.operationFound ∧ o.planOk ∧ !o.introspection)) := by
  obtain ⟨v, a, b, c⟩ := o
  cases v <;> cases a <;> cases b <;> cases c <;> simp [handle, Gen.GatewayFlow.flow, run]

/-- non-vacuity: a valid non-introspection operation does execute (the model is not "never calls") -/
example : (handle ⟨true, true, true, false⟩) = (.executed, ⟨true, true, true, true, 1, 1⟩) := by decide

/-- the model does distinguish orders: with `plan` hoisted above the validation check (the mutant the
    check is tested with) an invalid operation makes the closure panic on the nil document -/
example : (run ⟨false, false, false, false⟩ ["loadQuery", "selectOperation", "plan", "return-if-invalid"] {}).1
    = .panic "nil document dereferenced (query.Operations)" := by decide

/-- the optional step is position-sensitive: before the `operation == nil` return it dereferences nil -/
example : (run ⟨true, false, false, false⟩ ["loadQuery", "return-if-invalid", "selectOperation", "applyDefaults",
    "return-if-no-operation"] {}).1 = .panic "nil operation dereferenced (operation.VariableDefinitions)" := by decide

end PebblesVerif.GatewayFlow
