import PebblesVerif.Proofs.Chunk
import PebblesVerif.Proofs.AsyncMapReduce
import PebblesVerif.Props.C20

/-!
# C11 — downstream batching is transparent

For every request list `xs` (every `N`), every batch size `m ≥ 1`, every order in which the
concurrent chunk calls complete. The integer expressions are the ones regenerated from
`MultiOpQueryer.Query` (`Gen/Chunk.lean`), so these theorems are re-proved against the code on
every run.
-/
namespace PebblesVerif.Chunk
open PebblesVerif.Gen.Chunk

/-- the extractor found and translated every expression of `Query` -/
theorem C11_gen_recognised : recognised = true := by decide

/-- Every request is in exactly one chunk: the chunks the Go code cuts are the specification
    chunks, none of the slice expressions panics, and their concatenation is the request list. -/
theorem C11_partition (xs : List α) {m : Nat} (hm : 0 < m) :
    (∀ i, i < numChunks xs.length m → chunkOf? xs m i = some (specChunk xs m i))
    ∧ ((List.range (numChunks xs.length m)).map (specChunk xs m)).flatten = xs := by
  have hc := numChunks_cover (N := xs.length) hm
  constructor
  · intro i hi
    exact chunkOf?_eq xs hm (by omega)
  · rw [specChunks_flatten, List.take_of_length_le hc.1]

/-- Never more than `m` requests in one call — chunked path and direct path. -/
theorem C11_size_le (xs : List α) {m i : Nat} (hm : 0 < m) (hi : i < numChunks xs.length m)
    {c : List α} (hc : chunkOf? xs m i = some c) : c.length ≤ m := by
  rw [(C11_partition xs hm).1 i hi] at hc
  cases hc; exact specChunk_length_le xs m i

theorem C11_size_le_direct (xs : List α) {m : Nat} (h : direct xs.length m = true) : xs.length ≤ m := by
  simpa [direct] using h

/-- Each request index occurs in exactly one chunk (count form of the partition). -/
theorem C11_each_once {N m : Nat} (hm : 0 < m) (j : Nat) (hj : j < N) :
    (((List.range (numChunks N m)).map (specChunk (List.range N) m)).map (List.count j)).sum = 1 := by
  have h := (C11_partition (List.range N) hm).2
  simp only [List.length_range] at h
  have hcount := congrArg (List.count j) h
  rw [List.count_flatten] at hcount
  rw [hcount, List.nodup_range.count]
  simp [hj]

/-- An empty chunk (the tail chunk when `N = k·m`) costs no HTTP call; a chunk never costs more
    calls than it has requests. -/
theorem C11_no_empty_call : callsOf [] = 0 := rfl

theorem filter_partition_length (fs : List Bool) :
    (fs.filter id).length + (fs.filter (!·)).length = fs.length := by
  induction fs with
  | nil => rfl
  | cons a t ih => cases a <;> simp [List.filter_cons] <;> omega

theorem C11_calls_le (fs : List Bool) : callsOf fs ≤ fs.length := by
  unfold callsOf
  have h2 := filter_partition_length fs
  split
  · omega
  · rename_i hne
    have : 0 < (fs.filter (!·)).length := by
      cases hl : fs.filter (!·) with
      | nil => simp [hl] at hne
      | cons _ _ => simp
    omega

/-- length of chunk `i` of `N` requests -/
def chunkLen (N m i : Nat) : Nat := min m (N - i * m)

theorem spliceAll_inv {N m k : Nat} (hk : ∀ i, i < k → i * m ≤ N)
    (resp : Nat → List β) (hlen : ∀ i, i < k → (resp i).length = chunkLen N m i)
    (σ : List Nat) : ∀ (acc : List β) (D : List Nat), acc.length = N → (∀ i ∈ σ, i < k) →
      (∀ i ∈ D, i < k) →
      (∀ i ∈ D, ∀ t, t < (resp i).length → acc[i * m + t]? = (resp i)[t]?) →
      ∃ res, spliceAll N m resp acc σ = some res ∧ res.length = N ∧
        ∀ i, (i ∈ D ∨ i ∈ σ) → ∀ t, t < (resp i).length → res[i * m + t]? = (resp i)[t]? := by
  induction σ with
  | nil =>
    intro acc D hacc _ _ hD
    exact ⟨acc, rfl, hacc, fun i hi => by simpa using hD i (by simpa using hi)⟩
  | cons i σ ih =>
    intro acc D hacc hσ hDk hD
    have hik : i < k := hσ i (by simp)
    have him : i * m ≤ N := hk i hik
    have hr : (resp i).length = min m (acc.length - i * m) := by rw [hacc]; exact hlen i hik
    have hsp : splice? N m acc i (resp i) = some (specSplice m acc i (resp i)) := splice?_eq hacc him
    have hlen' : (specSplice m acc i (resp i)).length = N := by
      rw [specSplice_length hr (by omega), hacc]
    have hget := specSplice_get? hr (by omega : i * m ≤ acc.length)
    obtain ⟨res, hres, hrl, hrp⟩ := ih (specSplice m acc i (resp i)) (i :: D) hlen'
      (fun j hj => hσ j (by simp [hj])) (by
        intro j hj; simp at hj; rcases hj with rfl | hj
        · exact hik
        · exact hDk j hj) (by
        intro d hd t ht
        rw [hget]
        by_cases hdi : d = i
        · subst hdi
          have : t < m := by have := hlen d hik; unfold chunkLen at this; omega
          have h1 : ¬ d * m + t < d * m := by omega
          have h2 : d * m + t < d * m + m := by omega
          simp only [h1, h2, ↓reduceIte]; congr 1; omega
        · have hdD : d ∈ D := by simp at hd; rcases hd with h | h; exact absurd h hdi; exact h
          have hdk := hDk d hdD
          have htm : t < m := by have := hlen d hdk; unfold chunkLen at this; omega
          rcases Nat.lt_or_gt_of_ne hdi with hlt | hgt
          · have : (d + 1) * m ≤ i * m := Nat.mul_le_mul_right m hlt
            rw [Nat.add_mul, Nat.one_mul] at this
            have h1 : d * m + t < i * m := by omega
            simp only [h1, ↓reduceIte]; exact hD d hdD t ht
          · have : (i + 1) * m ≤ d * m := Nat.mul_le_mul_right m hgt
            rw [Nat.add_mul, Nat.one_mul] at this
            have h1 : ¬ d * m + t < i * m := by omega
            have h2 : ¬ d * m + t < i * m + m := by omega
            simp only [h1, h2, ↓reduceIte]; exact hD d hdD t ht)
    refine ⟨res, ?_, hrl, ?_⟩
    · simp only [spliceAll, List.foldl_cons, Option.bind_some, hsp] at hres ⊢; exact hres
    · intro j hj t ht
      apply hrp j _ t ht
      rcases hj with hj | hj
      · exact Or.inl (by simp [hj])
      · simp at hj; rcases hj with rfl | hj
        · exact Or.inl (by simp)
        · exact Or.inr hj

/-- **Completion order is irrelevant**: whatever order `σ` the chunk answers reach the reducer in
    (each chunk at least once — `C20_exact_once` gives exactly once), the reducer never panics, the
    accumulator keeps length `N`, and position `i·m + t` holds answer `t` of chunk `i`. -/
theorem C11_any_order {N m : Nat} (hm : 0 < m)
    (resp : Nat → List β) (hlen : ∀ i, i < numChunks N m → (resp i).length = chunkLen N m i)
    (acc0 : List β) (h0 : acc0.length = N) (σ : List Nat) (hσ : ∀ i ∈ σ, i < numChunks N m) :
    ∃ res, spliceAll N m resp acc0 σ = some res ∧ res.length = N ∧
      ∀ i ∈ σ, ∀ t, t < (resp i).length → res[i * m + t]? = (resp i)[t]? := by
  have hk : ∀ i, i < numChunks N m → i * m ≤ N := by
    intro i hi
    have := (numChunks_cover (N := N) hm).2
    exact (Nat.le_div_iff_mul_le hm).mp (by omega)
  obtain ⟨res, h1, h2, h3⟩ := spliceAll_inv hk resp hlen σ acc0 [] h0 hσ (by simp) (by simp)
  exact ⟨res, h1, h2, fun i hi => h3 i (Or.inr hi)⟩

/-- **Result `j` answers request `j`**: if every chunk's answer is the pointwise answer of its
    requests, the final accumulator is `xs.map answer` — for every completion order that contains
    every chunk. -/
theorem C11_index (xs : List α) (answer : α → β) {m : Nat} (hm : 0 < m) (acc0 : List β)
    (h0 : acc0.length = xs.length) (σ : List Nat)
    (hσ : ∀ i ∈ σ, i < numChunks xs.length m) (hall : ∀ i, i < numChunks xs.length m → i ∈ σ) :
    spliceAll xs.length m (fun i => (specChunk xs m i).map answer) acc0 σ = some (xs.map answer) := by
  have hlen : ∀ i, i < numChunks xs.length m →
      ((fun i => (specChunk xs m i).map answer) i).length = chunkLen xs.length m i := by
    intro i _; simp [specChunk, chunkLen, List.length_take, List.length_drop]
  obtain ⟨res, h1, h2, h3⟩ := C11_any_order hm _ hlen acc0 h0 σ hσ
  rw [h1]; congr 1
  apply List.ext_getElem?
  intro j
  by_cases hj : j < xs.length
  · have hnc := (numChunks_cover (N := xs.length) hm).2
    have hdm := Nat.div_add_mod j m
    have hml := Nat.mod_lt j hm
    have hi : j / m < numChunks xs.length m := by
      have : j / m ≤ xs.length / m := Nat.div_le_div_right (by omega)
      omega
    have hjm : j / m * m + j % m = j := by rw [Nat.mul_comm]; exact hdm
    have ht : j % m < ((fun i => (specChunk xs m i).map answer) (j / m)).length := by
      simp [specChunk, List.length_take, List.length_drop]; omega
    have := h3 (j / m) (hall _ hi) (j % m) ht
    rw [hjm] at this
    rw [this]
    simp only [specChunk, List.getElem?_map, List.getElem?_take, hml, ↓reduceIte, List.getElem?_drop, hjm]
  · rw [List.getElem?_eq_none (by omega), List.getElem?_eq_none (by simp; omega)]

/-- **Error, never partial results**: if any chunk call fails, the helper's error list is
    non-empty when it returns (so `Query` returns `(nil, err)`), under every schedule.
    Composition with C20: chunk `i` is item `i` of the AsyncMapReduce call. -/
theorem C11_error_total {c : AMR.Cfg} {s : AMR.St} (h : AMR.Reach c s) (hm : s.main = .returned)
    (i : Nat) (hfail : c.ok[i]? = some false) : s.errs ≠ [] := by
  have := (AMR.mem_errs_iff h hm i).mpr hfail
  intro hnil; rw [hnil] at this; cases this

/-- Non-vacuity / boundary: `N = 6, m = 3` produces a third, empty chunk and still reassembles;
    completion order 2,0,1. -/
example : (query 3 [10, 11, 12, 13, 14, 15] (fun c => some (c.map (· + 100))) 0 [2, 0, 1])
    = ([[10, 11, 12], [13, 14, 15], []], some (some [110, 111, 112, 113, 114, 115])) := by decide

example : (C11_partition [1, 2, 3, 4, 5] (m := 2) (by decide)).2 = (C11_partition [1, 2, 3, 4, 5] (m := 2) (by decide)).2 := rfl

end PebblesVerif.Chunk
