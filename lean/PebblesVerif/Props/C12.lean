import PebblesVerif.Proofs.IndexMap
import PebblesVerif.Proofs.IndexKey
import PebblesVerif.Proofs.ExecLevels
import PebblesVerif.Gen.IndexMap

/-!
# C12 — downstream round trips are bounded by plan shape; identical lookups are sent once

Property theorems ONLY (helper lemmas: `Proofs/IndexMap.lean`, `Proofs/IndexKey.lean`,
`Proofs/ExecLevels.lean`). All statements are for ALL request lists (any length, any pattern of
repeated ids, mixed steps, id-hint skips anywhere), all plans and all data-dependent expansions.
-/
namespace PebblesVerif.IndexMap

/-- The regenerated shape of `indexMap`, `setIMap`, `executeRequests`, `DepthExecutor.Execute`,
    `DepthExecutorManager.Execute` is the one the models are written for — in particular
    `nextTargetIndex := len(iMap)` is read before `Set`, the key is `"!%v%v"` of
    `(id, QueryStringHash)`, a skipped request `continue`s before `setIMap`, `q.Query` is called
    once and outside every loop, and the requests of a level are grouped by `QueryPlanStep.URL`. -/
theorem C12_facts : Gen.IndexMap.facts = Gen.IndexMap.expected := by decide

variable {K : Type} [DecidableEq K]

/-- **De-duplication.** A request is put into the batch iff it is not skipped and is the first
    request carrying its key; the batch lists request indices in increasing order (so no
    request twice); and no two batch entries carry the same key. -/
theorem C12_dedup (ks : List (Option K)) :
    (∀ i, i ∈ (build ks).batch ↔ IsFirst ks i)
      ∧ (build ks).batch.Pairwise (· < ·)
      ∧ (∀ (t t' j j' : Nat) (k : K), (build ks).batch[t]? = some j → (build ks).batch[t']? = some j' →
          ks[j]? = some (some k) → ks[j']? = some (some k) → t = t') := by
  have h := linv_build ks
  refine ⟨h.batchMem, h.batchSorted, ?_⟩
  intro t t' j j' k ht ht' hj hj'
  have f1 := (h.batchMem j).mp (List.mem_of_getElem? ht)
  have f2 := (h.batchMem j').mp (List.mem_of_getElem? ht')
  obtain ⟨k1, hk1, hmin1⟩ := f1
  obtain ⟨k2, hk2, hmin2⟩ := f2
  rw [hj] at hk1; rw [hj'] at hk2
  have e1 : k = k1 := Option.some.inj (Option.some.inj hk1)
  have e2 : k = k2 := Option.some.inj (Option.some.inj hk2)
  subst e1; subst e2
  have hjj : j = j' := by
    rcases Nat.lt_trichotomy j j' with hlt | heq | hgt
    · exact absurd hj (hmin2 j hlt)
    · exact heq
    · exact absurd hj' (hmin1 j' hgt)
  subst hjj
  have hnd : (build ks).batch.Nodup := h.batchSorted.imp (fun hlt => Nat.ne_of_lt hlt)
  exact (List.getElem?_inj (lt_of_getElem?_eq_some ht) hnd).mp (ht.trans ht'.symm)

/-- **Target indices are batch positions** — also with id-hint skips and duplicates in between:
    the index map has one entry per batch entry, entry `t` stores `targetIndex = t`, carries
    the key of the request at batch position `t`, and lists exactly the requests with that key. -/
theorem C12_targets (ks : List (Option K)) :
    (build ks).imap.length = (build ks).batch.length
      ∧ ∀ (t : Nat) (e : Entry K), (build ks).imap[t]? = some e →
          e.target = t
          ∧ (∃ j, (build ks).batch[t]? = some j ∧ ks[j]? = some (some e.key))
          ∧ (∀ i, i ∈ e.idxs ↔ ks[i]? = some (some e.key)) := by
  have h := linv_build ks
  refine ⟨h.len, ?_⟩
  intro t e he
  have hlt : t < (build ks).batch.length := by rw [← h.len]; exact lt_of_getElem?_eq_some he
  have hj : (build ks).batch[t]? = some (build ks).batch[t] := List.getElem?_eq_getElem hlt
  exact ⟨h.target t e he, ⟨_, hj, h.tie t e _ he hj⟩, h.idxs e (List.mem_of_getElem? he)⟩

/-- **Fan-out.** Whenever the downstream answers the batch with as many answers as it was sent
    requests, `executeRequests` fills EVERY slot: an id-hint-skipped request gets the synthetic
    `{node: nil}`; every other request `i` gets (a copy of) the answer at the batch position `t`
    of the first request with its key — `targetIndex` equals the position in the batch. No slot
    is left empty (the next stage dereferences every slot). -/
theorem C12_fanout {α} (ks : List (Option K)) (query : List Nat → Except String (List α)) (nullNode : α)
    (resps : List α) (hq : query (build ks).batch = .ok resps) (hlen : resps.length = (build ks).batch.length) :
    ∃ out, execute ks query nullNode = .ok out ∧ out.length = ks.length ∧
      (∀ (i : Nat), ks[i]? = some none → out[i]? = some (some nullNode)) ∧
      (∀ (i : Nat) (k : K), ks[i]? = some (some k) →
        ∃ (t j : Nat), (build ks).batch[t]? = some j ∧ ks[j]? = some (some k) ∧ IsFirst ks j
          ∧ t < resps.length ∧ out[i]? = some (resps[t]?)) :=
  execute_spec ks query nullNode resps hq hlen

/-- A downstream that answers with a different number of results is reported, never fanned out. -/
theorem C12_length_checked {α} (ks : List (Option K)) (query : List Nat → Except String (List α)) (nullNode : α)
    (resps : List α) (hq : query (build ks).batch = .ok resps) (hlen : resps.length ≠ (build ks).batch.length) :
    execute ks query nullNode = .error (.err "not all requests were fetched") := by
  unfold execute
  simp only [hq]
  rw [if_pos hlen]

/-- **The string key loses nothing.** `strconv.Itoa(index)` / `"!" ++ id ++ "[h₁ h₂ … h₃₂]"`
    determines the key — for ALL ids, also ids containing `[`, `]`, `!`, digits or spaces: the
    rendered hash has exactly one `[`, so the id is everything between the `!` and the LAST `[`.
    Hence two de-dupable requests share a map entry iff they have the same id and the same query
    hash, and an index key never meets a node key. -/
theorem C12_key_injective (a b : Key) (h : a.render = b.render) : a = b := render_inj a b h

theorem C12_key_injective_requests (i j : Nat) (r r' : Req)
    (h : (keyOf i r).render = (keyOf j r').render) :
    (∀ s hs, keyOf i r = .node s hs → r.id = some s ∧ r'.id = some s ∧ r.hash = hs ∧ r'.hash = hs)
      ∧ (∀ n, keyOf i r = .idx n → i = j) := by
  have hk := render_inj _ _ h
  constructor
  · intro s hs hnode
    have hnode' : keyOf j r' = .node s hs := by rw [← hk]; exact hnode
    have aux : ∀ (i : Nat) (r : Req), keyOf i r = .node s hs → r.id = some s ∧ r.hash = hs := by
      intro i r hr
      unfold keyOf at hr
      by_cases hc : (!isRoot r.parentType && (r.others + (if r.id.isSome then 1 else 0) == 1)) = true
      · rw [if_pos hc] at hr
        cases hid : r.id with
        | none => rw [hid] at hr; cases hr
        | some x =>
          rw [hid] at hr
          simp only [Key.node.injEq] at hr
          exact ⟨by rw [hr.1], hr.2⟩
      · rw [if_neg hc] at hr; cases hr
    exact ⟨(aux i r hnode).1, (aux j r' hnode').1, (aux i r hnode).2, (aux j r' hnode').2⟩
  · intro n hidx
    have aux : ∀ (i : Nat) (r : Req) (n : Nat), keyOf i r = .idx n → n = i := by
      intro i r n hr
      unfold keyOf at hr
      by_cases hc : (!isRoot r.parentType && (r.others + (if r.id.isSome then 1 else 0) == 1)) = true
      · rw [if_pos hc] at hr
        cases hid : r.id with
        | none => rw [hid] at hr; simp only [Key.idx.injEq] at hr; exact hr.symm
        | some x => rw [hid] at hr; cases hr
      · rw [if_neg hc] at hr; simp only [Key.idx.injEq] at hr; exact hr.symm
    have h1 := aux i r n hidx
    have h2 := aux j r' n (by rw [← hk]; exact hidx)
    omega

/-- De-duplication stated on concrete requests: request `i` is sent iff the id hint does not
    skip it and no earlier non-skipped request has the same (structured) key. -/
theorem C12_dedup_requests (hint : Option (String → Option String)) (reqs : List Req) (i : Nat) :
    i ∈ (build (keysOf hint reqs)).batch ↔
      ∃ r, reqs[i]? = some r ∧ needToQuery hint r = true ∧
        ∀ j r', j < i → reqs[j]? = some r' → needToQuery hint r' = true → keyOf j r' ≠ keyOf i r := by
  have hget : ∀ (i : Nat), (keysOf hint reqs)[i]? =
      (reqs[i]?).map (fun r => if needToQuery hint r then some (keyOf i r).render else none) := by
    intro i
    unfold keysOf
    rw [List.getElem?_zipWith]
    by_cases hi : i < reqs.length
    · simp [List.getElem?_range hi, List.getElem?_eq_getElem hi]
    · have h1 : reqs[i]? = none := List.getElem?_eq_none (by omega)
      have h2 : (List.range reqs.length)[i]? = none := List.getElem?_eq_none (by simp; omega)
      simp [h1, h2]
  rw [(C12_dedup (keysOf hint reqs)).1 i]
  constructor
  · rintro ⟨k, hk, hmin⟩
    rw [hget] at hk
    cases hr : reqs[i]? with
    | none => simp [hr] at hk
    | some r =>
      simp only [hr, Option.map_some, Option.some.injEq] at hk
      by_cases hn : needToQuery hint r = true
      · simp only [hn, if_true, Option.some.injEq] at hk
        refine ⟨r, rfl, hn, ?_⟩
        intro j r' hj hr' hn' heq
        apply hmin j hj
        rw [hget, hr']
        simp [hn', ← hk, heq]
      · simp [hn] at hk
  · rintro ⟨r, hr, hn, hmin⟩
    refine ⟨(keyOf i r).render, by rw [hget, hr]; simp [hn], ?_⟩
    intro j hj hjk
    rw [hget] at hjk
    cases hr' : reqs[j]? with
    | none => simp [hr'] at hjk
    | some r' =>
      simp only [hr', Option.map_some, Option.some.injEq] at hjk
      by_cases hn' : needToQuery hint r' = true
      · simp only [hn', if_true, Option.some.injEq] at hjk
        exact hmin j r' hj hr' hn' (render_inj _ _ hjk)
      · simp [hn'] at hjk

/-- Non-vacuity: five lookups — the same key three times (positions 0, 2, 4), one request skipped
    by the id hint (position 1), one other key: 2 requests are sent, all 5 slots are filled, the
    repeated key's answer is fanned out to positions 0, 2 and 4. -/
example :
    let ks : List (Option Nat) := [some 1, none, some 1, some 2, some 1]
    (build ks).batch = [0, 3] ∧ (build ks).skipped = [1]
      ∧ (build ks).imap.map (fun e => (e.key, e.target, e.idxs)) = [(1, 0, [0, 2, 4]), (2, 1, [3])]
      ∧ execute ks (fun b => .ok (b.map (· + 100))) 7 = .ok [some 100, some 7, some 100, some 103, some 100] := by
  intro ks
  exact ⟨by decide, by decide, by decide, rfl⟩

/-- Non-vacuity of the rendering: an id that itself ends like a rendered hash. -/
example : (keyOf 5 ⟨"A", some "x[1 2]", 0, [3, 40]⟩).render = "!x[1 2][3 40]".toList
    ∧ (keyOf 5 ⟨"Query", none, 0, [3]⟩).render = "5".toList := by
  constructor
  · simp [keyOf, isRoot, Key.render, showHash, spaceSep, natDigits_lt, natDigits_ge, digitChar]
  · simp [keyOf, isRoot, Key.render, natDigits_lt, digitChar]

end PebblesVerif.IndexMap

namespace PebblesVerif.Levels

/-- **One `Query` call per service and level.** Whatever the number of requests of a level
    (= whatever the length of the result lists above it), the level makes one `Query` call per
    distinct service among its requests: no service is called twice, and a service is called iff
    one of the requests belongs to a step it owns. (Each `Query` call of `n` requests costs
    `⌈n/m⌉` HTTP calls for batch size `m`, none if `n = 0`: C11.) -/
theorem C12_one_call_per_level (rs : List Req) :
    (levelCalls rs).Nodup ∧ (∀ u, (levelCalls rs).count u ≤ 1)
      ∧ ∀ u, u ∈ levelCalls rs ↔ ∃ r ∈ rs, r.step.url = u :=
  ⟨levelCalls_nodup rs, count_levelCalls_le rs, mem_levelCalls rs⟩

/-- **Calls bounded by plan shape.** For every plan, every data-dependent expansion `next`
    (constrained only by: a new request's step is a child of a current request's step) and every
    depth bound, the number of `Query` calls made to service `u` during one client operation is
    at most the number of plan depths at which `u` owns a step — independent of every list
    length. -/
theorem C12_levels_bound (roots : List Step) (next : Nat → List Req → List Req)
    (hnext : ∀ d rs r', r' ∈ next d rs → ∃ r ∈ rs, r'.step ∈ r.step.thens) (u : String) (fuel : Nat) :
    (run next fuel 0 (rootReqs roots)).flatten.count u
      ≤ ((List.range fuel).filter (owns roots u)).length := by
  have := run_bound roots next hnext u fuel 0 (rootReqs roots) (by
    intro r hr
    simp only [rootReqs, List.mem_map] at hr
    obtain ⟨s, hs, rfl⟩ := hr
    exact hs)
  rwa [← List.range_eq_range'] at this

/-- Non-vacuity: a plan with service `b` at depths 1 and 2; 5 insertion points at depth 1 and
    25 at depth 2 still cost `b` exactly two `Query` calls. -/
example :
    let leaf := Step.mk "b" []
    let mid := Step.mk "b" [leaf]
    let roots := [Step.mk "a" [mid]]
    let next : Nat → List Req → List Req := fun _ rs =>
      rs.flatMap (fun r => r.step.thens.flatMap (fun c => (List.range 5).map (fun t => ⟨c, t⟩)))
    (run next 3 0 (rootReqs roots)).map (·.length) = [1, 1, 1]
      ∧ (run next 3 0 (rootReqs roots)).flatten.count "b" = 2
      ∧ ((List.range 3).filter (owns roots "b")).length = 2 := by
  refine ⟨by decide, by decide, by decide⟩

end PebblesVerif.Levels
