import PebblesVerif.Props.C01FlatList
import PebblesVerif.Props.C01FlatNested
import PebblesVerif.Proofs.C12Flat
/-!
# C12, end to end, for the unbounded families of C01

C12: *the number of downstream calls per client request depends only on the plan (one call per
service per plan level), not on the size of the result lists, and identical lookups (same entity
id, same sub-query) within one level are sent once and their answer is shared by every place that
needs it.*

`Props/C12.lean` proves this of the de-duplication index map and of the level bookkeeping (models of
`executeRequests` and of the depth loop) for ALL request lists. Here the same is stated of `calls`,
the list of `Queryer.Query` calls `Exec.gateway` — the model of the WHOLE per-request pipeline —
makes, for every member of the list family (`q : [T]`, any list length, repeated entities) and of the
two-level family (two plan steps for the same service at the same depth). The theorems are corollaries
of the end-to-end theorems of C01 (`Proofs/FlatList5.lean`: `flat_list_one_hop_shared`,
`Proofs/FlatNested6.lean`: `flat_nested_calls`); one `Exec.Call` is one `Queryer.Query` call (one HTTP
round trip when the batch fits `maxBatch`, ⌈n/maxBatch⌉ otherwise: C11).
-/
namespace PebblesVerif

/-- **The number of calls does not depend on the length of the list.** The family and the
    hypotheses are those of `C01_flat_list_one_hop`: `{ q { f₁ … fₙ } }`, `q : [T]` owned by `A`,
    distinct leaf fields owned by `A` or `B`, the root list = any list `es` of entities (any length
    `k`, repetitions allowed), services answering by the reference evaluator over their own
    schemas. The calls `Exec.gateway` makes:

    * `calls.length = 2` when `B` owns a selected field and the list is not empty, `= 1` otherwise —
      whatever `k` is (the plan has two levels: one call per service per level);
    * they go to `A` (one request), then to `B`: `calls.map (·.url)` is `[A]` or `[A, B]`;
    * the number of requests in the call to `B` is the number of DISTINCT ids of the list
      (`FlatList.dedupIds`), which is at most `k`, and equal to `k` iff no id is repeated. -/
theorem C12_flat_list_calls_independent_of_length {c : PCtx} {A B T q : String} {fs : List Flat.FieldSpec}
    (h : Flat.Fam c A B T q fs)
    (svcs : List Exec.Svc) (SA SB : Schema) (D : Spec.Data) (es : List Spec.Entity) (rs : List (List (String × J)))
    (hq1 : '#' ∉ q.toList) (hq2 : ':' ∉ q.toList) (hqne : q ≠ "")
    (hi : ∀ e ∈ es, e.id ≠ "")
    (hnne : ∀ n ∈ Flat.namesOf fs, n ≠ "")
    (hsA : svcs.find? (·.url == A) = some ⟨A, SA⟩) (hsB : svcs.find? (·.url == B) = some ⟨B, SB⟩)
    (hSB : ∃ td, SB.type? T = some td ∧ td.kind = .object)
    (hroot : Spec.dlookup q (D.root "Query") = some (.list (es.map (fun e => Spec.DVal.ref e.id))))
    (hent : ∀ e ∈ es, D.entity? e.id = some e ∧ e.type = T)
    (href : Spec.eval c.schema D ⟨.query, "", [], [FlatList.QL T q fs]⟩ [] = some (.obj [(q, .arr (rs.map J.obj))])) :
    ∃ (data : List (String × J)) (calls : List Exec.Call),
      Exec.gateway c {} ⟨.query, "", [], [FlatList.QL T q fs]⟩ none (Exec.specDownstream svcs D)
        = .ok ⟨some data, [], calls⟩
      ∧ ((∃ f ∈ fs, f.2.2 = true) ∧ es ≠ [] → calls.length = 2 ∧ calls.map (·.url) = [A, B])
      ∧ (¬ ((∃ f ∈ fs, f.2.2 = true) ∧ es ≠ []) → calls.length = 1 ∧ calls.map (·.url) = [A])
      ∧ (∀ cl ∈ calls, cl.url = A → cl.batch.length = 1)
      ∧ (∀ cl ∈ calls, cl.url = B → cl.batch.length = (FlatList.dedupIds (es.map (·.id))).length)
      ∧ (FlatList.dedupIds (es.map (·.id))).length ≤ es.length
      ∧ ((FlatList.dedupIds (es.map (·.id))).length = es.length ↔ (es.map (·.id)).Nodup) := by
  obtain ⟨ds, hg, -, -, -⟩ :=
    FlatList.flat_list_one_hop_calls h svcs SA SB D es rs hq1 hq2 hqne hi hnne hsA hsB hSB hroot hent href
  have hlenle := FlatList.length_dedupIds_le (es.map (·.id))
  have hleneq := FlatList.length_dedupIds_eq_iff (es.map (·.id))
  simp only [List.length_map] at hlenle hleneq
  have hBA : B ≠ A := fun e => h.hAB e.symm
  by_cases hcase : (∃ f ∈ fs, f.2.2 = true) ∧ es ≠ []
  · have hB : Flat.fsB fs ≠ [] := FlatNested.fsB_ne_nil hcase.1
    have hids : es.map (fun e => e.id) ≠ [] := by simpa using hcase.2
    rw [FlatList.callsOf_two c A B T q fs _ hB hids] at hg
    refine ⟨_, _, hg, fun _ => ⟨rfl, rfl⟩, fun hn => absurd hcase hn, ?_, ?_, hlenle, hleneq⟩
    · intro cl hcl hu
      simp only [List.mem_cons, List.not_mem_nil, or_false] at hcl
      rcases hcl with rfl | rfl
      · rfl
      · exact absurd hu hBA
    · intro cl hcl hu
      simp only [List.mem_cons, List.not_mem_nil, or_false] at hcl
      rcases hcl with rfl | rfl
      · exact absurd hu.symm hBA
      · simp [FlatList.batchB]
  · have hone : Flat.fsB fs = [] ∨ es.map (fun e => e.id) = [] := by
      by_cases hes : es = []
      · right; simp [hes]
      · left
        apply FlatNested.fsB_eq_nil
        intro f hf
        cases hb : f.2.2 with
        | false => rfl
        | true => exact absurd ⟨⟨f, hf, hb⟩, hes⟩ hcase
    rw [FlatList.callsOf_one c A B T q fs _ hone] at hg
    refine ⟨_, _, hg, fun hy => absurd hy hcase, fun _ => ⟨rfl, rfl⟩, ?_, ?_, hlenle, hleneq⟩
    · intro cl hcl _
      simp only [List.mem_cons, List.not_mem_nil, or_false] at hcl
      subst hcl; rfl
    · intro cl hcl hu
      simp only [List.mem_cons, List.not_mem_nil, or_false] at hcl
      subst hcl
      exact absurd hu.symm hBA

/-- **… so two requests of the family that differ only in the data make the same number of calls, to
    the same services in the same order** — however long the two lists are (both non-empty, or both
    empty): the number of downstream calls depends on the plan only. -/
theorem C12_flat_list_calls_same_for_all_lengths {c : PCtx} {A B T q : String} {fs : List Flat.FieldSpec}
    (h : Flat.Fam c A B T q fs)
    (svcs : List Exec.Svc) (SA SB : Schema)
    (hq1 : '#' ∉ q.toList) (hq2 : ':' ∉ q.toList) (hqne : q ≠ "")
    (hnne : ∀ n ∈ Flat.namesOf fs, n ≠ "")
    (hsA : svcs.find? (·.url == A) = some ⟨A, SA⟩) (hsB : svcs.find? (·.url == B) = some ⟨B, SB⟩)
    (hSB : ∃ td, SB.type? T = some td ∧ td.kind = .object)
    (D D' : Spec.Data) (es es' : List Spec.Entity) (rs rs' : List (List (String × J)))
    (hi : ∀ e ∈ es, e.id ≠ "") (hi' : ∀ e ∈ es', e.id ≠ "")
    (hroot : Spec.dlookup q (D.root "Query") = some (.list (es.map (fun e => Spec.DVal.ref e.id))))
    (hroot' : Spec.dlookup q (D'.root "Query") = some (.list (es'.map (fun e => Spec.DVal.ref e.id))))
    (hent : ∀ e ∈ es, D.entity? e.id = some e ∧ e.type = T)
    (hent' : ∀ e ∈ es', D'.entity? e.id = some e ∧ e.type = T)
    (href : Spec.eval c.schema D ⟨.query, "", [], [FlatList.QL T q fs]⟩ [] = some (.obj [(q, .arr (rs.map J.obj))]))
    (href' : Spec.eval c.schema D' ⟨.query, "", [], [FlatList.QL T q fs]⟩ [] = some (.obj [(q, .arr (rs'.map J.obj))]))
    (hboth : es = [] ↔ es' = []) :
    ∃ (data data' : List (String × J)) (calls calls' : List Exec.Call),
      Exec.gateway c {} ⟨.query, "", [], [FlatList.QL T q fs]⟩ none (Exec.specDownstream svcs D)
        = .ok ⟨some data, [], calls⟩
      ∧ Exec.gateway c {} ⟨.query, "", [], [FlatList.QL T q fs]⟩ none (Exec.specDownstream svcs D')
        = .ok ⟨some data', [], calls'⟩
      ∧ calls.length = calls'.length ∧ calls.map (·.url) = calls'.map (·.url) ∧ calls.length ≤ 2 := by
  obtain ⟨data, calls, hg, h2, h1, -⟩ := C12_flat_list_calls_independent_of_length h svcs SA SB D es rs
    hq1 hq2 hqne hi hnne hsA hsB hSB hroot hent href
  obtain ⟨data', calls', hg', h2', h1', -⟩ := C12_flat_list_calls_independent_of_length h svcs SA SB D' es' rs'
    hq1 hq2 hqne hi' hnne hsA hsB hSB hroot' hent' href'
  refine ⟨data, data', calls, calls', hg, hg', ?_⟩
  by_cases hcase : (∃ f ∈ fs, f.2.2 = true) ∧ es ≠ []
  · have hcase' : (∃ f ∈ fs, f.2.2 = true) ∧ es' ≠ [] := ⟨hcase.1, fun e => hcase.2 (hboth.mpr e)⟩
    obtain ⟨a, b⟩ := h2 hcase
    obtain ⟨a', b'⟩ := h2' hcase'
    exact ⟨by rw [a, a'], by rw [b, b'], by omega⟩
  · have hcase' : ¬ ((∃ f ∈ fs, f.2.2 = true) ∧ es' ≠ []) := fun hc => hcase ⟨hc.1, fun e => hc.2 (hboth.mp e)⟩
    obtain ⟨a, b⟩ := h1 hcase
    obtain ⟨a', b'⟩ := h1' hcase'
    exact ⟨by rw [a, a'], by rw [b, b'], by omega⟩

/-- **Identical lookups are sent once, and the answer is shared.** Under the hypotheses of
    `C01_flat_list_one_hop`, `B` owning a selected field and the list not empty: the one batch to `B`
    carries the lookups `{id: i}` for the ids `i` of a list `looked` (`= FlatList.dedupIds`, in order
    of first occurrence) in which EVERY id of the root list — however often it occurs there — occurs
    exactly once (all lookups of the batch carry the same sub-query `node(id: $id) { ... on T {…} }`);
    and the answer is present at EVERY position: the element at position `j` is the single-server
    answer for that position (up to key order), and two positions holding the same id hold the SAME
    element (the element is a function of the id: the one answer of `B` fanned out). -/
theorem C12_flat_list_identical_lookups_once {c : PCtx} {A B T q : String} {fs : List Flat.FieldSpec}
    (h : Flat.Fam c A B T q fs)
    (svcs : List Exec.Svc) (SA SB : Schema) (D : Spec.Data) (es : List Spec.Entity) (rs : List (List (String × J)))
    (hq1 : '#' ∉ q.toList) (hq2 : ':' ∉ q.toList) (hqne : q ≠ "")
    (hi : ∀ e ∈ es, e.id ≠ "")
    (hnne : ∀ n ∈ Flat.namesOf fs, n ≠ "")
    (hsA : svcs.find? (·.url == A) = some ⟨A, SA⟩) (hsB : svcs.find? (·.url == B) = some ⟨B, SB⟩)
    (hSB : ∃ td, SB.type? T = some td ∧ td.kind = .object)
    (hroot : Spec.dlookup q (D.root "Query") = some (.list (es.map (fun e => Spec.DVal.ref e.id))))
    (hent : ∀ e ∈ es, D.entity? e.id = some e ∧ e.type = T)
    (href : Spec.eval c.schema D ⟨.query, "", [], [FlatList.QL T q fs]⟩ [] = some (.obj [(q, .arr (rs.map J.obj))]))
    (hBown : ∃ f ∈ fs, f.2.2 = true) (hk : es ≠ []) :
    ∃ (ds : List (List (String × J))) (rqA : Exec.Request) (batch : List Exec.Request) (looked : List String),
      Exec.gateway c {} ⟨.query, "", [], [FlatList.QL T q fs]⟩ none (Exec.specDownstream svcs D)
        = .ok ⟨some [(q, .arr (ds.map J.obj))], [], [⟨A, [rqA]⟩, ⟨B, batch⟩]⟩
      -- sent once
      ∧ batch.map (·.vars) = looked.map (fun i => [("id", J.str i)])
      ∧ (∀ rq ∈ batch, rq.sels = convertToNodeQuery T (Flat.leaves (Flat.fsB fs)))
      ∧ (∀ e ∈ es, looked.count e.id = 1)
      ∧ (∀ i ∈ looked, ∃ e ∈ es, e.id = i)
      -- shared by every place that needs it
      ∧ ds.length = es.length ∧ rs.length = es.length
      ∧ (∀ (j : Nat) (e : Spec.Entity) (r : List (String × J)), es[j]? = some e → rs[j]? = some r →
            ∃ d, ds[j]? = some d ∧ d.Perm r)
      ∧ (∀ (j j' : Nat) (e e' : Spec.Entity), es[j]? = some e → es[j']? = some e' → e.id = e'.id → ds[j]? = ds[j']?) := by
  obtain ⟨dOf, hg, hlen, hel⟩ :=
    FlatList.flat_list_one_hop_shared h svcs SA SB D es rs hq1 hq2 hqne hi hnne hsA hsB hSB hroot hent href
  have hB : Flat.fsB fs ≠ [] := FlatNested.fsB_ne_nil hBown
  have hids : es.map (fun e => e.id) ≠ [] := by simpa using hk
  rw [FlatList.callsOf_two c A B T q fs _ hB hids] at hg
  refine ⟨es.map (fun e => dOf e.id), _, _, FlatList.dedupIds (es.map (·.id)), hg,
    FlatList.batchB_vars c B T q _ _, ?_, ?_, ?_, by simp, hlen, ?_, ?_⟩
  · intro rq hrq
    simp only [FlatList.batchB, List.mem_map] at hrq
    obtain ⟨i, -, rfl⟩ := hrq
    rfl
  · intro e he
    exact FlatList.count_dedupIds _ _ (List.mem_map.mpr ⟨e, he, rfl⟩)
  · intro i hi'
    have := (FlatList.mem_dedupIds _ i).mp hi'
    simpa using this
  · intro j e r hej hrj
    exact ⟨dOf e.id, by simp [hej], hel j e r hej hrj⟩
  · intro j j' e e' hej hej' hid
    simp [hej, hej', hid]

/-- **One call per service per level, although two plan steps address the service.** The two-level
    family of `C01_flat_nested_one_hop` (`{ q { f… g { h… } f… } }`, `B` owning a selected field of
    `T` AND one of `U`): the plan has ONE root step (at `A`) with TWO child steps, both at depth 1,
    both at `B`, with different parent types and different insertion points (`[q]` and `[q, g]`) — and
    `Exec.gateway` makes exactly two calls: one to `A`, ONE to `B` carrying both lookups
    (`lookupT` for the entity under `q`, `lookupU` for the entity under `g`; in the order of the two
    child steps, which is the order in which the client wrote `B`'s first field of `T` and `g`). -/
theorem C12_flat_nested_one_call_per_service_per_level {c : PCtx} {A B T U q g : String}
    {fs1 fs2 hs : List Flat.FieldSpec} (h : FlatNested.Fam c A B T U q g fs1 fs2 hs)
    {svcs : List Exec.Svc} {SA SB : Schema} {D : Spec.Data} {e e' : Spec.Entity}
    (s : FlatNested.Setting c A B T U q g fs1 fs2 hs svcs SA SB D e e') (r₁ r₂ rg : List (String × J))
    (hlen : r₁.length = fs1.length)
    (href : Spec.eval c.schema D ⟨.query, "", [], [FlatNested.QN T U q g fs1 fs2 hs]⟩ []
      = some (.obj [(q, .obj (r₁ ++ (g, .obj rg) :: r₂))]))
    (hBT : ∃ f ∈ fs1 ++ fs2, f.2.2 = true) (hBU : ∃ f ∈ hs, f.2.2 = true) :
    ∃ (data : List (String × J)) (calls : List Exec.Call) (rootRequest l1 l2 lookupT lookupU : Exec.Request)
      (rootSels : List Sel) (s1 s2 : Step) (scrub : Scrub),
      -- the plan: two steps for `B` at the same level
      plan c ⟨.query, "", [], [FlatNested.QN T U q g fs1 fs2 hs]⟩ = .ok ([.mk A "Query" rootSels [] [s1, s2]], scrub)
      ∧ s1.url = B ∧ s2.url = B ∧ s1.thn = [] ∧ s2.thn = []
      ∧ [s1.ip, s2.ip].Perm [[q], [q, g]]
      -- the calls: one per service
      ∧ Exec.gateway c {} ⟨.query, "", [], [FlatNested.QN T U q g fs1 fs2 hs]⟩ none (Exec.specDownstream svcs D)
          = .ok ⟨some data, [], calls⟩
      ∧ calls = [⟨A, [rootRequest]⟩, ⟨B, [l1, l2]⟩]
      ∧ (calls.filter (·.url == A)).length = 1 ∧ (calls.filter (·.url == B)).length = 1
      ∧ ([l1, l2] = [lookupT, lookupU] ∨ [l1, l2] = [lookupU, lookupT])
      ∧ lookupT.sels = convertToNodeQuery T (Flat.leaves (Flat.fsB (fs1 ++ fs2))) ∧ lookupT.vars = [("id", .str e.id)]
      ∧ lookupU.sels = convertToNodeQuery U (Flat.leaves (Flat.fsB hs)) ∧ lookupU.vars = [("id", .str e'.id)] := by
  obtain ⟨d, dg, hgw, -, -⟩ := FlatNested.flat_nested_calls h s r₁ r₂ rg hlen href
  have hplan := C01_flat_nested_plan h
  have hT : Flat.fsB (fs1 ++ fs2) ≠ [] := FlatNested.fsB_ne_nil hBT
  have hU : Flat.fsB hs ≠ [] := FlatNested.fsB_ne_nil hBU
  have hAB : (A == B) = false := by simpa using h.hAB
  have hBA : (B == A) = false := by simpa using (fun e => h.hAB e.symm : B ≠ A)
  obtain ⟨u0, us, hUc⟩ := List.exists_cons_of_ne_nil hU
  obtain ⟨t0, ts, hTc⟩ := List.exists_cons_of_ne_nil hT
  cases hfb1 : Flat.fsB fs1 with
  | nil =>
    rw [FlatNested.callsN_UT c A B T U q g fs1 fs2 hs _ _ hfb1 hT hU] at hgw
    rw [hfb1] at hplan
    simp only [hUc, hTc, FlatNested.stepsAt_cons, List.cons_append, List.nil_append] at hplan
    refine ⟨_, _, _, _, _, FlatNested.lookupRq c B T [q] (Flat.fsB (fs1 ++ fs2)) e.id,
      FlatNested.lookupRq c B U [q, g] (Flat.fsB hs) e'.id, _, _, _, _, hplan, rfl, rfl, rfl, rfl, ?_, hgw, rfl,
      ?_, ?_, Or.inr rfl, rfl, rfl, rfl, rfl⟩
    · exact List.Perm.swap _ _ _
    · simp [hBA]
    · simp [hAB]
  | cons b1 bs1 =>
    have hT1 : Flat.fsB fs1 ≠ [] := by rw [hfb1]; simp
    rw [FlatNested.callsN_TU c A B T U q g fs1 fs2 hs _ _ hT1 hU] at hgw
    rw [hfb1] at hplan
    simp only [hUc, FlatNested.stepsAt_cons] at hplan
    refine ⟨_, _, _, _, _, FlatNested.lookupRq c B T [q] (Flat.fsB (fs1 ++ fs2)) e.id,
      FlatNested.lookupRq c B U [q, g] (Flat.fsB hs) e'.id, _, _, _, _, hplan, rfl, rfl, rfl, rfl, ?_, hgw, rfl,
      ?_, ?_, Or.inl rfl, rfl, rfl, rfl, rfl⟩
    · exact List.Perm.refl _
    · simp [hBA]
    · simp [hAB]

section Instances
open FlatList.Example

/-- non-vacuity: `FlatList.Example` with `animals = es` for any list drawn from its three entities
    meets every hypothesis of the list theorems (the reference answer being whatever it is) -/
theorem C12_flat_list_instance (es : List Spec.Entity) (rs : List (List (String × J)))
    (hes : ∀ e ∈ es, e = e1 ∨ e = e2 ∨ e = e3)
    (href : Spec.eval ctx.schema (dataOf es) op [] = some (.obj [("animals", .arr (rs.map J.obj))])) :
    ∃ (data : List (String × J)) (calls : List Exec.Call),
      Exec.gateway ctx {} op none (Exec.specDownstream svcs (dataOf es)) = .ok ⟨some data, [], calls⟩
      ∧ calls.length = (if es = [] then 1 else 2)
      ∧ (∀ cl ∈ calls, cl.url = "B" → cl.batch.length = (FlatList.dedupIds (es.map (·.id))).length) := by
  obtain ⟨data, calls, hg, h2, h1, -, hB, -⟩ :=
    C12_flat_list_calls_independent_of_length fam svcs schemaA schemaB (dataOf es) es rs (by decide) (by decide) (by decide)
      (by intro e he; rcases hes e he with rfl | rfl | rfl <;> decide)
      (by decide) (by rfl) (by rfl) ⟨animalT, by rfl, rfl⟩ (by rfl)
      (by intro e he; rcases hes e he with rfl | rfl | rfl <;> exact ⟨by rfl, rfl⟩) href
  refine ⟨data, calls, hg, ?_, hB⟩
  have hown : ∃ f ∈ FlatList.Example.fs, f.2.2 = true := ⟨("age", tStr, true), by simp [FlatList.Example.fs], rfl⟩
  by_cases hes0 : es = []
  · simp only [hes0, ↓reduceIte]
    exact (h1 (fun hc => hc.2 hes0)).1
  · simp only [hes0, ↓reduceIte]
    exact (h2 ⟨hown, hes0⟩).1

/-- three distinct entities: two calls, three lookups -/
theorem C12_flat_list_instance3 : ∃ data calls,
    Exec.gateway ctx {} op none (Exec.specDownstream svcs (dataOf [e1, e2, e3])) = .ok ⟨some data, [], calls⟩
    ∧ calls.length = 2 ∧ (∀ cl ∈ calls, cl.url = "B" → cl.batch.length = 3) := by
  obtain ⟨data, calls, hg, hl, hB⟩ := C12_flat_list_instance [e1, e2, e3] [x1, x2, x3] (by simp) reference3
  refine ⟨data, calls, hg, by simpa using hl, ?_⟩
  have : (FlatList.dedupIds ([e1, e2, e3].map (·.id))).length = 3 := by decide
  rw [this] at hB; exact hB

/-- a repeated entity (`[e1, e2, e1]`): still two calls, and TWO lookups for three elements; the
    element at position 2 is the element at position 0 -/
theorem C12_flat_list_instance_dup :
    ∃ (ds : List (List (String × J))) (rqA : Exec.Request) (batch : List Exec.Request),
      Exec.gateway ctx {} op none (Exec.specDownstream svcs (dataOf [e1, e2, e1]))
        = .ok ⟨some [("animals", .arr (ds.map J.obj))], [], [⟨"A", [rqA]⟩, ⟨"B", batch⟩]⟩
      ∧ batch.map (·.vars) = [[("id", .str e1.id)], [("id", .str e2.id)]]
      ∧ ds.length = 3 ∧ ds[0]? = ds[2]? := by
  obtain ⟨ds, rqA, batch, looked, hg, hv, -, hcnt, hmem, hl, -, -, hsh⟩ :=
    C12_flat_list_identical_lookups_once fam svcs schemaA schemaB (dataOf [e1, e2, e1]) [e1, e2, e1] [x1, x2, x1]
      (by decide) (by decide) (by decide)
      (by intro e he; simp only [List.mem_cons, List.not_mem_nil, or_false] at he; rcases he with rfl | rfl | rfl <;> decide)
      (by decide) (by rfl) (by rfl) ⟨animalT, by rfl, rfl⟩ (by rfl)
      (by intro e he; simp only [List.mem_cons, List.not_mem_nil, or_false] at he
          rcases he with rfl | rfl | rfl <;> exact ⟨by rfl, rfl⟩)
      referenceDup ⟨("age", tStr, true), by simp [FlatList.Example.fs], rfl⟩ (by simp)
  refine ⟨ds, rqA, batch, hg, ?_, by simpa using hl, hsh 0 2 e1 e1 rfl rfl rfl⟩
  -- `looked` is not exposed as `dedupIds`; re-derive it from the explicit call list
  obtain ⟨ds', hg', -⟩ := FlatList.flat_list_one_hop_calls fam svcs schemaA schemaB (dataOf [e1, e2, e1]) [e1, e2, e1]
      [x1, x2, x1] (by decide) (by decide) (by decide)
      (by intro e he; simp only [List.mem_cons, List.not_mem_nil, or_false] at he; rcases he with rfl | rfl | rfl <;> decide)
      (by decide) (by rfl) (by rfl) ⟨animalT, by rfl, rfl⟩ (by rfl)
      (by intro e he; simp only [List.mem_cons, List.not_mem_nil, or_false] at he
          rcases he with rfl | rfl | rfl <;> exact ⟨by rfl, rfl⟩)
      referenceDup
  rw [FlatList.callsOf_two _ _ _ _ _ _ _ (by decide) (by decide)] at hg'
  have heq := hg.symm.trans hg'
  injection heq with heq
  injection heq with _ _ hcalls
  injection hcalls with _ hcalls
  injection hcalls with hcallB _
  injection hcallB with _ hbatch
  rw [hbatch, FlatList.batchB_vars]
  have : FlatList.dedupIds ([e1, e2, e1].map (fun e => e.id)) = [e1.id, e2.id] := by decide
  rw [this]; rfl

end Instances

section InstancesNested
open FlatNested.Example

/-- non-vacuity: the concrete two-level federation (`animal { age name sound owner { name email city } }`,
    `B` owning `age` of `Animal` and `name`, `city` of `Person`) meets every hypothesis: two plan steps
    at `B`, one call to `B` with two lookups -/
theorem C12_flat_nested_instance : ∃ (answer : List (String × J)) (rootRequest l1 l2 : Exec.Request),
    Exec.gateway ctx {} ⟨.query, "", [], [FlatNested.QN "Animal" "Person" "animal" "owner" FlatNested.Example.fs [] hs]⟩ none
        (Exec.specDownstream svcs data)
      = .ok ⟨some answer, [], [⟨"A", [rootRequest]⟩, ⟨"B", [l1, l2]⟩]⟩ := by
  obtain ⟨answer, calls, rootRequest, l1, l2, _, _, _, _, _, _, -, -, -, -, -, -, hg, hc, -⟩ :=
    C12_flat_nested_one_call_per_service_per_level fam (settingOf FlatNested.Example.fs [] (by decide))
      expected0 [] expectedOwner rfl reference
      ⟨("age", tStr, true), by simp [FlatNested.Example.fs], rfl⟩ ⟨("name", tStr, true), by simp [hs], rfl⟩
  subst hc
  exact ⟨answer, rootRequest, l1, l2, hg⟩

end InstancesNested

end PebblesVerif
