import PebblesVerif.Model.Exec
/-!
# C13 — planning and responses are deterministic (partial)

Order-oracle theorems: places where the Go code ranges over a map, and why the order cannot
matter (or when it can). The run-time side (k repeats on two independently built gateways under
perturbed scheduling; the model under permuted map orders) is in harness/cmd/vh/c13.go.
-/
namespace PebblesVerif
open PebblesVerif.ScrubClean

theorem str_lt_of_lt_of_le {a b c : String} (h1 : a < b) (h2 : b ≤ c) : a < c := by
  rcases Std.lt_trichotomy a c with h | h | h
  · exact h
  · subst h; exact absurd h1 (String.not_lt.mpr h2)
  · exact absurd (String.lt_trans h h1) (String.not_lt.mpr h2)

/-- inserting two strings into ANY list commutes -/
theorem insertSortedStr_comm (x y : String) : ∀ (l : List String),
    insertSortedStr y (insertSortedStr x l) = insertSortedStr x (insertSortedStr y l) := by
  intro l
  induction l with
  | nil =>
    simp only [insertSortedStr]
    rcases Std.lt_trichotomy x y with h | h | h
    · have h' : ¬ y < x := String.lt_asymm h
      simp [h, h']
    · subst h; rfl
    · have h' : ¬ x < y := String.lt_asymm h
      simp [h, h']
  | cons a as ih =>
    simp only [insertSortedStr]
    by_cases hxa : x < a <;> by_cases hya : y < a
    · -- both go before a
      simp only [hxa, hya, ↓reduceIte, insertSortedStr]
      rcases Std.lt_trichotomy x y with h | h | h
      · have h' : ¬ y < x := String.lt_asymm h
        simp [h, h', hya, hxa]
      · subst h; rfl
      · have h' : ¬ x < y := String.lt_asymm h
        simp [h, h', hya, hxa]
    · -- x before a, y after: then x < y
      have hay : a ≤ y := String.not_lt.mp hya
      have hxy : x < y := str_lt_of_lt_of_le hxa hay
      have hyx : ¬ y < x := String.lt_asymm hxy
      simp [hxa, hya, insertSortedStr, hyx]
    · have hax : a ≤ x := String.not_lt.mp hxa
      have hyx : y < x := str_lt_of_lt_of_le hya hax
      have hxy : ¬ x < y := String.lt_asymm hyx
      simp [hxa, hya, insertSortedStr, hxy]
    · simp [hxa, hya, insertSortedStr, ih]

/-- **The synthesised variable header does not depend on map order**: `walkArgumentList` returns a
    Go map and the formatter sorts the `"$name: Type"` tuples; whatever order the map is ranged
    over (any permutation of the tuples) the sorted list is the same. -/
theorem C13_header_order_irrelevant {l₁ l₂ : List String} (h : l₁.Perm l₂) : sortStrs l₁ = sortStrs l₂ := by
  unfold sortStrs
  exact h.foldl_eq' (fun x _ y _ z => insertSortedStr_comm x y z) []

theorem find_unique_perm {α} (p : α → Bool) {l₁ l₂ : List α} (h : l₁.Perm l₂)
    (huniq : ∀ a ∈ l₁, ∀ b ∈ l₁, p a = true → p b = true → a = b) : l₁.find? p = l₂.find? p := by
  induction h with
  | nil => rfl
  | cons x _ ih =>
    rename_i l₁' l₂'
    simp only [List.find?_cons]
    cases hp : p x
    · exact ih (fun a ha b hb => huniq a (List.mem_cons_of_mem _ ha) b (List.mem_cons_of_mem _ hb))
    · rfl
  | swap x y l =>
    simp only [List.find?_cons]
    cases hx : p x <;> cases hy : p y <;> try rfl
    have := huniq y (by simp) x (by simp) hy hx
    rw [this]
  | trans h1 h2 ih1 ih2 =>
    rename_i l₁' l₂' l₃'
    rw [ih1 huniq]
    apply ih2
    intro a ha b hb
    exact huniq a (h1.mem_iff.mpr ha) b (h1.mem_iff.mpr hb)

/-- **Scrubbing at the end of a path does not depend on the order of the type map when the
    payload carries `__typename`** (type names are map keys, hence distinct): the one matching
    type decides. -/
theorem C13_scrub_type_order_irrelevant (payload : List (String × J)) (tn : String)
    (htn : J.lookup "__typename" payload = some (.str tn))
    {fields fields' : List (String × List String)} (hperm : fields.Perm fields')
    (hkeys : ∀ a ∈ fields, ∀ b ∈ fields, a.1 = b.1 → a = b) :
    cleanHere payload fields = cleanHere payload fields' := by
  unfold cleanHere
  simp only [htn]
  rw [find_unique_perm _ hperm]
  intro a ha b hb pa pb
  apply hkeys a ha b hb
  simp only [beq_iff_eq] at pa pb
  rw [← pa, ← pb]

/-- **Without `__typename` in the payload the order of the type map decides** — concrete
    witness: the same payload and the same table in two orders scrub differently. (Reachable when
    the helper `__typename` is missing from the payload; the run-time check looks for it.) -/
theorem C13_scrub_no_typename_order_dependent :
    J.keys (cleanHere [("id", .str "1"), ("x", .num "2")] [("A", ["id"]), ("B", ["x"])]) = ["x"]
      ∧ J.keys (cleanHere [("id", .str "1"), ("x", .num "2")] [("B", ["x"]), ("A", ["id"])]) = ["id"] := by
  decide

/-- Non-vacuity of the header theorem: two orders of the same tuples. -/
example : sortStrs ["$b: Int", "$a: ID!", "$c: String"] = sortStrs ["$c: String", "$b: Int", "$a: ID!"] :=
  C13_header_order_irrelevant (by decide)

end PebblesVerif
