import PebblesVerif.Proofs.C13Order
/-!
# C13 — order-independence theorems (all inputs, by induction)

The Go code ranges over maps in `ScrubFields.Clean` / `clean` (the scrub table: path ↦ type ↦
fields) and in `TypeURLMap.GetURLs` (the set of service URLs). The Lean model takes lists in list
order; the theorems below say when the order cannot matter:

* `C13_clean_type_order_irrelevant`, `C13_cleanAll_type_order_irrelevant` — the recursive scrubber
  is independent of the order of every per-path type table as long as the objects it reaches carry
  a string `__typename` (`TypedAt`); without that the order decides
  (`C13_clean_untyped_order_dependent`, lifting `C13_scrub_no_typename_order_dependent`);
* `C13_tum_order_irrelevant` — the type-URL map ranged over in another order answers `Get` /
  `GetTypeIsImplementsNode` alike and lists the same URLs, in another order;
* `C13_flat_mutation_calls_order` (+ `_fam`, `_subrequests`) — for the flat mutation family the
  downstream calls depend on the `GetURLs()` order up to permutation only, and every service
  receives exactly the same list of sub-requests;
* `C13_flat_scrub_order`, `C13_flat_list_scrub_order` — for the flat query families the gateway's
  outcome is the same for every re-ordering of the scrub table, whatever the downstream answers.

Helper lemmas in `Proofs/C13Order.lean`.
-/
namespace PebblesVerif
open PebblesVerif.ScrubClean PebblesVerif.C13Order

/-- **The whole recursive scrubber does not depend on the order of the type table** (lifting
    `C13_scrub_type_order_irrelevant` from the end of the path to `clean` / `cleanList`): for every
    path, every payload and every two orders of the per-path type table (`fields.Perm fields'`;
    type names are Go map keys, hence distinct: `DistinctTypes`), if every object the walk reaches
    at the end of the path carries a string `__typename` (`TypedAt path payload`: objects are
    descended into, of a list every object element, everything else is skipped, a missing key
    reaches nothing), then `clean` returns the same payload AND the same "now empty" flag. -/
theorem C13_clean_type_order_irrelevant (path : List String) (payload : List (String × J))
    {fields fields' : List (String × List String)} (hperm : fields.Perm fields')
    (hkeys : DistinctTypes fields) (htyped : TypedAt path payload = true) :
    clean fields path payload = clean fields' path payload :=
  clean_congr hperm hkeys path payload htyped

/-- the same for the elements of a list (`cleanList`, the `[]interface{}` branch of the Go code) -/
theorem C13_cleanList_type_order_irrelevant (rest : List String) (xs : List J)
    {fields fields' : List (String × List String)} (hperm : fields.Perm fields')
    (hkeys : DistinctTypes fields)
    (htyped : (xs.all (fun x => match x with | .obj v => TypedAt rest v | _ => true)) = true) :
    cleanList fields rest xs = cleanList fields' rest xs :=
  cleanList_congr rest (fun v hv => clean_congr hperm hkeys rest v hv) xs htyped

namespace C13Order.Example
def dog : J := .obj [("__typename", .str "Dog"), ("id", .str "1"), ("name", .str "rex")]
def cat : J := .obj [("__typename", .str "Cat"), ("id", .str "2"), ("lives", .num "9")]
/-- a payload with a list (objects, a `null` and a number among its elements) and a nested object -/
def payload : List (String × J) :=
  [("pets", .arr [dog, .null, cat, .num "3"]),
   ("owner", .obj [("__typename", .str "Person"), ("id", .str "o"), ("pet", dog)])]
def types : List (String × List String) := [("Dog", ["id", "__typename"]), ("Cat", ["__typename"]), ("Person", ["id"])]
def types' : List (String × List String) := [("Person", ["id"]), ("Cat", ["__typename"]), ("Dog", ["id", "__typename"])]
def table : Scrub := [(["pets"], types), (["owner"], types), (["owner", "pet"], types)]
def table' : Scrub := [(["pets"], types'), (["owner"], types.reverse), (["owner", "pet"], types')]
end C13Order.Example

/-- Non-vacuity: a payload with a list of typed objects (and skipped non-objects), a three-type
    table in two different orders. -/
example : clean C13Order.Example.types ["pets"] C13Order.Example.payload
    = clean C13Order.Example.types' ["pets"] C13Order.Example.payload :=
  C13_clean_type_order_irrelevant _ _ (by decide) (by decide) (by decide)

/-- … and the scrubber does something there: `Dog` loses `id` and `__typename`, `Cat` only
    `__typename`, the non-objects stay. -/
example : (clean C13Order.Example.types ["pets"] C13Order.Example.payload).1
    = [("pets", .arr [.obj [("name", .str "rex")], .null, .obj [("id", .str "2"), ("lives", .num "9")], .num "3"]),
       ("owner", .obj [("__typename", .str "Person"), ("id", .str "o"), ("pet", C13Order.Example.dog)])] := by
  simp [clean, cleanW, cleanList, cleanListW, cleanHere, J.lookup, J.eraseKey, J.setKey, C13Order.Example.types,
    C13Order.Example.payload, C13Order.Example.dog, C13Order.Example.cat]

/-- **Without `__typename` the order of the type table decides — for the recursive scrubber too**
    (the witness `C13_scrub_no_typename_order_dependent` below an object): the hypothesis
    `TypedAt` of `C13_clean_type_order_irrelevant` cannot be dropped. The instance is the shape of
    the open finding `C13-node-root-scrub-order`: at the path `node` the sanitiser registers `id`
    and `__typename` for the fragment's own type and `__typename` alone for the other possible
    types, the payload under `node` carries no `__typename`; whichever type comes first decides —
    the helper `id` is removed in one order and stays in the other. -/
theorem C13_clean_untyped_order_dependent :
    (clean [("N1", ["id", "__typename"]), ("N0", ["__typename"])] ["node"]
        [("node", .obj [("id", .str "N1_1"), ("f", .str "x")])]).1
      = [("node", .obj [("f", .str "x")])] ∧
    (clean [("N0", ["__typename"]), ("N1", ["id", "__typename"])] ["node"]
        [("node", .obj [("id", .str "N1_1"), ("f", .str "x")])]).1
      = [("node", .obj [("id", .str "N1_1"), ("f", .str "x")])] ∧
    TypedAt ["node"] [("node", .obj [("id", .str "N1_1"), ("f", .str "x")])] = false := by
  refine ⟨?_, ?_, by decide⟩ <;> simp [clean, cleanW, cleanHere, J.lookup, J.eraseKey, J.setKey]

/-- **`ScrubFields.Clean` over a whole table does not depend on the order of any of its type
    tables.** Two tables with the same paths in the same order whose type tables are pairwise
    permutations of each other (`SameUpToTypeOrder`; distinct type names per path; pairwise
    different paths — both are Go map keys) clean every payload to the same result, PROVIDED every
    object reached at the end of every path of the table carries a string `__typename` in the
    ORIGINAL payload. The hypothesis is on the original payload only: cleaning one path keeps
    every other path typed (`C13Order.typedAt_clean` — `clean` deletes helper fields at the end of
    its own path and removes emptied parents; what another path reaches only shrinks, and an
    object on the way is rewritten under a key other than `__typename`). Different paths are
    needed for exactly this: an earlier entry with the SAME path may scrub `__typename` itself
    (it is a helper field in pebbles) and leave the later entry order-dependent. -/
theorem C13_cleanAll_type_order_irrelevant {sf sf' : Scrub} (payload : List (String × J))
    (hrel : SameUpToTypeOrder sf sf')
    (hkeys : ∀ e ∈ sf, DistinctTypes e.2)
    (hpaths : (sf.map (fun e => unhash e.1)).Nodup)
    (htyped : ∀ e ∈ sf, TypedAt (unhash e.1) payload = true) :
    cleanAll sf payload = cleanAll sf' payload :=
  cleanAll_congr hrel payload hkeys hpaths htyped

/-- the invariant behind it, for use elsewhere: cleaning `path₁` keeps `path₂ ≠ path₁` typed -/
theorem C13_clean_keeps_other_paths_typed (fields : List (String × List String))
    (path₁ path₂ : List String) (payload : List (String × J)) (hne : path₁ ≠ path₂)
    (h : TypedAt path₂ payload = true) : TypedAt path₂ (clean fields path₁ payload).1 = true :=
  typedAt_clean fields path₁ path₂ payload hne h

/-- Non-vacuity: three paths (one a prefix of another, so the second clean rewrites an object the
    third walks through), each type table in another order. -/
example : cleanAll C13Order.Example.table C13Order.Example.payload
    = cleanAll C13Order.Example.table' C13Order.Example.payload :=
  C13_cleanAll_type_order_irrelevant _
    (.cons (by decide) (.cons (by decide) (.cons (by decide) .nil))) (by decide) (by decide) (by decide)

/-- **The flat mutation family's downstream calls depend on the order of `GetURLs()` only up to
    permutation.** `Mut.callsOf c ms` lists, for each URL of `c.tum.urls` (Go: a range over a map)
    that owns a selected field, the call `⟨u, [mutation { <u's fields, in document order> }]⟩`.
    For two planning contexts with the same merged schema, operation kind and operation name
    whose URL lists are permutations of each other, the two call lists are permutations of each
    other: the request a service receives is built without looking at the routing table
    (`C13Order.reqOf_congr`), only the ORDER of the calls follows `GetURLs()`. -/
theorem C13_flat_mutation_calls_order {c c' : PCtx} (ms : List Mut.MSpec)
    (hschema : c'.schema = c.schema) (hkind : c'.opKind = c.opKind) (hname : c'.opName = c.opName)
    (hurls : c'.tum.urls.Perm c.tum.urls) :
    (Mut.callsOf c' ms).Perm (Mut.callsOf c ms) :=
  callsOf_perm hschema hkind hname hurls ms

/-- **Ranging over the type-URL map in another order changes nothing but the order of
    `GetURLs()`.** If `c'.tum` is the Go map `c.tum` in another iteration order (`TumReorder`: the
    types permuted, each type's field table permuted; type names and per-type field names are map
    keys, hence distinct) and the two planning contexts have the same merged schema and operation,
    then they are `SameTables`: `Get` and `GetTypeIsImplementsNode` answer alike for EVERY type and
    field, and the URL lists are permutations of each other. -/
theorem C13_tum_order_irrelevant {c c' : PCtx} (hschema : c'.schema = c.schema) (hkind : c'.opKind = c.opKind)
    (hname : c'.opName = c.opName) (h : TumReorder c.tum c'.tum) : SameTables c c' :=
  sameTables_of_reorder hschema hkind hname h

/-- membership in the family does not depend on the instance -/
theorem C13_flat_mutation_fam {c c' : PCtx} {ms : List Mut.MSpec} (h : Mut.Fam c ms)
    (hsame : SameTables c c') : Mut.Fam c' ms :=
  fam_transfer h hsame.schema hsame.opKind hsame.get

/-- **Every service receives the same sub-requests on every gateway instance — end to end.** For
    an operation of the flat mutation family, two instances `c`, `c'` built from the same schemas
    (`SameTables`) and any two downstreams that answer every batch with one object per request:
    both gateway runs succeed without errors, their recorded downstream calls are permutations of
    each other (the same MULTISET of (URL, batch) pairs), and — the URLs of the calls being
    pairwise different — for every URL `u` the list of calls made to `u` is literally the same. -/
theorem C13_flat_mutation_subrequests {c c' : PCtx} {ms : List Mut.MSpec} (h : Mut.Fam c ms)
    (hsame : SameTables c c') (down down' : Exec.Downstream)
    (hdown : ∀ url batch, ∃ resps, down url batch = .ok resps ∧ resps.length = batch.length)
    (hdown' : ∀ url batch, ∃ resps, down' url batch = .ok resps ∧ resps.length = batch.length) :
    ∃ d d' calls calls',
      Exec.gateway c {} (Mut.op c ms) none down = .ok ⟨some d, [], calls⟩ ∧
      Exec.gateway c' {} (Mut.op c' ms) none down' = .ok ⟨some d', [], calls'⟩ ∧
      calls'.Perm calls ∧
      ∀ u, calls'.filter (fun cl => cl.url == u) = calls.filter (fun cl => cl.url == u) := by
  obtain ⟨d, hg⟩ := C06_flat_mutation_calls_explicit h down hdown
  obtain ⟨d', hg'⟩ := C06_flat_mutation_calls_explicit (C13_flat_mutation_fam h hsame) down' hdown'
  have hp := C13_flat_mutation_calls_order ms hsame.schema hsame.opKind hsame.opName hsame.urls
  exact ⟨d, d', _, _, hg, hg', hp, per_service_eq hp (Mut.callsOf_shape c ms).2⟩

namespace C13Order.Example
/-- the routing table of `Mut.Example` with its two types in the other order and the fields of
    `Mutation` rotated: `GetURLs()` yields `[A, B]` instead of `[B, A]` -/
def tum' : Tum := [("Mutation", ⟨[("m3", "A"), ("m1", "A"), ("m2", "B")], false⟩), ("Query", ⟨[("q", "B")], false⟩)]
def ctx' : PCtx := ⟨Mut.Example.merged, tum', .mutation, ""⟩

/-- `tum'` is the map `Mut.Example.tum` in another iteration order -/
theorem reorder : TumReorder Mut.Example.tum tum' where
  mid := ⟨[("Mutation", ⟨[("m1", "A"), ("m2", "B"), ("m3", "A")], false⟩), ("Query", ⟨[("q", "B")], false⟩)],
    by decide, .cons rfl (by decide) (.cons rfl (by decide) .nil)⟩
  types := by decide
  fields := by decide

theorem sameTables : SameTables Mut.Example.ctx ctx' := C13_tum_order_irrelevant rfl rfl rfl reorder
end C13Order.Example

/-- Non-vacuity: `mutation { m1 m2 m3 }` (owners `A B A`) on two instances whose `GetURLs()`
    orders differ (`[B, A]` and `[A, B]`): the call lists are different lists … -/
example : (Mut.callsOf C13Order.Example.ctx' Mut.Example.ms).map (·.url) = ["A", "B"]
    ∧ (Mut.callsOf Mut.Example.ctx Mut.Example.ms).map (·.url) = ["B", "A"] := by decide

/-- … and permutations of each other; every hypothesis of `C13_flat_mutation_subrequests` is met. -/
example : ∃ d d' calls calls',
    Exec.gateway Mut.Example.ctx {} (Mut.op Mut.Example.ctx Mut.Example.ms) none Mut.Example.downEmpty
      = .ok ⟨some d, [], calls⟩ ∧
    Exec.gateway C13Order.Example.ctx' {} (Mut.op C13Order.Example.ctx' Mut.Example.ms) none Mut.Example.downEmpty
      = .ok ⟨some d', [], calls'⟩ ∧
    calls'.Perm calls ∧ ∀ u, calls'.filter (fun cl => cl.url == u) = calls.filter (fun cl => cl.url == u) :=
  C13_flat_mutation_subrequests Mut.Example.fam C13Order.Example.sameTables _ _
    Mut.Example.downEmpty_answers Mut.Example.downEmpty_answers

/-- **The answer of the "one object, two owners" query family does not depend on the order of the
    scrub table.** For every operation `{ q { f₁ … fₖ } }` of `Flat.Fam`, EVERY downstream (faulty
    ones included) and every re-ordering `σ` of the scrub table — the entries permuted and each
    entry's type table permuted, `ScrubReorder`, which covers both Go map ranges of
    `ScrubFields.Clean` — the gateway model's outcome (data, errors, calls) is the one obtained
    with the table as planned. (The planner's table for these operations has one path `[q]` and
    one type `T`: `C13Order.flat_plan`; a one-entry table has one order.) -/
theorem C13_flat_scrub_order {c : PCtx} {A B T q : String} {fs : List Flat.FieldSpec}
    (h : Flat.Fam c A B T q fs) (down : Exec.Downstream) (σ : Scrub → Scrub) (hσ : ScrubReorder σ) :
    Exec.gateway c {} ⟨.query, "", [], [Flat.Q T q fs]⟩ none down σ
      = Exec.gateway c {} ⟨.query, "", [], [Flat.Q T q fs]⟩ none down id :=
  gateway_scrubOrder_single (flat_plan h) down σ hσ

/-- in particular for every `σ` that permutes the entries of the table -/
theorem C13_flat_scrub_order_perm {c : PCtx} {A B T q : String} {fs : List Flat.FieldSpec}
    (h : Flat.Fam c A B T q fs) (down : Exec.Downstream) (σ : Scrub → Scrub) (hσ : ∀ sf, (σ sf).Perm sf) :
    Exec.gateway c {} ⟨.query, "", [], [Flat.Q T q fs]⟩ none down σ
      = Exec.gateway c {} ⟨.query, "", [], [Flat.Q T q fs]⟩ none down id :=
  C13_flat_scrub_order h down σ (ScrubReorder.of_perm hσ)

/-- the same for the "LIST of objects, two owners" family (`q : [T]`) -/
theorem C13_flat_list_scrub_order {c : PCtx} {A B T q : String} {fs : List Flat.FieldSpec}
    (h : Flat.Fam c A B T q fs) (down : Exec.Downstream) (σ : Scrub → Scrub) (hσ : ScrubReorder σ) :
    Exec.gateway c {} ⟨.query, "", [], [FlatList.QL T q fs]⟩ none down σ
      = Exec.gateway c {} ⟨.query, "", [], [FlatList.QL T q fs]⟩ none down id :=
  gateway_scrubOrder_single (flatList_plan h) down σ hσ

/-- Non-vacuity: the concrete federation of `C01_flat_one_hop_instance`, the reference
    downstream, and `σ` = reversing the table. -/
example : Exec.gateway Flat.Example.ctx {} ⟨.query, "", [], [Flat.Q "Animal" "animal" Flat.Example.fs]⟩ none
      (Exec.specDownstream Flat.Example.svcs Flat.Example.data) List.reverse
    = Exec.gateway Flat.Example.ctx {} ⟨.query, "", [], [Flat.Q "Animal" "animal" Flat.Example.fs]⟩ none
      (Exec.specDownstream Flat.Example.svcs Flat.Example.data) id :=
  C13_flat_scrub_order_perm Flat.Example.fam _ _ (fun sf => List.reverse_perm sf)

example : Exec.gateway FlatList.Example.ctx {} FlatList.Example.op none
      (Exec.specDownstream FlatList.Example.svcs (FlatList.Example.dataOf [FlatList.Example.e1, FlatList.Example.e2])) List.reverse
    = Exec.gateway FlatList.Example.ctx {} FlatList.Example.op none
      (Exec.specDownstream FlatList.Example.svcs (FlatList.Example.dataOf [FlatList.Example.e1, FlatList.Example.e2])) id :=
  C13_flat_list_scrub_order FlatList.Example.fam _ _ (ScrubReorder.of_perm (fun sf => List.reverse_perm sf))

end PebblesVerif
