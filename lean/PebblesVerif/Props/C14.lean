import PebblesVerif.Proofs.CacheConc
import PebblesVerif.Proofs.CacheKey
import PebblesVerif.Gen.CacheKey

/-!
# C14 — the plan cache never changes an answer

Property theorems ONLY (helper lemmas: `Proofs/Cache.lean`, `Proofs/CacheConc.lean`,
`Proofs/CacheKey.lean`).

* `C14_refines` — sequential refinement: ALL histories, ALL TTLs (0 included), ANY clock.
* `C14_conc…` — the lock-level transition system: every interleaving of k requests, ∀ k.
* `C14_key_…` — the two hypotheses of the refinement (`hkey`: equal keys ⇒ equal plain plans;
  `himm`: consumers do not write through the plan they are handed) are FALSE of the tree as
  first read (`C14_key_collision_current`, `C14_shared_plan_mutation_current`) and are
  discharged for the repaired tree from the regenerated facts (`C14_key_fields_sufficient`,
  `C14_key_determines_plan`, `C14_refines_repaired`).
-/
namespace PebblesVerif.Cache
open PebblesVerif.CacheKey

/-- **Refinement.** If equal keys imply equal plain plans and no consumer writes through the
    plan object, then for every history, every TTL and every pair of clock readings per request
    the cached planner answers exactly like the plain planner. -/
theorem C14_refines {Op Plan Key E : Type} [DecidableEq Key] (S : Sys Op Plan Key E)
    (hkey : ∀ a b, S.key a = S.key b → S.plain a = S.plain b)
    (ttl : Nat) (hist : List (Req Op Plan)) (himm : ∀ r ∈ hist, ∀ p, r.write p = p) :
    runCached S ttl hist = specRun S hist :=
  runFrom_spec hkey ttl hist himm (inv_nil S)

/-- The same from any cache state satisfying the invariant (a planner that has already served
    an arbitrary earlier history). -/
theorem C14_refines_from {Op Plan Key E : Type} [DecidableEq Key] (S : Sys Op Plan Key E)
    (hkey : ∀ a b, S.key a = S.key b → S.plain a = S.plain b)
    (ttl : Nat) (hist : List (Req Op Plan)) (himm : ∀ r ∈ hist, ∀ p, r.write p = p)
    (st : St Key Plan) (hinv : Inv S st) :
    (runFrom S ttl hist st).map (·.res) = specRun S hist :=
  runFrom_spec hkey ttl hist himm hinv

/-- Non-vacuity: a history with a miss, a hit, an expiry (TTL 5), an uncached error and a
    backwards clock; ops are numbers, key = op % 10, plain fails on multiples of 7. -/
example :
    let S : Sys Nat Nat Nat String := ⟨(· % 10), fun n => if n % 7 = 0 then .error "no" else .ok (n % 10)⟩
    let hist : List (Req Nat Nat) := [⟨0, 1, 3, id⟩, ⟨2, 3, 13, id⟩, ⟨9, 9, 3, id⟩, ⟨10, 11, 7, id⟩, ⟨4, 4, 7, id⟩]
    hits S 5 hist = [false, true, false, false, false]
      ∧ runCached S 5 hist = [.ok 3, .ok 3, .ok 3, .error "no", .error "no"] := by
  exact ⟨rfl, rfl⟩

/-! ## Concurrent requests -/
open Conc

/-- **Every interleaving.** For any number of concurrent requests, any operations, any TTL,
    any clock readings and any schedule of the lock-level steps, a request that has returned
    has returned `plain` of its own operation. -/
theorem C14_conc {Op Plan Key E : Type} [DecidableEq Key] (c : Cfg Op Plan Key E)
    (hkey : ∀ a b, c.sys.key a = c.sys.key b → c.sys.plain a = c.sys.plain b)
    (cache₀ : St Key Plan) (h0 : Inv c.sys cache₀) {s : Conc.St Plan Key E} (h : Reach c cache₀ s)
    (i : Nat) (r : Except E Plan) (hit : Bool) (op : Op)
    (hop : c.ops[i]? = some op) (hi : s.pcs[i]? = some (PC.done r hit)) : r = c.sys.plain op :=
  (reach_inv hkey h0 h).doneOk i r hit op hop hi

/-- The cache invariant holds in every reachable state (so the planner can go on serving any
    further history, `C14_refines_from`). -/
theorem C14_conc_cache_inv {Op Plan Key E : Type} [DecidableEq Key] (c : Cfg Op Plan Key E)
    (hkey : ∀ a b, c.sys.key a = c.sys.key b → c.sys.plain a = c.sys.plain b)
    (cache₀ : St Key Plan) (h0 : Inv c.sys cache₀) {s : Conc.St Plan Key E} (h : Reach c cache₀ s) :
    Inv c.sys s.cache :=
  (reach_inv hkey h0 h).cacheOk

/-- RWMutex discipline: while a process is inside a write section (`delete…` in `clean`, the
    two stores in `Plan`) no other process is inside any section — the maps are never read or
    written concurrently with a write. -/
theorem C14_conc_mutex {Op Plan Key E : Type} [DecidableEq Key] (c : Cfg Op Plan Key E)
    (hkey : ∀ a b, c.sys.key a = c.sys.key b → c.sys.plain a = c.sys.plain b)
    (cache₀ : St Key Plan) (h0 : Inv c.sys cache₀) {s : Conc.St Plan Key E} (h : Reach c cache₀ s)
    (i j : Nat) (pi pj : PC Plan Key E) (hij : i ≠ j)
    (hi : s.pcs[i]? = some pi) (hj : s.pcs[j]? = some pj) (hw : wr pi = 1) :
    rd pj = 0 ∧ wr pj = 0 := by
  have hinv := reach_inv hkey h0 h
  have h1 := le_sum_of_getElem? wr hi
  have h2 := two_le_sum wr hij hi hj
  have h3 := le_sum_of_getElem? rd hj
  rw [hinv.wrCnt] at h1 h2
  rw [hinv.rdCnt] at h3
  have hwt : s.writer = true := by
    cases hh : s.writer
    · rw [hh] at h1; simp at h1; omega
    · rfl
  have := hinv.excl hwt
  rw [hwt] at h2
  simp at h2
  omega

/-- No deadlock: in every reachable state in which some request has not returned, some step
    is enabled. -/
theorem C14_conc_progress {Op Plan Key E : Type} [DecidableEq Key] (c : Cfg Op Plan Key E)
    (hkey : ∀ a b, c.sys.key a = c.sys.key b → c.sys.plain a = c.sys.plain b)
    (cache₀ : St Key Plan) (h0 : Inv c.sys cache₀) {s : Conc.St Plan Key E} (h : Reach c cache₀ s)
    (hf : ¬ Final s) : ∃ e s', Step c s e s' :=
  progress (reach_inv hkey h0 h) hf

/-- Every step decreases a natural-number measure: every schedule is finite, so with
    `C14_conc_progress` every maximal run ends with all requests answered. -/
theorem C14_conc_terminates {Op Plan Key E : Type} [DecidableEq Key] (c : Cfg Op Plan Key E)
    {s s' : Conc.St Plan Key E} {e : Ev} (hs : Step c s e s') : measure s' < measure s :=
  measure_step hs

/-- Non-vacuity: two concurrent requests with the same key on an empty cache, both missing
    (both look up before either inserts), both planning, both inserting, both answered. -/
example :
    let c : Cfg Nat Nat Nat String := ⟨⟨(· % 10), fun n => .ok (n % 10)⟩, 5, [3, 13]⟩
    ∃ s, runEvents c (init c [])
      [.hash 0, .hash 1, .rlockScan 0 0, .rlockScan 1 0, .scanDone 0, .scanDone 1,
       .rlockLookup 0, .lookupDone 0, .rlockLookup 1, .lookupDone 1, .plan 0, .plan 1,
       .lockInsert 1, .insertDone 1 2, .lockInsert 0, .insertDone 0 3] = some s
      ∧ s.cache.length = 1 ∧ s.readers = 0 ∧ s.writer = false
      ∧ s.pcs.map isDone = [true, true] := by
  exact ⟨_, rfl, rfl, rfl, rfl, rfl⟩

/-! ## The key -/

/-- which parts of the operation the regenerated facts say reach the hash -/
def specOfFacts (f : Gen.CacheKey.Facts) : KeySpec :=
  { opType := f.keyInputs.contains "Operation",
    opName := f.keyInputs.contains "Name",
    selection := f.keyInputs.contains "SelectionSet" && f.keyFormatsSelectionSet,
    fragmentConds := f.keyFragmentTypeConditions || f.spreadPrintsTypeCondition }

/-- **The defect of the tree as first read**: with the key covering only the formatted
    selection set, there are operations with equal keys and different plans — differing in
    operation type (`{ ping }` / `mutation { ping }`), in operation name, and in the type
    condition of a spread fragment (`...F` with `fragment F on A` / `on B`). Witnesses by
    evaluation, plans computed by the header logic of the real planner. -/
theorem C14_key_collision_current :
    let k := specOfFacts Gen.CacheKey.unfixed
    let q : COp := ⟨.query, "", [], [.field "ping" []]⟩
    let m : COp := ⟨.mutation, "", [], [.field "ping" []]⟩
    let n : COp := ⟨.query, "A", [], [.field "ping" []]⟩
    let fa : COp := ⟨.query, "", [], [.field "thing" [.spread "F" "A" [.field "label" []]]]⟩
    let fb : COp := ⟨.query, "", [], [.field "thing" [.spread "F" "B" [.field "label" []]]]⟩
    (keyOf k q = keyOf k m ∧ (headerPlan (view q)).beq (headerPlan (view m)) = false)
    ∧ (keyOf k q = keyOf k n ∧ (headerPlan (view q)).beq (headerPlan (view n)) = false)
    ∧ (keyOf k fa = keyOf k fb ∧ (headerPlan (view fa)).beq (headerPlan (view fb)) = false) := by
  refine ⟨⟨rfl, by decide⟩, ⟨rfl, by decide⟩, ⟨rfl, by decide⟩⟩

/-- …and ANY cached planner with a colliding pair answers the second request with the plan of
    the first, as long as the first entry has not expired (`t1 ≤ ttl`): whenever
    `plain b ≠ plain a` the refinement fails on this two-request history. -/
theorem C14_collision_breaks_refinement {Op Plan Key E : Type} [DecidableEq Key] (S : Sys Op Plan Key E)
    (a b : Op) (pa : Plan) (hk : S.key a = S.key b) (ha : S.plain a = .ok pa)
    (ttl t1 t2 : Nat) (ht : t1 ≤ ttl) :
    runCached S ttl [⟨0, 0, a, id⟩, ⟨t1, t2, b, id⟩] = [.ok pa, .ok pa] := by
  have hlt : ¬ (ttl < t1) := by omega
  simp [runCached, runFrom, request, clean, lookup, insert, touch, ha, hk, hlt]

/-- **The second defect of the tree as first read**: a consumer that cuts the child steps off
    the plan it is handed (`rs.Then = nil` in `newSubscriptionEntry`) cuts them off the cache
    entry: the next request with that key is answered with the mutilated plan. Plans are lists
    of child-step names here. -/
theorem C14_shared_plan_mutation_current :
    let S : Sys String (List String) String String := ⟨id, fun _ => .ok ["items.extra"]⟩
    let hist : List (Req String (List String)) := [⟨0, 0, "sub", fun _ => []⟩, ⟨1, 1, "sub", id⟩]
    runCached S 3600 hist = [.ok ["items.extra"], .ok []]
      ∧ specRun S hist = [.ok ["items.extra"], .ok ["items.extra"]] := by
  exact ⟨rfl, rfl⟩

/-- **Regenerated facts.** The source as it is NOW has the shape the models are written for:
    the hash covers operation type, name, the formatted selection set and the spreads' type
    conditions; the wrapped planner reads nothing else of the context; `clean` tests
    `v.Before(ttlnow)`; the expiry clock is read after planning; lookup and insert use the
    request's own key; errors are not stored; the lock calls come in the modelled order; and no
    consumer in the root package assigns through the plan it got from the planner. -/
theorem C14_key_fields_sufficient : Gen.CacheKey.facts = Gen.CacheKey.expected := by decide

/-- The decisive part on its own: everything the planner reads of the operation is hashed,
    the request is not read, and no consumer writes through the plan. -/
theorem C14_planner_reads_within_key :
    (Gen.CacheKey.facts.plannerReads.all (Gen.CacheKey.facts.keyInputs.contains ·)) = true
      ∧ Gen.CacheKey.facts.plannerReadsRequest = false
      ∧ specOfFacts Gen.CacheKey.facts = ⟨true, true, true, true⟩
      ∧ Gen.CacheKey.facts.consumerPlanWrites = [] := by decide

/-- **`hkey` is a theorem for the repaired key**: for ANY planner that is a function of what
    the planner package reads of the operation (type, name, selection set with resolved
    fragments — not the variable definitions), equal keys give equal plans. -/
theorem C14_key_determines_plan {Plan E : Type} (planner : View → Except E Plan) (a b : COp)
    (h : keyOf (specOfFacts Gen.CacheKey.facts) a = keyOf (specOfFacts Gen.CacheKey.facts) b) :
    planner (view a) = planner (view b) := by
  have hs : specOfFacts Gen.CacheKey.facts = ⟨true, true, true, true⟩ := by decide
  rw [hs] at h
  simp only [keyOf, if_true, Key.mk.injEq, Option.some.injEq] at h
  obtain ⟨h1, h2, h3, h4⟩ := h
  have h5 := eqL_of_erase_conds a.sel b.sel h3 h4
  simp only [view, h1, h2, h5]

/-- **Unconditional refinement for the repaired tree**: with the regenerated key and consumers
    that do not write (regenerated: `consumerPlanWrites = []`), every history, every TTL, any
    clock, any planner over the planner's view. -/
theorem C14_refines_repaired {Plan E : Type} [DecidableEq Key] (planner : View → Except E Plan)
    (ttl : Nat) (hist : List (Req COp Plan)) (himm : ∀ r ∈ hist, ∀ p, r.write p = p) :
    runCached (sys (specOfFacts Gen.CacheKey.facts) planner) ttl hist
      = specRun (sys (specOfFacts Gen.CacheKey.facts) planner) hist :=
  C14_refines _ (fun a b h => C14_key_determines_plan planner a b h) ttl hist himm

/-- …and for every interleaving of concurrent requests. -/
theorem C14_conc_repaired {Plan E : Type} [DecidableEq Key] (planner : View → Except E Plan)
    (ttl : Nat) (ops : List COp) {s : Conc.St Plan Key E}
    (h : Reach ⟨sys (specOfFacts Gen.CacheKey.facts) planner, ttl, ops⟩ [] s)
    (i : Nat) (r : Except E Plan) (hit : Bool) (op : COp)
    (hop : ops[i]? = some op) (hi : s.pcs[i]? = some (PC.done r hit)) : r = planner (view op) :=
  C14_conc ⟨sys (specOfFacts Gen.CacheKey.facts) planner, ttl, ops⟩
    (fun a b h => C14_key_determines_plan planner a b h) [] (inv_nil _) h i r hit op hop hi

/-- Non-vacuity of the key theorems: the repaired key separates the three colliding pairs. -/
example :
    let k := specOfFacts Gen.CacheKey.expected
    let q : COp := ⟨.query, "", [], [.field "ping" []]⟩
    let m : COp := ⟨.mutation, "", [], [.field "ping" []]⟩
    (keyOf k q).opType ≠ (keyOf k m).opType := by decide

end PebblesVerif.Cache
