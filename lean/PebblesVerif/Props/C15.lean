import PebblesVerif.Proofs.RemoteDecode
/-!
# C15 — introspecting a service reproduces its schema

`Model.Remote.rebuild` is `introspectRemoteSchema` of introspection/remote.go up to (excluding)
gqlparser's printer and loader; `Spec.standardAnswer S` is the answer the GraphQL specification
prescribes for the introspection query pebbles sends (`Spec.stdSel`, compared with the real
query text on every run). The reconstruction is faithful — up to `Spec.normSchema`, what an
introspection answer can carry — for **every** schema inside the decidable feature set
`Spec.supportedC15`; each excluded feature is an open finding with a witness evaluated below
(argument defaults, input defaults, deprecation, repeatable directives, more than 7 wrappers)
or repaired (`json:"args"` on directive arguments: `C15_gen_recognised`).
-/
namespace PebblesVerif
open PebblesVerif.Spec PebblesVerif.Model.Remote

/-- The decoding structs of remote.go, regenerated from the source on every run, carry the JSON
    member names of the specification — in particular directive arguments are read from `args` —
    and `parseType` / the directive loop skip exactly gqlparser's own definitions. -/
theorem C15_gen_recognised :
    Gen.Remote.recognised = true
    ∧ Gen.Remote.keySchema = "__schema" ∧ Gen.Remote.keySchemaQueryType = "queryType"
    ∧ Gen.Remote.keySchemaMutationType = "mutationType" ∧ Gen.Remote.keySchemaSubscriptionType = "subscriptionType"
    ∧ Gen.Remote.keySchemaTypes = "types" ∧ Gen.Remote.keySchemaDirectives = "directives"
    ∧ Gen.Remote.keyDirName = "name" ∧ Gen.Remote.keyDirDescription = "description" ∧ Gen.Remote.keyDirLocations = "locations"
    ∧ Gen.Remote.keyDirArgs = "args" ∧ Gen.Remote.keyRootName = "name"
    ∧ Gen.Remote.keyFieldName = "name" ∧ Gen.Remote.keyFieldDescription = "description" ∧ Gen.Remote.keyFieldArgs = "args"
    ∧ Gen.Remote.keyFieldType = "type" ∧ Gen.Remote.keyTypeKind = "kind" ∧ Gen.Remote.keyTypeName = "name"
    ∧ Gen.Remote.keyTypeDescription = "description" ∧ Gen.Remote.keyTypeInputFields = "inputFields"
    ∧ Gen.Remote.keyTypeInterfaces = "interfaces" ∧ Gen.Remote.keyTypePossibleTypes = "possibleTypes"
    ∧ Gen.Remote.keyTypeFields = "fields" ∧ Gen.Remote.keyTypeEnumValues = "enumValues"
    ∧ Gen.Remote.keyEnumName = "name" ∧ Gen.Remote.keyEnumDescription = "description"
    ∧ Gen.Remote.keyInputName = "name" ∧ Gen.Remote.keyInputDescription = "description"
    ∧ Gen.Remote.keyInputDefault = "defaultValue" ∧ Gen.Remote.keyInputType = "type"
    ∧ Gen.Remote.keyTypeRefKind = "kind" ∧ Gen.Remote.keyTypeRefName = "name" ∧ Gen.Remote.keyTypeRefOfType = "ofType"
    ∧ Gen.Remote.skipTypeNames = ["ID", "Int", "Float", "String", "Boolean", "__Schema", "__Type", "__InputValue", "__TypeKind",
        "__DirectiveLocation", "__Field", "__EnumValue", "__Directive"]
    ∧ Gen.Remote.skipDirectiveNames = ["skip", "deprecated", "include", "specifiedBy"] := by decide

/-! ## type references -/

/-- **Arbitrarily nested wrappers.** For every type reference `ast.Type` can express and every
    assignment of kinds to named types: `parseTypeRef` of the specification's full `ofType` chain is
    the type (any depth); of the chain cut after `d` levels — the standard query asks for
    `typeRefLevels = 8` — it is the type when it has fewer than `d` wrappers, and `noOfTypeErr`
    otherwise: a start-up error on the repaired tree (`C15_malformed_typeref_is_error`), a nil
    dereference (a process crash) before the repair. -/
theorem C15_typeref_roundtrip (kindOf : String → String) (hk : KindsOK kindOf) (t : TypeRef) (hn : t.normal = true) :
    parseTypeRef (encTR kindOf t) = .ok t
    ∧ (∀ d, t.depth < d → parseTypeRef (truncTR d (encTR kindOf t)) = .ok t)
    ∧ (∀ d, d ≤ t.depth → parseTypeRef (truncTR d (encTR kindOf t)) = .error noOfTypeErr) :=
  ⟨parseTypeRef_enc kindOf hk t hn, fun d h => parseTypeRef_trunc_ok kindOf hk t hn d h,
   fun d h => parseTypeRef_trunc_panic kindOf t hn d h⟩

/-- **the tie: a wrapper without `ofType` is reported, not dereferenced.** The regenerated fact
    says `parseTypeRef` guards `response == nil` and `response.OfType == nil` and returns an error;
    without the guards (the tree before the repair) a spec-shaped answer for a type with more than
    seven wrappers, or a malformed answer, crashed the process (former findings
    typeref-depth-over-7, typeref-nil-oftype-panics). -/
theorem C15_malformed_typeref_is_error : noOfTypeErr = .noOfType := by decide

/-! ## the reconstruction -/

/-- **C15, fidelity.** For every schema in `supportedC15`, the schema `introspectRemoteSchema`
    builds from the specification's answer to its own introspection query is the service's schema,
    up to what introspection carries: same types and kinds, fields, arguments and their types with
    every list / non-null nesting, enum values, union members, interfaces, input fields, custom
    scalars, directives with arguments and locations, descriptions, root operation types; no
    definition is left with an unknown kind; no error. -/
theorem C15_rebuild_partial (S : Schema) (h : supportedC15 S = true) :
    ∃ R, rebuild (standardAnswer S) = .ok R ∧ R.unknownKind = [] ∧ normSchema R.schema = normSchema S := by
  have hF := full15_of h
  obtain ⟨R, hR, hk, hn⟩ := rebuildA_answer S hF
  refine ⟨R, ?_, hk, hn⟩
  unfold rebuild
  rw [decode_standardAnswer S (decodeOK_of h)]
  obtain ⟨q, hq, hqu⟩ := hF.query
  have hqne : (answerA S).queryType ≠ "" := by
    obtain ⟨tq, htq, hn'⟩ := user_of_isUserType hqu
    have htS : tq ∈ S.types := (List.mem_filter.mp htq).1
    have hsk : isSkipped tq = false := by simpa [users] using (List.mem_filter.mp htq).2
    have := (hF.ctx.user tq htS hsk).nameNE
    simp only [answerA, hq, Option.getD_some]
    rw [← hn']; exact this
  simp only [ok_bind, hqne, if_false]
  exact hR

/-- The full statement (every valid schema) is false: see the witnesses below. -/
def C15_rebuild_full : Prop :=
  ∀ S : Schema, ∃ R, rebuild (standardAnswer S) = .ok R ∧ normSchema R.schema = normSchema S

/-! ## never silently altered: a definition is rebuilt exactly or the introspection fails -/

/-- **C15, error or faithful (type references of any depth).** Whatever the nesting depth of its
    field and argument types, a field of the standard answer is rebuilt exactly (name,
    description, arguments, type) or `parseTypeRef` fails with `noOfTypeErr` (a start-up error, by
    `C15_malformed_typeref_is_error`) — it is never rebuilt with another type. -/
theorem C15_error_or_faithful_partial (S : Schema) (f : FieldDef) (ht : refAnyDepth S f.type)
    (ha : ∀ a ∈ f.args, refAnyDepth S a.type) :
    (do pure ({ name := (fieldA S f).name, type := ← parseTypeRef (fieldA S f).type, desc := (fieldA S f).desc,
                args := ← (fieldA S f).args.mapM parseArg } : FieldDef) : Except Err FieldDef)
      = .ok { name := f.name, args := f.args.map stripArg, type := f.type, desc := f.desc }
    ∨ (do pure ({ name := (fieldA S f).name, type := ← parseTypeRef (fieldA S f).type, desc := (fieldA S f).desc,
                  args := ← (fieldA S f).args.mapM parseArg } : FieldDef) : Except Err FieldDef) = .error noOfTypeErr := by
  have hargs := mapM_ok_or_panic parseArg (argA S) stripArg f.args (fun a hm => by
    rcases parse_trA_any (ha a hm) with h1 | h1
    · left; simp only [parseArg, argA, inValA, h1]; rfl
    · right; simp only [parseArg, argA, inValA, h1]; rfl)
  simp only [fieldA]
  rcases parse_trA_any ht with h1 | h1 <;> rw [h1]
  · rcases hargs with h2 | h2 <;> rw [h2]
    · exact Or.inl rfl
    · exact Or.inr rfl
  · exact Or.inr rfl

/-! ## non-vacuity and negative witnesses (by evaluation) -/

namespace C15Witness

def idT : TypeRef := .nonNull (.named "ID")

def base : Schema :=
  { types := [
      { name := "A", kind := .object, interfaces := ["I"],
        fields := [{ name := "id", args := [], type := idT },
                   { name := "xs", args := [{ name := "n", type := .named "Int", default := none, desc := "how many" }],
                     type := .nonNull (.list (.list (.nonNull (.named "Int")))), desc := "nested" }] },
      { name := "E", kind := .enum, enumValues := [{ name := "R", desc := "red" }, { name := "G" }], desc := "colours" },
      { name := "I", kind := .interface, fields := [{ name := "id", args := [], type := idT }] },
      { name := "ID", kind := .scalar, builtIn := true },
      { name := "In", kind := .inputObject, fields := [{ name := "a", args := [], type := .named "Int" }, { name := "e", args := [], type := .list (.named "E") }] },
      { name := "Int", kind := .scalar, builtIn := true },
      { name := "Mutation", kind := .object, fields := [{ name := "m", args := [{ name := "i", type := .nonNull (.named "In"), default := none }], type := .named "Stamp" }] },
      { name := "Query", kind := .object,
        fields := [{ name := "a", args := [], type := .named "A" }, { name := "u", args := [], type := .named "U" },
                   { name := "__type", args := [], type := .named "Int" }] },
      { name := "Stamp", kind := .scalar, desc := "a custom scalar" },
      { name := "U", kind := .union, members := ["A"] } ],
    directives := [{ name := "include", locations := ["FIELD"], args := [{ name := "if", type := .nonNull (.named "Int"), default := none }] },
                   { name := "tag", locations := ["FIELD", "OBJECT"], args := [{ name := "n", type := .named "Int", default := none }] }],
    possible := [("A", ["A"]), ("I", ["A"]), ("Query", ["Query"]), ("U", ["A"])],
    query := some "Query", mutation := some "Mutation" }

/-- the hypothesis of `C15_rebuild_partial` is satisfiable, and its conclusion computes -/
example : supportedC15 base = true := by decide
example : faithful base = true := by decide

def withA (f : List FieldDef → List FieldDef) : Schema :=
  { base with types := base.types.map (fun td => if td.name == "A" then { td with fields := f td.fields } else td) }

/-- argument default (finding argument-default-dropped) -/
def sArgDefault : Schema := withA (fun fs => fs.map (fun f =>
  { f with args := f.args.map (fun a => { a with default := some "5" }) }))
theorem C15_witness_argument_default :
    ¬ ∃ R, rebuild (standardAnswer sArgDefault) = .ok R ∧ normSchema R.schema = normSchema sArgDefault :=
  not_faithful (by decide)

/-- input field default (finding input-default-reencoded): `a: Int = 5` comes back as `a: Int = "5"` -/
def sInputDefault : Schema :=
  { base with types := base.types.map (fun td => if td.name == "In" then
      { td with fields := [{ name := "a", args := [], type := .named "Int", default := some "5" }] } else td) }
theorem C15_witness_input_default :
    ¬ ∃ R, rebuild (standardAnswer sInputDefault) = .ok R ∧ normSchema R.schema = normSchema sInputDefault :=
  not_faithful (by decide)

example : (match rebuild (standardAnswer sInputDefault) with
    | .ok R => (R.schema.types.find? (fun td => td.name == "In")).map (fun td => td.fields.map (·.default))
    | .error _ => none) = some [some "\"5\""] := by decide

/-- `@deprecated` (finding deprecation-dropped) -/
def sDeprecated : Schema := withA (fun fs => fs.map (fun f =>
  { f with directives := [{ name := "deprecated", args := [("reason", "\"old\"")] }] }))
theorem C15_witness_deprecation :
    ¬ ∃ R, rebuild (standardAnswer sDeprecated) = .ok R ∧ normSchema R.schema = normSchema sDeprecated :=
  not_faithful (by decide)

/-- repeatable directive (finding directive-repeatable-dropped) -/
def sRepeatable : Schema := { base with directives := base.directives.map (fun d => { d with repeatable := d.name == "tag" }) }
theorem C15_witness_repeatable :
    ¬ ∃ R, rebuild (standardAnswer sRepeatable) = .ok R ∧ normSchema R.schema = normSchema sRepeatable :=
  not_faithful (by decide)

/-- eight wrappers: the answer to the standard query is cut off, the reconstruction is refused -/
def deep8 : TypeRef := .nonNull (.list (.nonNull (.list (.nonNull (.list (.nonNull (.list (.named "Int"))))))))
def sDeep : Schema := withA (fun fs => fs ++ [{ name := "deep", args := [], type := deep8 }])
theorem C15_witness_depth : rebuild (standardAnswer sDeep) = .error noOfTypeErr := eq_panic (by decide)

/-- hence the statement for every schema is false -/
theorem C15_full_statement_is_false : ¬ C15_rebuild_full := by
  intro h
  obtain ⟨R, hR, _⟩ := h sDeep
  rw [C15_witness_depth] at hR
  cases hR

end C15Witness

end PebblesVerif
