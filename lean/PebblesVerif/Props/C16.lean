import PebblesVerif.Proofs.Introspect
import PebblesVerif.Props.C15
/-!
# C16 — what the gateway reports about its schema is the schema it enforces

`Model.Introspect` is the resolver of introspection/introspection.go (with the repairs of
repo_fixes/c16-introspection-resolver.patch); `Spec.introspect S` is the answer document the
GraphQL specification prescribes for the schema `S`, `Spec.select` the projection of a document
through an operation's selection set (aliases, fragments, field merging, `includeDeprecated`,
variables). The theorems hold for **all** schemas and **all** selections inside the stated
decidable feature sets (`Spec.supportedSchema`, `Spec.supportedSel`); every excluded feature is
shown, by evaluation of the model, to make the equation false (witnesses below) and is either
an open finding (known_findings.d/introspect.json) or repaired.
-/
namespace PebblesVerif
open PebblesVerif.Spec PebblesVerif.Model.Introspect

/-! ## the model's dispatch tables are the code's -/

/-- The `switch f.Name` statements of introspection.go, regenerated from the source on every run,
    are the ones the model was written for: same arms, `default` arms only in `resolveType`,
    `__type(name:)` evaluated against the variables, root types by literal name. -/
theorem C16_gen_recognised :
    Gen.Introspect.recognised = true
    ∧ Gen.Introspect.rootArms = armsRoot ∧ Gen.Introspect.rootDefault = false
    ∧ Gen.Introspect.schemaArms = armsSchema ∧ Gen.Introspect.schemaDefault = false
    ∧ Gen.Introspect.typeNonNullArms = armsTypeWrapper ∧ Gen.Introspect.typeNonNullDefault = true
    ∧ Gen.Introspect.typeListArms = armsTypeWrapper ∧ Gen.Introspect.typeListDefault = true
    ∧ Gen.Introspect.typeNamedArms = armsTypeNamed ∧ Gen.Introspect.typeNamedDefault = true
    ∧ Gen.Introspect.fieldArms = armsField ∧ Gen.Introspect.fieldDefault = false
    ∧ Gen.Introspect.directiveArms = armsDirective ∧ Gen.Introspect.directiveDefault = false
    ∧ Gen.Introspect.inputValueArms = armsInputValue ∧ Gen.Introspect.inputValueDefault = false
    ∧ Gen.Introspect.enumValueArms = armsEnumValue ∧ Gen.Introspect.enumValueDefault = false
    ∧ Gen.Introspect.typeNameReadsVariables = true
    ∧ Gen.Introspect.rootTypeLiterals = ["Query", "Mutation", "Subscription"] := by decide

/-- Outside its arms `resolveType` answers `null` (the `default` arm), for every type reference… -/
theorem C16_default_arm_type (S : Schema) (vars : List (String × J)) (t' : TypeRef) (a n : String)
    (args : List (String × IVal)) (sub : List ISel) (h : n ∉ armsTypeWrapper) :
    typeP1 S vars (.list t') (.field a n args sub) = [(a, .null)]
    ∧ typeP1 S vars (.nonNull t') (.field a n args sub) = [(a, .null)] := by
  simp only [armsTypeWrapper, List.mem_cons, List.mem_nil_iff, or_false, not_or] at h
  constructor <;> (unfold typeP1; split <;> simp_all)

/-- …while the other resolvers leave the key out (no `default` arm). -/
theorem C16_no_default_arm (S : Schema) (vars : List (String × J)) (f : FieldDef) (e : EnumVal) (d : DirDef)
    (a n : String) (args : List (String × IVal)) (sub : List ISel) :
    (n ∉ armsField → fieldP1 S vars f (.field a n args sub) = [])
    ∧ (n ∉ armsEnumValue → enumP1 e (.field a n args sub) = [])
    ∧ (n ∉ armsDirective → dirP1 S vars d (.field a n args sub) = [])
    ∧ (∀ name desc ty dflt, n ∉ armsInputValue → inputP1 S vars name desc ty dflt (.field a n args sub) = []) := by
  refine ⟨?_, ?_, ?_, ?_⟩
  · intro h
    simp only [armsField, List.mem_cons, List.mem_nil_iff, or_false, not_or] at h
    unfold fieldP1; split <;> simp_all
  · intro h
    simp only [armsEnumValue, List.mem_cons, List.mem_nil_iff, or_false, not_or] at h
    unfold enumP1; split <;> simp_all
  · intro h
    simp only [armsDirective, List.mem_cons, List.mem_nil_iff, or_false, not_or] at h
    unfold dirP1; split <;> simp_all
  · intro name desc ty dflt h
    simp only [armsInputValue, List.mem_cons, List.mem_nil_iff, or_false, not_or] at h
    unfold inputP1; split <;> simp_all

/-! ## the answer is the one the specification prescribes -/

/-- **C16, spec shape.** For every schema in `supportedSchema`, every iteration order of Go's
    maps (`tyOrd`, `dirOrd`: any permutations), every variable assignment and every selection in
    `supportedSel` that selects `__schema` or `__type`, the resolver's answer is exactly the
    projection of the specification's answer document. -/
theorem C16_resolve_eq_spec_partial (S : Schema) (hS : supportedSchema S = true)
    (tyOrd : List TypeDef) (dirOrd : List DirDef) (hty : tyOrd.Perm S.types) (hdir : dirOrd.Perm S.directives)
    (vars : List (String × J)) (sels : List ISel) (hsel : supportedSel sels = true) (hi : isIntro sels = true) :
    resolve S tyOrd dirOrd vars sels = some (Spec.select vars sels (Spec.introspect S)) :=
  resolve_eq_select S (supportedSchema_ok hS) C16_gen_recognised.2.2.2.2.2.2.2.2.2.2.2.2.2.2.2.2.2.2.2.1
    tyOrd dirOrd hty hdir vars sels hsel hi

/-- The full statement (no feature predicate) is false: see the witnesses at the end of this file. -/
def C16_resolve_eq_spec_full : Prop :=
  ∀ (S : Schema) (vars : List (String × J)) (sels : List ISel), isIntro sels = true →
    resolve S S.types S.directives vars sels = some (Spec.select vars sels (Spec.introspect S))

/-- **C16, every type reference.** `resolveType` on any list / non-null nesting answers the
    projection of the specification's `{kind, name, ofType}` chain, to every depth, for every
    supported sub-selection. -/
theorem C16_typeref (S : Schema) (hR : reasonsGiven S = true) (vars : List (String × J)) (t : TypeRef) (sub : List ISel)
    (hk : okL .type sub = true) (hnd : (ISel.keys sub).Nodup) :
    typeV S t (typeP S vars t sub) = projV (Spec.introspect S) vars (Spec.typeRef S t) sub :=
  typeV_spec S vars hR t sub hk hnd

/-- wrappers: `kind` is LIST / NON_NULL, `ofType` is the resolver on the wrapped type, nothing else
    is answered — for every wrapped type and every selection (no hypothesis) -/
theorem C16_typeref_wrapper (S : Schema) (vars : List (String × J)) (t' : TypeRef) (a : String)
    (args : List (String × IVal)) (sub : List ISel) :
    typeP1 S vars (.list t') (.field a "kind" args sub) = [(a, .str "LIST")]
    ∧ typeP1 S vars (.nonNull t') (.field a "kind" args sub) = [(a, .str "NON_NULL")]
    ∧ typeP1 S vars (.list t') (.field a "ofType" args sub) = [(a, typeV S t' (typeP S vars t' sub))]
    ∧ typeP1 S vars (.nonNull t') (.field a "ofType" args sub) = [(a, typeV S t' (typeP S vars t' sub))] := by
  simp [typeP1]

/-- **C16, `__type` agrees with `__schema.types`.** For every definition the iteration visits,
    the value `__type(name: <its name>)` answers under a sub-selection is one of the entries of
    `__schema { types }` under the same sub-selection — the very value computed for that
    definition — whatever the iteration order and whether or not `sortPayload` sorts. -/
theorem C16_type_agrees_with_types (S : Schema) (tyOrd : List TypeDef) (dirOrd : List DirDef) (vars : List (String × J))
    (td : TypeDef) (h : td ∈ tyOrd) (a b : String) (args : List (String × IVal)) (sub : List ISel) :
    ∃ v l, rootP1 S tyOrd dirOrd vars (.field a "__type" [("name", .lit (.str td.name))] sub) = [(a, v)]
      ∧ schemaP1 S tyOrd dirOrd vars (.field b "types" args sub) = [(b, .arr l)]
      ∧ v ∈ l := by
  refine ⟨typeV S (.named td.name) (typeP S vars (.named td.name) sub),
    sortPayload sub (tyOrd.map (fun td => typeV S (.named td.name) (typeP S vars (.named td.name) sub))), ?_, ?_, ?_⟩
  · have hG : Gen.Introspect.typeNameReadsVariables = true := by decide
    simp [rootP1, hG, ISel.strArg, ISel.arg?, IVal.eval]
  · simp [schemaP1]
  · have hm : typeV S (.named td.name) (typeP S vars (.named td.name) sub)
        ∈ tyOrd.map (fun td => typeV S (.named td.name) (typeP S vars (.named td.name) sub)) :=
      List.mem_map.mpr ⟨td, h, rfl⟩
    unfold sortPayload
    split
    · exact (mem_sortByName _ _).mpr hm
    · exact hm

/-! ## the closure: a second gateway can stack on this one -/

/-- the standard introspection query is inside the supported selections -/
theorem C16_standard_query_supported : supportedSel stdSel = true ∧ isIntro stdSel = true := by decide

/-- **C16, stackable.** For every schema in both feature sets, whatever the iteration order of
    Go's maps: the answer of this gateway's resolver to the standard introspection query, fed to
    the reconstruction of introspection/remote.go (a second gateway), yields a schema equivalent
    to the one this gateway serves. -/
theorem C16_stackable_partial (S : Schema) (h16 : supportedSchema S = true) (h15 : supportedC15 S = true)
    (tyOrd : List TypeDef) (dirOrd : List DirDef) (hty : tyOrd.Perm S.types) (hdir : dirOrd.Perm S.directives) :
    ∃ ans R, resolve S tyOrd dirOrd [] stdSel = some ans ∧ Model.Remote.rebuild ans = .ok R
      ∧ R.unknownKind = [] ∧ normSchema R.schema = normSchema S := by
  obtain ⟨R, hR, hk, hn⟩ := C15_rebuild_partial S h15
  exact ⟨standardAnswer S, R,
    C16_resolve_eq_spec_partial S h16 tyOrd dirOrd hty hdir [] stdSel C16_standard_query_supported.1 C16_standard_query_supported.2,
    hR, hk, hn⟩

/-! ## non-vacuity and negative witnesses (by evaluation of the model and of the specification) -/

namespace C16Witness

def S1 : Schema :=
  { types := [
      { name := "A", kind := .object, interfaces := ["I"],
        fields := [{ name := "id", args := [], type := .nonNull (.named "ID") },
                   { name := "old", args := [{ name := "n", type := .named "Int", default := some "5" }], type := .list (.nonNull (.named "Int")),
                     directives := [{ name := "deprecated", args := [("reason", "\"gone\"")] }] }] },
      { name := "D", kind := .scalar, directives := [{ name := "specifiedBy", args := [("url", "\"https://d\"")] }] },
      { name := "E", kind := .enum, enumValues := [{ name := "R" }, { name := "G", directives := [{ name := "deprecated", args := [("reason", "\"no\"")] }] }] },
      { name := "I", kind := .interface, fields := [{ name := "id", args := [], type := .nonNull (.named "ID") }] },
      { name := "ID", kind := .scalar, builtIn := true },
      { name := "In", kind := .inputObject, fields := [{ name := "a", args := [], type := .named "Int", default := some "5" }] },
      { name := "Int", kind := .scalar, builtIn := true },
      { name := "Query", kind := .object, fields := [{ name := "a", args := [], type := .named "A" }] } ],
    directives := [{ name := "tag", locations := ["FIELD"], repeatable := true, args := [{ name := "n", type := .named "Int", default := none }] }],
    possible := [("A", ["A"]), ("I", ["A"]), ("Query", ["Query"])],
    query := some "Query" }

def f (alias name : String) (sub : List ISel := []) : ISel := .field alias name [] sub
def ty (n : String) (sub : List ISel) : ISel := .field "__type" "__type" [("name", .lit (.str n))] sub

/-- a selection in the fragment touching every resolver -/
def q1 : List ISel :=
  [ .field "t" "__type" [("name", .var "v" (some (.str "A")))]
      [f "kind" "kind", f "n" "name", f "description" "description",
       .inline [.field "fs" "fields" [("includeDeprecated", .lit (.bool true))]
         [f "name" "name", f "isDeprecated" "isDeprecated", f "deprecationReason" "deprecationReason",
          f "args" "args" [f "name" "name", f "defaultValue" "defaultValue", f "type" "type" [f "name" "name"]],
          f "type" "type" [f "kind" "kind", f "ofType" "ofType" [f "kind" "kind", f "ofType" "ofType" [f "name" "name"]]]]],
       f "interfaces" "interfaces" [f "name" "name", f "possibleTypes" "possibleTypes" [f "name" "name"]],
       f "inputFields" "inputFields" [f "name" "name"], f "enumValues" "enumValues" [f "name" "name"]],
    f "__schema" "__schema"
      [f "queryType" "queryType" [f "name" "name"], f "mutationType" "mutationType" [f "name" "name"],
       f "types" "types" [f "kind" "kind", f "name" "name", f "enumValues" "enumValues" [f "name" "name"],
                          f "inputFields" "inputFields" [f "name" "name", f "defaultValue" "defaultValue"]],
       f "directives" "directives" [f "name" "name", f "locations" "locations", f "args" "args" [f "name" "name"]]] ]

/-- the hypotheses of `C16_resolve_eq_spec_partial` are satisfiable, and its conclusion computes -/
example : supportedSchema S1 = true ∧ supportedSel q1 = true ∧ isIntro q1 = true := by decide
example : (resolve S1 S1.types.reverse S1.directives [] q1 == some (Spec.select [] q1 (Spec.introspect S1))) = true := by decide

/-- both feature sets are satisfiable together (the hypotheses of `C16_stackable_partial`) -/
example : supportedSchema C15Witness.base = true ∧ supportedC15 C15Witness.base = true := by decide

/-- `__typename` (finding typename-in-introspection): `null` instead of "__Type" -/
theorem C16_witness_typename : resolve S1 S1.types S1.directives [] [ty "A" [f "__typename" "__typename"]]
    ≠ some (Spec.select [] [ty "A" [f "__typename" "__typename"]] (Spec.introspect S1)) :=
  ne_of_agree_false (by decide)

/-- `isRepeatable` (finding unanswered-introspection-field): the key is missing -/
theorem C16_witness_isRepeatable :
    resolve S1 S1.types S1.directives [] [f "__schema" "__schema" [f "directives" "directives" [f "name" "name", f "isRepeatable" "isRepeatable"]]]
    ≠ some (Spec.select [] [f "__schema" "__schema" [f "directives" "directives" [f "name" "name", f "isRepeatable" "isRepeatable"]]] (Spec.introspect S1)) :=
  ne_of_agree_false (by decide)

/-- `specifiedByURL` of a scalar with `@specifiedBy` (same finding): `null` -/
theorem C16_witness_specifiedBy : resolve S1 S1.types S1.directives [] [ty "D" [f "specifiedByURL" "specifiedByURL"]]
    ≠ some (Spec.select [] [ty "D" [f "specifiedByURL" "specifiedByURL"]] (Spec.introspect S1)) :=
  ne_of_agree_false (by decide)

/-- the same response key twice (finding duplicate-response-key): overwritten, not merged -/
theorem C16_witness_duplicate_key :
    resolve S1 S1.types S1.directives [] [ty "A" [f "fields" "fields" [f "name" "name"], f "fields" "fields" [f "description" "description"]]]
    ≠ some (Spec.select [] [ty "A" [f "fields" "fields" [f "name" "name"], f "fields" "fields" [f "description" "description"]]] (Spec.introspect S1)) :=
  ne_of_agree_false (by decide)

/-- `types` without `name`: the answer depends on Go's map iteration order (two orders, two answers) -/
theorem C16_witness_order_leaks :
    resolve S1 S1.types S1.directives [] [f "__schema" "__schema" [f "types" "types" [f "kind" "kind"]]]
    ≠ resolve S1 S1.types.reverse S1.directives [] [f "__schema" "__schema" [f "types" "types" [f "kind" "kind"]]] := by
  intro e
  have : (resolve S1 S1.types S1.directives [] [f "__schema" "__schema" [f "types" "types" [f "kind" "kind"]]]
    == resolve S1 S1.types.reverse S1.directives [] [f "__schema" "__schema" [f "types" "types" [f "kind" "kind"]]]) = false := by decide
  rw [e] at this
  have h2 : ∀ x : Option J, (x == x) = true := by
    intro x; cases x with
    | none => rfl
    | some j => exact J.beq_refl j
  rw [h2] at this; cases this

/-- `@deprecated` without reason (finding deprecated-without-reason): "" instead of "No longer supported" -/
def S2 : Schema := { S1 with types := S1.types.map (fun td =>
  if td.name == "E" then { td with enumValues := [{ name := "R" }, { name := "G", directives := [{ name := "deprecated", args := [] }] }] } else td) }

theorem C16_witness_deprecated_no_reason :
    resolve S2 S2.types S2.directives []
      [ty "E" [.field "enumValues" "enumValues" [("includeDeprecated", .lit (.bool true))] [f "deprecationReason" "deprecationReason"]]]
    ≠ some (Spec.select [] [ty "E" [.field "enumValues" "enumValues" [("includeDeprecated", .lit (.bool true))] [f "deprecationReason" "deprecationReason"]]] (Spec.introspect S2)) :=
  ne_of_agree_false (by decide)

/-- root type not named `Query` (finding custom-root-type-names): `queryType` is `null` -/
def S3 : Schema := { types := [{ name := "RootQ", kind := .object, fields := [{ name := "x", args := [], type := .named "RootQ" }] }], query := some "RootQ" }

theorem C16_witness_custom_root :
    resolve S3 S3.types S3.directives [] [f "__schema" "__schema" [f "queryType" "queryType" [f "name" "name"]]]
    ≠ some (Spec.select [] [f "__schema" "__schema" [f "queryType" "queryType" [f "name" "name"]]] (Spec.introspect S3)) :=
  ne_of_agree_false (by decide)

/-- hence the statement without feature predicates is false -/
theorem C16_full_statement_is_false : ¬ C16_resolve_eq_spec_full := by
  intro h
  exact C16_witness_typename (h S1 [] _ (by decide))

end C16Witness
end PebblesVerif
