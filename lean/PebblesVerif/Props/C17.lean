import PebblesVerif.Model.SubEntry
/-!
# C17 — subscription events are delivered once, in order, fully stitched

Theorems about `Model/SubEntry.lean`, for every list of upstream messages, every pipeline and
every interleaving of the upstream reader and `Listen`:

* `C17_frames_prefix`, `C17_frames`, `C17_frames_events`: the frames written for a subscription
  are, at every moment, a PREFIX of `events ↦ ⟨id, prepare event⟩` (nothing twice, nothing out
  of order, nothing foreign) and all of it once everything in flight has been written;
* `C17_ids`: on a connection whose frame log is any interleaving of the frame lists of entries
  with pairwise distinct ids, the frames carrying an entry's id are exactly that entry's frames,
  in its order (no event under a foreign id);
* `C17_stitch`: an event without errors of an entry with child steps is answered by the C01
  pipeline applied to the event as initial result (the content of `stitch` is C01's subject;
  here it is covered by the correspondence against the reference evaluator);
* `C17_errors_forwarded_partial`: errors inside `data` messages and `error` messages carrying
  a LIST of errors are forwarded as errors under the subscription's id. An `error` message
  with an OBJECT payload (the graphql-ws form) ends the subscription silently — open finding
  `upstream-error-object-dropped`; the hypothesis excludes exactly that message kind.
-/
namespace PebblesVerif.SubEntry

/-! ## exactly once, in order -/

theorem inv_step {id p ms s e s'} (h : s.out ++ (pending s).map (frameOf id p) = framesOf id p ms)
    (hs : step? id p s e = some s') :
    s'.out ++ (pending s').map (frameOf id p) = framesOf id p ms := by
  cases e with
  | read =>
    simp only [step?] at hs
    split at hs
    · rename_i hc
      obtain ⟨hrq, hd⟩ := hc
      have hrq' : s.rq = none := by cases hh : s.rq <;> simp_all
      have hd' : s.rqDone = false := by cases hh : s.rqDone <;> simp_all
      split at hs
      · cases hs
      all_goals
        cases hs
        rename_i hm
        rw [← h]
        simp [pending, hrq', hd', hm, forwarded]
    · cases hs
  | hand =>
    simp only [step?] at hs
    split at hs
    · rename_i r hr
      split at hs
      · rename_i hc
        have hl : s.l = none := by cases hh : s.l <;> simp_all
        cases hs
        rw [← h]; simp [pending, hr, hl]
      · cases hs
    · cases hs
  | write =>
    simp only [step?] at hs
    split at hs
    · rename_i r hl
      cases hs
      rw [← h]; simp [pending, hl]
    · cases hs
  | stop =>
    simp only [step?] at hs
    split at hs
    · cases hs; rw [← h]; simp [pending]
    · cases hs

theorem reach_inv {id p ms s} (h : Reach id p ms s) :
    s.out ++ (pending s).map (frameOf id p) = framesOf id p ms := by
  induction h with
  | init => simp [init, pending, framesOf]
  | step _ hs ih => exact inv_step ih hs

/-- At every moment, under every interleaving (and whenever `Listen` stops), what has been
    written is a prefix of the expected frame list: every event at most once, in emission
    order, under the entry's id. -/
theorem C17_frames_prefix {id p ms s} (h : Reach id p ms s) :
    ∃ rest, s.out ++ rest = framesOf id p ms := ⟨_, reach_inv h⟩

/-- When nothing is in flight and the reader has read everything (or has ended), exactly the
    expected frames have been written: every event exactly once. -/
theorem C17_frames {id p ms s} (h : Reach id p ms s) (hl : s.l = none) (hr : s.rq = none)
    (hm : s.msgs = [] ∨ s.rqDone = true) : s.out = framesOf id p ms := by
  have := reach_inv h
  rcases hm with hm | hm
  · simpa [pending, hl, hr, hm, forwarded] using this
  · simpa [pending, hl, hr, hm] using this

/-- For a history of events, the expected frames are the events, each prepared, in order. -/
theorem C17_frames_events (id : String) (p : Pipeline) (events : List Resp) :
    framesOf id p (events.map .data) = events.map (fun e => ⟨id, prepare p e⟩) := by
  induction events with
  | nil => rfl
  | cons e es ih =>
    simp only [framesOf, List.map_cons, forwarded] at ih ⊢
    rw [ih]; rfl

theorem frames_id {id p ms} : ∀ f ∈ framesOf id p ms, f.id = id := by
  intro f hf
  simp only [framesOf, List.mem_map] at hf
  obtain ⟨_, _, rfl⟩ := hf; rfl

def runEvents (id : String) (p : Pipeline) : St → List Ev → Option St
  | s, [] => some s
  | s, e :: es => match step? id p s e with
    | some s' => runEvents id p s' es
    | none => none

theorem reach_of_run {id p ms s s'} {es : List Ev} (h : Reach id p ms s)
    (hr : runEvents id p s es = some s') : Reach id p ms s' := by
  induction es generalizing s with
  | nil => simp [runEvents] at hr; subst hr; exact h
  | cons e es ih =>
    simp only [runEvents] at hr
    cases hs : step? id p s e with
    | none => simp [hs] at hr
    | some s1 => rw [hs] at hr; exact ih (.step h hs) hr

/-- Non-vacuity: a run that interleaves reads, hand-overs and writes delivers all three frames. -/
example : ∃ s, Reach "7" ⟨false, fun d => (some d, []), id⟩
      [.data ⟨some (.num "1"), []⟩, .other, .errorList [.str "e"], .data ⟨some (.num "2"), []⟩, .complete] s
    ∧ s.out.length = 3 ∧ s.rqDone = true :=
  ⟨_, reach_of_run (es := [.read, .hand, .read, .read, .write, .hand, .read, .write, .hand, .write, .read]) .init rfl,
    rfl, rfl⟩

/-! ## ids -/

/-- `log` is an interleaving of the lists `ps` (each keeping its own order) -/
inductive Merge {α : Type} : List (List α) → List α → Prop
  | nil {ps} : (∀ p ∈ ps, p = []) → Merge ps []
  | cons {ps log} (k : Nat) (x : α) (rest : List α) :
      ps[k]? = some (x :: rest) → Merge (ps.set k rest) log → Merge ps (x :: log)

theorem getElem?_set_of' {α} {l : List α} {i j : Nat} {a b : α} (h : l[i]? = some a) :
    (l.set i b)[j]? = if i = j then some b else l[j]? := by
  rw [List.getElem?_set]
  have : i < l.length := by
    rcases Nat.lt_or_ge i l.length with h' | h'
    · exact h'
    · rw [List.getElem?_eq_none h'] at h; cases h
  split <;> simp_all

/-- Frames of different entries carry different ids, so the frames under an id are exactly
    that entry's frames, in order, whatever the interleaving on the connection. Hypothesis of
    the statement itself: the ids of the subscriptions live on the connection are distinct. -/
theorem C17_ids {ids : List String} {ps : List (List Frame)} {log : List Frame}
    (hm : Merge ps log)
    (hid : ∀ (k : Nat) (p : List Frame), ps[k]? = some p → ∀ f ∈ p, some f.id = ids[k]?)
    (hdist : ∀ (i j : Nat) (a : String), ids[i]? = some a → ids[j]? = some a → i = j) :
    ∀ (k : Nat) (p : List Frame) (a : String), ps[k]? = some p → ids[k]? = some a →
      log.filter (fun f => f.id == a) = p := by
  induction hm with
  | nil hall =>
    intro k p a hp _
    have := hall p (List.mem_of_getElem? hp)
    subst this; rfl
  | @cons ps' log' k0 x rest hk0 _ ih =>
    intro k p a hp ha
    have hget := fun j => getElem?_set_of' (b := rest) (j := j) hk0
    have hid' : ∀ (k : Nat) (p : List Frame), (ps'.set k0 rest)[k]? = some p → ∀ f ∈ p, some f.id = ids[k]? := by
      intro k p hp f hf
      rw [hget] at hp
      split at hp
      · rename_i hkk; subst hkk; cases hp
        exact hid k0 _ hk0 f (List.mem_cons_of_mem _ hf)
      · exact hid k p hp f hf
    have hx : some x.id = ids[k0]? := hid k0 _ hk0 x (List.mem_cons_self ..)
    by_cases hkk : k0 = k
    · subst hkk
      rw [hk0] at hp; cases hp
      rw [ha] at hx; cases hx
      have := ih hid' k0 rest x.id (by rw [hget]; simp) ha
      simp [List.filter_cons, this]
    · have hne : x.id ≠ a := by
        intro he; subst he
        exact hkk (hdist k0 k x.id hx.symm ha)
      have := ih hid' k p a (by rw [hget]; simp [hkk]; exact hp) ha
      simp [List.filter_cons, hne, this]

example : Merge [[(⟨"a", ⟨none, []⟩⟩ : Frame), ⟨"a", ⟨none, [.null]⟩⟩], [⟨"b", ⟨none, []⟩⟩]]
    [⟨"a", ⟨none, []⟩⟩, ⟨"b", ⟨none, []⟩⟩, ⟨"a", ⟨none, [.null]⟩⟩] :=
  .cons 0 _ _ rfl (.cons 1 _ _ rfl (.cons 0 _ _ rfl (.nil (by simp))))

/-! ## stitching and errors -/

/-- An event without errors of an entry with child steps is answered by the stitching pipeline
    applied to the event as initial result (C01), its execution errors alongside. -/
theorem C17_stitch (p : Pipeline) (d : J) (hc : p.hasChildren = true) :
    prepare p ⟨some d, []⟩ = ⟨(p.stitch d).1, (p.stitch d).2⟩ := by
  simp [prepare, hc]

/-- … and of an entry without child steps by the event itself, helper fields scrubbed. -/
theorem C17_stitch_leaf (p : Pipeline) (d : J) (hc : p.hasChildren = false) :
    prepare p ⟨some d, []⟩ = ⟨some (p.scrub d), []⟩ := by
  simp [prepare, hc]

def isErrorObj : UpMsg → Bool
  | .errorObj => true
  | _ => false

/-- Upstream errors are forwarded as errors: a `data` message with errors is forwarded with
    exactly its errors (and never stitched), an `error` message carrying a list of errors
    becomes a frame with exactly these errors; both under the subscription's id, in order.
    PARTIAL: `error` messages with an object payload are excluded (`upstream-error-object-dropped`). -/
theorem C17_errors_forwarded_partial (id : String) (p : Pipeline) :
    (∀ (r : Resp), r.errors ≠ [] → (prepare p r).errors = r.errors)
    ∧ (∀ es ms, framesOf id p (.errorList es :: ms) = ⟨id, ⟨none, es⟩⟩ :: framesOf id p ms)
    ∧ (∀ r ms, framesOf id p (.data r :: ms) = ⟨id, prepare p r⟩ :: framesOf id p ms) := by
  refine ⟨?_, ?_, ?_⟩
  · intro r hr
    cases he : r.errors with
    | nil => exact absurd he hr
    | cons e es => simp [prepare, he]
  · intro es ms
    cases es <;> simp [framesOf, forwarded, frameOf, prepare]
  · intro r ms; simp [framesOf, forwarded, frameOf]

/-- what the unchanged reader does with the excluded message kind: nothing is forwarded, and
    nothing after it (the statement asks for the error to be forwarded: the finding) -/
theorem errorObj_dropped (id : String) (p : Pipeline) (ms : List UpMsg) :
    framesOf id p (.errorObj :: ms) = [] := rfl

end PebblesVerif.SubEntry
