import PebblesVerif.Props.C17
import PebblesVerif.Proofs.SubFlat5
/-!
# C17, end to end, for the flat subscription family

`Props/C17.lean` proves exactly-once / in-order / id tagging of the frames for every pipeline, and
`C17_stitch` says that an event is answered by the pipeline applied to the event as initial result —
the pipeline itself being a parameter there. Here the parameter is instantiated with what
`newSubscriptionEntry` builds (`SubStitch.newEntry`, `SubStitch.pipelineOf`, `Proofs/SubFlat2.lean`:
plan → the root step is subscribed upstream → per event `FindInsertionPoints` over the event, the
child steps executed by `Exec.execute` with the event as initial result, scrub), and the CONTENT of the
frame is proved for an unbounded family: `subscription { s { f₁ … fₙ } }`, `s : T` owned by `A`, the
leaf fields of `T` owned by `A` or `B` (`SubFlat.Fam` = `Flat.Fam` at the `Subscription` root).
-/
namespace PebblesVerif

/-- **A subscription event is fully stitched: the frame carries the single-server answer.** The
    family (`SubFlat.Fam`): a root field `s` of the `Subscription` type, of a Node type `T`, owned by
    service `A`; the client subscribes to `subscription { s { f₁ … fₙ } }` with any non-empty list of
    distinct leaf fields of `T`, each owned by `A` or by `B`, in any order and interleaving (no bound
    on their number or on the data). `D` is the shared entity graph at the moment of the event: `s`
    refers to an entity `e` of type `T` (its id any non-empty string, `#` allowed); `r` is the
    single-server answer of the subscription operation over the merged schema for this data.

    Then `newSubscriptionEntry` (model: `SubStitch.newEntry`) succeeds with
    * the step `upstream` to SUBSCRIBE to at `A` (the root step `{ s { id <A's fields> } }`, child
      steps cut off), and
    * a pipeline `p` (`SubEntry.Pipeline`: `executorFn` and the scrubber of the plan),

    such that for the event `A` emits — the reference evaluation of `upstream` over `A`'s OWN schema,
    which has the shape `{ s: { id: e.id, …a } }` — the frame `Listen` writes under the subscription's
    id (`SubEntry.frameOf`; exactly once and in order by `C17_frames`) has no errors and the payload
    `{ s: { …d } }` with `d` the single-server answer up to key order (`Perm`; `A`'s fields then
    `B`'s), the helper `id` scrubbed. When `B` owns a selected field the entry has a child step
    (`p.hasChildren`), the frame is the result of `executorFn` (insertion point `[s#<e.id>]` realised
    from the event, `Exec.execute` with the event as initial result, scrub), and the event costs
    exactly ONE downstream call: the lookup `node(id: $id) { ... on T { <B's fields> } }` at `B` with
    `{id: e.id}`. When `B` owns nothing selected there is no child step and the event is forwarded,
    scrubbed.

    Concrete instance satisfying every hypothesis: `C17_flat_event_stitched_instance`. -/
theorem C17_flat_event_stitched {c : PCtx} {A B T s : String} {fs : List Flat.FieldSpec} (h : SubFlat.Fam c A B T s fs)
    (svcs : List Exec.Svc) (SA SB : Schema) (D : Spec.Data) (e : Spec.Entity) (r : List (String × J)) (id : String)
    (hs1 : '#' ∉ s.toList) (hs2 : ':' ∉ s.toList) (hsne : s ≠ "") (hine : e.id ≠ "")
    (hnne : ∀ n ∈ Flat.namesOf fs, n ≠ "")
    (hsB : svcs.find? (·.url == B) = some ⟨B, SB⟩)
    (hSB : ∃ td, SB.type? T = some td ∧ td.kind = .object)
    (hroot : Spec.dlookup s (D.root "Subscription") = some (.ref e.id)) (hent : D.entity? e.id = some e) (hty : e.type = T)
    (href : Spec.eval c.schema D ⟨.subscription, "", [], [Flat.Q T s fs]⟩ [] = some (.obj [(s, .obj r)])) :
    ∃ (upstream : Step) (p : SubEntry.Pipeline) (a d : List (String × J)),
      -- the entry
      SubStitch.newEntry c {} ⟨.subscription, "", [], [Flat.Q T s fs]⟩ none (Exec.specDownstream svcs D) = .ok (upstream, p)
      ∧ upstream.url = A ∧ upstream.thn = []
      -- the event, as its owner emits it
      ∧ Spec.eval SA D ⟨.subscription, "", [], upstream.sels⟩ [] = some (.obj [(s, .obj (("id", .str e.id) :: a))])
      -- the frame: the single-server answer, helper id scrubbed, no errors
      ∧ SubEntry.frameOf id p ⟨some (.obj [(s, .obj (("id", .str e.id) :: a))]), []⟩ = ⟨id, ⟨some (.obj [(s, .obj d)]), []⟩⟩
      ∧ d.Perm r
      -- stitched by `executorFn` iff `B` owns a selected field; then ONE lookup at `B`
      ∧ (p.hasChildren = true ↔ ∃ f ∈ fs, f.2.2 = true)
      ∧ ((∃ f ∈ fs, f.2.2 = true) →
          ∃ lookup : Exec.Request,
            SubStitch.executorFn c {} none (Exec.specDownstream svcs D) (SubFlat.rootStep A B T s fs) (SubFlat.scrubOf T s)
                [(s, .obj (("id", .str e.id) :: a))] = .ok ⟨[(s, .obj d)], [⟨B, [lookup]⟩]⟩
            ∧ p.stitch (.obj [(s, .obj (("id", .str e.id) :: a))]) = (some (.obj [(s, .obj d)]), [])
            ∧ lookup.sels = convertToNodeQuery T (Flat.leaves (Flat.fsB fs)) ∧ lookup.vars = [("id", .str e.id)]
            ∧ lookup.header.kind = .query) := by
  obtain ⟨a, d, hev, hprep, hperm, hex⟩ :=
    SubFlat.flat_event_stitched h svcs SA SB D e r hs1 hs2 hsne hine hnne hsB hSB hroot hent hty href
  have hentry := SubFlat.newEntry_eq h (Exec.specDownstream svcs D)
  have hch : (SubStitch.pipelineOf c {} none (Exec.specDownstream svcs D) (SubFlat.rootStep A B T s fs)
      (SubFlat.scrubOf T s)).hasChildren = true ↔ ∃ f ∈ fs, f.2.2 = true := by
    constructor
    · intro hc
      cases hfb : Flat.fsB fs with
      | nil => simp [SubStitch.pipelineOf, SubFlat.rootStep, Step.thn, hfb, Flat.stepsB] at hc
      | cons b0 bs =>
        have : b0 ∈ Flat.fsB fs := by rw [hfb]; simp
        simp only [Flat.fsB, List.mem_filter] at this
        exact ⟨b0, this.1, this.2⟩
    · intro hown
      obtain ⟨b0, bs, hfb⟩ := List.exists_cons_of_ne_nil (SubFlat.fsB_ne_nil hown)
      simp [SubStitch.pipelineOf, SubFlat.rootStep, Step.thn, hfb, Flat.stepsB]
  refine ⟨_, _, a, d, hentry, rfl, rfl, hev, ?_, hperm, hch, ?_⟩
  · simp only [SubEntry.frameOf, hprep]
  · intro hown
    have hBne := SubFlat.fsB_ne_nil hown
    have hex' := hex hBne
    obtain ⟨b0, bs, hfb⟩ := List.exists_cons_of_ne_nil hBne
    have hcalls : SubFlat.callsOfEvent c B T s fs e.id
        = [⟨B, [Flat.rqOf c (Flat.stepB B T s (Flat.fsB fs)) [("id", .str e.id)]]⟩] := by
      simp [SubFlat.callsOfEvent, hfb]
    rw [hcalls] at hex'
    refine ⟨_, hex', ?_, rfl, rfl, ?_⟩
    · simp only [SubStitch.pipelineOf, hex']
    · simp [Flat.rqOf, header, Flat.stepB, Step.ip]

/-- **Once, in order, fully stitched — for a whole history of events.** The family and the
    federation are those of `C17_flat_event_stitched`; `D` is the shared entity graph behind the
    services, and the subscription lives through a history of `n` events, the `k`-th about the entity
    `es[k]` of `D` (any `n`, entities may repeat). At the moment of the `k`-th event the data is
    `SubFlat.atEvent D s es[k].id` (the graph, `s` referring to that entity), the upstream `A` emits the
    reference evaluation of the subscribed step over ITS schema for that data, and `rs[k]` is the
    single-server answer of the subscription operation for that data. The entry is built ONCE
    (`SubStitch.newEntry`: one plan, one pipeline `p`, child steps answered by the services over `D`).

    Then the `n` events are objects, and
    * the frames of the entry (`SubEntry.framesOf`) are exactly `n` frames, all under the
      subscription's `id`, the `k`-th with no errors and the payload `{ s: { …ds[k] } }`, `ds[k]` the
      single-server answer `rs[k]` up to key order — the helper `id` scrubbed;
    * under EVERY interleaving of the upstream reader and `Listen` (`SubEntry.Reach`), once nothing is
      in flight and everything has been read, exactly these frames have been written, in this order
      (`C17_frames`), and at every earlier moment a prefix of them (`C17_frames_prefix`). -/
theorem C17_flat_history_stitched {c : PCtx} {A B T s : String} {fs : List Flat.FieldSpec} (h : SubFlat.Fam c A B T s fs)
    (svcs : List Exec.Svc) (SA SB : Schema) (D : Spec.Data) (es : List Spec.Entity) (rs : List (List (String × J)))
    (id : String)
    (hs1 : '#' ∉ s.toList) (hs2 : ':' ∉ s.toList) (hsne : s ≠ "")
    (hnne : ∀ n ∈ Flat.namesOf fs, n ≠ "")
    (hsB : svcs.find? (·.url == B) = some ⟨B, SB⟩)
    (hSB : ∃ td, SB.type? T = some td ∧ td.kind = .object)
    (hlen : rs.length = es.length)
    (hes : ∀ e ∈ es, e.id ≠ "" ∧ D.entity? e.id = some e ∧ e.type = T)
    (href : ∀ (k : Nat) (e : Spec.Entity) (r : List (String × J)), es[k]? = some e → rs[k]? = some r →
      Spec.eval c.schema (SubFlat.atEvent D s e.id) ⟨.subscription, "", [], [Flat.Q T s fs]⟩ [] = some (.obj [(s, .obj r)])) :
    ∃ (upstream : Step) (p : SubEntry.Pipeline) (events : List J) (ds : List (List (String × J))),
      SubStitch.newEntry c {} ⟨.subscription, "", [], [Flat.Q T s fs]⟩ none (Exec.specDownstream svcs D) = .ok (upstream, p)
      -- the events, as their owner emits them
      ∧ events.map some
          = es.map (fun e => Spec.eval SA (SubFlat.atEvent D s e.id) ⟨.subscription, "", [], upstream.sels⟩ [])
      -- the frames: one per event, in order, under the id, stitched
      ∧ SubEntry.framesOf id p (events.map (fun ev => .data ⟨some ev, []⟩))
          = ds.map (fun d => ⟨id, ⟨some (.obj [(s, .obj d)]), []⟩⟩)
      ∧ ds.length = es.length
      ∧ (∀ (k : Nat) (d r : List (String × J)), ds[k]? = some d → rs[k]? = some r → d.Perm r)
      -- … written exactly once, in order, under every interleaving
      ∧ (∀ st, SubEntry.Reach id p (events.map (fun ev => .data ⟨some ev, []⟩)) st →
            (∃ rest, st.out ++ rest = ds.map (fun d => ⟨id, ⟨some (.obj [(s, .obj d)]), []⟩⟩))
            ∧ (st.l = none → st.rq = none → (st.msgs = [] ∨ st.rqDone = true) →
                st.out = ds.map (fun d => ⟨id, ⟨some (.obj [(s, .obj d)]), []⟩⟩))) := by
  obtain ⟨events, ds, hev, hprep, hdl, hperm⟩ :=
    SubFlat.flat_history_stitched (A := A) h svcs SA SB D hs1 hs2 hsne hnne hsB hSB es rs hlen hes href
  have hentry := SubFlat.newEntry_eq h (Exec.specDownstream svcs D)
  have hframes : SubEntry.framesOf id
      (SubStitch.pipelineOf c {} none (Exec.specDownstream svcs D) (SubFlat.rootStep A B T s fs) (SubFlat.scrubOf T s))
      (events.map (fun ev => .data ⟨some ev, []⟩))
        = ds.map (fun d => ⟨id, ⟨some (.obj [(s, .obj d)]), []⟩⟩) := by
    have h1 := SubEntry.C17_frames_events id
      (SubStitch.pipelineOf c {} none (Exec.specDownstream svcs D) (SubFlat.rootStep A B T s fs) (SubFlat.scrubOf T s))
      (events.map SubFlat.respOf)
    simp only [List.map_map] at h1
    have h2 : (SubEntry.UpMsg.data ∘ SubFlat.respOf) = (fun ev => SubEntry.UpMsg.data ⟨some ev, []⟩) := rfl
    rw [h2] at h1
    rw [h1]
    have h3 := congrArg (List.map (fun pl => (⟨id, pl⟩ : SubEntry.Frame))) hprep
    simp only [List.map_map] at h3
    exact h3
  refine ⟨_, _, events, ds, hentry, hev, hframes, hdl, hperm, ?_⟩
  intro st hreach
  refine ⟨?_, ?_⟩
  · obtain ⟨rest, hr⟩ := SubEntry.C17_frames_prefix hreach
    exact ⟨rest, by rw [hr, hframes]⟩
  · intro hl hrq hm
    rw [SubEntry.C17_frames hreach hl hrq hm, hframes]

section Instance
open SubFlat.Example

/-- non-vacuity: a concrete two-service federation with a `Subscription` root (`animalChanged : Animal`
    owned by `A`; `age` owned by `B`, `name`, `sound` by `A`; the entity id contains `#`) meets every
    hypothesis of `C17_flat_event_stitched`; the frame, the event and the call are also checked by
    evaluation (`#guard`s in `Proofs/SubFlat2.lean`) -/
theorem C17_flat_event_stitched_instance : ∃ (upstream : Step) (p : SubEntry.Pipeline) (a d : List (String × J)),
    SubStitch.newEntry ctx {} ⟨.subscription, "", [], [Flat.Q "Animal" "animalChanged" SubFlat.Example.fs]⟩ none
        (Exec.specDownstream svcs (dataOf e1)) = .ok (upstream, p)
    ∧ Spec.eval schemaA (dataOf e1) ⟨.subscription, "", [], upstream.sels⟩ []
        = some (.obj [("animalChanged", .obj (("id", .str e1.id) :: a))])
    ∧ SubEntry.frameOf "sub-1" p ⟨some (.obj [("animalChanged", .obj (("id", .str e1.id) :: a))]), []⟩
        = ⟨"sub-1", ⟨some (.obj [("animalChanged", .obj d)]), []⟩⟩
    ∧ d.Perm expected ∧ p.hasChildren = true := by
  obtain ⟨up, p, a, d, h1, -, -, h2, h3, h4, h5, -⟩ :=
    C17_flat_event_stitched fam svcs schemaA schemaB (dataOf e1) e1 expected "sub-1"
      (by decide) (by decide) (by decide) (by decide) (by decide) (by rfl) ⟨animalT, by rfl, rfl⟩ (by rfl) (by rfl) rfl
      reference
  exact ⟨up, p, a, d, h1, h2, h3, h4, h5.mpr ⟨("age", tStr, true), by simp [SubFlat.Example.fs], rfl⟩⟩

/-- non-vacuity of `C17_flat_history_stitched`: three events (about `e1`, `e2`, `e1` again) on the
    concrete federation; the frames are also checked by evaluation (`#guard` in `Proofs/SubFlat5.lean`) -/
theorem C17_flat_history_stitched_instance : ∃ (upstream : Step) (p : SubEntry.Pipeline) (events : List J)
    (ds : List (List (String × J))),
    SubStitch.newEntry ctx {} ⟨.subscription, "", [], [Flat.Q "Animal" "animalChanged" SubFlat.Example.fs]⟩ none
        (Exec.specDownstream svcs (dataOf e1)) = .ok (upstream, p)
    ∧ events.length = 3
    ∧ SubEntry.framesOf "sub-1" p (events.map (fun ev => .data ⟨some ev, []⟩))
        = ds.map (fun d => ⟨"sub-1", ⟨some (.obj [("animalChanged", .obj d)]), []⟩⟩)
    ∧ (∀ (k : Nat) (d r : List (String × J)), ds[k]? = some d → [expected, expected2, expected][k]? = some r → d.Perm r) := by
  obtain ⟨up, p, events, ds, h1, h2, h3, -, h5, -⟩ :=
    C17_flat_history_stitched fam svcs schemaA schemaB (dataOf e1) [e1, e2, e1] [expected, expected2, expected] "sub-1"
      (by decide) (by decide) (by decide) (by decide) (by rfl) ⟨animalT, by rfl, rfl⟩ rfl
      (by intro e he; simp only [List.mem_cons, List.not_mem_nil, or_false] at he
          rcases he with rfl | rfl | rfl <;> exact ⟨by decide, by rfl, rfl⟩)
      (by intro k e r he hr
          match k with
          | 0 => cases he; cases hr; rfl
          | 1 => cases he; cases hr; rfl
          | 2 => cases he; cases hr; rfl
          | k + 3 => simp at he)
  refine ⟨up, p, events, ds, h1, ?_, h3, h5⟩
  have := congrArg List.length h2
  simpa using this

end Instance

end PebblesVerif
