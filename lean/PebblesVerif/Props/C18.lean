import PebblesVerif.Proofs.SubProtoFixed
import PebblesVerif.Proofs.ConnWrite
import PebblesVerif.Spec.SubProtoFacts
/-!
# C18 — subscription teardown is safe under every interleaving

Two groups of theorems.

* `C18_current_unsafe_W1 … W5`: about `Model/SubProto.lean`, the protocol of the UNCHANGED tree.
  The safety statements are FALSE of it; each theorem exhibits a reachable fatal / torn / leaked
  state by its concrete schedule (these schedules are forced on the implementation by the
  harness: they crash the real gateway).
* `C18_no_fatal`, `C18_no_deadlock`, `C18_terminates`, `C18_ended_stable`, `C18_quiescent`,
  `C18_frames_whole`: about `Model/SubProtoFixed.lean` with `knobs = good` and
  `Model/ConnWrite.lean` with `locked = true`, the protocol of the REPAIRED tree
  (repo_fixes/subs-teardown.patch) — for every finite history of upstream and client actions
  (`Cfg`), every interleaving (`Reach`) and any number of `Close()` executions.
  `C18_facts` / `C18_knobs` tie the parameters to the regenerated facts of the source.
-/
namespace PebblesVerif.C18
open PebblesVerif

/-! ## the tie: the source has the shape the repaired models are models of -/

theorem C18_facts : Gen.SubProto.facts = Gen.SubProto.expectedFixed := by decide

theorem C18_knobs : SubProtoFacts.knobsOf Gen.SubProto.facts = SubProtoFixed.good
    ∧ SubProtoFacts.writesLocked Gen.SubProto.facts = true
    ∧ SubProtoFacts.isCurrent Gen.SubProto.facts = false := by decide

/-! ## the protocol of the unchanged tree is unsafe (witness schedules W1–W5) -/
section current
open SubProto

def cfgW : Cfg := { evs := 1, fin := true, extraK := 0, stop := true, terminate := false, bad := false, gone := true }

/-- W1: the upstream completes, `Listen` leaves its loop; the client's `stop` starts `Close`,
    which reads `isClosed = false`; `Listen` closes `closeCh`; `Close` sends on it. -/
def scheduleW1 : List Ev :=
  [.upEnd, .rqUpClose, .lRecvNil, .clStop, .kTryLock 0, .kReadClosed 0, .kUnlock 0,
   .lSendQ, .lLock, .lCloseQ, .lCloseC, .kSendC 0]

theorem C18_current_unsafe_W1 :
    ∃ s, runEvents cfgW (init cfgW) scheduleW1 = some s ∧ Reach cfgW s
      ∧ s.fatal = some "panic: send on closed channel (Close)" :=
  ⟨_, rfl, reach_of_run (es := scheduleW1) .init rfl, rfl⟩

/-- W2: `Close` runs `TryLock` while `Listen` holds the mutex, ignores the failure and unlocks
    the mutex `Listen` holds; `Listen`'s own deferred `Unlock` is then fatal. -/
def scheduleW2 : List Ev :=
  [.upEnd, .rqUpClose, .lRecvNil, .lSendQ, .lLock, .clStop, .kTryLock 0, .kReadClosed 0, .kUnlock 0,
   .lCloseQ, .lCloseC, .lCloseR, .lSetClosed, .lUnlock]

theorem C18_current_unsafe_W2 :
    ∃ s, runEvents cfgW (init cfgW) scheduleW2 = some s ∧ Reach cfgW s
      ∧ s.fatal = some "fatal error: sync: unlock of unlocked mutex" :=
  ⟨_, rfl, reach_of_run (es := scheduleW2) .init rfl, rfl⟩

/-- W3: an event is in flight (the reader is at `resCh <- event`) when the client stops the
    subscription; `Listen` closes `respCh`; the reader's send panics in the goroutine body,
    which its nested-defer `recover` does not cover. -/
def scheduleW3 : List Ev :=
  [.upEvent, .clStop, .kTryLock 0, .kReadClosed 0, .kUnlock 0, .kSendC 0,
   .lSendQ, .lLock, .lCloseQ, .lCloseC, .lCloseR, .rqSendPanic]

theorem C18_current_unsafe_W3 :
    ∃ s, runEvents cfgW (init cfgW) scheduleW3 = some s ∧ Reach cfgW s
      ∧ s.fatal = some "panic: send on closed channel (upstream reader)" :=
  ⟨_, rfl, reach_of_run (es := scheduleW3) .init rfl, rfl⟩

/-- W5: the client disconnects abruptly; the handler's close frame fails; its exit block returns
    early: with an idle upstream `Listen`, the reader, the closer and the upstream connection
    stay for ever. -/
def cfgW5 : Cfg := { evs := 0, fin := false, extraK := 0, stop := false, terminate := false, bad := false, gone := true }

theorem C18_current_unsafe_W5 :
    ∃ s, runEvents cfgW5 (init cfgW5) [.clGone, .hCloseFrame false] = some s ∧ Reach cfgW5 s
      ∧ leak cfgW5 s = true ∧ s.upClosed = false ∧ s.h = .done :=
  ⟨_, rfl, reach_of_run (es := [.clGone, .hCloseFrame false]) .init rfl, by decide, rfl, rfl⟩

end current

/-- W4: two writers (two `Listen`s, or a `Listen` and the heartbeat / the handler's ack) on one
    connection without a lock: the halves of their frames interleave. -/
theorem C18_current_unsafe_W4 :
    ∃ s, ConnWrite.runEvents ⟨false, [1, 1]⟩ (ConnWrite.init ⟨false, [1, 1]⟩)
        [.begin 0, .hdr 0, .begin 1, .hdr 1, .pay 1, .pay 0] = some s
      ∧ ConnWrite.Reach ⟨false, [1, 1]⟩ s ∧ ConnWrite.torn s = true
      ∧ s.log = [.hdr 0 0, .hdr 1 0, .pay 1 0, .pay 0 0] :=
  ⟨_, rfl, ConnWrite.reach_of_run (es := [.begin 0, .hdr 0, .begin 1, .hdr 1, .pay 1, .pay 0]) .init rfl, by decide, rfl⟩

/-! ## the repaired protocol is safe -/
section fixed
open SubProtoFixed
abbrev Cfg := SubProto.Cfg

/-- No panic and no fatal runtime error in any reachable state: `closeCh` is closed at most
    once, `queryerCloseCh` is closed at most once, nobody ever sends on a closed channel (there
    is no send on `closeCh`/`queryerCloseCh` and `respCh` is never closed), the mutex is only
    unlocked by its holder. -/
theorem C18_no_fatal {c : Cfg} {s : St} (h : Reach good c s) : s.fatal = none :=
  (reach_inv h).nofatal

/-- the invariant itself (mutual exclusion, close-once bookkeeping, who may still be running) -/
theorem C18_inv {c : Cfg} {s : St} (h : Reach good c s) : Inv s := reach_inv h

theorem step_of_isSome {kn c s e} (h : (step? kn c s e).isSome) : ∃ s', Step kn c s e s' := by
  cases hx : step? kn c s e with
  | none => simp [hx] at h
  | some s' => exact ⟨s', hx⟩

theorem closeStep_isSome_of_crit {kn i s pc} (h : pc.crit = true) : (closeStep kn i s pc).isSome := by
  cases pc <;> simp [KPc.crit] at h <;> simp only [closeStep] <;> (try split) <;> simp

/-- No deadlock: once the subscription has been asked to end (or its connection ended) some
    step is enabled until every goroutine has exited. (While it is `live`, waiting for the
    upstream or the client is not a deadlock.) -/
theorem C18_no_deadlock {c : Cfg} {s : St} (hr : Reach good c s) (hfin : final s = false)
    (hlive : live s = false) : ∃ e s', Step good c s e s' := by
  have hi := reach_inv hr
  have hf : s.fatal.isSome = false := by rw [hi.nofatal]; rfl
  by_cases hall : ∀ pc ∈ s.ks, pc = KPc.done
  · -- every closer has finished
    have hmutex : s.mutex = none := by
      cases hm : s.mutex with
      | none => rfl
      | some j =>
        obtain ⟨pc, hpc, hc⟩ := (hi.k.hold j).mp hm
        have := hall pc (List.mem_of_getElem? hpc)
        subst this; simp [KPc.crit] at hc
    have hchC : s.ks ≠ [] → s.chC = true := by
      intro hne
      obtain ⟨pc, rest, hks⟩ := List.exists_cons_of_ne_nil hne
      have h0 : s.ks[0]? = some pc := by rw [hks]; rfl
      have := hall pc (List.mem_of_getElem? h0)
      subst this
      exact (hi.k.loc 0 _ h0).2
    have hk : allKDone s = true := by
      simp only [allKDone, List.all_eq_true, decide_eq_true_eq]; exact hall
    -- processes with an unconditional step
    by_cases hh1 : s.h = .closeFrame
    · have hcn : s.conn ≠ .closed := fun hcl => by have := hi.h3 hcl; simp [hh1] at this
      exact ⟨.hCloseFrame true, step_of_isSome (by simp [step?, hf, hh1, hcn])⟩
    by_cases hh2 : s.h = .connClose
    · exact ⟨.hConnClose, step_of_isSome (by simp [step?, hf, hh2])⟩
    by_cases hh3 : s.h = .cleanAll
    · exact ⟨.hCleanAll, step_of_isSome (by simp [step?, hf, hh3])⟩
    by_cases hrq1 : s.rq = .upClose
    · exact ⟨.rqUpClose, step_of_isSome (by simp [step?, hf, hrq1])⟩
    by_cases hcq1 : s.cq = .upClose
    · exact ⟨.cqUpClose, step_of_isSome (by simp [step?, hf, hcq1])⟩
    rcases hl : s.l with _ | _ | i | _ | _
    · -- sel
      by_cases hC : s.chC = true
      · exact ⟨.lRecvClose, step_of_isSome (by simp [step?, hf, hl, hC])⟩
      have hnil : s.ks = [] := by
        cases hks : s.ks with
        | nil => rfl
        | cons a b => exact absurd (hchC (by rw [hks]; simp)) hC
      have hnc : s.isClosed = false := by
        cases hcl : s.isClosed with
        | false => rfl
        | true => exact absurd (hi.k.g2 hmutex hcl) hC
      have hcq : s.cq = .recvQ := by
        cases hcq : s.cq with
        | recvQ => rfl
        | upClose => exact absurd hcq hcq1
        | done =>
          have := hi.lq.mp (hi.cq1 (by rw [hcq]; simp)); rw [hl] at this; cases this
      have hh : s.h = .serving := by
        cases hh : s.h with
        | serving => rfl
        | closeFrame => exact absurd hh hh1
        | connClose => exact absurd hh hh2
        | cleanAll => exact absurd hh hh3
        | done => exact absurd hnil (hi.h2 (hi.h1 hh))
      cases hrq : s.rq with
      | sendR => exact ⟨.lRecv, step_of_isSome (by simp [step?, hf, hl, hrq])⟩
      | sendNil => exact ⟨.lRecvNil, step_of_isSome (by simp [step?, hf, hl, hrq])⟩
      | upClose => exact absurd hrq hrq1
      | done => exact absurd hl (hi.rq2 hrq).1
      | upRead =>
        have : live s = true := by simp [live, hl, hrq, hcq, hnc, hh, hnil]
        rw [this] at hlive; cases hlive
    · -- write
      by_cases hcn : s.conn = .closed
      · exact ⟨.lWrite false, step_of_isSome (by simp [step?, hf, hl, hcn])⟩
      · exact ⟨.lWrite true, step_of_isSome (by simp [step?, hf, hl, hcn])⟩
    · -- xclose i: the closer Listen runs has finished: Close() returns
      have hlt := hi.lx i hl
      have hget : s.ks[i]? = some s.ks[i] := List.getElem?_eq_getElem hlt
      have hd := hall _ (List.getElem_mem hlt)
      rw [hd] at hget
      exact ⟨.lJoin, step_of_isSome (by simp [step?, hf, hl, hget])⟩
    · -- closeQ
      refine ⟨.lCloseQ, step_of_isSome ?_⟩
      simp only [step?, hf, hl]; simp; split <;> simp
    · -- done: queryerCloseCh is closed: the closer and the reader run to their ends
      have hq : s.chQ = true := hi.lq.mpr hl
      cases hcq : s.cq with
      | recvQ => exact ⟨.cqRecv, step_of_isSome (by simp [step?, hf, hcq, hq])⟩
      | upClose => exact absurd hcq hcq1
      | done =>
        have hup : s.upClosed = true := hi.cq2 hcq
        cases hrq : s.rq with
        | upRead => exact ⟨.rqReadErr, step_of_isSome (by simp [step?, hf, hrq, hup])⟩
        | sendR => exact ⟨.rqAbort, step_of_isSome (by simp [step?, hf, hrq, hq, good])⟩
        | upClose => exact absurd hrq hrq1
        | sendNil => exact ⟨.rqNilAbort, step_of_isSome (by simp [step?, hf, hrq, hq, good])⟩
        | done =>
          have : final s = true := by
            cases hh : s.h with
            | closeFrame => exact absurd hh hh1
            | connClose => exact absurd hh hh2
            | cleanAll => exact absurd hh hh3
            | serving => simp [final, hk, hl, hcq, hrq, hup, hh]
            | done => simp [final, hk, hl, hcq, hrq, hup, hh]
          rw [this] at hfin; cases hfin
  · -- some closer has not finished: it, or the holder of the mutex it waits for, can move
    have : ∃ pc ∈ s.ks, pc ≠ KPc.done := by
      apply Classical.byContradiction; intro hne; apply hall
      intro pc hpc; apply Classical.byContradiction; intro hpc'; exact hne ⟨pc, hpc, hpc'⟩
    obtain ⟨pc, hmem, hne⟩ := this
    obtain ⟨i, hget⟩ := List.mem_iff_getElem?.mp hmem
    by_cases hcrit : pc.crit = true
    · refine ⟨.k i, step_of_isSome ?_⟩
      simp only [step?, hf, hget]; simpa using closeStep_isSome_of_crit hcrit
    · cases pc with
      | done => exact absurd rfl hne
      | setLate => exact absurd (hi.k.loc i _ hget) (by simp [Local])
      | lock =>
        cases hm : s.mutex with
        | none =>
          refine ⟨.k i, step_of_isSome ?_⟩
          simp [step?, hf, hget, closeStep, hm]
        | some j =>
          obtain ⟨pc', hpc', hc'⟩ := (hi.k.hold j).mp hm
          refine ⟨.k j, step_of_isSome ?_⟩
          simp only [step?, hf, hpc']; simpa using closeStep_isSome_of_crit hc'
      | check => simp [KPc.crit] at hcrit
      | set => simp [KPc.crit] at hcrit
      | closeC => simp [KPc.crit] at hcrit
      | unlock l => simp [KPc.crit] at hcrit

theorem sum_map_set {l : List KPc} {i : Nat} {a b : KPc} (h : l[i]? = some a) :
    ((l.set i b).map kW).sum + kW a = (l.map kW).sum + kW b := by
  induction l generalizing i with
  | nil => simp at h
  | cons x xs ih =>
    cases i with
    | zero => simp at h; subst h; simp; omega
    | succ i =>
      simp only [List.getElem?_cons_succ] at h
      have := ih h
      simp only [List.set_cons_succ, List.map_cons, List.sum_cons]; omega

theorem sum_spawnIf (d : Bool) (ks : List KPc) :
    ((spawnIf d ks).map kW).sum = (ks.map kW).sum + (if d then 6 else 0) := by
  unfold spawnIf; split <;> simp_all [kW]

/-- Every step — of a goroutine or of the (finite) environment — strictly decreases a
    natural-number measure: every schedule is finite. -/
theorem C18_terminates {c : Cfg} {s s' : St} {e : Ev} (hr : Reach good c s)
    (hs : Step good c s e s') : measure s' < measure s := by
  have hi := reach_inv hr
  have hf : s.fatal.isSome = false := by rw [hi.nofatal]; rfl
  unfold Step step? at hs
  simp only [hf, Bool.false_eq_true, if_false] at hs
  cases e with
  | k i =>
    simp only at hs; split at hs
    · rename_i pc hget
      obtain ⟨_, _, _, hl, hcq, hrq, hh, hd, _, _, _, hev, hsp, pc', hks, hlt⟩ := hi.k.kstep rfl hi.nofatal hget hs
      have := sum_map_set (b := pc') hget
      simp only [SubProtoFixed.measure, hl, hcq, hrq, hh, hd, hev, hsp, hks]; omega
    · cases hs
  | lJoin =>
    simp only at hs; split at hs
    · split at hs
      · cases hs; rename_i hl _; simp [SubProtoFixed.measure, hl, lW]
      · cases hs
    · cases hs
  | hCloseFrame ok =>
    simp only at hs; split at hs
    · rename_i hh
      split at hs
      · split at hs
        · cases hs; simp [SubProtoFixed.measure, hh, hW]
        · cases hs
      · split at hs
        · cases hs; simp [SubProtoFixed.measure, hh, hW, good]
        · cases hs
    · cases hs
  | lWrite ok =>
    simp only at hs; split at hs
    · rename_i hl
      split at hs
      · split at hs
        · cases hs; simp [SubProtoFixed.measure, hl, lW]
        · cases hs
      · split at hs
        · cases hs; cases hd : s.dict <;> simp [SubProtoFixed.measure, lExit, hl, lW, kW, hd] <;> omega
        · cases hs
    · cases hs
  | lCloseQ =>
    simp only at hs; split at hs
    · rename_i hl
      have hq : s.chQ = false := by
        cases hh : s.chQ with
        | false => rfl
        | true => have := hi.lq.mp hh; rw [hl] at this; cases this
      simp only [hq, Bool.false_eq_true, if_false] at hs
      cases hs; simp [SubProtoFixed.measure, hl, lW]
    · cases hs
  | clTerminate =>
    simp only at hs; split at hs
    · rename_i hc; cases hs
      have := sum_spawnIf s.dict s.ks
      simp only [SubProtoFixed.measure, this, hc.1, hW]
      cases s.dict <;> simp <;> omega
    · cases hs
  | hCleanAll =>
    simp only at hs; split at hs
    · rename_i hc; cases hs
      have := sum_spawnIf s.dict s.ks
      simp only [SubProtoFixed.measure, this, hc, hW]
      cases s.dict <;> simp <;> omega
    · cases hs
  | upEvent =>
    simp only at hs; split at hs
    · rename_i hc; cases hs; simp [SubProtoFixed.measure, hc.1, rqW]; omega
    · cases hs
  | upEnd =>
    simp only at hs; split at hs
    · rename_i hc; cases hs; simp [SubProtoFixed.measure, hc.1, rqW]; omega
    · cases hs
  | clStop =>
    simp only at hs; split at hs
    · rename_i hc; cases hs; simp [SubProtoFixed.measure, hc.2.2, kW]; omega
    · cases hs
  | clBad =>
    simp only at hs; split at hs
    · rename_i hc; cases hs; simp [SubProtoFixed.measure, hc.1, hW]
    · cases hs
  | clGone =>
    simp only at hs; split at hs
    · rename_i hc; cases hs; simp [SubProtoFixed.measure, hc.1, hW]
    · cases hs
  | spawnK =>
    simp only at hs; split at hs
    · rename_i hc; cases hs; simp [SubProtoFixed.measure, kW]; omega
    · cases hs
  | hConnClose =>
    simp only at hs; split at hs
    · rename_i hc; cases hs; simp [SubProtoFixed.measure, hc, hW]
    · cases hs
  | lRecv =>
    simp only at hs; split at hs
    · rename_i hc; cases hs; simp [SubProtoFixed.measure, hc.1, hc.2, lW, rqW]; omega
    · cases hs
  | lRecvNil =>
    simp only at hs; split at hs
    · rename_i hc; cases hs; cases hd : s.dict <;> simp [SubProtoFixed.measure, lExit, hc.1, hc.2, lW, rqW, kW, hd] <;> omega
    · cases hs
  | lRecvClose =>
    simp only at hs; split at hs
    · rename_i hc; cases hs; cases hd : s.dict <;> simp [SubProtoFixed.measure, lExit, hc.1, lW, kW, hd] <;> omega
    · cases hs
  | cqRecv =>
    simp only at hs; split at hs
    · rename_i hc; cases hs; simp [SubProtoFixed.measure, hc.1, cqW]
    · cases hs
  | cqUpClose =>
    simp only at hs; split at hs
    · rename_i hc; cases hs; simp [SubProtoFixed.measure, hc, cqW]
    · cases hs
  | rqReadErr =>
    simp only at hs; split at hs
    · rename_i hc; cases hs; simp [SubProtoFixed.measure, hc.1, rqW]
    · cases hs
  | rqAbort =>
    simp only at hs; split at hs
    · rename_i hc; cases hs; simp [SubProtoFixed.measure, hc.1, rqW]
    · cases hs
  | rqUpClose =>
    simp only at hs; split at hs
    · rename_i hc; cases hs; simp [SubProtoFixed.measure, hc, rqW]
    · cases hs
  | rqNilAbort =>
    simp only at hs; split at hs
    · rename_i hc; cases hs; simp [SubProtoFixed.measure, hc.1, rqW]
    · cases hs

/-- "The subscription has ended" (`live = false`) is stable: nothing makes it live again. -/
theorem C18_ended_stable {c : Cfg} {s s' : St} {e : Ev} (hr : Reach good c s)
    (hs : Step good c s e s') (hl : live s = false) : live s' = false := by
  have hi := reach_inv hr
  have hf : s.fatal.isSome = false := by rw [hi.nofatal]; rfl
  unfold Step step? at hs
  simp only [hf, Bool.false_eq_true, if_false] at hs
  cases e with
  | k i =>
    simp only at hs; split at hs
    · rename_i pc hget
      obtain ⟨_, _, hlen, _⟩ := hi.k.kstep rfl hi.nofatal hget hs
      have hne : s'.ks ≠ [] := by
        intro hnil
        have h0 : s'.ks.length = 0 := by rw [hnil]; rfl
        rw [hlen] at h0
        have := lt_of_getElem?_eq_some hget; omega
      cases hks : s'.ks with
      | nil => exact absurd hks hne
      | cons a b => simp [live, hks]
    · cases hs
  | lJoin =>
    simp only at hs; split at hs
    · split at hs
      · cases hs; simp [live]
      · cases hs
    · cases hs
  | hCloseFrame ok =>
    simp only at hs; split at hs
    · split at hs
      · split at hs
        · cases hs; simp [live]
        · cases hs
      · split at hs
        · cases hs; simp [live, good]
        · cases hs
    · cases hs
  | lWrite ok =>
    simp only at hs; split at hs
    · rename_i hl'
      split at hs
      · split at hs
        · cases hs; simp only [live, hl'] at hl ⊢; simpa using hl
        · cases hs
      · split at hs
        · cases hs; simp [live, lExit]
        · cases hs
    · cases hs
  | lCloseQ =>
    simp only at hs; split at hs
    · split at hs
      · cases hs; rename_i hl' _; simp only [live, hl'] at hl ⊢; simpa using hl
      · cases hs; simp [live]
    · cases hs
  | upEvent =>
    simp only at hs; split at hs
    · rename_i hc; cases hs; simp only [live, hc.1] at hl ⊢; simpa using hl
    · cases hs
  | lRecv =>
    simp only at hs; split at hs
    · rename_i hc; cases hs; simp only [live, hc.1, hc.2] at hl ⊢; simpa using hl
    · cases hs
  | cqRecv =>
    simp only at hs; split at hs
    · cases hs; simp [live]
    · cases hs
  | cqUpClose =>
    simp only at hs; split at hs
    · cases hs; simp [live]
    · cases hs
  | rqReadErr =>
    simp only at hs; split at hs
    · cases hs; simp [live]
    · cases hs
  | rqAbort =>
    simp only at hs; split at hs
    · cases hs; simp [live]
    · cases hs
  | rqUpClose =>
    simp only at hs; split at hs
    · cases hs; simp [live]
    · cases hs
  | rqNilAbort =>
    simp only at hs; split at hs
    · cases hs; simp [live]
    · cases hs
  | upEnd =>
    simp only at hs; split at hs
    · cases hs; simp [live]
    · cases hs
  | clStop =>
    simp only at hs; split at hs
    · cases hs; simp [live]
    · cases hs
  | clTerminate =>
    simp only at hs; split at hs
    · cases hs; simp [live]
    · cases hs
  | clBad =>
    simp only at hs; split at hs
    · cases hs; simp [live]
    · cases hs
  | clGone =>
    simp only at hs; split at hs
    · cases hs; simp [live]
    · cases hs
  | spawnK =>
    simp only at hs; split at hs
    · cases hs; simp [live]
    · cases hs
  | hConnClose =>
    simp only at hs; split at hs
    · cases hs; simp [live]
    · cases hs
  | hCleanAll =>
    simp only at hs; split at hs
    · cases hs; simp [live]
    · cases hs
  | lRecvNil =>
    simp only at hs; split at hs
    · cases hs; simp [live, lExit]
    · cases hs
  | lRecvClose =>
    simp only at hs; split at hs
    · cases hs; simp [live, lExit]
    · cases hs

/-- Quiescence: once the subscription (or its connection) has ended, when nothing can move any
    more every goroutine started for it has exited and its upstream connection is closed.
    With `C18_terminates` (every run is finite) and `C18_ended_stable`: after the end of a
    subscription every maximal run reaches such a state. -/
theorem C18_quiescent {c : Cfg} {s : St} (hr : Reach good c s) (hl : live s = false)
    (hterm : ∀ e, step? good c s e = none) :
    final s = true ∧ s.upClosed = true ∧ s.l = .done ∧ s.cq = .done ∧ s.rq = .done
      ∧ (∀ pc ∈ s.ks, pc = KPc.done) := by
  have hfin : final s = true := by
    cases hf : final s with
    | true => rfl
    | false =>
      obtain ⟨e, s', hs⟩ := C18_no_deadlock hr hf hl
      rw [Step, hterm e] at hs; cases hs
  refine ⟨hfin, ?_⟩
  simp only [final, allKDone, Bool.and_eq_true, List.all_eq_true, decide_eq_true_eq] at hfin
  obtain ⟨⟨⟨⟨⟨h1, h2⟩, h3⟩, h4⟩, h5⟩, _⟩ := hfin
  exact ⟨h5, h2, h3, h4, h1⟩

/-- Non-vacuity: a run of the repaired protocol with an event in flight, a client `stop` racing
    the upstream's completion and a second `Close`, ending in a final state. -/
example : (runEvents good ⟨1, true, 1, true, false, false, false⟩ (init ⟨1, true, 1, true, false, false, false⟩)
    [.upEvent, .clStop, .spawnK, .k 0, .k 0, .k 0, .k 0, .k 0, .k 1, .k 1, .k 1, .lRecvClose,
     .k 2, .k 2, .k 2, .lJoin, .lCloseQ, .rqAbort, .cqRecv, .cqUpClose, .rqUpClose, .rqNilAbort]).map
      (fun s => (final s, s.fatal, s.upClosed)) = some (true, none, true) := by decide

end fixed

/-! ## whole frames -/

/-- With every frame written under the write mutex, at every moment the byte-level write log of
    the connection is a concatenation of whole frames, followed at most by the header of the
    frame whose writer holds the mutex; when no writer is inside a frame it is a concatenation
    of whole frames. Any number of writers, any number of frames each, every interleaving. -/
theorem C18_frames_whole {c : ConnWrite.Cfg} (hc : c.locked = true) {s : ConnWrite.St}
    (h : ConnWrite.Reach c s) :
    ConnWrite.torn s = false ∧ (s.mutex = none → ConnWrite.Whole s.log) := by
  have hi := ConnWrite.reach_inv hc h
  constructor
  · simp only [ConnWrite.torn, Bool.not_eq_false']
    by_cases hp : ∃ i w, s.mutex = some i ∧ s.ws[i]? = some w ∧ w.pc = .pay
    · obtain ⟨i, w, hm, hw, hpc⟩ := hp
      obtain ⟨pre, hpre, hlog⟩ := hi.open_ i w hm hw hpc
      rw [hlog]; exact ConnWrite.okLog_whole_hdr hpre _ _
    · apply ConnWrite.okLog_whole
      apply hi.closed
      intro i w hm hw hpc
      exact hp ⟨i, w, hm, hw, hpc⟩
  · intro hm
    apply hi.closed
    intro i w hm'; rw [hm] at hm'; cases hm'

example : ∃ s, ConnWrite.runEvents ⟨true, [1, 1]⟩ (ConnWrite.init ⟨true, [1, 1]⟩)
    [.begin 0, .begin 1, .lock 1, .hdr 1, .pay 1, .unlock 1, .lock 0, .hdr 0, .pay 0, .unlock 0] = some s
      ∧ s.log = [.hdr 1 0, .pay 1 0, .hdr 0 0, .pay 0 0] :=
  ⟨_, rfl, rfl⟩

end PebblesVerif.C18
