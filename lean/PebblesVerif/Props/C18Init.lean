import PebblesVerif.Proofs.SubInit
import PebblesVerif.Model.SubProtoFixed
import PebblesVerif.Spec.SubProtoFacts
/-!
# C18 (establishment) — a `Subscribe` that fails after the websocket handshake leaves nothing behind

`Model/SubProtoFixed.lean` (theorems in `Props/C18.lean`) starts where `MultiOpQueryer.Subscribe`
has returned `nil`. These theorems are about what happens BEFORE that (`Model/SubInit.lean`): the
caller waiting on `errCh`, the reader goroutine writing `connection_init` and `start` (each write
may fail: the upstream reset the connection), the closer goroutine — and in particular about the
outcome "a write failed": `Subscribe` returns the error, `newSubscriptionEntry` discards the entry,
so nobody will ever close `closeCh` or receive from `resCh`. Every interleaving (`Reach`).

* `C18_init_facts`        the tree has the repaired shape (regenerated facts)
* `C18_init_no_fatal`     no panic, BOTH variants: no send on / double close of `errCh`, `failedCh`
* `C18_init_no_deadlock`  repaired: some actor can step until the run has ended (failure: all
                          goroutines gone) or handed over (success)
* `C18_init_terminates`   repaired: every step decreases a measure; a state where nothing can move
                          is: `Subscribe` returned and (a write failed ∧ reader and closer exited ∧
                          upstream connection closed ∧ `closeCh` still open: no help from the
                          caller) or (no write failed ∧ handed over)
* `C18_init_bounded`      every run has at most 13 steps
* `C18_init_reports`      the caller receives exactly the error of the write that failed, `nil` iff none did
* `C18_init_handover`     the handed-over state is the initial state of the established protocol
* `C18_init_leak_before_repair`  the pre-repair variant: a reachable state where `Subscribe` has
                          returned the error, nothing can ever move again, the reader is parked in
                          `send(nil)` and the closer on `closeCh`
-/
namespace PebblesVerif.C18
open PebblesVerif
open PebblesVerif.SubInit
open PebblesVerif.SubProto (CqPc)

/-! ## the tie: which variant the source has -/

theorem C18_init_facts :
    SubProtoFacts.initVariant Gen.SubProto.facts = Variant.repaired
    ∧ SubProtoFacts.initRecognised Gen.SubProto.facts = true
    ∧ Gen.SubProto.facts.initFailureReleasesGoroutines = true := by decide

/-! ## (a) no panic — both variants -/

/-- In no reachable state of either variant has a goroutine panicked; spelled out: whenever the
    reader is at a send on `errCh` the caller is still waiting in `<-errCh` and `errCh` is open
    (the caller closes `errCh` only after it has received the reader's ONLY send); the caller's
    `close(errCh)` and the reader's `close(failedCh)` find their channel open. -/
theorem C18_init_no_fatal {v : Variant} {s : St} (h : Reach v s) :
    s.fatal = none
    ∧ ((s.r = .sendOk ∨ ∃ w, s.r = .sendErr w) → s.s = .wait ∧ s.errClosed = false)
    ∧ (s.s = .closeErr → s.errClosed = false)
    ∧ (∀ w, s.r = .closeF w → s.failed = false) := by
  have hi := reach_inv h
  have hopen : s.s ≠ .done → s.errClosed = false := by
    intro hne
    cases hh : s.errClosed with
    | false => rfl
    | true => exact absurd (hi.errc.mp hh) hne
  refine ⟨hi.nofatal, ?_, ?_, ?_⟩
  · intro hpc
    have hr := hi.r
    have hw : s.s = .wait := by
      rcases hpc with hpc | ⟨w, hpc⟩
      · rw [hpc] at hr; exact hr.1
      · rw [hpc] at hr; exact hr.1
    exact ⟨hw, hopen (by rw [hw]; simp)⟩
  · intro hs; exact hopen (by rw [hs]; simp)
  · intro w hpc
    have hr := hi.r
    rw [hpc] at hr; exact hr.2.2.1

/-! ## (b) no deadlock — repaired -/

theorem init_step_of_isSome {v s e} (h : (step? v s e).isSome) : ∃ s', Step v s e s' := by
  cases hx : step? v s e with
  | none => simp [hx] at h
  | some s' => exact ⟨s', hx⟩

/-- the caller's part: once the reader's send has been received the caller closes `errCh` and returns -/
theorem caller_moves {s : St} (hi : Inv .repaired s) (hw : s.s ≠ .wait) (hd : s.s ≠ .done) :
    ∃ e s', Step .repaired s e s' := by
  have hf : s.fatal.isSome = false := by rw [hi.nofatal]; rfl
  have hc : s.s = .closeErr := by
    cases hs : s.s with
    | wait => exact absurd hs hw
    | closeErr => rfl
    | done => exact absurd hs hd
  have hec : s.errClosed = false := by
    cases hh : s.errClosed with
    | false => rfl
    | true => exact absurd (hi.errc.mp hh) hd
  exact ⟨.sCloseErr, init_step_of_isSome (by simp [step?, hf, hc, hec])⟩

/-- No deadlock: from every reachable state of the repaired variant some actor can step, unless
    the establishment has ended — failure: `Subscribe` returned, reader and closer have exited,
    the upstream connection is closed (`ended`); success: `Subscribe` returned, handed over to the
    established protocol (`handedOver`). -/
theorem C18_init_no_deadlock {s : St} (hr : Reach .repaired s) (hfin : final s = false) :
    ∃ e s', Step .repaired s e s' := by
  have hi := reach_inv hr
  have hf : s.fatal.isSome = false := by rw [hi.nofatal]; rfl
  have hrinv := hi.r
  have hopen : s.s = .wait → s.errClosed = false := by
    intro hw
    cases hh : s.errClosed with
    | false => rfl
    | true => have := hi.errc.mp hh; rw [hw] at this; cases this
  cases hpc : s.r with
  | wInit => exact ⟨.rqWrite false, init_step_of_isSome (by simp [step?, hf, hpc])⟩
  | wStart => exact ⟨.rqWrite false, init_step_of_isSome (by simp [step?, hf, hpc])⟩
  | closeF w =>
    rw [hpc] at hrinv
    exact ⟨.rqCloseF, init_step_of_isSome (by simp [step?, hf, hpc, hrinv.2.2.1])⟩
  | sendErr w =>
    rw [hpc] at hrinv
    exact ⟨.rqSend, init_step_of_isSome (by simp [step?, hf, hpc, sendOn, hopen hrinv.1, hrinv.1])⟩
  | sendOk =>
    rw [hpc] at hrinv
    exact ⟨.rqSend, init_step_of_isSome (by simp [step?, hf, hpc, sendOn, hopen hrinv.1, hrinv.1])⟩
  | dUpClose => exact ⟨.rqUpClose, init_step_of_isSome (by simp [step?, hf, hpc])⟩
  | dSel => exact ⟨.rqSel, init_step_of_isSome (by simp [step?, hf, hpc])⟩
  | sendNil => rw [hpc] at hrinv; exact absurd hrinv.1 (by simp)
  | est =>
    rw [hpc] at hrinv
    obtain ⟨hw, hfl, _, _, _, hup, hc⟩ := hrinv
    by_cases hd : s.s = .done
    · have : final s = true := by simp [final, handedOver, hd, hpc, hc, hup, hfl]
      rw [this] at hfin; cases hfin
    · exact caller_moves hi hw hd
  | done =>
    rw [hpc] at hrinv
    obtain ⟨_, ⟨hw, hfl, _⟩, hup⟩ := hrinv
    by_cases hd : s.s = .done
    · cases hc : s.c with
      | recvQ =>
        have hfl' : s.failed = true := by rw [hfl]; rfl
        exact ⟨.cqRecv, init_step_of_isSome (by simp [step?, hf, hc, hfl', Variant.rel])⟩
      | upClose => exact ⟨.cqUpClose, init_step_of_isSome (by simp [step?, hf, hc])⟩
      | done =>
        have : final s = true := by simp [final, ended, hd, hpc, hc, hup]
        rw [this] at hfin; cases hfin
    · exact caller_moves hi hw hd

/-! ## (c) termination — repaired -/

theorem init_measure_decreases {s s' : St} {e : Ev} (hr : Reach .repaired s)
    (hs : Step .repaired s e s') : SubInit.measure s' < SubInit.measure s := by
  have hi := reach_inv hr
  have hnf' : s'.fatal = none := (inv_step hi hs).nofatal
  have hf : s.fatal.isSome = false := by rw [hi.nofatal]; rfl
  unfold Step step? at hs
  simp only [hf, Bool.false_eq_true, if_false] at hs
  cases e with
  | rqWrite ok =>
    simp only at hs
    split at hs
    · rename_i hpc
      cases ok
      · simp only [Bool.false_eq_true, if_false] at hs; cases hs
        simp [SubInit.measure, hpc, rW, failNext]
      · simp only [if_true] at hs
        split at hs
        · cases hs
        · cases hs; simp [SubInit.measure, hpc, rW]
    · rename_i hpc
      cases ok
      · simp only [Bool.false_eq_true, if_false] at hs; cases hs
        simp [SubInit.measure, hpc, rW, failNext]
      · simp only [if_true] at hs
        split at hs
        · cases hs
        · cases hs; simp [SubInit.measure, hpc, rW]
    · cases hs
  | rqCloseF =>
    simp only at hs
    split at hs
    · rename_i w hpc
      split at hs
      · cases hs; simp at hnf'
      · cases hs; simp [SubInit.measure, hpc, rW]
    · cases hs
  | rqSend =>
    simp only at hs
    split at hs
    · rename_i w hpc
      unfold sendOn at hs
      split at hs
      · cases hs; simp at hnf'
      · split at hs
        · rename_i hw; cases hs; simp [SubInit.measure, hpc, hw, rW, sW]
        · cases hs
    · rename_i hpc
      unfold sendOn at hs
      split at hs
      · cases hs; simp at hnf'
      · split at hs
        · rename_i hw; cases hs; simp [SubInit.measure, hpc, hw, rW, sW]
        · cases hs
    · cases hs
  | sCloseErr =>
    simp only at hs
    split at hs
    · rename_i hpc
      split at hs
      · cases hs; simp at hnf'
      · cases hs; simp [SubInit.measure, hpc, sW]
    · cases hs
  | cqRecv =>
    simp only at hs
    split at hs
    · rename_i hc; cases hs; simp [SubInit.measure, hc.1, cW]
    · cases hs
  | cqUpClose =>
    simp only at hs
    split at hs
    · rename_i hc; cases hs; simp [SubInit.measure, hc, cW]
    · cases hs
  | rqUpClose =>
    simp only at hs
    split at hs
    · rename_i hpc; cases hs; simp [SubInit.measure, hpc, rW, afterUpClose]
    · cases hs
  | rqSel =>
    simp only at hs
    split at hs
    · rename_i hpc; cases hs
      cases s.failed <;> simp [SubInit.measure, hpc, rW]
    · cases hs
  | rqNilAbort =>
    simp only at hs
    split at hs
    · rename_i hc; cases hs; simp [SubInit.measure, hc.1, rW]
    · cases hs

/-- Termination. (1) Every step of every actor strictly decreases a natural-number measure: every
    run is finite. (2) A reachable state in which nothing can move (the end of a maximal run) is:
    `Subscribe` has returned (`errCh` closed by its `defer`) and
      * a write failed: the reader AND the closer have exited and the upstream connection has been
        closed — although `closeCh` was never closed and nobody ever received from `resCh`
        (the model has no such step: this is without any help from the caller) — or
      * no write failed: the run has been handed over to the established protocol. -/
theorem C18_init_terminates {s : St} (hr : Reach .repaired s) :
    (∀ e s', Step .repaired s e s' → SubInit.measure s' < SubInit.measure s)
    ∧ ((∀ e, step? .repaired s e = none) →
        s.s = .done ∧ s.errClosed = true
        ∧ ((s.fault = none ∧ handedOver s = true)
           ∨ ((∃ w, s.fault = some w) ∧ s.r = .done ∧ s.c = .done ∧ s.upClosed = true
              ∧ s.failed = true ∧ s.chQ = false))) := by
  refine ⟨fun e s' hs => init_measure_decreases hr hs, ?_⟩
  intro hterm
  have hi := reach_inv hr
  have hfin : final s = true := by
    cases hf : final s with
    | true => rfl
    | false =>
      obtain ⟨e, s', hs⟩ := C18_init_no_deadlock hr hf
      rw [Step, hterm e] at hs; cases hs
  have hrinv := hi.r
  simp only [final, handedOver, ended, Bool.or_eq_true, Bool.and_eq_true, decide_eq_true_eq,
    Bool.not_eq_true'] at hfin
  rcases hfin with ⟨⟨⟨⟨h1, h2⟩, h3⟩, h4⟩, h5⟩ | ⟨⟨⟨h1, h2⟩, h3⟩, h4⟩
  · rw [h2] at hrinv
    refine ⟨h1, hi.errc.mpr h1, Or.inl ⟨hrinv.2.2.1, ?_⟩⟩
    simp [handedOver, h1, h2, h3, h4, h5]
  · rw [h2] at hrinv
    obtain ⟨_, ⟨_, hfl, w, hw, _⟩, _⟩ := hrinv
    exact ⟨h1, hi.errc.mpr h1, Or.inr ⟨⟨w, hw⟩, h2, h3, h4, by rw [hfl]; rfl, hi.chQ⟩⟩

theorem init_run_measure {s s' : St} {es : List Ev} (hr : Reach .repaired s)
    (h : runEvents .repaired s es = some s') : es.length + SubInit.measure s' ≤ SubInit.measure s := by
  induction es generalizing s with
  | nil => simp [runEvents] at h; subst h; simp
  | cons e es ih =>
    simp only [runEvents] at h
    cases hs : step? .repaired s e with
    | none => simp [hs] at h
    | some s1 =>
      rw [hs] at h
      have h1 := ih (.step hr hs) h
      have h2 := init_measure_decreases hr hs
      simp only [List.length_cons]; omega

/-- every run of the establishment phase has at most 13 steps -/
theorem C18_init_bounded {s : St} {es : List Ev} (h : runEvents .repaired SubInit.init es = some s) :
    es.length ≤ 13 := by
  have := init_run_measure .init h
  have h0 : SubInit.measure SubInit.init = 13 := by decide
  omega

/-! ## (d) what the caller gets — both variants -/

/-- Once the caller's `<-errCh` has returned: it received exactly the error of the write that
    failed (`fault`), i.e. `nil` iff no write failed; with `nil` both messages have been written
    and the reader is in its read loop; with an error the reader is not (it is in, or past, its
    deferred block). -/
theorem C18_init_reports {v : Variant} {s : St} (hr : Reach v s) (hret : s.s ≠ .wait) :
    s.result = some s.fault
    ∧ (s.fault = none → s.wrote = 2 ∧ s.r = .est)
    ∧ (∀ w, s.fault = some w → s.r ≠ .est ∧ s.failed = v.rel) := by
  have hi := reach_inv hr
  have hrinv := hi.r
  cases hpc : s.r with
  | wInit => rw [hpc] at hrinv; exact absurd hrinv.1 hret
  | wStart => rw [hpc] at hrinv; exact absurd hrinv.1 hret
  | sendOk => rw [hpc] at hrinv; exact absurd hrinv.1 hret
  | closeF w => rw [hpc] at hrinv; exact absurd hrinv.2.1 hret
  | sendErr w => rw [hpc] at hrinv; exact absurd hrinv.1 hret
  | est =>
    rw [hpc] at hrinv
    obtain ⟨_, _, hfa, hwr, hres, _, _⟩ := hrinv
    refine ⟨by rw [hres, hfa], fun _ => ⟨hwr, rfl⟩, ?_⟩
    intro w hw; rw [hfa] at hw; cases hw
  | dUpClose =>
    rw [hpc] at hrinv
    obtain ⟨_, hfl, w, hfa, hres⟩ := hrinv
    refine ⟨by rw [hres, hfa], ?_, fun _ _ => ⟨by simp, hfl⟩⟩
    intro h; rw [hfa] at h; cases h
  | dSel =>
    rw [hpc] at hrinv
    obtain ⟨_, ⟨_, hfl, w, hfa, hres⟩, _⟩ := hrinv
    refine ⟨by rw [hres, hfa], ?_, fun _ _ => ⟨by simp, hfl⟩⟩
    intro h; rw [hfa] at h; cases h
  | sendNil =>
    rw [hpc] at hrinv
    obtain ⟨_, ⟨_, hfl, w, hfa, hres⟩, _⟩ := hrinv
    refine ⟨by rw [hres, hfa], ?_, fun _ _ => ⟨by simp, hfl⟩⟩
    intro h; rw [hfa] at h; cases h
  | done =>
    rw [hpc] at hrinv
    obtain ⟨_, ⟨_, hfl, w, hfa, hres⟩, _⟩ := hrinv
    refine ⟨by rw [hres, hfa], ?_, fun _ _ => ⟨by simp, hfl⟩⟩
    intro h; rw [hfa] at h; cases h

/-! ## the hand-over to the established protocol -/

/-- In the success outcome the upstream side of the state is exactly the initial state of the
    established protocol (`SubProtoFixed.init`: closer at its receive, reader in its read loop —
    `est` is `Rq.upRead` —, upstream connection open, `closeCh` open), `Subscribe` returned `nil`,
    both messages were written, and `failedCh` is open — and stays open (only the reader's `fail`
    closes it, and the reader is past it): the closer's `select { closeCh | failedCh }` and the
    reader's `select { failedCh → return | default }` behave as `<-closeCh` and as a no-op, which
    is what the established model has. -/
theorem C18_init_handover {s : St} (hr : Reach .repaired s) (h : handedOver s = true)
    (c : SubProto.Cfg) :
    s.c = (SubProtoFixed.init c).cq ∧ s.r = .est ∧ (SubProtoFixed.init c).rq = .upRead
    ∧ s.upClosed = (SubProtoFixed.init c).upClosed ∧ s.chQ = (SubProtoFixed.init c).chQ
    ∧ s.failed = false ∧ s.result = some none ∧ s.wrote = 2 ∧ s.fatal = none := by
  have hi := reach_inv hr
  simp only [handedOver, Bool.and_eq_true, decide_eq_true_eq, Bool.not_eq_true'] at h
  obtain ⟨⟨⟨⟨h1, h2⟩, h3⟩, h4⟩, h5⟩ := h
  have hrinv := hi.r
  rw [h2] at hrinv
  exact ⟨h3, h2, rfl, h4, hi.chQ, h5, hrinv.2.2.2.2.1, hrinv.2.2.2.1, hi.nofatal⟩

/-! ## the pre-repair variant leaks -/

/-- `terminal` (no candidate event is enabled) means that NO event is enabled -/
theorem terminal_complete {v : Variant} {s : St} (h : terminal v s = true) (e : Ev) :
    step? v s e = none := by
  have hmem : e ∈ candidates := by
    cases e with
    | rqWrite ok => cases ok <;> simp [candidates]
    | _ => simp [candidates]
  cases hx : step? v s e with
  | none => rfl
  | some s' =>
    have : e ∈ enabled v s := by
      simp only [enabled, List.mem_filter]; exact ⟨hmem, by simp [hx]⟩
    simp only [terminal, List.isEmpty_iff] at h
    rw [h] at this; cases this

/-- the upstream resets the connection, the init write fails: the reader reports the error,
    `Subscribe` returns it, the reader closes the connection and parks in `send(nil)` -/
def leakRun : List Ev := [.rqWrite false, .rqSend, .sCloseErr, .rqUpClose]

/-- Before the repair (no `failedCh`): a reachable state in which `Subscribe` has returned the
    error of the failed init write and NOTHING can ever move again, while the reader goroutine is
    parked in its deferred `send(nil)` and the closer goroutine in `<-closeCh` — for ever, since
    the caller has discarded the entry. -/
theorem C18_init_leak_before_repair :
    ∃ s, runEvents .preRepair SubInit.init leakRun = some s ∧ Reach .preRepair s
      ∧ (∀ e, step? .preRepair s e = none)
      ∧ s.s = .done ∧ s.result = some (some .init)
      ∧ s.r = .sendNil ∧ s.c = .recvQ ∧ s.fatal = none
      ∧ leak .preRepair s = true :=
  ⟨_, rfl, reach_of_run (es := leakRun) .init rfl, terminal_complete (by decide),
    rfl, rfl, rfl, rfl, rfl, by decide⟩

/-- Non-vacuity: the same failure in the repaired variant ends with everything gone; a failing
    `start` write with the closer racing the caller; and a successful establishment. -/
example : (runEvents .repaired SubInit.init
    [.rqWrite false, .rqCloseF, .rqSend, .sCloseErr, .rqUpClose, .rqSel, .cqRecv, .cqUpClose]).map
      (fun s => (ended s, terminal .repaired s, s.result, s.upClosed)) = some (true, true, some (some .init), true) := by decide

example : (runEvents .repaired SubInit.init
    [.rqWrite true, .rqWrite false, .rqCloseF, .cqRecv, .cqUpClose, .rqSend, .rqUpClose, .rqSel, .sCloseErr]).map
      (fun s => (ended s, terminal .repaired s, s.result, s.wrote)) = some (true, true, some (some .start), 1) := by decide

example : (runEvents .repaired SubInit.init [.rqWrite true, .rqWrite true, .rqSend, .sCloseErr]).map
      (fun s => (handedOver s, terminal .repaired s, s.result, s.wrote)) = some (true, true, some none, 2) := by decide

end PebblesVerif.C18
