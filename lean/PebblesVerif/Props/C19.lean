import PebblesVerif.Proofs.Upload
import PebblesVerif.Proofs.Parse
/-!
# C19 — file uploads arrive at the owning service unchanged

In: `requests.injectFile` puts the `*Upload` of each file at the positions the client's `map`
names. Out: `queryer.extractFiles` / `prepareMultipart` / `queryBatch` null the uploads in the
variables, emit one `map` entry and one part per occurrence, and send requests without uploads in
the plain JSON call. The theorems are about the composition, for ALL variable trees, maps and
positions (by induction on paths and trees; Go map iteration order does not matter: results are
stated up to permutation, `C19_extract_order_insensitive`).

Full statement and what is proved:

* `C19_inject_extract` (full, every well-formed map): inject then extract gives back the client's
  variables and exactly the client's (file, position) pairs.
* `C19_delivery_statement` is the property's "the same path refers to a part with the same bytes";
  it is FALSE of the code (`C19_delivery_fails_shared_file`: one file at two positions is one
  reader encoded twice, the second part is empty). Proved: `C19_delivery_partial`, under
  `filesDistinct` (each file used at one position).
* Two steps that use the same upload variable (`C19_second_step_*`): counter-examples by
  evaluation — a nested upload is nulled in the client's shared tree by the first step, so the
  second sends plain JSON with `null`; a top-level upload reaches the second step as an empty part.
  The proved theorems speak about ONE consuming step.
* `C19_no_file_no_part`, `C19_owner_only`: a request (a step's selection of variables) without
  uploads is sent in the JSON call and in no multipart call.
* `C19_inject_total`: with the `injectFile` guards (`C19_facts`), injection never panics.
-/
namespace PebblesVerif.Upload
open PebblesVerif.Gen.Requests (Facts facts repaired unrepaired)

/-- regenerated facts: guards present; the position prefix `extractFiles` emits is the keyword
`injectFile` expects (so the downstream path IS the client's path, minus the batch index) -/
theorem C19_facts : facts = repaired := by decide

/-- **C19_inject_extract.** For every variables tree that came from JSON and every well-formed map
(each position names a null leaf; positions distinct), injecting all files succeeds and
`extractFiles` then returns the client's variables and — up to order — exactly the client's
(file, position) pairs, each prefixed with `variables`. -/
theorem C19_inject_extract (F : Facts) (vars : List (String × V)) (pairs : Pairs)
    (hw : wfMap vars pairs) (hno : noUploads vars) :
    ∃ vars' items, injectPairs F pairs vars = .ok vars' ∧
      extractFiles F (some vars') = (some vars, items) ∧
      items.Perm (consAll F.positionPrefix pairs) := by
  obtain ⟨m', hi, hn, hu⟩ := injectPairs_spec F pairs vars hw
  refine ⟨m', consAll F.positionPrefix (upsKVs m'), hi, ?_, ?_⟩
  · simp [extractFiles, hn, nullKVs_of_noUp vars hno]
  · have : (upsKVs m').Perm pairs := by
      unfold noUploads at hno
      simpa [hno] using hu
    exact consAll_perm _ this

/-- the same through the Go path strings: the entries a client sends for request `i` (single or
batch), split by `strings.Split`, indexed by `strconv.Atoi`, land where `C19_inject_extract` says -/
theorem C19_inject_extract_strings (batch : Bool) (i : Nat) (hi : i < 2 ^ 63) (hnb : batch = false → i = 0)
    (files : List String) (reqs : List Req) (r : Req) (vars : List (String × V)) (pairs : Pairs)
    (hr : reqs[i]? = some r) (hv : r.vars = some vars)
    (hw : wfMap vars pairs) (hno : noUploads vars)
    (hf : ∀ x ∈ pairs, files.contains (toString x.1) = true ∧ ∀ p ∈ x.2, '.' ∉ p.toList) :
    ∃ vars' items, injectEntries facts batch files (entriesOf facts batch i pairs) reqs
        = .ok (reqs.set i { r with vars := some vars' }) ∧
      extractFiles facts (some vars') = (some vars, items) ∧
      items.Perm (consAll "variables" pairs) := by
  obtain ⟨vars', items, h1, h2, h3⟩ := C19_inject_extract facts vars pairs hw hno
  refine ⟨vars', items, ?_, h2, ?_⟩
  · have hk : '.' ∉ facts.variablesKeyword.toList := by rw [C19_facts]; decide
    rw [injectEntries_entriesOf facts batch i hi hnb files hk pairs reqs r vars hr hv
      (fun x hx => ⟨(hf x hx).1, by
        intro e
        have := hw.1 x hx
        rw [e] at this
        simp [nullAt] at this, (hf x hx).2⟩), h1]
  · have : facts.positionPrefix = "variables" := by rw [C19_facts]; rfl
    rw [← this]; exact h3

/-- **C19_inject_total.** `injectFile` never panics, whatever the map says (the guards are there). -/
theorem C19_inject_total (batch : Bool) (files : List String)
    (entries : List (Nat × String × List String)) (reqs : List Req) :
    (injectEntries facts batch files entries reqs).isPanic = false :=
  PebblesVerif.Parse.injectEntries_no_panic facts (by rw [C19_facts]; decide) batch files entries reqs

/-- `extractFiles` on a tree without uploads: nothing extracted, nothing changed -/
theorem extractFiles_noUploads (F : Facts) (vars : List (String × V)) (h : noUploads vars) :
    extractFiles F (some vars) = (some vars, []) := by
  unfold noUploads at h
  simp [extractFiles, h, nullKVs_of_noUp vars h, consAll]

/-- **C19_no_file_no_part.** An input of `queryBatch` whose variables hold no upload is sent,
unchanged, in the plain JSON call, and no multipart call is made for it. -/
theorem C19_no_file_no_part (F : Facts) (inputs : List (Option (List (String × V)))) (consumed : List Nat)
    (i : Nat) (vars : List (String × V)) (hi : inputs[i]? = some (some vars)) (hno : noUploads vars) :
    (∃ plain, Call.json plain ∈ (sendStep F inputs consumed).1 ∧ (i, some vars) ∈ plain) ∧
    (∀ call ∈ (sendStep F inputs consumed).1, call.req? ≠ some i) := by
  have hex := extractFiles_noUploads F vars hno
  have hpl := stepCalls_plain F inputs 0 consumed i (some vars) hi (by rw [hex])
  rw [hex] at hpl
  simp only [Nat.zero_add] at hpl
  constructor
  · refine ⟨(stepCalls F 0 inputs consumed).2.1, ?_, hpl⟩
    unfold sendStep
    have hne : (stepCalls F 0 inputs consumed).2.1.isEmpty = false := by
      cases h : (stepCalls F 0 inputs consumed).2.1 with
      | nil => rw [h] at hpl; simp at hpl
      | cons _ _ => rfl
    simp [hne]
  · intro call hc
    unfold sendStep at hc
    simp only [List.mem_append] at hc
    cases hc with
    | inl hc =>
      obtain ⟨j, v, parts, h1, h2, h3⟩ := stepCalls_multipart F inputs 0 consumed call hc
      rw [h1]
      simp only [Call.req?, Nat.zero_add, ne_eq, Option.some.injEq]
      intro e
      subst e
      rw [hi] at h2
      simp at h2
      subst h2
      rw [hex] at h3
      exact h3 rfl
    | inr hc =>
      split at hc
      · simp at hc
      · simp at hc; rw [hc]; simp [Call.req?]

/-- **C19_owner_only.** A step whose selection of the client's variables (`executor.getVariables`)
contains no upload gets a plain JSON call — no file reaches a service that does not use the variable. -/
theorem C19_owner_only (F : Facts) (names : List String) (client : List (String × V)) (consumed : List Nat)
    (h : ∀ kv ∈ client, names.contains kv.1 = true → upsV kv.2 = []) :
    ∀ call ∈ (sendStep F [some (stepVars names client)] consumed).1, call.req? = none := by
  intro call hc
  have hno : noUploads (stepVars names client) := upsKVs_stepVars_nil names client h
  have := (C19_no_file_no_part F [some (stepVars names client)] consumed 0 _ (by simp) hno).2 call hc
  cases call with
  | json _ => rfl
  | multipart r v parts =>
    have hm := hc
    unfold sendStep at hm
    simp only [List.mem_append] at hm
    cases hm with
    | inl hm =>
      obtain ⟨j, v', parts', h1, h2, _⟩ := stepCalls_multipart F _ 0 consumed _ hm
      have hj : j = 0 := by
        cases j with
        | zero => rfl
        | succ k => simp at h2
      subst hj
      simp [Call.req?] at this
      injection h1 with h1 _ _
      omega
    | inr hm => split at hm <;> simp at hm

/-! ## delivery -/

/-- The property's delivery clause, as stated: after parsing a well-formed multipart request,
the downstream call for the request carries, for EVERY (file, position) of the map, a part at that
position with the file's bytes, and the client's variables. FALSE of the code. -/
def C19_delivery_statement (F : Facts) : Prop :=
  ∀ (vars : List (String × V)) (pairs : Pairs), wfMap vars pairs → noUploads vars → pairs ≠ [] →
    ∀ vars', injectPairs F pairs vars = .ok vars' →
      ∀ x ∈ pairs, delivered F (sendStep F [some vars'] []).1 0 vars x = true

/-- one file mapped to two positions: the second part is encoded from the drained reader -/
theorem C19_delivery_fails_shared_file : ¬ C19_delivery_statement repaired := by
  intro h
  have := h [("a", .null), ("b", .null)] [(0, ["a"]), (0, ["b"])] (by decide) (by decide) (by decide)
    [("a", .upload 0), ("b", .upload 0)] (by decide) (0, ["b"]) (by decide)
  revert this
  decide

theorem delivered_of_mem (F : Facts) (req : Nat) (vars : List (String × V)) (parts : List Part)
    (x : Nat × List String) (rest : List Call)
    (h : (⟨x.1, F.positionPrefix :: x.2, true⟩ : Part) ∈ parts) :
    delivered F (Call.multipart req (some vars) parts :: rest) req vars x = true := by
  simp [delivered, h]

/-- **C19_delivery_partial.** Hypotheses: each file is used at one position (`filesDistinct`),
and one step consumes the request. Then every file of the map is delivered: a multipart call for
the request, carrying the client's variables, with a part at `variables.<position>` encoded from
the file's undrained reader. -/
theorem C19_delivery_partial (F : Facts) (vars : List (String × V)) (pairs : Pairs)
    (hw : wfMap vars pairs) (hno : noUploads vars) (hne : pairs ≠ []) (hfd : filesDistinct pairs) :
    ∃ vars', injectPairs F pairs vars = .ok vars' ∧
      ∀ x ∈ pairs, delivered F (sendStep F [some vars'] []).1 0 vars x = true := by
  obtain ⟨m', hi, hn, hu⟩ := injectPairs_spec F pairs vars hw
  refine ⟨m', hi, ?_⟩
  have hperm : (upsKVs m').Perm pairs := by
    unfold noUploads at hno
    simpa [hno] using hu
  have hnull : nullKVs m' = vars := by rw [hn, nullKVs_of_noUp vars hno]
  have hitems : (consAll F.positionPrefix (upsKVs m')).isEmpty = false := by
    cases hu' : upsKVs m' with
    | nil => rw [hu'] at hperm; exact absurd hperm.symm.eq_nil hne
    | cons _ _ => rfl
  have hnd : ((consAll F.positionPrefix (upsKVs m')).map (·.1)).Nodup := by
    have e : (consAll F.positionPrefix (upsKVs m')).map (·.1) = (upsKVs m').map (·.1) := by
      simp [consAll, List.map_map, Function.comp_def]
    rw [e]
    exact (hperm.map _).nodup_iff.mpr hfd
  have hparts := emitParts_fresh (consAll F.positionPrefix (upsKVs m')) [] hnd (by intro _ _; simp)
  intro x hx
  have hxm : x ∈ upsKVs m' := hperm.mem_iff.mpr hx
  unfold sendStep
  simp only [stepCalls, extractFiles, hitems, Bool.false_eq_true, if_false, hnull, List.cons_append]
  apply delivered_of_mem
  rw [hparts]
  simp only [List.mem_map]
  exact ⟨(x.1, F.positionPrefix :: x.2), by
    simp only [consAll, List.mem_map]
    exact ⟨x, hxm, rfl⟩, rfl⟩

/-! ## two steps using the same upload variable: counter-examples by evaluation -/

/-- nested upload, two consuming steps: the first step nulls it in the client's shared tree; the
second step sends plain JSON with `null` and no file -/
theorem C19_second_step_nested_gets_null :
    twoSteps repaired [("in", .obj [("f", .upload 0)])] =
      ([Call.multipart 0 (some [("in", .obj [("f", .null)])]) [⟨0, ["variables", "in", "f"], true⟩]],
       [Call.json [(0, some [("in", .obj [("f", .null)])])]]) := by decide

/-- top-level upload, two consuming steps: both send a part, the second from the drained reader -/
theorem C19_second_step_toplevel_gets_empty_part :
    twoSteps repaired [("f", .upload 0)] =
      ([Call.multipart 0 (some [("f", .null)]) [⟨0, ["variables", "f"], true⟩]],
       [Call.multipart 0 (some [("f", .null)]) [⟨0, ["variables", "f"], false⟩]]) := by decide

/-! ## Go map iteration order -/

theorem nullKVs_eq_map (m : List (String × V)) : nullKVs m = m.map (fun kv => (kv.1, nullV kv.2)) := by
  induction m with
  | nil => rfl
  | cons kv r ih => obtain ⟨k, v⟩ := kv; simp [nullKVs, ih]

theorem upsKVs_eq_flatMap (m : List (String × V)) : upsKVs m = m.flatMap (fun kv => consAll kv.1 (upsV kv.2)) := by
  induction m with
  | nil => rfl
  | cons kv r ih => obtain ⟨k, v⟩ := kv; simp [upsKVs, ih]

/-- **C19_extract_order_insensitive.** Visiting the members of a map in another order (Go's
`range` over a map) permutes the extracted items and the members of the nulled map, nothing else. -/
theorem C19_extract_order_insensitive (m m' : List (String × V)) (h : m.Perm m') :
    (nullKVs m).Perm (nullKVs m') ∧ (upsKVs m).Perm (upsKVs m') := by
  rw [nullKVs_eq_map, nullKVs_eq_map, upsKVs_eq_flatMap, upsKVs_eq_flatMap]
  exact ⟨h.map _, h.flatMap_right _⟩

/-! ## non-vacuity -/

example : wfMap [("in", .obj [("f", .null)]), ("files", .list [.null, .null]), ("x", .scalar "n:1")]
    [(0, ["in", "f"]), (1, ["files", "1"]), (2, ["files", "0"])] := by decide

example : injectPairs repaired [(0, ["in", "f"]), (1, ["files", "1"])]
    [("in", .obj [("f", .null)]), ("files", .list [.null, .null])]
    = .ok [("in", .obj [("f", .upload 0)]), ("files", .list [.null, .upload 1])] := by decide

example : injectEntries repaired true ["0", "1"] (entriesOf repaired true 1 [(0, ["in", "f"]), (1, ["files", "1"])])
    [⟨"a", none, none⟩, ⟨"b", some [("in", .obj [("f", .null)]), ("files", .list [.null, .null])], none⟩]
    = .ok [⟨"a", none, none⟩, ⟨"b", some [("in", .obj [("f", .upload 0)]), ("files", .list [.null, .upload 1])], none⟩] := by
  rfl

example : clientPath repaired true 1 ["files", "1"] = "1.variables.files.1" := by decide

end PebblesVerif.Upload
