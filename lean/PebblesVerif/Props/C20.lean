import PebblesVerif.Proofs.AsyncMapReduce
import PebblesVerif.Gen.AMR

/-!
# C20 — the parallel map/reduce helper maps every item once and reduces serially

Property theorems ONLY (helper lemmas live in `Proofs/AsyncMapReduce.lean`).
All statements quantify over every configuration `c` (every list length `n = c.ok.length`,
every success/error pattern) and every reachable state / every run (= every interleaving of
workers, reducer and caller).
-/
namespace PebblesVerif.AMR

/-- The regenerated structural facts of `common/helpers.go` are the ones the model was written for. -/
theorem C20_facts : Gen.AMR.facts = Gen.AMR.expected := by decide

/-- Counting/bookkeeping invariant in every reachable state. -/
theorem C20_inv {c s} (h : Reach c s) : Inv c s := reach_inv h

/-- No send on a closed channel, no negative WaitGroup counter — in any reachable state. -/
theorem C20_no_fault {c s} (h : Reach c s) : s.fault = false := (reach_inv h).nofault

/-- `reduceFunc` never overlaps itself: `stepOpen` tracks the reduce in progress and rejects
    a second `reduceBegin` before the matching `reduceEnd`. -/
def stepOpen : Option (Option Nat) → Ev → Option (Option Nat)
  | some none, .reduceBegin i => some (some i)
  | some (some _), .reduceBegin _ => none
  | some (some i), .reduceEnd j => if i = j then some none else none
  | some none, .reduceEnd _ => none
  | o, _ => o

def redOpen : R → Option Nat
  | .reducing i => some i
  | _ => none

theorem C20_serial_state {c tr s} (h : Run c tr s) :
    tr.foldl stepOpen (some none) = some (redOpen s.red) := by
  induction h with
  | nil => rfl
  | snoc hr hs ih =>
    rename_i tr s e s'
    rw [List.foldl_append, ih]
    unfold Step step? at hs
    cases e <;> simp only at hs <;> split at hs <;> try cases hs
    all_goals rename_i hc
    all_goals simp_all [stepOpen, redOpen]
    all_goals split <;> simp_all

theorem C20_serial {c tr s} (h : Run c tr s) : (tr.foldl stepOpen (some none)).isSome := by
  rw [C20_serial_state h]; rfl

/-- The caller returns only after everything has happened. -/
theorem C20_return_late {c s} (h : Reach c s) (hm : s.main = .returned) :
    (∀ w ∈ s.ws, w = .done) ∧ s.red = .exited ∧ s.wg = 0
      ∧ s.acc.length + s.errs.length = c.n := by
  have hi := reach_inv h
  have h0 := hi.passed (by simp [hm])
  refine ⟨(hi.allDone h0).1, hi.mainRed.mpr (Or.inr hm), h0, ?_⟩
  have := hi.wg; omega

theorem mem_acc_iff {c s} (h : Reach c s) (hm : s.main = .returned) (i : Nat) :
    i ∈ s.acc ↔ c.ok[i]? = some true := by
  have hi := reach_inv h
  obtain ⟨hall, hred, _, _⟩ := C20_return_late h hm
  constructor
  · exact hi.accOk i
  · intro hok
    have hlt : i < s.ws.length := by rw [hi.len]; exact lt_of_getElem?_eq_some hok
    have hd : s.ws[i]? = some .done := by
      rw [List.getElem?_eq_getElem hlt]; congr; exact hall _ (List.getElem_mem hlt)
    rcases (hi.doneIff i).mp hd with h1 | h1 | h1
    · exact h1
    · have := hi.errOk i h1; rw [hok] at this; cases this
    · rw [hred] at h1; cases h1

theorem mem_errs_iff {c s} (h : Reach c s) (hm : s.main = .returned) (i : Nat) :
    i ∈ s.errs ↔ c.ok[i]? = some false := by
  have hi := reach_inv h
  obtain ⟨hall, hred, _, _⟩ := C20_return_late h hm
  constructor
  · exact hi.errOk i
  · intro hok
    have hlt : i < s.ws.length := by rw [hi.len]; exact lt_of_getElem?_eq_some hok
    have hd : s.ws[i]? = some .done := by
      rw [List.getElem?_eq_getElem hlt]; congr; exact hall _ (List.getElem_mem hlt)
    rcases (hi.doneIff i).mp hd with h1 | h1 | h1
    · have := hi.accOk i h1; rw [hok] at this; cases this
    · exact h1
    · rw [hred] at h1; cases h1

def successes (c : Cfg) : List Nat := (List.range c.n).filter (fun i => c.ok[i]? = some true)
def failures (c : Cfg) : List Nat := (List.range c.n).filter (fun i => c.ok[i]? = some false)

/-- On return: the reduced items are exactly the successes (each once, in some order), the
    reported errors are exactly the failures (each once), and `mapFunc` ran exactly once per item. -/
theorem C20_exact_once {c s} (h : Reach c s) (hm : s.main = .returned) :
    s.acc.Perm (successes c) ∧ s.errs.Perm (failures c) ∧ s.mapped.Perm (List.range c.n) := by
  have hi := reach_inv h
  obtain ⟨hall, _, _, _⟩ := C20_return_late h hm
  refine ⟨?_, ?_, ?_⟩
  · unfold successes
    rw [List.perm_ext_iff_of_nodup hi.accNodup (List.nodup_range.filter _)]
    intro i
    rw [mem_acc_iff h hm]
    simp only [List.mem_filter, List.mem_range, decide_eq_true_eq]
    constructor
    · intro hok; exact ⟨lt_of_getElem?_eq_some hok, hok⟩
    · exact fun h => h.2
  · unfold failures
    rw [List.perm_ext_iff_of_nodup hi.errNodup (List.nodup_range.filter _)]
    intro i
    rw [mem_errs_iff h hm]
    simp only [List.mem_filter, List.mem_range, decide_eq_true_eq]
    constructor
    · intro hok; exact ⟨lt_of_getElem?_eq_some hok, hok⟩
    · exact fun h => h.2
  · rw [List.perm_ext_iff_of_nodup hi.mappedNodup List.nodup_range]
    intro i
    rw [hi.mappedIff, List.mem_range, ← hi.len]
    constructor
    · rintro ⟨w, hw, _⟩; exact lt_of_getElem?_eq_some hw
    · intro hlt
      refine ⟨.done, ?_, by simp⟩
      rw [List.getElem?_eq_getElem hlt]; congr; exact hall _ (List.getElem_mem hlt)

/-- `mapFunc` is applied to each item exactly once (count form). -/
theorem C20_map_once {c s} (h : Reach c s) (hm : s.main = .returned) (i : Nat) (hi : i < c.n) :
    s.mapped.count i = 1 := by
  have hp := (C20_exact_once h hm).2.2
  rw [hp.count_eq]
  rw [List.nodup_range.count]; simp [hi]

theorem step_of_isSome {c s e} (h : (step? c s e).isSome) : ∃ s', Step c s e s' := by
  cases hx : step? c s e with
  | none => simp [hx] at h
  | some s' => exact ⟨s', hx⟩

/-- No deadlock: in every reachable state that is not final some step is enabled. -/
theorem C20_progress {c s} (h : Reach c s) (hf : ¬ Final s) : ∃ e s', Step c s e s' := by
  have hi := reach_inv h
  unfold Final at hf
  rcases hr : s.red with _ | i | _
  · -- reducer at its select
    by_cases hall : ∀ w ∈ s.ws, w = .done
    · have hcnt : s.ws.count .done = s.ws.length := List.count_eq_length.mpr (fun b hb => (hall b hb).symm)
      have h1 := hi.cnt; have h2 := hi.wg; have h3 := hi.len
      simp only [hr, rWeight] at h1
      have h0 : s.wg = 0 := by omega
      rcases hm : s.main with _ | _ | _ | _
      · exact ⟨.waitPass, step_of_isSome (by simp [step?, hm, h0])⟩
      · exact ⟨.doneSend, step_of_isSome (by simp [step?, hm, hr])⟩
      · have := hi.mainRed.mpr (Or.inl hm); rw [hr] at this; cases this
      · exact absurd hm hf
    · have : ∃ w ∈ s.ws, w ≠ .done := by
        apply Classical.byContradiction; intro hne; apply hall
        intro w hw; apply Classical.byContradiction; intro hw'; exact hne ⟨w, hw, hw'⟩
      obtain ⟨w, hw, hne⟩ := this
      obtain ⟨j, hj⟩ := List.mem_iff_getElem?.mp hw
      cases w with
      | idle => exact ⟨.mapBegin j, step_of_isSome (by simp [step?, hj])⟩
      | mapping => exact ⟨.mapEnd j, step_of_isSome (by simp [step?, hj])⟩
      | done => exact absurd rfl hne
      | ready =>
        have hlt : j < c.ok.length := by
          have := lt_of_getElem?_eq_some hj; rw [hi.len] at this; exact this
        rcases hb : c.ok[j] with _ | _
        · exact ⟨.errRecv j, step_of_isSome (by simp [step?, hj, hr, List.getElem?_eq_getElem hlt, hb])⟩
        · exact ⟨.reduceBegin j, step_of_isSome (by simp [step?, hj, hr, List.getElem?_eq_getElem hlt, hb])⟩
  · exact ⟨.reduceEnd i, step_of_isSome (by simp [step?, hr])⟩
  · rcases hi.mainRed.mp hr with hm | hm
    · exact ⟨.ret, step_of_isSome (by simp [step?, hm])⟩
    · exact absurd hm hf

theorem sum_map_set {l : List W} {i : Nat} {a b : W} (h : l[i]? = some a) :
    ((l.set i b).map wWeight).sum + wWeight a = (l.map wWeight).sum + wWeight b := by
  induction l generalizing i with
  | nil => simp at h
  | cons x xs ih =>
    cases i with
    | zero => simp at h; subst h; simp; omega
    | succ i =>
      simp only [List.getElem?_cons_succ] at h
      have := ih h
      simp only [List.set_cons_succ, List.map_cons, List.sum_cons]; omega

/-- Every step strictly decreases a natural-number measure: every schedule is finite, so with
    `C20_progress` every maximal run ends in a final state — no goroutine is left behind. -/
theorem C20_terminates {c s e s'} (hs : Step c s e s') : measure s' < measure s := by
  unfold Step step? at hs
  cases e <;> simp only at hs <;> split at hs <;> try cases hs
  all_goals rename_i hc
  · have := sum_map_set (b := .mapping) hc; simp [measure, wWeight] at *; omega
  · have := sum_map_set (b := .ready) hc; simp [measure, wWeight] at *; omega
  · have := sum_map_set (b := .done) hc.1; simp [measure, wWeight, rWeight, hc.2.2] at *; omega
  · simp [measure, rWeight, hc]
  · have := sum_map_set (b := .done) hc.1; simp [measure, wWeight] at *; omega
  · simp [measure, mWeight, hc.1]
  · simp [measure, mWeight, rWeight, hc.1, hc.2]
  · simp [measure, mWeight, hc]

/-- A final state has every worker done, the reducer exited: no goroutine of the call remains. -/
theorem C20_no_goroutine_left {c s} (h : Reach c s) (hf : Final s) :
    (∀ w ∈ s.ws, w = .done) ∧ s.red = .exited :=
  let ⟨a, b, _, _⟩ := C20_return_late h hf; ⟨a, b⟩

/-- Functional corollary used by C07/C08/C09/C11: the returned accumulator is the fold of
    `reduceFunc` over the successful results in *some* order (a permutation of the successes),
    whatever the schedule. -/
theorem C20_result_is_fold {α β} (reduce : α → β → α) (res : Nat → β) (a₀ : α) {c s}
    (h : Reach c s) (hm : s.main = .returned) :
    ∃ π : List Nat, π.Perm (successes c) ∧ s.acc.foldl (fun a i => reduce a (res i)) a₀
        = π.foldl (fun a i => reduce a (res i)) a₀ :=
  ⟨s.acc, (C20_exact_once h hm).1, rfl⟩

/-- Non-vacuity: a concrete run with two items (one failing) reaches a final state. -/
example : ∃ s, runEvents ⟨[true, false]⟩ (init ⟨[true, false]⟩)
    [.mapBegin 0, .mapBegin 1, .mapEnd 1, .errRecv 1, .mapEnd 0, .reduceBegin 0, .reduceEnd 0,
     .waitPass, .doneSend, .ret] = some s ∧ s.main = .returned ∧ s.acc = [0] ∧ s.errs = [1] := by
  exact ⟨_, rfl, rfl, rfl, rfl⟩

end PebblesVerif.AMR
