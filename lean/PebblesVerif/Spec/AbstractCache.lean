/-!
# Spec for C14 — "the plan cache never changes an answer"

The specification is the plain planner itself: whatever the history, whatever the TTL, whatever
the clock, request `i` must be answered with `plain opᵢ` (a plan or a planning error).

Abstract types: `Op` (everything of a planning context that varies between requests: the
operation as `gqlparser.LoadQuery` hands it over), `Plan`, `Key` (the 20-byte hash; SHA-1 is
modelled as injective on the strings compared, DESIGN §8), `E` (planning errors).
-/
namespace PebblesVerif.Cache

/-- The two functions the cached planner is built from. -/
structure Sys (Op Plan Key E : Type) where
  /-- `CachedPlanner.hash` -/
  key : Op → Key
  /-- the wrapped planner (`cp.executor.Plan`, by default `SequentialPlanner`) -/
  plain : Op → Except E Plan

/-- One request of a history: the two clock readings made while it is served
    (`time.Now()` in `clean`, `time.Now()` when the entry is stored — arbitrary, not even
    monotone: `.UTC()` strips the monotonic reading), the operation, and the write the consumer
    of the returned plan performs *in place* on the object it was handed (`id` = none). -/
structure Req (Op Plan : Type) where
  t1 : Nat
  t2 : Nat
  op : Op
  write : Plan → Plan := id

/-- The spec: answer every request with the plain planner. -/
def specRun {Op Plan Key E} (S : Sys Op Plan Key E) (hist : List (Req Op Plan)) : List (Except E Plan) :=
  hist.map (fun r => S.plain r.op)

end PebblesVerif.Cache
