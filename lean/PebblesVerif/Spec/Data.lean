import PebblesVerif.Basic.J
/-!
Entity graphs (DESIGN Appendix G): "the union of the same data". Mirrors harness/fed/data.go.
-/
namespace PebblesVerif.Spec

inductive DVal where
  | null
  | scalar (v : J)
  | ref (id : String)
  | obj (type : String) (fields : List (String × DVal))
  | list (vs : List DVal)
  deriving Repr, Inhabited

structure Entity where
  id : String
  type : String
  fields : List (String × DVal)
  deriving Repr, Inhabited

structure Data where
  entities : List Entity
  roots : List (String × List (String × DVal))   -- "Query"/"Mutation"/"Subscription" ↦ field ↦ value
  deriving Repr, Inhabited

def dlookup (k : String) : List (String × DVal) → Option DVal
  | [] => none
  | (k', v) :: rest => if k = k' then some v else dlookup k rest

def Data.entity? (d : Data) (id : String) : Option Entity := d.entities.find? (·.id == id)

def Data.root (d : Data) (r : String) : List (String × DVal) :=
  match d.roots.find? (·.1 == r) with
  | some (_, fs) => fs
  | none => []

end PebblesVerif.Spec
