import PebblesVerif.Basic.Ast
import PebblesVerif.Spec.Data
/-!
# Reference semantics (DESIGN Appendix G)

`Spec.eval S D op vars`: what a single GraphQL server exposing schema `S` over the entity
graph `D` answers. Fake services use it with their own schema, the C01 oracle with the merged
schema over the same data. Mirrors harness/fed/eval.go (the two are cross-checked on every run).
Structural recursion on the selection set; repeated response keys are evaluated separately and
deep-merged (equal to merging the selection sets for valid operations).
`none` = a non-null violation reached the root (`data: null`).
-/
namespace PebblesVerif.Spec
open PebblesVerif

def insertSorted (kv : String × J) : List (String × J) → List (String × J)
  | [] => [kv]
  | x :: xs => if kv.1 < x.1 then kv :: x :: xs else x :: insertSorted kv xs

def sortKVs (l : List (String × J)) : List (String × J) := l.foldl (fun acc kv => insertSorted kv acc) []

/-- canonical JSON text: object keys sorted at every level (what Go's encoding/json produces for maps) -/
partial def renderJ : J → String
  | .null => "null"
  | .bool b => if b then "true" else "false"
  | .num r => r
  | .str s => "\"" ++ s ++ "\""
  | .arr xs => "[" ++ ",".intercalate (xs.map renderJ) ++ "]"
  | .obj kvs => "{" ++ ",".intercalate ((sortKVs kvs).map (fun (k, v) => "\"" ++ k ++ "\":" ++ renderJ v)) ++ "}"

/-- `fed.CanonArgs` -/
def canonArgs (args : List (String × J)) : String :=
  ",".intercalate ((sortKVs args).map (fun (k, v) => k ++ "=" ++ renderJ v))

structure Env where
  schema : Schema
  data : Data
  vars : List (String × J)
  varDefs : List VarDef

mutual
  /-- `(*ast.Value).Value(vars)`: `none` = variable not provided and no default (argument omitted) -/
  def valueToJ (env : Env) : Value → Option J
    | .var n _ =>
      match J.lookup n env.vars with
      | some v => some v
      | none =>
        match env.varDefs.find? (·.name == n) with
        | some ⟨_, _, some d⟩ => constToJ d
        | _ => none
    | .int s => some (.num s)
    | .float s => some (.num s)
    | .str s => some (.str s)
    | .bool b => some (.bool b)
    | .null => some .null
    | .enum s => some (.str s)
    | .list vs => some (.arr (valuesToJ env vs))
    | .object fs => some (.obj (fieldsToJ env fs))
  def valuesToJ (env : Env) : List Value → List J
    | [] => []
    | v :: vs => (valueToJ env v).getD .null :: valuesToJ env vs
  def fieldsToJ (env : Env) : List (String × Value) → List (String × J)
    | [] => []
    | (k, v) :: fs => (k, (valueToJ env v).getD .null) :: fieldsToJ env fs
  /-- default values are constants (no variables) -/
  def constToJ : Value → Option J
    | .var _ _ => none
    | .int s => some (.num s)
    | .float s => some (.num s)
    | .str s => some (.str s)
    | .bool b => some (.bool b)
    | .null => some .null
    | .enum s => some (.str s)
    | .list vs => some (.arr (constsToJ vs))
    | .object fs => some (.obj (constFieldsToJ fs))
  def constsToJ : List Value → List J
    | [] => []
    | v :: vs => (constToJ v).getD .null :: constsToJ vs
  def constFieldsToJ : List (String × Value) → List (String × J)
    | [] => []
    | (k, v) :: fs => (k, (constToJ v).getD .null) :: constFieldsToJ fs
end

def argsToJ (env : Env) : List Arg → List (String × J)
  | [] => []
  | a :: as =>
    match valueToJ env a.value with
    | some v => (a.name, v) :: argsToJ env as
    | none => argsToJ env as

/-- `@skip(if:)` / `@include(if:)` -/
def skipped (env : Env) (dirs : List Dir) : Bool :=
  dirs.any (fun d =>
    match d.args.find? (·.name == "if") with
    | none => false
    | some a =>
      let b := match valueToJ env a.value with
        | some (.bool b) => b
        | _ => false
      (d.name == "skip" && b) || (d.name == "include" && !b))

/-- an object being resolved: a root pseudo-object or an entity / embedded value object -/
inductive Obj where
  | root (name : String)
  | ent (type : String) (id : String) (fields : List (String × DVal))

def Obj.typeName : Obj → String
  | .root n => n
  | .ent t _ _ => t

def applies (env : Env) (o : Obj) (cond : String) : Bool :=
  cond == "" || cond == o.typeName || (env.schema.possibleOf cond).contains o.typeName

mutual
  /-- deep merge of two answers for the same response key -/
  def mergeJ : J → J → J
    | .obj a, .obj b => .obj (mergeKVs a b)
    | .arr a, .arr b => .arr (mergeArr a b)
    | _, b => b
  def mergeKVs (a : List (String × J)) : List (String × J) → List (String × J)
    | [] => a
    | (k, v) :: rest =>
      let a' := match J.lookup k a with
        | some old => J.setKey k (mergeJ old v) a
        | none => a ++ [(k, v)]
      mergeKVs a' rest
  def mergeArr : List J → List J → List J
    | x :: xs, y :: ys => mergeJ x y :: mergeArr xs ys
    | xs, [] => xs
    | [], ys => ys
end

def addKey (acc : List (String × J)) (k : String) (v : J) : List (String × J) :=
  match J.lookup k acc with
  | some old => J.setKey k (mergeJ old v) acc
  | none => acc ++ [(k, v)]

/-- Complete a stored value against the declared type (structural on the type). `objK` evaluates
    the sub-selection on an object, `echo` renders a scalar (argument echo). `none` = a non-null
    violation propagates to the parent. -/
def completeWith (data : Data) (objK : Obj → Option (List (String × J))) (echo : J → J) :
    TypeRef → DVal → Option J
  | .nonNull t', v =>
    match v with
    | .null => none
    | _ => match completeWith data objK echo t' v with
      | some .null => none
      | r => r
  | .list elem, v =>
    match v with
    | .list vs =>
      -- a violation inside an element nulls the (nullable) list
      let rs := vs.map (fun x => completeWith data objK echo elem x)
      if rs.all Option.isSome then some (.arr (rs.filterMap id)) else some .null
    | _ => some .null
  | .named _, v =>
    match v with
    | .null => some .null
    | .scalar j => some (echo j)
    | .ref id =>
      match data.entity? id with
      | none => some .null
      | some e => match objK (.ent e.type e.id e.fields) with
        | some kvs => some (.obj kvs)
        | none => some .null
    | .obj ty fields => match objK (.ent ty "" fields) with
        | some kvs => some (.obj kvs)
        | none => some .null
    | .list _ => some .null

/-- the stored value behind a field of an object (`node(id:)` at the Query root looks the entity
    up and hides it when the schema does not know its type) -/
def storedValue (env : Env) (o : Obj) (name : String) (args : List Arg) : DVal :=
  match o with
  | .root r =>
    if r == "Query" && name == "node" then
      let id := match J.lookup "id" (argsToJ env args) with
        | some (.str s) => s
        | some (.num s) => s
        | _ => ""
      match env.data.entity? id with
      | none => .null
      | some e =>
        match env.schema.type? e.type with
        | some td => if td.kind == .object then .ref id else .null
        | none => .null
    else (dlookup name (env.data.root r)).getD .null
  | .ent _ _ fields => (dlookup name fields).getD .null

def echoArgs (env : Env) (args : List Arg) (j : J) : J :=
  match args, j with
  | _ :: _, .str s => .str (s ++ "|" ++ canonArgs (argsToJ env args))
  | _, _ => j

/-- the value of one field on an object (`objK` evaluates the sub-selection on an object value) -/
def fieldValue (env : Env) (o : Obj) (name : String) (args : List Arg) (type : TypeRef)
    (objK : Obj → Option (List (String × J))) : Option J :=
  if name == "__typename" then some (.str o.typeName) else
  match o, name with
  | .ent _ id _, "id" =>
    if id != "" then some (.str id)
    else completeWith env.data objK (echoArgs env args) type (storedValue env o name args)
  | _, _ => completeWith env.data objK (echoArgs env args) type (storedValue env o name args)

mutual
  /-- evaluate one selection on an object, adding to the response object under construction;
      `none` = non-null violation propagates upwards -/
  def evalSel (env : Env) (o : Obj) : Sel → List (String × J) → Option (List (String × J))
    | .field alias name args dirs type _ sub, acc =>
      if skipped env dirs then some acc else
      match fieldValue env o name args type (fun o' => evalSels env o' sub []) with
      | none => none
      | some v => some (addKey acc (if alias == "" then name else alias) v)
    | .inline cond _ _ dirs sub, acc =>
      if skipped env dirs || !applies env o cond then some acc else evalSels env o sub acc
    | .spread _ cond _ _ dirs sub, acc =>
      if skipped env dirs || !applies env o cond then some acc else evalSels env o sub acc
  def evalSels (env : Env) (o : Obj) : List Sel → List (String × J) → Option (List (String × J))
    | [], acc => some acc
    | s :: rest, acc =>
      match evalSel env o s acc with
      | none => none
      | some acc' => evalSels env o rest acc'
end

/-- the answer to one operation (`none` = `data: null`) -/
def eval (S : Schema) (D : Data) (op : Op) (vars : List (String × J)) : Option J :=
  let env : Env := ⟨S, D, vars, op.varDefs⟩
  (evalSels env (.root op.kind.rootName) op.sels []).map .obj

end PebblesVerif.Spec
