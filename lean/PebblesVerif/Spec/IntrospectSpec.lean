import PebblesVerif.Basic.Schema
import PebblesVerif.Basic.J
import PebblesVerif.Model.ISel
import PebblesVerif.Model.GoString
/-!
# The introspection answer the GraphQL specification prescribes

`Spec.introspect S` is the answer document for the full introspection shape of gqlparser's
prelude (`__Schema`, `__Type`, `__Field`, `__InputValue`, `__EnumValue`, `__Directive`), for the
schema `S` as gqlparser holds it. Conventions:

* every object carries its `__typename`;
* a reference to a named type (inside `type`, `ofType`, `interfaces`, `possibleTypes`,
  `queryType`, …) is the finite object `{__typename, kind, name, ofType: null}`; `Spec.select`
  follows such a reference into `__schema.types` when a selection asks for more (so the
  document is finite although the introspection schema is cyclic);
* `fields`/`enumValues` list everything (`includeDeprecated: true`); `Spec.select` filters on
  `isDeprecated` when the selection does not ask for deprecated elements;
* kind rules (spec §4.2 “Schema Introspection”, prelude comments): `fields`, `interfaces`
  non-null exactly for OBJECT and INTERFACE; `possibleTypes` for INTERFACE and UNION (the object
  types among gqlparser's `PossibleTypes`); `enumValues` for ENUM; `inputFields` for
  INPUT_OBJECT; `ofType` for LIST and NON_NULL (everything else `null` on wrappers);
* `__schema` / `__type` (names starting with `__`) are not fields of the query root;
* `description` is the string gqlparser holds (`""` when absent: the `Schema` datatype cannot
  distinguish); `defaultValue` is the GraphQL-syntax text of the default (`Value.String()`);
* `deprecationReason` of a `@deprecated` without `reason` is the directive's declared default,
  `"No longer supported"`;
* `types` and `directives` are listed in name order (the specification prescribes no order).

`Spec.select` projects a document through a selection set: aliases, inline fragments
flattened (every introspection type is an object type, so a valid fragment always applies),
fields with the same response key merged as `CollectFields`/`MergeSelectionSets` prescribe
(realised as a deep merge of the individual projections), `includeDeprecated` and
`__type(name:)` read through the variables.
Core Lean only.
-/
namespace PebblesVerif.Spec
open PebblesVerif


def tn (s : String) : String × J := ("__typename", .str s)

/-- `none`: not deprecated; `some reason` -/
def deprecation (ds : List DirUse) : Option String :=
  match ds.find? (fun d => d.name == "deprecated") with
  | none => none
  | some d =>
    match d.args.find? (fun a => a.1 == "reason") with
    | some a => some (GoString.rawOfRendered a.2)
    | none => some "No longer supported"

def specifiedBy (ds : List DirUse) : J :=
  match ds.find? (fun d => d.name == "specifiedBy") with
  | none => .null
  | some d =>
    match d.args.find? (fun a => a.1 == "url") with
    | some a => .str (GoString.rawOfRendered a.2)
    | none => .null

def optStr : Option String → J
  | some s => .str s
  | none => .null

/-- reference to a named type -/
def namedRef (S : Schema) (n : String) : J :=
  match S.type? n with
  | some td => .obj [tn "__Type", ("kind", .str td.kind.toString), ("name", .str n), ("ofType", .null)]
  | none => .null

def typeRef (S : Schema) : TypeRef → J
  | .named n => namedRef S n
  | .list t => .obj [tn "__Type", ("kind", .str "LIST"), ("name", .null), ("ofType", typeRef S t)]
  | .nonNull t => .obj [tn "__Type", ("kind", .str "NON_NULL"), ("name", .null), ("ofType", typeRef S t)]

def inputValue (S : Schema) (name desc : String) (t : TypeRef) (dflt : Option String) : J :=
  .obj [tn "__InputValue", ("name", .str name), ("description", .str desc), ("type", typeRef S t),
        ("defaultValue", optStr dflt)]

def argJ (S : Schema) (a : ArgDef) : J := inputValue S a.name a.desc a.type a.default

def fieldJ (S : Schema) (f : FieldDef) : J :=
  .obj [tn "__Field", ("name", .str f.name), ("description", .str f.desc),
        ("args", .arr (f.args.map (argJ S))), ("type", typeRef S f.type),
        ("isDeprecated", .bool (deprecation f.directives).isSome),
        ("deprecationReason", optStr (deprecation f.directives))]

def inputFieldJ (S : Schema) (f : FieldDef) : J := inputValue S f.name f.desc f.type f.default

def enumJ (e : EnumVal) : J :=
  .obj [tn "__EnumValue", ("name", .str e.name), ("description", .str e.desc),
        ("isDeprecated", .bool (deprecation e.directives).isSome),
        ("deprecationReason", optStr (deprecation e.directives))]

def isObjectType (S : Schema) (n : String) : Bool :=
  match S.type? n with
  | some td => td.kind == .object
  | none => false

def onKinds (k : Kind) (ks : List Kind) (v : J) : J := if ks.contains k then v else .null

/-- the full `__Type` object of a named type -/
def fullType (S : Schema) (td : TypeDef) : J :=
  .obj [tn "__Type", ("kind", .str td.kind.toString), ("name", .str td.name), ("description", .str td.desc),
        ("specifiedByURL", if td.kind == .scalar then specifiedBy td.directives else .null),
        ("fields", onKinds td.kind [.object, .interface]
            (.arr ((td.fields.filter (fun f => !isBuiltinNameI f.name)).map (fieldJ S)))),
        ("interfaces", onKinds td.kind [.object, .interface] (.arr (td.interfaces.map (namedRef S)))),
        ("possibleTypes", onKinds td.kind [.interface, .union]
            (.arr (((S.possibleOf td.name).filter (isObjectType S)).map (namedRef S)))),
        ("enumValues", onKinds td.kind [.enum] (.arr (td.enumValues.map enumJ))),
        ("inputFields", onKinds td.kind [.inputObject] (.arr (td.fields.map (inputFieldJ S)))),
        ("ofType", .null)]

def directiveJ (S : Schema) (d : DirDef) : J :=
  .obj [tn "__Directive", ("name", .str d.name), ("description", .str d.desc),
        ("locations", .arr (d.locations.map .str)), ("args", .arr (d.args.map (argJ S))),
        ("isRepeatable", .bool d.repeatable)]

def rootRef (S : Schema) : Option String → J
  | some n => namedRef S n
  | none => .null

def schemaJ (S : Schema) : J :=
  .obj [tn "__Schema", ("description", .null),
        ("queryType", rootRef S S.query), ("mutationType", rootRef S S.mutation),
        ("subscriptionType", rootRef S S.subscription),
        ("types", .arr (S.types.map (fullType S))),
        ("directives", .arr (S.directives.map (directiveJ S)))]

/-- the answer document -/
def introspect (S : Schema) : J := .obj [("__schema", schemaJ S)]

/-! ## projection through a selection set -/

def nameIs (n : String) (t : J) : Bool :=
  match t.get? "name" with
  | some (.str m) => m == n
  | _ => false

def docTypes (doc : J) : List J :=
  match doc.get? "__schema" with
  | some sch =>
    match sch.get? "types" with
    | some (.arr ts) => ts
    | _ => []
  | none => []

/-- `__schema.types` entry of that name, or `null` -/
def findType (doc : J) (n : String) : J := ((docTypes doc).find? (nameIs n)).getD .null

/-- value of key `k` of object `v`; a reference to a named type is followed into `types` -/
def getKey (doc v : J) (k : String) : J :=
  match v.get? k with
  | some x => x
  | none =>
    match v.get? "__typename", v.get? "name" with
    | some (.str "__Type"), some (.str n) => ((findType doc n).get? k).getD .null
    | _, _ => .null

def isDeprecatedJ (x : J) : Bool :=
  match x.get? "isDeprecated" with
  | some (.bool true) => true
  | _ => false

def dropDeprecated : J → J
  | .arr xs => .arr (xs.filter (fun x => !isDeprecatedJ x))
  | x => x

/-- value of a field of `v` before its sub-selection is applied -/
def ifieldValue (doc : J) (vars : List (String × J)) (v : J) (n : String) (args : List (String × IVal)) : J :=
  match n with
  | "__type" => findType doc (ISel.strArg vars args "name")
  | "fields" | "enumValues" =>
    if ISel.boolArg vars args "includeDeprecated" then getKey doc v n else dropDeprecated (getKey doc v n)
  | _ => getKey doc v n

mutual
  def deepMerge : J → J → J
    | .obj a, b =>
      match b with
      | .obj bs => .obj (mergeO a bs ++ bs.filter (fun kv => (J.lookup kv.1 a).isNone))
      | _ => .obj a
    | .arr a, b =>
      match b with
      | .arr bs => .arr (mergeL a bs)
      | _ => .arr a
    | a, _ => a
  def mergeO : List (String × J) → List (String × J) → List (String × J)
    | [], _ => []
    | (k, va) :: rest, bs =>
      (match J.lookup k bs with
       | some vb => (k, deepMerge va vb)
       | none => (k, va)) :: mergeO rest bs
  def mergeL : List J → List J → List J
    | [], _ => []
    | a :: as, bs =>
      match bs with
      | [] => a :: as
      | b :: bs' => deepMerge a b :: mergeL as bs'
end

/-- `CollectFields`: one entry per response key, in order of first appearance; entries with the
    same key merged -/
def mergePairs : List (String × J) → List (String × J) → List (String × J)
  | acc, [] => acc
  | acc, (k, v) :: rest =>
    match J.lookup k acc with
    | some old => mergePairs (J.setKey k (deepMerge old v) acc) rest
    | none => mergePairs (acc ++ [(k, v)]) rest

/-- apply an object projection `f` to one value: `null` stays `null` -/
def projElem (f : J → List (String × J)) : J → J
  | .null => .null
  | y => .obj (mergePairs [] (f y))

/-- apply an object projection to the value of a composite field: element-wise through a list -/
def projWith (f : J → List (String × J)) : J → J
  | .arr xs => .arr (xs.map (projElem f))
  | y => projElem f y

mutual
  def sel1 (doc : J) (vars : List (String × J)) (v : J) : ISel → List (String × J)
    | .inline sub => selL doc vars v sub
    | .field a n args sub =>
      let x := ifieldValue doc vars v n args
      [(a, match sub with
           | [] => x
           | _ => projWith (fun y => selL doc vars y sub) x)]
  def selL (doc : J) (vars : List (String × J)) (v : J) : List ISel → List (String × J)
    | [] => []
    | s :: rest => sel1 doc vars v s ++ selL doc vars v rest
end

/-- the answer to an introspection operation with root selection `sels` -/
def select (vars : List (String × J)) (sels : List ISel) (doc : J) : J :=
  .obj (mergePairs [] (selL doc vars doc sels))

end PebblesVerif.Spec
