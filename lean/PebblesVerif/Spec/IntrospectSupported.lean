import PebblesVerif.Spec.IntrospectSpec
/-!
The feature set on which the gateway's introspection resolver is proved to answer exactly as
the specification prescribes (`C16_resolve_eq_spec_partial`), as decidable predicates.

Selections (`supportedSel`):
* every field is one the resolver has an arm for, in the place the introspection schema puts it
  (`child`): no `__typename`, no `__Schema.description`, no `__Directive.isRepeatable`, no
  `__Type.specifiedByURL`;
* leaves carry no sub-selection, composite fields carry a non-empty one (validation guarantees it);
* in every selection set (inline fragments flattened) the response keys are pairwise distinct
  (no field merging needed);
* the sub-selection of `__schema.types` / `__schema.directives` selects `name` un-aliased (the
  resolver's `sortPayload` then fixes the order; without it the order is Go's map order).

Schemas (`supportedSchema`):
* type names and directive names pairwise distinct and listed in increasing order (what the
  harness serialiser produces from gqlparser's maps);
* every `@deprecated` application gives its `reason`;
* the root operation types are the types named `Query` / `Mutation` / `Subscription`;
* every directive definition has at least one location (the grammar requires it).
-/
namespace PebblesVerif.Spec
open PebblesVerif

inductive Ctx where
  | root | schema | type | field | input | enum | directive
  deriving DecidableEq, Repr

/-- `none`: the resolver has no arm for this field here; `some none`: a leaf;
    `some (some c)`: a composite field whose sub-selection is read in context `c` -/
def child : Ctx → String → Option (Option Ctx)
  | .root, "__schema" => some (some .schema)
  | .root, "__type" => some (some .type)
  | .schema, "types" => some (some .type)
  | .schema, "queryType" => some (some .type)
  | .schema, "mutationType" => some (some .type)
  | .schema, "subscriptionType" => some (some .type)
  | .schema, "directives" => some (some .directive)
  | .type, "kind" => some none
  | .type, "name" => some none
  | .type, "description" => some none
  | .type, "fields" => some (some .field)
  | .type, "interfaces" => some (some .type)
  | .type, "possibleTypes" => some (some .type)
  | .type, "enumValues" => some (some .enum)
  | .type, "inputFields" => some (some .input)
  | .type, "ofType" => some (some .type)
  | .field, "name" => some none
  | .field, "description" => some none
  | .field, "args" => some (some .input)
  | .field, "type" => some (some .type)
  | .field, "isDeprecated" => some none
  | .field, "deprecationReason" => some none
  | .input, "name" => some none
  | .input, "description" => some none
  | .input, "type" => some (some .type)
  | .input, "defaultValue" => some none
  | .enum, "name" => some none
  | .enum, "description" => some none
  | .enum, "isDeprecated" => some none
  | .enum, "deprecationReason" => some none
  | .directive, "name" => some none
  | .directive, "description" => some none
  | .directive, "locations" => some none
  | .directive, "args" => some (some .input)
  | _, _ => none

mutual
  /-- `name` selected un-aliased (inline fragments flattened) -/
  def hasName1 : ISel → Bool
    | .inline sub => hasName sub
    | .field a n _ _ => a == "name" && n == "name"
  def hasName : List ISel → Bool
    | [] => false
    | s :: rest => hasName1 s || hasName rest
end

/-- lists that come out of a Go map and are ordered by `sortPayload` -/
def isMapList (c : Ctx) (n : String) : Bool := c == .schema && (n == "types" || n == "directives")

mutual
  def ok1 (c : Ctx) : ISel → Bool
    | .inline sub => okL c sub
    | .field _ n _ sub =>
      match child c n with
      | none => false
      | some none => sub.isEmpty
      | some (some c') =>
        !sub.isEmpty && okL c' sub && decide (ISel.keys sub).Nodup && (!isMapList c n || hasName sub)
  def okL (c : Ctx) : List ISel → Bool
    | [] => true
    | s :: rest => ok1 c s && okL c rest
end

/-- the supported introspection operations (root selection set) -/
def supportedSel (sels : List ISel) : Bool := okL .root sels && decide (ISel.keys sels).Nodup

/-- a `@deprecated` application carries its `reason` -/
def reasonOK (ds : List DirUse) : Bool :=
  match ds.find? (fun d => d.name == "deprecated") with
  | none => true
  | some d => (d.args.find? (fun a => a.1 == "reason")).isSome

def reasonsGiven (S : Schema) : Bool :=
  S.types.all (fun td => td.fields.all (fun f => reasonOK f.directives) && td.enumValues.all (fun e => reasonOK e.directives))

/-- the root type of an operation kind is the type with the conventional name, if there is one -/
def rootIsDefault (S : Schema) (root : Option String) (conventional : String) : Bool :=
  root == (if (S.type? conventional).isSome then some conventional else none)

def defaultRoots (S : Schema) : Bool :=
  rootIsDefault S S.query "Query" && rootIsDefault S S.mutation "Mutation" && rootIsDefault S S.subscription "Subscription"

def strictlySorted (names : List String) : Bool := decide (names.Pairwise (· < ·))

def supportedSchema (S : Schema) : Bool :=
  strictlySorted (S.types.map (·.name)) && strictlySorted (S.directives.map (·.name))
    && reasonsGiven S && defaultRoots S && S.directives.all (fun d => !d.locations.isEmpty)

end PebblesVerif.Spec
