import PebblesVerif.Spec.StandardAnswer
import PebblesVerif.Gen.Remote
/-!
The feature set on which the reconstruction of introspection/remote.go is proved faithful
(`C15_rebuild_partial`), as decidable predicates, and the equivalence it is faithful up to.

`supportedC15 S`:
* type names strictly increasing (distinct), non-empty; the types gqlparser adds itself (`builtIn`)
  are exactly the ones `parseType` skips by name; likewise the four built-in directives;
* every definition has the shape of its kind (an object has no enum values, a union no fields, …);
* every type reference is expressible in `ast.Type` (no non-null of non-null), names a type of the
  schema and has at most `typeRefLevels - 1` = 7 list / non-null wrappers;
* **no default value** on any field argument, directive argument or input field;
* **no `@deprecated`** on any field or enum value; **no repeatable** directive;
* interfaces named by a type are interfaces of the schema; the members of a union / the
  implementations of an interface, as gqlparser's `PossibleTypes` lists them, are object types of
  the schema, and a union's `Types` are exactly those;
* the query root is a type of the schema; mutation / subscription roots, when present, too; the
  three are pairwise distinct.

`normSchema`: what an introspection answer can carry at all — applied directives other than
`@deprecated` are not part of it, nor are `__schema` / `__type` on the query root, nor the
definitions gqlparser adds itself, nor its derived `PossibleTypes` / `Implements` tables.
-/
namespace PebblesVerif

/-- number of list / non-null wrappers -/
def TypeRef.depth : TypeRef → Nat
  | .named _ => 0
  | .list t => t.depth + 1
  | .nonNull t => t.depth + 1

/-- `ast.Type` cannot express non-null of non-null -/
def TypeRef.normal : TypeRef → Bool
  | .named _ => true
  | .list t => t.normal
  | .nonNull (.nonNull _) => false
  | .nonNull t => t.normal

end PebblesVerif

namespace PebblesVerif.Spec
open PebblesVerif

def typeRefOK (S : Schema) (t : TypeRef) : Bool :=
  t.normal && decide (t.depth < typeRefLevels) && (S.type? t.name).isSome

def noDeprecation (ds : List DirUse) : Bool := (ds.filter (fun d => d.name == "deprecated")).isEmpty

def argOK (S : Schema) (a : ArgDef) : Bool := typeRefOK S a.type && a.default.isNone && noDeprecation a.directives

def isUserType (S : Schema) (n : String) : Bool :=
  match S.type? n with
  | some td => !Gen.Remote.skipTypeNames.contains td.name
  | none => false

def isUserKind (S : Schema) (k : Kind) (n : String) : Bool :=
  match S.type? n with
  | some td => td.kind == k && !Gen.Remote.skipTypeNames.contains td.name
  | none => false

def shaped (td : TypeDef) : Bool :=
  match td.kind with
  | .scalar => td.fields.isEmpty && td.interfaces.isEmpty && td.members.isEmpty && td.enumValues.isEmpty
  | .object | .interface => td.members.isEmpty && td.enumValues.isEmpty
  | .union => td.fields.isEmpty && td.interfaces.isEmpty && td.enumValues.isEmpty
  | .enum => td.fields.isEmpty && td.interfaces.isEmpty && td.members.isEmpty
  | .inputObject => td.interfaces.isEmpty && td.members.isEmpty && td.enumValues.isEmpty && td.fields.all (fun f => f.args.isEmpty)

def possibleObjects (S : Schema) (td : TypeDef) : List String := (S.possibleOf td.name).filter (isObjectType S)

def userTypeOK (S : Schema) (td : TypeDef) : Bool :=
  td.name != "" && shaped td && noDeprecation td.directives
  && td.fields.all (fun f => typeRefOK S f.type && f.default.isNone && noDeprecation f.directives && f.args.all (argOK S))
  && td.enumValues.all (fun e => noDeprecation e.directives)
  && td.interfaces.all (isUserKind S .interface)
  && (td.kind != .union || td.members == possibleObjects S td)
  && ((td.kind != .union && td.kind != .interface) || (possibleObjects S td).all (isUserType S))

def found (S : Schema) (t : TypeRef) : Bool := (S.type? t.name).isSome

/-- every name a definition mentions is a type of the schema (gqlparser's loader guarantees it) -/
def refsOK (S : Schema) (td : TypeDef) : Bool :=
  td.fields.all (fun f => found S f.type && f.args.all (fun a => found S a.type))
  && td.interfaces.all (fun i => (S.type? i).isSome)

def typeOK (S : Schema) (td : TypeDef) : Bool :=
  refsOK S td && (if Gen.Remote.skipTypeNames.contains td.name then td.builtIn else !td.builtIn && userTypeOK S td)

def directiveOK (S : Schema) (d : DirDef) : Bool :=
  d.args.all (fun a => found S a.type)
  && (Gen.Remote.skipDirectiveNames.contains d.name || (d.name != "" && !d.repeatable && d.args.all (argOK S)))

def rootOK (S : Schema) : Option String → Bool
  | none => true
  | some n => isUserType S n

def supportedC15 (S : Schema) : Bool :=
  decide ((S.types.map (·.name)).Pairwise (· < ·)) && decide ((S.directives.map (·.name)).Pairwise (· < ·))
  && S.types.all (typeOK S) && S.directives.all (directiveOK S)
  && S.query.isSome && rootOK S S.query && rootOK S S.mutation && rootOK S S.subscription
  && S.query != S.mutation && S.query != S.subscription && (S.mutation.isNone || S.mutation != S.subscription)

/-! ### the equivalence -/

def keepDeprecated (ds : List DirUse) : List DirUse := ds.filter (fun d => d.name == "deprecated")

def normArg (a : ArgDef) : ArgDef := { a with directives := keepDeprecated a.directives }

def normField (f : FieldDef) : FieldDef :=
  { f with args := f.args.map normArg, directives := keepDeprecated f.directives }

def normEnum (e : EnumVal) : EnumVal := { e with directives := keepDeprecated e.directives }

def normType (td : TypeDef) : TypeDef :=
  { td with fields := (td.fields.filter (fun f => !isBuiltinNameI f.name)).map normField,
            enumValues := td.enumValues.map normEnum, directives := keepDeprecated td.directives, builtIn := false }

def normDir (d : DirDef) : DirDef := { d with args := d.args.map normArg }

/-- the part of a schema an introspection answer carries -/
def normSchema (S : Schema) : Schema :=
  { types := (S.types.filter (fun td => !Gen.Remote.skipTypeNames.contains td.name)).map normType,
    directives := (S.directives.filter (fun d => !Gen.Remote.skipDirectiveNames.contains d.name)).map normDir,
    possible := [], implements := [], query := S.query, mutation := S.mutation, subscription := S.subscription }

end PebblesVerif.Spec
