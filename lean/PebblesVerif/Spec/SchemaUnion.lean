import PebblesVerif.Model.TypeURLMap
/-!
# What C03, C04, C05 say, independently of how `Merge` computes it

* the ITEMS of a schema: one per type (name, kind), field (type, name, result type, default),
  argument (…, name, type, default), enum value, union member, implemented interface — fields
  named `__…` and types named `__…` aside (introspection machinery, never printed);
  directive DEFINITIONS are compared whole;
* `Superset` / `NoInvention`: the merged schema has every item of every input / no other;
* `declares S T f`;
* one conflict predicate per kind in C05's statement (two services);
* well-formedness facts every schema loaded by gqlparser has (`TypesNodup`, `FieldsNodup`,
  `RootsAreObjects`).
Core Lean only.
-/
namespace PebblesVerif.SchemaUnion
open PebblesVerif PebblesVerif.Merge
open PebblesVerif.Gen.Merge (idFieldName nodeFieldName nodeInterfaceName)

inductive Item where
  | type (name : String) (kind : Kind)
  | field (T f : String) (type : TypeRef) (default : Option String)
  | arg (T f a : String) (type : TypeRef) (default : Option String)
  | enumValue (T v : String)
  | member (U m : String)
  | iface (T I : String)
  deriving DecidableEq, Repr

def fieldItems (T : String) (f : FieldDef) : List Item :=
  .field T f.name f.type f.default :: f.args.map (fun a => .arg T f.name a.name a.type a.default)

def hasFields (k : Kind) : Bool := k == .object || k == .interface || k == .inputObject
def hasInterfaces (k : Kind) : Bool := k == .object || k == .interface

/-- the items one definition contributes, by kind (fields named `__…` aside): a scalar has none
    but itself, a union its members, an enum its values, the others fields (and interfaces) -/
def defItems (d : TypeDef) : List Item :=
  .type d.name d.kind ::
    ((if hasFields d.kind then (d.fields.filter (fun f => !isBuiltinName f.name)).flatMap (fieldItems d.name) else [])
      ++ (if d.kind == .enum then d.enumValues.map (fun e => .enumValue d.name e.name) else [])
      ++ (if d.kind == .union then d.members.map (fun m => .member d.name m) else [])
      ++ (if hasInterfaces d.kind then d.interfaces.map (fun i => .iface d.name i) else []))

/-- the items of a type map -/
def typesItems (ts : List TypeDef) : List Item := ts.flatMap defItems

/-- `r` has everything `d` has -/
def Covers (d r : TypeDef) : Prop := ∀ it ∈ defItems d, it ∈ defItems r

/-- every input item (types named `__…` aside) is in the result, same signature; every
    directive definition is in the result -/
def Superset (inputs : List Schema) (R : Schema) : Prop :=
  (∀ S ∈ inputs, ∀ d ∈ S.types, isBuiltinName d.name = false → ∀ it ∈ defItems d, it ∈ typesItems R.types)
  ∧ (∀ S ∈ inputs, ∀ dd ∈ S.directives, dd ∈ R.directives)

/-- `PossibleTypes[U]` of `S` lists `m` (how a "broken remote union" carries its members) -/
def possibleDeclares (S : Schema) (U m : String) : Prop := ∃ e ∈ S.possible, e.1 = U ∧ m ∈ e.2

/-- every result item is an item of some input (a union member may come from an input's
    `PossibleTypes` of that union); every directive definition is some input's -/
def NoInvention (inputs : List Schema) (R : Schema) : Prop :=
  (∀ it ∈ typesItems R.types, (∃ S ∈ inputs, it ∈ typesItems S.types) ∨
      (∃ U m, it = .member U m ∧ ∃ S ∈ inputs, possibleDeclares S U m))
  ∧ (∀ dd ∈ R.directives, ∃ S ∈ inputs, dd ∈ S.directives)

/-- service schema `S` declares field `f` on type `T` -/
def declares (S : Schema) (T f : String) : Prop := ∃ d ∈ S.types, d.name = T ∧ ∃ fd ∈ d.fields, fd.name = f

instance (S : Schema) (T f : String) : Decidable (declares S T f) := by unfold declares; infer_instance

/-! ## what gqlparser guarantees of a loaded schema -/

def TypesNodup (S : Schema) : Prop := (S.types.map (·.name)).Nodup
def FieldsNodup (S : Schema) : Prop := ∀ d ∈ S.types, (d.fields.map (·.name)).Nodup
def RootsAreObjects (S : Schema) : Prop := ∀ d ∈ S.types, isRootName d.name = true → d.kind = .object

/-! ## the conflicts of C05's statement, between two services `A` and `B` -/

/-- a type both declare, by name (types named `__…` and `Node` itself aside) -/
def Shared (A B : Schema) (a b : TypeDef) : Prop :=
  a ∈ A.types ∧ b ∈ B.types ∧ a.name = b.name ∧ isBuiltinName a.name = false ∧ a.name ≠ nodeInterfaceName

/-- composite kinds: merged field by field -/
def composite (k : Kind) : Bool := k == .object || k == .interface || k == .inputObject || k == .enum

/-- the same two fields are the relay entry point, declared identically -/
def sameNodeField (F : Gen.Merge.Facts) (f g : FieldDef) : Bool :=
  isNodeField F f && isNodeField F g && isSameSignature f g

/-- 1. the same root field declared twice -/
def RootFieldTwice (F : Gen.Merge.Facts) (A B : Schema) : Prop :=
  ∃ a b, Shared A B a b ∧ a.kind = b.kind ∧ isRootName a.name = true ∧
    ∃ f ∈ a.fields, ∃ g ∈ b.fields, f.name = g.name ∧ isBuiltinName f.name = false ∧ sameNodeField F f g = false

/-- 2. one name used for different kinds -/
def KindMismatch (A B : Schema) : Prop := ∃ a b, Shared A B a b ∧ a.kind ≠ b.kind

/-- 3. a type that implements Node in one service but not in another -/
def NodeImplMismatch (A B : Schema) : Prop :=
  ∃ a b, Shared A B a b ∧ a.kind = b.kind ∧ composite a.kind = true ∧ implementsNode a ≠ implementsNode b

/-- 4. a Node type with a non-`id` field declared by two services -/
def NodeFieldTwice (A B : Schema) : Prop :=
  ∃ a b, Shared A B a b ∧ a.kind = b.kind ∧ composite a.kind = true ∧ isRootName a.name = false ∧
    implementsNode a = true ∧ implementsNode b = true ∧
    ∃ f ∈ a.fields, ∃ g ∈ b.fields, f.name = g.name ∧ isBuiltinName f.name = false ∧ isIDField g = false

/-- 5. a shared plain type or input that is neither identical nor disjoint (field names) -/
def NeitherIdenticalNorDisjoint (A B : Schema) : Prop :=
  ∃ a b, Shared A B a b ∧ a.kind = b.kind ∧ composite a.kind = true ∧ isRootName a.name = false ∧
    (∃ f ∈ a.fields, ∃ g ∈ b.fields, f.name = g.name ∧ isBuiltinName f.name = false ∧ isIDField g = false) ∧
    (∃ g ∈ b.fields, isBuiltinName g.name = false ∧ ∀ f ∈ a.fields, f.name ≠ g.name)

/-- 6. a shared field with different type or arguments -/
def FieldSignatureDiffers (A B : Schema) : Prop :=
  ∃ a b, Shared A B a b ∧ a.kind = b.kind ∧ composite a.kind = true ∧ isRootName a.name = false ∧
    ∃ f ∈ a.fields, ∃ g ∈ b.fields, f.name = g.name ∧ isBuiltinName f.name = false ∧ isSameSignature f g = false

/-- 7. a union with different members -/
def UnionMembersDiffer (A B : Schema) : Prop :=
  ∃ a b, Shared A B a b ∧ a.kind = .union ∧ b.kind = .union ∧ sameMembers a.members b.members = false

end PebblesVerif.SchemaUnion
