import PebblesVerif.Spec.IntrospectSpec
/-!
# The standard introspection query and its prescribed answer

`stdSel` is the selection set of the query introspection/remote.go sends (equal in shape to
graphql-js' `getIntrospectionQuery()`): the harness compares it on every run with the parsed
text the real code sends (driver op `c15.stdsel`). `standardAnswer S` is the projection of the
specification's answer document through it: what a spec-compliant service answers.
Type references are asked to `typeRefLevels = 8` levels (`ofType` at the first 7).
-/
namespace PebblesVerif.Spec
open PebblesVerif

def leaf (n : String) : ISel := .field n n [] []
def comp (n : String) (sub : List ISel) : ISel := .field n n [] sub

/-- `fragment TypeRef`: `kind name` at every level, `ofType` below the first `d` levels -/
def typeRefSel : Nat → List ISel
  | 0 => [leaf "kind", leaf "name"]
  | d + 1 => [leaf "kind", leaf "name", comp "ofType" (typeRefSel d)]

def typeRefLevels : Nat := 8

def inputValueSel : List ISel :=
  [leaf "name", leaf "description", comp "type" [.inline (typeRefSel (typeRefLevels - 1))], leaf "defaultValue"]

def inclDeprecated : List (String × IVal) := [("includeDeprecated", .lit (.bool true))]

def fullTypeSel : List ISel :=
  [leaf "kind", leaf "name", leaf "description",
   .field "fields" "fields" inclDeprecated
     [leaf "name", leaf "description", comp "args" [.inline inputValueSel],
      comp "type" [.inline (typeRefSel (typeRefLevels - 1))], leaf "isDeprecated", leaf "deprecationReason"],
   comp "inputFields" [.inline inputValueSel],
   comp "interfaces" [.inline (typeRefSel (typeRefLevels - 1))],
   .field "enumValues" "enumValues" inclDeprecated
     [leaf "name", leaf "description", leaf "isDeprecated", leaf "deprecationReason"],
   comp "possibleTypes" [.inline (typeRefSel (typeRefLevels - 1))]]

/-- the root selection set of `query IntrospectionQuery` -/
def stdSel : List ISel :=
  [comp "__schema"
    [comp "queryType" [leaf "name"], comp "mutationType" [leaf "name"], comp "subscriptionType" [leaf "name"],
     comp "types" [.inline fullTypeSel],
     comp "directives" [leaf "name", leaf "description", leaf "locations", comp "args" [.inline inputValueSel]]]]

/-- what a spec-compliant service answers to the standard introspection query -/
def standardAnswer (S : Schema) : J := select [] stdSel (introspect S)

end PebblesVerif.Spec
