import PebblesVerif.Gen.SubProto
import PebblesVerif.Model.SubProtoFixed
import PebblesVerif.Model.ConnWrite
/-! From the regenerated facts of the source to the parameters of the teardown models: which
protocol the tree has (unchanged / repaired / something else) and, for the repaired shape,
which of the structural facts its safety rests on still hold (`Knobs`). -/
namespace PebblesVerif.SubProtoFacts
open PebblesVerif.Gen.SubProto

/-- the tree still has the handshake of the unchanged tree (Close sends, TryLock unchecked …) -/
def isCurrent (f : Facts) : Bool :=
  f.closeBody == expectedCurrent.closeBody && f.listenExit == expectedCurrent.listenExit

def knobsOf (f : Facts) : SubProtoFixed.Knobs :=
  { guardSends := f.respSendsGuarded && !f.respClosed,
    setInLock := f.closeBody == expectedFixed.closeBody,
    exitAlways := f.exitAlways }

/-- are all frame writes on the client connection made under the write mutex? -/
def writesLocked (f : Facts) : Bool := f.rawWrites.isEmpty && !f.lockedWriters.isEmpty

end PebblesVerif.SubProtoFacts
