import PebblesVerif.Gen.SubProto
import PebblesVerif.Model.SubProtoFixed
import PebblesVerif.Model.ConnWrite
import PebblesVerif.Model.SubInit
/-! From the regenerated facts of the source to the parameters of the teardown models: which
protocol the tree has (unchanged / repaired / something else) and, for the repaired shape,
which of the structural facts its safety rests on still hold (`Knobs`). -/
namespace PebblesVerif.SubProtoFacts
open PebblesVerif.Gen.SubProto

/-- the tree still has the handshake of the unchanged tree (Close sends, TryLock unchecked …) -/
def isCurrent (f : Facts) : Bool :=
  f.closeBody == expectedCurrent.closeBody && f.listenExit == expectedCurrent.listenExit

def knobsOf (f : Facts) : SubProtoFixed.Knobs :=
  { guardSends := f.respSendsGuarded && !f.respClosed,
    setInLock := f.closeBody == expectedFixed.closeBody,
    exitAlways := f.exitAlways }

/-- are all frame writes on the client connection made under the write mutex? -/
def writesLocked (f : Facts) : Bool := f.rawWrites.isEmpty && !f.lockedWriters.isEmpty

/-! ### the establishment phase of `Subscribe` (Model/SubInit.lean) -/

/-- the statement sequence both variants of Model/SubInit.lean share: `errCh` is unbuffered, closed
    once by `Subscribe`'s own `defer`, received from once by `Subscribe`; the reader marshals and
    writes `connection_init`, then `start`, every failure branch ends in `return`, then
    `errCh <- nil` and the read loop; the closer waits, then closes the upstream connection -/
def initRecognised (f : Facts) : Bool :=
  f.recognised && f.errChan == expectedFixed.errChan
    && (f.initSteps == expectedFixed.initSteps || f.initSteps == expectedCurrent.initSteps)
    && (f.closerBody == expectedFixed.closerBody || f.closerBody == expectedCurrent.closerBody)
    && (f.readerExit == expectedFixed.readerExit
        || f.readerExit == ["defer recover", "conn.Close", "send(nil)"]
        || f.readerExit == expectedCurrent.readerExit)

/-- which variant of Model/SubInit.lean the tree has: `repaired` iff a failed establishment
    closes `failedCh` before reporting the error and BOTH goroutines select on `failedCh` -/
def initVariant (f : Facts) : SubInit.Variant :=
  if f.initFailureReleasesGoroutines then .repaired else .preRepair

end PebblesVerif.SubProtoFacts
