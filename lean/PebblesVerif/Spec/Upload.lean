import PebblesVerif.Model.Upload
/-!
# Specification side of C19: what a well-formed file map is, and what "arrives unchanged" means

Positions are lists of path parts relative to `variables` (the Go strings are these parts joined
with "."; `Proofs/Upload.lean` has the split/join round trip). Core Lean only.
-/
namespace PebblesVerif.Upload
open PebblesVerif.Gen.Requests (Facts)

/-- a list index written the way `fmt.Sprintf("%d")` writes it (`"01"`, `"+1"` also reach index 1
through `strconv.Atoi`, but are not the position the gateway re-emits) -/
def canonIdx (q : String) : Option Nat :=
  match atoi q with
  | some (Int.ofNat i) => if toString i = q then some i else none
  | _ => none

/-- the path names a `null` leaf of the tree, walking objects by key and — as last step only — a
list by canonical index: exactly the positions the GraphQL multipart convention lets a client
fill with a file, restricted to what `injectFile` supports -/
def nullAt : List String → List (String × V) → Bool
  | [], _ => false
  | p :: rest, m =>
    match lookup p m with
    | some .null => rest.isEmpty
    | some (.obj sub) => nullAt rest sub
    | some (.list xs) =>
      match rest with
      | [q] =>
        match canonIdx q with
        | some i => (match xs[i]? with | some .null => true | _ => false)
        | none => false
      | _ => false
    | _ => false

/-- a flattened file map: (file, position) pairs -/
abbrev Pairs := List (Nat × List String)

/-- well-formed map for a variables tree: every position names a null leaf; positions distinct -/
def wfMap (vars : List (String × V)) (pairs : Pairs) : Prop :=
  (∀ x ∈ pairs, nullAt x.2 vars = true) ∧ (pairs.map (·.2)).Nodup

instance (vars : List (String × V)) (pairs : Pairs) : Decidable (wfMap vars pairs) := by
  unfold wfMap; infer_instance

/-- each file is used at one position -/
def filesDistinct (pairs : Pairs) : Prop := (pairs.map (·.1)).Nodup

instance (pairs : Pairs) : Decidable (filesDistinct pairs) := by unfold filesDistinct; infer_instance

/-- the tree came from JSON: no upload in it yet -/
def noUploads (vars : List (String × V)) : Prop := upsKVs vars = []

instance (vars : List (String × V)) : Decidable (noUploads vars) := by unfold noUploads; infer_instance

/-- `injectFile` for all pairs on one request's variables, positions already split -/
def injectPairs (F : Facts) : Pairs → List (String × V) → Res (List (String × V))
  | [], m => .ok m
  | (u, p) :: r, m =>
    match walk F u p m with
    | .ok m' => injectPairs F r m'
    | .err e => .err e
    | .panic x => .panic x

/-- the downstream service of request `req` received file `u` at position `variables.<path>`
with its bytes: some multipart call for `req` has that part, encoded from an undrained reader,
and the variables it carries are `vars` -/
def delivered (F : Facts) (calls : List Call) (req : Nat) (vars : List (String × V)) (x : Nat × List String) : Bool :=
  calls.any (fun c => match c with
    | .multipart r v parts =>
      decide (r = req) && decide (v = some vars) && parts.contains (⟨x.1, F.positionPrefix :: x.2, true⟩ : Part)
    | .json _ => false)

/-- the per-step variables `executor.getVariables` builds: the named top-level entries -/
def stepVars (names : List String) (m : List (String × V)) : List (String × V) :=
  m.filter (fun kv => names.contains kv.1)

/-- two steps (two services, or two depths) that both use the client's variables, one after the
other: the second sees the client's tree as the first left it, and the readers the first drained -/
def twoSteps (F : Facts) (client : List (String × V)) : List Call × List Call :=
  let s1 := sendStep F [some client] []
  let s2 := sendStep F [some (afterStep client)] s1.2
  (s1.1, s2.1)

def Call.req? : Call → Option Nat
  | .multipart r _ _ => some r
  | .json _ => none

end PebblesVerif.Upload
