//go:build !verif

// Package verifhook provides interleaving points for the verification harness.
// Without the build tag `verif` (this file) they compile to nothing.
package verifhook

// At is an interleaving point; a no-op in normal builds.
func At(point string, key interface{}) {}
