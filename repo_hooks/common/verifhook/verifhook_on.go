//go:build verif

// Package verifhook provides interleaving points for the verification harness.
//
// With the build tag `verif` every call of At hands control to the Controller installed by
// the harness (which may block the calling goroutine: a rendez-vous used to force schedules,
// or just record the point for trace conformance). Without the tag At is an empty function.
package verifhook

import (
	"runtime"
	"sync/atomic"
)

// Controller receives: the name of the point (e.g. "K.tryLock"), a key identifying the object
// the point belongs to (for subscription entries: the entry's response channel, which both the
// gateway side and the queryer side of one subscription share) and the id of the calling
// goroutine.
type Controller func(point string, key interface{}, gid uint64)

type holder struct{ c Controller }

var cur atomic.Value // holder

// Set installs (or, with nil, removes) the controller.
func Set(c Controller) { cur.Store(holder{c}) }

// At is an interleaving point. It is placed BEFORE the operation its name describes.
func At(point string, key interface{}) {
	h, _ := cur.Load().(holder)
	if h.c == nil {
		return
	}
	h.c(point, key, goid())
}

// goid parses "goroutine N [" from the current stack header.
func goid() uint64 {
	var buf [40]byte
	n := runtime.Stack(buf[:], false)
	var id uint64
	for _, ch := range buf[len("goroutine "):n] {
		if ch < '0' || ch > '9' {
			break
		}
		id = id*10 + uint64(ch-'0')
	}
	return id
}
