//go:build verif

package executor

// Verification hooks (build tag `verif` only): export the unexported stage of the depth
// executor that builds one batch per service and fans the answers back out, so that the
// harness can drive it on generated request lists and compare it with the Lean model
// (Model/IndexMap.lean). No behaviour is added or changed.

// VerifQueryerResponse mirrors the unexported queryerResponse.
type VerifQueryerResponse struct {
	Missing          bool // the slot was left nil by executeRequests
	Response         map[string]interface{}
	ExecutionRequest *ExecutionRequest
}

// VerifExecuteRequests runs (*DepthExecutor).executeRequests on a fresh DepthExecutor with the
// same point-data extractor the manager installs.
func VerifExecuteRequests(ctx *ExecutionContext, ers []*ExecutionRequest) ([]*VerifQueryerResponse, error) {
	de := &DepthExecutor{
		ctx:                ctx,
		PointDataExtractor: &CachedPointDataExtractor{cache: make(map[string]*PointData)},
	}
	resps, err := de.executeRequests(ers)
	if err != nil {
		return nil, err
	}
	out := make([]*VerifQueryerResponse, len(resps))
	for i, r := range resps {
		if r == nil {
			out[i] = &VerifQueryerResponse{Missing: true}
			continue
		}
		out[i] = &VerifQueryerResponse{Response: r.Response, ExecutionRequest: r.ExecutionRequest}
	}
	return out, nil
}

// VerifIndexMapKeys replays setIMap alone over (index, request, variables) triples and returns,
// per request, whether it was new and the (key, targetIndex, indexes) entries in the map.
type VerifIndexMapEntry struct {
	Key         string
	TargetIndex int
	Indexes     []int
}

func VerifSetIMap(ers []*ExecutionRequest, variables []map[string]interface{}) (isNew []bool, entries []VerifIndexMapEntry) {
	de := &DepthExecutor{ctx: &ExecutionContext{}}
	iMap := make(indexMap, len(ers))
	for i, er := range ers {
		isNew = append(isNew, de.setIMap(i, er, variables[i], iMap))
	}
	for k, v := range iMap {
		entries = append(entries, VerifIndexMapEntry{Key: k, TargetIndex: v.targetIndex, Indexes: append([]int(nil), v.indexes...)})
	}
	return isNew, entries
}
