//go:build verif

package planner

// Verification hook (build tag `verif` only): the cache key CachedPlanner computes for a
// planning context, so that the harness can feed the Lean cache model (Model/Cache.lean) the
// keys the real code uses and predict the hit/miss pattern of a request history.
func (cp *CachedPlanner) VerifHash(ctx *PlanningContext) [20]byte {
	return cp.hash(ctx)
}

// VerifCacheLen reports the number of cached plans and of timers (they must stay equal).
func (cp *CachedPlanner) VerifCacheLen() (plans int, timers int) {
	cp.RLock()
	defer cp.RUnlock()
	return len(cp.cache), len(cp.cacheTimers)
}
