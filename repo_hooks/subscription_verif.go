//go:build verif

package pebbles

import (
	"errors"
	"net/http"

	"github.com/buildbuildio/pebbles/planner"
	"github.com/buildbuildio/pebbles/requests"
	"github.com/vektah/gqlparser/v2"
	"github.com/vektah/gqlparser/v2/ast"
)

// VerifSubscription (build tag `verif` only) performs exactly what the `start` arm of the
// websocket handler does for one subscription request — load and validate the query, select
// the operation, build the planning context, newSubscriptionEntry (which asks the configured
// planner for the plan and subscribes at the root service through the configured queryer
// factory) — without a websocket connection, and returns the per-event pipeline
// (subscriptionEntry.prepareResponse). Listen is not started; the caller feeds root events.
func (g *Gateway) VerifSubscription(request *requests.Request) (func(*requests.Response) *requests.Response, error) {
	if request.Original == nil {
		request.Original, _ = http.NewRequest(http.MethodGet, "/", nil)
	}
	query, qerr := gqlparser.LoadQuery(g.schema, request.Query)
	if qerr != nil {
		return nil, qerr
	}
	var operation *ast.OperationDefinition
	if request.OperationName != nil {
		operation = query.Operations.ForName(*request.OperationName)
	} else if len(query.Operations) == 1 {
		operation = query.Operations[0]
	}
	if operation == nil {
		return nil, errors.New("no operation")
	}
	subEntry, err := g.newSubscriptionEntry("verif", &planner.PlanningContext{
		Request:    request,
		Operation:  operation,
		Schema:     g.schema,
		TypeURLMap: g.typeURLMap,
	})
	if err != nil {
		return nil, err
	}
	return subEntry.prepareResponse, nil
}
