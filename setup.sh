#!/bin/bash
# MANIFEST.setup_cmd — offline build of the framework from files on disk:
#   extractor -> Gen/*.lean ; lake build (library, property theorems, audits, native driver) ; harness.
set -e
cd "$(dirname "$0")"
export GOFLAGS=-mod=mod GOPROXY=off GOSUMDB=off GOTOOLCHAIN=local
tools/build_harness.sh /repo "$(pwd)/bin"
bin/extract /repo lean/PebblesVerif/Gen
python3 tools/gen_all.py
(cd lean && lake build 2>&1 | grep -v '^✔\|^ℹ\|^info:' | tail -40; exit ${PIPESTATUS[0]})
echo "setup ok"
