#!/bin/bash
# Build the Go harness (vh, extract) against a pebbles source tree (default /repo), with -tags verif.
# usage: tools/build_harness.sh [repo_path] [out_dir]
set -e
HERE="$(cd "$(dirname "$0")/.." && pwd)"
REPO="${1:-${VERIF_REPO:-/repo}}"
OUT="${2:-$HERE/bin}"
export GOFLAGS=-mod=mod GOPROXY=off GOSUMDB=off GOTOOLCHAIN=local
mkdir -p "$OUT"
cd "$HERE/harness"
cp "$REPO/go.sum" go.sum
if [ "$REPO" = "/repo" ]; then
  MODFLAG=""
else
  sed "s#=> /repo#=> $REPO#" go.mod > "$OUT/alt.mod"
  cp go.sum "$OUT/alt.sum"
  MODFLAG="-modfile=$OUT/alt.mod"
fi
go build $MODFLAG -tags verif -o "$OUT/vh" ./cmd/vh
go build $MODFLAG -o "$OUT/extract" ./cmd/extract
