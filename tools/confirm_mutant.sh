#!/bin/bash
# usage: tools/confirm_mutant.sh <dir with patch.diff + *_test.go>
# Confirms a seeded change independently of its author, in a scratch worktree of /repo's HEAD:
# (1) the demonstration passes on the unchanged tree, (2) the patch applies and the tree builds,
# (3) the repository's own suite passes with the patch (demonstration absent; the two known-flaky
# subscription tests of package queryer are retried), (4) the demonstration fails with the patch.
# Prints one line: CONFIRMED / REJECTED <why>. The worktree is removed.
D="$(cd "$1" && pwd)"
export GOFLAGS=-mod=mod GOPROXY=off GOSUMDB=off GOTOOLCHAIN=local
W=$(mktemp -d /tmp/confirm-XXXX)
flock /tmp/.seedrun-git.lock git -C /repo worktree add -f --detach "$W" "${BASE:-HEAD}" >/dev/null 2>&1
fin() { flock /tmp/.seedrun-git.lock git -C /repo worktree remove --force "$W"; echo "$(basename "$(dirname "$D")")/$(basename "$D"): $1"; exit 0; }
T=$(ls "$D"/*_test.go | head -1); [ -f "$T" ] || fin "REJECTED no demonstration"
PKG=$(grep -m1 '^package ' "$T" | awk '{print $2}' | sed 's/_test$//')
if [ "$PKG" = pebbles ]; then SUB=.; else SUB=$(cd "$W" && grep -rl --include=*.go "^package $PKG\$" . | grep -v _test.go | head -1 | xargs dirname); fi
[ -n "$SUB" ] || fin "REJECTED package $PKG not found"
FN=$(grep -m1 -o 'func Test[A-Za-z0-9_]*' "$T" | awk '{print $2}')
demo() { (cd "$W" && cp "$T" "$SUB/" && go test -vet=off -count=1 -run "^$FN\$" "./$SUB" >"$W/.demo.log" 2>&1; rc=$?; rm -f "$SUB/$(basename "$T")"; exit $rc); }
demo || fin "REJECTED demonstration fails on the unchanged tree"
git -C "$W" apply "$D/patch.diff" 2>/dev/null || fin "REJECTED patch does not apply"
(cd "$W" && go build ./... >/dev/null 2>&1) || fin "REJECTED does not build"
ok=0; for k in 1 2 3; do F=$(cd "$W" && go test -vet=off -count=1 ./... 2>&1 | grep "^--- FAIL" | grep -v "TestSubscribe"); [ -z "$F" ] && { ok=1; break; }; done
[ $ok = 1 ] || fin "REJECTED suite fails with the patch: $(echo $F | head -c 120)"
demo && fin "REJECTED demonstration passes with the patch"
fin "CONFIRMED pkg=$SUB test=$FN"
