#!/usr/bin/env python3
"""Regenerate MANIFEST.json from checks/*.json, manifest_meta.json and properties.jsonl."""
import json, os, glob, subprocess
HERE = os.path.join(os.path.dirname(os.path.abspath(__file__)), "..")
meta = json.load(open(os.path.join(HERE, "manifest_meta.json")))
props = [json.loads(l)["id"] for l in open(os.path.join(HERE, "properties.jsonl")) if l.strip()]
checks = []
claimed = set()
for p in sorted(glob.glob(os.path.join(HERE, "checks", "C*.json"))):
    c = json.load(open(p))
    pid = c["property"]
    claimed.add(pid)
    checks.append({
        "property_id": pid,
        "quick_cmd": "./check %s --tier quick" % pid,
        "thorough_cmd": "./check %s --tier thorough" % pid,
        "evidence_file": "evidence/%s.json" % pid,
        "replay_cmd_template": "./check %s --replay {path}" % pid,
        "engine": "lean4+harness",
        "level_claimed": {"category": c.get("level", "proof"), "text": c.get("level_text", ""), "design_ref": c.get("design_ref", "DESIGN.md §6 " + pid)},
        "level_note": c.get("level_note", "; ".join(c.get("trusted_base", []))),
        "technique": c.get("technique", "Lean 4 theorems about a hand-written executable model + correspondence check against the Go implementation"),
    })
na = [{"property_id": p, "reason": meta.get("not_applicable", {}).get(p, "check not built yet in this round (no technique switch; see DESIGN.md)")} for p in props if p not in claimed]
m = {"version": 1, "setup_cmd": "./setup.sh", "hooks": meta["hooks"], "engines": meta["engines"], "checks": checks, "notes": meta.get("notes", ""), "not_applicable": na}
for e in m["engines"]:
    e["serves_properties"] = sorted(claimed)
json.dump(m, open(os.path.join(HERE, "MANIFEST.json"), "w"), indent=1)
# known_findings.json = concatenation of the committed fragments (never written at run time)
findings, fixed = [], []
for p in sorted(glob.glob(os.path.join(HERE, "known_findings.d", "*.json"))):
    d = json.load(open(p))
    if isinstance(d, list):
        findings += d
    else:
        findings += d.get("findings", [])
        fixed += d.get("fixed", [])
json.dump({"findings": findings, "fixed": fixed}, open(os.path.join(HERE, "known_findings.json"), "w"), indent=1)
print("MANIFEST.json: %d checks, %d not_applicable" % (len(checks), len(na)))
