#!/bin/bash
# usage: tools/run_seeded.sh [seed_id ...]   (default: all under seeded/)
# For each seeded change: scratch worktree of /repo HEAD, apply patch.diff, run the repository's
# own suite (must stay green), run the checks named in meta.json with VERIF_REPO=<worktree>,
# write seeded/<id>/result.json, remove the worktree. /repo itself is never modified.
HERE="$(cd "$(dirname "$0")/.." && pwd)"
cd "$HERE"
export GOFLAGS=-mod=mod GOPROXY=off GOSUMDB=off GOTOOLCHAIN=local
IDS="$@"; [ -z "$IDS" ] && IDS=$(ls seeded | grep -v '\.')
for ID in $IDS; do
  D="seeded/$ID"; [ -f "$D/patch.diff" ] || continue
  W=$(mktemp -d /tmp/seedrun-XXXX)
  # git's worktree bookkeeping is not safe against concurrent add/remove: serialise it
  flock /tmp/.seedrun-git.lock git -C /repo worktree add -f --detach "$W" "${BASE:-HEAD}" >/dev/null 2>&1
  if [ ! -f "$W/go.mod" ]; then echo "$ID: could not create the scratch worktree"; rm -rf "$W"; continue; fi
  if ! git -C "$W" apply "$HERE/$D/patch.diff" 2>/dev/null; then
    echo "{\"seed_id\":\"$ID\",\"applies\":false,\"head\":\"$(git -C /repo rev-parse --short "${BASE:-HEAD}")\"}" > "$D/result.json"
    echo "$ID: patch does not apply to HEAD"
    flock /tmp/.seedrun-git.lock git -C /repo worktree remove --force "$W"; continue
  fi
  SUITE=$(cd "$W" && go test -vet=off -count=1 ./... 2>&1 | grep -c "^FAIL\|^--- FAIL")
  CHECKS=$(python3 -c "import json;print(' '.join(json.load(open('$D/meta.json'))['checks']))")
  RESF=$(mktemp /tmp/seedres-XXXX)
  for P in $CHECKS; do
    OUT=$(VERIF_REPO="$W" VERIF_EVIDENCE_DIR="$W/.evidence" ./check "$P" 2>&1); RC=$?
    echo "$OUT" > "$RESF.$P.out"
    echo "$P $RC" >> "$RESF"
    echo "$ID: $P exit=$RC $(echo "$OUT" | grep -A1 '^VIOLATION' | grep -v '^VIOLATION\|^--' | head -1)" | cut -c1-200
  done
  python3 - "$D/result.json" "$ID" "$(git -C /repo rev-parse --short "${BASE:-HEAD}")" "$SUITE" "$RESF" <<'PY'
import json,sys
out,sid,head,suite,resf=sys.argv[1:6]
results=[]
for line in open(resf):
    p,rc=line.split()
    txt=open(resf+"."+p+".out",errors="replace").read().split("\n")
    first="";nf=0
    for i,l in enumerate(txt):
        if l.startswith("VIOLATION"):
            nf=1 if "no-failing-input-found" in l else 0
            first=(txt[i+1].strip() if i+1<len(txt) else "")[:240]
            break
    results.append({"check":p,"exit":int(rc),"first_violation":first,"no_failing_input":nf})
json.dump({"seed_id":sid,"applies":True,"head":head,"suite_failures":int(suite),"results":results},open(out,"w"),indent=1)
PY
  rm -f "$RESF" "$RESF".*.out
  flock /tmp/.seedrun-git.lock git -C /repo worktree remove --force "$W"
done
bin/extract /repo lean/PebblesVerif/Gen >/dev/null 2>&1
