#!/bin/bash
# usage: tools/seed_import.sh <mutant_dir> <seed_id> <checks...>
# Copies a confirmed seeded change (patch.diff, demonstration, meta.json) into seeded/<seed_id>/ and
# records which checks to run against it ("checks" in meta.json). Nothing is applied to /repo.
set -e
SRC="$1"; ID="$2"; shift 2
HERE="$(cd "$(dirname "$0")/.." && pwd)"
DST="$HERE/seeded/$ID"
mkdir -p "$DST/demo"
cp "$SRC/patch.diff" "$DST/patch.diff"
for f in "$SRC"/*; do
  b=$(basename "$f")
  case "$b" in patch.diff|meta.json) ;; *) cp -r "$f" "$DST/demo/";; esac
done
python3 - "$SRC/meta.json" "$DST/meta.json" "$ID" "$@" <<'PY'
import json,sys,subprocess
src,dst,sid=sys.argv[1:4]; checks=sys.argv[4:]
m=json.load(open(src))
m["seed_id"]=sid
m["checks"]=checks
m["origin"]="written by a fresh sub-agent that saw only the property text and a scratch worktree of /repo"
json.dump(m,open(dst,"w"),indent=1)
PY
echo "imported $ID"
