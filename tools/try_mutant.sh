#!/bin/bash
# usage: tools/try_mutant.sh <mutant_dir with patch.diff> <property ids...>
# Applies the patch in a scratch worktree of /repo's HEAD, checks that the existing suite still
# passes, then runs the given checks against that worktree. Prints one summary line per check.
D="$1"; shift
W=$(mktemp -d /tmp/mutrun-XXXX)
export GOFLAGS=-mod=mod GOPROXY=off GOSUMDB=off GOTOOLCHAIN=local
git -C /repo worktree add -f --detach "$W" "${BASE:-HEAD}" >/dev/null 2>&1
if ! git -C "$W" apply "$D/patch.diff" 2>/tmp/apply.err; then echo "PATCH DOES NOT APPLY: $(head -2 /tmp/apply.err)"; git -C /repo worktree remove --force "$W"; exit 2; fi
SUITE=$(cd "$W" && go test -vet=off -count=1 ./... 2>&1 | grep -c "^FAIL\|^---")
echo "existing suite failures: $SUITE"
cd "$(dirname "$0")/.."
for P in "$@"; do
  OUT=$(VERIF_REPO="$W" VERIF_EVIDENCE_DIR="$W/.evidence" ./check "$P" 2>&1)
  RC=$?
  echo "$P exit=$RC :: $(echo "$OUT" | grep -c '^VIOLATION') violation line(s) :: $(echo "$OUT" | grep '^VIOLATION' | head -1 | cut -c1-110) :: $(echo "$OUT" | grep -A1 '^VIOLATION' | grep -v '^VIOLATION' | head -1 | cut -c1-160)"
done
git -C /repo worktree remove --force "$W"
# restore the generated facts for /repo itself
bin/extract /repo lean/PebblesVerif/Gen >/dev/null 2>&1
